// C16 correspondence harness: drives the real scanner.Fetcher (Run / Stop) and
// scanner.Scanner (ScanLog) against a scripted scanner.LogClient (per-request short reads,
// injected 429 / 5xx / network / gRPC-Unavailable errors, a tree-growth history) under
// testing/synctest virtual time, records the linearised event log (tree heads, requests
// and answers, callbacks, Stop / cancel, return) and writes it as a Coq case that the
// model replays.  The direct property oracle (independent of the model) is evaluated on
// the delivered (index, bytes) multiset.
//
// Determinism for a fixed VERIF_SEED: every call the implementation makes into the harness
// (GetSTH, GetRawEntries, the fetcher callback, foundCert / foundPrecert) waits at a gate;
// the controller waits until the whole bubble is quiescent (synctest.Wait), then releases
// ONE waiting call chosen by the case's PRNG - so the interleaving is a function of the
// seed, and it varies from case to case.  Time is virtual; the global math/rand source
// (trillian's back-off jitter) is seeded as if by Seed(1).  What stays outside the
// harness's control is Go's random choice in genRanges' select after Stop / cancel.

//go:debug randautoseed=0
package main

import (
	"context"
	"errors"
	"flag"
	"fmt"
	"io"
	mrand "math/rand"
	"os"
	"runtime"
	"sort"
	"strings"
	"sync"
	"sync/atomic"
	"testing"
	"testing/synctest"
	"time"

	ct "github.com/google/certificate-transparency-go"
	"github.com/google/certificate-transparency-go/jsonclient"
	"github.com/google/certificate-transparency-go/scanner"
	"github.com/google/certificate-transparency-go/tls"
	"github.com/google/certificate-transparency-go/x509"
	"google.golang.org/grpc/codes"
	"google.golang.org/grpc/status"
	"k8s.io/klog/v2"

	"verif/harness/lib"
	"verif/harness/pki"
)

const header = `From Coq Require Import ZArith List. Import ListNotations.
From V Require Import Scanner.FetchModel Scanner.ConsumeModel Scanner.FetchCase.
Local Open Scope Z_scope.
`

// ---------------------------------------------------------------- script

type rkind int

const (
	rFull rkind = iota
	rShort
	rE429
	rE500
	rENet
	rEUnavail
	rZero
	rOver
)

var rnames = map[rkind]string{rFull: "full", rShort: "short", rE429: "429", rE500: "500", rENet: "net", rEUnavail: "unavailable", rZero: "zero", rOver: "over"}

type rspec struct {
	kind rkind
	k    int
}

type sthStep struct {
	size int64
	err  bool
}

type spec struct {
	scan       bool
	batch      int
	workers    int
	start, end int64
	cont       bool
	sth        []sthStep // GetSTH answers by call number; the first is Prepare's
	logLen     int
	resp       map[int64][]rspec
	stopAtReq  int    // Fetcher.Stop() during the n-th GetRawEntries (0 = never)
	cancelReq  int    // cancel the caller's context during the n-th GetRawEntries
	// scan only: cancel the caller's context from the consumer side, in the middle of a batch that is being
	// handed to the matcher workers: during the n-th evaluation of the matcher / the n-th found callback
	cancelAtMatch int
	cancelAtFound int
	endAction  string // continuous mode: "stop" | "cancel" once the tree-head script is used up
	tag        string
	// scan only
	mk          string // "cert" | "leaf" | "nil"
	precertOnly bool
	matchers    int
	buffer      int
	mask        []bool // matcher verdict per pool item
	logItems    []int  // pool item per index
	// non-fatal stream (nonfatal_test.go): which implementation of the matcher kind mk is configured
	// ("" = the harness's own certMatcher / leafMatcher, or no matcher at all for mk "nil") and with what
	impl    string   // "all" | "subject-regex" | "serial" | "issuer-regex" (mk "cert"); "parse-fail" | "parse-fail+non-fatal" (mk "leaf")
	implArg []string // the common names / the serial number / the issuer name the matcher is built from
}

// ---------------------------------------------------------------- entry pool for scans

type poolItem struct {
	class  string // "x509" | "x509bad" | "pre" | "bad"
	leaf   ct.LeafEntry
	key    string // callback identity: RawLogEntry.Cert.Data
	serial string
	// what the matchers of the repository look at (subject / issuer common name of the parsed [pre-]certificate)
	cn, issuer string
	// the [pre-]certificate parses, but the repository's parser complains about it (x509.NonFatalErrors):
	// which tolerable defect it carries ("" = none)
	defect string
}

var pool []poolItem

// basePool: the pool items the older streams draw from (clean certificates and precertificates, unparsable
// ones, broken leaves).  The items after them carry a tolerable defect each (buildNonFatalPool); they are
// scanned by the fixed scan cases and by the non-fatal stream (nonfatal_test.go).
const basePool = 18

// padMask extends a matcher mask drawn for the first basePool items to the whole pool (the older streams
// never log the later items; their PRNG consumption stays what it was).
func padMask(m []bool) []bool {
	for len(m) < len(pool) {
		m = append(m, true)
	}
	return m
}

func must(err error) {
	if err != nil {
		panic(err)
	}
}

func buildPool() {
	root := pki.Issue(pki.Opts{CN: "c16 root", IsCA: true}, nil)
	chain, err := tls.Marshal(ct.CertificateChain{Entries: []ct.ASN1Cert{{Data: root.DER}}})
	must(err)
	for i := 0; i < 8; i++ {
		c := pki.Issue(pki.Opts{CN: fmt.Sprintf("leaf%d.example", i)}, root)
		li, err := tls.Marshal(*ct.CreateX509MerkleTreeLeaf(ct.ASN1Cert{Data: c.DER}, uint64(1000+i)))
		must(err)
		pool = append(pool, poolItem{class: "x509", leaf: ct.LeafEntry{LeafInput: li, ExtraData: chain}, key: string(c.DER), serial: c.Cert.SerialNumber.String(),
			cn: fmt.Sprintf("leaf%d.example", i), issuer: "c16 root"})
	}
	for i := 0; i < 6; i++ {
		c := pki.Issue(pki.Opts{CN: fmt.Sprintf("pre%d.example", i)}, root)
		pre := pki.Issue(pki.Opts{CN: fmt.Sprintf("pre%d.example", i), ExtraExt: nil}, root)
		leaf := ct.MerkleTreeLeaf{Version: ct.V1, LeafType: ct.TimestampedEntryLeafType,
			TimestampedEntry: &ct.TimestampedEntry{Timestamp: uint64(2000 + i), EntryType: ct.PrecertLogEntryType,
				PrecertEntry: &ct.PreCert{TBSCertificate: c.Cert.RawTBSCertificate}}}
		li, err := tls.Marshal(leaf)
		must(err)
		extra, err := tls.Marshal(ct.PrecertChainEntry{PreCertificate: ct.ASN1Cert{Data: pre.DER}, CertificateChain: []ct.ASN1Cert{{Data: root.DER}}})
		must(err)
		pool = append(pool, poolItem{class: "pre", leaf: ct.LeafEntry{LeafInput: li, ExtraData: extra}, key: string(pre.DER), serial: c.Cert.SerialNumber.String(),
			cn: fmt.Sprintf("pre%d.example", i), issuer: "c16 root"})
	}
	for i := 0; i < 2; i++ { // well-formed leaf around bytes that are not a certificate
		der := []byte{0x30, 0x03, 0x01, 0x02, byte(i)}
		li, err := tls.Marshal(*ct.CreateX509MerkleTreeLeaf(ct.ASN1Cert{Data: der}, uint64(3000+i)))
		must(err)
		pool = append(pool, poolItem{class: "x509bad", leaf: ct.LeafEntry{LeafInput: li, ExtraData: chain}, key: string(der)})
	}
	// leaf input that does not unmarshal; good leaf with extra data that does not unmarshal
	pool = append(pool, poolItem{class: "bad", leaf: ct.LeafEntry{LeafInput: []byte{0xff, 0x00, 0x01}, ExtraData: chain}})
	pool = append(pool, poolItem{class: "bad", leaf: ct.LeafEntry{LeafInput: pool[0].leaf.LeafInput, ExtraData: []byte{0x00, 0x00, 0x09, 0x01}}})
	if len(pool) != basePool {
		panic("c16: basePool is out of date")
	}
	buildNonFatalPool(root)
	// sanity: the classes are what the real parsers say
	for i, p := range pool {
		rle, err := ct.RawLogEntryFromLeaf(0, &p.leaf)
		got := "bad"
		if err == nil {
			le, perr := rle.ToLogEntry()
			fatal := perr != nil && x509.IsFatal(perr)
			checkParsed(i, p, le, perr)
			switch rle.Leaf.TimestampedEntry.EntryType {
			case ct.X509LogEntryType:
				got = "x509"
				if fatal {
					got = "x509bad"
				}
			case ct.PrecertLogEntryType:
				got = "pre"
				if fatal {
					got = "prebad"
				}
			}
		}
		if got != p.class {
			panic(fmt.Sprintf("pool item %d: class %s, parsers say %s", i, p.class, got))
		}
	}
}

func classCoq(c string, m bool) string {
	switch c {
	case "x509":
		return lib.Pair("CX509 true", lib.Bool(m))
	case "x509bad":
		return lib.Pair("CX509 false", lib.Bool(m))
	case "pre":
		return lib.Pair("CPre true", lib.Bool(m))
	}
	return lib.Pair("CBad", lib.Bool(m))
}

type certMatcher struct {
	sel  map[string]bool
	hook func()
}

func (m certMatcher) CertificateMatches(c *x509.Certificate) bool {
	m.hook()
	return m.sel[c.SerialNumber.String()]
}
func (m certMatcher) PrecertificateMatches(p *ct.Precertificate) bool {
	m.hook()
	return m.sel[p.TBSCertificate.SerialNumber.String()]
}

type leafMatcher struct {
	sel  map[string]bool
	hook func()
}

func (m leafMatcher) Matches(l *ct.LeafEntry) bool {
	m.hook()
	return m.sel[string(l.LeafInput)+"|"+string(l.ExtraData)]
}

// ---------------------------------------------------------------- scripted log

type fakeLog struct {
	mu        sync.Mutex
	sp        *spec
	entries   []ct.LeafEntry
	tokens    []int64
	tokOf     map[string]int64
	sthCalls  int
	lastSize  int64
	published int64
	attempts  map[int64]int
	nreq      int
	endDone   bool
	stop      func()
	cancel    func()
	evCoq     []string
	evJSON    []string
	used      map[string]bool
	nonconf   bool
	storm     bool
	delivered []deliv
	found     []foundRec
	prng      *mrand.Rand
	pending   []pendCall
	open      bool
	// termination watchdogs
	cancelledAt time.Time // virtual instant of the scripted cancellation (zero: none)
	cancelWhere string    // what the implementation was doing when its context was cancelled
	nmatch      int       // matcher evaluations so far
	nfound      int       // found callbacks so far
	gateInst    time.Time // calls into the harness at the current instant of virtual time
	gateCalls   int
}

// instBudget: calls into the scripted log / the callbacks at ONE instant of virtual time.  A scripted case
// causes a few hundred at most (every request and callback of a run without errors happens at instant 0);
// more means a loop that neither pauses nor makes progress.
const instBudget = 5000

// scriptedCancel cancels the caller's context on behalf of the case's script (l.mu held).
func (l *fakeLog) scriptedCancel(where string) {
	l.ev("ECancel", "cancel")
	if l.cancelledAt.IsZero() {
		l.cancelledAt, l.cancelWhere = time.Now(), where
	}
	l.cancel()
}

// matchHook is called by the case's matcher for every entry it is asked about (on a matcher worker).
func (l *fakeLog) matchHook() {
	l.mu.Lock()
	defer l.mu.Unlock()
	l.nmatch++
	if l.sp.cancelAtMatch == l.nmatch {
		l.scriptedCancel(fmt.Sprintf("matcher evaluation %d", l.nmatch))
	}
}

type deliv struct {
	idx   int64
	bytes bool // equal to what the log holds at idx
}
type foundRec struct {
	kind string
	idx  int64
	item int
}

func (l *fakeLog) ev(coq, js string) {
	l.evCoq = append(l.evCoq, coq)
	l.evJSON = append(l.evJSON, js)
}

func (l *fakeLog) BaseURI() string { return "scripted" }

type pendCall struct {
	key string
	ch  chan struct{}
}

// gate blocks the calling goroutine until the controller releases it.
func (l *fakeLog) gate(kind string, a, b int64) {
	l.mu.Lock()
	if now := time.Now(); !now.Equal(l.gateInst) {
		l.gateInst, l.gateCalls = now, 0
	}
	l.gateCalls++
	if l.gateCalls > instBudget && !l.storm {
		l.storm = true
		if len(l.evCoq) > 300 {
			l.evCoq, l.evJSON = l.evCoq[:300], l.evJSON[:300]
		}
		l.ev("EBad", fmt.Sprintf("call-storm: %d calls at one instant of virtual time, the last one %s(%d,%d)", l.gateCalls-1, kind, a, b))
		l.cancel()
	}
	if l.open || l.storm {
		l.mu.Unlock()
		return
	}
	c := pendCall{fmt.Sprintf("%s:%012d:%012d", kind, a, b), make(chan struct{})}
	l.pending = append(l.pending, c)
	l.mu.Unlock()
	<-c.ch
}

// releaseOne lets one waiting call proceed (PRNG choice among the calls waiting, in key order).
func (l *fakeLog) releaseOne() bool {
	l.mu.Lock()
	defer l.mu.Unlock()
	n := len(l.pending)
	if n == 0 {
		return false
	}
	sort.SliceStable(l.pending, func(i, j int) bool { return l.pending[i].key < l.pending[j].key })
	i := l.prng.Intn(n)
	c := l.pending[i]
	l.pending = append(l.pending[:i], l.pending[i+1:]...)
	close(c.ch)
	return true
}

// openGates releases everything and lets later calls pass (used once the case is over).
func (l *fakeLog) openGates() {
	l.mu.Lock()
	defer l.mu.Unlock()
	l.open = true
	for _, c := range l.pending {
		close(c.ch)
	}
	l.pending = nil
}

func (l *fakeLog) GetSTH(ctx context.Context) (*ct.SignedTreeHead, error) {
	l.gate("sth", 0, 0)
	l.mu.Lock()
	defer l.mu.Unlock()
	i := l.sthCalls
	l.sthCalls++
	if i < len(l.sp.sth) {
		st := l.sp.sth[i]
		if st.err {
			l.ev("ESth None", "sth:error")
			return nil, errors.New("scripted get-sth failure")
		}
		l.lastSize = st.size
	} else if !l.endDone {
		l.endDone = true
		switch l.sp.endAction {
		case "stop":
			l.ev("EStop", "stop")
			l.stop()
		default:
			l.scriptedCancel(fmt.Sprintf("get-sth call %d", l.sthCalls))
		}
	}
	if l.lastSize > l.published {
		l.published = l.lastSize
	}
	l.ev("ESth "+lib.Some(lib.Z(l.lastSize)), fmt.Sprintf("sth:%d", l.lastSize))
	return &ct.SignedTreeHead{TreeSize: uint64(l.lastSize)}, nil
}

func zlist(v []int64) string {
	var s []string
	for _, x := range v {
		s = append(s, lib.Z(x))
	}
	return lib.List(s)
}

func (l *fakeLog) GetRawEntries(ctx context.Context, start, end int64) (*ct.GetEntriesResponse, error) {
	l.gate("req", start, end)
	l.mu.Lock()
	defer l.mu.Unlock()
	l.nreq++
	if l.nreq > 3000 && !l.storm {
		// the fetcher re-requests without making progress: keep the head of the log only
		l.storm = true
		if len(l.evCoq) > 300 {
			l.evCoq, l.evJSON = l.evCoq[:300], l.evJSON[:300]
		}
		l.ev("EBad", "request-storm")
		l.cancel()
	}
	if l.storm {
		return nil, errors.New("request storm")
	}
	if l.sp.stopAtReq == l.nreq {
		l.ev("EStop", "stop")
		l.stop()
	}
	if l.sp.cancelReq == l.nreq {
		l.scriptedCancel(fmt.Sprintf("get-entries request %d (%d-%d)", l.nreq, start, end))
	}
	rs := rspec{kind: rFull}
	if sc := l.sp.resp[start]; l.attempts[start] < len(sc) {
		rs = sc[l.attempts[start]]
	}
	l.attempts[start]++
	asked := end - start + 1
	fail := func(err error) (*ct.GetEntriesResponse, error) {
		l.used["err:"+rnames[rs.kind]] = true
		l.ev(fmt.Sprintf("EReq %s %s None", lib.Z(start), lib.Z(end)), fmt.Sprintf("req:%d-%d:err-%s", start, end, rnames[rs.kind]))
		return nil, err
	}
	if start < 0 || start >= l.published || asked < 1 {
		// a real log answers 400; the fetcher has asked for something that is not there
		l.used["err:out-of-range"] = true
		l.ev(fmt.Sprintf("EReq %s %s None", lib.Z(start), lib.Z(end)), fmt.Sprintf("req:%d-%d:err-400", start, end))
		return nil, jsonclient.RspError{Err: errors.New("400"), StatusCode: 400}
	}
	var n int64
	switch rs.kind {
	case rE429:
		return fail(jsonclient.RspError{Err: errors.New("429 too many requests"), StatusCode: 429})
	case rE500:
		return fail(jsonclient.RspError{Err: errors.New("503 unavailable"), StatusCode: 503})
	case rENet:
		return fail(errors.New("read tcp: connection reset by peer"))
	case rEUnavail:
		return fail(status.Error(codes.Unavailable, "try again"))
	case rFull:
		n = asked
	case rShort:
		n = int64(rs.k)
		if n > asked {
			n = asked
		}
		if n < 1 {
			n = 1
		}
		if n < asked {
			l.used["short"] = true
		}
	case rZero:
		n = 0
		l.nonconf = true
		l.used["zero"] = true
	case rOver:
		n = asked + int64(rs.k)
	}
	if rs.kind == rOver {
		if start+n > int64(len(l.entries)) {
			n = int64(len(l.entries)) - start
		}
		if n > asked {
			l.nonconf = true
			l.used["over"] = true
		}
	} else if start+n > l.published {
		n = l.published - start
		l.used["short"] = true
	}
	rsp := &ct.GetEntriesResponse{Entries: append([]ct.LeafEntry{}, l.entries[start:start+n]...)}
	l.ev(fmt.Sprintf("EReq %s %s %s", lib.Z(start), lib.Z(end), lib.Some(zlist(l.tokens[start:start+n]))),
		fmt.Sprintf("req:%d-%d:ok-%d", start, end, n))
	return rsp, nil
}

func (l *fakeLog) token(e *ct.LeafEntry) int64 {
	if t, ok := l.tokOf[string(e.LeafInput)+"|"+string(e.ExtraData)]; ok {
		return t
	}
	return -1
}

func (l *fakeLog) callback(b scanner.EntryBatch) {
	l.gate("cb", b.Start, int64(len(b.Entries)))
	l.mu.Lock()
	defer l.mu.Unlock()
	var toks []int64
	for j := range b.Entries {
		idx := b.Start + int64(j)
		same := idx >= 0 && idx < int64(len(l.entries)) &&
			string(l.entries[idx].LeafInput) == string(b.Entries[j].LeafInput) &&
			string(l.entries[idx].ExtraData) == string(b.Entries[j].ExtraData)
		l.delivered = append(l.delivered, deliv{idx, same})
		toks = append(toks, l.token(&b.Entries[j]))
	}
	l.ev(fmt.Sprintf("ECb %s %s", lib.Z(b.Start), zlist(toks)), fmt.Sprintf("cb:%d+%d", b.Start, len(b.Entries)))
}

func (l *fakeLog) foundCb(kind string, keyOf map[string]int) func(*ct.RawLogEntry) {
	return func(r *ct.RawLogEntry) {
		l.gate("found-"+kind, r.Index, 0)
		l.mu.Lock()
		defer l.mu.Unlock()
		item, ok := keyOf[string(r.Cert.Data)]
		if !ok {
			item = -1
		}
		l.found = append(l.found, foundRec{kind, r.Index, item})
		k := "KCert"
		if kind == "precert" {
			k = "KPrecert"
		}
		l.ev(fmt.Sprintf("EFound %s %s %s", k, lib.Z(r.Index), lib.Z(int64(item))), fmt.Sprintf("found-%s:%d", kind, r.Index))
		l.nfound++
		if l.sp.cancelAtFound == l.nfound {
			l.scriptedCancel(fmt.Sprintf("found callback %d (index %d)", l.nfound, r.Index))
		}
	}
}

// ---------------------------------------------------------------- running one case

type result struct {
	retOK   bool
	retVal  int64
	hang    bool   // no return by the horizon of virtual time
	stuck   bool   // ... and none either after the harness cancelled the context, called Stop and opened every gate
	hangWhy string // which watchdog, at what virtual time
	panicV  interface{}
	log     *fakeLog
	coqLog  []int64
	classes []string
}

// Termination is observed, never assumed.  A call of Fetcher.Run / Scanner.ScanLog that does not come back
// is the outcome "hang" of its case (EBad in the event log, a failing verdict of the direct oracle), found by
//  (1) the virtual-time horizon: 72 h after the start, and 2 h after a cancellation the case's script
//      issued (from then on nothing the call waits for can take time: back-offs and the generator's pause
//      select on the context), with every goroutine of the bubble blocked and no call waiting at a gate;
//  (2) counters of calls into the scripted log: more than 3000 requests in all or more than instBudget
//      calls at one instant of virtual time (a loop that does not pause) end the case the same way;
//  (3) when the call ignores even the harness's own cancel + Stop with all gates open (stuck), the bubble
//      cannot be waited for: the bubble function returns and synctest reports the goroutines left behind
//      as "deadlock" (go1.26 stops the bubble's clock once its main goroutine has exited, so this also holds
//      with the scanner's throughput ticker still armed); the report is recovered here and the run goes on
//      with the next case.  Should a bubble not end within 3 s of wall-clock time all the same, the case is
//      recorded, the cases gathered so far are written and the process ends (bail);
//  (4) a wall-clock timer outside the bubble, for a spin that never calls the harness (bail as well).
func runCase(t *testing.T, sp *spec, seed int64, bail func(res *result)) *result {
	res := &result{}
	r := mrand.New(mrand.NewSource(seed))
	l := &fakeLog{sp: sp, tokOf: map[string]int64{}, attempts: map[int64]int{}, used: map[string]bool{}}
	keyOf := map[string]int{}
	if sp.scan {
		for i, p := range pool {
			l.tokOf[string(p.leaf.LeafInput)+"|"+string(p.leaf.ExtraData)] = int64(i)
			if p.key != "" {
				keyOf[p.key] = i
			}
		}
		for _, it := range sp.logItems {
			l.entries = append(l.entries, pool[it].leaf)
			l.tokens = append(l.tokens, int64(it))
		}
	} else {
		seen := map[int64]bool{}
		for i := 0; i < sp.logLen; i++ {
			tok := r.Int63n(1 << 32)
			for seen[tok] {
				tok = r.Int63n(1 << 32)
			}
			seen[tok] = true
			e := ct.LeafEntry{LeafInput: []byte{byte(tok >> 24), byte(tok >> 16), byte(tok >> 8), byte(tok), byte(i), 0x5a},
				ExtraData: []byte{byte(tok), byte(i >> 8)}}
			l.entries = append(l.entries, e)
			l.tokens = append(l.tokens, tok)
			l.tokOf[string(e.LeafInput)+"|"+string(e.ExtraData)] = tok
		}
	}
	res.log, res.coqLog = l, l.tokens
	l.prng = mrand.New(mrand.NewSource(seed ^ 0x5deece66d))

	var stuckFlag atomic.Bool
	run := func(t *testing.T) {
		ctx, cancel := context.WithCancel(context.Background())
		defer cancel()
		l.cancel = cancel
		t0 := time.Now()
		done := make(chan struct{})
		fo := scanner.FetcherOptions{BatchSize: sp.batch, ParallelFetch: sp.workers, StartIndex: sp.start, EndIndex: sp.end, Continuous: sp.cont}
		if sp.scan {
			so := scanner.ScannerOptions{FetcherOptions: fo, PrecertOnly: sp.precertOnly, NumWorkers: sp.matchers, BufferSize: sp.buffer}
			switch {
			case sp.impl != "":
				so.Matcher = repoMatcher(sp)
			case sp.mk == "cert":
				sel := map[string]bool{}
				for i, p := range pool {
					if p.serial != "" {
						sel[p.serial] = sp.mask[i]
					}
				}
				so.Matcher = certMatcher{sel, l.matchHook}
			case sp.mk == "leaf":
				sel := map[string]bool{}
				for i, p := range pool {
					sel[string(p.leaf.LeafInput)+"|"+string(p.leaf.ExtraData)] = sp.mask[i]
				}
				so.Matcher = leafMatcher{sel, l.matchHook}
			}
			l.stop = cancel // the Scanner does not expose its Fetcher: only cancellation
			s := scanner.NewScanner(l, so)
			go func() {
				defer close(done)
				defer func() { res.panicV = recover() }()
				n, err := s.ScanLog(ctx, l.foundCb("cert", keyOf), l.foundCb("precert", keyOf))
				res.retOK, res.retVal = err == nil, n
			}()
		} else {
			f := scanner.NewFetcher(l, &fo)
			l.stop = f.Stop
			go func() {
				defer close(done)
				defer func() { res.panicV = recover() }()
				err := f.Run(ctx, l.callback)
				res.retOK = err == nil
			}()
		}
		deadline := time.Now().Add(72 * time.Hour) // virtual
		finished := func() bool {
			select {
			case <-done:
				return true
			default:
				return false
			}
		}
		for {
			synctest.Wait() // every goroutine of the bubble is blocked: at a gate, on a timer, or for good
			if finished() {
				break
			}
			if l.releaseOne() {
				continue
			}
			dl, why := deadline, "72h0m0s of virtual time after the start"
			l.mu.Lock()
			if !l.cancelledAt.IsZero() && l.cancelledAt.Add(postCancelHorizon).Before(dl) {
				dl = l.cancelledAt.Add(postCancelHorizon)
				why = fmt.Sprintf("%s of virtual time after its context was cancelled (%s after the start, during %s)", postCancelHorizon, l.cancelledAt.Sub(t0), l.cancelWhere)
			}
			l.mu.Unlock()
			if time.Now().After(dl) {
				res.hang, res.hangWhy = true, "no return "+why+"; every goroutine is blocked and no call is waiting at a gate"
				break
			}
			time.Sleep(500 * time.Millisecond) // nobody is waiting for us: let the back-off timers run
		}
		cancel()
		l.openGates()
		if res.hang {
			l.mu.Lock()
			stop := l.stop
			l.mu.Unlock()
			stop()
			select {
			case <-done:
			case <-time.After(time.Hour):
				// watchdog (3): not a harness failure - the call is stuck for good
				res.stuck = true
				res.hangWhy += "; no return either within 1h0m0s after the harness cancelled the context, called Stop and opened every gate"
				l.mu.Lock() // (orders everything the blocked goroutines recorded before what follows)
				l.mu.Unlock()
				stuckFlag.Store(true)
				return
			}
		}
		time.Sleep(5 * time.Minute) // let abandoned timers and the generator goroutine finish inside the bubble
	}
	// the bubble runs on a goroutine of its own so that this one keeps a wall-clock view of it
	fin := make(chan interface{}, 1)
	go func() {
		defer func() { fin <- recover() }()
		synctest.Test(t, run)
	}()
	wall0 := time.Now()
	var stuckSince time.Time
	tick := time.NewTicker(20 * time.Millisecond)
	defer tick.Stop()
	for {
		select {
		case p := <-fin:
			if p != nil {
				msg := fmt.Sprint(p)
				if !(res.stuck && strings.HasPrefix(msg, "deadlock:")) {
					panic(p) // a fault of the harness itself
				}
				res.hangWhy += "; synctest: " + strings.SplitN(msg, "\n", 2)[0]
			}
			return res
		case <-tick.C:
			if stuckFlag.Load() {
				if stuckSince.IsZero() {
					stuckSince = time.Now()
				}
				if time.Since(stuckSince) > 3*time.Second {
					res.hangWhy += "; the bubble of the call does not end: the harness stops here"
					bail(res)
				}
			} else if time.Since(wall0) > wallLimit {
				// watchdog (4): nobody calls the harness and virtual time does not advance
				l.mu.Lock() // kept: nothing may be recorded any more
				r2 := &result{hang: true, stuck: true, log: l, coqLog: res.coqLog,
					hangWhy: fmt.Sprintf("no return within %s of wall-clock time while nothing calls the scripted log (a loop that neither pauses nor makes a request)", wallLimit)}
				bail(r2)
			}
		}
	}
}

const (
	postCancelHorizon = 2 * time.Hour
	wallLimit         = 150 * time.Second
)

// ---------------------------------------------------------------- generators

var kinds = []rkind{rE429, rE500, rENet, rEUnavail}

func genResp(r *mrand.Rand, sp *spec, pErr, pShort, pBadLog float64) {
	sp.resp = map[int64][]rspec{}
	for i := 0; i < sp.logLen; i++ {
		var sc []rspec
		if r.Float64() < pErr {
			for n := 1 + r.Intn(3); n > 0; n-- {
				k := kinds[r.Intn(len(kinds))]
				if k == rEUnavail && r.Intn(3) != 0 {
					k = rE429
				}
				sc = append(sc, rspec{kind: k})
			}
		}
		if r.Float64() < pBadLog {
			if r.Intn(2) == 0 {
				sc = append(sc, rspec{kind: rZero})
			} else {
				sc = append(sc, rspec{kind: rOver, k: 1 + r.Intn(3)})
			}
		}
		if r.Float64() < pShort {
			k := 1
			switch r.Intn(4) {
			case 0:
				k = 1
			case 1:
				k = sp.batch - 1
			default:
				k = 1 + r.Intn(sp.batch)
			}
			sc = append(sc, rspec{kind: rShort, k: k})
			if r.Intn(3) == 0 { // an error right after a short read
				sc = append(sc, rspec{kind: kinds[r.Intn(3)]})
			}
		}
		if len(sc) > 0 {
			sp.resp[int64(i)] = sc
		}
	}
}

func pick(r *mrand.Rand, xs ...int) int { return xs[r.Intn(len(xs))] }

func genFetch(r *mrand.Rand) *spec {
	sp := &spec{}
	sp.batch = pick(r, 1, 1, 2, 3, 4, 5, 7, 8, 10, 16, 33, 64, 1000)
	sp.workers = pick(r, 1, 1, 2, 2, 3, 4, 6)
	size0 := int64(pick(r, 0, 1, 2, 3, 5, 9, 10, 17, 20, 24, 31, 40, 57, 64))
	switch r.Intn(10) {
	case 0:
		sp.start = size0
	case 1:
		sp.start = size0 + int64(1+r.Intn(12))
	case 2, 3:
		sp.start = 0
	default:
		if size0 > 0 {
			sp.start = r.Int63n(size0)
		}
	}
	switch r.Intn(8) {
	case 0, 1, 2:
		sp.end = 0
	case 3:
		sp.end = sp.start
	case 4:
		sp.end = size0
	case 5:
		sp.end = size0 + int64(1+r.Intn(9))
	case 6:
		sp.end = sp.start + 1
	default:
		if size0 > sp.start {
			sp.end = sp.start + 1 + r.Int63n(size0-sp.start)
		}
	}
	sp.sth = []sthStep{{size: size0}}
	sp.logLen = int(size0)
	mode := r.Intn(10)
	switch {
	case mode < 4:
		sp.tag = "plain"
	case mode < 5:
		sp.tag = "stop"
		sp.stopAtReq = 1 + r.Intn(8)
	case mode < 6:
		sp.tag = "cancel"
		sp.cancelReq = 1 + r.Intn(8)
	default:
		sp.cont = true
		sz := size0
		for n := 1 + r.Intn(5); n > 0; n-- {
			switch r.Intn(6) {
			case 0:
				sp.sth = append(sp.sth, sthStep{err: true})
			case 1:
				sp.sth = append(sp.sth, sthStep{size: sz}) // no growth
			case 2:
				sz += int64(1 + r.Intn(3)) // slow growth: less than a batch
				sp.sth = append(sp.sth, sthStep{size: sz})
			default:
				sz += int64(1 + r.Intn(2*sp.batch+3))
				if sz > 140 {
					sz = 140
				}
				sp.sth = append(sp.sth, sthStep{size: sz})
			}
		}
		// repeat the final size so that the "any bigger tree after 45 s" path is reached
		for n := r.Intn(9); n > 0; n-- {
			sp.sth = append(sp.sth, sthStep{size: sz})
		}
		sp.logLen = int(sz)
		sp.tag = "cont-stop"
		sp.endAction = "stop"
		if r.Intn(4) == 0 {
			sp.tag, sp.endAction = "cont-cancel", "cancel"
		}
		if r.Intn(5) == 0 {
			sp.stopAtReq = 1 + r.Intn(10)
		}
	}
	if r.Intn(40) == 0 {
		sp.sth[0] = sthStep{err: true}
		sp.tag = "prepare-fail"
	}
	pBad := 0.0
	if r.Intn(8) == 0 {
		pBad = 0.1
	}
	genResp(r, sp, []float64{0, 0.1, 0.3, 0.6}[r.Intn(4)], []float64{0, 0.2, 0.5, 0.9}[r.Intn(4)], pBad)
	return sp
}

func genScan(r *mrand.Rand) *spec {
	sp := &spec{scan: true}
	sp.batch = pick(r, 1, 2, 3, 5, 8, 1000)
	sp.workers = pick(r, 1, 2, 3)
	sp.matchers = pick(r, 1, 1, 2, 4)
	sp.buffer = pick(r, 0, 0, 1, 3, 100)
	size0 := int64(pick(r, 0, 1, 4, 9, 16, 25))
	if size0 > 0 && r.Intn(3) == 0 {
		sp.start = r.Int63n(size0)
	}
	sp.end = int64(pick(r, 0, 0, int(size0), int(size0)+3, int(size0)/2))
	sp.sth = []sthStep{{size: size0}}
	sp.logLen = int(size0)
	sp.mk = []string{"cert", "cert", "leaf", "leaf", "nil"}[r.Intn(5)]
	sp.precertOnly = r.Intn(4) == 0
	sp.tag = "scan"
	switch r.Intn(8) {
	case 0:
		sp.tag = "scan-cancel"
		sp.cancelReq = 1 + r.Intn(5)
	case 1:
		sp.cont = true
		sz := size0
		for n := 1 + r.Intn(3); n > 0; n-- {
			sz += int64(1 + r.Intn(2*sp.batch+2))
			if sz > 60 {
				sz = 60
			}
			sp.sth = append(sp.sth, sthStep{size: sz})
		}
		sp.logLen = int(sz)
		sp.tag, sp.endAction = "scan-cont-cancel", "cancel"
	}
	for i := 0; i < basePool; i++ {
		sp.mask = append(sp.mask, r.Intn(3) != 0)
	}
	sp.mask = padMask(sp.mask)
	for i := 0; i < sp.logLen; i++ {
		if r.Intn(6) == 0 {
			sp.logItems = append(sp.logItems, 14+r.Intn(basePool-14)) // unparsable kinds
		} else {
			sp.logItems = append(sp.logItems, r.Intn(14))
		}
	}
	genResp(r, sp, []float64{0, 0.2, 0.5}[r.Intn(3)], []float64{0, 0.3, 0.8}[r.Intn(3)], 0)
	return sp
}

// genScanCancel: a scan whose context is cancelled while a batch is on its way from a fetch worker to the
// matcher workers: few matcher workers (1..3), an entries buffer smaller than the batch (0, 1, 2 - now
// and then larger), batches of 3..40 entries, and the cancellation issued from the consumer side - during
// the k-th evaluation of the matcher or the k-th found callback, k anywhere in the range, i.e. mostly in
// the middle of a batch - or during a get-entries request of another fetch worker.  What the property
// promises then: ScanLog returns; nothing is reported twice, outside the range or as the wrong kind.
func genScanCancel(r *mrand.Rand) *spec {
	sp := &spec{scan: true, tag: "scan-cancel-mid-batch"}
	sp.batch = pick(r, 3, 4, 5, 8, 8, 13, 16, 40, 1000)
	sp.workers = pick(r, 1, 1, 2, 3)
	sp.matchers = pick(r, 1, 1, 2, 3)
	sp.buffer = pick(r, 0, 0, 0, 1, 1, 2, 2, 5, 50)
	size0 := int64(pick(r, 5, 9, 16, 25, 40, 57))
	if r.Intn(4) == 0 {
		sp.start = r.Int63n(size0 / 2)
	}
	sp.end = int64(pick(r, 0, 0, 0, int(size0), int(size0)-1))
	sp.sth = []sthStep{{size: size0}}
	sp.logLen = int(size0)
	sp.mk = []string{"cert", "leaf"}[r.Intn(2)] // the repository's own MatchAll (mk "nil") has no hook for the harness
	sp.precertOnly = r.Intn(5) == 0
	n := int(size0 - sp.start)
	switch r.Intn(5) {
	case 0, 1:
		sp.cancelAtMatch = 1 + r.Intn(n)
	case 2:
		sp.cancelAtFound = 1 + r.Intn(n/2+1)
	case 3:
		sp.cancelReq = 1 + r.Intn(n/sp.batch+2)
	default: // at a batch boundary and one entry to either side of it
		sp.cancelAtMatch = sp.batch*(1+r.Intn(2)) + r.Intn(3) - 1
	}
	if r.Intn(6) == 0 && sp.mk == "cert" { // MatchAll after all, cancelled at a found callback
		sp.mk, sp.cancelAtMatch, sp.cancelReq, sp.cancelAtFound = "nil", 0, 0, 1+r.Intn(n/2+1)
	}
	for i := 0; i < basePool; i++ {
		sp.mask = append(sp.mask, r.Intn(4) != 0)
	}
	sp.mask = padMask(sp.mask)
	for i := 0; i < sp.logLen; i++ {
		if r.Intn(8) == 0 {
			sp.logItems = append(sp.logItems, 14+r.Intn(basePool-14))
		} else {
			sp.logItems = append(sp.logItems, r.Intn(14))
		}
	}
	genResp(r, sp, []float64{0, 0, 0.2}[r.Intn(3)], []float64{0, 0.3, 0.8}[r.Intn(3)], 0)
	return sp
}

// boundary cases named in the property (always run first)
func fixedCases() []*spec {
	var out []*spec
	add := func(tag string, batch, workers int, start, end int64, sizes ...int64) *spec {
		sp := &spec{batch: batch, workers: workers, start: start, end: end, tag: tag, resp: map[int64][]rspec{}}
		for _, s := range sizes {
			sp.sth = append(sp.sth, sthStep{size: s})
			if int(s) > sp.logLen {
				sp.logLen = int(s)
			}
		}
		out = append(out, sp)
		return sp
	}
	add("plain", 1, 1, 0, 0, 7)                // batch size 1
	add("plain", 1, 3, 2, 6, 7)                // batch size 1, several workers
	add("plain", 4, 2, 0, 0, 10)               // range not a multiple of the batch
	add("plain", 5, 2, 0, 10, 10)              // exact multiple
	add("plain", 3, 2, 4, 4, 10)               // start == end
	add("plain", 3, 2, 12, 0, 10)              // start > tree size
	add("plain", 3, 2, 10, 0, 10)              // start == tree size
	add("plain", 3, 2, 2, 50, 10)              // end beyond the tree
	add("plain", 1000, 4, 0, 0, 10)            // batch bigger than the range
	add("plain", 3, 2, 7, 3, 10)               // start > end
	add("plain", 3, 1, 0, 0, 0)                // empty log
	sp := add("plain", 4, 1, 0, 0, 10)         // short reads of every length and an error after each
	sp.resp[0] = []rspec{{rShort, 1}, {rE429, 0}}
	sp.resp[1] = []rspec{{rE500, 0}, {rENet, 0}, {rShort, 2}}
	sp.resp[3] = []rspec{{rShort, 1}}
	sp.resp[4] = []rspec{{rShort, 3}}
	sp.resp[7] = []rspec{{rEUnavail, 0}, {rShort, 1}}
	sp = add("stop", 2, 2, 0, 0, 20)
	sp.stopAtReq = 3
	sp = add("cancel", 2, 2, 0, 0, 20)
	sp.cancelReq = 3
	// continuous mode
	for _, c := range []struct {
		batch, workers int
		start          int64
		sizes          []int64
	}{
		{10, 1, 0, []int64{50, 50, 70, 120}},
		{10, 2, 50, []int64{50, 50, 70, 120}},          // start == tree size
		{10, 1, 100, []int64{50, 50, 70, 120}},         // start beyond the tree: must deliver 100..119 only
		{10, 3, 100, []int64{50, 120}},                 // the same, one big jump
		{10, 1, 100, []int64{50, 60, 70, 80}},          // never reaches the start: nothing to deliver
		{3, 2, 7, []int64{5, 6, 6, 7, 8, 8, 8, 8, 20}}, // slow growth around the start
		{1, 2, 1, []int64{0, 1, 2, 3}},
	} {
		sp := add("cont-stop", c.batch, c.workers, c.start, 0, c.sizes...)
		sp.cont, sp.endAction = true, "stop"
		// pad the tree-head script so that the slow-growth fallback (45 s) is reached
		last := sp.sth[len(sp.sth)-1]
		for i := 0; i < 8; i++ {
			sp.sth = append(sp.sth, last)
		}
	}
	return out
}

func fixedScanCases() []*spec {
	var out []*spec
	for _, mk := range []string{"cert", "leaf", "nil"} {
		for _, po := range []bool{false, true} {
			sp := &spec{scan: true, batch: 4, workers: 2, matchers: 2, buffer: 1, start: 0, end: 0, tag: "scan", mk: mk, precertOnly: po,
				resp: map[int64][]rspec{1: {{rShort, 1}, {rE429, 0}}}}
			sp.sth = []sthStep{{size: int64(len(pool))}}
			sp.logLen = len(pool)
			for i := range pool {
				sp.logItems = append(sp.logItems, i)
				sp.mask = append(sp.mask, i%3 != 1)
			}
			out = append(out, sp)
		}
	}
	return out
}

// ---------------------------------------------------------------- oracle and case emission

func effEnd(sp *spec, size0 int64) int64 {
	if sp.end == 0 || sp.end > size0 {
		return size0
	}
	return sp.end
}

// selected: what the property promises for one entry (independent of the model)
func selected(sp *spec, item int) string {
	p := pool[item]
	m := sp.mask[item]
	switch sp.mk {
	case "leaf":
		if !m || p.class == "bad" {
			return ""
		}
		if p.class == "pre" {
			return "precert"
		}
		if sp.precertOnly {
			return ""
		}
		return "cert"
	case "nil": // documented default: match everything
		m = true
	}
	switch p.class {
	case "x509":
		if m && !sp.precertOnly {
			return "cert"
		}
	case "pre":
		if m {
			return "precert"
		}
	}
	return ""
}

func emit(w *lib.Writer, sp *spec, res *result) {
	l := res.log
	size0 := int64(-1)
	if !sp.sth[0].err {
		size0 = sp.sth[0].size
	}
	if res.panicV != nil {
		l.ev("EBad", fmt.Sprintf("panic:%v", res.panicV))
	} else if res.hang {
		l.ev("EBad", "hang: "+res.hangWhy)
	} else {
		l.ev(fmt.Sprintf("EReturn %s %s", lib.Bool(res.retOK), lib.Z(res.retVal)), fmt.Sprintf("return:%v:%d", res.retOK, res.retVal))
	}
	stopped, cancelled := false, false
	for _, e := range l.evJSON {
		stopped = stopped || e == "stop"
		cancelled = cancelled || e == "cancel"
	}
	if sp.scan && stopped {
		cancelled = true
	}
	// ---- direct oracle
	ok, note := true, ""
	fail := func(f string, a ...interface{}) {
		if ok {
			ok = false
			note = fmt.Sprintf("%s batch=%d workers=%d start=%d end=%d cont=%v size0=%d: ", sp.tag, sp.batch, sp.workers, sp.start, sp.end, sp.cont, size0)
			if sp.scan {
				note = fmt.Sprintf("%s batch=%d workers=%d matchers=%d buffer=%d start=%d end=%d cont=%v size0=%d cancel_at(request=%d match=%d found=%d): ", sp.tag, sp.batch, sp.workers,
					sp.matchers, sp.buffer, sp.start, sp.end, sp.cont, size0, sp.cancelReq, sp.cancelAtMatch, sp.cancelAtFound)
			}
			note += fmt.Sprintf(f, a...)
		}
	}
	var idx []int64
	seen := map[int64]int{}
	bytesOK := true
	if sp.scan {
		for _, f := range l.found {
			seen[f.idx]++
			idx = append(idx, f.idx)
		}
	} else {
		for _, d := range l.delivered {
			seen[d.idx]++
			idx = append(idx, d.idx)
			bytesOK = bytesOK && d.bytes
		}
	}
	sort.Slice(idx, func(i, j int) bool { return idx[i] < idx[j] })
	lo := sp.start
	switch {
	case res.panicV != nil:
		fail("panic")
	case res.hang:
		what := "Fetcher.Run"
		if sp.scan {
			what = "Scanner.ScanLog"
		}
		fail("%s does not terminate: %s; %d entries delivered", what, res.hangWhy, len(idx))
	case l.storm:
		fail("does not terminate: the scripted log is called without end (%d get-entries requests)", l.nreq)
	case size0 < 0:
		if res.retOK || len(idx) > 0 {
			fail("get-sth failed but the run reported success or delivered entries")
		}
	case l.nonconf:
		// the log broke its side of the contract (no entries / more than asked): nothing promised
	case !res.retOK:
		fail("returned an error")
	default:
		for _, i := range idx {
			if i < lo {
				fail("continuous start>tree: delivered index %d below StartIndex", i)
				break
			}
		}
		for _, i := range idx {
			if seen[i] > 1 {
				fail("index %d delivered %d times", i, seen[i])
				break
			}
		}
		if !bytesOK {
			fail("delivered bytes differ from what the log returned for that index")
		}
		hi := effEnd(sp, size0)
		if sp.cont {
			hi = l.published
		}
		if hi < lo {
			hi = lo
		}
		for _, i := range idx {
			if i >= hi {
				fail("delivered index %d beyond the range end %d", i, hi)
				break
			}
		}
		if !sp.scan {
			switch {
			case cancelled:
			case stopped || sp.cont:
				for j, i := range idx { // exactly a prefix, no gaps
					if i != lo+int64(j) {
						fail("gap: index %d missing although %d was delivered", lo+int64(j), i)
						break
					}
				}
			default:
				if int64(len(idx)) != hi-lo {
					fail("delivered %d entries, range holds %d", len(idx), hi-lo)
				}
			}
		} else {
			// every selected entry of the scanned range: exactly one callback of the right kind
			type key struct {
				idx  int64
				kind string
			}
			got := map[key]int{}
			for _, f := range l.found {
				got[key{f.idx, f.kind}]++
				if f.idx < 0 || f.idx >= int64(len(sp.logItems)) || f.item != sp.logItems[f.idx] {
					fail("callback for index %d carries another entry", f.idx)
				} else if selected(sp, f.item) != f.kind {
					fail("callback %s for index %d which the matcher does not select as such (matcher=%s)", f.kind, f.idx, sp.mk)
				}
			}
			if !cancelled {
				for i := lo; i < hi; i++ {
					if k := selected(sp, sp.logItems[i]); k != "" && got[key{i, k}] != 1 {
						what := ""
						if d := pool[sp.logItems[i]].defect; d != "" {
							what = "; the entry parses with a non-fatal complaint: " + d
						}
						fail("matcher=%s selects index %d (%s) but it got %d callbacks%s", matcherName(sp), i, k, got[key{i, k}], what)
						break
					}
				}
				if want := effEnd(sp, size0); res.retVal != want && !sp.cont {
					fail("ScanLog returned %d, the (clipped) EndIndex is %d", res.retVal, want)
				}
			}
		}
	}
	// ---- case
	var coq string
	if sp.scan {
		mk := map[string]string{"cert": "MCert", "leaf": "MLeaf", "nil": "MNil"}[sp.mk]
		var cl []string
		for i, p := range pool {
			cl = append(cl, classCoq(p.class, sp.mask[i]))
		}
		coq = fmt.Sprintf("CScan %s %s %s %s %s %s %s %s %s %s", lib.Z(int64(sp.batch)), lib.Nat(sp.workers), lib.Z(sp.start), lib.Z(sp.end),
			lib.Bool(sp.cont), mk, lib.Bool(sp.precertOnly), lib.List(cl), zlist(res.coqLog), lib.List(l.evCoq))
	} else {
		coq = fmt.Sprintf("CFetch %s %s %s %s %s %s %s", lib.Z(int64(sp.batch)), lib.Nat(sp.workers), lib.Z(sp.start), lib.Z(sp.end),
			lib.Bool(sp.cont), zlist(res.coqLog), lib.List(l.evCoq))
	}
	var sizes []string
	for _, s := range sp.sth {
		if s.err {
			sizes = append(sizes, "err")
		} else {
			sizes = append(sizes, fmt.Sprint(s.size))
		}
	}
	script := map[string][]string{}
	for k, v := range sp.resp {
		for _, r := range v {
			script[fmt.Sprint(k)] = append(script[fmt.Sprint(k)], fmt.Sprintf("%s:%d", rnames[r.kind], r.k))
		}
	}
	in := map[string]interface{}{"kind": sp.tag, "batch": sp.batch, "parallel_fetch": sp.workers, "start": sp.start, "end": sp.end,
		"continuous": sp.cont, "tree_sizes": sizes, "answers_by_start_index": script, "stop_at_request": sp.stopAtReq, "cancel_at_request": sp.cancelReq}
	if sp.scan {
		in["matcher"], in["precert_only"], in["matchers"], in["buffer"] = sp.mk, sp.precertOnly, sp.matchers, sp.buffer
		if sp.impl != "" {
			in["matcher_implementation"], in["matcher_built_from"] = sp.impl, sp.implArg
		}
		// which entries of the log parse with a complaint of the parser that is not fatal
		nf := map[string]string{}
		for i, it := range sp.logItems {
			if d := pool[it].defect; d != "" {
				nf[fmt.Sprint(i)] = pool[it].class + ": " + d
			}
		}
		if len(nf) > 0 {
			in["entries_with_non_fatal_parse_errors"] = nf
		}
		in["cancel_at_matcher_evaluation"], in["cancel_at_found_callback"] = sp.cancelAtMatch, sp.cancelAtFound
	}
	tags := []string{"mode:" + sp.tag, fmt.Sprintf("workers:%d", sp.workers)}
	switch {
	case sp.batch == 1:
		tags = append(tags, "batch:1")
	case sp.batch >= 64:
		tags = append(tags, "batch:huge")
	default:
		tags = append(tags, "batch:small")
	}
	for k := range l.used {
		tags = append(tags, k)
	}
	if l.nonconf {
		tags = append(tags, "log-breaks-contract")
	}
	if size0 >= 0 {
		hi := effEnd(sp, size0)
		switch {
		case sp.start > size0:
			tags = append(tags, "start>tree")
		case sp.start == size0:
			tags = append(tags, "start=tree")
		}
		if sp.end == 0 {
			tags = append(tags, "end=0")
		} else if sp.end > size0 {
			tags = append(tags, "end>tree")
		}
		if hi <= sp.start {
			tags = append(tags, "empty-range")
		} else if (hi-sp.start)%int64(sp.batch) != 0 {
			tags = append(tags, "range-not-multiple-of-batch")
		}
	}
	if sp.scan {
		tags = append(tags, "matcher:"+sp.mk, fmt.Sprintf("scan:matchers=%d", sp.matchers))
		if sp.impl != "" {
			tags = append(tags, "matcher-impl:"+sp.impl)
		}
		for _, it := range sp.logItems {
			if pool[it].defect != "" {
				tags = append(tags, "scan:non-fatal-entries")
				break
			}
		}
		switch {
		case sp.buffer == 0:
			tags = append(tags, "scan:buffer=0")
		case sp.buffer < sp.batch:
			tags = append(tags, "scan:buffer<batch")
		default:
			tags = append(tags, "scan:buffer>=batch")
		}
		if !l.cancelledAt.IsZero() {
			// was a batch being handed over when the context was cancelled?  (entries the log has served but
			// the matcher workers had not yet been asked about)
			tags = append(tags, "scan:cancelled")
		}
	}
	if res.hang {
		tags = append(tags, "outcome:hang")
	}
	sort.Strings(tags)
	ev := l.evJSON
	if len(ev) > 400 {
		ev = append(append([]string{}, ev[:200]...), "...")
	}
	w.Add(lib.Case{Coq: coq, Input: in,
		Impl:   map[string]interface{}{"delivered_indices": idx, "returned_ok": res.retOK, "returned": res.retVal, "events": ev},
		PropOK: ok, Note: note, Tags: tags, Trivial: len(l.evCoq) <= 2})
}

func TestHarness(t *testing.T) {
	fs := flag.NewFlagSet("klog", flag.ContinueOnError)
	klog.InitFlags(fs)
	fs.Set("logtostderr", "false")
	fs.Set("alsologtostderr", "false")
	fs.Set("stderrthreshold", "FATAL")
	klog.SetOutput(io.Discard)
	if *lib.OutDir == "" {
		t.Skip("-out not given")
	}
	if lib.Tier() == "quick" {
		// one P: goroutines between two gates do not race each other in real time (channel
		// hand-overs between fetch workers and matchers become reproducible); the thorough
		// tier keeps real parallelism for the race detector
		defer runtime.GOMAXPROCS(runtime.GOMAXPROCS(1))
	}
	buildPool()
	r := lib.Rand()
	w := lib.NewWriter(header, 40)
	var specs []*spec
	specs = append(specs, fixedCases()...)
	specs = append(specs, fixedScanCases()...)
	nf, ns := lib.Count(900, 6000), lib.Count(300, 2000)
	if *lib.NFlag > 0 {
		ns = nf / 3
	}
	for i := 0; i < nf; i++ {
		specs = append(specs, genFetch(r))
	}
	for i := 0; i < ns; i++ {
		specs = append(specs, genScan(r))
	}
	// cancellation from the consumer side in the middle of a batch (appended after the older streams so
	// that their cases keep their seeds)
	for i, n := 0, lib.Count(150, 1200); i < n; i++ {
		specs = append(specs, genScanCancel(r))
	}
	seeds := make([]int64, len(specs))
	for i := range seeds {
		seeds[i] = r.Int63()
	}
	runSpecs := func(specs []*spec, seeds []int64) {
		for i, sp := range specs {
			bail := func(res *result) {
				emit(w, sp, res)
				w.Close()
				fmt.Printf("c16: case %d (%s) never returns and its bubble cannot be left; wrote %d cases and stopped\n", i, sp.tag, w.Len())
				os.Exit(0)
			}
			emit(w, sp, runCase(t, sp, seeds[i], bail))
		}
	}
	runSpecs(specs, seeds)
	// the consumers of the Fetcher: what reaches the destination (consume_test.go)
	mspecs := fixedMigrate()
	for i, n := 0, lib.Count(260, 3000); i < n; i++ {
		mspecs = append(mspecs, genMigrate(r))
	}
	for _, sp := range mspecs {
		emitMigrate(w, sp, runMigrate(t, sp))
	}
	// integration.CopyChainGenerator: with /repo fix commits ab03f88 (one FetcherOptions per fetcher) and
	// b8504d8 (entries logged without a chain) the stream runs in every build, late consumers included
	// (VERIF_C16_COPIER_LATE=0 switches them off); a late consumer that never receives what the log
	// published meanwhile fails with the key "copier-late-consumer-static-log:".
	{
		_ = raceBuild
		buildCopyPool()
		rootsFile := writeRootsFile(t.TempDir())
		late := os.Getenv("VERIF_C16_COPIER_LATE") != "0"
		for i, n := 0, lib.Count(60, 600); i < n; i++ {
			sp := genCopy(r, late)
			emitCopy(w, sp, runCopy(t, sp, rootsFile))
		}
	}
	// entries whose [pre-]certificate parses with a complaint that is not fatal (nonfatal_test.go), through the
	// Scanner with the repository's matchers and through the two consumers (placed last: the streams above
	// keep their cases)
	{
		nfSpecs := fixedScanNF()
		for i, n := 0, lib.Count(150, 1200); i < n; i++ {
			nfSpecs = append(nfSpecs, genScanNF(r))
		}
		nfSeeds := make([]int64, len(nfSpecs))
		for i := range nfSeeds {
			nfSeeds[i] = r.Int63()
		}
		runSpecs(nfSpecs, nfSeeds)
		for i, n := 0, lib.Count(30, 300); i < n; i++ {
			sp := genMigrateNF(r)
			emitMigrate(w, sp, runMigrate(t, sp))
		}
		rootsFile := writeRootsFile(t.TempDir())
		late := os.Getenv("VERIF_C16_COPIER_LATE") != "0"
		for i, n := 0, lib.Count(24, 240); i < n; i++ {
			sp := genCopyNF(r, late)
			emitCopy(w, sp, runCopy(t, sp, rootsFile))
		}
	}
	w.Close()
	fmt.Printf("c16: wrote %d cases\n", w.Len())
}
