(* T1 tie for C06: the two numeric fields of the tree head that trillian/ctfe/sth.go LogSTHGetter.GetSTH builds from
   the backend's signed log root (`Timestamp: uint64(currentRoot.TimestampNanos / 1000 / 1000)`,
   `TreeSize: uint64(currentRoot.TreeSize)`), translated by gofrag on every run (coq/gen/Sth.v), are what the model's
   fe_get_sth puts into the STH (CTFE/LogModel.v: `bns b / 1000 / 1000`, `bsize b`). *)
From Coq Require Import ZArith Lia.
From V Require Import Base.GoInt gen.Sth.
Local Open Scope Z_scope.

Lemma sth_timestamp_meaning ns : 0 <= ns -> sth_timestamp_gen ns = ns / 1000 / 1000.
Proof.
  intros Hn. unfold sth_timestamp_gen, quotu.
  rewrite (Z.quot_div_nonneg ns 1000) by lia.
  rewrite Z.quot_div_nonneg; [reflexivity| |lia]. apply Z.div_pos; lia.
Qed.

Lemma sth_tree_size_meaning size : sth_tree_size_gen size = size.
Proof. reflexivity. Qed.
