(* L1 lemmas: base-128 integers and TLV headers. *)
From Coq Require Import ZArith NArith List Bool Lia.
From Coq.Strings Require Import Byte.
From V Require Import Base.Bytes ASN1.DerBase ASN1.DerHeader.
Import ListNotations.
Local Open Scope Z_scope.

(* ------------------------------------------------------------------ totality *)

Lemma b128_loop_total v d : forall k acc, b128_loop v k acc d <> Panic /\ b128_loop v k acc d <> Hang.
Proof.
  induction d as [|b r IH]; intros k acc; cbn [b128_loop]; [split; discriminate|].
  destruct (k =? 5)%nat; [split; discriminate|].
  destruct (is_upstream v && (k =? 0)%nat && (bz b =? 128)); [split; discriminate|].
  destruct (bz b <? 128).
  - destruct (_ >? _); split; discriminate.
  - apply IH.
Qed.

Lemma len_loop_total n : forall acc d, len_loop n acc d <> Panic /\ len_loop n acc d <> Hang.
Proof.
  induction n as [|n IH]; intros acc d; cbn [len_loop]; [split; discriminate|].
  destruct d as [|b r]; [split; discriminate|].
  destruct (acc >=? 8388608); [split; discriminate|].
  destruct (_ =? 0); [split; discriminate|]. apply IH.
Qed.

Lemma parse_len_total d : parse_len d <> Panic /\ parse_len d <> Hang.
Proof.
  unfold parse_len. destruct d as [|b r]; [split; discriminate|].
  destruct (bz b <? 128); [split; discriminate|].
  destruct (_ =? 0); [split; discriminate|].
  pose proof (len_loop_total (Z.to_nat (bz b - 128)) 0 r) as [H1 H2].
  destruct (len_loop _ 0 r) as [[l r']| | | | |]; try (split; congruence).
  destruct (l <? 128); split; discriminate.
Qed.

Lemma parse_tl_total v d : parse_tl v d <> Panic /\ parse_tl v d <> Hang.
Proof.
  unfold parse_tl, parse_tl_with. destruct d as [|b r]; [split; discriminate|].
  destruct (_ =? 31).
  - unfold parse_base128. pose proof (b128_loop_total v r 0%nat 0) as [H1 H2].
    destruct (b128_loop v 0 0 r) as [[tag' r']| | | | |]; cbn [fail]; try (split; congruence).
    destruct (tag' <? 31); [split; discriminate|].
    pose proof (parse_len_total r') as [H3 H4].
    destruct (parse_len r') as [[l r'']| | | | |]; cbn [fail]; split; congruence.
  - pose proof (parse_len_total r) as [H3 H4].
    destruct (parse_len r) as [[l r'']| | | | |]; cbn [fail]; split; congruence.
Qed.

(* ------------------------------------------------------------------ prefix property, bounds *)

Definition prefix_ok {A} (f : bytes -> res (A * bytes)) (d : bytes) (a : A) (rest : bytes) : Prop :=
  exists h, d = h ++ rest /\ (forall rest', f (h ++ rest') = Ok (a, rest')).

Lemma b128_loop_prefix v d : forall k acc n rest,
  b128_loop v k acc d = Ok (n, rest) ->
  exists h, d = h ++ rest /\ h <> [] /\ (forall rest', b128_loop v k acc (h ++ rest') = Ok (n, rest')).
Proof.
  induction d as [|b r IH]; intros k acc n rest H; cbn [b128_loop] in H; [discriminate|].
  destruct (k =? 5)%nat eqn:E5; [discriminate|].
  destruct (is_upstream v && (k =? 0)%nat && (bz b =? 128)) eqn:EU; [discriminate|].
  destruct (bz b <? 128) eqn:Eb.
  - destruct (_ >? _) eqn:Em; [discriminate|]. inversion H; subst.
    exists [b]. split; [reflexivity|]. split; [discriminate|]. intros rest'. cbn [app b128_loop]. rewrite E5, EU, Eb, Em. reflexivity.
  - apply IH in H. destruct H as (h & -> & _ & Hh). exists (b :: h). split; [reflexivity|]. split; [discriminate|].
    intros rest'. cbn [app b128_loop]. rewrite E5, EU, Eb. apply Hh.
Qed.

Lemma b128_loop_bound v d : forall k acc n rest,
  0 <= acc -> b128_loop v k acc d = Ok (n, rest) -> 0 <= n <= max_i32.
Proof.
  induction d as [|b r IH]; intros k acc n rest Hacc H; cbn [b128_loop] in H; [discriminate|].
  destruct (k =? 5)%nat; [discriminate|].
  destruct (is_upstream v && (k =? 0)%nat && (bz b =? 128)); [discriminate|].
  pose proof (bz_range b). pose proof (Z.mod_pos_bound (bz b) 128 ltac:(lia)).
  destruct (bz b <? 128).
  - destruct (Z.gtb_spec (acc * 128 + bz b mod 128) max_i32); [discriminate|]. inversion H; subst. lia.
  - eapply IH; [|exact H]. lia.
Qed.

Lemma len_loop_prefix n : forall acc d l rest,
  len_loop n acc d = Ok (l, rest) ->
  exists h, d = h ++ rest /\ length h = n /\ (forall rest', len_loop n acc (h ++ rest') = Ok (l, rest')).
Proof.
  induction n as [|n IH]; intros acc d l rest H; cbn [len_loop] in H.
  - inversion H; subst. exists []. repeat split; reflexivity.
  - destruct d as [|b r]; [discriminate|].
    destruct (acc >=? 8388608) eqn:E1; [discriminate|].
    destruct (acc * 256 + bz b =? 0) eqn:E2; [discriminate|].
    apply IH in H. destruct H as (h & -> & Hl & Hh). exists (b :: h). repeat split; [cbn; lia|].
    intros rest'. cbn [app len_loop]. rewrite E1, E2. apply Hh.
Qed.

Lemma len_loop_bound n : forall acc d l rest,
  0 <= acc < 2147483648 -> len_loop n acc d = Ok (l, rest) -> acc <= l < 2147483648.
Proof.
  induction n as [|n IH]; intros acc d l rest Hacc H; cbn [len_loop] in H.
  - inversion H; subst. lia.
  - destruct d as [|b r]; [discriminate|].
    destruct (Z.geb_spec acc 8388608); [discriminate|].
    destruct (acc * 256 + bz b =? 0); [discriminate|].
    pose proof (bz_range b). apply IH in H; lia.
Qed.

Lemma parse_len_prefix d l rest :
  parse_len d = Ok (l, rest) ->
  exists h, d = h ++ rest /\ h <> [] /\ (forall rest', parse_len (h ++ rest') = Ok (l, rest')).
Proof.
  unfold parse_len. destruct d as [|b r]; [discriminate|].
  destruct (bz b <? 128) eqn:Eb.
  - intros H; inversion H; subst. exists [b]. split; [reflexivity|]. split; [discriminate|]. intros rest'. cbn [app]. rewrite Eb. reflexivity.
  - destruct (bz b - 128 =? 0) eqn:E0; [discriminate|].
    destruct (len_loop (Z.to_nat (bz b - 128)) 0 r) as [[l' r']| | | | |] eqn:EL; try discriminate.
    destruct (l' <? 128) eqn:E1; [discriminate|]. intros H; inversion H; subst.
    apply len_loop_prefix in EL. destruct EL as (h & -> & _ & Hh).
    exists (b :: h). split; [reflexivity|]. split; [discriminate|]. intros rest'. cbn [app]. rewrite Eb, E0, Hh, E1. reflexivity.
Qed.

Lemma parse_len_bound d l rest : parse_len d = Ok (l, rest) -> 0 <= l < 2147483648.
Proof.
  unfold parse_len. destruct d as [|b r]; [discriminate|]. pose proof (bz_range b).
  destruct (bz b <? 128) eqn:Eb.
  - intros H0; inversion H0; subst. lia.
  - destruct (bz b - 128 =? 0); [discriminate|].
    destruct (len_loop (Z.to_nat (bz b - 128)) 0 r) as [[l' r']| | | | |] eqn:EL; try discriminate.
    destruct (l' <? 128); [discriminate|]. intros H0; inversion H0; subst.
    apply len_loop_bound in EL; lia.
Qed.

(* a header is at least two octets and is all that parseTagAndLength looks at *)
Lemma parse_tl_prefix v d t rest :
  parse_tl v d = Ok (t, rest) ->
  exists h, d = h ++ rest /\ (2 <= length h)%nat /\ (forall rest', parse_tl v (h ++ rest') = Ok (t, rest')).
Proof.
  unfold parse_tl, parse_tl_with. destruct d as [|b r]; [discriminate|].
  destruct (bz b mod 32 =? 31) eqn:E31.
  - unfold parse_base128. destruct (b128_loop v 0 0 r) as [[tag' r']| | | | |] eqn:EB; try discriminate.
    destruct (tag' <? 31) eqn:Et; [discriminate|].
    destruct (parse_len r') as [[l r'']| | | | |] eqn:EL; try discriminate.
    intros H; inversion H; subst.
    apply b128_loop_prefix in EB. destruct EB as (h1 & -> & Hn1 & H1).
    apply parse_len_prefix in EL. destruct EL as (h2 & -> & Hn2 & H2).
    exists (b :: h1 ++ h2). split; [cbn; rewrite <- app_assoc; reflexivity|].
    split; [cbn; rewrite app_length; destruct h1; [congruence|cbn; lia]|].
    intros rest'. cbn [app]. rewrite E31. rewrite <- app_assoc. rewrite H1, Et, H2. reflexivity.
  - destruct (parse_len r) as [[l r'']| | | | |] eqn:EL; try discriminate.
    intros H; inversion H; subst.
    apply parse_len_prefix in EL. destruct EL as (h2 & -> & Hn2 & H2).
    exists (b :: h2). split; [reflexivity|]. split; [destruct h2; [congruence|cbn; lia]|].
    intros rest'. cbn [app]. rewrite E31, H2. reflexivity.
Qed.

Lemma parse_tl_bound v d t rest :
  parse_tl v d = Ok (t, rest) -> tl_canonical t.
Proof.
  unfold parse_tl, parse_tl_with, tl_canonical. destruct d as [|b r]; [discriminate|]. pose proof (bz_range b).
  assert (0 <= bz b / 64 < 4) by (split; [apply Z.div_pos; lia | apply Z.div_lt_upper_bound; lia]).
  pose proof (Z.mod_pos_bound (bz b) 32 ltac:(lia)).
  destruct (bz b mod 32 =? 31) eqn:E31.
  - unfold parse_base128. destruct (b128_loop v 0 0 r) as [[tag' r']| | | | |] eqn:EB; try discriminate.
    destruct (tag' <? 31) eqn:Et; [discriminate|].
    destruct (parse_len r') as [[l r'']| | | | |] eqn:EL; try discriminate.
    intros H2; inversion H2; subst. cbn.
    apply b128_loop_bound in EB; [|lia]. apply parse_len_bound in EL. lia.
  - destruct (parse_len r) as [[l r'']| | | | |] eqn:EL; try discriminate.
    intros H2; inversion H2; subst. cbn. apply parse_len_bound in EL. unfold max_i32. lia.
Qed.

Lemma parse_tl_consumes v d t rest : parse_tl v d = Ok (t, rest) -> zlen rest + 2 <= zlen d.
Proof.
  intros H. apply parse_tl_prefix in H. destruct H as (h & -> & Hl & _). rewrite zlen_app. unfold zlen. lia.
Qed.

(* ------------------------------------------------------------------ emit then parse *)

Lemma pow128_pos k : 0 < 128 ^ Z.of_nat k.
Proof. apply Z.pow_pos_nonneg; lia. Qed.

Lemma b128_hi_length f : forall m j, 0 <= m < 128 ^ Z.of_nat j -> (length (b128_hi f m) <= j)%nat.
Proof.
  induction f as [|f IH]; intros m j Hm; cbn [b128_hi]; [cbn; lia|].
  destruct (Z.leb_spec m 0); [cbn; lia|].
  rewrite app_length. cbn [length].
  destruct j as [|j]; [cbn in Hm; lia|].
  rewrite Nat2Z.inj_succ, Z.pow_succ_r in Hm by lia.
  specialize (IH (m / 128) j). assert (0 <= m / 128 < 128 ^ Z.of_nat j).
  { split; [apply Z.div_pos; lia|apply Z.div_lt_upper_bound; lia]. }
  specialize (IH H0). lia.
Qed.

Lemma b128_loop_hi f : forall m v k acc tail,
  0 <= m < 128 ^ Z.of_nat f -> (k + length (b128_hi f m) < 5)%nat -> (k = 0%nat -> acc = 0) ->
  b128_loop v k acc (b128_hi f m ++ tail) =
  b128_loop v (k + length (b128_hi f m)) (acc * 128 ^ Z.of_nat (length (b128_hi f m)) + m) tail.
Proof.
  induction f as [|f IH]; intros m v k acc tail Hm Hk Hacc.
  - cbn in Hm. assert (m = 0) by lia. subst. cbn. rewrite Nat.add_0_r. f_equal. lia.
  - cbn [b128_hi] in *. destruct (Z.leb_spec m 0).
    + assert (m = 0) by lia. subst. cbn. rewrite Nat.add_0_r. f_equal. lia.
    + rewrite app_length in Hk. cbn [length] in Hk.
      rewrite Nat2Z.inj_succ, Z.pow_succ_r in Hm by lia.
      assert (Hq : 0 <= m / 128 < 128 ^ Z.of_nat f).
      { split; [apply Z.div_pos; lia|apply Z.div_lt_upper_bound; lia]. }
      rewrite <- app_assoc. rewrite IH by (try lia; assumption).
      set (n1 := length (b128_hi f (m / 128))) in *.
      cbn [app b128_loop].
      destruct (Nat.eqb_spec (k + n1) 5); [lia|].
      pose proof (Z.mod_pos_bound m 128 ltac:(lia)) as Hmod.
      assert (Hb : bz (zb (128 + m mod 128)) = 128 + m mod 128) by (apply bz_zb; lia).
      rewrite Hb.
      assert (Hup : is_upstream v && (k + n1 =? 0)%nat && (128 + m mod 128 =? 128) = false).
      { destruct (Nat.eqb_spec (k + n1) 0); [|rewrite andb_false_r; reflexivity].
        assert (Hk0 : k = 0%nat) by lia. assert (Hn0 : n1 = 0%nat) by lia.
        (* no continuation octet before: m / 128 = 0, so m mod 128 = m > 0 *)
        assert (Hm0 : m / 128 = 0).
        { unfold n1 in Hn0. destruct f; cbn [b128_hi] in Hn0.
          - cbn in Hq. lia.
          - destruct (Z.leb_spec (m / 128) 0); [lia|]. rewrite app_length in Hn0. cbn in Hn0. lia. }
        assert (Hmm : m mod 128 = m) by (pose proof (Z.div_mod m 128 ltac:(lia)); lia).
        destruct (Z.eqb_spec (128 + m mod 128) 128); [lia|]. rewrite andb_false_r. reflexivity. }
      rewrite Hup.
      destruct (Z.ltb_spec (128 + m mod 128) 128); [lia|].
      rewrite app_length. cbn [length]. fold n1. replace (k + (n1 + 1))%nat with (S (k + n1)) by lia.
      f_equal.
      replace ((128 + m mod 128) mod 128) with (m mod 128).
      2:{ rewrite Z.add_mod by lia. rewrite Z.mod_same by lia. rewrite Z.add_0_l. rewrite Z.mod_mod by lia. rewrite Z.mod_mod by lia. reflexivity. }
      replace (Z.of_nat (n1 + 1)) with (Z.succ (Z.of_nat n1)) by lia. rewrite Z.pow_succ_r by lia.
      pose proof (Z.div_mod m 128 ltac:(lia)). lia.
Qed.

Lemma base128_roundtrip v n rest :
  0 <= n <= max_i32 -> parse_base128 v (append_base128 n ++ rest) = Ok (n, rest).
Proof.
  unfold max_i32. intros Hn. unfold parse_base128, append_base128.
  destruct (Z.ltb_spec n 0); [lia|].
  assert (Hq : 0 <= n / 128 < 128 ^ Z.of_nat 4).
  { change (128 ^ Z.of_nat 4) with 268435456. split; [apply Z.div_pos; lia|apply Z.div_lt_upper_bound; lia]. }
  pose proof (b128_hi_length 10 (n / 128) 4 Hq) as Hlen.
  assert (Hq10 : 0 <= n / 128 < 128 ^ Z.of_nat 10).
  { change (128 ^ Z.of_nat 10) with 1180591620717411303424. change (128 ^ Z.of_nat 4) with 268435456 in Hq. lia. }
  rewrite <- app_assoc. rewrite b128_loop_hi by (try lia; auto).
  set (n1 := length (b128_hi 10 (n / 128))) in *.
  cbn [app b128_loop]. rewrite Nat.add_0_l.
  destruct (Nat.eqb_spec n1 5); [lia|].
  pose proof (Z.mod_pos_bound n 128 ltac:(lia)) as Hmod.
  rewrite bz_zb by lia.
  assert (Hup : is_upstream v && (n1 =? 0)%nat && (n mod 128 =? 128) = false).
  { destruct (Z.eqb_spec (n mod 128) 128); [lia|]. rewrite andb_false_r. reflexivity. }
  rewrite Hup. destruct (Z.ltb_spec (n mod 128) 128); [|lia].
  rewrite Z.mod_mod by lia. rewrite Z.mul_0_l, Z.add_0_l.
  pose proof (Z.div_mod n 128 ltac:(lia)).
  replace (n / 128 * 128 + n mod 128) with n by lia.
  unfold max_i32. destruct (Z.gtb_spec n 2147483647); [lia|]. reflexivity.
Qed.

(* lengths *)
Lemma len_loop_app n1 : forall n2 acc a tail l1,
  length a = n1 ->
  len_loop n1 acc (a ++ tail) = Ok (l1, tail) ->
  len_loop (n1 + n2) acc (a ++ tail) = len_loop n2 l1 tail.
Proof.
  induction n1 as [|n1 IH]; intros n2 acc a tail l1 Hl H.
  - destruct a; [|discriminate]. cbn in H. inversion H; subst. reflexivity.
  - destruct a as [|b a]; [discriminate|]. cbn [app len_loop plus] in *.
    destruct (acc >=? 8388608); [discriminate|].
    destruct (acc * 256 + bz b =? 0); [discriminate|].
    apply IH; [cbn in Hl; lia|exact H].
Qed.

Lemma len_bytes_loop f : forall i tail,
  0 < i < 2147483648 -> i < 256 ^ Z.of_nat f ->
  len_loop (length (len_bytes f i)) 0 (len_bytes f i ++ tail) = Ok (i, tail).
Proof.
  induction f as [|f IH]; intros i tail Hi Hf.
  - cbn in Hf. lia.
  - cbn [len_bytes]. destruct (Z.gtb_spec i 255).
    + rewrite Nat2Z.inj_succ, Z.pow_succ_r in Hf by lia.
      assert (Hq : 0 < i / 256 < 2147483648).
      { split; [apply Z.div_str_pos; lia|apply Z.div_lt_upper_bound; lia]. }
      assert (Hq2 : i / 256 < 256 ^ Z.of_nat f) by (apply Z.div_lt_upper_bound; lia).
      rewrite app_length. cbn [length]. rewrite <- app_assoc.
      rewrite (len_loop_app _ 1 0 (len_bytes f (i / 256)) ([zb (i mod 256)] ++ tail) (i / 256) eq_refl (IH _ _ Hq Hq2)).
      cbn [len_loop app].
      assert (i / 256 < 8388608) by (apply Z.div_lt_upper_bound; lia).
      destruct (Z.geb_spec (i / 256) 8388608); [lia|].
      pose proof (Z.mod_pos_bound i 256 ltac:(lia)). rewrite bz_zb by lia.
      pose proof (Z.div_mod i 256 ltac:(lia)).
      destruct (Z.eqb_spec (i / 256 * 256 + i mod 256) 0); [lia|].
      f_equal. f_equal. lia.
    + cbn [length len_loop app]. change (0 >=? 8388608) with false. cbv iota.
      rewrite bz_zb by lia. rewrite Z.mul_0_l, Z.add_0_l. destruct (Z.eqb_spec i 0); [lia|]. reflexivity.
Qed.

Lemma len_bytes_length f : forall i j, 0 <= i < 256 ^ Z.of_nat (S j) -> (1 <= length (len_bytes (S f) i) <= S j)%nat.
Proof.
  induction f as [|f IH]; intros i j Hi.
  - cbn [len_bytes]. destruct (i >? 255); cbn; lia.
  - cbn [len_bytes]. destruct (Z.gtb_spec i 255).
    + rewrite app_length. cbn [length].
      destruct j as [|j]; [cbn in Hi; lia|].
      rewrite Nat2Z.inj_succ, Z.pow_succ_r in Hi by lia.
      assert (0 <= i / 256 < 256 ^ Z.of_nat (S j)) by (split; [apply Z.div_pos; lia|apply Z.div_lt_upper_bound; lia]).
      specialize (IH (i / 256) j H0). cbn [len_bytes] in IH. lia.
    + cbn. lia.
Qed.

Lemma length_roundtrip l rest :
  0 <= l < 2147483648 ->
  parse_len ((if l >=? 128 then zb (128 + zlen (len_bytes 8 l)) :: len_bytes 8 l else [zb l]) ++ rest) = Ok (l, rest).
Proof.
  intros Hl. unfold parse_len. destruct (Z.geb_spec l 128).
  - cbn [app].
    assert (H4 : 0 <= l < 256 ^ Z.of_nat 4) by (change (256 ^ Z.of_nat 4) with 4294967296; lia).
    pose proof (len_bytes_length 7 l 3 H4) as Hlen.
    unfold zlen. set (lb := len_bytes 8 l) in *.
    rewrite bz_zb by lia.
    destruct (Z.ltb_spec (128 + Z.of_nat (length lb)) 128); [lia|].
    replace (128 + Z.of_nat (length lb) - 128) with (Z.of_nat (length lb)) by lia.
    destruct (Z.eqb_spec (Z.of_nat (length lb)) 0); [lia|].
    rewrite Nat2Z.id. unfold lb. rewrite len_bytes_loop.
    + destruct (Z.ltb_spec l 128); [lia|]. reflexivity.
    + lia.
    + change (256 ^ Z.of_nat 8) with 18446744073709551616. lia.
  - cbn [app]. rewrite bz_zb by lia. destruct (Z.ltb_spec l 128); [|lia]. reflexivity.
Qed.

(* first octet of a header *)
Lemma first_octet c k tg :
  0 <= c < 4 -> 0 <= k < 2 -> 0 <= tg < 32 ->
  (c * 64 + k * 32 + tg) / 64 = c /\ Z.testbit (c * 64 + k * 32 + tg) 5 = (k =? 1) /\ (c * 64 + k * 32 + tg) mod 32 = tg.
Proof.
  intros Hc Hk Ht.
  assert (c = 0 \/ c = 1 \/ c = 2 \/ c = 3) as [->|[->|[->| ->]]] by lia;
  assert (k = 0 \/ k = 1) as [->| ->] by lia;
  assert (tg = 0 \/ tg = 1 \/ tg = 2 \/ tg = 3 \/ tg = 4 \/ tg = 5 \/ tg = 6 \/ tg = 7 \/ tg = 8 \/ tg = 9 \/ tg = 10 \/
          tg = 11 \/ tg = 12 \/ tg = 13 \/ tg = 14 \/ tg = 15 \/ tg = 16 \/ tg = 17 \/ tg = 18 \/ tg = 19 \/ tg = 20 \/
          tg = 21 \/ tg = 22 \/ tg = 23 \/ tg = 24 \/ tg = 25 \/ tg = 26 \/ tg = 27 \/ tg = 28 \/ tg = 29 \/ tg = 30 \/ tg = 31) as Hcases by lia;
  repeat (destruct Hcases as [->|Hcases]; [vm_compute; repeat split|]); subst; vm_compute; repeat split.
Qed.

Lemma lor_low c k tg : 0 <= c < 4 -> 0 <= k < 2 -> 0 <= tg < 32 -> Z.lor (c * 64 + k * 32) tg = c * 64 + k * 32 + tg.
Proof.
  intros Hc Hk Ht.
  assert (c = 0 \/ c = 1 \/ c = 2 \/ c = 3) as [->|[->|[->| ->]]] by lia;
  assert (k = 0 \/ k = 1) as [->| ->] by lia;
  assert (tg = 0 \/ tg = 1 \/ tg = 2 \/ tg = 3 \/ tg = 4 \/ tg = 5 \/ tg = 6 \/ tg = 7 \/ tg = 8 \/ tg = 9 \/ tg = 10 \/
          tg = 11 \/ tg = 12 \/ tg = 13 \/ tg = 14 \/ tg = 15 \/ tg = 16 \/ tg = 17 \/ tg = 18 \/ tg = 19 \/ tg = 20 \/
          tg = 21 \/ tg = 22 \/ tg = 23 \/ tg = 24 \/ tg = 25 \/ tg = 26 \/ tg = 27 \/ tg = 28 \/ tg = 29 \/ tg = 30 \/ tg = 31) as Hcases by lia;
  repeat (destruct Hcases as [->|Hcases]; [vm_compute; reflexivity|]); subst; vm_compute; reflexivity.
Qed.

Theorem header_roundtrip v t rest :
  tl_canonical t -> parse_tl v (append_tl t ++ rest) = Ok (t, rest).
Proof.
  intros (Hc & Ht & Hl). destruct t as [c tg l comp]. cbn [t_class t_tag t_len t_compound] in *.
  unfold append_tl. cbn [t_class t_tag t_len t_compound].
  rewrite (Z.mod_small c 4) by lia.
  set (k := if comp then 1 else 0).
  assert (Hk : 0 <= k < 2) by (unfold k; destruct comp; lia).
  replace (if comp then 32 else 0) with (k * 32) by (unfold k; destruct comp; reflexivity).
  assert (Hcomp : (k =? 1) = comp) by (unfold k; destruct comp; reflexivity).
  unfold parse_tl, parse_tl_with.
  destruct (Z.geb_spec tg 31) as [Hge|Hlt].
  - cbn [app]. destruct (first_octet c k 31 Hc Hk ltac:(lia)) as (F1 & F2 & F3).
    replace (c * 64 + k * 32 + 31) with (c * 64 + k * 32 + 31) in * by reflexivity.
    rewrite bz_zb by lia. rewrite F3. cbn [Z.eqb Pos.eqb]. change (31 =? 31) with true. cbv iota.
    rewrite <- app_assoc. rewrite base128_roundtrip by lia.
    destruct (Z.ltb_spec tg 31); [lia|].
    rewrite length_roundtrip by lia. rewrite F1, F2, Hcomp. reflexivity.
  - cbn [app]. rewrite (Z.mod_small tg 256) by lia. rewrite lor_low by lia.
    destruct (first_octet c k tg Hc Hk ltac:(lia)) as (F1 & F2 & F3).
    rewrite bz_zb by lia. rewrite F3. destruct (Z.eqb_spec tg 31); [lia|].
    rewrite length_roundtrip by lia. rewrite F1, F2, Hcomp. reflexivity.
Qed.

(* ------------------------------------------------------------------ fork versus upstream (D2) *)

Lemma b128_loop_variant_pos d : forall k acc, (0 < k)%nat -> b128_loop Upstream k acc d = b128_loop Fork k acc d.
Proof.
  induction d as [|b r IH]; intros k acc Hk; cbn [b128_loop]; [reflexivity|].
  destruct (Nat.eqb_spec k 0); [lia|]. cbn [is_upstream andb].
  destruct (k =? 5)%nat; [reflexivity|]. destruct (bz b <? 128); [reflexivity|]. apply IH. lia.
Qed.

(* the two readers differ only on a first octet 0x80 *)
Lemma parse_base128_variant d :
  parse_base128 Upstream d = parse_base128 Fork d \/ (exists s, d = x80 :: s).
Proof.
  unfold parse_base128. destruct d as [|b r]; [left; reflexivity|]. cbn [b128_loop].
  cbn [Nat.eqb is_upstream andb].
  destruct (Z.eqb_spec (bz b) 128) as [E|E].
  - right. exists r. f_equal. apply bz_inj. rewrite E. reflexivity.
  - left. destruct (bz b <? 128); [reflexivity|]. apply b128_loop_variant_pos. lia.
Qed.

Lemma parse_base128_up_fork d r : parse_base128 Upstream d = Ok r -> parse_base128 Fork d = Ok r.
Proof.
  unfold parse_base128. destruct d as [|b t]; [discriminate|]. cbn [b128_loop].
  cbn [Nat.eqb is_upstream andb].
  destruct (bz b =? 128); [discriminate|].
  destruct (bz b <? 128); [auto|]. rewrite b128_loop_variant_pos by lia. auto.
Qed.

Definition long_tag_leading80 (d : bytes) : Prop := exists b s, d = b :: x80 :: s /\ bz b mod 32 = 31.

Lemma parse_tl_variant d : parse_tl Upstream d = parse_tl Fork d \/ long_tag_leading80 d.
Proof.
  unfold parse_tl, parse_tl_with. destruct d as [|b r]; [left; reflexivity|].
  destruct (Z.eqb_spec (bz b mod 32) 31) as [E|E]; [|left; reflexivity].
  destruct (parse_base128_variant r) as [->|(s & ->)]; [left; reflexivity|].
  right. exists b, s. split; [reflexivity|exact E].
Qed.

Lemma parse_tl_up_fork d r : parse_tl Upstream d = Ok r -> parse_tl Fork d = Ok r.
Proof.
  unfold parse_tl, parse_tl_with. destruct d as [|b t]; [discriminate|].
  destruct (bz b mod 32 =? 31); [|auto].
  destruct (parse_base128 Upstream t) as [[tag' r']| | | | |] eqn:E; try discriminate.
  apply parse_base128_up_fork in E. rewrite E. auto.
Qed.

(* ------------------------------------------------------------------ parse then emit (DER uniqueness) *)

Lemma b128_hi_fuel f : forall m, 0 <= m < 128 ^ Z.of_nat f -> b128_hi (S f) m = b128_hi f m.
Proof.
  induction f as [|f IH]; intros m Hm.
  - cbn in Hm. assert (m = 0) by lia. subst. reflexivity.
  - cbn [b128_hi]. destruct (Z.leb_spec m 0); [reflexivity|].
    rewrite Nat2Z.inj_succ, Z.pow_succ_r in Hm by lia.
    assert (Hq : 0 <= m / 128 < 128 ^ Z.of_nat f) by (split; [apply Z.div_pos; lia|apply Z.div_lt_upper_bound; lia]).
    specialize (IH (m / 128) Hq). cbn [b128_hi] in IH. rewrite IH. reflexivity.
Qed.

Lemma b128_hi_9_10 m : 0 <= m < 128 ^ 5 -> b128_hi 9 m = b128_hi 10 m.
Proof.
  intros Hm. symmetry. apply b128_hi_fuel. change (128 ^ Z.of_nat 9) with 9223372036854775808.
  change (128 ^ 5) with 34359738368 in Hm. lia.
Qed.

Lemma b128_loop_canon v d : forall k acc pre n rest,
  b128_loop v k acc d = Ok (n, rest) ->
  (k <= 5)%nat -> 0 <= acc < 128 ^ Z.of_nat k -> pre = b128_hi 10 acc ->
  (k = 0%nat -> acc = 0 /\ (v = Upstream \/ forall s, d <> x80 :: s)) -> ((0 < k)%nat -> 0 < acc) ->
  exists h, d = h ++ rest /\ pre ++ h = append_base128 n.
Proof.
  induction d as [|b r IH]; intros k acc pre n rest H Hk Hacc Hpre H0 Hpos; cbn [b128_loop] in H; [discriminate|].
  destruct (Nat.eqb_spec k 5) as [E5|E5]; [discriminate|].
  destruct (is_upstream v && (k =? 0)%nat && (bz b =? 128)) eqn:EU; [discriminate|].
  pose proof (bz_range b) as Hb. pose proof (Z.mod_pos_bound (bz b) 128 ltac:(lia)) as Hmod.
  pose proof (Z.div_mod (bz b) 128 ltac:(lia)) as Hdm.
  assert (Hacc5 : acc < 128 ^ 4).
  { assert (128 ^ Z.of_nat k <= 128 ^ 4) by (apply Z.pow_le_mono_r; lia). lia. }
  destruct (Z.ltb_spec (bz b) 128) as [Hlt|Hge].
  - destruct (_ >? _); [discriminate|]. inversion H; subst n rest. exists [b]. split; [reflexivity|].
    unfold append_base128. rewrite (Z.mod_small (bz b) 128) by lia.
    destruct (Z.ltb_spec (acc * 128 + bz b) 0); [lia|].
    replace ((acc * 128 + bz b) / 128) with acc.
    2:{ rewrite Z.div_add_l by lia. rewrite Z.div_small by lia. lia. }
    replace ((acc * 128 + bz b) mod 128) with (bz b).
    2:{ rewrite Z.add_comm, Z.mod_add by lia. rewrite Z.mod_small by lia. reflexivity. }
    rewrite zb_bz. subst pre. reflexivity.
  - assert (Hq : bz b / 128 = 1) by (symmetry; apply Z.div_unique with (r := bz b - 128); lia).
    assert (Hg : bz b mod 128 = bz b - 128) by lia.
    assert (Hnew : 0 < acc * 128 + bz b mod 128).
    { destruct (Nat.eq_dec k 0) as [Ek|Ek].
      - destruct (H0 Ek) as [Ha Hv]. subst acc.
        destruct (Z.eq_dec (bz b) 128) as [E128|E128]; [|lia].
        exfalso. destruct Hv as [->|Hv].
        + subst k. cbn in EU. rewrite E128 in EU. discriminate.
        + apply (Hv r). f_equal. apply bz_inj. rewrite E128. reflexivity.
      - specialize (Hpos ltac:(lia)). lia. }
    specialize (IH (S k) (acc * 128 + bz b mod 128) (pre ++ [b]) n rest H ltac:(lia)).
    destruct IH as (h & -> & Hh).
    + rewrite Nat2Z.inj_succ, Z.pow_succ_r by lia. lia.
    + change (b128_hi 10 (acc * 128 + bz b mod 128)) with
        (if acc * 128 + bz b mod 128 <=? 0 then [] else b128_hi 9 ((acc * 128 + bz b mod 128) / 128) ++ [zb (128 + (acc * 128 + bz b mod 128) mod 128)]).
      destruct (Z.leb_spec (acc * 128 + bz b mod 128) 0); [lia|].
      replace ((acc * 128 + bz b mod 128) / 128) with acc.
      2:{ rewrite Z.div_add_l by lia. rewrite Z.div_small by lia. lia. }
      replace ((acc * 128 + bz b mod 128) mod 128) with (bz b mod 128).
      2:{ rewrite Z.add_comm, Z.mod_add by lia. rewrite Z.mod_mod by lia. reflexivity. }
      rewrite b128_hi_9_10 by (change (128 ^ 5) with (128 * 128 ^ 4); lia).
      subst pre. f_equal. f_equal. rewrite Hg. replace (128 + (bz b - 128)) with (bz b) by lia. symmetry. apply zb_bz.
    + intros E; discriminate.
    + intros _. exact Hnew.
    + exists (b :: h). split; [reflexivity|]. rewrite <- Hh. rewrite <- app_assoc. reflexivity.
Qed.

Lemma parse_base128_canon v d n rest :
  parse_base128 v d = Ok (n, rest) -> (v = Upstream \/ forall s, d <> x80 :: s) -> d = append_base128 n ++ rest.
Proof.
  unfold parse_base128. intros H Hv.
  destruct (b128_loop_canon v d 0%nat 0 [] n rest H ltac:(lia) ltac:(cbn; lia) eq_refl) as (h & -> & Hh).
  - intros _. split; [reflexivity|exact Hv].
  - intros Hk; lia.
  - cbn in Hh. rewrite Hh. reflexivity.
Qed.

Lemma len_bytes_fuel f : forall i, 0 <= i < 256 ^ Z.of_nat (S f) -> len_bytes (S (S f)) i = len_bytes (S f) i.
Proof.
  induction f as [|f IH]; intros i Hi.
  - change (256 ^ Z.of_nat 1) with 256 in Hi. cbn [len_bytes]. destruct (Z.gtb_spec i 255); [lia|reflexivity].
  - cbn [len_bytes]. destruct (Z.gtb_spec i 255); [|reflexivity].
    rewrite Nat2Z.inj_succ, Z.pow_succ_r in Hi by lia.
    assert (Hq : 0 <= i / 256 < 256 ^ Z.of_nat (S f)) by (split; [apply Z.div_pos; lia|apply Z.div_lt_upper_bound; lia]).
    specialize (IH (i / 256) Hq). cbn [len_bytes] in IH. rewrite IH. reflexivity.
Qed.

Lemma len_loop_canon n : forall acc d l rest pre,
  len_loop n acc d = Ok (l, rest) -> 0 <= acc < 2147483648 ->
  (acc = 0 /\ pre = [] \/ 0 < acc /\ pre = len_bytes 8 acc) -> ((0 < n)%nat \/ 0 < acc) ->
  exists h, d = h ++ rest /\ length h = n /\ pre ++ h = len_bytes 8 l.
Proof.
  induction n as [|n IH]; intros acc d l rest pre H Hacc Hpre Hn; cbn [len_loop] in H.
  - inversion H; subst. exists []. repeat split. rewrite app_nil_r. destruct Hpre as [[? ?]|[? ?]]; [lia|assumption].
  - destruct d as [|b r]; [discriminate|].
    destruct (Z.geb_spec acc 8388608); [discriminate|].
    destruct (Z.eqb_spec (acc * 256 + bz b) 0); [discriminate|].
    pose proof (bz_range b) as Hb.
    specialize (IH (acc * 256 + bz b) r l rest (pre ++ [b]) H ltac:(lia)).
    destruct IH as (h & -> & Hl & Hh).
    + right. split; [lia|]. destruct Hpre as [[-> ->]|[Hp ->]].
      * cbn [app]. rewrite Z.mul_0_l, Z.add_0_l. cbn [len_bytes]. destruct (Z.gtb_spec (bz b) 255); [lia|]. rewrite zb_bz. reflexivity.
      * change (len_bytes 8 (acc * 256 + bz b)) with
          (if acc * 256 + bz b >? 255 then len_bytes 7 ((acc * 256 + bz b) / 256) ++ [zb ((acc * 256 + bz b) mod 256)] else [zb (acc * 256 + bz b)]).
        destruct (Z.gtb_spec (acc * 256 + bz b) 255); [|lia].
        replace ((acc * 256 + bz b) / 256) with acc by (rewrite Z.div_add_l by lia; rewrite Z.div_small by lia; lia).
        replace ((acc * 256 + bz b) mod 256) with (bz b) by (rewrite Z.add_comm, Z.mod_add by lia; rewrite Z.mod_small by lia; reflexivity).
        rewrite zb_bz. f_equal. apply len_bytes_fuel. change (256 ^ Z.of_nat 7) with 72057594037927936. lia.
    + right. lia.
    + exists (b :: h). repeat split; [cbn; lia|]. rewrite <- Hh, <- app_assoc. reflexivity.
Qed.

Definition emit_len (l : Z) : bytes :=
  if l >=? 128 then zb (128 + zlen (len_bytes 8 l)) :: len_bytes 8 l else [zb l].

Lemma parse_len_canon d l rest : parse_len d = Ok (l, rest) -> d = emit_len l ++ rest.
Proof.
  unfold parse_len, emit_len. destruct d as [|b r]; [discriminate|]. pose proof (bz_range b) as Hb.
  destruct (Z.ltb_spec (bz b) 128).
  - intros Hinv; inversion Hinv; subst. destruct (Z.geb_spec (bz b) 128); [lia|]. rewrite zb_bz. reflexivity.
  - destruct (Z.eqb_spec (bz b - 128) 0); [discriminate|].
    destruct (len_loop (Z.to_nat (bz b - 128)) 0 r) as [[l' r']| | | | |] eqn:EL; try discriminate.
    destruct (Z.ltb_spec l' 128); [discriminate|]. intros Hinv; inversion Hinv; subst.
    destruct (len_loop_canon _ _ _ _ _ [] EL ltac:(lia)) as (h & -> & Hl & Hh).
    + left. split; reflexivity.
    + left. lia.
    + cbn [app] in Hh. subst h. destruct (Z.geb_spec l 128); [|lia]. cbn [app]. f_equal.
      unfold zlen. rewrite Hl. rewrite Z2Nat.id by lia. replace (128 + (bz b - 128)) with (bz b) by lia. symmetry. apply zb_bz.
Qed.

Lemma octet_decomp b : bz b = (bz b / 64) * 64 + (if Z.testbit (bz b) 5 then 1 else 0) * 32 + bz b mod 32.
Proof. destruct b; vm_compute; reflexivity. Qed.

(* a header accepted by upstream - or by the fork when the tag number does not start with 0x80 -
   is the one DER writes *)
Theorem header_canonical v d t rest :
  parse_tl v d = Ok (t, rest) -> (v = Upstream \/ ~ long_tag_leading80 d) -> d = append_tl t ++ rest.
Proof.
  intros H Hv. pose proof (parse_tl_bound _ _ _ _ H) as (Hc & Ht & Hl).
  revert H. unfold parse_tl, parse_tl_with. destruct d as [|b r]; [discriminate|].
  pose proof (bz_range b) as Hb. pose proof (octet_decomp b) as Hdec.
  assert (Hc4 : 0 <= bz b / 64 < 4) by (split; [apply Z.div_pos; lia | apply Z.div_lt_upper_bound; lia]).
  pose proof (Z.mod_pos_bound (bz b) 32 ltac:(lia)) as Hm32.
  remember (Z.testbit (bz b) 5) as cb eqn:Ecb.
  set (k := if cb then 1 else 0) in *.
  assert (Hk : 0 <= k < 2) by (unfold k; destruct cb; lia).
  assert (Hk32 : (if cb then 32 else 0) = k * 32) by (unfold k; destruct cb; reflexivity).
  destruct (Z.eqb_spec (bz b mod 32) 31) as [E31|E31].
  - destruct (parse_base128 v r) as [[tag' r']| | | | |] eqn:EB; try discriminate.
    destruct (Z.ltb_spec tag' 31); [discriminate|].
    destruct (parse_len r') as [[l r'']| | | | |] eqn:EL; try discriminate.
    intros Hinv; injection Hinv as <- <-. unfold append_tl. cbn [t_class t_tag t_len t_compound] in *.
    apply parse_base128_canon in EB.
    2:{ destruct Hv as [->|Hv]; [left; reflexivity|]. right. intros s ->. apply Hv. exists b, s. split; [reflexivity|exact E31]. }
    apply parse_len_canon in EL. subst r r'.
    destruct (Z.geb_spec tag' 31); [|lia]. rewrite (Z.mod_small (bz b / 64) 4) by lia. rewrite Hk32.
    fold (emit_len l). cbn [app]. rewrite <- app_assoc. f_equal.
    replace (bz b / 64 * 64 + k * 32 + 31) with (bz b) by lia. symmetry. apply zb_bz.
  - destruct (parse_len r) as [[l r'']| | | | |] eqn:EL; try discriminate.
    intros Hinv; injection Hinv as <- <-. unfold append_tl. cbn [t_class t_tag t_len t_compound] in *.
    apply parse_len_canon in EL. subst r.
    destruct (Z.geb_spec (bz b mod 32) 31); [lia|]. rewrite (Z.mod_small (bz b / 64) 4) by lia. rewrite Hk32.
    rewrite (Z.mod_small (bz b mod 32) 256) by lia. rewrite lor_low by lia.
    fold (emit_len l). cbn [app]. f_equal. rewrite <- Hdec. symmetry. apply zb_bz.
Qed.
