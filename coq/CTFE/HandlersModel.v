(* C08: hand model of AppHandler.ServeHTTP and the eight CT endpoint handlers of
   trillian/ctfe/handlers.go (+ sth.go getSignedLogRoot / STH getters, services.go FixLogLeaf),
   as decision functions over abstract request-parameter classes and abstract backend replies.

   Every comparison / nil check / constant the handlers decide on is a GENERATED definition
   (gen/HandlerConds.v, gen/HttpStatus.v, gen/GetEntries.v: re-translated from the Go source on
   every run); this file only supplies the glue: the order of the checks, what is returned, and a
   [HPanic] outcome wherever the Go code would dereference / index what the preceding checks
   did not exclude.  Definitions only.

   Domain conventions (stated once, used by Props/C08.v):
   - a backend RPC answers either an error (a gRPC status error with code c, or an error that is
     not a gRPC status) or a NON-NIL reply message; the generated gRPC client stubs never return
     (nil, nil), and protobuf never yields nil elements inside repeated fields.  add-chain's
     explicit `rsp == nil` branch is modelled all the same (QNil).
   - each request issues at most ONE backend RPC (this tree: get-sth-consistency no longer fetches
     an STH first), so a request sequence is a list of independent requests. *)
From Coq Require Import ZArith Bool List.
From Coq.Strings Require Import Byte.
From V Require Import Base.GoInt Base.Bytes gen.HttpStatus gen.GetEntries gen.HandlerConds.
Import ListNotations.
Open Scope Z_scope.
Open Scope bool_scope.

(* ------------------------------------------------------------------ vocabulary *)

Inductive endpoint := AddChain | AddPreChain | GetSTH | GetSTHConsistency | GetProofByHash
                    | GetEntries | GetRoots | GetEntryAndProof.
Inductive rpc := RpcQueueLeaf | RpcGetLatestSignedLogRoot | RpcGetConsistencyProof
               | RpcGetInclusionProofByHash | RpcGetLeavesByRange | RpcGetEntryAndProof.
Inductive meth := MGet | MPost | MOther.

(* Handlers(): the method each endpoint is registered with *)
Definition method_of (e : endpoint) : meth :=
  match e with AddChain | AddPreChain => MPost | _ => MGet end.
Definition meth_eqb (a b : meth) : bool :=
  match a, b with MGet, MGet | MPost, MPost | MOther, MOther => true | _, _ => false end.

(* what a failing backend call returns, and what toHTTPStatus is handed *)
Inductive fault := FCode (c : Z) | FPlain.                     (* gRPC status code | not a gRPC status *)
Inductive errclass := ECode (c : Z) | EPlain | EInternal.      (* EInternal: an error made by the front end itself *)
Definition err_of_fault (f : fault) : errclass := match f with FCode c => ECode c | FPlain => EPlain end.

Inductive reply (A : Type) := RpcErr (f : fault) | Reply (a : A).
Arguments RpcErr {A} f.
Arguments Reply {A} a.

Inductive sth_mode := SthLog | SthMirror | SthFrozen.

Record config := {
  c_mask : bool;                         (* InstanceOptions.MaskInternalErrors *)
  c_mapper : errclass -> option Z;       (* InstanceOptions.ErrorMapper; absent = declines everything *)
  c_indirect : bool;                     (* issuance chains in external storage (indirectIssuanceChainService) *)
  c_sth : sth_mode;
  c_maxr : Z;                            (* MaxGetEntriesAllowed *)
  c_align : bool                         (* --align_getentries *)
}.

(* things that are neither request nor Trillian: signer, HTTP response channel, chain storage *)
Record env := { signer_ok : bool; write_ok : bool; store_ok : bool }.

(* the three places where this tree had no guard (pending_fixes/C08-*.diff); the current
   definitions are the GENERATED conditions, Findings/C08Prefix.v instantiates the pre-fix ones *)
Record guards := {
  g_queue_leaf_missing : bool -> bool -> bool;   (* addChainInternal: rsp.QueuedLeaf == nil || rsp.QueuedLeaf.Leaf == nil *)
  g_cons_proof_missing : bool -> bool;           (* getSTHConsistency: rsp.Proof == nil *)
  g_fixleaf_nil : bool -> bool                   (* indirect FixLogLeaf: leaf == nil *)
}.
Definition current_guards : guards :=
  {| g_queue_leaf_missing := queue_leaf_missing;
     g_cons_proof_missing := consistency_proof_missing;
     g_fixleaf_nil := fixleaf_nil_guard |}.

(* logInfo.toHTTPStatus: ErrorMapper first, then status.FromError, then the generated switch *)
Definition to_status (cfg : config) (e : errclass) : Z :=
  match c_mapper cfg e with
  | Some s => s
  | None => match e with ECode c => to_http_status c | _ => 500 end
  end.

(* ------------------------------------------------------------------ strconv.ParseInt(s, 10, 64) *)

Definition digit (b : byte) : option Z :=
  let n := Z.of_N (Byte.to_N b) in
  if (48 <=? n) && (n <=? 57) then Some (n - 48) else None.
Fixpoint digits (bs : bytes) (acc : Z) : option Z :=
  match bs with
  | [] => Some acc
  | b :: r => match digit b with Some d => digits r (acc * 10 + d) | None => None end
  end.
Definition is_plus (b : byte) : bool := Z.of_N (Byte.to_N b) =? 43.
Definition is_minus (b : byte) : bool := Z.of_N (Byte.to_N b) =? 45.
(* value, or None for ErrSyntax / ErrRange (the handlers treat both alike) *)
Definition parse_int64 (s : bytes) : option Z :=
  match s with
  | [] => None
  | b :: r =>
      let neg := is_minus b in
      let ds := if is_plus b || is_minus b then r else s in
      match ds with
      | [] => None
      | _ => match digits ds 0 with
             | None => None
             | Some u => if neg then (if u <=? two63 then Some (- u) else None)
                         else (if u <? two63 then Some u else None)
             end
      end
  end.
Definition blen (s : bytes) : Z := Z.of_nat (length s).

(* ------------------------------------------------------------------ backend replies *)

(* SignedLogRoot: absent | LogRoot bytes do not unmarshal | LogRootV1{TreeSize, len(RootHash)} *)
Inductive root := RootMissing | RootGarbled | RootOk (size hashlen : Z).
Definition root_size (r : root) : option Z := match r with RootOk n _ => Some n | _ => None end.
Definition root_is_missing (r : root) : bool := match r with RootMissing => true | _ => false end.

(* QueueLeafResponse; the echoed leaf's LeafValue as tls.Unmarshal sees it *)
Inductive decoded := Undecodable | TrailingData | Decodes.
Inductive queue_reply := QNil | QNoQueued | QNoLeaf | QLeaf (d : decoded).

Record cons_reply := { cr_root : root; cr_proof : option (list Z) }.          (* hash lengths *)
Record incl_reply := { ir_root : root; ir_proofs : list (list Z) }.
Record leaves_reply := { lr_root : root; lr_leaves : list (Z * bool) }.       (* LeafIndex, ExtraData fixable *)
Inductive eleaf := LeafAbsent | LeafPresent (value_len : Z) (fixable : bool).
Record eap_reply := { er_root : root; er_leaf : eleaf; er_proof : option (list Z) }.

Record backend := {
  b_queue : reply queue_reply;          (* QueueLeaf *)
  b_root : reply root;                  (* GetLatestSignedLogRoot *)
  b_mirror : reply unit;                (* MirrorSTHStorage.GetMirrorSTH (mirror logs; a non-nil STH on success) *)
  b_cons : reply cons_reply;            (* GetConsistencyProof *)
  b_incl : reply incl_reply;            (* GetInclusionProofByHash *)
  b_leaves : reply leaves_reply;        (* GetLeavesByRange *)
  b_entry : reply eap_reply             (* GetEntryAndProof *)
}.

(* ------------------------------------------------------------------ requests *)

(* add-chain body: what ParseBodyAsJSONChain / verifyAddChain / MerkleTreeLeafFromChain make of it *)
Inductive body_class := BodyNotJSON | BodyEmptyChain | ChainRejected | ChainLeafBuildFails | ChainOK.
(* the `hash` parameter: its length and whether base64.StdEncoding decodes it *)
Record hash_param := { h_len : Z; h_b64ok : bool }.

Inductive request :=
| ReqAddChain (pre : bool) (b : body_class)
| ReqGetSTH
| ReqConsistency (first second : bytes)            (* r.FormValue: the raw strings, [] when absent *)
| ReqProofByHash (h : hash_param) (tree_size : bytes)
| ReqEntries (start end_ : bytes)
| ReqRoots
| ReqEntryAndProof (leaf_index tree_size : bytes).

Definition endpoint_of (r : request) : endpoint :=
  match r with
  | ReqAddChain false _ => AddChain
  | ReqAddChain true _ => AddPreChain
  | ReqGetSTH => GetSTH
  | ReqConsistency _ _ => GetSTHConsistency
  | ReqProofByHash _ _ => GetProofByHash
  | ReqEntries _ _ => GetEntries
  | ReqRoots => GetRoots
  | ReqEntryAndProof _ _ => GetEntryAndProof
  end.

(* ------------------------------------------------------------------ handlers *)

(* what a handler function returns to ServeHTTP: (status, err != nil), whether IssueSCT was
   recorded, and the backend RPCs issued *)
Inductive hres := HPanic | HRet (st : Z) (err : bool) (sct : bool) (calls : list rpc).

(* marshal + w.Write of the success body; `return http.StatusOK, nil` *)
Definition finish (e : env) (sct : bool) (calls : list rpc) : hres :=
  if write_ok e then HRet 200 false sct calls else HRet 500 true sct calls.

Definition is_qnil (q : queue_reply) := match q with QNil => true | _ => false end.
Definition is_qnoqueued (q : queue_reply) := match q with QNoQueued => true | _ => false end.
Definition is_qnoleaf (q : queue_reply) := match q with QNoLeaf => true | _ => false end.

Definition add_chain (g : guards) (cfg : config) (e : env) (b : body_class) (be : reply queue_reply) : hres :=
  match b with
  | BodyNotJSON | BodyEmptyChain | ChainRejected | ChainLeafBuildFails => HRet 400 true false []
  | ChainOK =>
      (* li.buildLeaf: the indirect service stores the issuance chain first *)
      if c_indirect cfg && negb (store_ok e) then HRet 500 true false []
      else
        let calls := [RpcQueueLeaf] in
        match be with
        | RpcErr f => HRet (to_status cfg (err_of_fault f)) true false calls
        | Reply q =>
            if queue_rsp_missing (is_qnil q) then HRet 500 true false calls
            else match q with
            | QNil => HPanic                                   (* rsp.QueuedLeaf on a nil rsp *)
            | _ =>
              if g_queue_leaf_missing g (is_qnoqueued q) (is_qnoleaf q) then HRet 500 true false calls
              else match q with
              | QNil | QNoQueued | QNoLeaf => HPanic           (* rsp.QueuedLeaf.Leaf.LeafValue *)
              | QLeaf Undecodable => HRet 500 true false calls
              | QLeaf TrailingData => HRet 500 true false calls
              | QLeaf Decodes =>
                  if negb (signer_ok e) then HRet 500 true false calls     (* buildV1SCT *)
                  else (* RequestLog.IssueSCT, then the response is written *)
                    finish e true calls
              end
            end
        end
  end.

(* sth.go getSignedLogRoot: Some errclass on failure *)
Definition signed_log_root (be : reply root) : option errclass :=
  match be with
  | RpcErr f => Some (err_of_fault f)
  | Reply r =>
      if sth_root_missing (root_is_missing r) then Some EInternal
      else match r with
      | RootMissing | RootGarbled => Some EInternal            (* slr.GetLogRoot() is nil-safe; UnmarshalBinary fails *)
      | RootOk _ h => if sth_hash_size_bad h then Some EInternal else None
      end
  end.

Definition get_sth (cfg : config) (e : env) (be : reply root) (mir : reply unit) : hres :=
  match c_sth cfg with
  | SthFrozen => finish e false []
  | SthLog =>
      let calls := [RpcGetLatestSignedLogRoot] in
      match signed_log_root be with
      | Some ec => HRet (to_status cfg ec) true false calls
      | None => if negb (signer_ok e) then HRet (to_status cfg EInternal) true false calls   (* signV1TreeHead *)
                else finish e false calls
      end
  | SthMirror =>
      let calls := [RpcGetLatestSignedLogRoot] in
      match signed_log_root be with
      | Some ec => HRet (to_status cfg ec) true false calls
      | None => match mir with
                | RpcErr f => HRet (to_status cfg (err_of_fault f)) true false calls
                | Reply _ => finish e false calls
                end
      end
  end.

Definition get_sth_consistency (g : guards) (cfg : config) (e : env) (pf ps : bytes) (be : reply cons_reply) : hres :=
  if (blen pf =? 0) || (blen ps =? 0) then HRet 400 true false []
  else match parse_int64 pf, parse_int64 ps with
  | Some f0, Some s0 =>
      match consistency_range f0 s0 with
      | None => HRet 400 true false []
      | Some (f, s) =>
          if consistency_needs_backend f then
            let calls := [RpcGetConsistencyProof] in
            match be with
            | RpcErr fl => HRet (to_status cfg (err_of_fault fl)) true false calls
            | Reply r =>
                match root_size (cr_root r) with
                | None => HRet 500 true false calls
                | Some n =>
                    if consistency_tree_too_small n s then HRet 400 true false calls
                    else if g_cons_proof_missing g (is_none (cr_proof r)) then HRet 500 true false calls
                    else match cr_proof r with
                    | None => HPanic                                         (* rsp.Proof.Hashes *)
                    | Some lens => if existsb audit_hash_bad lens then HRet 500 true false calls
                                   else finish e false calls
                    end
                end
            end
          else finish e false []                                             (* first == 0: empty proof, no RPC *)
      end
  | _, _ => HRet 400 true false []
  end.

Definition get_proof_by_hash (cfg : config) (e : env) (h : hash_param) (pts : bytes) (be : reply incl_reply) : hres :=
  if proof_hash_param_empty (h_len h) then HRet 400 true false []
  else if negb (h_b64ok h) then HRet 400 true false []
  else
    let p := parse_int64 pts in
    if proof_tree_size_param_bad (is_none p) (oget 0 p) then HRet 400 true false []
    else
      let ts := oget 0 p in
      let calls := [RpcGetInclusionProofByHash] in
      match be with
      | RpcErr fl => HRet (to_status cfg (err_of_fault fl)) true false calls
      | Reply r =>
          match root_size (ir_root r) with
          | None => HRet 500 true false calls
          | Some n =>
              if proof_tree_too_small n ts then HRet 404 true false calls
              else if proof_absent (Z.of_nat (length (ir_proofs r))) then HRet 404 true false calls
              else match ir_proofs r with
              | [] => HPanic                                                 (* rsp.Proof[0] *)
              | p0 :: _ => if existsb audit_hash_bad p0 then HRet 500 true false calls
                           else finish e false calls
              end
          end
      end.

Fixpoint any_index_bad (start : Z) (i : Z) (ls : list (Z * bool)) : bool :=
  match ls with
  | [] => false
  | l :: r => entries_index_bad (fst l) start i || any_index_bad start (i + 1) r
  end.

Definition get_entries (cfg : config) (e : env) (pstart pend : bytes) (be : reply leaves_reply) : hres :=
  match parse_int64 pstart, parse_int64 pend with
  | Some s0, Some e0 =>
      match parse_range s0 e0 (c_maxr cfg) (c_align cfg) with
      | None => HRet 400 true false []
      | Some (s, en) =>
          let count := entries_count s en in
          let calls := [RpcGetLeavesByRange] in
          match be with
          | RpcErr fl => HRet (to_status cfg (err_of_fault fl)) true false calls
          | Reply r =>
              (* rpcGetLeavesByRange: FixLogLeaf on every leaf *)
              if c_indirect cfg && existsb (fun l => negb (snd l)) (lr_leaves r) then HRet 500 true false calls
              else match root_size (lr_root r) with
              | None => HRet 500 true false calls
              | Some n =>
                  if entries_tree_too_small n s then HRet 400 true false calls
                  else if entries_too_many (Z.of_nat (length (lr_leaves r))) count then HRet 500 true false calls
                  else if any_index_bad s 0 (lr_leaves r) then HRet 500 true false calls
                  else finish e false calls
              end
          end
      end
  | _, _ => HRet 400 true false []
  end.

Definition get_roots (e : env) : hres := finish e false [].

Inductive fixres := FixOk | FixErr | FixPanic.
(* services.go FixLogLeaf(ctx, rsp.Leaf) *)
Definition fix_log_leaf (g : guards) (cfg : config) (l : eleaf) : fixres :=
  if c_indirect cfg then
    match l with
    | LeafAbsent => if g_fixleaf_nil g true then FixOk else FixPanic        (* leaf.ExtraData on a nil leaf *)
    | LeafPresent _ fx => if g_fixleaf_nil g false then FixOk else if fx then FixOk else FixErr
    end
  else FixOk.

Definition eleaf_absent (l : eleaf) : bool := match l with LeafAbsent => true | _ => false end.
Definition eleaf_len (l : eleaf) : Z := match l with LeafAbsent => 0 | LeafPresent n _ => n end.

Definition get_entry_and_proof (g : guards) (cfg : config) (e : env) (pli pts : bytes) (be : reply eap_reply) : hres :=
  match parse_int64 pli, parse_int64 pts with
  | Some li0, Some ts0 =>
      match eap_params li0 ts0 with
      | None => HRet 400 true false []
      | Some (li, ts) =>
          let calls := [RpcGetEntryAndProof] in
          match be with
          | RpcErr fl => HRet (to_status cfg (err_of_fault fl)) true false calls
          | Reply r =>
              match fix_log_leaf g cfg (er_leaf r) with
              | FixPanic => HPanic
              | FixErr => HRet 500 true false calls
              | FixOk =>
                  match root_size (er_root r) with
                  | None => HRet 500 true false calls
                  | Some n =>
                      if eap_tree_too_small n ts then HRet 400 true false calls
                      else if eap_reply_incomplete (eleaf_absent (er_leaf r)) (eleaf_len (er_leaf r)) (is_none (er_proof r))
                      then HRet 500 true false calls
                      else match er_leaf r, er_proof r with
                      | LeafPresent _ _, Some hs =>
                          if eap_proof_empty ts (Z.of_nat (length hs)) then HRet 500 true false calls
                          else finish e false calls
                      | _, _ => HPanic                                       (* rsp.Leaf.LeafValue / rsp.Proof.Hashes *)
                      end
                  end
              end
          end
      end
  | _, _ => HRet 400 true false []
  end.

Definition handle (g : guards) (cfg : config) (e : env) (r : request) (b : backend) : hres :=
  match r with
  | ReqAddChain _ body => add_chain g cfg e body (b_queue b)
  | ReqGetSTH => get_sth cfg e (b_root b) (b_mirror b)
  | ReqConsistency pf ps => get_sth_consistency g cfg e pf ps (b_cons b)
  | ReqProofByHash h ts => get_proof_by_hash cfg e h ts (b_incl b)
  | ReqEntries ps pe => get_entries cfg e ps pe (b_leaves b)
  | ReqRoots => get_roots e
  | ReqEntryAndProof li ts => get_entry_and_proof g cfg e li ts (b_entry b)
  end.

(* ------------------------------------------------------------------ AppHandler.ServeHTTP *)

Record response := {
  status : Z;                 (* HTTP status sent *)
  error_page : bool;          (* SendHTTPError / http.Error produced the body *)
  detail : bool;              (* ... and the body carries the error text *)
  sct_issued : bool;          (* RequestLog.IssueSCT was called (an SCT was signed for this request) *)
  logged : Z;                 (* RequestLog.Status *)
  calls : list rpc            (* backend RPCs issued *)
}.
Inductive outcome := Panic | Done (r : response).

Definition send_error (cfg : config) (st : Z) (sct : bool) (lg : Z) (cs : list rpc) : response :=
  {| status := st; error_page := true; detail := send_error_detail (c_mask cfg) st;
     sct_issued := sct; logged := lg; calls := cs |}.

Definition serve (g : guards) (cfg : config) (e : env) (m : meth) (form_ok : bool) (r : request) (b : backend) : outcome :=
  if negb (meth_eqb m (method_of (endpoint_of r))) then Done (send_error cfg 405 false 405 [])
  else if meth_eqb m MGet && negb form_ok then Done (send_error cfg 400 false 400 [])
  else match handle g cfg e r b with
  | HPanic => Panic
  | HRet st err sct cs =>
      if err then Done (send_error cfg st sct st cs)
      else if serve_guard_non200 st then Done (send_error cfg 500 sct st cs)    (* "http handler misbehaved" *)
      else Done {| status := st; error_page := false; detail := false; sct_issued := sct; logged := st; calls := cs |}
  end.

(* a request sequence against one instance: the handlers keep no state between requests *)
Definition serve_seq (g : guards) (cfg : config) (rs : list (env * meth * bool * request * backend)) : list outcome :=
  map (fun x => match x with (e, m, fo, r, b) => serve g cfg e m fo r b end) rs.
