(* C16 library: integer ranges as lists, list update, permutation helpers. *)
From Coq Require Import ZArith Bool List Lia Permutation.
Import ListNotations.
Open Scope Z_scope.

(* a, a+1, ..., a+n-1 *)
Fixpoint zseq (a : Z) (n : nat) : list Z :=
  match n with O => [] | S n' => a :: zseq (a + 1) n' end.

(* the indices a <= i < b (empty when b <= a) *)
Definition zrange (a b : Z) : list Z := zseq a (Z.to_nat (b - a)).

Lemma zseq_length a n : length (zseq a n) = n.
Proof. revert a; induction n; cbn; intros; [reflexivity | now rewrite IHn]. Qed.

Lemma zseq_app a n m : zseq a (n + m) = zseq a n ++ zseq (a + Z.of_nat n) m.
Proof.
  revert a; induction n as [|n IH]; intros a.
  - cbn. now rewrite Z.add_0_r.
  - cbn [Nat.add zseq app]. rewrite IH. do 3 f_equal. lia.
Qed.

Lemma zseq_In a n i : In i (zseq a n) <-> a <= i < a + Z.of_nat n.
Proof.
  revert a; induction n as [|n IH]; intros a.
  - cbn. lia.
  - cbn [zseq In]. rewrite IH. lia.
Qed.

Lemma zseq_NoDup a n : NoDup (zseq a n).
Proof.
  revert a; induction n as [|n IH]; intros a; cbn; constructor.
  - rewrite zseq_In. lia.
  - apply IH.
Qed.

Lemma zrange_empty a b : b <= a -> zrange a b = [].
Proof. intros. unfold zrange. replace (Z.to_nat (b - a)) with O by lia. reflexivity. Qed.

Lemma zrange_In a b i : In i (zrange a b) <-> a <= i < b.
Proof. unfold zrange. rewrite zseq_In. lia. Qed.

Lemma zrange_NoDup a b : NoDup (zrange a b).
Proof. apply zseq_NoDup. Qed.

Lemma zrange_length a b : a <= b -> Z.of_nat (length (zrange a b)) = b - a.
Proof. intros. unfold zrange. rewrite zseq_length. lia. Qed.

Lemma zrange_split a m b : a <= m <= b -> zrange a b = zrange a m ++ zrange m b.
Proof.
  intros H. unfold zrange.
  replace (Z.to_nat (b - a)) with (Z.to_nat (m - a) + Z.to_nat (b - m))%nat by lia.
  rewrite zseq_app. do 2 f_equal. lia.
Qed.

Lemma zrange_cons a b : a < b -> zrange a b = a :: zrange (a + 1) b.
Proof.
  intros H. unfold zrange.
  replace (Z.to_nat (b - a)) with (S (Z.to_nat (b - (a + 1)))) by lia. reflexivity.
Qed.

Lemma zseq_zrange a n : zseq a n = zrange a (a + Z.of_nat n).
Proof. unfold zrange. f_equal. lia. Qed.

(* list update *)
Fixpoint upd {A} (l : list A) (i : nat) (x : A) : list A :=
  match l, i with
  | [], _ => []
  | _ :: t, O => x :: t
  | h :: t, S i' => h :: upd t i' x
  end.

Lemma upd_length {A} (l : list A) i x : length (upd l i x) = length l.
Proof. revert i; induction l; destruct i; cbn; auto. Qed.

Lemma nth_error_upd_same {A} (l : list A) i x o :
  nth_error l i = Some o -> nth_error (upd l i x) i = Some x.
Proof. revert i; induction l; destruct i; cbn; intros; try discriminate; auto. Qed.

Lemma nth_error_upd_other {A} (l : list A) i j x :
  i <> j -> nth_error (upd l i x) j = nth_error l j.
Proof.
  revert i j; induction l; intros [|i] [|j] H; cbn; auto; try congruence.
Qed.

Lemma nth_error_upd {A} (l : list A) i j x y :
  nth_error (upd l i x) j = Some y ->
  (i = j /\ y = x) \/ (i <> j /\ nth_error l j = Some y).
Proof.
  intros H. destruct (Nat.eq_dec i j) as [->|N].
  - left. split; [reflexivity|].
    destruct (nth_error l j) eqn:E.
    + rewrite (nth_error_upd_same _ _ _ _ E) in H. congruence.
    + apply nth_error_None in E. assert (nth_error (upd l j x) j = None) as E'
        by (apply nth_error_None; rewrite upd_length; exact E). congruence.
  - right. split; [exact N|]. now rewrite nth_error_upd_other in H.
Qed.

(* replacing the i-th element: the flat_map changes by exactly that element's contribution *)
Lemma flat_map_upd {A B} (f : A -> list B) (l : list A) i o n :
  nth_error l i = Some o ->
  Permutation (f o ++ flat_map f (upd l i n)) (f n ++ flat_map f l).
Proof.
  revert i; induction l as [|h t IH]; intros [|i] H; cbn in *; try discriminate.
  - inversion H; subst. apply Permutation_app_swap_app.
  - specialize (IH _ H).
    rewrite (Permutation_app_swap_app (f o) (f h)).
    rewrite (Permutation_app_swap_app (f n) (f h)).
    now apply Permutation_app_head.
Qed.

Lemma Forall_upd {A} (P : A -> Prop) (l : list A) i x :
  Forall P l -> P x -> Forall P (upd l i x).
Proof.
  intros H Hx. revert i; induction H; intros [|i]; cbn; constructor; auto.
Qed.

Lemma Forall_nth_error {A} (P : A -> Prop) (l : list A) i x :
  Forall P l -> nth_error l i = Some x -> P x.
Proof. intros H E. rewrite Forall_forall in H. apply H. eapply nth_error_In; eauto. Qed.

(* the i-th .. entries of a list, as (index, entry) pairs starting at index a *)
Fixpoint indexed {E} (a : Z) (es : list E) : list (Z * E) :=
  match es with [] => [] | e :: t => (a, e) :: indexed (a + 1) t end.

Lemma indexed_fst {E} a (es : list E) : map fst (indexed a es) = zseq a (length es).
Proof. revert a; induction es; cbn; intros; [reflexivity | now rewrite IHes]. Qed.

Lemma indexed_snd {E} a (es : list E) : map snd (indexed a es) = es.
Proof. revert a; induction es; cbn; intros; [reflexivity | now rewrite IHes]. Qed.

Lemma indexed_app {E} a (x y : list E) :
  indexed a (x ++ y) = indexed a x ++ indexed (a + Z.of_nat (length x)) y.
Proof.
  revert a; induction x as [|e x IH]; intros a.
  - cbn. now rewrite Z.add_0_r.
  - cbn [app indexed length]. rewrite IH. do 3 f_equal. lia.
Qed.

Lemma indexed_map {E} (f : Z -> E) a n :
  indexed a (map f (zseq a n)) = map (fun i => (i, f i)) (zseq a n).
Proof. revert a; induction n; cbn; intros; [reflexivity | now rewrite IHn]. Qed.

Lemma indexed_length {E} a (es : list E) : length (indexed a es) = length es.
Proof. revert a; induction es; cbn; intros; auto. Qed.
