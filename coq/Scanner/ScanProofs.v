(* C16: the Scanner's matcher stage: every entry the fetcher delivers is processed exactly
   once, so every selected entry gets exactly one callback of the right kind - for any
   interleaving of fetcher steps and matcher goroutines. *)
From Coq Require Import ZArith Bool List Lia Permutation.
From V Require Import Base.GoInt gen.Fetcher Scanner.FetchLib Scanner.FetchModel Scanner.FetchProofs.
Import ListNotations.
Open Scope Z_scope.

Lemma remove_nth_perm {A} (l : list A) k x : nth_error l k = Some x -> Permutation l (x :: remove_nth l k).
Proof.
  revert k; induction l as [|h t IH]; intros [|k] H; cbn in *; try discriminate.
  - inversion H; subst. reflexivity.
  - rewrite (IH _ H) at 1. apply perm_swap.
Qed.

Lemma remove_nth_length {A} (l : list A) k x : nth_error l k = Some x -> length l = S (length (remove_nth l k)).
Proof. intros H. pose proof (Permutation_length (remove_nth_perm l k x H)) as L. exact L. Qed.

Section Scan.
Context {entry : Type}.
Notation state := (state entry).
Notation label := (label entry).
Notation sstate := (sstate entry).
Notation slabel := (slabel entry).

Variable classify : entry -> eclass.
Variable matches : entry -> bool.
Variable cfg : config.
Variable mk : mkind.
Variable po : bool.

Notation fo := (found_of classify matches (c_svariant cfg) mk po).
Notation sstep := (sstep classify matches cfg mk po).
Notation srun := (srun classify matches cfg mk po).

(* what a fetcher step adds to the callback log *)
Definition fresh_of (s : state) (l : label) : list (Z * entry) :=
  match l with
  | LCallback w => match nth_error (ws s) w with Some (WGot a _ es) => indexed a es | _ => [] end
  | _ => []
  end.

Lemma step_delivered s l s' : step cfg s l = Some s' -> delivered s' = delivered s ++ fresh_of s l.
Proof.
  intros St. destruct l as [w|n| |w r|w|w| |]; cbn [step fresh_of] in *.
  - destruct (_ && _); [|discriminate]. destruct (nth_error (ws s) w) as [[| | |]|]; try discriminate.
    inversion St; subst s'. unfold delivered; cbn. now rewrite app_nil_r.
  - destruct (_ && _); [|discriminate]. inversion St; subst s'. unfold delivered; cbn. now rewrite app_nil_r.
  - destruct (_ && _); [|discriminate]. inversion St; subst s'. unfold delivered; cbn. now rewrite app_nil_r.
  - destruct (nth_error (ws s) w) as [[| | |]|]; try discriminate.
    destruct r; inversion St; subst s'; unfold delivered; cbn; now rewrite app_nil_r.
  - destruct (nth_error (ws s) w) as [[|a b|a b es|]|]; try discriminate.
    inversion St; subst s'. unfold delivered; cbn [batches]. now rewrite flatten_app, flatten_one.
  - destruct (nth_error (ws s) w) as [[| | |]|]; try discriminate.
    + destruct (g_alive s); [discriminate|]. inversion St; subst s'. unfold delivered; cbn. now rewrite app_nil_r.
    + destruct (cancelled s); [|discriminate]. inversion St; subst s'. unfold delivered; cbn. now rewrite app_nil_r.
  - inversion St; subst s'. unfold delivered; cbn. now rewrite app_nil_r.
  - inversion St; subst s'. unfold delivered; cbn. now rewrite app_nil_r.
Qed.

Record SInv (s : sstate) : Prop := {
  si_found : Permutation (found s ++ flat_map fo (pool s)) (flat_map fo (delivered (fs s)));
  si_count : processed s + Z.of_nat (length (pool s)) = Z.of_nat (length (delivered (fs s)))
}.

Lemma sinit_sinv end0 : SInv (sinit cfg end0).
Proof. constructor; cbn; [constructor | reflexivity]. Qed.

Lemma sstep_sinv s l s' : SInv s -> sstep s l = Some s' -> SInv s'.
Proof.
  intros [F C] St. destruct l as [l|k]; cbn [FetchModel.sstep] in St.
  - destruct (step cfg (fs s) l) as [f'|] eqn:E; [|discriminate].
    inversion St; subst s'; clear St. pose proof (step_delivered _ _ _ E) as D.
    change (match l with
            | LCallback w => match nth_error (ws (fs s)) w with Some (WGot a _ es) => indexed a es | _ => [] end
            | _ => []
            end) with (fresh_of (fs s) l).
    constructor; cbn [fs pool found processed].
    + rewrite D, !flat_map_app, app_assoc. apply Permutation_app_tail. exact F.
    + rewrite D, !app_length. lia.
  - destruct (nth_error (pool s) k) as [ie|] eqn:E; [|discriminate].
    inversion St; subst s'; clear St.
    constructor; cbn [fs pool found processed].
    + rewrite <- F. rewrite <- app_assoc. apply Permutation_app_head.
      rewrite (Permutation_flat_map fo (remove_nth_perm _ _ _ E)). cbn [flat_map]. reflexivity.
    + rewrite <- C. rewrite (remove_nth_length _ _ _ E). lia.
Qed.

Lemma srun_sinv : forall tr s s', SInv s -> srun s tr = Some s' -> SInv s'.
Proof.
  induction tr as [|l tr IH]; intros s s' I R; cbn in R.
  - inversion R; subst; exact I.
  - destruct (sstep s l) as [s1|] eqn:St; [|discriminate]. eapply IH; [eapply sstep_sinv; eauto | exact R].
Qed.

(* the fetcher inside the scanner is the fetcher *)
Lemma srun_fetch : forall tr s s', srun s tr = Some s' -> run cfg (fs s) (fetch_labels tr) = Some (fs s').
Proof.
  induction tr as [|l tr IH]; intros s s' R; cbn in R.
  - inversion R; subst. reflexivity.
  - destruct (sstep s l) as [s1|] eqn:St; [|discriminate]. specialize (IH _ _ R).
    destruct l as [l|k]; cbn [FetchModel.sstep] in St; cbn [fetch_labels flat_map app].
    + destruct (step cfg (fs s) l) as [f'|] eqn:E; [|discriminate]. inversion St; subst s1.
      cbn [run]. rewrite E. exact IH.
    + destruct (nth_error (pool s) k); [|discriminate]. inversion St; subst s1. exact IH.
Qed.

(* Scan returned: the callbacks are exactly the selected entries among the delivered ones,
   each once, with the kind processEntry assigns; and every delivered entry was processed *)
Lemma sterminal_found s :
  SInv s -> sterminal s = true ->
  Permutation (found s) (flat_map fo (delivered (fs s)))
  /\ processed s = Z.of_nat (length (delivered (fs s))).
Proof.
  intros [F C] T. unfold sterminal in T. apply andb_true_iff in T as [_ T].
  destruct (pool s); [|discriminate]. cbn in *. rewrite app_nil_r in F. split; [exact F | lia].
Qed.

End Scan.
