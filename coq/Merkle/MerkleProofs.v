(* Proofs about Merkle/Merkle.v: unfolding equations, COMPLETENESS of consistency proofs and
   audit paths, and SOUNDNESS MODULO COLLISION of the consistency verifier.

   Soundness is proved in an informative form first ([roots_sound_inf], in Type): from an
   accepted proof the development COMPUTES either the equality of roots or a concrete pair
   of distinct inputs with the same H value, so the collision really is "exhibited from the
   inputs" (for a fixed-length H a bare [exists x y, x <> y /\ H x = H y] would be true
   classically by counting and say nothing). *)
From Coq Require Import NArith List Bool Lia PeanoNat.
From Coq.Strings Require Import Byte.
From V Require Import Base.Bytes Merkle.Merkle.
Import ListNotations.
Local Open Scope N_scope.

(* ------------------------------------------------------------------ arithmetic of the split *)

Lemma pow2lt_spec n : 2 <= n -> 1 <= pow2lt n /\ pow2lt n < n /\ n <= 2 * pow2lt n.
Proof.
  intros Hn. unfold pow2lt.
  assert (Hp : 0 < n - 1) by lia.
  destruct (N.log2_spec (n - 1) Hp) as [A B].
  rewrite N.pow_succ_r' in B.
  assert (2 ^ N.log2 (n - 1) <> 0) by (apply N.pow_nonzero; lia).
  lia.
Qed.

(* k = pow2lt n is also the split point of every m with k < m <= n *)
Lemma pow2lt_between n m : 2 <= n -> pow2lt n < m -> m <= n -> pow2lt m = pow2lt n.
Proof.
  intros Hn Hlt Hle. unfold pow2lt in *. f_equal.
  assert (Hp : 0 < n - 1) by lia.
  destruct (N.log2_spec (n - 1) Hp) as [A B].
  apply N.log2_unique; [lia|]. split; lia.
Qed.

(* ------------------------------------------------------------------ list bookkeeping in N *)

Lemma lenN_firstN {A} k (l : list A) : k <= lenN l -> lenN (firstN k l) = k.
Proof. unfold lenN, firstN. rewrite firstn_length. lia. Qed.

Lemma lenN_skipN {A} k (l : list A) : lenN (skipN k l) = lenN l - k.
Proof. unfold lenN, skipN. rewrite skipn_length. lia. Qed.

Lemma firstN_firstN {A} m k (l : list A) : m <= k -> firstN m (firstN k l) = firstN m l.
Proof. intros Hk. unfold firstN. rewrite firstn_firstn. f_equal. lia. Qed.

Lemma skipN_firstN {A} k m (l : list A) : k <= m -> skipN k (firstN m l) = firstN (m - k) (skipN k l).
Proof. intros Hk. unfold firstN, skipN. rewrite skipn_firstn_comm. f_equal. lia. Qed.

Lemma firstN_all {A} m (l : list A) : lenN l <= m -> firstN m l = l.
Proof. intros Hm. unfold firstN, lenN in *. apply firstn_all2. lia. Qed.

Lemma firstN_skipN_app {A} k (l : list A) : firstN k l ++ skipN k l = l.
Proof. apply firstn_skipn. Qed.

Lemma app_eq_len {A} (a a' b b' : list A) : length a = length a' -> a ++ b = a' ++ b' -> a = a' /\ b = b'.
Proof.
  revert a'. induction a as [|x a IH]; destruct a' as [|y a']; cbn; intros Hl He; try discriminate.
  - auto.
  - injection He as -> He. destruct (IH a') as [-> ->]; auto.
Qed.

Lemma nth_firstn_lt {A} (l : list A) : forall i j d, (i < j)%nat -> nth i (firstn j l) d = nth i l d.
Proof.
  induction l as [|x l IH]; intros i j d Hij.
  - rewrite firstn_nil. reflexivity.
  - destruct j; [lia|]. destruct i; cbn; [reflexivity|]. apply IH. lia.
Qed.

Lemma nth_skipn_add {A} (l : list A) : forall k i d, nth i (skipn k l) d = nth (k + i) l d.
Proof.
  induction l as [|x l IH]; intros k i d.
  - rewrite skipn_nil. destruct i, k; reflexivity.
  - destruct k; cbn; [reflexivity|]. apply IH.
Qed.

Definition nthN {A} (i : N) (l : list A) (d : A) : A := nth (N.to_nat i) l d.

Definition bytes_eq_dec (a b : bytes) : {a = b} + {a <> b} := list_eq_dec Byte.byte_eq_dec a b.

Section MerkleProofs.
  Variable H : bytes -> bytes.
  Notation mth := (mth H).
  Notation mth_f := (mth_f H).
  Notation node_hash := (node_hash H).
  Notation leaf_hash := (leaf_hash H).
  Notation roots := (roots H).
  Notation vcons := (vcons H).
  Notation cproof := (cproof H).
  Notation subproof_f := (subproof_f H).

  (* ---------------------------------------------------------------- MTH: fuel and unfolding *)

  Lemma mth_f_fuel : forall f f' l, (length l <= f)%nat -> (length l <= f')%nat -> mth_f f l = mth_f f' l.
  Proof.
    induction f as [|f IH]; intros f' l Hf Hf'.
    - destruct l; [|cbn in Hf; lia]. destruct f'; reflexivity.
    - destruct l as [|d [|d2 t]].
      + destruct f'; reflexivity.
      + destruct f'; reflexivity.
      + destruct f' as [|f']; [cbn in Hf'; lia|].
        cbn [Merkle.mth_f].
        set (l := d :: d2 :: t) in *.
        assert (Hn : 2 <= lenN l) by (unfold lenN, l; cbn [length]; lia).
        destruct (pow2lt_spec _ Hn) as (K1 & K2 & K3).
        assert (L1 : (length (firstN (pow2lt (lenN l)) l) <= f)%nat /\ (length (firstN (pow2lt (lenN l)) l) <= f')%nat).
        { pose proof (lenN_firstN (pow2lt (lenN l)) l ltac:(lia)) as E. unfold lenN in *. lia. }
        assert (L2 : (length (skipN (pow2lt (lenN l)) l) <= f)%nat /\ (length (skipN (pow2lt (lenN l)) l) <= f')%nat).
        { pose proof (lenN_skipN (pow2lt (lenN l)) l) as E. unfold lenN in *. lia. }
        rewrite (IH f' (firstN (pow2lt (lenN l)) l)) by tauto.
        rewrite (IH f' (skipN (pow2lt (lenN l)) l)) by tauto. reflexivity.
  Qed.

  Lemma mth_nil : mth [] = empty_hash H.
  Proof. reflexivity. Qed.

  Lemma mth_one d : mth [d] = leaf_hash d.
  Proof. reflexivity. Qed.

  Lemma mth_unfold l : 2 <= lenN l ->
    mth l = node_hash (mth (firstN (pow2lt (lenN l)) l)) (mth (skipN (pow2lt (lenN l)) l)).
  Proof.
    intros Hn. destruct (pow2lt_spec _ Hn) as (K1 & K2 & K3).
    unfold Merkle.mth at 1.
    destruct l as [|d [|d2 t]]; try (unfold lenN in Hn; cbn in Hn; lia).
    set (l := d :: d2 :: t) in *.
    change (length l) with (S (length (d2 :: t))).
    cbn [Merkle.mth_f]. fold l.
    unfold Merkle.mth.
    pose proof (lenN_firstN (pow2lt (lenN l)) l ltac:(lia)) as E1.
    pose proof (lenN_skipN (pow2lt (lenN l)) l) as E2.
    assert (Hl : length l = S (length (d2 :: t))) by reflexivity.
    rewrite (mth_f_fuel (length (d2 :: t)) (length (firstN (pow2lt (lenN l)) l)) (firstN (pow2lt (lenN l)) l))
      by (unfold lenN in *; lia).
    rewrite (mth_f_fuel (length (d2 :: t)) (length (skipN (pow2lt (lenN l)) l)) (skipN (pow2lt (lenN l)) l))
      by (unfold lenN in *; lia).
    reflexivity.
  Qed.

  (* the root of the first m leaves, when the split point k of the n-leaf tree is below m *)
  Lemma mth_prefix_split l m :
    2 <= lenN l -> pow2lt (lenN l) < m -> m <= lenN l ->
    mth (firstN m l) =
    node_hash (mth (firstN (pow2lt (lenN l)) l)) (mth (firstN (m - pow2lt (lenN l)) (skipN (pow2lt (lenN l)) l))).
  Proof.
    intros Hn Hk Hm. set (k := pow2lt (lenN l)) in *.
    destruct (pow2lt_spec _ Hn) as (K1 & K2 & K3). fold k in K1, K2, K3.
    assert (Hlen : lenN (firstN m l) = m) by (apply lenN_firstN; lia).
    rewrite mth_unfold by lia. rewrite Hlen.
    rewrite (pow2lt_between (lenN l) m) by (fold k; lia). fold k.
    rewrite firstN_firstN by lia. rewrite skipN_firstN by lia. reflexivity.
  Qed.

  (* every tree hash is a value of H *)
  Lemma mth_is_hash l : exists x, mth l = H x.
  Proof.
    destruct l as [|d [|d2 t]].
    - exists []. reflexivity.
    - eexists. reflexivity.
    - rewrite mth_unfold by (unfold lenN; cbn [length]; lia). eexists. reflexivity.
  Qed.

  (* ---------------------------------------------------------------- completeness *)

  Lemma roots_complete : forall f m l b r1,
    (length l <= f)%nat -> 0 < m -> m <= lenN l ->
    (b = true -> r1 = mth (firstN m l)) ->
    roots (rev (subproof_f f m l b)) m (lenN l) b r1 = Some (mth (firstN m l), mth l).
  Proof.
    induction f as [|f IH]; intros m l b r1 Hf Hm Hmn Hr.
    - assert (lenN l = 0) by (unfold lenN; lia). lia.
    - cbn [Merkle.subproof_f].
      destruct (m =? lenN l) eqn:E.
      + apply N.eqb_eq in E. rewrite firstN_all by lia.
        destruct b; cbn [rev app Merkle.roots]; rewrite E, N.eqb_refl.
        * rewrite Hr by reflexivity. rewrite firstN_all by lia. reflexivity.
        * reflexivity.
      + apply N.eqb_neq in E.
        assert (Hn : 2 <= lenN l) by lia.
        destruct (pow2lt_spec _ Hn) as (K1 & K2 & K3).
        set (k := pow2lt (lenN l)) in *.
        assert (E1 : lenN (firstN k l) = k) by (apply lenN_firstN; lia).
        assert (E2 : lenN (skipN k l) = lenN l - k) by apply lenN_skipN.
        destruct (m <=? k) eqn:Ek.
        * apply N.leb_le in Ek.
          rewrite rev_unit. cbn [Merkle.roots].
          replace (m =? lenN l) with false by (symmetry; apply N.eqb_neq; lia).
          fold k. rewrite (proj2 (N.leb_le m k)) by lia.
          specialize (IH m (firstN k l) b r1).
          rewrite E1 in IH. rewrite firstN_firstN in IH by lia.
          rewrite IH; [| unfold lenN in *; lia | lia | lia | exact Hr ].
          rewrite (mth_unfold l Hn). reflexivity.
        * apply N.leb_gt in Ek.
          rewrite rev_unit. cbn [Merkle.roots].
          replace (m =? lenN l) with false by (symmetry; apply N.eqb_neq; lia).
          fold k. rewrite (proj2 (N.leb_gt m k)) by lia.
          specialize (IH (m - k) (skipN k l) false r1).
          rewrite E2 in IH.
          rewrite IH; [| unfold lenN in *; lia | lia | lia | discriminate ].
          rewrite (mth_unfold l Hn). fold k.
          rewrite (mth_prefix_split l m Hn) by (fold k; lia). reflexivity.
  Qed.

  (* COMPLETENESS: the proof generated for (m, leaves) verifies against the two genuine roots *)
  Theorem vcons_complete : forall l m,
    0 < m -> m <= lenN l ->
    vcons m (lenN l) (mth (firstN m l)) (mth l) (cproof m l) = true.
  Proof.
    intros l m Hm Hmn. unfold Merkle.vcons, Merkle.cproof.
    rewrite (roots_complete (length l) m l true (mth (firstN m l))); auto.
    rewrite andb_true_iff. split; apply bytes_eqb_eq; reflexivity.
  Qed.

  Theorem verify_consistency_complete : forall l m,
    0 < m -> m <= lenN l ->
    verify_consistency H m (lenN l) (cproof m l) (mth (firstN m l)) (mth l) = true.
  Proof.
    intros l m Hm Hmn. unfold verify_consistency.
    replace (lenN l <? m) with false by (symmetry; apply N.ltb_ge; lia).
    replace (m =? 0) with false by (symmetry; apply N.eqb_neq; lia).
    destruct (m =? lenN l) eqn:E.
    - unfold Merkle.cproof.
      assert (Hs : subproof_f (length l) m l true = []).
      { destruct (length l) eqn:El; cbn [Merkle.subproof_f]; rewrite E; reflexivity. }
      rewrite Hs. apply N.eqb_eq in E. rewrite firstN_all by lia. apply bytes_eqb_eq. reflexivity.
    - pose proof (vcons_complete l m Hm Hmn) as Hv.
      destruct (cproof m l) eqn:Ep; [| exact Hv].
      unfold Merkle.vcons in Hv. cbn [rev Merkle.roots] in Hv.
      rewrite E in Hv. discriminate.
  Qed.

  Lemma consistency_complete_both : forall l m,
    0 < m -> m <= lenN l ->
    vcons m (lenN l) (mth (firstN m l)) (mth l) (cproof m l) = true
    /\ verify_consistency H m (lenN l) (cproof m l) (mth (firstN m l)) (mth l) = true.
  Proof. intros. split; [apply vcons_complete | apply verify_consistency_complete]; assumption. Qed.

  (* ---------------------------------------------------------------- audit paths: completeness *)

  Lemma root_from_path_complete : forall f i l,
    (length l <= f)%nat -> i < lenN l ->
    root_from_path H (rev (path_f H f i l)) i (lenN l) (leaf_hash (nthN i l [])) = Some (mth l).
  Proof.
    induction f as [|f IH]; intros i l Hf Hi.
    - unfold lenN in Hi. lia.
    - cbn [Merkle.path_f].
      destruct (lenN l <=? 1) eqn:E.
      + apply N.leb_le in E. assert (E1 : lenN l = 1) by lia. assert (i = 0) by lia. subst i.
        destruct l as [|d [|d2 t]]; unfold lenN in E1; cbn [length] in E1; try lia.
        cbn [rev Merkle.root_from_path]. unfold lenN. cbn. reflexivity.
      + apply N.leb_gt in E.
        assert (Hn : 2 <= lenN l) by lia.
        destruct (pow2lt_spec _ Hn) as (K1 & K2 & K3).
        set (k := pow2lt (lenN l)) in *.
        assert (E1 : lenN (firstN k l) = k) by (apply lenN_firstN; lia).
        assert (E2 : lenN (skipN k l) = lenN l - k) by apply lenN_skipN.
        destruct (i <? k) eqn:Ek.
        * apply N.ltb_lt in Ek. rewrite rev_unit. cbn [Merkle.root_from_path].
          replace (lenN l <=? 1) with false by (symmetry; apply N.leb_gt; lia).
          fold k. rewrite (proj2 (N.ltb_lt i k)) by lia.
          specialize (IH i (firstN k l)). rewrite E1 in IH.
          replace (nthN i (firstN k l) []) with (nthN i l []) in IH
            by (unfold nthN, firstN; symmetry; apply nth_firstn_lt; lia).
          rewrite IH; [| unfold lenN in *; lia | lia ].
          rewrite (mth_unfold l Hn). reflexivity.
        * apply N.ltb_ge in Ek. rewrite rev_unit. cbn [Merkle.root_from_path].
          replace (lenN l <=? 1) with false by (symmetry; apply N.leb_gt; lia).
          fold k. rewrite (proj2 (N.ltb_ge i k)) by lia.
          specialize (IH (i - k) (skipN k l)). rewrite E2 in IH.
          replace (nthN (i - k) (skipN k l) []) with (nthN i l []) in IH
            by (unfold nthN, skipN; rewrite nth_skipn_add; f_equal; lia).
          rewrite IH; [| unfold lenN in *; lia | lia ].
          rewrite (mth_unfold l Hn). reflexivity.
  Qed.

  (* COMPLETENESS of audit paths: the generated path of leaf i verifies against the root *)
  Theorem vpath_complete : forall l i,
    i < lenN l ->
    vpath H i (lenN l) (leaf_hash (nthN i l [])) (mth l) (path H i l) = true.
  Proof.
    intros l i Hi. unfold vpath, path.
    rewrite (proj2 (N.ltb_lt i (lenN l)) Hi). cbn [andb].
    rewrite root_from_path_complete by auto. apply bytes_eqb_eq. reflexivity.
  Qed.

  (* ---------------------------------------------------------------- soundness modulo collision *)

  (* The only facts used about H: its values have one fixed length (32 for SHA-256), and
     the proof nodes offered to the verifier have that length too.  The second condition is
     NECESSARY: see [odd_length_nodes_accepted] below. *)
  Variable hlen : nat.
  Hypothesis H_len : forall x, length (H x) = hlen.

  Definition collision : Type := { xy : bytes * bytes | fst xy <> snd xy /\ H (fst xy) = H (snd xy) }.
  Definition collision_exists : Prop := exists x y : bytes, x <> y /\ H x = H y.

  Lemma collision_inhabits : collision -> collision_exists.
  Proof. intros [[x y] [A B]]. exists x, y. auto. Qed.

  Definition sized (h : bytes) : Prop := length h = hlen.

  Lemma mth_len l : length (mth l) = hlen.
  Proof. destruct (mth_is_hash l) as [x ->]. apply H_len. Qed.

  Lemma node_hash_len a b : length (node_hash a b) = hlen.
  Proof. apply H_len. Qed.

  Lemma node_hash_inj_inf a b a' b' :
    length a = length a' -> node_hash a b = node_hash a' b' -> (a = a' /\ b = b') + collision.
  Proof.
    intros Hl He. unfold Merkle.node_hash in He.
    destruct (bytes_eq_dec (x01 :: a ++ b) (x01 :: a' ++ b')) as [E|E].
    - left. injection E as E. apply app_eq_len; assumption.
    - right. exists (x01 :: a ++ b, x01 :: a' ++ b'). split; assumption.
  Qed.

  Lemma roots_len : forall rp m n b r1 o nw,
    Forall sized rp -> (b = true -> sized r1) ->
    roots rp m n b r1 = Some (o, nw) -> sized o /\ sized nw.
  Proof.
    induction rp as [|top rest IH]; intros m n b r1 o nw Hrp Hr1 He; cbn [Merkle.roots] in He.
    - destruct (m =? n); [|discriminate]. destruct b; [|discriminate].
      injection He as <- <-. split; apply Hr1; reflexivity.
    - pose proof (Forall_inv Hrp) as Htop. pose proof (Forall_inv_tail Hrp) as Hrest.
      destruct (m =? n).
      + destruct b; [discriminate|]. destruct rest; [|discriminate].
        injection He as <- <-. split; exact Htop.
      + destruct (m <=? pow2lt n).
        * destruct (roots rest m (pow2lt n) b r1) as [[o' nw']|] eqn:Er; [|discriminate].
          injection He as <- <-. destruct (IH _ _ _ _ _ _ Hrest Hr1 Er) as [A B].
          split; [exact A | apply node_hash_len].
        * destruct (roots rest (m - pow2lt n) (n - pow2lt n) false r1) as [[o' nw']|] eqn:Er; [|discriminate].
          injection He as <- <-. split; apply node_hash_len.
  Qed.

  (* The core: if the recomputed NEW root is the genuine root of l, the recomputed OLD root is
     the genuine root of the first m leaves of l - or a collision of H has been computed. *)
  Lemma roots_sound_inf : forall rp m n b r1 o nw l,
    Forall sized rp -> (b = true -> sized r1) ->
    0 < m -> m <= n -> n = lenN l ->
    roots rp m n b r1 = Some (o, nw) -> nw = mth l ->
    (o = mth (firstN m l)) + collision.
  Proof.
    induction rp as [|top rest IH]; intros m n b r1 o nw l Hrp Hr1 Hm Hmn Hn He Hnw; cbn [Merkle.roots] in He.
    - destruct (m =? n) eqn:E; [|discriminate]. destruct b; [|discriminate].
      injection He as <- <-. apply N.eqb_eq in E. left. rewrite firstN_all by lia. exact Hnw.
    - pose proof (Forall_inv Hrp) as Htop. pose proof (Forall_inv_tail Hrp) as Hrest.
      destruct (m =? n) eqn:E.
      + destruct b; [discriminate|]. destruct rest; [|discriminate].
        injection He as <- <-. apply N.eqb_eq in E. left. rewrite firstN_all by lia. exact Hnw.
      + apply N.eqb_neq in E.
        assert (Hn2 : 2 <= lenN l) by lia.
        destruct (pow2lt_spec _ Hn2) as (K1 & K2 & K3).
        rewrite Hn in He. set (k := pow2lt (lenN l)) in *.
        assert (E1 : lenN (firstN k l) = k) by (apply lenN_firstN; lia).
        assert (E2 : lenN (skipN k l) = lenN l - k) by apply lenN_skipN.
        destruct (m <=? k) eqn:Ek.
        * apply N.leb_le in Ek.
          destruct (roots rest m k b r1) as [[o' nw']|] eqn:Er; [|discriminate].
          injection He as <- <-.
          destruct (roots_len _ _ _ _ _ _ _ Hrest Hr1 Er) as [_ Lnw].
          rewrite (mth_unfold l Hn2) in Hnw. fold k in Hnw.
          destruct (node_hash_inj_inf nw' top (mth (firstN k l)) (mth (skipN k l))) as [[A B]|C];
            [ rewrite mth_len; exact Lnw | exact Hnw | | right; exact C ].
          destruct (IH m k b r1 o' nw' (firstN k l) Hrest Hr1 Hm Ek (eq_sym E1) Er A) as [G|C].
          -- left. rewrite G. rewrite firstN_firstN by lia. reflexivity.
          -- right. exact C.
        * apply N.leb_gt in Ek.
          destruct (roots rest (m - k) (lenN l - k) false r1) as [[o' nw']|] eqn:Er; [|discriminate].
          injection He as <- <-.
          rewrite (mth_unfold l Hn2) in Hnw. fold k in Hnw.
          destruct (node_hash_inj_inf top nw' (mth (firstN k l)) (mth (skipN k l))) as [[A B]|C];
            [ rewrite mth_len; exact Htop | exact Hnw | | right; exact C ].
          destruct (IH (m - k) (lenN l - k) false r1 o' nw' (skipN k l) Hrest ltac:(discriminate)
                       ltac:(lia) ltac:(lia) (eq_sym E2) Er B) as [G|C].
          -- left. rewrite G, A. symmetry. apply mth_prefix_split; fold k; lia.
          -- right. exact C.
  Qed.

  (* SOUNDNESS MODULO COLLISION, informative form *)
  Theorem vcons_sound_inf : forall l m r1 r2 proof,
    0 < m -> m <= lenN l ->
    sized r1 -> Forall sized proof ->
    vcons m (lenN l) r1 r2 proof = true -> r2 = mth l ->
    (r1 = mth (firstN m l)) + collision.
  Proof.
    intros l m r1 r2 proof Hm Hmn Hr1 Hp Hv Hr2. unfold Merkle.vcons in Hv.
    destruct (roots (rev proof) m (lenN l) true r1) as [[o nw]|] eqn:Er; [|discriminate].
    apply andb_true_iff in Hv. destruct Hv as [A B].
    apply bytes_eqb_eq in A. apply bytes_eqb_eq in B. subst o nw.
    apply (roots_sound_inf (rev proof) m (lenN l) true r1 r1 r2 l); auto.
    apply Forall_rev. exact Hp.
  Qed.

  (* ... and as a proposition *)
  Theorem vcons_sound : forall l m r1 r2 proof,
    0 < m -> m <= lenN l ->
    sized r1 -> Forall sized proof ->
    vcons m (lenN l) r1 r2 proof = true -> r2 = mth l ->
    r1 = mth (firstN m l) \/ collision_exists.
  Proof.
    intros l m r1 r2 proof Hm Hmn Hr1 Hp Hv Hr2.
    destruct (vcons_sound_inf l m r1 r2 proof Hm Hmn Hr1 Hp Hv Hr2) as [G|C];
      [left; exact G | right; apply collision_inhabits; exact C].
  Qed.

  (* the library-shaped entry point, for every pair of sizes it accepts (m = 0 excluded:
     the empty tree is a prefix of everything and its root is not looked at) *)
  Theorem verify_consistency_sound : forall l m r1 r2 proof,
    0 < m ->
    sized r1 -> Forall sized proof ->
    verify_consistency H m (lenN l) proof r1 r2 = true -> r2 = mth l ->
    m <= lenN l /\ (r1 = mth (firstN m l) \/ collision_exists).
  Proof.
    intros l m r1 r2 proof Hm Hr1 Hp Hv Hr2. unfold verify_consistency in Hv.
    destruct (lenN l <? m) eqn:E1; [discriminate|]. apply N.ltb_ge in E1. split; [exact E1|].
    destruct (m =? lenN l) eqn:E2.
    - destruct proof; [|discriminate]. apply bytes_eqb_eq in Hv. apply N.eqb_eq in E2.
      left. rewrite firstN_all by lia. congruence.
    - replace (m =? 0) with false in Hv by (symmetry; apply N.eqb_neq; lia).
      destruct proof as [|p0 pr]; [discriminate|].
      apply (vcons_sound l m r1 r2 (p0 :: pr)); auto.
  Qed.

  (* Without the length condition on the proof nodes the verifier is NOT sound, for any H
     whatsoever with hlen >= 1: over four leaves, the proof below is accepted for
     (3, r1) -> (4, root) although r1 is the genuine 3-leaf root only if the two explicit,
     different strings [x] and [y] collide. *)
  Lemma odd_length_nodes_accepted : forall d0 d1 d2 d3,
    (1 <= hlen)%nat ->
    let l := [d0; d1; d2; d3] in
    let L := node_hash (leaf_hash d0) (leaf_hash d1) in
    let s := firstn (hlen - 1) (leaf_hash d2) in
    let t := skipn (hlen - 1) (leaf_hash d2) ++ leaf_hash d3 in
    let r1 := node_hash L s in
    vcons 3 4 r1 (mth l) [s; t; L] = true
    /\ length s <> hlen
    /\ (x01 :: L ++ s) <> (x01 :: L ++ leaf_hash d2)
    /\ (r1 = mth (firstN 3 l) -> H (x01 :: L ++ s) = H (x01 :: L ++ leaf_hash d2)).
  Proof.
    intros d0 d1 d2 d3 Hh l L s t r1.
    assert (Ls : length s = (hlen - 1)%nat).
    { unfold s. rewrite firstn_length. unfold Merkle.leaf_hash. rewrite H_len. lia. }
    assert (Hroot : mth l = node_hash L (node_hash (leaf_hash d2) (leaf_hash d3))) by reflexivity.
    assert (Hst : s ++ t = leaf_hash d2 ++ leaf_hash d3).
    { unfold s, t. rewrite app_assoc. rewrite firstn_skipn. reflexivity. }
    assert (H3 : mth (firstN 3 l) = node_hash L (leaf_hash d2)) by reflexivity.
    repeat split.
    - unfold Merkle.vcons. cbn [rev app]. 
      change (roots [L; t; s] 3 4 true r1) with
        (Some (node_hash L s, node_hash L (node_hash s t))).
      rewrite Hroot. unfold r1.
      replace (node_hash s t) with (node_hash (leaf_hash d2) (leaf_hash d3))
        by (unfold Merkle.node_hash; rewrite Hst; reflexivity).
      rewrite andb_true_iff. split; apply bytes_eqb_eq; reflexivity.
    - lia.
    - intros E. injection E as E. apply app_inv_head in E.
      apply (f_equal (@length byte)) in E. unfold Merkle.leaf_hash in E. rewrite H_len in E. lia.
    - intros E. rewrite H3 in E. exact E.
  Qed.

End MerkleProofs.
