package pki

// The test PKI is issued with /repo's own x509.CreateCertificate, so a defect in the fork's
// ENCODERS would be built into the test inputs and cancel out against the code under test.
// For the one field where RFC 5280 prescribes a choice of encodings (Validity: UTCTime
// through 2049, GeneralizedTime from 2050), the issued certificate is therefore re-assembled
// with a validity encoded here by hand and parsed with the standard library's encoding/asn1.
// On a correct tree this is the identity; otherwise the certificate carries the RFC encoding
// (and a signature that no longer verifies, which only a defective tree ever sees).

import (
	stdasn1 "encoding/asn1"
	"fmt"
	"time"
)

func derLen(n int) []byte {
	switch {
	case n < 0x80:
		return []byte{byte(n)}
	case n < 0x100:
		return []byte{0x81, byte(n)}
	case n < 0x10000:
		return []byte{0x82, byte(n >> 8), byte(n)}
	case n < 0x1000000:
		return []byte{0x83, byte(n >> 16), byte(n >> 8), byte(n)}
	}
	return []byte{0x84, byte(n >> 24), byte(n >> 16), byte(n >> 8), byte(n)}
}

func derTLV(tag byte, content []byte) []byte {
	return append(append([]byte{tag}, derLen(len(content))...), content...)
}

// RFC5280Time encodes t as RFC 5280 section 4.1.2.5 prescribes.
func RFC5280Time(t time.Time) []byte {
	t = t.UTC()
	if y := t.Year(); y >= 1950 && y <= 2049 {
		return derTLV(0x17, []byte(fmt.Sprintf("%02d%02d%02d%02d%02d%02dZ", y%100, int(t.Month()), t.Day(), t.Hour(), t.Minute(), t.Second())))
	}
	return derTLV(0x18, []byte(fmt.Sprintf("%04d%02d%02d%02d%02d%02dZ", t.Year(), int(t.Month()), t.Day(), t.Hour(), t.Minute(), t.Second())))
}

func children(content []byte) ([][]byte, bool) {
	var out [][]byte
	for len(content) > 0 {
		var rv stdasn1.RawValue
		rest, err := stdasn1.Unmarshal(content, &rv)
		if err != nil {
			return nil, false
		}
		out = append(out, rv.FullBytes)
		content = rest
	}
	return out, true
}

// WithRFCValidity returns der with its Validity replaced by the RFC 5280 encoding of (nb, na);
// ok is false if der is not shaped like a certificate (then der is returned unchanged).
func WithRFCValidity(der []byte, nb, na time.Time) (out []byte, ok bool) {
	var outer stdasn1.RawValue
	if rest, err := stdasn1.Unmarshal(der, &outer); err != nil || len(rest) != 0 || outer.Tag != 16 {
		return der, false
	}
	parts, ok1 := children(outer.Bytes)
	if !ok1 || len(parts) != 3 {
		return der, false
	}
	var tbs stdasn1.RawValue
	if _, err := stdasn1.Unmarshal(parts[0], &tbs); err != nil {
		return der, false
	}
	fields, ok2 := children(tbs.Bytes)
	idx := 3
	if ok2 && len(fields) > 0 && fields[0][0] == 0xa0 {
		idx = 4
	}
	if !ok2 || len(fields) <= idx || fields[idx][0] != 0x30 {
		return der, false
	}
	fields[idx] = derTLV(0x30, append(RFC5280Time(nb), RFC5280Time(na)...))
	var body []byte
	for _, f := range fields {
		body = append(body, f...)
	}
	newTBS := derTLV(0x30, body)
	return derTLV(0x30, append(append(newTBS, parts[1]...), parts[2]...)), true
}
