(* C13 - N callers sharing one backoff.
   (1) The shared state as a history of atomic critical sections (set / until /
       decreaseMultiplier, in any order, by any callers, at non-decreasing instants): this
       subsumes every interleaving of callers, including another caller's set between a
       caller's own set and its until.
   (2) The executable discrete-event model [sim] used by the correspondence harness: every
       record it produces satisfies the per-step guarantees. *)
From Coq Require Import ZArith Bool List Lia ZifyBool.
From V Require Import Base.GoInt gen.Retry Client.RetryModel Client.BackoffProofs Client.RetryProofs.
Import ListNotations.
Open Scope Z_scope.

(* ------------------------------------------------------------------ histories of atomic operations *)

Definition last_time (t0 : Z) (ops : list op) : Z := fold_left (fun _ o => op_time o) ops t0.

Lemma last_time_cons t0 o ops : last_time t0 (o :: ops) = last_time (op_time o) ops.
Proof. reflexivity. Qed.

Lemma last_time_app t0 l1 l2 : last_time t0 (l1 ++ l2) = last_time (last_time t0 l1) l2.
Proof. unfold last_time. apply fold_left_app. Qed.

Lemma times_mono_last ops : forall t0, times_mono t0 ops -> t0 <= last_time t0 ops.
Proof.
  induction ops as [|o ops IH]; intros t0 H.
  - unfold last_time. simpl. lia.
  - destruct H as [H1 H2]. rewrite last_time_cons. specialize (IH _ H2). lia.
Qed.

Lemma times_mono_app l1 : forall t0 l2,
  times_mono t0 (l1 ++ l2) <-> times_mono t0 l1 /\ times_mono (last_time t0 l1) l2.
Proof.
  induction l1 as [|o l1 IH]; intros t0 l2; cbn [times_mono app].
  - unfold last_time. simpl. tauto.
  - rewrite last_time_cons. rewrite IH. tauto.
Qed.

Lemma run_ops_app b l1 l2 : run_ops b (l1 ++ l2) = run_ops (run_ops b l1) l2.
Proof. unfold run_ops. apply fold_left_app. Qed.

Lemma apply_op_mult_ok b o : mult_ok b -> mult_ok (apply_op b o).
Proof.
  intros H. destruct o; simpl; auto using set_mult_ok.
  unfold mult_ok in *. rewrite max_mult_val in *. simpl. rewrite decrease_multiplier_spec by lia. lia.
Qed.

Lemma run_ops_mult_ok ops : forall b, mult_ok b -> mult_ok (run_ops b ops).
Proof.
  induction ops as [|o ops IH]; intros b H; simpl; auto. apply IH. apply apply_op_mult_ok. exact H.
Qed.

(* a horizon T once respected stays respected, whatever anybody does afterwards *)
Lemma run_ops_horizon ops : forall t0 b T,
  mult_ok b -> times_mono t0 ops -> T <= Z.max t0 (b_nb b) ->
  T <= Z.max (last_time t0 ops) (b_nb (run_ops b ops)).
Proof.
  induction ops as [|o ops IH]; intros t0 b T Hm Ht HT.
  - exact HT.
  - destruct Ht as [H1 H2]. rewrite last_time_cons. simpl run_ops. apply IH; auto using apply_op_mult_ok.
    destruct o as [who t ov | who t | who t]; simpl in *.
    + apply set_keeps_horizon; auto. lia.
    + lia.
    + lia.
Qed.

(* upper bound on notBefore when every override in the history is at most D (>= 128 s) *)
Lemma run_ops_upper ops : forall t0 b D,
  mult_ok b -> times_mono t0 ops -> 128000000000 <= D ->
  (forall who t d, In (OpSet who t (Some d)) ops -> d <= D) ->
  b_nb (run_ops b ops) <= Z.max (b_nb b) (last_time t0 ops + D).
Proof.
  induction ops as [|o ops IH]; intros t0 b D Hm Ht HD Hov.
  - simpl. lia.
  - destruct Ht as [H1 H2]. rewrite last_time_cons. simpl run_ops.
    assert (Hov' : forall who t d, In (OpSet who t (Some d)) ops -> d <= D).
    { intros. eapply Hov. right. eauto. }
    specialize (IH (op_time o) (apply_op b o) D (apply_op_mult_ok _ _ Hm) H2 HD Hov').
    pose proof (times_mono_last _ _ H2) as Hl.
    destruct o as [who t ov | who t | who t]; simpl in *; try lia.
    pose proof (set_upper t ov b Hm) as Hu.
    destruct ov as [d|].
    + specialize (Hov who t d (or_introl eq_refl)). lia.
    + lia.
Qed.

(* caller [me] was told Retry-After = d at instant t (its set), then -- after anything the other
   callers do -- reads until at tw and waits: its next POST is not before t + d (as far as a
   Duration can express it from tw) *)
Lemma shared_wait_ge b0 t0 pre mid me t d tw j :
  mult_ok b0 -> times_mono t0 (pre ++ OpSet me t (Some d) :: mid ++ [OpUntil me tw]) -> 0 <= j ->
  let b := run_ops b0 (pre ++ OpSet me t (Some d) :: mid) in
  Z.min (t + d) (tw + max_i64) <= tw + backoff_wait tw (until b) j /\ tw <= tw + backoff_wait tw (until b) j.
Proof.
  intros Hm Ht Hj. cbv zeta.
  apply times_mono_app in Ht. destruct Ht as [Hpre Ht]. simpl in Ht. destruct Ht as [Ht1 Ht].
  apply times_mono_app in Ht. destruct Ht as [Hmid Htw]. simpl in Htw. destruct Htw as [Htw _].
  rewrite run_ops_app. simpl run_ops.
  set (b1 := run_ops b0 pre). assert (Hm1 : mult_ok b1) by (apply run_ops_mult_ok; exact Hm).
  set (b2 := fst (set t (Some d) b1)). assert (Hm2 : mult_ok b2) by (apply set_mult_ok; exact Hm1).
  pose proof (set_override_ge t d b1 Hm1) as Hge. fold b2 in Hge.
  pose proof (run_ops_horizon mid t b2 (t + d) Hm2 Hmid ltac:(lia)) as Hh.
  unfold until.
  pose proof (next_bounds tw (b_nb (run_ops b2 mid)) j) as Hn. cbv zeta in Hn.
  pose proof max_i64_val. lia.
Qed.

(* when no answer in the history asked for more than D (D = 128 s: nobody was asked for anything),
   a caller reading until at tw waits at most max(D, what was pending at the start) + jitter *)
Lemma shared_wait_le b0 t0 ops me tw j D :
  mult_ok b0 -> times_mono t0 (ops ++ [OpUntil me tw]) -> 0 <= j -> 128000000000 <= D ->
  (forall who t d, In (OpSet who t (Some d)) ops -> d <= D) ->
  let b := run_ops b0 ops in
  tw + backoff_wait tw (until b) j <= Z.max (tw + D) (b_nb b0) + j.
Proof.
  intros Hm Ht Hj HD Hov. cbv zeta.
  apply times_mono_app in Ht. destruct Ht as [Hops Htw]. simpl in Htw. destruct Htw as [Htw _].
  pose proof (run_ops_upper ops t0 b0 D Hm Hops HD Hov) as Hu.
  unfold until. pose proof (next_bounds tw (b_nb (run_ops b0 ops)) j) as Hn. cbv zeta in Hn. lia.
Qed.

(* 408 in a shared setting: the caller reads until without having called set *)
Lemma shared_no_set_no_change b who t : apply_op b (OpUntil who t) = b.
Proof. reflexivity. Qed.

(* ------------------------------------------------------------------ one step of the loop = its critical sections *)

Section Conv.
Variable conv : Z -> Z.

Definition step_ops (who : nat) (x : rrec) : list op :=
  match r_act x with
  | ASetNil => [OpSet who (r_resp x) None; OpUntil who (r_resp x)]
  | ASetRA ra => [OpSet who (r_resp x) (override_of conv ra (r_resp x)); OpUntil who (r_resp x)]
  | ANoSet => [OpUntil who (r_resp x)]
  | ASuccess | AFail _ => []
  end.

Lemma step_is_ops who c t r b e x b' k :
  step_resp conv c t r b e = (x, b', k) -> b' = run_ops b (step_ops who x).
Proof.
  intros Es. destruct (step_fields _ _ _ _ _ _ _ _ _ Es) as (_ & Hr & _ & Ha & _ & _ & Hm).
  unfold step_ops. rewrite Ha, Hr. rewrite apply_action_spec in Hm.
  destruct (action_of (e_out e)); simpl; destruct Hm as (-> & _); reflexivity.
Qed.

(* ------------------------------------------------------------------ the discrete-event model *)

Definition kstate_all (P : rrec -> Prop) (s : kstate) : Prop :=
  match s with
  | KRun _ _ acc => Forall P (o_trace acc)
  | KDone o => Forall P (o_trace o)
  end.

Lemma settle_all_ok P c s : kstate_all P s -> kstate_all P (fst (settle c s)).
Proof.
  destruct s as [t evs acc | o]; simpl; auto.
  destruct evs as [|e evs]; simpl.
  - intros H. apply Forall_rev. exact H.
  - destruct (ctx_done_by c (t + e_dur e)); simpl; auto. intros H. apply Forall_rev. exact H.
Qed.

Lemma settle_all_all P cs : forall ss, Forall (kstate_all P) ss -> Forall (kstate_all P) (map fst (settle_all cs ss)).
Proof.
  induction cs as [|c cs IH]; intros ss H; simpl.
  - constructor.
  - destruct ss as [|s ss]; simpl; [constructor|]. inversion H; subst.
    constructor; auto using settle_all_ok.
Qed.

Section Step.
Variable P : rrec -> Prop.
Variable Inv : backoff -> Prop.
Hypothesis Hstep : forall c t r b e x b' k, Inv b -> step_resp conv c t r b e = (x, b', k) -> P x /\ Inv b'.

Lemma process_ok c s b : kstate_all P s -> Inv b ->
  kstate_all P (fst (process conv c s b)) /\ Inv (snd (process conv c s b)).
Proof.
  intros Hs Hb. destruct s as [t evs acc | o]; simpl; auto.
  destruct evs as [|e evs]; simpl; auto.
  destruct (step_resp conv c t (t + e_dur e) b e) as [[x b'] k] eqn:Es.
  destruct (Hstep _ _ _ _ _ _ _ _ Hb Es) as [HP HI].
  simpl in Hs.
  destruct k; simpl; (split; [|exact HI]).
  - apply Forall_app; split; [apply Forall_rev; exact Hs | constructor; [exact HP | constructor]].
  - apply Forall_app; split; [apply Forall_rev; exact Hs | constructor; [exact HP | constructor]].
  - constructor; assumption.
Qed.

Lemma process_nth_ok cs : forall ss i b, Forall (kstate_all P) ss -> Inv b ->
  Forall (kstate_all P) (fst (process_nth conv cs ss i b)) /\ Inv (snd (process_nth conv cs ss i b)).
Proof.
  induction cs as [|c cs IH]; intros ss i b Hs Hb; simpl.
  - destruct ss; destruct i; simpl; auto.
  - destruct ss as [|s ss]; [destruct i; simpl; auto|]. inversion Hs; subst.
    destruct i as [|i].
    + destruct (process conv (k_ctx c) s b) as [s' b'] eqn:Ep. simpl.
      pose proof (process_ok (k_ctx c) s b H1 Hb) as Hp. rewrite Ep in Hp. simpl in Hp.
      destruct Hp. split; auto.
    + destruct (process_nth conv cs ss i b) as [ss'' b'] eqn:Ep. simpl.
      specialize (IH ss i b H2 Hb). rewrite Ep in IH. simpl in IH. destruct IH. split; auto.
Qed.

Lemma sim_loop_ok fuel cs : forall ss b, Forall (kstate_all P) ss -> Inv b ->
  Forall (kstate_all P) (fst (sim_loop conv fuel cs ss b)) /\ Inv (snd (sim_loop conv fuel cs ss b)).
Proof.
  induction fuel as [|fuel IH]; intros ss b Hs Hb; simpl; auto.
  pose proof (settle_all_all P cs ss Hs) as Hs1.
  destruct (earliest (settle_all cs ss) 0 None) as [[i r]|]; simpl; auto.
  destruct (process_nth conv cs (map fst (settle_all cs ss)) i b) as [ss2 b'] eqn:Ep.
  pose proof (process_nth_ok cs _ i b Hs1 Hb) as Hp. rewrite Ep in Hp. simpl in Hp. destruct Hp.
  apply IH; auto.
Qed.

(* every record of every caller of the discrete-event model satisfies P *)
Lemma sim_forall cs b : Inv b ->
  Forall (fun o => match o with Some o => Forall P (o_trace o) | None => True end) (fst (sim conv cs b))
  /\ Inv (snd (sim conv cs b)).
Proof.
  intros Hb. unfold sim.
  set (fuel := S (fold_right (fun c n => (S (length (k_evs c)) + n)%nat) 0%nat cs)).
  set (ss0 := map (fun c => KRun (k_start c) (k_evs c) (empty_out b)) cs).
  assert (H0 : Forall (kstate_all P) ss0).
  { apply Forall_forall. intros s Hin. apply in_map_iff in Hin. destruct Hin as (c & <- & _). simpl. constructor. }
  pose proof (sim_loop_ok fuel cs ss0 b H0 Hb) as [H1 H2].
  destruct (sim_loop conv fuel cs ss0 b) as [ss b']. simpl in *. split; auto.
  apply Forall_forall. intros o Hin. apply in_map_iff in Hin. destruct Hin as (s & <- & Hin).
  rewrite Forall_forall in H1. specialize (H1 _ Hin). destruct s; simpl in *; auto.
Qed.
End Step.

(* the per-step pacing guarantees, for every caller of the shared model *)
Definition step_guarantees (x : rrec) : Prop :=
  r_act x = action_of (r_out x)
  /\ (0 <= r_j x ->
      (forall n, r_act x = ASetRA (RASeconds n) -> r_resp x + Z.min (conv n) max_i64 <= r_next x)
      /\ (forall d, r_act x = ASetRA (RADate d) -> Z.min d (r_resp x + max_i64) <= r_next x))
  /\ (r_act x = ANoSet -> r_after x = r_before x)
  /\ (is_retry (r_act x) = false -> r_after x = r_before x /\ r_next x = r_resp x)
  /\ r_resp x <= r_next x
  /\ r_next x <= Z.max (r_resp x) (b_nb (r_after x) + r_j x).

Lemma step_guarantees_hold c t r b e x b' k :
  mult_ok b -> step_resp conv c t r b e = (x, b', k) -> step_guarantees x /\ mult_ok b'.
Proof.
  intros Hm Es.
  destruct (step_fields _ _ _ _ _ _ _ _ _ Es) as (_ & Hr & Ho & Ha & Hbef & Haft & Hmatch).
  unfold step_guarantees. rewrite Ha, Hr, Hbef, Haft, Ho. rewrite apply_action_spec in Hmatch.
  pose proof max_i64_val as Hmax. pose proof min_i64_val as Hmin.
  destruct (action_of (e_out e)) as [| code | | | ra] eqn:Ea.
  - destruct Hmatch as (-> & -> & _). intuition (try discriminate; try lia).
  - destruct Hmatch as (-> & -> & _). intuition (try discriminate; try lia).
  - destruct Hmatch as (-> & _ & _ & -> & _).
    pose proof (next_bounds r (b_nb (fst (set r None b))) (r_j x)) as Hn. cbv zeta in Hn.
    split; [|apply set_mult_ok; exact Hm].
    split; auto. split; [intros _; split; intros ? E; discriminate|].
    split; [discriminate|]. split; [discriminate|]. lia.
  - destruct Hmatch as (-> & _ & _ & -> & _).
    pose proof (next_bounds r (b_nb b) (r_j x)) as Hn. cbv zeta in Hn.
    split; [|exact Hm].
    split; auto. split; [intros _; split; intros ? E; discriminate|].
    split; [reflexivity|]. split; [discriminate|]. lia.
  - destruct Hmatch as (-> & _ & _ & -> & _).
    pose proof (next_bounds r (b_nb (fst (set r (override_of conv ra r) b))) (r_j x)) as Hn. cbv zeta in Hn.
    split; [|apply set_mult_ok; exact Hm].
    split; auto. split.
    { intros Hj. split.
      - intros n E. injection E as ->. simpl override_of in *.
        pose proof (set_override_ge r (conv n) b Hm). lia.
      - intros d E. injection E as ->. simpl override_of in *.
        pose proof (set_override_ge r (sat64 (d - r)) b Hm). pose proof (sat64_spec (d - r)). lia. }
    split; [discriminate|]. split; [discriminate|]. lia.
Qed.

Lemma sim_guarantees cs b : mult_ok b ->
  Forall (fun o => match o with Some o => Forall step_guarantees (o_trace o) | None => True end) (fst (sim conv cs b))
  /\ mult_ok (snd (sim conv cs b)).
Proof.
  intros Hm. apply sim_forall with (Inv := mult_ok); auto.
  intros. eapply step_guarantees_hold; eauto.
Qed.

End Conv.
