(* C03: TLV-level model of the TBSCertificate transformations of x509/x509.go
   (removeExtension, RemoveSCTList, RemoveCTPoison, BuildPrecertTBS).
   The TBSCertificate is a SEQUENCE of TLVs; every field other than the extensions is kept
   as the TLV it was (the real code re-marshals those fields from their parsed form, which
   for a CANONICAL DER TBSCertificate reproduces the same bytes - that part is tied by the
   correspondence harness on certificates issued by a conforming encoder); the extension
   list is decoded, edited and re-encoded, and the enclosing lengths are re-computed. *)
From Coq Require Import String NArith Bool Lia PeanoNat List.
From V Require Import Base.Bytes TLS.TlsModel X509.Der.
Import ListNotations.
Local Open Scope N_scope.

Definition tSEQ : Byte.byte := Byte.x30.
Definition tOID : Byte.byte := Byte.x06.
Definition tBOOL : Byte.byte := Byte.x01.
Definition tOCTET : Byte.byte := Byte.x04.
Definition tCTX0 : Byte.byte := Byte.xa0.   (* [0] EXPLICIT version *)
Definition tCTX3 : Byte.byte := Byte.xa3.   (* [3] EXPLICIT extensions *)

Definition oid_poison : bytes := hex "2b06010401d679020403".   (* 1.3.6.1.4.1.11129.2.4.3 *)
Definition oid_sctlist : bytes := hex "2b06010401d679020402".  (* 1.3.6.1.4.1.11129.2.4.2 *)
Definition oid_aki : bytes := hex "551d23".                    (* 2.5.29.35 *)

Record ext := { e_oid : bytes; e_crit : bool; e_val : bytes }.

Definition enc_ext_body (e : ext) : bytes :=
  enc_tlv tOID (e_oid e) ++ (if e_crit e then hex "0101ff" else []) ++ enc_tlv tOCTET (e_val e).
Definition enc_ext (e : ext) : bytes := enc_tlv tSEQ (enc_ext_body e).

Definition byte_is (a b : Byte.byte) : bool := byte_eqb a b.

(* canonical DER only: the critical flag is present exactly when TRUE *)
Definition dec_ext (c : bytes) : option ext :=
  match split_tlvs (length c) c with
  | Some [(t1, o); (t2, v)] =>
      if byte_is t1 tOID && byte_is t2 tOCTET then Some {| e_oid := o; e_crit := false; e_val := v |} else None
  | Some [(t1, o); (t2, b); (t3, v)] =>
      if byte_is t1 tOID && byte_is t2 tBOOL && bytes_eqb b [Byte.xff] && byte_is t3 tOCTET
      then Some {| e_oid := o; e_crit := true; e_val := v |} else None
  | _ => None
  end.

Record tbs := { t_head : list (Byte.byte * bytes); t_exts : option (list ext) }.

Definition enc_exts (l : list ext) : bytes := enc_tlv tCTX3 (enc_tlv tSEQ (concat (map enc_ext l))).
Definition enc_tbs (t : tbs) : bytes :=
  enc_tlv tSEQ (enc_tlvs (t_head t) ++ match t_exts t with Some l => enc_exts l | None => [] end).

Fixpoint dec_exts_list (l : list (Byte.byte * bytes)) : option (list ext) :=
  match l with
  | [] => Some []
  | (t, c) :: r =>
      if byte_is t tSEQ then
        match dec_ext c, dec_exts_list r with
        | Some e, Some es => Some (e :: es)
        | _, _ => None
        end
      else None
  end.

Definition dec_exts (c : bytes) : option (list ext) :=   (* content of the [3] wrapper *)
  match dec_tlv c with
  | Some (t, body, []) =>
      if byte_is t tSEQ then
        match split_tlvs (length body) body with
        | Some l => dec_exts_list l
        | None => None
        end
      else None
  | _ => None
  end.

Definition parse_tbs (bs : bytes) : option tbs :=
  match dec_tlv bs with
  | Some (t, c, []) =>
      if byte_is t tSEQ then
        match split_tlvs (length c) c with
        | Some tl =>
            match rev tl with
            | (ta, ce) :: hd_rev =>
                if byte_is ta tCTX3 then
                  match dec_exts ce with
                  | Some es => Some {| t_head := rev hd_rev; t_exts := Some es |}
                  | None => None
                  end
                else Some {| t_head := tl; t_exts := None |}
            | [] => Some {| t_head := []; t_exts := None |}
            end
        | None => None
        end
      else None
  | _ => None                                            (* not a TLV, or trailing data *)
  end.

Definition has_oid (oid : bytes) (e : ext) : bool := bytes_eqb (e_oid e) oid.
Definition count_oid (oid : bytes) (l : list ext) : nat := length (filter (has_oid oid) l).
Definition drop_oid (oid : bytes) (l : list ext) : list ext := filter (fun e => negb (has_oid oid e)) l.

(* x509.removeExtension *)
Definition remove_extension (oid : bytes) (bs : bytes) : res bytes :=
  match parse_tbs bs with
  | None => ErrSyntax
  | Some t =>
      let l := match t_exts t with Some l => l | None => [] end in
      match count_oid oid l with
      | 1%nat => Ok (enc_tbs {| t_head := t_head t; t_exts := Some (drop_oid oid l) |})
      | _ => ErrStruct                                   (* absent, or present more than once *)
      end
  end.

Definition remove_sct_list := remove_extension oid_sctlist.

(* what BuildPrecertTBS reads of the pre-issuer certificate *)
Record preissuer := { pi_issuer : Byte.byte * bytes;     (* RawIssuer as a TLV *)
                      pi_aki : option bytes;             (* value of its authority key id extension *)
                      pi_ct_eku : bool }.

Fixpoint replace_nth {A} (n : nat) (x : A) (l : list A) : list A :=
  match n, l with
  | O, _ :: r => x :: r
  | S n', y :: r => y :: replace_nth n' x r
  | _, [] => []
  end.

Definition issuer_index (head : list (Byte.byte * bytes)) : nat :=
  match head with
  | (t, _) :: _ => if byte_is t tCTX0 then 3%nat else 2%nat
  | [] => 2%nat
  end.

Fixpoint set_aki (v : bytes) (l : list ext) : list ext :=      (* replace the FIRST aki's value *)
  match l with
  | [] => []
  | e :: r => if has_oid oid_aki e then {| e_oid := e_oid e; e_crit := e_crit e; e_val := v |} :: r else e :: set_aki v r
  end.
Fixpoint drop_first_aki (l : list ext) : list ext :=
  match l with
  | [] => []
  | e :: r => if has_oid oid_aki e then r else e :: drop_first_aki r
  end.

(* x509.BuildPrecertTBS *)
Definition build_precert_tbs (bs : bytes) (pre : option preissuer) : res bytes :=
  match remove_extension oid_poison bs with
  | Ok data =>
      match parse_tbs data with
      | None => ErrSyntax
      | Some t =>
          match pre with
          | None => Ok (enc_tbs t)
          | Some p =>
              if negb (pi_ct_eku p) then ErrStruct
              else
                let es := match t_exts t with Some l => l | None => [] end in
                let es' :=
                  if existsb (has_oid oid_aki) es then
                    match pi_aki p with
                    | Some v => set_aki v es
                    | None => drop_first_aki es
                    end
                  else match pi_aki p with
                       | Some v => es ++ [{| e_oid := oid_aki; e_crit := false; e_val := v |}]
                       | None => es
                       end in
                let exts' := match t_exts t, pi_aki p with
                             | None, None => None
                             | _, _ => Some es'
                             end in
                Ok (enc_tbs {| t_head := replace_nth (issuer_index (t_head t)) (pi_issuer p) (t_head t); t_exts := exts' |})
          end
      end
  | ErrSyntax => ErrSyntax | ErrStruct => ErrStruct | Panic => Panic | Hang => Hang
  end.

Definition remove_ct_poison (bs : bytes) : res bytes := build_precert_tbs bs None.

(* well-formed records: what enc_tbs can faithfully represent *)
Definition ext_ok (e : ext) : Prop :=
  len (e_oid e) < max_len /\ len (e_val e) < max_len /\ len (enc_ext_body e) < max_len.
Definition tbs_ok (t : tbs) : Prop :=
  Forall tlv_ok (t_head t) /\ Forall (fun tc => byte_is (fst tc) tCTX3 = false) (t_head t) /\
  match t_exts t with
  | Some l => Forall ext_ok l /\ len (concat (map enc_ext l)) < max_len /\ len (enc_tlv tSEQ (concat (map enc_ext l))) < max_len
  | None => True
  end /\
  len (enc_tlvs (t_head t) ++ match t_exts t with Some l => enc_exts l | None => [] end) < max_len.
