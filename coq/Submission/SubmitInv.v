(* C17: the safety invariant of the thread-level model (every reachable state, every
   interleaving), by induction over the trace. *)
From Coq Require Import ZArith NArith Bool List Lia.
From V Require Import Base.GoInt gen.Races Submission.SubmitModel Submission.SubmitLib Submission.SubmitStateProofs.
Import ListNotations.
Open Scope Z_scope.

Definition owner (pc : rpc) : bool := match pc with RCalling | RInflight | RGot _ => true | _ => false end.
Definition is_final (r : res) : bool := match r with RErr | RSct => true | _ => false end.

Lemma rpc_eqb_eq a b : rpc_eqb a b = true <-> a = b.
Proof.
  destruct a, b; simpl; try (split; congruence).
  rewrite Bool.eqb_true_iff. split; congruence.
Qed.

Lemma rp_set_same s g l pc : rp (set_rp s g l pc) g l = pc.
Proof. simpl. rewrite !N.eqb_refl. reflexivity. Qed.

Lemma rp_set_other s g l pc g' l' : (g', l') <> (g, l) -> rp (set_rp s g l pc) g' l' = rp s g' l'.
Proof.
  intros H. simpl. destruct (N.eqb g' g) eqn:E1; destruct (N.eqb l' l) eqn:E2; simpl; try reflexivity.
  apply N.eqb_eq in E1. apply N.eqb_eq in E2. subst. congruence.
Qed.

Lemma rp_set_cases s g l pc g' l' :
  (g' = g /\ l' = l /\ rp (set_rp s g l pc) g' l' = pc) \/ ((g' <> g \/ l' <> l) /\ rp (set_rp s g l pc) g' l' = rp s g' l').
Proof.
  destruct (N.eq_dec g' g) as [->|H1]; [destruct (N.eq_dec l' l) as [->|H2]|].
  - left. rewrite rp_set_same. auto.
  - right. split; [auto|]. apply rp_set_other. congruence.
  - right. split; [auto|]. apply rp_set_other. congruence.
Qed.

Record inv1 (c : cfg) (s : state) : Prop := mkInv1 {
  i_nopanic : panicked s = false;
  i_valid : forall g l, rp s g l <> RSleep -> valid_gor c g l = true;
  i_nil : forall l, results (sh s) l = RNil ->
            finished (sh s) l = false /\ forall g, owner (rp s g l) = false /\ rp s g l <> RWait;
  i_owner : forall g l, owner (rp s g l) = true -> results (sh s) l = RPending /\ finished (sh s) l = false;
  i_uniq : forall g g' l, owner (rp s g l) = true -> owner (rp s g' l) = true -> g = g';
  i_pend : forall l, results (sh s) l = RPending -> finished (sh s) l = false -> exists g, owner (rp s g l) = true;
  i_final : forall l, is_final (results (sh s) l) = true -> finished (sh s) l = true;
  i_starts : NoDup (starts s);
  i_started : forall l, In l (starts s) -> forall g, rp s g l <> RCalling;
  i_starts_sess : forall l, In l (starts s) -> exists gr, In gr c /\ In l (g_session gr);
  i_started_res : forall l, In l (starts s) -> results (sh s) l <> RNil;
  i_policy : policy_inv c (sh s);
  i_sct_arrived : forall l, results (sh s) l = RSct -> In l (arrived s);
  i_arrived_fin : forall l, In l (arrived s) -> finished (sh s) l = true;
  i_mret : forall g, mp s g = MReturn true -> In g (names c) -> needs (sh s) g <= 0;
  i_evq : forall g, In (g, true) (evq s) -> In g (names c) -> needs (sh s) g <= 0;
  i_top : match top s with
          | TLoop _ gc | TVerdict _ gc => forall g, In g (names c) -> gc g = true -> needs (sh s) g <= 0
          | TReturned scts ok => NoDup scts /\ (forall l, In l scts -> In l (arrived s)) /\
                                 (ok = true -> policy_satisfied c scts)
          end
}.

Lemma inv1_init p c : wf c -> inv1 c (init p c).
Proof.
  intros [Hnd Hwf]. constructor.
  - reflexivity.
  - intros g l H. simpl in H. congruence.
  - intros l _. split; [reflexivity|]. intros g. split; [reflexivity | discriminate].
  - intros g l H. discriminate.
  - intros g g' l H. discriminate.
  - intros l H. discriminate.
  - intros l H. discriminate.
  - constructor.
  - intros l [].
  - intros l [].
  - intros l [].
  - apply policy_init. exact Hnd.
  - intros l H. discriminate.
  - intros l [].
  - intros g H. simpl in H. destruct (session_of c g); discriminate.
  - intros g [].
  - destruct c; unfold after_loop; simpl; intros; discriminate.
Qed.

(* decompose one step into the concrete successor state *)
Ltac split_ands :=
  repeat match goal with
         | H : _ && _ = true |- _ => apply andb_true_iff in H; destruct H
         | H : rpc_eqb _ _ = true |- _ => apply rpc_eqb_eq in H
         | H : memN _ _ = true |- _ => apply memN_In in H
         end.

Ltac step_inv H :=
  unfold step in H;
  match type of H with context[panicked ?s] => destruct (panicked s) eqn:Hpan; [discriminate|] end;
  match type of H with (match ?a with _ => _ end) = _ => destruct a end;
  repeat match type of H with
         | (if ?b then _ else _) = _ => let E := fresh "E" in destruct b eqn:E; [|try discriminate]
         | (match ?x with _ => _ end) = _ => let E := fresh "E" in destruct x eqn:E; try discriminate
         end;
  inversion H; subst; clear H.

Lemma step_needs_mono p c oc s a s' : wf c -> inv1 c s -> step p c oc s a = Some s' ->
  forall g, needs (sh s') g <= needs (sh s) g.
Proof.
  intros [Hnd Hwf] I H g. step_inv H; simpl; try lia.
  - rewrite request_needs. lia.
  - assert (Hres : results (sh s) l = RPending) by (apply (i_owner c s I g0 l); rewrite E0; reflexivity).
    destruct sct; simpl; eapply set_result_needs_mono; eauto.
Qed.

Ltac rp_split :=
  match goal with
  | H : context[if (N.eqb ?a ?b) && (N.eqb ?x ?y) then _ else _] |- _ =>
      let Hc := fresh "Hc" in destruct (N.eqb a b && N.eqb x y) eqn:Hc;
      [apply andb_true_iff in Hc; let Ha := fresh in let Hb := fresh in destruct Hc as [Ha Hb];
       apply N.eqb_eq in Ha; apply N.eqb_eq in Hb; subst |]
  | |- context[if (N.eqb ?a ?b) && (N.eqb ?x ?y) then _ else _] =>
      let Hc := fresh "Hc" in destruct (N.eqb a b && N.eqb x y) eqn:Hc;
      [apply andb_true_iff in Hc; let Ha := fresh in let Hb := fresh in destruct Hc as [Ha Hb];
       apply N.eqb_eq in Ha; apply N.eqb_eq in Hb; subst |]
  end.

Lemma andb_eqb_false_neq g' g l' l : (N.eqb g' g && N.eqb l' l) = false -> g' <> g \/ l' <> l.
Proof.
  intros H. apply andb_false_iff in H. destruct H as [H|H]; apply N.eqb_neq in H; auto.
Qed.

Section Step.
Variables (p : bool) (c : cfg) (oc : N -> outcome).
Hypothesis Hwf : wf c.

Lemma pres_nopanic s a s' : inv1 c s -> step p c oc s a = Some s' -> panicked s' = false.
Proof.
  intros I H. destruct Hwf as [Hnd _]. step_inv H; simpl; try assumption.
  - destruct sct; simpl; assumption.
  - exfalso. eapply set_result_some; [exact Hnd | | exact E1]. apply (i_owner c s I g l). rewrite E0. reflexivity.
Qed.

Lemma pres_valid s a s' : inv1 c s -> step p c oc s a = Some s' ->
  forall g l, rp s' g l <> RSleep -> valid_gor c g l = true.
Proof.
  intros I H. step_inv H; simpl; try (destruct sct; simpl); intros g' l' Hr;
    try (apply (i_valid c s I); exact Hr);
    split_ands; rp_split; try assumption; try (apply (i_valid c s I); exact Hr).
Qed.

(* facts at a goroutine step: the acting goroutine's old pc *)
Lemma owner_res s g l : inv1 c s -> owner (rp s g l) = true -> results (sh s) l = RPending.
Proof. intros I H. apply (i_owner c s I g l H). Qed.

Ltac owner_nil I :=
  exfalso; match goal with
  | Hn : results (sh ?s) ?l = RNil, Hr : rp ?s ?g ?l = _ |- _ =>
      let R := fresh in assert (R : results (sh s) l = RPending) by (apply (i_owner _ s I g l); rewrite Hr; reflexivity); congruence
  end.

Lemma pres_nil s a s' : inv1 c s -> step p c oc s a = Some s' ->
  forall l, results (sh s') l = RNil ->
    finished (sh s') l = false /\ forall g, owner (rp s' g l) = false /\ rp s' g l <> RWait.
Proof.
  intros I H. destruct Hwf as [Hnd _]. step_inv H; simpl.
  8, 11-20: exact (i_nil c s I).
  all: split_ands.
  - (* AWakeTimer *) intros l' Hn. destruct (i_nil c s I l' Hn) as [F O]. split; [exact F|].
    intros g'. rp_split; [split; [reflexivity|discriminate] | apply O].
  - intros l' Hn. destruct (i_nil c s I l' Hn) as [F O]. split; [exact F|].
    intros g'. rp_split; [split; [reflexivity|discriminate] | apply O].
  - intros l' Hn. destruct (i_nil c s I l' Hn) as [F O]. split; [exact F|].
    intros g'. rp_split; [destruct (group_complete _ _ _); split; try reflexivity; discriminate | apply O].
  - (* ARequest *) intros l' Hn.
    assert (Hne : l' <> l) by (intros ->; exact (request_results_l c (sh s) l Hn)).
    rewrite request_results_other in Hn by exact Hne. rewrite request_finished_other by exact Hne.
    destruct (i_nil c s I l' Hn) as [F O]. split; [exact F|].
    intros g'. rp_split; [congruence | apply O].
  - (* AStart *) intros l' Hn. destruct (i_nil c s I l' Hn) as [F O]. split; [exact F|].
    intros g'. rp_split; [|apply O]. owner_nil I.
  - (* AReturn *) intros l' Hn. destruct (i_nil c s I l' Hn) as [F O]. split; [exact F|].
    intros g'. rp_split; [|apply O]. owner_nil I.
  - (* ASetRes *)
    assert (Hres : results (sh s) l = RPending) by (apply (owner_res s g l I); rewrite E0; reflexivity).
    destruct (set_result_spec c (sh s) l sct s0 Hnd Hres E1) as [S1 [S2 [S3 [S4 [S5 S6]]]]].
    assert (G : forall l', results s0 l' = RNil -> finished s0 l' = false /\
               forall g', owner (if N.eqb g' g && N.eqb l' l then RCount else rp s g' l') = false /\
                          (if N.eqb g' g && N.eqb l' l then RCount else rp s g' l') <> RWait).
    { intros l' Hn. assert (Hne : l' <> l) by (intros ->; exact (S2 Hn)).
      rewrite S1 in Hn by exact Hne. rewrite S5, upd_other by exact Hne.
      destruct (i_nil c s I l' Hn) as [F O]. split; [exact F|].
      intros g'. rp_split; [congruence | apply O]. }
    destruct sct; simpl; exact G.
  - (* AWaitDone *) intros l' Hn. destruct (i_nil c s I l' Hn) as [F O]. split; [exact F|].
    intros g'. rp_split; [split; [reflexivity|discriminate] | apply O].
  - (* ACount *) intros l' Hn. destruct (i_nil c s I l' Hn) as [F O]. split; [exact F|].
    intros g'. rp_split; [split; [reflexivity|discriminate] | apply O].
Qed.

Lemma pres_owner s a s' : inv1 c s -> step p c oc s a = Some s' ->
  forall g l, owner (rp s' g l) = true -> results (sh s') l = RPending /\ finished (sh s') l = false.
Proof.
  intros I H. destruct Hwf as [Hnd _]. step_inv H; simpl.
  8, 11-20: exact (i_owner c s I).
  all: split_ands.
  - intros g' l' Ho. rp_split; [discriminate | exact (i_owner c s I _ _ Ho)].
  - intros g' l' Ho. rp_split; [discriminate | exact (i_owner c s I _ _ Ho)].
  - intros g' l' Ho. rp_split; [destruct (group_complete _ _ _); discriminate | exact (i_owner c s I _ _ Ho)].
  - (* ARequest *) intros g' l' Ho. rp_split.
    + destruct (snd (request _ _ _)) eqn:Es; [|destruct p; discriminate].
      pose proof (request_first_fresh _ _ _ Es) as Hn.
      destruct (request_fresh c (sh s) _ Hn) as [R1 [R2 _]]. rewrite R1, upd_same, (R2 Es).
      split; [reflexivity | apply (i_nil c s I _ Hn)].
    + destruct (i_owner c s I _ _ Ho) as [O1 O2].
      destruct (N.eq_dec l' l) as [->|Hne].
      * rewrite request_dup by congruence. simpl. auto.
      * rewrite request_results_other, request_finished_other by exact Hne. auto.
  - intros g' l' Ho. rp_split; [|exact (i_owner c s I _ _ Ho)].
    match goal with Hr : rp s ?g0 ?l0 = _ |- _ => apply (i_owner c s I g0 l0); rewrite Hr; reflexivity end.
  - intros g' l' Ho. rp_split; [|exact (i_owner c s I _ _ Ho)].
    match goal with Hr : rp s ?g0 ?l0 = _ |- _ => apply (i_owner c s I g0 l0); rewrite Hr; reflexivity end.
  - (* ASetRes *)
    assert (Hown : owner (rp s g l) = true) by (rewrite E0; reflexivity).
    assert (Hres : results (sh s) l = RPending) by (apply (owner_res s g l I Hown)).
    destruct (set_result_spec c (sh s) l sct s0 Hnd Hres E1) as [S1 [S2 [S3 [S4 [S5 S6]]]]].
    assert (G : forall g' l', owner (if N.eqb g' g && N.eqb l' l then RCount else rp s g' l') = true ->
                results s0 l' = RPending /\ finished s0 l' = false).
    { intros g' l' Ho. rp_split; [discriminate|].
      assert (Hne : l' <> l).
      { intros ->. pose proof (i_uniq c s I _ _ _ Ho Hown). subst. rewrite !N.eqb_refl in Hc. discriminate. }
      rewrite S1, S5, upd_other by exact Hne. exact (i_owner c s I _ _ Ho). }
    destruct sct; simpl; exact G.
  - intros g' l' Ho. rp_split; [discriminate | exact (i_owner c s I _ _ Ho)].
  - intros g' l' Ho. rp_split; [discriminate | exact (i_owner c s I _ _ Ho)].
Qed.

Lemma pres_uniq s a s' : inv1 c s -> step p c oc s a = Some s' ->
  forall g g' l, owner (rp s' g l) = true -> owner (rp s' g' l) = true -> g = g'.
Proof.
  intros I H. destruct Hwf as [Hnd _]. step_inv H; simpl.
  8, 11-20: exact (i_uniq c s I).
  all: split_ands.
  - intros g1 g2 l' Ho1 Ho2. repeat rp_split; try discriminate. exact (i_uniq c s I _ _ _ Ho1 Ho2).
  - intros g1 g2 l' Ho1 Ho2. repeat rp_split; try discriminate. exact (i_uniq c s I _ _ _ Ho1 Ho2).
  - intros g1 g2 l' Ho1 Ho2. repeat rp_split; try (destruct (group_complete _ _ _); discriminate). exact (i_uniq c s I _ _ _ Ho1 Ho2).
  - (* ARequest *) intros g1 g2 l' Ho1 Ho2.
    destruct (snd (request c (sh s) l)) eqn:Es.
    + pose proof (request_first_fresh _ _ _ Es) as Hn. destruct (i_nil c s I l Hn) as [_ O].
      repeat rp_split; try reflexivity;
        try (match goal with Ho : owner (rp s ?gx _) = true |- _ => destruct (O gx) as [O1 _]; congruence end).
      exact (i_uniq c s I _ _ _ Ho1 Ho2).
    + repeat rp_split; try (destruct p; discriminate). exact (i_uniq c s I _ _ _ Ho1 Ho2).
  - (* AStart *) intros g1 g2 l' Ho1 Ho2.
    assert (Hown : owner (rp s g l) = true) by (match goal with Hr : rp s g l = _ |- _ => rewrite Hr end; reflexivity).
    repeat rp_split; try reflexivity;
      first [ exact (i_uniq c s I _ _ _ Ho1 Ho2) | exact (i_uniq c s I _ _ _ Ho1 Hown) | exact (i_uniq c s I _ _ _ Hown Ho2) ].
  - (* AReturn *) intros g1 g2 l' Ho1 Ho2.
    assert (Hown : owner (rp s g l) = true) by (match goal with Hr : rp s g l = _ |- _ => rewrite Hr end; reflexivity).
    repeat rp_split; try reflexivity;
      first [ exact (i_uniq c s I _ _ _ Ho1 Ho2) | exact (i_uniq c s I _ _ _ Ho1 Hown) | exact (i_uniq c s I _ _ _ Hown Ho2) ].
  - (* ASetRes *)
    assert (G : forall g1 g2 l', owner (if N.eqb g1 g && N.eqb l' l then RCount else rp s g1 l') = true ->
                owner (if N.eqb g2 g && N.eqb l' l then RCount else rp s g2 l') = true -> g1 = g2).
    { intros g1 g2 l' Ho1 Ho2. repeat rp_split; try discriminate. exact (i_uniq c s I _ _ _ Ho1 Ho2). }
    destruct sct; simpl; exact G.
  - intros g1 g2 l' Ho1 Ho2. repeat rp_split; try discriminate. exact (i_uniq c s I _ _ _ Ho1 Ho2).
  - intros g1 g2 l' Ho1 Ho2. repeat rp_split; try discriminate. exact (i_uniq c s I _ _ _ Ho1 Ho2).
Qed.

Ltac old_pc_contra Hw :=
  match goal with Hr : rp _ _ _ = _ |- _ => rewrite Hr in Hw; discriminate end.

Lemma pres_pend s a s' : inv1 c s -> step p c oc s a = Some s' ->
  forall l, results (sh s') l = RPending -> finished (sh s') l = false -> exists g, owner (rp s' g l) = true.
Proof.
  intros I H. destruct Hwf as [Hnd _]. step_inv H; simpl.
  8, 11-20: exact (i_pend c s I).
  all: split_ands.
  - intros l' Hp Hf. destruct (i_pend c s I l' Hp Hf) as [gw Hw]. exists gw. rp_split; [old_pc_contra Hw | exact Hw].
  - intros l' Hp Hf. destruct (i_pend c s I l' Hp Hf) as [gw Hw]. exists gw. rp_split; [old_pc_contra Hw | exact Hw].
  - intros l' Hp Hf. destruct (i_pend c s I l' Hp Hf) as [gw Hw]. exists gw. rp_split; [old_pc_contra Hw | exact Hw].
  - (* ARequest *) intros l' Hp Hf. destruct (N.eq_dec l' l) as [->|Hne].
    + destruct (results (sh s) l) eqn:Er.
      * destruct (request_fresh c (sh s) l Er) as [R1 [R2 R3]].
        destruct (snd (request c (sh s) l)) eqn:Es.
        -- exists g. rewrite !N.eqb_refl. reflexivity.
        -- destruct (R3 eq_refl) as [R4 _]. rewrite R4, upd_same in Hf. discriminate.
      * rewrite request_dup in Hp, Hf |- * by congruence. simpl in *.
        destruct (i_pend c s I l Hp Hf) as [gw Hw]. exists gw. rp_split; [old_pc_contra Hw | exact Hw].
      * rewrite request_dup in Hp, Hf |- * by congruence. simpl in *.
        destruct (i_pend c s I l Hp Hf) as [gw Hw]. exists gw. rp_split; [old_pc_contra Hw | exact Hw].
      * rewrite request_dup in Hp, Hf |- * by congruence. simpl in *.
        destruct (i_pend c s I l Hp Hf) as [gw Hw]. exists gw. rp_split; [old_pc_contra Hw | exact Hw].
    + rewrite request_results_other in Hp by exact Hne. rewrite request_finished_other in Hf by exact Hne.
      destruct (i_pend c s I l' Hp Hf) as [gw Hw]. exists gw. rp_split; [congruence | exact Hw].
  - intros l' Hp Hf. destruct (i_pend c s I l' Hp Hf) as [gw Hw]. exists gw. rp_split; [reflexivity | exact Hw].
  - intros l' Hp Hf. destruct (i_pend c s I l' Hp Hf) as [gw Hw]. exists gw. rp_split; [reflexivity | exact Hw].
  - (* ASetRes *)
    assert (Hown : owner (rp s g l) = true) by (rewrite E0; reflexivity).
    assert (Hres : results (sh s) l = RPending) by (apply (owner_res s g l I Hown)).
    destruct (set_result_spec c (sh s) l sct s0 Hnd Hres E1) as [S1 [S2 [S3 [S4 [S5 S6]]]]].
    assert (G : forall l', results s0 l' = RPending -> finished s0 l' = false ->
                exists g', owner (if N.eqb g' g && N.eqb l' l then RCount else rp s g' l') = true).
    { intros l' Hp Hf. destruct (N.eq_dec l' l) as [->|Hne].
      - rewrite S5, upd_same in Hf. discriminate.
      - rewrite S1 in Hp by exact Hne. rewrite S5, upd_other in Hf by exact Hne.
        destruct (i_pend c s I l' Hp Hf) as [gw Hw]. exists gw. rp_split; [congruence | exact Hw]. }
    destruct sct; simpl; exact G.
  - intros l' Hp Hf. destruct (i_pend c s I l' Hp Hf) as [gw Hw]. exists gw. rp_split; [old_pc_contra Hw | exact Hw].
  - intros l' Hp Hf. destruct (i_pend c s I l' Hp Hf) as [gw Hw]. exists gw. rp_split; [old_pc_contra Hw | exact Hw].
Qed.

Lemma pres_final s a s' : inv1 c s -> step p c oc s a = Some s' ->
  forall l, is_final (results (sh s') l) = true -> finished (sh s') l = true.
Proof.
  intros I H. destruct Hwf as [Hnd _]. step_inv H; simpl; try exact (i_final c s I).
  - (* ARequest *) intros l' Hfin. destruct (N.eq_dec l' l) as [->|Hne].
    + destruct (results (sh s) l) eqn:Er.
      * destruct (request_fresh c (sh s) l Er) as [R1 _]. rewrite R1, upd_same in Hfin. discriminate.
      * rewrite request_dup in Hfin |- * by congruence. apply (i_final c s I). exact Hfin.
      * rewrite request_dup in Hfin |- * by congruence. apply (i_final c s I). exact Hfin.
      * rewrite request_dup in Hfin |- * by congruence. apply (i_final c s I). exact Hfin.
    + rewrite request_results_other in Hfin by exact Hne. rewrite request_finished_other by exact Hne.
      apply (i_final c s I). exact Hfin.
  - (* ASetRes *) split_ands.
    assert (Hown : owner (rp s g l) = true) by (rewrite E0; reflexivity).
    assert (Hres : results (sh s) l = RPending) by (apply (owner_res s g l I Hown)).
    destruct (set_result_spec c (sh s) l sct s0 Hnd Hres E1) as [S1 [S2 [S3 [S4 [S5 S6]]]]].
    assert (G : forall l', is_final (results s0 l') = true -> finished s0 l' = true).
    { intros l' Hfin. rewrite S5. destruct (N.eq_dec l' l) as [->|Hne]; [apply upd_same|].
      rewrite upd_other by exact Hne. rewrite S1 in Hfin by exact Hne. apply (i_final c s I). exact Hfin. }
    destruct sct; simpl; exact G.
Qed.

Lemma valid_gor_sess g l : valid_gor c g l = true ->
  exists gr, In gr c /\ g_name gr = g /\ In l (g_session gr) /\ find_group c g = Some gr.
Proof.
  unfold valid_gor, session_of. intros H. apply andb_true_iff in H. destruct H as [_ H].
  destruct (find_group c g) as [gr|] eqn:F; [|discriminate].
  destruct (find_some_name c g gr F) as [H1 H2]. apply memN_In in H. exists gr. auto.
Qed.

Lemma pres_starts s a s' : inv1 c s -> step p c oc s a = Some s' -> NoDup (starts s').
Proof.
  intros I H. step_inv H; simpl; try (destruct sct; simpl); try exact (i_starts c s I).
  split_ands. constructor; [|exact (i_starts c s I)].
  intros Hin. apply (i_started c s I l Hin g). assumption.
Qed.

Lemma pres_started s a s' : inv1 c s -> step p c oc s a = Some s' ->
  forall l, In l (starts s') -> forall g, rp s' g l <> RCalling.
Proof.
  intros I H. step_inv H; simpl.
  8, 11-20: exact (i_started c s I).
  all: split_ands.
  - intros l' Hin g'. rp_split; [discriminate | exact (i_started c s I l' Hin g')].
  - intros l' Hin g'. rp_split; [discriminate | exact (i_started c s I l' Hin g')].
  - intros l' Hin g'. rp_split; [destruct (group_complete _ _ _); discriminate | exact (i_started c s I l' Hin g')].
  - intros l' Hin g'. rp_split; [|exact (i_started c s I l' Hin g')].
    destruct (snd (request _ _ _)) eqn:Es; [|destruct p; discriminate].
    exfalso. apply (i_started_res c s I _ Hin). exact (request_first_fresh _ _ _ Es).
  - (* AStart *)
    assert (Hown : owner (rp s g l) = true) by (match goal with Hr : rp s g l = _ |- _ => rewrite Hr end; reflexivity).
    intros l' [<-|Hin] g'.
    + rp_split; [discriminate|]. intros Hr.
      assert (g' = g) by (apply (i_uniq c s I g' g l); [rewrite Hr; reflexivity | exact Hown]).
      subst. rewrite !N.eqb_refl in Hc. discriminate.
    + rp_split; [discriminate | exact (i_started c s I l' Hin g')].
  - intros l' Hin g'. rp_split; [discriminate | exact (i_started c s I l' Hin g')].
  - assert (G : forall l', In l' (starts s) -> forall g', (if N.eqb g' g && N.eqb l' l then RCount else rp s g' l') <> RCalling).
    { intros l' Hin g'. rp_split; [discriminate | exact (i_started c s I l' Hin g')]. }
    destruct sct; simpl; exact G.
  - intros l' Hin g'. rp_split; [discriminate | exact (i_started c s I l' Hin g')].
  - intros l' Hin g'. rp_split; [discriminate | exact (i_started c s I l' Hin g')].
Qed.

Lemma pres_starts_sess s a s' : inv1 c s -> step p c oc s a = Some s' ->
  forall l, In l (starts s') -> exists gr, In gr c /\ In l (g_session gr).
Proof.
  intros I H. step_inv H; simpl; try (destruct sct; simpl); try exact (i_starts_sess c s I).
  split_ands. intros l' [<-|Hin]; [|exact (i_starts_sess c s I l' Hin)].
  match goal with Hv : valid_gor c g l = true |- _ => destruct (valid_gor_sess g l Hv) as [gr [G1 [G2 [G3 G4]]]] end.
  exists gr. auto.
Qed.

Lemma pres_started_res s a s' : inv1 c s -> step p c oc s a = Some s' ->
  forall l, In l (starts s') -> results (sh s') l <> RNil.
Proof.
  intros I H. destruct Hwf as [Hnd _]. step_inv H; simpl; try exact (i_started_res c s I).
  - intros l' Hin. destruct (N.eq_dec l' l) as [->|Hne]; [apply request_results_l|].
    rewrite request_results_other by exact Hne. exact (i_started_res c s I l' Hin).
  - split_ands. intros l' [<-|Hin]; [|exact (i_started_res c s I l' Hin)].
    match goal with Hr : rp s g l = _ |- _ =>
      assert (R : results (sh s) l = RPending) by (apply (owner_res s g l I); rewrite Hr; reflexivity) end.
    congruence.
  - assert (Hown : owner (rp s g l) = true) by (rewrite E0; reflexivity).
    assert (Hres : results (sh s) l = RPending) by (apply (owner_res s g l I Hown)).
    destruct (set_result_spec c (sh s) l sct s0 Hnd Hres E1) as [S1 [S2 _]].
    assert (G : forall l', In l' (starts s) -> results s0 l' <> RNil).
    { intros l' Hin. destruct (N.eq_dec l' l) as [->|Hne]; [exact S2|]. rewrite S1 by exact Hne. exact (i_started_res c s I l' Hin). }
    destruct sct; simpl; exact G.
Qed.

Lemma pres_policy s a s' : inv1 c s -> step p c oc s a = Some s' -> policy_inv c (sh s').
Proof.
  intros I H. step_inv H; simpl; try exact (i_policy c s I).
  - apply policy_request. exact (i_policy c s I).
  - assert (Hown : owner (rp s g l) = true) by (rewrite E0; reflexivity).
    assert (Hres : results (sh s) l = RPending) by (apply (owner_res s g l I Hown)).
    destruct sct; simpl.
    + eapply policy_set_sct; eauto. exact (i_policy c s I).
    + eapply policy_set_err; eauto; [exact (i_policy c s I) | rewrite Hres; reflexivity].
Qed.

Lemma pres_sct_arrived s a s' : inv1 c s -> step p c oc s a = Some s' ->
  forall l, results (sh s') l = RSct -> In l (arrived s').
Proof.
  intros I H. destruct Hwf as [Hnd _]. step_inv H; simpl; try exact (i_sct_arrived c s I).
  - intros l' Hs. destruct (N.eq_dec l' l) as [->|Hne].
    + destruct (results (sh s) l) eqn:Er.
      * destruct (request_fresh c (sh s) l Er) as [R1 _]. rewrite R1, upd_same in Hs. discriminate.
      * rewrite request_dup in Hs by congruence. apply (i_sct_arrived c s I). exact Hs.
      * rewrite request_dup in Hs by congruence. apply (i_sct_arrived c s I). exact Hs.
      * rewrite request_dup in Hs by congruence. apply (i_sct_arrived c s I). exact Hs.
    + rewrite request_results_other in Hs by exact Hne. apply (i_sct_arrived c s I). exact Hs.
  - assert (Hown : owner (rp s g l) = true) by (rewrite E0; reflexivity).
    assert (Hres : results (sh s) l = RPending) by (apply (owner_res s g l I Hown)).
    destruct (set_result_spec c (sh s) l sct s0 Hnd Hres E1) as [S1 [S2 [S3 _]]].
    destruct sct; simpl; intros l' Hs; destruct (N.eq_dec l' l) as [->|Hne].
    + left. reflexivity.
    + right. rewrite S1 in Hs by exact Hne. apply (i_sct_arrived c s I). exact Hs.
    + specialize (S3 Hs). discriminate.
    + rewrite S1 in Hs by exact Hne. apply (i_sct_arrived c s I). exact Hs.
Qed.

Lemma pres_arrived_fin s a s' : inv1 c s -> step p c oc s a = Some s' ->
  forall l, In l (arrived s') -> finished (sh s') l = true.
Proof.
  intros I H. destruct Hwf as [Hnd _]. step_inv H; simpl; try exact (i_arrived_fin c s I).
  - intros l' Hin. apply request_finished_mono. exact (i_arrived_fin c s I l' Hin).
  - assert (Hown : owner (rp s g l) = true) by (rewrite E0; reflexivity).
    assert (Hres : results (sh s) l = RPending) by (apply (owner_res s g l I Hown)).
    destruct (set_result_spec c (sh s) l sct s0 Hnd Hres E1) as [S1 [S2 [S3 [S4 [S5 S6]]]]].
    destruct sct; simpl; intros l' Hin; rewrite S5; unfold upd; destruct (N.eqb l' l) eqn:El; try reflexivity.
    + destruct Hin as [<-|Hin]; [rewrite N.eqb_refl in El; discriminate | exact (i_arrived_fin c s I l' Hin)].
    + exact (i_arrived_fin c s I l' Hin).
Qed.

Lemma pres_mret s a s' : inv1 c s -> step p c oc s a = Some s' ->
  forall g, mp s' g = MReturn true -> In g (names c) -> needs (sh s') g <= 0.
Proof.
  intros I H. pose proof (step_needs_mono p c oc s a s' Hwf I H) as Mono.
  assert (Old : forall g, mp s g = MReturn true -> In g (names c) -> needs (sh s') g <= 0).
  { intros g Hm Hin. pose proof (i_mret c s I g Hm Hin). specialize (Mono g). lia. }
  clear Mono. step_inv H; simpl in *; try (destruct sct; simpl in *); try exact Old.
  all: intros g' Hm Hin; unfold upd in Hm; destruct (N.eqb g' g) eqn:Eg;
    try (apply Old; assumption); try discriminate; apply N.eqb_eq in Eg; subst g'.
  - destruct (group_complete c (sh s) g) eqn:Eg; [apply (group_complete_needs c (sh s) g Hin); exact Eg|].
    destruct (length (session_of c g)) as [|m']; [discriminate|]. destruct (Nat.eqb k m'); discriminate.
  - inversion Hm as [Hv]. apply (group_complete_needs c (sh s) g Hin). exact Hv.
Qed.

Lemma pres_evq s a s' : inv1 c s -> step p c oc s a = Some s' ->
  forall g, In (g, true) (evq s') -> In g (names c) -> needs (sh s') g <= 0.
Proof.
  intros I H. pose proof (step_needs_mono p c oc s a s' Hwf I H) as Mono.
  assert (Old : forall g, In (g, true) (evq s) -> In g (names c) -> needs (sh s') g <= 0).
  { intros g Hm Hin. pose proof (i_evq c s I g Hm Hin). specialize (Mono g). lia. }
  assert (OldM : forall g, mp s g = MReturn true -> In g (names c) -> needs (sh s') g <= 0).
  { intros g Hm Hin. pose proof (i_mret c s I g Hm Hin). specialize (Mono g). lia. }
  clear Mono. step_inv H; simpl in *; try (destruct sct; simpl in *); try exact Old.
  - intros g' Hq Hin. apply in_app_or in Hq. destruct Hq as [Hq|[Hq|[]]]; [apply Old; assumption|].
    inversion Hq; subst. apply OldM; assumption.
  - intros g' Hq Hin. apply Old; [right; exact Hq | exact Hin].
Qed.

Lemma pres_top s a s' : inv1 c s -> step p c oc s a = Some s' ->
  match top s' with
  | TLoop _ gc | TVerdict _ gc => forall g, In g (names c) -> gc g = true -> needs (sh s') g <= 0
  | TReturned scts ok => NoDup scts /\ (forall l, In l scts -> In l (arrived s')) /\
                         (ok = true -> policy_satisfied c scts)
  end.
Proof.
  intros I H. pose proof (step_needs_mono p c oc s a s' Hwf I H) as Mono.
  assert (Sub : forall l, In l (arrived s) -> In l (arrived s')).
  { clear Mono. step_inv H; simpl; try (destruct sct; simpl); auto. }
  assert (Old : top s' = top s ->
    match top s' with
    | TLoop _ gc | TVerdict _ gc => forall g, In g (names c) -> gc g = true -> needs (sh s') g <= 0
    | TReturned scts ok => NoDup scts /\ (forall l, In l scts -> In l (arrived s')) /\ (ok = true -> policy_satisfied c scts)
    end).
  { intros Et. rewrite Et. pose proof (i_top c s I) as T. destruct (top s).
    - intros g Hin Hg. specialize (T g Hin Hg). specialize (Mono g). lia.
    - intros g Hin Hg. specialize (T g Hin Hg). specialize (Mono g). lia.
    - destruct T as [T1 [T2 T3]]. split; [exact T1|]. split; [|exact T3]. intros l Hl. apply Sub. apply T2. exact Hl. }
  assert (OldE : forall g, In (g, true) (evq s) -> In g (names c) -> needs (sh s) g <= 0) by exact (i_evq c s I).
  pose proof (i_top c s I) as T.
  clear Mono Sub. step_inv H; try (apply Old; try (destruct sct); reflexivity); clear Old.
  - (* ATopRecv *) simpl.
    match goal with |- context[upd ?gc0 ?g0 ?v0] =>
      assert (G : forall g', In g' (names c) -> upd gc0 g0 v0 g' = true -> needs (sh s) g' <= 0) end.
    { intros g' Hin Hg. unfold upd in Hg. destruct (N.eqb g' _) eqn:Eg.
      - apply N.eqb_eq in Eg. subst. apply OldE; [left; reflexivity | exact Hin].
      - apply T; assumption. }
    match goal with |- context[if ?bb then _ else _] => destruct bb end; unfold after_loop; simpl; exact G.
  - (* ATopDone *) simpl. split; [apply collect_nodup|]. split.
    + intros l Hl. apply (i_sct_arrived c s I). apply (collect_sct c). exact Hl.
    + intros Hok. apply policy_of_needs; [exact Hwf | exact (i_policy c s I) |].
      intros g Hin. apply T; [exact Hin|]. rewrite forallb_forall in Hok. apply Hok. exact Hin.
  - (* ATopVerdict *) simpl. intros g' Hin Hg. unfold upd in Hg. destruct (N.eqb g' n) eqn:Eg.
    + apply N.eqb_eq in Eg. subst. apply (group_complete_needs c (sh s) n Hin). exact Hg.
    + apply T; assumption.
  - (* ATopCollect *) simpl. split; [apply collect_nodup|]. split.
    + intros l Hl. apply (i_sct_arrived c s I). apply (collect_sct c). exact Hl.
    + intros Hok. apply policy_of_needs; [exact Hwf | exact (i_policy c s I) |].
      intros g Hin. apply T; [exact Hin|]. rewrite forallb_forall in Hok. apply Hok. exact Hin.
Qed.

Lemma inv1_step s a s' : inv1 c s -> step p c oc s a = Some s' -> inv1 c s'.
Proof.
  intros I H. constructor.
  - eapply pres_nopanic; eauto.
  - eapply pres_valid; eauto.
  - eapply pres_nil; eauto.
  - eapply pres_owner; eauto.
  - eapply pres_uniq; eauto.
  - eapply pres_pend; eauto.
  - eapply pres_final; eauto.
  - eapply pres_starts; eauto.
  - eapply pres_started; eauto.
  - eapply pres_starts_sess; eauto.
  - eapply pres_started_res; eauto.
  - eapply pres_policy; eauto.
  - eapply pres_sct_arrived; eauto.
  - eapply pres_arrived_fin; eauto.
  - eapply pres_mret; eauto.
  - eapply pres_evq; eauto.
  - eapply pres_top; eauto.
Qed.

Lemma inv1_run tr : forall s s', inv1 c s -> run p c oc s tr = Some s' -> inv1 c s'.
Proof.
  induction tr as [|a tr IH]; simpl; intros s s' I H.
  - inversion H; subst. exact I.
  - destruct (step p c oc s a) eqn:E; [|discriminate]. eapply IH; [eapply inv1_step; eauto | exact H].
Qed.

Lemma inv1_reach tr s : run p c oc (init p c) tr = Some s -> inv1 c s.
Proof. apply inv1_run. apply inv1_init. exact Hwf. Qed.
End Step.
