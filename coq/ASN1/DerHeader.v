(* L1 of the ASN.1 model: the TLV header.  asn1.go parseBase128Int / parseTagAndLength and
   marshal.go appendBase128Int / appendLength / appendTagAndLength, branch for branch.
   [variant] selects the fork (/repo/asn1) or the standard library (encoding/asn1, go1.23.5):
   D2 = upstream rejects a base-128 integer whose first octet is 0x80.  Definitions only. *)
From Coq Require Import ZArith NArith List Bool Lia.
From Coq.Strings Require Import Byte.
From V Require Import Base.Bytes ASN1.DerBase.
Import ListNotations.
Local Open Scope Z_scope.

Inductive variant := Fork | Upstream.
Definition is_upstream (v : variant) : bool := match v with Upstream => true | Fork => false end.

Definition max_i32 : Z := 2147483647.

(* parseBase128Int: [shifted] iterations done, [acc] = ret64; the data is bytes[offset:] *)
Fixpoint b128_loop (v : variant) (shifted : nat) (acc : Z) (d : bytes) : res (Z * bytes) :=
  match d with
  | [] => ErrSyntax                                            (* truncated base 128 integer *)
  | b :: r =>
      if (shifted =? 5)%nat then ErrStruct                     (* base 128 integer too large *)
      else if is_upstream v && (shifted =? 0)%nat && (bz b =? 128) then ErrSyntax   (* D2 *)
      else
        let acc' := acc * 128 + bz b mod 128 in
        if bz b <? 128 then (if acc' >? max_i32 then ErrStruct else Ok (acc', r))
        else b128_loop v (S shifted) acc' r
  end.
Definition parse_base128 (v : variant) (d : bytes) : res (Z * bytes) := b128_loop v 0 0 d.

Record tl := mkTl { t_class : Z; t_tag : Z; t_len : Z; t_compound : bool }.

(* the long-form length loop: [n] octets still to read *)
Fixpoint len_loop (n : nat) (acc : Z) (d : bytes) : res (Z * bytes) :=
  match n with
  | O => Ok (acc, d)
  | S n' =>
      match d with
      | [] => ErrSyntax                                        (* truncated tag or length *)
      | b :: r =>
          if acc >=? 8388608 then ErrStruct                    (* length too large (1<<23) *)
          else let acc' := acc * 256 + bz b in
               if acc' =? 0 then ErrStruct                     (* superfluous leading zeros *)
               else len_loop n' acc' r
      end
  end.

Definition parse_len (d : bytes) : res (Z * bytes) :=
  match d with
  | [] => ErrSyntax                                            (* truncated tag or length *)
  | b :: r =>
      if bz b <? 128 then Ok (bz b, r)
      else
        let nb := bz b - 128 in
        if nb =? 0 then ErrSyntax                              (* indefinite length *)
        else match len_loop (Z.to_nat nb) 0 r with
             | Ok (l, r') => if l <? 128 then ErrStruct (* non-minimal length *) else Ok (l, r')
             | e => e
             end
  end.

(* parseTagAndLength over an abstract base-128 reader (so that theorems can relate two readers) *)
Definition parse_tl_with (b128 : bytes -> res (Z * bytes)) (d : bytes) : res (tl * bytes) :=
  match d with
  | [] => ErrOther                                             (* "internal error in parseTagAndLength" *)
  | b :: r =>
      let class := bz b / 64 in
      let comp := Z.testbit (bz b) 5 in
      let tag := bz b mod 32 in
      if tag =? 31 then
        match b128 r with
        | Ok (tag', r') =>
            if tag' <? 31 then ErrSyntax                       (* non-minimal tag *)
            else match parse_len r' with
                 | Ok (l, r'') => Ok (mkTl class tag' l comp, r'')
                 | e => fail e
                 end
        | e => fail e
        end
      else match parse_len r with
           | Ok (l, r') => Ok (mkTl class tag l comp, r')
           | e => fail e
           end
  end.
Definition parse_tl (v : variant) : bytes -> res (tl * bytes) := parse_tl_with (parse_base128 v).

(* ---------------- emit side (marshal.go) ---------------- *)

(* the continuation octets of a positive number, most significant first *)
Fixpoint b128_hi (fuel : nat) (n : Z) : bytes :=
  match fuel with
  | O => []
  | S f => if n <=? 0 then [] else b128_hi f (n / 128) ++ [zb (128 + n mod 128)]
  end.
(* appendBase128Int: nothing at all for a negative number (base128IntLength gives 0) *)
Definition append_base128 (n : Z) : bytes :=
  if n <? 0 then [] else b128_hi 10 (n / 128) ++ [zb (n mod 128)].

(* appendLength: big-endian, lengthLength(i) octets *)
Fixpoint len_bytes (fuel : nat) (i : Z) : bytes :=
  match fuel with
  | O => []
  | S f => if i >? 255 then len_bytes f (i / 256) ++ [zb (i mod 256)] else [zb i]
  end.

Definition append_tl (t : tl) : bytes :=
  let b := (t_class t mod 4) * 64 + (if t_compound t then 32 else 0) in
  (if t_tag t >=? 31 then zb (b + 31) :: append_base128 (t_tag t) else [zb (Z.lor b (t_tag t mod 256))])   (* b |= uint8(tag) *)
  ++
  (if t_len t >=? 128 then
     let lb := len_bytes 8 (t_len t) in zb (128 + zlen lb) :: lb
   else [zb (t_len t)]).

(* a header as DER writes it *)
Definition tl_canonical (t : tl) : Prop :=
  0 <= t_class t < 4 /\ 0 <= t_tag t <= max_i32 /\ 0 <= t_len t < 2147483648.
