package main

import (
	mrand "math/rand"
)

// A deliberately independent, tolerant TLV reader (not the package under test): single- or
// multi-byte tags, definite lengths in short or (possibly non-minimal) long form.
type tlv struct {
	off, hdr, length int // b[off:off+hdr] is the header, b[off+hdr:off+hdr+length] the content
	tag              byte
}

func (t tlv) end() int          { return t.off + t.hdr + t.length }
func (t tlv) constructed() bool { return t.tag&0x20 != 0 }

func readTLV(b []byte, off int) (tlv, bool) {
	if off < 0 || off+2 > len(b) {
		return tlv{}, false
	}
	t := tlv{off: off, tag: b[off]}
	p := off + 1
	if b[off]&0x1f == 0x1f { // high tag number
		for {
			if p >= len(b) {
				return tlv{}, false
			}
			c := b[p]
			p++
			if c&0x80 == 0 {
				break
			}
		}
	}
	if p >= len(b) {
		return tlv{}, false
	}
	l := int(b[p])
	p++
	if l&0x80 != 0 {
		n := l & 0x7f
		if n == 0 || n > 4 || p+n > len(b) {
			return tlv{}, false
		}
		l = 0
		for i := 0; i < n; i++ {
			l = l<<8 | int(b[p+i])
		}
		p += n
	}
	t.hdr = p - off
	t.length = l
	if l < 0 || t.end() > len(b) {
		return tlv{}, false
	}
	return t, true
}

// kids returns the children of a constructed element, or, for a primitive OCTET STRING /
// BIT STRING whose content is itself a sequence of complete TLVs (extension values, keys),
// those TLVs.  lo/hi delimit the region that was parsed.
func kids(b []byte, t tlv) (out []tlv) {
	lo, hi := t.off+t.hdr, t.end()
	switch {
	case t.constructed():
	case t.tag == 0x04:
	case t.tag == 0x03 && t.length > 1 && b[lo] == 0:
		lo++
	default:
		return nil
	}
	p := lo
	for p < hi {
		c, ok := readTLV(b[:hi], p)
		if !ok {
			if t.constructed() {
				return out
			}
			return nil
		}
		out = append(out, c)
		p = c.end()
	}
	if !t.constructed() && (len(out) == 0 || p != hi) {
		return nil
	}
	return out
}

func encHeader(tagBytes []byte, n int) []byte {
	h := append([]byte{}, tagBytes...)
	switch {
	case n < 0x80:
		h = append(h, byte(n))
	case n < 0x100:
		h = append(h, 0x81, byte(n))
	case n < 0x10000:
		h = append(h, 0x82, byte(n>>8), byte(n))
	default:
		h = append(h, 0x83, byte(n>>16), byte(n>>8), byte(n))
	}
	return h
}

func tagBytes(b []byte, t tlv) []byte {
	p := t.off + 1
	if b[t.off]&0x1f == 0x1f {
		for b[p]&0x80 != 0 {
			p++
		}
		p++
	}
	return b[t.off:p]
}

// replaceNode returns b with the element path[len-1] replaced by repl and the lengths of all
// its ancestors (path[0..len-2], outermost first) re-encoded.
func replaceNode(b []byte, path []tlv, repl []byte) []byte {
	cur := repl
	for i := len(path) - 2; i >= 0; i-- {
		anc, child := path[i], path[i+1]
		var content []byte
		content = append(content, b[anc.off+anc.hdr:child.off]...)
		content = append(content, cur...)
		content = append(content, b[child.end():anc.end()]...)
		cur = append(encHeader(tagBytes(b, anc), len(content)), content...)
	}
	var out []byte
	out = append(out, b[:path[0].off]...)
	out = append(out, cur...)
	out = append(out, b[path[0].end():]...)
	return out
}

// randomPath walks from the outermost element down to a random descendant.
func randomPath(r *mrand.Rand, b []byte, want func(tlv) bool) []tlv {
	root, ok := readTLV(b, 0)
	if !ok {
		return nil
	}
	var best []tlv
	var walk func(path []tlv, depth int)
	n := 0
	walk = func(path []tlv, depth int) {
		t := path[len(path)-1]
		if want == nil || want(t) {
			n++
			if r.Intn(n) == 0 { // reservoir sampling over all matching nodes
				best = append([]tlv{}, path...)
			}
		}
		if depth > 12 {
			return
		}
		for _, c := range kids(b, t) {
			walk(append(path, c), depth+1)
		}
	}
	walk([]tlv{root}, 0)
	return best
}

func allNodes(b []byte) [][]tlv {
	root, ok := readTLV(b, 0)
	if !ok {
		return nil
	}
	var out [][]tlv
	var walk func(path []tlv, depth int)
	walk = func(path []tlv, depth int) {
		out = append(out, append([]tlv{}, path...))
		if depth > 12 {
			return
		}
		for _, c := range kids(b, path[len(path)-1]) {
			walk(append(path, c), depth+1)
		}
	}
	walk([]tlv{root}, 0)
	return out
}

// ---- mutations ----

type mutation struct {
	name string
	f    func(r *mrand.Rand, b []byte, donors [][]byte) []byte
}

func node(b []byte, t tlv) []byte { return b[t.off:t.end()] }

var mutations = []mutation{
	{"flip-bit", func(r *mrand.Rand, b []byte, _ [][]byte) []byte {
		p := randomPath(r, b, func(t tlv) bool { return t.length > 0 && kids(b, t) == nil })
		if p == nil {
			return nil
		}
		t := p[len(p)-1]
		o := append([]byte{}, b...)
		o[t.off+t.hdr+r.Intn(t.length)] ^= 1 << uint(r.Intn(8))
		return o
	}},
	{"set-byte", func(r *mrand.Rand, b []byte, _ [][]byte) []byte {
		p := randomPath(r, b, func(t tlv) bool { return t.length > 0 && kids(b, t) == nil })
		if p == nil {
			return nil
		}
		t := p[len(p)-1]
		o := append([]byte{}, b...)
		o[t.off+t.hdr+r.Intn(t.length)] = []byte{0, 0x7f, 0x80, 0xff, 0x2a, 0x40}[r.Intn(6)]
		return o
	}},
	{"flip-any-byte", func(r *mrand.Rand, b []byte, _ [][]byte) []byte {
		if len(b) == 0 {
			return nil
		}
		o := append([]byte{}, b...)
		o[r.Intn(len(o))] ^= byte(1 + r.Intn(255))
		return o
	}},
	{"length+-", func(r *mrand.Rand, b []byte, _ [][]byte) []byte {
		p := randomPath(r, b, nil)
		if p == nil {
			return nil
		}
		t := p[len(p)-1]
		o := append([]byte{}, b...)
		pos := t.off + t.hdr - 1 // last byte of the length field
		o[pos] += []byte{1, 0xff, 2, 0xfe, 0x10, 0x80}[r.Intn(6)]
		return o
	}},
	{"length-fixed", func(r *mrand.Rand, b []byte, _ [][]byte) []byte { // inner length changed, enclosing lengths left alone or fixed
		p := randomPath(r, b, func(t tlv) bool { return t.length > 0 })
		if p == nil || len(p) < 2 {
			return nil
		}
		t := p[len(p)-1]
		nl := t.length + []int{-1, 1, -t.length}[r.Intn(3)]
		if nl < 0 {
			nl = 0
		}
		content := b[t.off+t.hdr : t.end()]
		if nl <= len(content) {
			content = content[:nl]
		} else {
			content = append(append([]byte{}, content...), 0)
		}
		return replaceNode(b, p, append(encHeader(tagBytes(b, t), nl), content...))
	}},
	{"truncate", func(r *mrand.Rand, b []byte, _ [][]byte) []byte {
		if len(b) < 2 {
			return nil
		}
		return append([]byte{}, b[:r.Intn(len(b))]...)
	}},
	{"truncate-at-tlv", func(r *mrand.Rand, b []byte, _ [][]byte) []byte {
		p := randomPath(r, b, nil)
		if p == nil {
			return nil
		}
		t := p[len(p)-1]
		cut := []int{t.off, t.off + 1, t.off + t.hdr, t.end() - 1}[r.Intn(4)]
		if cut < 0 || cut > len(b) {
			return nil
		}
		return append([]byte{}, b[:cut]...)
	}},
	{"trailing", func(r *mrand.Rand, b []byte, _ [][]byte) []byte {
		extra := [][]byte{{0}, {0x05, 0x00}, {0x30, 0x00}, {0xff, 0xff, 0xff}, {0x30}}[r.Intn(5)]
		return append(append([]byte{}, b...), extra...)
	}},
	{"delete-tlv", func(r *mrand.Rand, b []byte, _ [][]byte) []byte {
		p := randomPath(r, b, nil)
		if len(p) < 2 {
			return nil
		}
		return replaceNode(b, p, nil)
	}},
	{"duplicate-tlv", func(r *mrand.Rand, b []byte, _ [][]byte) []byte {
		p := randomPath(r, b, nil)
		if len(p) < 2 {
			return nil
		}
		n := node(b, p[len(p)-1])
		return replaceNode(b, p, append(append([]byte{}, n...), n...))
	}},
	{"splice-tlv", func(r *mrand.Rand, b []byte, donors [][]byte) []byte {
		p := randomPath(r, b, nil)
		if len(p) < 2 || len(donors) == 0 {
			return nil
		}
		d := donors[r.Intn(len(donors))]
		q := randomPath(r, d, nil)
		if q == nil {
			return nil
		}
		return replaceNode(b, p, append([]byte{}, node(d, q[len(q)-1])...))
	}},
	{"splice-same-tag", func(r *mrand.Rand, b []byte, donors [][]byte) []byte {
		p := randomPath(r, b, nil)
		if len(p) < 2 || len(donors) == 0 {
			return nil
		}
		tag := p[len(p)-1].tag
		d := donors[r.Intn(len(donors))]
		q := randomPath(r, d, func(t tlv) bool { return t.tag == tag })
		if q == nil {
			return nil
		}
		return replaceNode(b, p, append([]byte{}, node(d, q[len(q)-1])...))
	}},
	{"swap-siblings", func(r *mrand.Rand, b []byte, _ [][]byte) []byte {
		p := randomPath(r, b, func(t tlv) bool { return len(kids(b, t)) >= 2 })
		if p == nil {
			return nil
		}
		t := p[len(p)-1]
		ks := kids(b, t)
		i := r.Intn(len(ks) - 1)
		var content []byte
		content = append(content, b[t.off+t.hdr:ks[i].off]...)
		content = append(content, node(b, ks[i+1])...)
		content = append(content, node(b, ks[i])...)
		content = append(content, b[ks[i+1].end():t.end()]...)
		return replaceNode(b, p, append(append([]byte{}, b[t.off:t.off+t.hdr]...), content...))
	}},
	{"retag", func(r *mrand.Rand, b []byte, _ [][]byte) []byte {
		p := randomPath(r, b, func(t tlv) bool { return kids(b, t) == nil })
		if p == nil {
			return nil
		}
		t := p[len(p)-1]
		o := append([]byte{}, b...)
		o[t.off] = []byte{0x0c, 0x13, 0x14, 0x16, 0x1e, 0x17, 0x18, 0x02, 0x04, 0x03, 0x05, 0x06, 0x01, 0x0a, 0x12, 0x80, 0x82, 0x86, 0x87, 0xa0, 0x30, 0x31}[r.Intn(22)]
		return o
	}},
	{"empty-content", func(r *mrand.Rand, b []byte, _ [][]byte) []byte {
		p := randomPath(r, b, nil)
		if len(p) < 2 {
			return nil
		}
		return replaceNode(b, p, encHeader(tagBytes(b, p[len(p)-1]), 0))
	}},
	// ---- lax-only: accepted by the lax retry, refused by the strict parse ----
	{"lax:non-minimal-integer", func(r *mrand.Rand, b []byte, _ [][]byte) []byte {
		p := randomPath(r, b, func(t tlv) bool { return t.tag == 0x02 && t.length > 0 })
		if p == nil {
			return nil
		}
		t := p[len(p)-1]
		content := b[t.off+t.hdr : t.end()]
		pad := byte(0)
		if content[0]&0x80 != 0 {
			pad = 0xff
		}
		nc := append([]byte{pad}, content...)
		if r.Intn(4) == 0 {
			nc = append([]byte{pad}, nc...)
		}
		return replaceNode(b, p, append(encHeader([]byte{0x02}, len(nc)), nc...))
	}},
	{"lax:printable-bad-char", func(r *mrand.Rand, b []byte, _ [][]byte) []byte {
		p := randomPath(r, b, func(t tlv) bool { return t.tag == 0x13 && t.length > 0 })
		if p == nil {
			return nil
		}
		t := p[len(p)-1]
		o := append([]byte{}, b...)
		o[t.off+t.hdr+r.Intn(t.length)] = []byte{'@', '_', '!', 0xe9, 0xc8, '#'}[r.Intn(6)]
		return o
	}},
	{"lax:empty-oid", func(r *mrand.Rand, b []byte, _ [][]byte) []byte {
		p := randomPath(r, b, func(t tlv) bool { return t.tag == 0x06 })
		if len(p) < 2 {
			return nil
		}
		return replaceNode(b, p, []byte{0x06, 0x00})
	}},
	// non-minimal length encodings: not DER; neither mode of the fork accepts them at the top
	// level, but they exercise the header parser
	{"non-minimal-length", func(r *mrand.Rand, b []byte, _ [][]byte) []byte {
		p := randomPath(r, b, nil)
		if p == nil {
			return nil
		}
		t := p[len(p)-1]
		tb := tagBytes(b, t)
		var h []byte
		switch r.Intn(3) {
		case 0:
			h = append(append([]byte{}, tb...), 0x81, byte(t.length))
			if t.length > 0xff {
				return nil
			}
		case 1:
			h = append(append([]byte{}, tb...), 0x82, byte(t.length>>8), byte(t.length))
		default:
			h = append(append([]byte{}, tb...), 0x83, 0, byte(t.length>>8), byte(t.length))
		}
		return replaceNode(b, p, append(h, b[t.off+t.hdr:t.end()]...))
	}},
	{"indefinite-length", func(r *mrand.Rand, b []byte, _ [][]byte) []byte {
		p := randomPath(r, b, func(t tlv) bool { return t.constructed() })
		if p == nil {
			return nil
		}
		t := p[len(p)-1]
		nb := append(append([]byte{}, tagBytes(b, t)...), 0x80)
		nb = append(nb, b[t.off+t.hdr:t.end()]...)
		nb = append(nb, 0, 0)
		return replaceNode(b, p, nb)
	}},
}
