(* C14 - storing issuance chains outside the backend is invisible to readers.
   Property theorems only.  The four extra-data layouts are the GENERATED TLS descriptors
   (gen/CtTypes.v, reflect); SHA-256 is a parameter H of which only the output length is used. *)
From Coq Require Import String NArith Bool List.
From V Require Import Base.Bytes TLS.TlsModel gen.CtTypes CT.CtFuncs X509.Der CTFE.ChainStoreModel CTFE.ChainStoreForms
  CTFE.ChainStoreProofs CTFE.ChainStoreTheorems.
From Coq Require Import ZArith.
From V Require Import gen.Services CTFE.ChainStoreGenTie.
Import ListNotations.
Local Open Scope N_scope.

(* the stored blob decodes to the chain it was made from *)
Theorem chain_blob_roundtrip : forall l, chain_ok l -> dec_chain (enc_chain l) = Some l.
Proof. exact dec_enc_chain. Qed.
Print Assumptions chain_blob_roundtrip.

(* for ALL certificates, chains and hashes (unbounded sizes): no encoding of one layout is
   accepted as a layout tried earlier - the 2- vs 3-byte length prefixes cannot line up *)
Theorem layouts_never_confused : forall bs,
  (form_cch bs -> refused gen_PrecertChainEntryHash bs) /\
  (form_pce bs -> refused gen_PrecertChainEntryHash bs /\ refused gen_CertificateChainHash bs) /\
  (form_cc bs -> refused gen_PrecertChainEntryHash bs /\ refused gen_CertificateChainHash bs /\ refused gen_PrecertChainEntry bs).
Proof.
  exact (fun bs => conj (cch_refused_as_pceh bs)
           (conj (fun H => conj (pce_refused_as_pceh bs H) (pce_refused_as_cch bs H))
                 (fun H => conj (cc_refused_as_pceh bs H) (conj (cc_refused_as_cch bs H) (cc_refused_as_pce bs H))))).
Qed.
Print Assumptions layouts_never_confused.

(* every complete parse of a layout has that layout's byte form (so "form" is not vacuous) *)
Theorem parsed_layouts_have_their_form : forall bs v,
  (complete gen_PrecertChainEntryHash bs = Ok v -> form_pceh bs) /\
  (complete gen_CertificateChainHash bs = Ok v -> form_cch bs) /\
  (complete gen_PrecertChainEntry bs = Ok v -> form_pce bs) /\
  (complete gen_CertificateChain bs = Ok v -> form_cc bs).
Proof. exact (fun bs v => conj (pceh_is_form bs v) (conj (cch_is_form bs v) (conj (pce_form bs v) (cc_form bs v)))). Qed.
Print Assumptions parsed_layouts_have_their_form.

(* every chain shape (incl. the empty chain), both entry types, EVERY cache state within the
   storage before and after: served extra_data is byte-identical to the default mode's - or
   SHA-256 collides on two different chain blobs *)
Theorem indirect_equals_direct : forall (H : bytes -> bytes), (forall b, length (H b) = 32%nat) ->
  forall precert cert chain cache store x store' cache',
  cert_ok cert -> Forall cert_ok chain -> len (enc_certs chain) <= 16777215 -> chain_ok chain ->
  store_inv H store -> cache_sub cache store ->
  build_indirect H precert cert chain cache store true = Ok (x, store') ->
  cache_sub cache' store' ->
  fix_leaf (get_by_hash cache' store' true) x = extra_direct precert cert chain
  \/ exists c, c <> enc_chain chain /\ H c = H (enc_chain chain).
Proof. exact indirect_equals_direct_lemma. Qed.
Print Assumptions indirect_equals_direct.

Theorem cache_state_irrelevant : forall cache store h,
  cache_sub cache store -> get_by_hash cache store true h = get_by_hash [] store true h.
Proof. exact cache_state_irrelevant_lemma. Qed.
Print Assumptions cache_state_irrelevant.

(* entries stored with their full chain keep being served unchanged, whatever get does *)
Theorem legacy_full_chain_entries_unchanged : forall get precert cert chain x,
  cert_ok cert -> Forall cert_ok chain -> len (enc_certs chain) <= 16777215 ->
  extra_direct precert cert chain = Ok x -> fix_leaf get x = Ok x.
Proof. exact legacy_unchanged_lemma. Qed.
Print Assumptions legacy_full_chain_entries_unchanged.

(* faults produce errors, never altered, truncated or empty chain data *)
Theorem storage_add_failure_is_error : forall H precert cert chain cache store,
  kv_get (H (enc_chain chain)) cache = None -> build_indirect H precert cert chain cache store false = ErrStruct.
Proof. exact ChainStoreTheorems.storage_add_failure_is_error. Qed.
Print Assumptions storage_add_failure_is_error.
Theorem lookup_failure_is_error : forall (H : bytes -> bytes), (forall b, length (H b) = 32%nat) -> forall get precert cert h x,
  cert_ok cert -> len h <= 256 -> Nat.eqb (length h) 0 = false ->
  extra_hashed precert cert h = Ok x -> get h = IoErr -> fix_leaf get x = ErrStruct.
Proof. exact ChainStoreTheorems.lookup_failure_is_error. Qed.
Print Assumptions lookup_failure_is_error.
Theorem corrupted_blob_is_error : forall (H : bytes -> bytes), (forall b, length (H b) = 32%nat) -> forall get precert cert h x blob,
  cert_ok cert -> len h <= 256 -> Nat.eqb (length h) 0 = false ->
  extra_hashed precert cert h = Ok x -> get h = IoOk blob -> dec_chain blob = None -> fix_leaf get x = ErrStruct.
Proof. exact ChainStoreTheorems.corrupted_blob_is_error. Qed.
Print Assumptions corrupted_blob_is_error.
Theorem unknown_hash_is_error : forall cache store h,
  kv_get h cache = None -> kv_get h store = None -> get_by_hash cache store true h = IoErr.
Proof. exact ChainStoreTheorems.unknown_hash_is_error. Qed.
Print Assumptions unknown_hash_is_error.

(* non-vacuity *)
Example small_chain :
  chain_ok [hex "aa"; hex "bbcc"] /\ cert_ok (hex "01") /\
  extra_direct true (hex "01") [hex "aa"; hex "bbcc"] = Ok (hex "00000101" ++ hex "000009" ++ hex "000001aa" ++ hex "000002bbcc") /\
  form_cc (hex "000000").
Proof.
  split; [split; [repeat constructor; vm_compute; reflexivity | vm_compute; reflexivity]|].
  split; [vm_compute; split; discriminate|]. split; [vm_compute; reflexivity|].
  exists []. split; [vm_compute; discriminate | reflexivity].
Qed.

(* the test "this stored entry names a chain hash" as services.go FixLogLeaf makes it today (translated on every
   run, both entry forms) is the test of the model's fix_leaf: a lookup happens exactly for a non-empty hash *)
Theorem fix_leaf_hash_test_as_in_source : forall h : bytes,
  negb (length h =? 0)%nat = fix_precert_has_hash_gen (Z.of_nat (length h)) /\
  negb (length h =? 0)%nat = fix_cert_has_hash_gen (Z.of_nat (length h)).
Proof. exact fix_has_hash_meaning. Qed.
Print Assumptions fix_leaf_hash_test_as_in_source.
