(* Shared vocabulary of the ASN.1 (DER) model: outcome classes, byte <-> Z, slices, infix. *)
From Coq Require Import ZArith NArith List Bool Lia.
From Coq.Strings Require Import Byte.
From V Require Import Base.Bytes.
Import ListNotations.
Local Open Scope Z_scope.

(* outcome classes observed by the harness: asn1.SyntaxError, asn1.StructuralError, any other
   error value (errors.New / fmt.Errorf / time.ParseError), a panic, a hang (watchdog) *)
Inductive res (A : Type) : Type := Ok (a : A) | ErrSyntax | ErrStruct | ErrOther | Panic | Hang.
Arguments Ok {A} a.
Arguments ErrSyntax {A}.
Arguments ErrStruct {A}.
Arguments ErrOther {A}.
Arguments Panic {A}.
Arguments Hang {A}.

Definition is_ok {A} (r : res A) : bool := match r with Ok _ => true | _ => false end.

(* re-type a failure (never applied to Ok by the model; Ok maps to Panic so that a misuse shows) *)
Definition fail {A B} (r : res A) : res B :=
  match r with
  | Ok _ => Panic | ErrSyntax => ErrSyntax | ErrStruct => ErrStruct | ErrOther => ErrOther
  | Panic => Panic | Hang => Hang
  end.

Definition bind {A B} (r : res A) (f : A -> res B) : res B :=
  match r with
  | Ok a => f a
  | ErrSyntax => ErrSyntax | ErrStruct => ErrStruct | ErrOther => ErrOther | Panic => Panic | Hang => Hang
  end.
Definition rmap {A B} (f : A -> B) (r : res A) : res B := bind r (fun a => Ok (f a)).

Lemma bind_ok {A B} (r : res A) (f : A -> res B) b : bind r f = Ok b -> exists a, r = Ok a /\ f a = Ok b.
Proof. destruct r; cbn; try discriminate. eauto. Qed.
Lemma rmap_ok {A B} (f : A -> B) r b : rmap f r = Ok b -> exists a, r = Ok a /\ b = f a.
Proof. unfold rmap. intros H. apply bind_ok in H. destruct H as (a & -> & H). inversion H. eauto. Qed.

(* bytes as integers *)
Definition bz (b : byte) : Z := Z.of_N (b2n b).
Definition zb (z : Z) : byte := n2b (Z.to_N (z mod 256)).

Lemma bz_range b : 0 <= bz b < 256.
Proof. unfold bz. pose proof (b2n_lt b). lia. Qed.
Lemma bz_zb z : 0 <= z < 256 -> bz (zb z) = z.
Proof.
  intros H. unfold bz, zb. rewrite Z.mod_small by lia. rewrite b2n_n2b by lia. lia.
Qed.
Lemma zb_bz b : zb (bz b) = b.
Proof.
  unfold zb, bz. pose proof (b2n_lt b). rewrite Z.mod_small by lia. rewrite N2Z.id. apply n2b_b2n.
Qed.
Lemma bz_inj a b : bz a = bz b -> a = b.
Proof. intros H. rewrite <- (zb_bz a), <- (zb_bz b), H. reflexivity. Qed.

Definition zlen {A} (l : list A) : Z := Z.of_nat (length l).
Lemma zlen_app {A} (a b : list A) : zlen (a ++ b) = zlen a + zlen b.
Proof. unfold zlen. rewrite app_length. lia. Qed.
Lemma zlen_nonneg {A} (l : list A) : 0 <= zlen l.
Proof. unfold zlen. lia. Qed.
Lemma zlen_cons {A} (x : A) l : zlen (x :: l) = 1 + zlen l.
Proof. unfold zlen. cbn [length]. lia. Qed.
Lemma zlen_nil {A} : zlen (@nil A) = 0. Proof. reflexivity. Qed.

(* bytes[off : off+n] of the remaining data, n given as Z (callers check 0 <= n <= length) *)
Definition ztake (n : Z) (d : bytes) : bytes := firstn (Z.to_nat n) d.
Definition zdrop (n : Z) (d : bytes) : bytes := skipn (Z.to_nat n) d.
Lemma ztake_zdrop n d : ztake n d ++ zdrop n d = d.
Proof. apply firstn_skipn. Qed.
Lemma ztake_len n d : 0 <= n <= zlen d -> zlen (ztake n d) = n.
Proof. unfold ztake, zlen. intros H. rewrite firstn_length. lia. Qed.
Lemma zdrop_len n d : 0 <= n <= zlen d -> zlen (zdrop n d) = zlen d - n.
Proof. unfold zdrop, zlen. intros H. rewrite skipn_length. lia. Qed.
Lemma ztake_app_exact a b : ztake (zlen a) (a ++ b) = a.
Proof. unfold ztake, zlen. rewrite Nat2Z.id. rewrite firstn_app, Nat.sub_diag, firstn_all. cbn. apply app_nil_r. Qed.
Lemma zdrop_app_exact a b : zdrop (zlen a) (a ++ b) = b.
Proof. unfold zdrop, zlen. rewrite Nat2Z.id. rewrite skipn_app, Nat.sub_diag, skipn_all. reflexivity. Qed.

(* [a] occurs as a contiguous slice of [b] *)
Definition infix (a b : bytes) : Prop := exists p s, b = p ++ a ++ s.
Lemma infix_refl a : infix a a.
Proof. exists [], []. cbn. rewrite app_nil_r. reflexivity. Qed.
Lemma infix_trans a b c : infix a b -> infix b c -> infix a c.
Proof.
  intros (p & s & ->) (p' & s' & ->). exists (p' ++ p), (s ++ s'). repeat rewrite <- app_assoc. reflexivity.
Qed.
Lemma infix_app_l a p : infix a (p ++ a).
Proof. exists p, []. rewrite app_nil_r. reflexivity. Qed.
Lemma infix_app_r a s : infix a (a ++ s).
Proof. exists [], s. reflexivity. Qed.
Lemma infix_mid a p s : infix a (p ++ a ++ s).
Proof. exists p, s. reflexivity. Qed.
Lemma infix_ztake n d : infix (ztake n d) d.
Proof. rewrite <- (ztake_zdrop n d) at 2. apply infix_app_r. Qed.
Lemma infix_zdrop n d : infix (zdrop n d) d.
Proof. rewrite <- (ztake_zdrop n d) at 2. apply infix_app_l. Qed.

(* the bytes of [d] consumed when [rest] is what remains (bytes[initOffset:offset]) *)
Definition consumed (d rest : bytes) : bytes := firstn (length d - length rest) d.
Lemma consumed_app h rest : consumed (h ++ rest) rest = h.
Proof.
  unfold consumed. rewrite app_length. replace (length h + length rest - length rest)%nat with (length h) by lia.
  rewrite firstn_app, Nat.sub_diag, firstn_all. cbn. apply app_nil_r.
Qed.
