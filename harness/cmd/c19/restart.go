package main

// Restart histories: the life of a DATABASE rather than of one Witness value.
//
// "The successive STHs the witness holds for a log never shrink and are each a genuine extension of the
// previous one" is a sentence about the witness as its operator sees it: one database, any number of
// process starts.  Every other stream creates its Witness exactly once, on an empty database, so
// whatever witness.New does to a table that already holds rows - and whatever a Witness value keeps
// outside the table - is never seen.  Here a history is cut into epochs.  Every epoch begins with
// witness.New over the database the previous epoch left:
//
//	same-handle      a second witness.New on the same *sql.DB (what a supervisor that re-reads its
//	                 configuration does)
//	reopened-file    the database is closed and the file opened again (a process restart; file modes only)
//	second-instance  as same-handle, but the Witness value of the previous epoch stays in use next to the
//	                 new one: every operation goes to one of the two by lot (unchanged configuration only)
//
// and every epoch has its own set of configured logs, drawn from a pool of five (A, B, C, U with ordinary
// ids, K under a key string that is not base64): none, one, two, ... all of them; the same set as before
// (every third history keeps the standard set {A, B, K} throughout, every sixth a single log) or another
// one (a log added, a log dropped, a fresh draw; a log may come back later).
//
// Direct oracle, from the observed answers only:
//   - what was held for a log that is still configured is still held after the restart: GetSTH answers
//     with that very STH, cosigned;
//   - the first update a log receives after the restart - sent before or after that GetSTH, by lot - is
//     held against it as any other: a stale one, a fork, another root of the same size are refused with
//     FailedPrecondition and the held STH (the sentences of afterUpdate, with `held` carried across);
//   - a log that is not configured in this epoch is an unknown log (refused without a body; GetSTH under
//     its id does not produce a cosigned STH), whatever it held earlier;
//   - the property does not say whether the row of a log that was taken out of the configuration is kept
//     (the code keeps it; pruning it would be as defensible), so when such a log is configured again the
//     witness must hold for it either exactly what it held or nothing - and GetLogs may or may not list it
//     in between.
//
// The model (CEpochs of WitnessCase.v) threads the table through the epochs unchanged
// (WitnessModel.restart) and runs each epoch under its own configuration.

import (
	"fmt"
	"sort"
	"strings"
	"sync/atomic"
)

var restartModes = []string{"memory-1conn", "file-1conn", "file-1conn", "file-pool", "file-pool-wal"}

type restartRun struct {
	h    *harness
	w    *world
	in   *instance
	orc  *oracle
	hc   *histCase
	http bool
	ts   uint64
	byID map[string]*logT
	cur  *epochT
}

func (rr *restartRun) route(op *opT) *opT {
	if rr.in.alt != nil && rr.h.r.Intn(2) == 0 {
		op.viaAlt = true
		rr.hc.tags["restart-op:via-previous-witness-value"] = true
	}
	return op
}

func (rr *restartRun) getSTH(l *logT, why string) step {
	op := rr.route(&opT{kind: "getsth", log: l, fault: "NoFault", desc: "getsth " + l.name + why})
	s := step{op, rr.in.exec(op, rr.orc.submitted)}
	rr.hc.steps = append(rr.hc.steps, s)
	return s
}

func (rr *restartRun) getLogs() {
	op := rr.route(&opT{kind: "getlogs", fault: "NoFault", desc: "getlogs"})
	s := step{op, rr.in.exec(op, rr.orc.submitted)}
	rr.orc.onGetLogs(s)
	rr.hc.steps = append(rr.hc.steps, s)
}

// update: one update of scenario sc ("" = drawn) for log l, judged against what l holds - or, for the
// choice of the candidate only, against what it held when it was last configured.
func (rr *restartRun) update(l *logT, sc string) {
	hd := rr.orc.held[l.id]
	if hd == nil {
		hd = rr.orc.dormant[l.id]
	}
	if sc == "" {
		sc = rr.h.pickScenario()
		if hd == nil && l.configured && rr.h.r.Intn(4) > 0 { // get something held early
			sc = "advance"
		}
	}
	op := rr.h.nextUpdateOf(sc, rr.w, l, hd, &rr.ts)
	rr.h.doUpdate(rr.hc, rr.orc, rr.in, rr.route(op))
}

// plainLogs: the pool members with an ordinary id (everything but K), all of them or the configured ones.
func (rr *restartRun) plainLogs(configuredOnly bool) []*logT {
	var out []*logT
	for _, l := range rr.w.logs {
		if l.idHash != nil && (l.configured || !configuredOnly) {
			out = append(out, l)
		}
	}
	return out
}

func configKey(ls []*logT) string {
	var ns []string
	for _, l := range ls {
		if l.configured {
			ns = append(ns, l.name)
		}
	}
	return strings.Join(ns, ",")
}

// drawConfig sets `configured` on the pool: k of the four plain logs, K one time in three.
func (rr *restartRun) drawConfig() {
	r := rr.h.r
	plain := rr.plainLogs(false)
	k := []int{0, 1, 1, 1, 1, 2, 2, 2, 2, 3, 3, 4}[r.Intn(12)]
	perm := r.Perm(len(plain))
	for i, j := range perm {
		plain[j].configured = i < k
	}
	rr.w.logs[2].configured = r.Intn(3) == 0
}

// changeConfig: another configuration than the present one - a log added, a log dropped, or a fresh draw.
func (rr *restartRun) changeConfig() string {
	r := rr.h.r
	before := configKey(rr.w.logs)
	for {
		how := "redrawn"
		switch r.Intn(3) {
		case 0:
			var off []*logT
			for _, l := range rr.w.logs {
				if !l.configured {
					off = append(off, l)
				}
			}
			if len(off) > 0 {
				off[r.Intn(len(off))].configured = true
				how = "log-added"
			}
		case 1:
			var on []*logT
			for _, l := range rr.w.logs {
				if l.configured {
					on = append(on, l)
				}
			}
			if len(on) > 0 {
				on[r.Intn(len(on))].configured = false
				how = "log-dropped"
			}
		default:
			rr.drawConfig()
		}
		if configKey(rr.w.logs) != before {
			return how
		}
	}
}

func (rr *restartRun) beginEpoch(how string) {
	var cfg []*logT
	for _, l := range rr.w.logs {
		if l.configured {
			cfg = append(cfg, l)
		}
	}
	rr.cur = &epochT{how: how, cfg: cfg}
	rr.hc.epochs = append(rr.hc.epochs, rr.cur)
	rr.hc.tags[fmt.Sprintf("epoch-configured-logs:%d", len(cfg))] = true
}

func (rr *restartRun) endEpoch() {
	rr.cur.steps = rr.hc.steps
	for _, s := range rr.hc.steps {
		tagsOfStep(rr.hc.tags, s)
	}
	rr.hc.steps = nil
}

// restart: witness.New over the database as it is, with the configuration `configured` now describes.
func (rr *restartRun) restart(sameConfig bool) {
	h, in, orc, tags := rr.h, rr.in, rr.orc, rr.hc.tags
	rr.endEpoch()
	hows := []string{"same-handle", "same-handle"}
	if in.dbfile != "" {
		hows = append(hows, "reopened-file", "reopened-file")
	}
	if sameConfig {
		hows = append(hows, "second-instance")
	}
	how := hows[h.r.Intn(len(hows))]
	if in.altSrv != nil {
		in.altSrv.Close()
	}
	in.alt, in.altSrv = nil, nil
	if how == "second-instance" {
		in.alt, in.altSrv = in.w, in.srv
	} else if in.srv != nil {
		in.srv.Close()
	}
	in.srv = nil
	if how == "reopened-file" {
		in.db.Close()
		in.openDB()
	}
	nCfg, rows := 0, len(orc.held)+len(orc.dormant)
	for _, l := range rr.w.logs {
		if l.configured {
			nCfg++
		}
	}
	in.w = h.newWitness(in)
	if rr.http {
		in.srv = serve(in.w)
	}
	rr.beginEpoch(how)
	tags["restart:"+how] = true
	if sameConfig {
		tags["restart-config:unchanged"] = true
	}
	tags[fmt.Sprintf("restart-configured-logs:%d", nCfg)] = true
	switch {
	case rows == 0:
		tags["restart-over:empty-table"] = true
	case rows == 1:
		tags["restart-over:1-row"] = true
	default:
		tags["restart-over:2+-rows"] = true
	}

	// bookkeeping of the oracle: rows of logs that left the configuration go dormant ...
	var ids []string
	for id := range orc.held {
		ids = append(ids, id)
	}
	sort.Strings(ids)
	for _, id := range ids {
		if !rr.byID[id].configured {
			orc.dormant[id] = orc.held[id]
			delete(orc.held, id)
			tags["restart-log:dropped-with-a-row"] = true
		}
	}
	// ... and a log that is back is asked what it holds: what it held, or nothing
	ids = ids[:0]
	for id := range orc.dormant {
		ids = append(ids, id)
	}
	sort.Strings(ids)
	for _, id := range ids {
		l := rr.byID[id]
		if !l.configured {
			continue
		}
		was := orc.dormant[id]
		delete(orc.dormant, id)
		s := rr.getSTH(l, " (configured again)")
		switch {
		case s.obs.kind == "panic":
			orc.fail("panic or hang in GetSTH: %s", s.obs.note)
		case s.obs.class == "EOk" && s.obs.cosigned && s.obs.verified && s.obs.p.sameSigned(was.p):
			orc.held[id] = was
			tags["restart-log:back-row-kept"] = true
		case s.obs.class == "ENotFound":
			tags["restart-log:back-row-gone"] = true
		default:
			orc.fail("log %s is configured again after a restart (%s): it held (%s) when it was dropped, GetSTH now answers %s%s - neither that STH cosigned nor nothing",
				l.name, how, sthKey(was.p), s.obs.class, httpNote(s.obs))
		}
	}

	// every log that stayed configured: what it held is still held, and still held against the next candidate
	for _, l := range rr.plainLogs(true) {
		hd := orc.held[l.id]
		probe := func(sc string) {
			tags["restart-probe:"+sc] = true
			rr.update(l, sc)
		}
		ask := func() {
			s := rr.getSTH(l, " (after restart)")
			okBefore := orc.ok
			orc.onGetSTH(s)
			if okBefore && !orc.ok {
				orc.note = fmt.Sprintf("after witness.New (%s, %d logs configured: %s) over the database: %s", how, nCfg, configKey(rr.w.logs), orc.note)
			}
		}
		if hd == nil {
			if h.r.Intn(3) == 0 {
				ask()
			}
			continue
		}
		scs := []string{"stale", "stale", "fork", "same-size-other-root", "replay", "advance"}
		sc := scs[h.r.Intn(len(scs))]
		switch x := h.r.Intn(10); {
		case x < 4: // asked first
			tags["restart-first-touch:getsth"] = true
			ask()
			if h.r.Intn(2) == 0 {
				probe(sc)
			}
		case x < 8: // the candidate first (the oracle's GetSTH comes after the update)
			tags["restart-first-touch:update"] = true
			okBefore := orc.ok
			probe(sc)
			if okBefore && !orc.ok {
				orc.note = fmt.Sprintf("first update after witness.New (%s, %d logs configured: %s) over the database: %s", how, nCfg, configKey(rr.w.logs), orc.note)
			}
		default:
			tags["restart-first-touch:later"] = true
		}
	}
	if h.r.Intn(2) == 0 {
		rr.getLogs()
	}
}

func (h *harness) restartCase(i int) {
	w := h.newWorld()
	w.logs = append(w.logs, newLog("C", false, false))
	rr := &restartRun{h: h, w: w, byID: map[string]*logT{}}
	for _, l := range w.logs {
		l.pool = true
		rr.byID[l.id] = l
	}
	// the plan of the configurations, by turns: the standard set {A, B, K} unchanged at every restart (2 in
	// 6); ONE log, unchanged (1 in 6); at least two logs to begin with, then by lot (1 in 6); by lot (2 in 6)
	fixed := i%3 == 0
	switch {
	case fixed:
	case i%6 == 2:
		fixed = true
		for _, l := range w.logs {
			l.configured = false
		}
		ls := rr.plainLogs(false)
		ls[h.r.Intn(len(ls))].configured = true
	default:
		rr.drawConfig()
		if i%6 == 1 && len(rr.plainLogs(true)) < 2 {
			for _, l := range w.logs[:2] {
				l.configured = true
			}
		}
	}
	mode := restartModes[h.r.Intn(len(restartModes))]
	rr.http = h.r.Intn(4) == 0
	rr.in = h.newInstance(mode, w.logs, rr.http)
	defer rr.in.close()
	rr.orc = &oracle{w: w, in: rr.in, held: map[string]*heldT{}, dormant: map[string]*heldT{}, submitted: map[string]bool{}, ok: true, tags: map[string]bool{}, strict: h.strict}
	rr.hc = &histCase{w: w, tab: newHashTab(), mode: mode, tags: rr.orc.tags}
	tags := rr.hc.tags
	if rr.http {
		rr.hc.mode += "+http"
		tags["via:http"] = true
	} else {
		tags["via:direct"] = true
	}
	tags["db:"+mode] = true
	tags["stream:restart"] = true
	rr.ts = uint64(1000 + h.r.Intn(1000))
	rr.beginEpoch("first")

	nEpochs := 2 + h.r.Intn(3)
	for e := 0; e < nEpochs && atomic.LoadInt32(&rr.in.hung) == 0; e++ {
		if e > 0 {
			same := fixed || h.r.Intn(2) == 0
			if !same {
				tags["restart-config:"+rr.changeConfig()] = true
			}
			rr.restart(same)
		}
		nops := 3 + h.r.Intn(5)
		for k := 0; k < nops && atomic.LoadInt32(&rr.in.hung) == 0; k++ {
			switch x := h.r.Intn(16); {
			case x == 0:
				rr.getLogs()
			case x == 1:
				l := w.logs[h.r.Intn(len(w.logs))]
				if h.r.Intn(4) == 0 {
					as := w.aliasesOf(w.logs[h.r.Intn(2)])
					l = as[h.r.Intn(len(as))]
				}
				rr.orc.onGetSTH(rr.getSTH(l, ""))
			default:
				ls := rr.plainLogs(true)
				if len(ls) == 0 || h.r.Intn(5) == 0 { // any member of the pool, configured or not
					ls = rr.plainLogs(false)
				}
				rr.update(ls[h.r.Intn(len(ls))], "")
			}
		}
	}
	// at the end every configured log is asked once more, and the list
	for _, l := range rr.plainLogs(true) {
		rr.orc.onGetSTH(rr.getSTH(l, " (final)"))
	}
	rr.getLogs()
	rr.endEpoch()
	rr.hc.propOK, rr.hc.note = rr.orc.ok, rr.orc.note
	h.emitHist(rr.hc)
}

func (h *harness) restartCases(n int) {
	for i := 0; i < n && atomic.LoadInt32(&hangs) < 3; i++ {
		h.restartCase(i)
	}
}
