(* TLS-level facts the client proofs stand on: what a successful marshal / parse says about the
   shape of a value, totality of the C04 function models, and the converse of C04's
   "function model = RFC bytes" lemmas (success implies the RFC ranges). *)
From Coq Require Import String NArith ZArith List Bool Lia.
From V Require Import Base.Bytes Base.GoInt TLS.TlsModel TLS.TlsLemmas TLS.TlsRoundTripA TLS.TlsRoundTripB TLS.TlsMarshalSafe
  gen.CtTypes CT.Rfc6962Spec CT.Rfc6962Proofs CT.CtFuncs CT.CtFuncsProofs Client.ClientModel.
Import ListNotations.
Local Open Scope N_scope.

(* Inversion of [marshal t None v = Ok bs] for a concrete descriptor: always look at the
   innermost scrutinee at the head of the left-hand side, so that exactly one case split is
   live at any time (the failing branch is discharged at once). *)
Ltac head_scrut t := lazymatch t with | match ?s with _ => _ end => head_scrut s | _ => t end.
Ltac mstep H :=
  cbn in H; unfold marshal_fixed in H; cbn in H;
  lazymatch type of H with
  | ?lhs = Ok _ =>
     let c := head_scrut lhs in
     first [ is_var c; destruct c
           | lazymatch c with
             | check ?i ?n => let E := fresh "Ec" in destruct (check i n) eqn:E
             | negb (?a =? ?b) => destruct (N.eqb_spec a b)
             | (?a =? ?b)%N => destruct (N.eqb_spec a b)
             | (?a =? ?b)%nat => destruct (Nat.eqb_spec a b)
             | (?a <? ?b) => destruct (N.ltb_spec a b)
             end ]
  end; cbn in H; try discriminate H.
Ltac minv H := repeat mstep H.

Ltac chk_facts :=
  repeat match goal with
  | E : check _ _ = true |- _ => apply check_true in E; cbn [f_count f_min f_max] in E
  end.

(* ---------------- totality ---------------- *)

Lemma complete_good t data : complete t data <> Panic /\ complete t data <> Hang.
Proof.
  unfold complete. destruct (proj1 parse_total t None data) as [H1 H2].
  destruct (parse t None data) as [[v [|b r]]| | | |]; try (split; discriminate); contradiction.
Qed.

Lemma wire_wf : forallb (fun t => wf_ty t None) [gen_CertificateTimestamp; gen_TreeHeadSignature; gen_MerkleTreeLeaf] = true.
Proof. vm_compute. reflexivity. Qed.

Lemma sct_siginput_good ver ts et body ext :
  serialize_sct_siginput ver ts et body ext <> Panic /\ serialize_sct_siginput ver ts et body ext <> Hang.
Proof.
  assert (Hwf : wf_ty gen_CertificateTimestamp None = true) by (vm_compute; reflexivity).
  unfold serialize_sct_siginput.
  destruct (negb (ver =? gen_V1)); [split; discriminate|].
  destruct (et =? gen_X509LogEntryType); [apply (proj1 marshal_safe _ _ _ Hwf)|].
  destruct (et =? gen_PrecertLogEntryType); [apply (proj1 marshal_safe _ _ _ Hwf)|split; discriminate].
Qed.

Lemma sth_siginput_good ver ts size root :
  serialize_sth_siginput ver ts size root <> Panic /\ serialize_sth_siginput ver ts size root <> Hang.
Proof.
  assert (Hwf : wf_ty gen_TreeHeadSignature None = true) by (vm_compute; reflexivity).
  unfold serialize_sth_siginput.
  destruct (negb (ver =? gen_V1)); [split; discriminate|].
  destruct (negb (Nat.eqb (length root) 32)); [split; discriminate|].
  apply (proj1 marshal_safe _ _ _ Hwf).
Qed.

Lemma to_sth_good size ts root sig : to_sth size ts root sig <> Panic /\ to_sth size ts root sig <> Hang.
Proof.
  unfold to_sth. destruct (negb (Nat.eqb (length root) 32)); [split; discriminate|].
  destruct (complete_good gen_DigitallySigned sig) as [H1 H2].
  destruct (complete gen_DigitallySigned sig); try (split; discriminate); contradiction.
Qed.

(* ---------------- shapes ---------------- *)

(* a MerkleTreeLeaf that marshals: v1-style nesting, and the variant named by the entry type is there *)
Definition leaf_shaped (leaf : val) : Prop :=
  exists ver lt ts et ox op oj ext,
    leaf = VStruct [Some (VInt ver); Some (VInt lt); Some (VStruct [Some (VInt ts); Some (VInt et); ox; op; oj; Some (VBytes ext)])]
    /\ (et = 0 -> exists c, ox = Some (VStruct [Some (VBytes c)]))
    /\ (et = 1 -> exists h t, op = Some (VStruct [Some (VBytes h); Some (VBytes t)])).

Lemma leaf_shape leaf bs : marshal gen_MerkleTreeLeaf None leaf = Ok bs -> leaf_shaped leaf.
Proof.
  intros H. change gen_MerkleTreeLeaf with rfc_MerkleTreeLeaf in H.
  minv H; unfold leaf_shaped; do 8 eexists; (split; [reflexivity|]); split; intros; subst; try lia; try discriminate; eauto.
Qed.

Lemma chain_shape cc bs : marshal gen_CertificateChain None cc = Ok bs -> exists l rest, cc = VStruct (Some (VList l) :: rest).
Proof. intros H. minv H. eauto. Qed.

Lemma precert_chain_shape pc bs : marshal gen_PrecertChainEntry None pc = Ok bs ->
  exists c l rest, pc = VStruct (Some c :: Some (VList l) :: rest).
Proof. intros H. minv H. eauto. Qed.

Lemma complete_marshal t data v : complete t data = Ok v -> marshal t None v = Ok data.
Proof.
  intros H. apply complete_no_trailing in H.
  destruct (proj1 roundtripB _ _ _ _ _ H) as (bs & Hm & Hd & _). rewrite app_nil_r in Hd. subst. exact Hm.
Qed.

(* ---------------- the entry decoder ---------------- *)

Lemma raw_entry_good li x : raw_log_entry_from_leaf li x <> Panic /\ raw_log_entry_from_leaf li x <> Hang.
Proof.
  unfold raw_log_entry_from_leaf.
  destruct (complete_good gen_MerkleTreeLeaf li) as [G1 G2].
  destruct (complete gen_MerkleTreeLeaf li) as [leaf| | | |] eqn:El; try (split; discriminate); try contradiction.
  apply complete_marshal in El. apply leaf_shape in El.
  destruct El as (ver & lt & ts & et & ox & op & oj & ext & -> & Hx & Hp).
  cbn [field nth_error].
  destruct (N.eqb_spec et gen_X509LogEntryType) as [E0|N0].
  - destruct (Hx E0) as (c & ->).
    destruct (complete_good gen_CertificateChain x) as [C1 C2].
    destruct (complete gen_CertificateChain x) as [cc| | | |] eqn:Ec; try (split; discriminate); try contradiction.
    apply complete_marshal in Ec. apply chain_shape in Ec. destruct Ec as (l & rest & ->).
    cbn. split; discriminate.
  - destruct (N.eqb_spec et gen_PrecertLogEntryType) as [E1|N1]; [|split; discriminate].
    destruct (complete_good gen_PrecertChainEntry x) as [C1 C2].
    destruct (complete gen_PrecertChainEntry x) as [pc| | | |] eqn:Ec; try (split; discriminate); try contradiction.
    apply complete_marshal in Ec. apply precert_chain_shape in Ec. destruct Ec as (c & l & rest & ->).
    cbn. split; discriminate.
Qed.

(* what an Ok entry says: leaf_input and extra_data are EXACTLY the encodings of what is
   returned (nothing skipped, nothing trailing), and the certificate is the one the entry
   type designates *)
Definition entry_consistent (li x : bytes) (leaf cert chain : val) : Prop :=
  marshal gen_MerkleTreeLeaf None leaf = Ok li /\
  exists ver lt ts et ox op oj ext,
    leaf = VStruct [Some (VInt ver); Some (VInt lt); Some (VStruct [Some (VInt ts); Some (VInt et); ox; op; oj; Some (VBytes ext)])] /\
    ((et = gen_X509LogEntryType /\ ox = Some cert /\
      exists cc, marshal gen_CertificateChain None cc = Ok x /\ field 0 cc = Some chain)
     \/
     (et = gen_PrecertLogEntryType /\ (exists h t, op = Some (VStruct [Some (VBytes h); Some (VBytes t)])) /\
      exists pc, marshal gen_PrecertChainEntry None pc = Ok x /\ field 0 pc = Some cert /\ field 1 pc = Some chain)).

Lemma raw_entry_consistent li x leaf cert chain :
  raw_log_entry_from_leaf li x = Ok (leaf, cert, chain) -> entry_consistent li x leaf cert chain.
Proof.
  unfold raw_log_entry_from_leaf, entry_consistent.
  destruct (complete gen_MerkleTreeLeaf li) as [lf| | | |] eqn:El; try discriminate.
  apply complete_marshal in El. pose proof (leaf_shape _ _ El) as Hs.
  destruct Hs as (ver & lt & ts & et & ox & op & oj & ext & -> & Hx & Hp).
  cbn [field nth_error].
  destruct (N.eqb_spec et gen_X509LogEntryType) as [E0|N0].
  - destruct (Hx E0) as (c & ->).
    destruct (complete gen_CertificateChain x) as [cc| | | |] eqn:Ec; try discriminate.
    apply complete_marshal in Ec. destruct (field 0 cc) as [ch|] eqn:Ef; [|discriminate].
    intros H; inversion H; subst. split; [exact El|].
    do 8 eexists. split; [reflexivity|]. left. split; [reflexivity|]. split; [reflexivity|]. exists cc. auto.
  - destruct (N.eqb_spec et gen_PrecertLogEntryType) as [E1|N1]; [|discriminate].
    destruct (complete gen_PrecertChainEntry x) as [pc| | | |] eqn:Ec; try discriminate.
    apply complete_marshal in Ec. destruct (Hp E1) as (h & t & ->).
    destruct (field 0 pc) as [c|] eqn:E0; [|discriminate]. destruct (field 1 pc) as [ch|] eqn:E1'; [|discriminate].
    intros H; inversion H; subst. split; [exact El|].
    do 8 eexists. split; [reflexivity|]. right. split; [reflexivity|]. split; [eauto|]. exists pc. auto.
Qed.

(* ---------------- signature inputs: success implies the RFC ranges and the RFC bytes ---------------- *)

Lemma sct_siginput_ranges ver ts e ext msg :
  serialize_sct_siginput ver ts (entry_type e) (entry_body e) ext = Ok msg -> entry_ok e /\ ext_ok ext.
Proof.
  intros H. destruct (sct_siginput_known _ _ _ _ _ _ H) as [-> _].
  unfold serialize_sct_siginput in H. change gen_CertificateTimestamp with rfc_CertificateTimestamp in H.
  destruct e as [c|h t]; cbn [entry_type entry_body] in H; minv H; chk_facts;
    unfold entry_ok, ext_ok, len; repeat split; try lia; try assumption.
Qed.

Lemma sct_siginput_rfc ver ts e ext msg :
  ts_ok ts -> serialize_sct_siginput ver ts (entry_type e) (entry_body e) ext = Ok msg ->
  ver = 0 /\ entry_ok e /\ ext_ok ext /\ msg = enc_sct_siginput ts e ext.
Proof.
  intros Hts H. destruct (sct_siginput_known _ _ _ _ _ _ H) as [Hv _].
  destruct (sct_siginput_ranges _ _ _ _ _ H) as [He Hx]. subst ver.
  pose proof (sct_siginput_is_rfc ts e ext Hts He Hx) as R.
  assert (Eb : entry_body e = match e with X509E c => VStruct [Some (VBytes c)] | PrecertE h t => VStruct [Some (VBytes h); Some (VBytes t)] end)
    by (destruct e; reflexivity).
  rewrite Eb in H. rewrite R in H. inversion H. repeat split; auto.
Qed.

Lemma sth_siginput_rfc ts size root msg :
  ts_ok ts -> ts_ok size -> serialize_sth_siginput 0 ts size root = Ok msg ->
  length root = 32%nat /\ msg = enc_sth_siginput ts size root.
Proof.
  intros Hts Hsz H. destruct (sth_siginput_known _ _ _ _ _ H) as [_ Hl].
  pose proof (sth_siginput_is_rfc ts size root Hts Hsz Hl) as R. change gen_V1 with 0 in R.
  rewrite R in H. inversion H. auto.
Qed.
