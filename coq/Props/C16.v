(* C16 - a scan delivers every entry of its range exactly once.
   Property theorems only.  The model (Scanner/FetchModel.v) is a transition system whose
   labels are the atomic steps of the range generator, the N fetch workers, Stop and
   cancellation; [run cfg (init cfg end0) tr = Some s] quantifies over EVERY label sequence,
   i.e. every interleaving, every short-read / transient-error pattern ([LResp w RErr] repeats
   the same request), every sequence of adopted tree sizes ([LAccept n], any n > current end).
   [sized]: the log answers with between 1 and the number of entries asked for.
   [honest lg]: ... and with the entries lg holds at the requested indices.
   batch_end / gen_wait / prepare_reset / go_min / sth_retry are GENERATED from
   scanner/fetcher.go on every run (gen/Fetcher.v); the model is that of the code with
   pending_fixes/C16-1 and C16-2 applied (the_code = Fixed); Findings/C16Prefix.v holds the
   refutations for the code before the fixes. *)
From Coq Require Import ZArith Bool List Permutation Lia.
From V Require Import Base.GoInt gen.Fetcher Scanner.FetchLib Scanner.FetchModel Scanner.FetchArith
  Scanner.FetchWorker Scanner.FetchProofs Scanner.FetchBytes Scanner.ScanProofs Scanner.FetchTheorems
  Scanner.ConsumeModel Scanner.ConsumeProofs Findings.C16Prefix.
Import ListNotations.
Open Scope Z_scope.

(* T1: what the source says is what the model uses *)
Theorem source_matches_model : forall a b,
  gen_wait a b = wait_cond the_code a b /\ go_min a b = Z.min a b
  /\ (forall batch, 0 <= a <= max_i64 -> 0 <= b <= max_i64 -> 1 <= batch <= max_i64 ->
        batch_end a b batch = a + Z.min (b - a) batch)
  /\ (forall n last target quick, sth_retry n last target quick = false <-> n > last /\ (quick = true -> n >= target)).
Proof.
  exact (fun a b => conj (gen_wait_is_model a b) (conj (go_min_spec a b)
           (conj (fun batch => batch_end_spec a b batch) sth_accept_iff))).
Qed.
Print Assumptions source_matches_model.

(* the ranges tile [start, end) exactly and in order; none is empty, none exceeds the batch
   size, all but the last are full *)
Theorem ranges_partition : forall s e b,
  0 <= s -> e <= max_i64 -> 1 <= b <= max_i64 ->
  let rs := gen_ranges s e b in
  concat (map (fun r => zrange (fst r) (snd r + 1)) rs) = zrange s e
  /\ Forall (range_ok b) rs
  /\ chained s rs
  /\ last_end s rs = Z.max s e
  /\ Forall (range_full b) (removelast rs).
Proof. exact ranges_partition_lemma. Qed.
Print Assumptions ranges_partition.

(* whatever the short-read / error pattern, a worker that finishes [a, b] has delivered
   a, a+1, ..., b once each, in order, each with the entry the log returned for that index *)
Theorem worker_delivers_range : forall (entry : Type) (lg : Z -> entry) (rs : list (resp entry)) a b,
  a <= b + 1 -> answers_sized a b rs -> answers_honest lg a b rs ->
  fst (worker_loop a b rs) > b ->
  flatten (snd (worker_loop a b rs)) = map (fun i => (i, lg i)) (zrange a (b + 1)).
Proof. exact (@worker_delivers_range_lemma). Qed.
Print Assumptions worker_delivers_range.

Theorem worker_delivers_indices_in_order : forall (entry : Type) (rs : list (resp entry)) a b,
  a <= b + 1 -> answers_sized a b rs -> fst (worker_loop a b rs) > b ->
  map fst (flatten (snd (worker_loop a b rs))) = zrange a (b + 1)
  /\ map snd (flatten (snd (worker_loop a b rs))) = consumed a b rs.
Proof. exact (@worker_indices_lemma). Qed.
Print Assumptions worker_delivers_indices_in_order.

(* Run returned, neither stopped nor cancelled: the delivered indices are exactly the range -
   for every interleaving, batch size, worker count, short-read and error pattern *)
Theorem exactly_once_any_schedule : forall (entry : Type) cfg end0 (tr : list (label entry)) (s : state entry),
  cfg_ok cfg end0 ->
  run cfg (init cfg end0) tr = Some s -> conforms sized cfg (init cfg end0) tr ->
  terminal s = true -> stopped s = false ->
  Permutation (map fst (delivered s)) (zrange (c_start cfg) end0).
Proof. exact (@exactly_once_lemma'). Qed.
Print Assumptions exactly_once_any_schedule.

(* every successful answer reaches the callback exactly once, under the start index it was
   requested for; with an honest log the delivered (index, entry) pairs are exactly the log's *)
Theorem bytes_are_those_returned : forall (entry : Type) (lg : Z -> entry) cfg end0 (tr : list (label entry)) (s : state entry),
  cfg_ok cfg end0 ->
  run cfg (init cfg end0) tr = Some s -> conforms (honest lg) cfg (init cfg end0) tr ->
  terminal s = true ->
  Permutation (batches s) (answers s)
  /\ Forall (fun ie => snd ie = lg (fst ie)) (delivered s)
  /\ (stopped s = false -> Permutation (delivered s) (map (fun i => (i, lg i)) (zrange (c_start cfg) end0))).
Proof. exact (@bytes_lemma). Qed.
Print Assumptions bytes_are_those_returned.

(* non-continuous mode: at most 4*|range| + 1 + N steps that are not transient errors or
   Stop/cancel can ever happen, and as long as Run has not returned one is enabled: every
   execution with finitely many transient errors terminates (and then exactly_once applies) *)
Theorem terminates_when_exhausted : forall (entry : Type) (lg : Z -> entry) cfg end0 (tr : list (label entry)) (s : state entry),
  cfg_ok cfg end0 -> c_cont cfg = false ->
  run cfg (init cfg end0) tr = Some s -> conforms sized cfg (init cfg end0) tr ->
  count_productive tr <= 4 * Z.max 0 (end0 - c_start cfg) + 1 + Z.of_nat (c_workers cfg)
  /\ (terminal s = false -> exists l s', productive l = true /\ sized s l /\ step cfg s l = Some s').
Proof. exact (@terminates_lemma). Qed.
Print Assumptions terminates_when_exhausted.

(* Stop (any mode, continuous included): the generator can return at once; once it has, a
   bounded number of productive steps remain and one is always enabled; and when Run returns
   without cancellation exactly the prefix [StartIndex, cursor) has been delivered *)
Theorem stop_stops : forall (entry : Type) (lg : Z -> entry) cfg end0 (tr : list (label entry)) (s : state entry),
  cfg_ok cfg end0 -> run cfg (init cfg end0) tr = Some s -> conforms sized cfg (init cfg end0) tr ->
  (stopped s = true -> g_alive s = true -> exists s', step cfg s LGenExit = Some s')
  /\ (g_alive s = false -> forall tr' s', run cfg s tr' = Some s' -> conforms sized cfg s tr' ->
        count_productive tr' <= measure s
        /\ (terminal s' = false -> exists l s'', productive l = true /\ sized s' l /\ step cfg s' l = Some s''))
  /\ (terminal s = true -> cancelled s = false ->
        Permutation (map fst (delivered s)) (zrange (c_start cfg) (g_cur s))
        /\ (g_cur s <= g_end s \/ g_cur s = c_start cfg)).
Proof. exact (@stop_lemma). Qed.
Print Assumptions stop_stops.

(* at EVERY moment of EVERY execution (continuous or not, any growth history, stopped or
   cancelled or neither): nothing delivered twice, nothing owed twice, nothing outside
   [StartIndex, cursor); without cancellation delivered + owed = [StartIndex, cursor) exactly
   (no gaps); the cursor never exceeds the adopted tree size *)
Theorem continuous_no_gaps_no_repeats : forall (entry : Type) cfg end0 (tr : list (label entry)) (s : state entry),
  cfg_ok cfg end0 -> run cfg (init cfg end0) tr = Some s -> conforms sized cfg (init cfg end0) tr ->
  NoDup (map fst (delivered s) ++ flat_map pend (ws s))
  /\ (forall i, In i (map fst (delivered s)) -> c_start cfg <= i < g_cur s)
  /\ (cancelled s = false ->
      Permutation (map fst (delivered s) ++ flat_map pend (ws s)) (zrange (c_start cfg) (g_cur s)))
  /\ (g_cur s <= g_end s \/ g_cur s = c_start cfg)
  /\ (terminal s = true -> cancelled s = false ->
      Permutation (map fst (delivered s)) (zrange (c_start cfg) (g_cur s))).
Proof. exact (@always_lemma'). Qed.
Print Assumptions continuous_no_gaps_no_repeats.

(* ... and it carries on: a waiting generator can adopt any bigger announced tree, and then
   hands the next range [cursor, ...] to any idle worker *)
Theorem continuous_carries_on : forall (entry : Type) cfg end0 (tr : list (label entry)) (s : state entry),
  cfg_ok cfg end0 -> run cfg (init cfg end0) tr = Some s -> conforms sized cfg (init cfg end0) tr ->
  (g_alive s = true -> c_cont cfg = true -> g_end s <= g_cur s ->
     forall n, n > g_end s -> exists s', step cfg s (LAccept n) = Some s' /\ g_end s' = n /\ g_cur s' = g_cur s)
  /\ (g_alive s = true -> g_cur s < g_end s ->
     forall w, nth_error (ws s) w = Some WIdle ->
       exists s', step cfg s (LTake w) = Some s' /\ g_cur s < g_cur s' <= g_end s
                  /\ nth_error (ws s') w = Some (WBusy (g_cur s) (g_cur s' - 1))).
Proof. exact (@continuous_lemma). Qed.
Print Assumptions continuous_carries_on.

(* the scanner: when Scan returns, the certificate / precertificate callbacks are exactly
   the entries processEntry selects among the delivered ones, one callback each, of the
   right kind; every delivered entry was processed once; without Stop/cancel that is every
   selected entry of the range *)
Theorem callback_once_per_selected_entry :
  forall (entry : Type) (classify : entry -> eclass) (matches : entry -> bool) (lg : Z -> entry)
         cfg mk po end0 (tr : list (slabel entry)) (s : sstate entry),
  cfg_ok cfg end0 ->
  srun classify matches cfg mk po (sinit cfg end0) tr = Some s ->
  conforms (honest lg) cfg (init cfg end0) (fetch_labels tr) ->
  sterminal s = true ->
  Permutation (found s) (flat_map (found_of classify matches (c_svariant cfg) mk po) (delivered (fs s)))
  /\ processed s = Z.of_nat (length (delivered (fs s)))
  /\ (stopped (fs s) = false ->
      Permutation (found s)
        (flat_map (found_of classify matches (c_svariant cfg) mk po)
                  (map (fun i => (i, lg i)) (zrange (c_start cfg) end0)))
      /\ processed s = Z.max 0 (end0 - c_start cfg)).
Proof. exact (@scan_lemma). Qed.
Print Assumptions callback_once_per_selected_entry.

(* the consumers that turn the callback into "delivered" (migrillian Controller.Run / fetchTail,
   Scanner/ConsumeModel.v; tied to the code by replay of whole runs, pass by pass): whatever the
   passes were - store failures, cancellations, restarts, a destination that integrates late -
   every index of the range the controller has reported as transferred, and in continuous mode
   every index below the position it carries on from, was held by the destination beforehand or
   was stored by one of the passes: no success, and no carrying on, past a gap *)
Theorem consumer_reports_no_gap : forall c dest0 ps st,
  mig_run c (mig_init dest0) ps = Some st ->
  forall i, (fst (s_claim st) <= i < snd (s_claim st) \/ (m_cont c = true /\ 0 <= i < s_begin st)) ->
  0 <= i < dest0 \/ exists p, In p ps /\ In i (p_stored p).
Proof. exact consumer_no_gap_lemma. Qed.
Print Assumptions consumer_reports_no_gap.

(* a pass that had something to fetch and met a consumer-side failure (a store that is not
   retried, a nil reply, an entry that does not convert) or the caller's cancellation claims
   nothing and is never a success; if the controller goes on at all (RunWhenMaster restarts)
   it starts again from the destination's tree size *)
Theorem consumer_failure_is_reported : forall c st p st' n,
  mig_pass c st p = Some st' -> p_root p = true -> p_sth p = Some n -> n > s_begin st ->
  p_fault p || p_cancel p = true ->
  s_claim st' = s_claim st /\ s_ret st' <> Some true /\ (s_ret st' = None -> s_begin st' = 0).
Proof. exact failure_is_reported_lemma. Qed.
Print Assumptions consumer_failure_is_reported.

(* the code before the fixes violates the property (witnesses in Findings/C16Prefix.v) *)
Theorem continuous_start_beyond_tree_original_code_refuted :
  exists (cfg : config) (end0 : Z) (tr : list (label Z)) (s : state Z),
    c_variant cfg = Orig /\ c_cont cfg = true /\ 0 <= end0 < c_start cfg
    /\ run cfg (init cfg end0) tr = Some s
    /\ conforms honest_id cfg (init cfg end0) tr
    /\ exists i, In i (map fst (delivered s)) /\ i < c_start cfg.
Proof. exact continuous_start_beyond_tree_refuted. Qed.
Print Assumptions continuous_start_beyond_tree_original_code_refuted.

Theorem nil_matcher_original_code_refuted :
  exists s, srun (fun _ => CX509 true) (fun _ => true) (cfg2 Orig) MNil false (sinit (cfg2 Orig) 1) strace2 = Some s
    /\ sterminal s = true /\ found s = [] /\ map fst (delivered (fs s)) = [0].
Proof. exact nil_matcher_scan_refuted. Qed.
Print Assumptions nil_matcher_original_code_refuted.

(* ------------------------------------------------------------------ non-vacuity *)

(* two workers, batch 3, range [2, 10): interleaved, with a short read and transient errors *)
Definition ex_cfg : config := {| c_variant := the_code; c_svariant := the_scanner_code; c_batch := 3; c_workers := 2; c_start := 2; c_cont := false |}.
Definition ex_trace : list (label Z) :=
  [LTake 0; LTake 1; LResp 1 RErr; LResp 0 (ROk [2]); LResp 1 (ROk [5; 6; 7]); LCallback 1; LCallback 0;
   LTake 1; LResp 0 (ROk [3; 4]); LCallback 0; LResp 1 (ROk [8]); LCallback 1; LResp 1 RErr;
   LResp 1 (ROk [9]); LCallback 1; LGenExit; LWExit 0; LWExit 1].

Example hypotheses_satisfiable :
  cfg_ok ex_cfg 10
  /\ conforms (honest (fun i => i)) ex_cfg (init ex_cfg 10) ex_trace
  /\ option_map (fun s => (terminal s, stopped s, map fst (delivered s))) (run ex_cfg (init ex_cfg 10) ex_trace)
     = Some (true, false, [5; 6; 7; 2; 3; 4; 8; 9])
  /\ gen_ranges 2 10 3 = [(2, 4); (5, 7); (8, 9)].
Proof.
  split; [unfold cfg_ok; cbn; repeat split; first [lia | vm_compute; intro; discriminate | left; reflexivity]|].
  split; [vm_compute; repeat split; try (intro; discriminate)|].
  split; vm_compute; reflexivity.
Qed.

(* continuous mode with StartIndex beyond the tree, patched code: waits, then delivers from StartIndex *)
Example continuous_start_beyond_tree_now :
  option_map (fun s => map fst (delivered s))
    (run (cfg1 the_code) (init (cfg1 the_code) 50)
         [LAccept 70; LAccept 120; LTake 0; LResp 0 (ROk (zseq 100 10)); LCallback 0])
  = Some (zseq 100 10).
Proof. vm_compute. reflexivity. Qed.

(* a continuous migration: a store failure in the first pass (3 is never stored), the restart
   fetches from the destination's size again, then the log grows *)
Example consumer_hypotheses_satisfiable :
  let c := {| m_start := 0; m_end := 0; m_cont := true; m_restarts := true |} in
  option_map (fun st => (s_begin st, s_claim st, s_ret st))
    (mig_run c (mig_init 0)
       [MkPass 0 true (Some 6) [(0, 1); (2, 3); (4, 5)] [0; 1; 4; 5] true false;
        MkPass 2 true (Some 6) [(2, 3); (4, 5)] [2; 3; 4; 5] false false;
        MkPass 6 true (Some 9) [(6, 7); (8, 8)] [6; 7; 8] false false;
        MkPass 9 false None [] [] false true])
  = Some (9, (0, 9), Some false).
Proof. vm_compute. reflexivity. Qed.
