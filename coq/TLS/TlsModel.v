(* Model of tls/tls.go (TLS presentation language codec, RFC 5246 s4), branch for branch:
   fieldTagToFieldInfo (on pre-tokenised tag clauses), byteCount and fieldInfo.check (both
   GENERATED from the Go source, gen/Tls.v), readVarUint, parseField, marshalField.
   Definitions only; proofs are in TlsLemmas.v, TlsRoundTripA.v, TlsRoundTripB.v, TlsMarshalSafe.v. *)
From Coq Require Import Ascii String NArith ZArith List Bool Lia.
From V Require Import Base.GoInt Base.Bytes gen.Tls.
Import ListNotations.
Local Open Scope N_scope.

Inductive res (A : Type) : Type := Ok (a : A) | ErrSyntax | ErrStruct | Panic | Hang.
Arguments Ok {A} a.
Arguments ErrSyntax {A}.
Arguments ErrStruct {A}.
Arguments Panic {A}.
Arguments Hang {A}.

(* ---------------- tags ---------------- *)

(* one clause of a `tls:"..."` tag, after strings.Split / HasPrefix / ParseUint (clauses whose
   number does not parse are dropped by the Go code and by the harness tokenizer alike) *)
Inductive clause :=
| CMaxval (n : N) | CSize (n : N) | CMaxlen (n : N) | CMinlen (n : N) | CSelector (s : string) | CVal (n : N).

Record finfo := { f_count : N; f_set : bool; f_min : N; f_max : N; f_sel : string; f_val : N }.
Definition finfo0 : finfo := {| f_count := 0; f_set := false; f_min := 0; f_max := 0; f_sel := ""; f_val := 0 |}.

Definition byte_count (x : N) : N := Z.to_N (byte_count_gen (Z.of_N x)).

Definition apply_clause (c : clause) (info : option finfo) : option finfo :=
  let cur := match info with Some i => i | None => finfo0 end in
  Some match c with
       | CMaxval v => {| f_count := byte_count v; f_set := true; f_min := 0; f_max := 0; f_sel := ""; f_val := 0 |}
       | CSize v => {| f_count := v; f_set := true; f_min := 0; f_max := 0; f_sel := ""; f_val := 0 |}
       | CMaxlen v => {| f_count := byte_count v; f_set := true; f_min := f_min cur; f_max := v; f_sel := f_sel cur; f_val := f_val cur |}
       | CMinlen v => {| f_count := f_count cur; f_set := f_set cur; f_min := v; f_max := f_max cur; f_sel := f_sel cur; f_val := f_val cur |}
       | CSelector s => {| f_count := f_count cur; f_set := f_set cur; f_min := f_min cur; f_max := f_max cur; f_sel := s; f_val := f_val cur |}
       | CVal v => {| f_count := f_count cur; f_set := f_set cur; f_min := f_min cur; f_max := f_max cur; f_sel := f_sel cur; f_val := v |}
       end.

Definition apply_clauses (cs : list clause) : option finfo := fold_left (fun i c => apply_clause c i) cs None.

Definition str_empty (s : string) : bool := match s with EmptyString => true | _ => false end.

(* fieldTagToFieldInfo: [named] says whether a field name was supplied *)
Definition tag_info (cs : list clause) (named : bool) : res (option finfo) :=
  match apply_clauses cs with
  | Some i =>
      if str_empty (f_sel i) then
        if f_count i <? 1 then ErrStruct
        else if 8 <? f_count i then ErrStruct
        else if f_max i <? f_min i then ErrStruct
        else if 0 <? f_val i then ErrStruct
        else Ok (Some i)
      else Ok (Some i)
  | None => Ok (if named then Some finfo0 else None)
  end.

(* fieldInfo.check, through the generated definition *)
Definition check (i : finfo) (v : N) : bool :=
  match check_gen (Z.of_N (f_count i)) (Z.of_N (f_min i)) (Z.of_N (f_max i)) (Z.of_N v) with
  | Some _ => true
  | None => false
  end.

(* ---------------- types and values ---------------- *)

Inductive ty :=
| TU8 | TU16 | TU24 | TU32 | TU64
| TEnum                  (* tls.Enum, or any other type of kind uint64 *)
| TArr (n : N)           (* [n]byte *)
| TBytes                 (* []byte *)
| TVec (e : ty)          (* []T, T not byte *)
| TStruct (fs : fields)
with fields :=
| FNil
| FCons (name : string) (tag : list clause) (ptr : bool) (t : ty) (rest : fields).
   (* ptr: the Go field has type *T (a select() variant); t is then the pointee type *)

Inductive val :=
| VInt (n : N)
| VBytes (b : bytes)
| VList (l : list val)
| VStruct (l : list (option val)).   (* one entry per field; None = nil pointer *)

Definition is_u64kind (t : ty) : bool := match t with TU64 | TEnum => true | _ => false end.
Definition int_of (v : val) : N := match v with VInt n => n | _ => 0 end.

(* association lists for the `enums` and `selectorSeen` maps *)
Fixpoint lookup {A} (k : string) (l : list (string * A)) : option A :=
  match l with
  | [] => None
  | (k', a) :: r => if String.eqb k k' then Some a else lookup k r
  end.
Fixpoint set {A} (k : string) (a : A) (l : list (string * A)) : list (string * A) :=
  match l with
  | [] => [(k, a)]
  | (k', a') :: r => if String.eqb k k' then (k, a) :: r else (k', a') :: set k a r
  end.

Definition take (n : nat) (data : bytes) : option (bytes * bytes) :=
  if (length data <? n)%nat then None else Some (firstn n data, skipn n data).

(* ---------------- parsing ---------------- *)

Definition read_var_uint (info : option finfo) (data : bytes) : res (N * bytes) :=
  match info with
  | None => ErrStruct
  | Some i =>
      if negb (f_set i) then ErrStruct
      else if N.of_nat (length data) <? f_count i then ErrSyntax
      else let c := N.to_nat (f_count i) in
           let n := be_dec (firstn c data) in
           if check i n then Ok (n, skipn c data) else ErrStruct
  end.

Definition parse_fixed (w : nat) (data : bytes) : res (val * bytes) :=
  match take w data with
  | None => ErrSyntax
  | Some (h, r) => Ok (VInt (be_dec h), r)
  end.

(* the element loop of a general vector: parse elements until the inner data is used up;
   an element that consumes nothing is an error (fuel = length of the inner data suffices) *)
Fixpoint vec_loop (pe : bytes -> res (val * bytes)) (fuel : nat) (inner : bytes) (acc : list val)
  {struct fuel} : res (list val) :=
  match inner with
  | [] => Ok (rev acc)
  | _ :: _ =>
      match fuel with
      | O => Hang
      | S fuel' =>
          match pe inner with
          | Ok (v, inner') =>
              if (length inner' =? length inner)%nat then ErrStruct   (* zero-length element *)
              else vec_loop pe fuel' inner' (v :: acc)
          | ErrSyntax => ErrSyntax | ErrStruct => ErrStruct | Panic => Panic | Hang => Hang
          end
      end
  end.

Fixpoint parse (t : ty) (info : option finfo) (data : bytes) {struct t} : res (val * bytes) :=
  match t with
  | TU8 => parse_fixed 1 data
  | TU16 => parse_fixed 2 data
  | TU24 => parse_fixed 3 data
  | TU32 => parse_fixed 4 data
  | TU64 => parse_fixed 8 data
  | TEnum =>
      match read_var_uint info data with
      | Ok (n, r) => Ok (VInt n, r)
      | ErrSyntax => ErrSyntax | ErrStruct => ErrStruct | Panic => Panic | Hang => Hang
      end
  | TArr n =>
      match take (N.to_nat n) data with
      | None => ErrSyntax
      | Some (h, r) => Ok (VBytes h, r)
      end
  | TBytes =>
      match read_var_uint info data with
      | Ok (n, r) =>
          if N.of_nat (length r) <? n then ErrSyntax
          else Ok (VBytes (firstn (N.to_nat n) r), skipn (N.to_nat n) r)
      | ErrSyntax => ErrSyntax | ErrStruct => ErrStruct | Panic => Panic | Hang => Hang
      end
  | TVec e =>
      match read_var_uint info data with
      | Ok (n, r) =>
          if N.of_nat (length r) <? n then ErrSyntax
          else
            let inner := firstn (N.to_nat n) r in
            match vec_loop (parse e None) (length inner) inner [] with
            | Ok vs => Ok (VList vs, skipn (N.to_nat n) r)
            | ErrSyntax => ErrSyntax | ErrStruct => ErrStruct | Panic => Panic | Hang => Hang
            end
      | ErrSyntax => ErrSyntax | ErrStruct => ErrStruct | Panic => Panic | Hang => Hang
      end
  | TStruct fs => parse_fields fs [] [] data []
  end
with parse_fields (fs : fields) (enums : list (string * N)) (seen : list (string * bool))
                  (data : bytes) (acc : list (option val)) {struct fs} : res (val * bytes) :=
  match fs with
  | FNil => if forallb snd seen then Ok (VStruct (rev acc), data) else ErrSyntax
  | FCons name tag ptr t rest =>
      match tag_info tag true with
      | Ok (Some fi) =>
          if negb (str_empty (f_sel fi)) then
            match lookup (f_sel fi) enums with
            | None => ErrStruct
            | Some choice =>
                if negb ptr then ErrStruct
                else
                  let seen1 := match lookup (f_sel fi) seen with None => set (f_sel fi) false seen | Some _ => seen end in
                  if negb (choice =? f_val fi) then parse_fields rest enums seen1 data (None :: acc)
                  else
                    match lookup (f_sel fi) seen1 with
                    | Some true => ErrStruct
                    | _ =>
                        match parse t (Some fi) data with
                        | Ok (v, data') => parse_fields rest enums (set (f_sel fi) true seen1) data' (Some v :: acc)
                        | ErrSyntax => ErrSyntax | ErrStruct => ErrStruct | Panic => Panic | Hang => Hang
                        end
                    end
            end
          else if ptr then ErrStruct
          else
            match parse t (Some fi) data with
            | Ok (v, data') =>
                parse_fields rest (if is_u64kind t then set name (int_of v) enums else enums) seen data' (Some v :: acc)
            | ErrSyntax => ErrSyntax | ErrStruct => ErrStruct | Panic => Panic | Hang => Hang
            end
      | Ok None => ErrStruct
      | _ => ErrStruct
      end
  end.

(* tls.UnmarshalWithParams: top-level parameters are parsed with an empty field name *)
Definition unmarshal (t : ty) (params : list clause) (data : bytes) : res (val * bytes) :=
  match tag_info params false with
  | Ok info => parse t info data
  | _ => ErrStruct
  end.

(* ---------------- marshalling ---------------- *)

Definition low_bytes (count : N) (n : N) : bytes := be_enc (N.to_nat count) (n mod 256 ^ count).

Definition marshal_fixed (w : nat) (v : val) : res bytes :=
  match v with
  | VInt n => Ok (be_enc w (n mod 256 ^ N.of_nat w))
  | _ => ErrStruct
  end.

Fixpoint marshal_list (me : val -> res bytes) (l : list val) : res bytes :=
  match l with
  | [] => Ok []
  | x :: r => match me x with
              | Ok [] => ErrStruct                          (* zero-length element *)
              | Ok b => match marshal_list me r with Ok b' => Ok (b ++ b') | err => err end
              | ErrSyntax => ErrSyntax | ErrStruct => ErrStruct | Panic => Panic | Hang => Hang
              end
  end.

Fixpoint marshal (t : ty) (info : option finfo) (v : val) {struct t} : res bytes :=
  match t with
  | TU8 => marshal_fixed 1 v
  | TU16 => marshal_fixed 2 v
  | TU24 => match v with
            | VInt n => if 16777215 <? n then ErrStruct else Ok (be_enc 3 n)
            | _ => ErrStruct
            end
  | TU32 => marshal_fixed 4 v
  | TU64 => marshal_fixed 8 v
  | TEnum =>
      match info, v with
      | Some i, VInt n => if check i n then Ok (low_bytes (f_count i) n) else ErrStruct
      | _, _ => ErrStruct
      end
  | TArr n => match v with
              | VBytes b => if (length b =? N.to_nat n)%nat then Ok b else ErrStruct
              | _ => ErrStruct
              end
  | TBytes =>
      match info, v with
      | Some i, VBytes b =>
          if 8 <? f_count i then Panic                   (* scratch[(8 - info.count):] before the check *)
          else if check i (N.of_nat (length b)) then Ok (low_bytes (f_count i) (N.of_nat (length b)) ++ b)
          else ErrStruct
      | _, _ => ErrStruct
      end
  | TVec e =>
      match info, v with
      | Some i, VList l =>
          match marshal_list (marshal e None) l with
          | Ok inner =>
              if check i (N.of_nat (length inner)) then Ok (low_bytes (f_count i) (N.of_nat (length inner)) ++ inner)
              else ErrStruct
          | err => err
          end
      | _, _ => ErrStruct
      end
  | TStruct fs => match v with
                  | VStruct l => marshal_fields fs [] [] l
                  | _ => ErrStruct
                  end
  end
with marshal_fields (fs : fields) (enums : list (string * N)) (seen : list (string * bool))
                    (vs : list (option val)) {struct fs} : res bytes :=
  match fs with
  | FNil => match vs with
            | [] => if forallb snd seen then Ok [] else ErrSyntax
            | _ => ErrStruct
            end
  | FCons name tag ptr t rest =>
      match vs with
      | [] => ErrStruct
      | ov :: vs' =>
          match tag_info tag true with
          | Ok (Some fi) =>
              if negb (str_empty (f_sel fi)) then
                match lookup (f_sel fi) enums with
                | None => ErrStruct
                | Some choice =>
                    if negb ptr then ErrStruct
                    else
                      let seen1 := match lookup (f_sel fi) seen with None => set (f_sel fi) false seen | Some _ => seen end in
                      if negb (choice =? f_val fi) then
                        match ov with
                        | Some _ => ErrStruct                        (* unchosen field is non-nil *)
                        | None => marshal_fields rest enums seen1 vs'
                        end
                      else
                        match lookup (f_sel fi) seen1 with
                        | Some true => ErrStruct
                        | _ =>
                            match ov with
                            | None => ErrStruct                      (* chosen field is nil *)
                            | Some v =>
                                match marshal t (Some fi) v with
                                | Ok b => match marshal_fields rest enums (set (f_sel fi) true seen1) vs' with
                                          | Ok b' => Ok (b ++ b')
                                          | err => err
                                          end
                                | err => err
                                end
                            end
                        end
                end
              else if ptr then ErrStruct
              else
                match ov with
                | None => ErrStruct
                | Some v =>
                    match marshal t (Some fi) v with
                    | Ok b =>
                        match marshal_fields rest (if is_u64kind t then set name (int_of v) enums else enums) seen vs' with
                        | Ok b' => Ok (b ++ b')
                        | err => err
                        end
                    | err => err
                    end
                end
          | Ok None => ErrStruct
          | _ => ErrStruct
          end
      end
  end.

Definition marshal_top (t : ty) (params : list clause) (v : val) : res bytes :=
  match tag_info params false with
  | Ok info => marshal t info v
  | _ => ErrStruct
  end.

(* ---------------- well-typed values, supported type shapes ---------------- *)

(* Go values are bounded by their types; this is what "every value of the type" means *)
Fixpoint wt (t : ty) (v : val) {struct t} : Prop :=
  match t, v with
  | TU8, VInt n => n < 256
  | TU16, VInt n => n < 65536
  | TU24, VInt n => n < 4294967296          (* tls.Uint24 is a uint32 *)
  | TU32, VInt n => n < 4294967296
  | TU64, VInt n => n < 18446744073709551616
  | TEnum, VInt n => n < 18446744073709551616
  | TArr k, VBytes b => length b = N.to_nat k
  | TBytes, VBytes _ => True
  | TVec e, VList l => Forall (wt e) l
  | TStruct fs, VStruct l => wt_fields fs l
  | _, _ => False
  end
with wt_fields (fs : fields) (l : list (option val)) {struct fs} : Prop :=
  match fs, l with
  | FNil, [] => True
  | FCons _ _ ptr t rest, ov :: l' =>
      match ov with
      | Some v => wt t v
      | None => ptr = true
      end /\ wt_fields rest l'
  | _, _ => False
  end.

(* minimal encoded width (a lower bound, 0 for anything that may be empty) *)
Fixpoint min_width (t : ty) (info : option finfo) {struct t} : N :=
  match t with
  | TU8 => 1 | TU16 => 2 | TU24 => 3 | TU32 => 4 | TU64 => 8
  | TEnum | TBytes | TVec _ => match info with Some i => f_count i | None => 0 end
  | TArr n => n
  | TStruct fs => min_width_fields fs
  end
with min_width_fields (fs : fields) {struct fs} : N :=
  match fs with
  | FNil => 0
  | FCons _ tag ptr t rest =>
      (if ptr then 0 else match tag_info tag true with Ok info => min_width t info | _ => 0 end) + min_width_fields rest
  end.

(* the documented grammar: sizes 1..8 wherever a size is needed, variants are pointers,
   vector elements need no tag of their own and have non-zero width *)
Fixpoint wf_ty (t : ty) (info : option finfo) {struct t} : bool :=
  match t with
  | TU8 | TU16 | TU24 | TU32 | TU64 | TArr _ => true
  | TEnum | TBytes => match info with Some i => f_set i && (1 <=? f_count i) && (f_count i <=? 8) | None => false end
  | TVec e => match info with Some i => f_set i && (1 <=? f_count i) && (f_count i <=? 8) | None => false end
              && wf_ty e None && (1 <=? min_width e None)
  | TStruct fs => wf_fields fs
  end
with wf_fields (fs : fields) {struct fs} : bool :=
  match fs with
  | FNil => true
  | FCons _ tag ptr t rest =>
      match tag_info tag true with
      | Ok (Some fi) => Bool.eqb ptr (negb (str_empty (f_sel fi))) && wf_ty t (Some fi)
      | _ => false
      end && wf_fields rest
  end.

(* [sized]: every enum / vector that has field information has a size in it (a `size:`,
   `maxval:` or `maxlen:` clause).  This is the only thing the round trip needs of a type:
   the Go code marshals the value 0 of an untagged Enum field to nothing, but cannot parse it. *)
Definition info_sized (info : option finfo) : bool := match info with Some i => f_set i | None => true end.
Fixpoint sized (t : ty) (info : option finfo) {struct t} : bool :=
  match t with
  | TU8 | TU16 | TU24 | TU32 | TU64 | TArr _ => true
  | TEnum | TBytes => info_sized info
  | TVec e => info_sized info && sized e None
  | TStruct fs => sized_fields fs
  end
with sized_fields (fs : fields) {struct fs} : bool :=
  match fs with
  | FNil => true
  | FCons _ tag _ t rest =>
      match tag_info tag true with Ok info => sized t info | _ => true end && sized_fields rest
  end.

(* allocation accounting: total capacity (in elements / bytes) requested by MakeSlice calls *)
Fixpoint val_alloc (v : val) : N :=
  match v with
  | VInt _ => 0
  | VBytes b => N.of_nat (length b)
  | VList l => fold_right (fun x a => val_alloc x + a) 0 l
  | VStruct l => fold_right (fun ox a => match ox with Some x => val_alloc x | None => 0 end + a) 0 l
  end.
