(* C01: one request.  What an Issued outcome of add_chain implies, for ANY backend state whose
   stored leaves are well formed; how a request changes the backend state; no panic. *)
From Coq Require Import String NArith ZArith List Bool Lia PeanoNat.
From V Require Import Base.Bytes TLS.TlsModel TLS.TlsLemmas TLS.TlsRoundTripA TLS.TlsRoundTripB TLS.TlsMarshalSafe gen.CtTypes
  CT.Rfc6962Spec CT.Rfc6962Proofs CT.CtFuncs CT.CtFuncsProofs X509.PrecertModel X509.PrecertProofs
  CTFE.AddChainModel CTFE.AddChainSpec CTFE.AddChainCodec.
Import ListNotations.
Local Open Scope N_scope.

Section Step.
Variable H : bytes -> bytes.
Variable sign : N -> bytes -> option bytes.
Variable guard : val -> val -> bool.
Variable cfg : config.

(* the RFC-level entry the server derives (the content of leaf_from_chain) *)
Definition server_entry (s : submission) : res entry :=
  if negb (s_pre s) then Ok (X509E (s_leaf s))
  else
    match s_rest s with
    | [] => ErrStruct
    | c1 :: more =>
        let sel :=
          if pi_ct_eku (c_pi c1)
          then match more with [] => None | c2 :: _ => Some (Some (c_pi c1), c2) end
          else Some (None, c1) in
        match sel with
        | None => ErrStruct
        | Some (pre, issuer) =>
            match build_precert_tbs (s_tbs s) pre with
            | Ok tbs => Ok (PrecertE (H (c_spki issuer)) tbs)
            | ErrSyntax => ErrSyntax | ErrStruct => ErrStruct | Panic => Panic | Hang => Hang
            end
        end
    end.

Lemma leaf_from_chain_ok s ts v :
  leaf_from_chain H s ts = Ok v -> exists e, server_entry s = Ok e /\ v = embed_leaf ts e [].
Proof.
  unfold leaf_from_chain, server_entry. destruct (s_pre s); cbn [negb].
  - destruct (s_rest s) as [|c1 more]; [discriminate|].
    destruct (if pi_ct_eku (c_pi c1) then _ else _) as [[pre issuer]|]; [|discriminate].
    destruct (build_precert_tbs (s_tbs s) pre) as [tbs| | | |]; try discriminate.
    intros E; inversion E. eexists. split; reflexivity.
  - intros E; inversion E. eexists. split; reflexivity.
Qed.

Lemma leaf_from_chain_of_entry s ts e : server_entry s = Ok e -> leaf_from_chain H s ts = Ok (embed_leaf ts e []).
Proof.
  unfold leaf_from_chain, server_entry. destruct (s_pre s); cbn [negb].
  - destruct (s_rest s) as [|c1 more]; [discriminate|].
    destruct (if pi_ct_eku (c_pi c1) then _ else _) as [[pre issuer]|]; [|discriminate].
    destruct (build_precert_tbs (s_tbs s) pre) as [tbs| | | |]; try discriminate.
    intros E; inversion E. reflexivity.
  - intros E; inversion E. reflexivity.
Qed.

(* the server's entry is decided by the leaf and the issuance data of the next two certificates *)
Lemma server_entry_issuance s1 s2 :
  s_leaf s1 = s_leaf s2 -> issuance s1 = issuance s2 -> server_entry s1 = server_entry s2.
Proof.
  unfold issuance, server_entry. intros Hl Hi. inversion Hi as [[Hp Ht Hr]]. rewrite Hp, Hl, Ht.
  destruct (s_pre s2); cbn [negb]; [|reflexivity].
  destruct (s_rest s1) as [|a1 [|a2 r1]], (s_rest s2) as [|b1 [|b2 r2]]; cbn in Hr; try discriminate; try reflexivity.
  - inversion Hr as [[Hk Hq]]. rewrite Hq. destruct (pi_ct_eku (c_pi b1)); [reflexivity|]. rewrite Hk. reflexivity.
  - inversion Hr as [[Hk Hq Hk2 Hq2]]. rewrite Hq. destruct (pi_ct_eku (c_pi b1)); [rewrite Hk2|rewrite Hk]; reflexivity.
Qed.

(* the entry a client derives is the entry the server derives (C03's theorems) *)
Lemma client_entry_is_server_entry s e : client_entry H s e -> server_entry s = Ok e.
Proof.
  intros Hc. destruct Hc as [s Hp | s issuer more w Hp Hr Hnct (Hpo & Hsc & Hnp & Hns) Ht Hsame Hok1 Hok2 Hok3
                            | s pre issuer more w Hp Hr Hct (Hpo & Hsc & Hnp & Hns) Ht Hsame Hok1 Hok2 Hok3];
    unfold server_entry; rewrite Hp; cbn [negb].
  - reflexivity.
  - rewrite Hr, Hnct, Ht. unfold precert_tbs, entry_tbs_direct in *.
    rewrite (precert_route_direct (w_head w) (w_a w) (w_b w) (w_a' w) (w_b' w) (w_poison w) Hpo Hsame Hnp Hok1 Hok3).
    reflexivity.
  - rewrite Hr, Hct, Ht. unfold precert_tbs in *.
    rewrite (precert_route_preissuer (w_head w) (w_a' w) (w_b' w) (w_poison w) (c_pi pre) Hpo Hnp Hct Hok1 Hok2).
    unfold entry_tbs_pre, final_head. rewrite Hsame. reflexivity.
Qed.

(* and it is the final certificate's TBSCertificate without its SCT list (the embedded-SCT route) *)
Lemma client_entry_is_final_without_scts s e : client_entry H s e ->
  match e with
  | X509E c => c = s_leaf s
  | PrecertE _ t => exists final, remove_sct_list (enc_tbs final) = Ok t
  end.
Proof.
  intros Hc. destruct Hc as [s Hp | s issuer more w Hp Hr Hnct (Hpo & Hsc & Hnp & Hns) Ht Hsame Hok1 Hok2 Hok3
                            | s pre issuer more w Hp Hr Hct (Hpo & Hsc & Hnp & Hns) Ht Hsame Hok1 Hok2 Hok3].
  - reflexivity.
  - exists (final_tbs_direct w). exact (embedded_route (w_head w) (w_a w) (w_b w) (w_sct w) Hsc Hns Hok2).
  - exists (final_tbs_pre (c_pi pre) w).
    exact (embedded_route (final_head (c_pi pre) w) (w_a w) (w_b w) (w_sct w) Hsc Hns Hok3).
Qed.

(* the leaf built for a submission whose entry is [e] *)
Definition built_leaf (s : submission) (e : entry) : log_leaf :=
  {| l_value := enc_leaf (time_millis (s_now s)) e [];
     l_extra := enc_extra_data (s_pre s) (s_leaf s) (map c_der (s_rest s));
     l_id := H (s_leaf s) |}.

Lemma extra_data_inv s b : extra_data s = Ok b ->
  chain_in_range (map c_der (s_rest s)) /\ b = enc_extra_data (s_pre s) (s_leaf s) (map c_der (s_rest s)).
Proof.
  unfold extra_data, enc_extra_data. rewrite <- (map_map c_der asn1cert). destruct (s_pre s); intros Hm.
  - apply precert_chain_marshal_inv in Hm. tauto.
  - apply cert_chain_marshal_inv in Hm. exact Hm.
Qed.

Lemma build_log_leaf_inv s ts e leaf : ts_ok ts ->
  build_log_leaf H s (embed_leaf ts e []) = Ok leaf ->
  entry_ok e /\ chain_in_range (map c_der (s_rest s)) /\
  leaf = {| l_value := enc_leaf ts e []; l_extra := enc_extra_data (s_pre s) (s_leaf s) (map c_der (s_rest s)); l_id := H (s_leaf s) |} /\
  extra_data s = Ok (enc_extra_data (s_pre s) (s_leaf s) (map c_der (s_rest s))).
Proof.
  intros Hts. unfold build_log_leaf.
  destruct (marshal gen_MerkleTreeLeaf None (embed_leaf ts e [])) as [value| | | |] eqn:Ev; try discriminate.
  apply (leaf_marshal_inv ts e [] value Hts) in Ev. destruct Ev as (He & _ & ->).
  destruct (extra_data s) as [extra| | | |] eqn:Ex; try discriminate.
  pose proof (extra_data_inv s extra Ex) as [Hc ->]. intros E; inversion E. auto.
Qed.

(* stored / returned leaves: TLS encodings of in-range entries *)
Definition wf_leaf (l : log_leaf) : Prop :=
  exists ts e, ts_ok ts /\ entry_ok e /\ l_value l = enc_leaf ts e [].

(* what buildV1SCT reads off a returned leaf *)
Definition returned_sct (l : log_leaf) : res (N * bytes * bytes) :=
  match complete gen_MerkleTreeLeaf (l_value l) with
  | Ok v => sct_signature_input v
  | ErrSyntax => ErrSyntax | ErrStruct => ErrStruct | Panic => Panic | Hang => Hang
  end.

Lemma nil_ext_ok : Rfc6962Proofs.ext_ok [].
Proof. unfold Rfc6962Proofs.ext_ok, len. cbn. lia. Qed.

Lemma returned_sct_wf l ts e : ts_ok ts -> entry_ok e -> l_value l = enc_leaf ts e [] ->
  returned_sct l = Ok (ts, [], enc_sct_siginput ts e []).
Proof.
  intros Hts He Hv. unfold returned_sct. rewrite Hv, (leaf_decodes ts e [] Hts He nil_ext_ok).
  apply siginput_of_leaf; auto using nil_ext_ok.
Qed.

Record issued_facts (st st' : state) (s : submission) (r : issued) (e : entry) (ts0 : N) (e0 : entry) : Prop := {
  f_entry : server_entry s = Ok e;
  f_entry_ok : entry_ok e;
  f_chain_ok : chain_in_range (map c_der (s_rest s));
  f_queued : i_queued r = built_leaf s e;
  f_queue : queue_leaf (st_store st) (built_leaf s e) = (st_store st', i_returned r, i_dup r);
  f_count : st_n st' = st_n st + 1;
  f_ts0 : ts_ok ts0;
  f_e0 : entry_ok e0;
  f_returned : l_value (i_returned r) = enc_leaf ts0 e0 [];
  f_sct : returned_sct (i_returned r) = Ok (i_ts r, i_ext r, i_signed r);
  f_ts : i_ts r = ts0;
  f_ext : i_ext r = [];
  f_signed : i_signed r = enc_sct_siginput ts0 e0 [];
  f_sig : sign (st_n st) (i_signed r) = Some (i_sig r);
  f_id : i_id r = H (k_spki cfg);
  f_halg : i_hash_alg r = hash_alg_sha256;
  f_salg : i_sig_alg r = sig_alg_of (k_kind cfg);
  f_sct_bytes : i_sct_bytes r = enc_sct (i_id r) (i_ts r) (i_ext r) (i_hash_alg r) (i_sig_alg r) (i_sig r);
  f_sig_len : len (i_sig r) <= 65535;
  f_guard : guard (embed_leaf ts0 e0 []) (embed_leaf (time_millis (s_now s)) e []) = true;
  f_extra : extra_data s = Ok (enc_extra_data (s_pre s) (s_leaf s) (map c_der (s_rest s)))
}.

Definition store_wf (st : store) : Prop := forall id l, find_leaf id st = Some l -> wf_leaf l.

Lemma queue_leaf_cases st l :
  (find_leaf (l_id l) st = None /\ queue_leaf st l = ((l_id l, l) :: st, l, false)) \/
  (exists old, find_leaf (l_id l) st = Some old /\ queue_leaf st l = (st, old, true)).
Proof. unfold queue_leaf. destruct (find_leaf (l_id l) st) as [old|]; [right; exists old|left]; auto. Qed.

Lemma add_chain_issued st s st' r :
  store_wf (st_store st) ->
  add_chain H sign guard cfg st s = (st', Issued r) ->
  exists e ts0 e0, issued_facts st st' s r e ts0 e0.
Proof.
  intros Hwf. unfold add_chain.
  set (ms := time_millis (s_now s)).
  destruct (leaf_from_chain H s ms) as [mleaf| | | |] eqn:El.
  2-5: cbn; intros E; inversion E.
  destruct (leaf_from_chain_ok _ _ _ El) as (e & Hse & ->).
  destruct (build_log_leaf H s (embed_leaf ms e [])) as [leaf| | | |] eqn:Eb.
  2-5: cbn; intros E; inversion E.
  destruct (build_log_leaf_inv s ms e leaf (ts_ok_millis _) Eb) as (He & Hc & Hleaf & Hextra).
  assert (Hbl : leaf = built_leaf s e) by (rewrite Hleaf; reflexivity). clear Hleaf. subst leaf.
  destruct (queue_leaf (st_store st) (built_leaf s e)) as [[store' ret] dup] eqn:Eq.
  (* the returned leaf is well formed *)
  assert (Hret : wf_leaf ret).
  { destruct (queue_leaf_cases (st_store st) (built_leaf s e)) as [[_ Hq]|[old [Hf Hq]]]; rewrite Hq in Eq; inversion Eq; subst.
    - exists ms, e. repeat split; auto. apply ts_ok_millis.
    - exact (Hwf _ _ Hf). }
  destruct Hret as (ts0 & e0 & Hts0 & He0 & Hv).
  rewrite Hv, (leaf_decodes ts0 e0 [] Hts0 He0 nil_ext_ok).
  destruct (guard (embed_leaf ts0 e0 []) (embed_leaf ms e [])) eqn:Eg; cbn [negb]; [|intros E; inversion E].
  rewrite (siginput_of_leaf ts0 e0 [] Hts0 He0 nil_ext_ok).
  destruct (sign (st_n st) (enc_sct_siginput ts0 e0 [])) as [sig|] eqn:Es; [|intros E; inversion E].
  destruct (marshal gen_SignedCertificateTimestamp None _) as [sb| | | |] eqn:Em.
  2-5: cbn; intros E; inversion E.
  apply (sct_marshal_inv _ _ _ _ _ _ _ Hts0) in Em. destruct Em as (_ & _ & _ & _ & Hsl & ->).
  intros E; inversion E; subst st' r; clear E.
  exists e, ts0, e0. constructor; cbn; auto.
  apply returned_sct_wf; auto.
Qed.

(* how one request changes the backend: nothing, or one new leaf under a fresh identity hash *)
Lemma add_chain_store st s st' o :
  add_chain H sign guard cfg st s = (st', o) ->
  st_store st' = st_store st \/
  exists e, server_entry s = Ok e /\ entry_ok e /\ find_leaf (H (s_leaf s)) (st_store st) = None /\
            st_store st' = (H (s_leaf s), built_leaf s e) :: st_store st.
Proof.
  unfold add_chain.
  set (ms := time_millis (s_now s)).
  destruct (leaf_from_chain H s ms) as [mleaf| | | |] eqn:El.
  2-5: intros E; inversion E; left; reflexivity.
  destruct (leaf_from_chain_ok _ _ _ El) as (e & Hse & ->).
  destruct (build_log_leaf H s (embed_leaf ms e [])) as [leaf| | | |] eqn:Eb.
  2-5: intros E; inversion E; left; reflexivity.
  destruct (build_log_leaf_inv s ms e leaf (ts_ok_millis _) Eb) as (He & Hc & Hleaf & Hextra).
  assert (Hbl : leaf = built_leaf s e) by (rewrite Hleaf; reflexivity). clear Hleaf. subst leaf.
  destruct (queue_leaf (st_store st) (built_leaf s e)) as [[store' ret] dup] eqn:Eq.
  assert (Hst : st_store st' = store' -> st_store st' = st_store st \/
            exists e, server_entry s = Ok e /\ entry_ok e /\ find_leaf (H (s_leaf s)) (st_store st) = None /\
            st_store st' = (H (s_leaf s), built_leaf s e) :: st_store st).
  { intros ->. destruct (queue_leaf_cases (st_store st) (built_leaf s e)) as [[Hn Hq]|[old [Hf Hq]]]; rewrite Hq in Eq; inversion Eq; subst.
    - right. exists e. auto.
    - left. reflexivity. }
  intros E. apply Hst.
  repeat match type of E with
  | (match ?x with _ => _ end) = _ => destruct x
  | (if ?x then _ else _) = _ => destruct x
  | (let '(_, _) := ?x in _) = _ => destruct x
  end; inversion E; reflexivity.
Qed.

(* ---------------- no panic ---------------- *)

Lemma build_precert_tbs_good bs pre : good (build_precert_tbs bs pre).
Proof.
  unfold good, build_precert_tbs, remove_extension.
  destruct (parse_tbs bs) as [t|]; [|split; discriminate].
  destruct (count_oid _ _) as [|[|n]]; try (split; discriminate).
  destruct (parse_tbs _); [|split; discriminate]. destruct pre as [p|]; [|split; discriminate].
  destruct (negb (pi_ct_eku p)); split; discriminate.
Qed.

Lemma leaf_from_chain_good s ts : good (leaf_from_chain H s ts).
Proof.
  unfold leaf_from_chain. destruct (negb (s_pre s)); [split; discriminate|].
  destruct (s_rest s) as [|c1 more]; [split; discriminate|].
  destruct (if pi_ct_eku (c_pi c1) then _ else _) as [[pre issuer]|]; [|split; discriminate].
  destruct (build_precert_tbs_good (s_tbs s) pre) as [G1 G2].
  destruct (build_precert_tbs (s_tbs s) pre); try contradiction; split; discriminate.
Qed.

Lemma wire_wf t : In t wire_types -> wf_ty t None = true.
Proof.
  intros Hin. pose proof wire_types_wf as Hw. rewrite forallb_forall in Hw.
  specialize (Hw t Hin). apply andb_true_iff in Hw. tauto.
Qed.

Lemma wire_marshal_good t v : In t wire_types -> good (marshal t None v).
Proof. intros Hin. apply (proj1 marshal_safe t None v (wire_wf t Hin)). Qed.

Lemma build_log_leaf_good s v : good (build_log_leaf H s v).
Proof.
  unfold build_log_leaf.
  destruct (wire_marshal_good gen_MerkleTreeLeaf v) as [G1 G2]; [cbn; auto|].
  destruct (marshal gen_MerkleTreeLeaf None v); try contradiction; try (split; discriminate).
  unfold extra_data.
  destruct (s_pre s).
  - match goal with |- context [marshal gen_PrecertChainEntry None ?x] =>
      destruct (wire_marshal_good gen_PrecertChainEntry x) as [G3 G4]; [cbn; tauto|];
      destruct (marshal gen_PrecertChainEntry None x); try contradiction; split; discriminate end.
  - match goal with |- context [marshal gen_CertificateChain None ?x] =>
      destruct (wire_marshal_good gen_CertificateChain x) as [G3 G4]; [cbn; tauto|];
      destruct (marshal gen_CertificateChain None x); try contradiction; split; discriminate end.
Qed.

Lemma add_chain_no_panic st s st' o :
  store_wf (st_store st) -> add_chain H sign guard cfg st s = (st', o) -> o <> OPanic.
Proof.
  intros Hwf. unfold add_chain.
  set (ms := time_millis (s_now s)).
  destruct (leaf_from_chain_good s ms) as [G1 G2].
  destruct (leaf_from_chain H s ms) as [mleaf| | | |] eqn:El; try contradiction.
  2-3: cbn; intros E; inversion E; discriminate.
  destruct (leaf_from_chain_ok _ _ _ El) as (e & Hse & ->).
  destruct (build_log_leaf_good s (embed_leaf ms e [])) as [G3 G4].
  destruct (build_log_leaf H s (embed_leaf ms e [])) as [leaf| | | |] eqn:Eb; try contradiction.
  2-3: cbn; intros E; inversion E; discriminate.
  destruct (build_log_leaf_inv s ms e leaf (ts_ok_millis _) Eb) as (He & Hc & Hleaf & Hextra).
  assert (Hbl : leaf = built_leaf s e) by (rewrite Hleaf; reflexivity). clear Hleaf. subst leaf.
  destruct (queue_leaf (st_store st) (built_leaf s e)) as [[store' ret] dup] eqn:Eq.
  assert (Hret : wf_leaf ret).
  { destruct (queue_leaf_cases (st_store st) (built_leaf s e)) as [[_ Hq]|[old [Hf Hq]]]; rewrite Hq in Eq; inversion Eq; subst.
    - exists ms, e. repeat split; auto. apply ts_ok_millis.
    - exact (Hwf _ _ Hf). }
  destruct Hret as (ts0 & e0 & Hts0 & He0 & Hv).
  rewrite Hv, (leaf_decodes ts0 e0 [] Hts0 He0 nil_ext_ok).
  destruct (guard _ _); cbn [negb]; [|intros E; inversion E; discriminate].
  rewrite (siginput_of_leaf ts0 e0 [] Hts0 He0 nil_ext_ok).
  destruct (sign _ _) as [sig|]; [|intros E; inversion E; discriminate].
  match goal with |- context [marshal gen_SignedCertificateTimestamp None ?x] =>
    destruct (wire_marshal_good gen_SignedCertificateTimestamp x) as [G5 G6]; [cbn; tauto|];
    destruct (marshal gen_SignedCertificateTimestamp None x); try contradiction end;
  cbn; intros E; inversion E; discriminate.
Qed.

End Step.
