// Two classes of hierarchy that the generator of main.go does not draw, each with a stream of its
// own (so the cases of the other classes are the same whether or not these are there):
//
// "twins" - several certificates for ONE CA name, on one path.  A CA's self-signed certificate
// followed by the cross-certificate an older root issued for it (same subject, same key, another
// issuer), a re-issued self-signed certificate, a second cross-certificate under another root, the
// key-rollover pair of RFC 4210 4.4 (new-with-old / old-with-new: same subject, two keys, self-issued)
// and two CAs that cross-certify each other (the path leaves a name and key and comes back to it:
// leaf <- A(by B) <- B(by A) <- A(by Root)).  Every such submission names and is validly signed by
// the next certificate all the way: the property admits it, however many certificates of the path
// share a subject or a key, and the only thing that may not repeat is a certificate (its bytes).
//
// "pathlen" - CA certificates (intermediates, roots, trusted intermediates) that carry a
// pathLenConstraint of 0, 1 or 2, with chains below them that respect it, just reach it or exceed
// it, with and without a pre-issuer among the submitted certificates.  The admission predicate has
// no path-length clause (a log records what it is shown): the direct oracle does not look at the
// constraint at all, nor does the Coq model (ValidateChain sets DisablePathLenChecks).
//
// Both go through ValidateChain and both endpoints, root submitted and not submitted, under several
// trust configurations, and through the perturbations of main.go.
package main

import (
	"fmt"
	mrand "math/rand"

	"github.com/google/certificate-transparency-go/x509"
	"github.com/google/certificate-transparency-go/x509/pkix"

	"verif/harness/pki"
)

// keyAlloc hands out pairwise distinct keys (kind, pool slot); RSA now and then.
type keyAlloc struct {
	r      *mrand.Rand
	n, rsa int
}

func (a *keyAlloc) next() (string, int) {
	if a.rsa < 3 && a.r.Intn(7) == 0 {
		a.rsa++
		return "rsa2048", a.rsa - 1
	}
	kinds := []string{"p256", "p384", "ed25519"}
	a.n++
	return kinds[a.n%3], a.n / 3
}

func stdJunk(H *hier, good []byte) {
	H.junk = [][]byte{{}, {0x30, 0x03, 0x02, 0x01, 0x01}, good[:len(good)/2], append(append([]byte{}, good...), 0x00), []byte("not a certificate")}
	H.junkN = []string{"empty", "short-sequence", "root-truncated", "root+1-trailing", "text"}
}

var serverAuth = []x509.ExtKeyUsage{x509.ExtKeyUsageServerAuth}

// ------------------------------------------------------------------ twins

// genTwinHier: k%3 = key-id policy: 0 none anywhere, 1 one subject key id per KEY (the twins share
// it), 2 one subject key id per CERTIFICATE (the twins differ; children carry the id of the
// certificate that stood for the issuer when they were signed).
func genTwinHier(r *mrand.Rand, k int) *hier {
	u := &universe{name: fmt.Sprintf("UT%d", k), byDER: map[string]int{}}
	H := &hier{u: u, paths: map[int][][]int{}}
	kidMode := k % 3
	ka := &keyAlloc{r: r}
	type ident struct {
		cn, kind string
		idx      int
		ski      []byte
	}
	who := func(cn string) ident {
		kk, ki := ka.next()
		id := ident{cn: fmt.Sprintf("%s t%d", cn, k), kind: kk, idx: ki}
		if kidMode == 1 {
			id.ski = kid(r)
		}
		return id
	}
	// cert: a CA certificate for identity id signed by parent (nil = self-signed)
	cert := func(id ident, parent *pki.Entity, role string, mut func(*pki.Opts)) (*pki.Entity, int) {
		o := pki.Opts{CN: id.cn, KeyKind: id.kind, KeyIdx: id.idx, IsCA: true, SKI: id.ski, NotAfter: tNew2}
		if kidMode == 2 {
			o.SKI = kid(r)
		}
		if mut != nil {
			mut(&o)
		}
		e := pki.Issue(o, parent)
		i := u.add(e, role)
		H.cas = append(H.cas, i)
		return e, i
	}
	oldRoot, otherRoot, newRoot, newRoot2 := who("OldRoot"), who("OtherRoot"), who("NewRoot"), who("NewRoot")
	newRoot2.cn = newRoot.cn // the same name with the next key (rollover)
	caA, caB := who("CrossA"), who("CrossB")

	eR0, r0 := cert(oldRoot, nil, "root:old", nil)
	eR1, r1 := cert(otherRoot, nil, "root:other", nil)
	eNRs, nrs := cert(newRoot, nil, "twin:self-signed", nil)
	_, nrs2 := cert(newRoot, nil, "twin:self-signed-reissued", func(o *pki.Opts) { o.NotAfter = tNew2.AddDate(1, 0, 0) })
	_, nrx := cert(newRoot, eR0, "twin:cross-by-old", nil)
	_, nrx1 := cert(newRoot, eR1, "twin:cross-by-other", nil)
	// key rollover: the new key's self-signed certificate, new-with-old, old-with-new
	eNR2s, nr2s := cert(newRoot2, nil, "rollover:new-self-signed", nil)
	_, nwo := cert(newRoot2, eNRs, "rollover:new-with-old", nil)
	_, own := cert(newRoot, eNR2s, "rollover:old-with-new", nil)
	H.roots = []int{r0, r1}

	eI, iI := cert(who("TwinInt"), eNRs, "int", nil)
	eI2, iI2 := cert(who("TwinInt2"), eNR2s, "int", nil)
	ePI, iPI := cert(who("TwinPreIssuer"), eI, "preissuer", func(o *pki.Opts) { o.EKUs = []x509.ExtKeyUsage{x509.ExtKeyUsageCertificateTransparency} })
	// two CAs that certify each other, each also certified by a root
	eAR, aR := cert(caA, eR0, "cycle:A-by-old", nil)
	eBR, bR := cert(caB, eR1, "cycle:B-by-other", nil)
	_, aB := cert(caA, eBR, "cycle:A-by-B", nil)
	_, bA := cert(caB, eAR, "cycle:B-by-A", nil)

	leaf := func(role string, parent *pki.Entity, poison bool, chains ...[]int) int {
		kk, ki := ka.next()
		o := pki.Opts{CN: fmt.Sprintf("%s t%d", role, k), KeyKind: kk, KeyIdx: ki, EKUs: serverAuth, NotAfter: tNew}
		if poison {
			o.ExtraExt = []pkix.Extension{pki.PoisonExt()}
		}
		i := u.add(pki.Issue(o, parent), role)
		H.leaves = append(H.leaves, i)
		for _, c := range chains {
			H.paths[i] = append(H.paths[i], append([]int{i}, c...))
		}
		return i
	}
	// the honest chains (root last) the perturbations start from
	viaI := [][]int{{iI, nrs, nrx, r0}, {iI, nrs, nrx1, r1}, {iI, nrx, r0}, {iI, nrs, nrs2, nrx, r0}, {iI, own, nwo, nrx, r0}}
	viaI2 := [][]int{{iI2, nwo, nrx, r0}, {iI2, nr2s, nwo, nrx1, r1}, {iI2, nwo, nrs, nrx, r0}}
	viaA := [][]int{{aB, bA, aR, r0}, {aR, r0}, {aB, bR, r1}}
	lf := leaf("twin-leaf", eI, false, viaI...)
	pre := leaf("twin-pre", eI, true, viaI...)
	var viaPI [][]int
	for _, c := range viaI {
		viaPI = append(viaPI, append([]int{iPI}, c...))
	}
	prePI := leaf("twin-pre-via-preissuer", ePI, true, viaPI...)
	lf2 := leaf("rollover-leaf", eI2, false, viaI2...)
	lfA := leaf("cycle-leaf", eAR, false, viaA...)
	preA := leaf("cycle-pre", eAR, true, viaA...)

	all := []int{r0, r1}
	add := func(roots []int, kind string, chain ...int) {
		H.target = append(H.target, targeted{roots, chain, "twins:" + kind})
	}
	for _, l := range []int{lf, pre} {
		// through the self-signed certificate and the cross-certificate, in issuing order
		add([]int{r0}, "self+cross", l, iI, nrs, nrx)
		add([]int{r0}, "self+cross+root", l, iI, nrs, nrx, r0)
		add(all, "self+cross", l, iI, nrs, nrx)
		add([]int{r1, r0}, "self+cross+root", l, iI, nrs, nrx1, r1)
		add([]int{r1}, "self+cross", l, iI, nrs, nrx1)
		// three certificates for the name in a row
		add([]int{r0}, "self+self+cross", l, iI, nrs, nrs2, nrx)
		add(all, "self+self+cross+root", l, iI, nrs2, nrs, nrx1, r1)
		// only one of the twins
		add([]int{r0}, "cross-only", l, iI, nrx)
		add(all, "cross-only+root", l, iI, nrx, r0)
		add([]int{nrs}, "self-only-trusted", l, iI, nrs)
		add([]int{nrs}, "self-only-trusted-absent", l, iI)
		// the twin is a member of the trusted pool
		add([]int{nrs2}, "self+trusted-reissue", l, iI, nrs, nrs2)
		add([]int{nrs2}, "self-under-trusted-reissue", l, iI, nrs)
		add([]int{r0, nrs}, "self-trusted+cross", l, iI, nrs, nrx)
		add([]int{nrx, r0}, "self+cross-trusted", l, iI, nrs, nrx)
		add([]int{nrx}, "self+cross-trusted+root", l, iI, nrs, nrx, r0)
		// the twins in the wrong order, the wrong cross-certificate, both cross-certificates
		add([]int{r0}, "cross+self", l, iI, nrx, nrs)
		add([]int{r0}, "self+other-cross", l, iI, nrs, nrx1)
		add(all, "self+cross+cross", l, iI, nrs, nrx, nrx1)
		add(all, "cross+cross", l, iI, nrx, nrx1)
		// back to the name and key after the rollover pair
		add([]int{r0}, "old-with-new+new-with-old+cross", l, iI, own, nwo, nrx)
		add(all, "old-with-new+new-with-old+cross+root", l, iI, own, nwo, nrx, r0)
		add([]int{r0}, "old-with-new+new-with-old+self+cross", l, iI, own, nwo, nrs, nrx)
		add([]int{nr2s}, "old-with-new", l, iI, own)
		add([]int{nr2s, r0}, "old-with-new+root", l, iI, own, nr2s)
	}
	add([]int{r0}, "preissuer+self+cross", prePI, iPI, iI, nrs, nrx)
	add(all, "preissuer+self+cross+root", prePI, iPI, iI, nrs, nrx, r0)
	add([]int{r1}, "preissuer+self+self+cross", prePI, iPI, iI, nrs2, nrs, nrx1)
	add([]int{r0}, "preissuer+cross-only", prePI, iPI, iI, nrx)
	// key rollover: same name, another key
	add([]int{r0}, "new-with-old+cross", lf2, iI2, nwo, nrx)
	add(all, "new-with-old+cross+root", lf2, iI2, nwo, nrx, r0)
	add([]int{r1}, "new-self+new-with-old+cross", lf2, iI2, nr2s, nwo, nrx1)
	add([]int{r0}, "new-with-old+self+cross", lf2, iI2, nwo, nrs, nrx)
	add([]int{nrs}, "new-with-old", lf2, iI2, nwo)
	add([]int{nrs, r0}, "new-with-old+trusted", lf2, iI2, nwo, nrs)
	add([]int{nr2s}, "new-self-trusted-absent", lf2, iI2)
	add([]int{r0}, "new-with-old+old-with-new", lf2, iI2, nwo, own)
	// mutual cross-certification
	for _, l := range []int{lfA, preA} {
		add([]int{r0}, "A-by-B+B-by-A+A-by-root", l, aB, bA, aR)
		add(all, "A-by-B+B-by-A+A-by-root+root", l, aB, bA, aR, r0)
		add([]int{r1}, "A-by-B+B-by-root", l, aB, bR)
		add(all, "A-by-B+B-by-root+root", l, aB, bR, r1)
		add([]int{r0}, "A-by-root", l, aR)
		add([]int{r0}, "A-by-root+A-by-B", l, aR, aB)
		add([]int{aR}, "A-by-B+B-by-A+trusted-A", l, aB, bA, aR)
		add([]int{aR}, "A-by-B+B-by-A", l, aB, bA)
		add(all, "A-by-B+B-by-A+A-by-B", l, aB, bA, aB)
	}
	// the twins themselves as the first certificate of a submission
	add([]int{r0}, "self-as-leaf+cross", nrs, nrx)
	add(all, "self-as-leaf+cross+root", nrs, nrx, r0)
	add([]int{r0}, "self-as-leaf+self+cross", nrs2, nrs, nrx)
	add([]int{r0}, "cross-as-leaf", nrx)
	add([]int{r0}, "A-by-B-as-leaf", aB, bA, aR)
	add([]int{r1}, "B-by-A-as-leaf", bA, aB, bR)
	add([]int{r0}, "int-as-leaf+self+cross", iI, nrs, nrx)

	H.leaves = append(H.leaves, nrs, iI, aB)
	H.paths[nrs] = [][]int{{nrs, nrx, r0}, {nrs, nrs2, nrx1, r1}}
	H.paths[iI] = viaI
	H.paths[aB] = [][]int{{aB, bA, aR, r0}, {aB, bR, r1}}
	H.trustCf = [][]int{{r0}, {r0, r1}, {r1, r0}, {r1}, {r0, nrs}, {nrs2, r1}, {nrx, r0}, {r0, r1, aR}, {nr2s, r0}, {nrs}}
	stdJunk(H, eR0.DER)
	u.abstract()
	return H
}

// ------------------------------------------------------------------ path-length constraints

func plName(p int) string {
	if p < 0 {
		return "none"
	}
	return fmt.Sprint(p)
}

func withPathLen(p int) func(*x509.Certificate) {
	return func(t *x509.Certificate) {
		if p < 0 {
			return
		}
		t.MaxPathLen, t.MaxPathLenZero = p, p == 0
	}
}

// genPathLenHier: three roots (no constraint, pathlen 0, pathlen 1), under each a line of three
// intermediates whose constraints are drawn from none/0/1/2 (hierarchy 0: fixed patterns, so that
// every seed has a constraint exceeded by one and by two, one just reached and one under a root
// that is itself constrained), a pre-issuer under every CA, a certificate or precertificate under
// every CA and a precertificate under every pre-issuer.
func genPathLenHier(r *mrand.Rand, k int) *hier {
	u := &universe{name: fmt.Sprintf("UL%d", k), byDER: map[string]int{}}
	H := &hier{u: u, paths: map[int][][]int{}}
	kidMode := r.Intn(2)
	ka := &keyAlloc{r: r}
	ca := func(cn string, parent *pki.Entity, pl int, role string, ekus []x509.ExtKeyUsage) (*pki.Entity, int) {
		kk, ki := ka.next()
		o := pki.Opts{CN: fmt.Sprintf("%s l%d", cn, k), KeyKind: kk, KeyIdx: ki, IsCA: true, NotAfter: tNew2, EKUs: ekus, Mutate: withPathLen(pl)}
		if kidMode == 1 {
			o.SKI = kid(r)
		}
		e := pki.Issue(o, parent)
		if got := e.Cert.MaxPathLen; (pl < 0 && got != -1) || (pl >= 0 && got != pl) {
			panic(fmt.Sprintf("harness: pathLenConstraint %d came out as %d", pl, got))
		}
		i := u.add(e, role+":pathlen="+plName(pl))
		H.cas = append(H.cas, i)
		return e, i
	}
	fixed := [][]int{{0, -1, -1}, {-1, -1, -1}, {1, 0, -1}}
	draw := []int{-1, -1, 0, 0, 1, 2}
	nLeaf := 0
	var good []byte
	for ri, rpl := range []int{-1, 0, 1} {
		eR, iR := ca(fmt.Sprintf("PLRoot%d", ri), nil, rpl, "root", nil)
		if ri == 0 {
			good = eR.DER
		}
		H.roots = append(H.roots, iR)
		pls := fixed[ri]
		if k > 0 {
			pls = []int{draw[r.Intn(len(draw))], draw[r.Intn(len(draw))], draw[r.Intn(len(draw))]}
		}
		// above[j]: the chain of CA j (itself first, root last)
		ents := []*pki.Entity{eR}
		above := [][]int{{iR}}
		for j, pl := range pls {
			e, i := ca(fmt.Sprintf("PLInt%d.%d", ri, j+1), ents[j], pl, "int", nil)
			ents = append(ents, e)
			above = append(above, append([]int{i}, above[j]...))
		}
		for j, e := range ents {
			nLeaf++
			poison := r.Intn(2) == 0
			role := "pathlen-leaf"
			var ext []pkix.Extension
			if poison {
				role, ext = "pathlen-pre", []pkix.Extension{pki.PoisonExt()}
			}
			kk, ki := ka.next()
			l := u.add(pki.Issue(pki.Opts{CN: fmt.Sprintf("%s%d l%d", role, nLeaf, k), KeyKind: kk, KeyIdx: ki, EKUs: serverAuth, NotAfter: tNew, ExtraExt: ext}, e), role)
			H.leaves = append(H.leaves, l)
			H.paths[l] = [][]int{append([]int{l}, above[j]...)}
			// a pre-issuer under this CA and a precertificate under the pre-issuer
			ePI, iPI := ca(fmt.Sprintf("PLPreIssuer%d.%d", ri, j), e, []int{-1, -1, 0}[r.Intn(3)], "preissuer", []x509.ExtKeyUsage{x509.ExtKeyUsageCertificateTransparency})
			kk, ki = ka.next()
			nLeaf++
			p := u.add(pki.Issue(pki.Opts{CN: fmt.Sprintf("pathlen-pre-via-preissuer%d l%d", nLeaf, k), KeyKind: kk, KeyIdx: ki, EKUs: serverAuth, NotAfter: tNew,
				ExtraExt: []pkix.Extension{pki.PoisonExt()}}, ePI), "pathlen-pre-via-preissuer")
			H.leaves = append(H.leaves, p)
			H.paths[p] = [][]int{append([]int{p, iPI}, above[j]...)}
		}
		// the intermediates as first certificate of a submission, and as trust anchors
		last := above[len(above)-1]
		H.leaves = append(H.leaves, last[0])
		H.paths[last[0]] = [][]int{clone(last)}
		i1 := above[1][0]
		for _, l := range H.leaves {
			p := H.paths[l][0]
			// p = [leaf, ..., I1, root]: the same with I1 trusted instead of the root
			if len(p) >= 4 && p[len(p)-1] == iR && p[len(p)-2] == i1 {
				H.target = append(H.target,
					targeted{[]int{i1}, clone(p[:len(p)-2]), "pathlen:trusted-intermediate-absent"},
					targeted{[]int{i1}, clone(p[:len(p)-1]), "pathlen:trusted-intermediate-present"},
					targeted{[]int{i1, iR}, clone(p), "pathlen:trusted-intermediate+root"})
			}
		}
	}
	H.trustCf = [][]int{H.roots, H.roots, {H.roots[1], H.roots[0], H.roots[2]}, {H.roots[0]}, {H.roots[2], H.roots[1]}}
	stdJunk(H, good)
	u.abstract()
	return H
}

// pathLenTags: how far the chain (as the implementation would complete it with a trusted root) goes
// beyond the tightest constraint above its leaf: "exceeded-by=N", "reached", "slack", "unconstrained";
// and whether a pre-issuer is among the submitted certificates.
func pathLenTags(H *hier, full []int, chain []int) []string {
	worst, any := -1<<20, false
	for pos := 1; pos < len(full); pos++ {
		c := H.u.ents[full[pos]].Cert
		if c.BasicConstraintsValid && c.MaxPathLen >= 0 {
			any = true
			if d := (pos - 1) - c.MaxPathLen; d > worst {
				worst = d
			}
		}
	}
	t := "pathlen:unconstrained"
	switch {
	case !any:
	case worst > 0:
		t = fmt.Sprintf("pathlen:exceeded-by=%d", worst)
	case worst == 0:
		t = "pathlen:reached"
	default:
		t = "pathlen:slack"
	}
	pi := "pathlen:no-preissuer"
	for _, i := range chain[1:] {
		if isPreIssuer(H.u.abs[i]) {
			pi = "pathlen:with-preissuer"
		}
	}
	return []string{t, pi}
}
