(* C05: what the property says, as definitions (no proofs): which (key, algorithms, message,
   signature) combinations are acceptable, which keys may get a verifier, which fields are
   signed.  Written from RFC 5246 s7.4.1.4.1, RFC 6962 s2.1.4/s3.2/s3.5 and X.690, not from the Go code. *)
From Coq Require Import NArith ZArith List Bool Lia.
From Coq.Strings Require Import Byte.
From V Require Import Base.Bytes Sig.SigModel Sig.DerProofs.
Import ListNotations.
Local Open Scope N_scope.

(* TLS HashAlgorithm code -> Go's crypto.Hash constant (crypto.MD5 = 2, SHA1 = 3, SHA224 = 4,
   SHA256 = 5, SHA384 = 6, SHA512 = 7); none(0) and everything above sha512(6) unsupported *)
Definition rfc5246_hash (h : N) : option Z :=
  if h =? 1 then Some 2%Z else if h =? 2 then Some 3%Z else if h =? 3 then Some 4%Z
  else if h =? 4 then Some 5%Z else if h =? 5 then Some 6%Z else if h =? 6 then Some 7%Z else None.

(* TLS SignatureAlgorithm code the key type answers to: rsa(1), dsa(2), ecdsa(3) *)
Definition alg_matches (k : key) (a : N) : Prop :=
  match k with
  | KRSA _ _ => a = 1
  | KDSA _ => a = 2
  | KECDSA _ _ => a = 3
  | _ => False
  end.

Section Spec.
  Variable digest : Z -> bytes -> bytes.
  Variable rsa_ok : key -> Z -> bytes -> bytes -> bool.
  Variable ecdsa_ok : key -> bytes -> Z -> Z -> bool.
  Variable dsa_ok : key -> bytes -> Z -> Z -> bool.

  (* the signature bytes carry a DER Dss-Sig-Value / ECDSA-Sig-Value (r, s) - anything after s
     inside the SEQUENCE and anything after the SEQUENCE is ignored - both components are
     positive and the primitive accepts them for the digest *)
  Definition rs_accepts (prim : bytes -> Z -> Z -> bool) (dg sig : bytes) : Prop :=
    exists r s rest, is_sig_encoding r s sig rest /\ (0 < r)%Z /\ (0 < s)%Z /\ prim dg r s = true.

  (* the declared hash is a supported one, the declared signature algorithm is the key's, and
     the primitive accepts the digest of exactly [data] *)
  Definition accepts (k : key) (data : bytes) (sg : dsig) : Prop :=
    exists ht, rfc5246_hash (ds_hash sg) = Some ht /\
      match k with
      | KRSA _ _ => ds_alg sg = 1 /\ rsa_ok k ht (digest ht data) (ds_sig sg) = true
      | KDSA _ => ds_alg sg = 2 /\ rs_accepts (dsa_ok k) (digest ht data) (ds_sig sg)
      | KECDSA _ _ => ds_alg sg = 3 /\ rs_accepts (ecdsa_ok k) (digest ht data) (ds_sig sg)
      | _ => False
      end.
End Spec.

(* RFC 6962 s2.1.4: RSA with at least 2048 bits, or ECDSA on NIST P-256; anything else only
   when the caller opted in, and then only RSA / ECDSA *)
Definition policy_allows (allow : bool) (k : key) : Prop :=
  match k with
  | KRSA _ bits => (2048 <= bits)%Z \/ allow = true
  | KECDSA _ c => c = P256 \/ allow = true
  | _ => False
  end.

(* the signed part of a log entry, when the entry is well formed *)
Definition entry_view (e : tentry) : option signed_entry :=
  match e with
  | TX509 (Some c) => Some (SX509 c)
  | TPrecert (Some (ikh, tbs)) => Some (SPrecert ikh tbs)
  | _ => None
  end.

(* the fields of (SCT, entry) that RFC 6962 s3.2 signs: version, timestamp, entry, extensions *)
Definition sct_signed_fields (s : sct) (e : tentry) : N * N * option signed_entry * bytes :=
  (sct_version s, sct_ts s, entry_view e, sct_ext s).

(* the fields of an STH that RFC 6962 s3.5 signs *)
Definition sth_signed_fields (s : sth) : N * N * N * bytes :=
  (sth_version s, sth_ts s, sth_size s, sth_root s).

(* the bytes RFC 6962 says are signed *)
Definition sct_signed_bytes (s : sct) (e : tentry) : option bytes :=
  match entry_view e with
  | Some se => enc_sct_siginput (sct_version s) (sct_ts s) se (sct_ext s)
  | None => None
  end.
Definition sth_signed_bytes (s : sth) : option bytes :=
  enc_sth_siginput (sth_version s) (sth_ts s) (sth_size s) (sth_root s).

(* entries on which SerializeSCTSignatureInput dereferences a nil pointer *)
Definition entry_nil (e : tentry) : Prop := e = TNil \/ e = TPrecert None.

(* the signature algorithm NewFromSignedJSON declares for a key *)
Definition json_alg (k : key) : option N :=
  match k with KRSA _ _ => Some 1 | KECDSA _ _ => Some 3 | _ => None end.

(* finite sweeps over the one-byte algorithm codes *)
Definition all_codes : list N := map N.of_nat (seq 0 256).
Definition codes_supported (h a : N) : bool :=
  (1 <=? h) && (h <=? 6) && (1 <=? a) && (a <=? 3).
