(* L4 lemmas, part 5: what parseField returns for a required element depends only on the octets it
   consumes. *)
From Coq Require Import ZArith NArith List Bool Lia.
From Coq.Strings Require Import Byte.
From V Require Import Base.Bytes ASN1.DerBase ASN1.DerHeader ASN1.DerHeaderProofs ASN1.DerPrim ASN1.DerPrimProofs ASN1.DerModel ASN1.DerStructProofs.
Import ListNotations.
Local Open Scope Z_scope.

(* ------------------------------------------------------------------ prefix property of parseField *)

Lemma match_phase_prefix t p h r1 st :
  p_optional p = false -> 0 <= t_len h -> match_phase t p h r1 = Ok st ->
  exists utag inner rest, st = HBody h utag inner rest /\ r1 = inner ++ rest /\ zlen inner = t_len h /\
    forall rest', match_phase t p h (inner ++ rest') = Ok (HBody h utag inner rest').
Proof.
  intros Ho Hl. unfold match_phase. destruct (universal t) as [[[ma ut] ct]|]; [|discriminate]. rewrite Ho.
  destruct (_ || _); [discriminate|]. destruct (Z.ltb_spec (zlen r1) (t_len h)); [discriminate|]. intros Hi; injection Hi as <-.
  assert (Hz : zlen (ztake (t_len h) r1) = t_len h) by (apply ztake_len; lia).
  remember (ztake (t_len h) r1) as inner eqn:Ei.
  eexists _, inner, (zdrop (t_len h) r1). split; [reflexivity|]. split; [subst inner; symmetry; apply ztake_zdrop|]. split; [exact Hz|].
  intros rest'. rewrite zlen_app. destruct (Z.ltb_spec (zlen inner + zlen rest') (t_len h)); [pose proof (zlen_nonneg rest'); lia|].
  rewrite <- Hz. rewrite ztake_app_exact, zdrop_app_exact. reflexivity.
Qed.

Lemma header_phase_prefix v t p d st :
  p_optional p = false -> header_phase (parse_base128 v) t p d = Ok st ->
  exists u rest, d = u ++ rest /\ u <> [] /\
    (st = HFlagSet rest \/ exists h utag inner, st = HBody h utag inner rest /\ exists u0, u = u0 ++ inner) /\
    forall rest', (rest' = [] -> rest = []) ->
      header_phase (parse_base128 v) t p (u ++ rest') =
      Ok (match st with HFlagSet _ => HFlagSet rest' | HBody h utag inner _ => HBody h utag inner rest' | HDefault => HDefault end).
Proof.
  intros Ho H. unfold header_phase in H. apply bind_ok in H. destruct H as ([h0 r0] & E0 & H). cbn [fst snd] in H.
  apply bind_ok in H. destruct H as (e & Ee & H).
  change (parse_tl_with (parse_base128 v)) with (parse_tl v) in *.
  pose proof (parse_tl_bound _ _ _ _ E0) as (_ & _ & Hlen0).
  apply parse_tl_prefix in E0. destruct E0 as (hb0 & -> & Hl0 & Hp0).
  assert (Hne0 : hb0 <> []) by (destruct hb0; [cbn in Hl0; lia|discriminate]).
  unfold explicit_phase in Ee. destruct (p_explicit p) eqn:Eex; cbn [negb] in Ee.
  - destruct r0 as [|b0 r0']; [discriminate|]. destruct (p_tag p) as [tg|] eqn:Etag; [|discriminate].
    destruct (_ && _ && _) eqn:Ecnd; [|rewrite Ho in Ee; discriminate].
    destruct (is_raw t) eqn:Eraw.
    + (* RawValue: the explicit header is the element *)
      injection Ee as <-. apply (match_phase_prefix t p h0 _ _ Ho ltac:(lia)) in H.
      destruct H as (utag & inner & rest & -> & Hr & Hz & Hm).
      exists (hb0 ++ inner), rest. rewrite Hr, app_assoc. split; [reflexivity|]. split; [destruct hb0; [congruence|discriminate]|].
      split; [right; eauto 6|]. intros rest' Hrest. unfold header_phase. rewrite <- app_assoc.
      change (parse_tl_with (parse_base128 v)) with (parse_tl v). rewrite Hp0. cbn [bind fst snd].
      unfold explicit_phase. rewrite Eex. cbn [negb].
      destruct (inner ++ rest') as [|c0 cr] eqn:Eir.
      { exfalso. apply app_eq_nil in Eir. destruct Eir as [-> ->]. specialize (Hrest eq_refl). subst rest. discriminate. }
      rewrite Etag, Ecnd, Eraw. cbn [bind]. rewrite <- Eir. apply Hm.
    + destruct (0 <? t_len h0) eqn:Epos.
      * apply bind_ok in Ee. destruct Ee as ([h1 r1] & E1 & Ee). injection Ee as <-.
        change (parse_tl_with (parse_base128 v)) with (parse_tl v) in E1.
        pose proof (parse_tl_bound _ _ _ _ E1) as (_ & _ & Hlen1).
        apply parse_tl_prefix in E1. destruct E1 as (hb1 & Er & Hl1 & Hp1).
        apply (match_phase_prefix t p h1 _ _ Ho ltac:(lia)) in H. destruct H as (utag & inner & rest & -> & Hr & Hz & Hm).
        exists (hb0 ++ hb1 ++ inner), rest. rewrite Er, Hr. split; [repeat rewrite <- app_assoc; reflexivity|].
        split; [destruct hb0; [congruence|discriminate]|]. split; [right; exists h1, utag, inner; split; [reflexivity|exists (hb0 ++ hb1); rewrite <- app_assoc; reflexivity]|].
        intros rest' _. unfold header_phase. repeat rewrite <- app_assoc.
        change (parse_tl_with (parse_base128 v)) with (parse_tl v). rewrite Hp0. cbn [bind fst snd].
        unfold explicit_phase. rewrite Eex. cbn [negb].
        destruct (hb1 ++ inner ++ rest') as [|c0 cr] eqn:Eir.
        { exfalso. destruct hb1; [cbn in Hl1; lia|discriminate]. }
        rewrite Etag, Ecnd, Eraw, Epos. rewrite <- Eir.
        change (parse_tl_with (parse_base128 v)) with (parse_tl v). rewrite Hp1. cbn [bind]. apply Hm.
      * destruct (is_flag t) eqn:Efl; [|discriminate]. injection Ee as <-. injection H as <-.
        exists hb0, (b0 :: r0'). split; [reflexivity|]. split; [exact Hne0|]. split; [left; reflexivity|].
        intros rest' Hrest. unfold header_phase. change (parse_tl_with (parse_base128 v)) with (parse_tl v). rewrite Hp0. cbn [bind fst snd].
        unfold explicit_phase. rewrite Eex. cbn [negb]. destruct rest' as [|c0 cr]; [specialize (Hrest eq_refl); discriminate|].
        rewrite Etag, Ecnd, Eraw, Epos, Efl. reflexivity.
  - injection Ee as <-. apply (match_phase_prefix t p h0 _ _ Ho ltac:(lia)) in H.
    destruct H as (utag & inner & rest & -> & Hr & Hz & Hm).
    exists (hb0 ++ inner), rest. rewrite Hr, app_assoc. split; [reflexivity|]. split; [destruct hb0; [congruence|discriminate]|].
    split; [right; eauto 6|]. intros rest' _. unfold header_phase. rewrite <- app_assoc.
    change (parse_tl_with (parse_base128 v)) with (parse_tl v). rewrite Hp0. cbn [bind fst snd].
    unfold explicit_phase. rewrite Eex. cbn [negb bind]. apply Hm.
Qed.

Lemma parse_any_prefix v G d x rest :
  l_b128 G = parse_base128 v -> parse_any G d = Ok (x, rest) ->
  exists u, d = u ++ rest /\ u <> [] /\ forall rest', parse_any G (u ++ rest') = Ok (x, rest').
Proof.
  intros Hb H. unfold parse_any in *. rewrite Hb in *. apply bind_ok in H. destruct H as ([h r0] & E0 & H). cbn [fst snd] in H.
  change (parse_tl_with (parse_base128 v)) with (parse_tl v) in *.
  pose proof (parse_tl_bound _ _ _ _ E0) as (_ & _ & Hlen).
  apply parse_tl_prefix in E0. destruct E0 as (hb & -> & Hl & Hp).
  destruct (Z.ltb_spec (zlen r0) (t_len h)); [discriminate|].
  apply bind_ok in H. destruct H as (y & Ey & H). injection H as <- <-.
  assert (Hz : zlen (ztake (t_len h) r0) = t_len h) by (apply ztake_len; lia).
  assert (Hr0 : r0 = ztake (t_len h) r0 ++ zdrop (t_len h) r0) by (symmetry; apply ztake_zdrop).
  remember (ztake (t_len h) r0) as c eqn:Ec. remember (zdrop (t_len h) r0) as rst eqn:Er. clear Ec Er. subst r0.
  exists (hb ++ c). rewrite <- app_assoc. split; [reflexivity|]. split; [destruct hb; [cbn in Hl; lia|discriminate]|].
  intros rest'. rewrite <- app_assoc, Hp. cbn [bind fst snd]. rewrite zlen_app.
  destruct (Z.ltb_spec (zlen c + zlen rest') (t_len h)); [pose proof (zlen_nonneg rest'); lia|].
  rewrite <- Hz. rewrite ztake_app_exact, zdrop_app_exact. rewrite Ey. reflexivity.
Qed.

(* a required element: what parseField returns depends only on the octets it consumed (a zero-length
   explicitly tagged element is only recognised when something follows it: hence the side condition) *)
Lemma bind_ext {A B} (r : res A) (f g : A -> res B) : (forall a, f a = g a) -> bind r f = bind r g.
Proof. intros H. destruct r; cbn; auto. Qed.

Lemma bind_rmap {A B C} (F : A -> B) (r : res A) (rest : C) :
  bind r (fun a => Ok (F a, rest)) = bind (rmap F r) (fun y => Ok (y, rest)).
Proof. destruct r; reflexivity. Qed.

Theorem parse_field_prefix v0 v L t p d x rest :
  (forall b, l_b128 (L b) = parse_base128 v) -> p_optional p = false ->
  parse_field v0 L t p d = Ok (x, rest) ->
  exists u, d = u ++ rest /\ forall rest', (rest' = [] -> rest = []) -> parse_field v0 L t p (u ++ rest') = Ok (x, rest').
Proof.
  intros HL Ho H. destruct d as [|b0 d0]; [destruct t; cbn in H; rewrite Ho in H; discriminate|].
  assert (Hcore : forall (body : tl -> Z -> bytes -> bytes -> res val),
            bind (header_phase (parse_base128 v) t p (b0 :: d0)) (fun st => match st with
               | HDefault => Ok (default_val t p, b0 :: d0) | HFlagSet r => Ok (VBool true, r)
               | HBody h utag inner r => bind (body h utag inner (consumed (b0 :: d0) r)) (fun y => Ok (y, r)) end) = Ok (x, rest) ->
            exists u, u <> [] /\ b0 :: d0 = u ++ rest /\ forall rest', (rest' = [] -> rest = []) ->
              bind (header_phase (parse_base128 v) t p (u ++ rest')) (fun st => match st with
               | HDefault => Ok (default_val t p, u ++ rest') | HFlagSet r => Ok (VBool true, r)
               | HBody h utag inner r => bind (body h utag inner (consumed (u ++ rest') r)) (fun y => Ok (y, r)) end) = Ok (x, rest')).
  { intros body Hb. apply bind_ok in Hb. destruct Hb as (st & Eh & Hst).
    destruct (header_phase_prefix _ _ _ _ _ Ho Eh) as (u & rst & Hd & Hne & Hsh & Hall).
    destruct Hsh as [->|(h & utag & inner & -> & u0 & Hu)].
    - injection Hst as <- <-. exists u. split; [exact Hne|]. split; [exact Hd|]. intros rest' Hr. rewrite (Hall rest' Hr). reflexivity.
    - apply bind_ok in Hst. destruct Hst as (y & Ey & Hst). injection Hst as <- <-.
      exists u. split; [exact Hne|]. split; [exact Hd|]. intros rest' Hr. rewrite (Hall rest' Hr). cbn [bind].
      rewrite Hd in Ey. rewrite !consumed_app in *. rewrite Ey. reflexivity. }
  assert (Hfin : forall body, 
            (forall d', d' <> [] -> parse_field v0 L t p d' = 
               bind (header_phase (parse_base128 v) t p d') (fun st => match st with
               | HDefault => Ok (default_val t p, d') | HFlagSet r => Ok (VBool true, r)
               | HBody h utag inner r => bind (body h utag inner (consumed d' r)) (fun y => Ok (y, r)) end)) ->
            exists u, b0 :: d0 = u ++ rest /\ forall rest', (rest' = [] -> rest = []) -> parse_field v0 L t p (u ++ rest') = Ok (x, rest')).
  { intros body Hshape. rewrite Hshape in H by discriminate. apply Hcore in H. destruct H as (u & Hne & Hd & Hall).
    exists u. split; [exact Hd|]. intros rest' Hr. rewrite Hshape; [apply Hall; exact Hr|]. destruct u; [congruence|discriminate]. }
  destruct t;
    try (match goal with |- exists u, _ /\ (forall rest', _ -> parse_field _ _ ?T _ _ = _) =>
           apply (Hfin (fun h utag inner full => prim_body (L (p_lax p)) T utag h inner full));
           intros d' Hd'; destruct d'; [congruence|]; cbn [parse_field]; rewrite HL; reflexivity end).
  - (* TAny *) cbn [parse_field] in H. apply (parse_any_prefix v) in H; [|apply HL]. destruct H as (u & Hd & Hne & Hall). exists u. split; [exact Hd|]. intros rest' _.
    destruct u as [|u0 ur]; [congruence|]. cbn [app parse_field]. apply Hall.
  - (* TSeqOf *)
    apply (Hfin (fun h utag inner full => rmap VList (parse_seq_of (parse_base128 v) t (parse_field v0 L t (elem_params (p_lax p))) inner))).
    intros d' Hd'. destruct d'; [congruence|]. cbn [parse_field]. rewrite HL. apply bind_ext. intros st. destruct st; try reflexivity. apply bind_rmap.
  - (* TStruct *)
    apply (Hfin (fun h utag inner full => rmap (fun vs => VStruct (if rc then Some full else None) vs) (parse_fields v0 L (p_lax p) fs inner))).
    intros d' Hd'. destruct d'; [congruence|]. cbn [parse_field]. rewrite HL. apply bind_ext. intros st. destruct st; try reflexivity.
    apply (bind_rmap (fun vs => VStruct (if rc then Some (consumed (b :: d') rest0) else None) vs)).
Qed.
