package main

// The temporal client with SEVERAL shards (client/multilog.go).
//
// A TemporalLogClient over 2..4 shards - each shard its own URI, its own log key (or none) and its
// own interval of NotAfter values - lives through a HISTORY of calls of every method that fans out
// (GetAcceptedRoots asks all shards in parallel) or routes (AddChain / AddPreChain pick ONE shard by
// the NotAfter of the chain head).  Every call is one case.
//
//   - get-roots: every shard has its own scripted answer and its own (virtual) latency, so the order
//     in which the shards answer is fixed and differs from the configuration order.  Faults (500,
//     404, truncated JSON, a certificate that is not base64, transport error, failing read / close,
//     the context ending, an HTML page with 200) are placed on EVERY shard position in turn, on two
//     positions, on all.  Direct oracle, from the scripted answers alone: if every shard sent a
//     complete 200 whose JSON and base64 decode, the result is exactly the union of what they sent;
//     otherwise the call is an error without a result, and the error is that of ONE OF THE FAILING
//     shards - a jsonclient.RspError with that shard's status and body when it sent a response.
//   - add-chain / add-pre-chain: leaves whose NotAfter lies one second before, exactly on and one
//     second after every shard boundary, before the first and after the last bound; the answer is
//     signed by the key of the shard that the harness's own reading of the certificate (crypto/x509)
//     and of the configuration selects, or by a neighbour's.  Direct oracle: requests go to that
//     shard only (none when no interval holds the date), and a returned SCT verifies under THAT
//     shard's key over the hand-made entry and carries its key hash.
//
//   - shards that SHARE a base URI (genSharedURI): several shards of one temporal log served behind one
//     front-end - the same URI, spelled identically or differing only in trailing '/' or in the case
//     of the host name - each shard with its OWN key (or none).  Nothing the client is configured
//     with per shard (key, interval) may be looked up by the URI: a chain routed to a shard is
//     answered with a genuine SCT of every OTHER shard behind the same URI (its signature and its
//     log id), and the returned SCT is held to the key of the shard the chain belongs to.  The
//     transport cannot tell such shards apart, so "the shard the requests went to" is the URI group.
//
// The Coq side: temporal_get_roots / temporal_add_chain_sharded (Client/ClientModel.v).

import (
	"bytes"
	"context"
	stdx509 "crypto/x509"
	"encoding/base64"
	"encoding/json"
	"fmt"
	"math/big"
	"net/http"
	"sort"
	"strings"
	"sync"
	"testing"
	"testing/synctest"
	"time"

	ct "github.com/google/certificate-transparency-go"
	"github.com/google/certificate-transparency-go/client"
	"github.com/google/certificate-transparency-go/client/configpb"
	"google.golang.org/protobuf/types/known/timestamppb"

	"verif/harness/lib"
	"verif/harness/pki"
)

type shardCfg struct {
	host         string
	uri          string // "" = "http://" + host + "/ct"; several shards may name the same host
	key          *logKey
	keyName      string
	lower, upper *time.Time
}

func (sh shardCfg) baseURI() string {
	if sh.uri != "" {
		return sh.uri
	}
	return "http://" + sh.host + "/ct"
}

// shardRT hands a request to the script of a shard configured with the host it names; the first
// request a shard's script receives in a call is answered after that shard's virtual latency.
// Shards behind ONE host cannot be told apart by the transport: the k-th fresh request to the host
// in a call is answered from the script of the k-th of them (round robin; a request that follows a
// redirect stays with the script that sent the redirect).
type shardRT struct {
	mu      sync.Mutex
	members map[string][]int // host (lower case) -> the shards configured with it, in configuration order
	script  []*script        // per shard
	delay   []time.Duration
	slept   []bool
	next    map[string]int
	owner   map[*http.Request]int
	hit     []int // per request: the FIRST shard configured with the host asked
}

func (s *shardRT) RoundTrip(req *http.Request) (*http.Response, error) {
	host := strings.ToLower(req.URL.Host)
	s.mu.Lock()
	mem := s.members[host]
	if len(mem) == 0 {
		s.mu.Unlock()
		panic("c12: request to an unknown shard " + host)
	}
	i, follows := 0, false
	if req.Response != nil && req.Response.Request != nil {
		i, follows = s.owner[req.Response.Request]
	}
	if !follows {
		i = mem[s.next[host]%len(mem)]
		s.next[host]++
	}
	s.owner[req] = i
	sc, d := s.script[i], s.delay[i]
	first := !s.slept[i]
	s.slept[i] = true
	s.hit = append(s.hit, mem[0])
	s.mu.Unlock()
	if sc == nil {
		panic("c12: request to a shard without a script " + host)
	}
	if first && d > 0 {
		time.Sleep(d)
	}
	s.mu.Lock()
	defer s.mu.Unlock()
	return sc.RoundTrip(req)
}

// multi: ONE temporal client with several shards and the calls made on it so far
type multi struct {
	name   string
	shards []shardCfg
	tlc    *client.TemporalLogClient
	rt     *shardRT
	trail  []string
	groups string // "" or the URI groups of the shards, e.g. "0-1-0"
}

func newMulti(name string, shards []shardCfg) *multi {
	m := &multi{name: name, shards: shards, rt: &shardRT{members: map[string][]int{}}}
	cfg := &configpb.TemporalLogConfig{}
	for i, sh := range shards {
		h := strings.ToLower(sh.host)
		m.rt.members[h] = append(m.rt.members[h], i)
		c := &configpb.LogShardConfig{Uri: sh.baseURI()}
		if sh.key != nil {
			c.PublicKeyDer = sh.key.spki
		}
		if sh.lower != nil {
			c.NotAfterStart = timestamppb.New(*sh.lower)
		}
		if sh.upper != nil {
			c.NotAfterLimit = timestamppb.New(*sh.upper)
		}
		cfg.Shard = append(cfg.Shard, c)
	}
	tlc, err := client.NewTemporalLogClient(cfg, &http.Client{Transport: m.rt})
	if err != nil {
		panic(err)
	}
	m.tlc = tlc
	return m
}

func (m *multi) reset() {
	n := len(m.shards)
	m.rt.script, m.rt.delay, m.rt.slept, m.rt.hit = make([]*script, n), make([]time.Duration, n), make([]bool, n), nil
	m.rt.next, m.rt.owner = map[string]int{}, map[*http.Request]int{}
}

// useForAll: whichever shard is asked in the next call, it answers from [sc]
func (m *multi) useForAll(sc *script) {
	m.reset()
	for i := range m.shards {
		m.rt.script[i] = sc
	}
}

// usePerShard: shard i answers from scs[i], after delays[i]
func (m *multi) usePerShard(scs []*script, delays []time.Duration) {
	m.reset()
	for i := range m.shards {
		m.rt.script[i], m.rt.delay[i] = scs[i], delays[i]
	}
}

func (m *multi) hits() []int {
	m.rt.mu.Lock()
	defer m.rt.mu.Unlock()
	return append([]int{}, m.rt.hit...)
}

// sameURI: shards a and b are configured with the same host (requests to them look alike)
func (m *multi) sameURI(a, b int) bool {
	return a >= 0 && b >= 0 && strings.EqualFold(m.shards[a].host, m.shards[b].host)
}

// mates: the OTHER shards configured with the host of shard i
func (m *multi) mates(i int) []int {
	var out []int
	for j := range m.shards {
		if j != i && m.sameURI(i, j) {
			out = append(out, j)
		}
	}
	return out
}

// shardFor: the shard whose interval [lower, upper) holds NotAfter of the certificate, as
// crypto/x509 reads it; -1: none; ok = false: crypto/x509 does not parse the certificate
func (m *multi) shardFor(der []byte) (int, bool) {
	c, err := stdx509.ParseCertificate(der)
	if err != nil {
		return -1, false
	}
	for i, sh := range m.shards {
		if (sh.lower == nil || !c.NotAfter.Before(*sh.lower)) && (sh.upper == nil || c.NotAfter.Before(*sh.upper)) {
			return i, true
		}
	}
	return -1, true
}

func ns(t time.Time) *big.Int {
	v := new(big.Int).Mul(big.NewInt(t.Unix()), big.NewInt(1000000000))
	return v.Add(v, big.NewInt(int64(t.Nanosecond())))
}

func (m *multi) notAfterCoq(certs [][]byte) string {
	if len(certs) > 0 {
		if c, err := stdx509.ParseCertificate(certs[0]); err == nil {
			return lib.ZBig(ns(c.NotAfter))
		}
	}
	return lib.Z(0)
}

func boundCoq(t *time.Time) string {
	if t == nil {
		return "None"
	}
	return lib.Some(lib.ZBig(ns(*t)))
}

// shardsCoq: the shards as the model sees them; [valid] is the signature table of shard [want]
func (m *multi) shardsCoq(want int, valid []string, other map[int][]string) string {
	var xs []string
	for i, sh := range m.shards {
		v := other[i]
		if i == want {
			v = valid
		}
		xs = append(xs, lib.Pair(lib.Pair(boundCoq(sh.lower), boundCoq(sh.upper)), cfgCoq(sh.key, v)))
	}
	return lib.List(xs)
}

func boundText(t *time.Time) string {
	if t == nil {
		return "unbounded"
	}
	return t.UTC().Format(time.RFC3339Nano)
}

func (m *multi) shardsJSON() interface{} {
	var out []map[string]string
	for _, sh := range m.shards {
		out = append(out, map[string]string{"host": sh.host, "uri": sh.baseURI(), "key": sh.keyName, "not_after_start": boundText(sh.lower), "not_after_limit": boundText(sh.upper)})
	}
	return out
}

func (m *multi) describe(want int) string {
	if want < 0 {
		return fmt.Sprintf("shards=%d expected-shard=none", len(m.shards))
	}
	if mates := m.mates(want); len(mates) > 0 {
		var ks []string
		for _, j := range mates {
			ks = append(ks, fmt.Sprintf("%d:%s", j, m.shards[j].keyName))
		}
		return fmt.Sprintf("shards=%d uri-groups=%s expected-shard=%d key=%s same-uri-as=[%s]", len(m.shards), m.groups, want, m.shards[want].keyName, strings.Join(ks, ","))
	}
	return fmt.Sprintf("shards=%d expected-shard=%d key=%s", len(m.shards), want, m.shards[want].keyName)
}

func (m *multi) did(step, class string) { m.trail = append(m.trail, step+" -> "+class) }

func (m *multi) history() interface{} {
	return map[string]interface{}{"session": m.name, "earlier_calls_on_this_client": append([]string{}, m.trail...)}
}

func (m *multi) tags() []string {
	n := len(m.trail)
	if n > 4 {
		n = 4
	}
	tags := []string{"history:session=sharded", fmt.Sprintf("history:earlier-calls=%d", n), fmt.Sprintf("sharded:shards=%d", len(m.shards))}
	if m.groups != "" {
		tags = append(tags, "sharded:uri-groups="+m.groups)
	}
	return tags
}

func (m *multi) after() string {
	if len(m.trail) == 0 {
		return ""
	}
	return fmt.Sprintf(" after %d earlier call(s) on the same client [%s]", len(m.trail), m.name)
}

// bubbleN: bubble for a call that talks to several scripts
func bubbleN(t *testing.T, scs []*script, f func(ctx context.Context)) (panicked bool, pv string) {
	synctest.Test(t, func(t *testing.T) {
		ctx, cancel := context.WithCancel(context.Background())
		for _, sc := range scs {
			sc.cancel = cancel
		}
		func() {
			defer func() {
				if r := recover(); r != nil {
					panicked, pv = true, fmt.Sprint(r)
				}
			}()
			f(ctx)
		}()
		cancel()
		time.Sleep(15 * time.Minute) // shards that were still being asked when the call returned finish here
	})
	return
}

// shardAnswer: what one shard is scripted to answer to get-roots in one call
type shardAnswer struct {
	name  string
	items []wireItem
}

// caseShardRoots: one TemporalLogClient.GetAcceptedRoots call; answers[i] / delays[i] belong to shard i
func caseShardRoots(t *testing.T, m *multi, answers []shardAnswer, delays []time.Duration) lib.Case {
	bodies := newBodyTable()
	ep := rootsEndpoint()
	var scs []*script
	for _, a := range answers {
		scs = append(scs, &script{items: finish(append([]wireItem{}, a.items...), bodies)})
	}
	m.usePerShard(scs, delays)
	var roots []ct.ASN1Cert
	var err error
	pan, pv := bubbleN(t, scs, func(ctx context.Context) { roots, err = m.tlc.GetAcceptedRoots(ctx) })
	obs := classify(err, pan, pv, bodies)

	// what every shard's client was handed, from that shard's transport log
	type shardSeen struct {
		att     attempt
		asked   bool
		good    bool     // a complete 200 whose JSON and base64 decode (the harness's own decoding)
		roots   [][]byte // ... and what it lists
		jsonCoq string
	}
	seen := make([]shardSeen, len(answers))
	for i, sc := range scs {
		atts := sc.attempts(bodies)
		s := shardSeen{att: attempt{NoResp: true, Class: "never-asked"}, jsonCoq: "None"}
		if len(atts) > 0 {
			s.att, s.asked = atts[len(atts)-1], true
		}
		if s.att.received && s.att.ReadOK {
			if c, _, ok := ep.decode(s.att.body); ok {
				s.jsonCoq = lib.Some(c)
			}
			if certs, ok := decodeRoots(s.att.body); ok && s.att.Status == 200 && s.att.CloseOK {
				s.good, s.roots = true, certs
			}
		}
		seen[i] = s
	}
	// the order in which the shards answer
	order := make([]int, len(answers))
	for i := range order {
		order[i] = i
	}
	sort.SliceStable(order, func(a, b int) bool { return delays[order[a]] < delays[order[b]] })
	var os []string
	for _, i := range order {
		os = append(os, coqAttempt(seen[i].att, seen[i].jsonCoq))
	}

	// direct oracle
	ok, note := true, ""
	var failing, names []string
	allGood := true
	for i, s := range seen {
		names = append(names, answers[i].name)
		if !s.good {
			allGood = false
			failing = append(failing, fmt.Sprintf("%d:%s", i, answers[i].name))
		}
	}
	got := [][]byte{}
	for _, c := range roots {
		got = append(got, c.Data)
	}
	switch {
	case obs.Class == "panic":
		ok, note = false, "panic: "+obs.Err
	case obs.Class == "ok" && !allGood:
		ok, note = false, fmt.Sprintf("a result (%d roots) and no error although shard(s) [%s] did not answer with a complete, decodable 200 response: a partially filled union",
			len(got), strings.Join(failing, ", "))
	case obs.Class == "ok":
		want := map[string]bool{}
		for _, s := range seen {
			for _, c := range s.roots {
				want[string(c)] = true
			}
		}
		have := map[string]bool{}
		for _, c := range got {
			if !want[string(c)] {
				ok, note = false, "the result holds a certificate that no shard sent"
			}
			have[string(c)] = true
		}
		if ok && len(have) != len(want) {
			ok, note = false, fmt.Sprintf("the result holds %d of the %d distinct certificates the shards sent", len(have), len(want))
		}
	case allGood:
		ok, note = false, "an error ("+obs.Class+") although every shard answered with a complete, decodable 200 response"
	case roots != nil:
		ok, note = false, "an error was returned together with a (partially filled) result"
	default:
		// the error must be that of one of the failing shards
		match := false
		for _, s := range seen {
			if s.good {
				continue
			}
			switch {
			case s.att.received && s.att.CloseOK: // a response arrived: an RspError with ITS status and body
				match = match || obs.Class == "rsp-error" && obs.Status == s.att.Status && string(obs.body) == string(s.att.body)
			case s.att.NoResp && s.att.Ctx:
				match = match || obs.Class == "context-error"
			default:
				match = match || obs.Class == "plain-error"
			}
		}
		if !match {
			ok, note = false, fmt.Sprintf("the error (%s status=%d) is not that of any failing shard [%s]: it does not carry a failing shard's status and body",
				obs.Class, obs.Status, strings.Join(failing, ", "))
		}
	}
	var ds []string
	for _, d := range delays {
		ds = append(ds, d.String())
	}
	where := fmt.Sprintf(" (shards=%d answers=[%s] latencies=[%s])", len(answers), strings.Join(names, ", "), strings.Join(ds, ", "))
	if !ok {
		note = "temporal GetAcceptedRoots: " + note + where + m.after()
	}
	obsCoq := obs.coq()
	if obs.Class == "ok" {
		obsCoq = "(COk " + listCoq(got) + ")"
	}
	hist, htags := m.history(), m.tags()
	cls := "all-good"
	if !allGood {
		cls = fmt.Sprintf("failing=%d", len(failing))
	}
	m.did("get-roots ["+strings.Join(names, ", ")+"]", obs.Class)
	var shardIn []interface{}
	for i, s := range seen {
		shardIn = append(shardIn, map[string]interface{}{"shard": i, "answer": answers[i].name, "latency": delays[i].String(), "script": scs[i].items, "seen": s.att, "asked": s.asked})
	}
	tags := append([]string{"method:TemporalGetAcceptedRoots", "sharded:roots:" + cls, "result:" + obs.Class}, htags...)
	for i, s := range seen {
		if !s.good {
			tags = append(tags, fmt.Sprintf("sharded:roots:fault-at=%d-of-%d:%s", i, len(seen), answers[i].name))
			if i == len(seen)-1 {
				tags = append(tags, "sharded:roots:fault-on-last-shard")
			} else {
				tags = append(tags, "sharded:roots:fault-on-non-last-shard")
			}
		}
	}
	return lib.Case{
		Coq:    fmt.Sprintf("CTemporalRoots %s %s", lib.List(os), obsCoq),
		Input:  map[string]interface{}{"method": "TemporalLogClient.GetAcceptedRoots", "shards": m.shardsJSON(), "per_shard": shardIn, "answer_order": order, "history": hist},
		Impl:   obs,
		PropOK: ok, Note: note, Tags: tags,
	}
}

// decodeRoots: RFC 6962 s4.7 read by the harness: {"certificates":[base64...]}; ok = the JSON decodes
// and every element is base64 (an absent / null / empty list is a good, empty answer)
func decodeRoots(body []byte) ([][]byte, bool) {
	var m mRoots
	if json.Unmarshal(body, &m) != nil {
		return nil, false
	}
	certs := [][]byte{}
	for _, c := range m.Certificates {
		b, err := base64.StdEncoding.DecodeString(c)
		if err != nil {
			return nil, false
		}
		certs = append(certs, b)
	}
	return certs, true
}

// ---------------------------------------------------------------- fixtures and generation

var shardBounds = []time.Time{
	time.Date(2030, 1, 1, 0, 0, 0, 0, time.UTC),
	time.Date(2031, 1, 1, 0, 0, 0, 0, time.UTC),
	time.Date(2031, 7, 1, 12, 30, 0, 0, time.UTC),
	time.Date(2033, 1, 1, 0, 0, 0, 0, time.UTC),
	time.Date(2050, 1, 1, 0, 0, 0, 0, time.UTC), // GeneralizedTime from here on
}

type datedChain struct {
	chainFix
	precert bool
}

// datedChains: chains whose head expires one second before, exactly on and one second after every
// boundary; X.509 everywhere, precertificates (one through a Precertificate Signing Certificate) on some
func (f *fixtures) datedChains() []datedChain {
	if f.dated != nil {
		return f.dated
	}
	for bi, b := range shardBounds {
		for di, d := range []time.Duration{-time.Second, 0, time.Second} {
			na := b.Add(d)
			tag := fmt.Sprintf("bound%d%+ds", bi, int(d/time.Second))
			o := pki.Opts{CN: "dated-" + tag + ".c12.example", KeyIdx: 42, NotAfter: na, DNSNames: []string{"dated.c12.example"}}
			l := pki.Issue(o, f.inter)
			f.dated = append(f.dated, datedChain{chainFix{name: "x509-dated:" + tag, certs: [][]byte{l.DER, f.inter.DER, f.root.DER}}, false})
			if di == 1 || (bi+di)%3 == 0 {
				o.CN = "pre-" + o.CN
				p, ref := issuePre(o, f.inter, f.inter)
				certs := [][]byte{p.DER, f.inter.DER, f.root.DER}
				f.dated = append(f.dated, datedChain{chainFix{name: "pre-dated:" + tag, certs: certs, ref: ref, alts: altsOf(certs, ref)}, true})
			}
		}
	}
	return f.dated
}

func goodRootsBody(certs ...[]byte) []byte {
	var xs []string
	for _, c := range certs {
		xs = append(xs, `"`+b64(c)+`"`)
	}
	return []byte(`{"certificates":[` + strings.Join(xs, ",") + `]}`)
}

// rootFaults: the ways one shard's get-roots answer can be bad, around a body that would be good
func rootFaults(good []byte) []shardAnswer {
	one := func(name string, it wireItem) shardAnswer { return shardAnswer{name, []wireItem{it}} }
	notB64 := bytes.Replace(good, []byte(`"]}`), []byte(`","###"]}`), 1)
	return []shardAnswer{
		one("500-html", resp(500, []byte(htmlPage), "html-body")),
		one("404-good-body", resp(404, good, "good-body")),
		one("200-truncated-json", resp(200, good[:len(good)*2/3], "truncated-json")),
		one("200-certificate-not-base64", resp(200, notB64, "bad-base64")),
		one("transport-error", wireItem{Transport: true, ReadFail: -1, Class: "transport-error"}),
		one("200-html-page", resp(200, []byte(htmlPage), "html-body")),
		one("200-read-fails-midway", wireItem{Status: 200, Body: good, ReadFail: len(good) / 2, Class: "read-fail"}),
		one("200-close-fails", wireItem{Status: 200, Body: good, ReadFail: -1, CloseFail: true, Class: "close-fail"}),
		one("503-empty", resp(503, nil, "empty-body").withHeader("Retry-After", "1")),
		one("200-element-is-number", resp(200, []byte(`{"certificates":[1,2]}`), "wrong-type")),
		{"context-ends", nil},
		{"302-then-500", []wireItem{resp(302, nil, "redirect").withHeader("Location", "/ct/v1/moved"), resp(500, []byte(htmlPage), "html-body")}},
	}
}

func genMultiShard(t *testing.T, r randT, w *lib.Writer, fx *fixtures, rep int) {
	keyPool := []struct {
		k    *logKey
		name string
	}{{fx.keys[0], "p256-a"}, {fx.keys[1], "rsa2048-a"}, {fx.foreign[0], "p256-b"}, {fx.foreign[1], "rsa2048-b"}, {nil, "none"}}
	dated := fx.datedChains()
	other := entryOf(fx.chain("x509-other"), false)
	for n := 2; n <= 4; n++ {
		// the shards: consecutive intervals between the boundaries, the outer bounds open or closed
		first := r.Intn(len(shardBounds) - n)
		var shards []shardCfg
		kp := r.Perm(len(keyPool))
		for i := 0; i < n; i++ {
			lo, hi := shardBounds[first+i], shardBounds[first+i+1]
			sh := shardCfg{host: fmt.Sprintf("shard%d.c12.example", i), key: keyPool[kp[i]].k, keyName: keyPool[kp[i]].name, lower: &lo, upper: &hi}
			if i == 0 && r.Intn(2) == 0 {
				sh.lower = nil
			}
			if i == n-1 && r.Intn(2) == 0 {
				sh.upper = nil
			}
			shards = append(shards, sh)
		}
		m := newMulti(fmt.Sprintf("temporal client with %d shards", n), shards)

		// what every shard lists when it is well: a certificate all shards list, one only it lists, one it shares with the next shard
		uniq := func(i int) []byte { return dated[(3*i+rep)%len(dated)].certs[0] }
		goodOf := func(i int) []byte {
			return goodRootsBody(fx.root.DER, uniq(i), []([]byte){fx.inter.DER, fx.leaf.DER}[(i/2)%2])
		}
		wellAll := func() []shardAnswer {
			var as []shardAnswer
			for i := 0; i < n; i++ {
				as = append(as, shardAnswer{"good", []wireItem{resp(200, goodOf(i), "good-body")}})
			}
			return as
		}
		delays := func() []time.Duration {
			var ds []time.Duration
			for _, p := range r.Perm(n) {
				ds = append(ds, time.Duration(1+p)*7*time.Millisecond)
			}
			return ds
		}
		type step func()
		var steps []step
		roots := func(as []shardAnswer) step { return func() { w.Add(caseShardRoots(t, m, as, delays())) } }
		steps = append(steps, roots(wellAll()))
		// one fault, on every shard position
		nf := len(rootFaults(goodOf(0)))
		for pos := 0; pos < n; pos++ {
			for fi := 0; fi < nf; fi++ {
				if lib.Tier() == "quick" && fi >= 5 && (fi+pos+rep+n)%3 != 0 {
					continue // the first five faults on every position in every run
				}
				as := wellAll()
				as[pos] = rootFaults(goodOf(pos))[fi]
				steps = append(steps, roots(as))
			}
		}
		// two faults; all shards fail; an empty list among good ones; every shard lists the same
		for k := 0; k < lib.Count(2, 6); k++ {
			as := wellAll()
			p := r.Perm(n)
			as[p[0]] = rootFaults(goodOf(p[0]))[r.Intn(nf)]
			as[p[1]] = rootFaults(goodOf(p[1]))[r.Intn(nf)]
			steps = append(steps, roots(as))
		}
		{
			as := wellAll()
			for i := range as {
				as[i] = rootFaults(goodOf(i))[r.Intn(nf)]
			}
			steps = append(steps, roots(as))
			as = wellAll()
			as[r.Intn(n)] = shardAnswer{"good-empty-list", []wireItem{resp(200, []byte(`{"certificates":[]}`), "good-body")}}
			steps = append(steps, roots(as))
			as = wellAll()
			for i := range as {
				as[i] = shardAnswer{"good-same-list", []wireItem{resp(200, goodRootsBody(fx.root.DER, fx.inter.DER), "good-body")}}
			}
			steps = append(steps, roots(as))
		}
		// submissions routed by NotAfter; "foreign" = the key of a neighbouring shard (a genuine log key
		// of this client, the wrong one here)
		neighbour := func(want int, signer *logKey) *logKey {
			for d := 1; d < n; d++ {
				if k := shards[((want+d)%n+n)%n].key; k != nil && k != signer {
					return k
				}
			}
			return nil
		}
		add := func(dc datedChain, vname string) step {
			return func() { addSharded(t, r, w, fx, m, dc, vname, neighbour, other) }
		}
		vnames := []string{"valid", "foreign-signature-and-foreign-id", "foreign-signature", "id-of-foreign-key", "timestamp-changed", "500", "valid-with-extensions"}
		for di, dc := range dated {
			if lib.Tier() == "quick" && (di+rep+n)%3 != 0 {
				continue
			}
			steps = append(steps, add(dc, "valid"))
			steps = append(steps, add(dc, vnames[1+(len(steps)+rep)%(len(vnames)-1)]))
			if dc.precert && len(dc.alts) > 0 {
				steps = append(steps, add(dc, "signed-over-wrong-entry:"+dc.alts[(di+rep)%len(dc.alts)].name))
			}
		}
		// a chain through a Precertificate Signing Certificate and chains the temporal client refuses
		for _, c := range []datedChain{{fx.chain("pre-preissuer"), true}, {fx.chain("empty"), false}, {fx.chain("garbage"), true}} {
			steps = append(steps, add(c, "valid"))
		}
		// ONE history: the first call finds the client fresh, the others come in a random order
		rest := steps[1:]
		r.Shuffle(len(rest), func(i, j int) { rest[i], rest[j] = rest[j], rest[i] })
		for _, s := range steps {
			s()
		}
	}
}

// addSharded: one AddChain / AddPreChain call on the temporal client [m], answered with the response
// class [vname] made for the shard that the harness's own reading of the chain selects: signed by
// that shard's key; its "foreign" key is foreignOf(selected shard, signer) (nil: a key of no shard)
func addSharded(t *testing.T, r randT, w *lib.Writer, fx *fixtures, m *multi, dc datedChain, vname string,
	foreignOf func(want int, signer *logKey) *logKey, other *entry) {
	want := -1
	if len(dc.certs) > 0 {
		want, _ = m.shardFor(dc.certs[0])
	}
	signer := fx.keys[0]
	if want >= 0 && m.shards[want].key != nil {
		signer = m.shards[want].key
	}
	foreign := foreignOf(want, signer)
	if foreign == nil {
		foreign = fx.foreign[0]
	}
	if foreign == signer {
		foreign = fx.foreign[1]
	}
	e := entryOf(dc.chainFix, dc.precert)
	if e == nil {
		e = standIn(fx, dc.precert)
	}
	vs, _ := sctVariants(r, fx, signer, foreign, dc.chainFix, e, other)
	for _, v := range vs {
		if v.name == vname {
			w.Add(caseAddChain(t, addSpec{multi: m, precert: dc.precert, chain: dc.chainFix, name: v.name, idClass: v.idClass, items: v.items}))
			return
		}
	}
	// not a response class: an HTTP fault
	w.Add(caseAddChain(t, addSpec{multi: m, precert: dc.precert, chain: dc.chainFix, name: vname, idClass: "n/a",
		items: []wireItem{resp(500, []byte(htmlPage), "500")}}))
}

// uriGroupings: which shards are configured with the same base URI (shard i is in group g[i]); every
// grouping has a shard that comes AFTER another shard with the same URI
var uriGroupings = map[int][][]int{
	2: {{0, 0}},
	3: {{0, 0, 0}, {0, 1, 0}, {0, 0, 1}, {0, 1, 1}},
	4: {{0, 0, 0, 0}, {0, 1, 0, 1}, {0, 0, 1, 1}, {0, 1, 1, 0}, {0, 1, 2, 1}, {0, 0, 0, 1}},
}

// genSharedURI: temporal clients whose shards SHARE base URIs (one front-end serving several shards
// of a log) while every shard has its own key (or none) and its own interval.  Per shard: chains
// that belong to it (first second, second second, last second of its interval), answered with a
// genuine SCT of its own log, with a genuine SCT of EVERY other shard configured with the same URI
// (that shard's signature and log id: what the one server would hand out had it filed the chain
// under the wrong shard), with that shard's signature under the right id, the right signature under
// that shard's id, and further classes; get-roots calls (all well, a fault on one position) in
// between.  The oracle is caseAddChain's / caseShardRoots's: the returned SCT verifies under the key
// configured for the shard whose interval holds NotAfter, verified here with crypto/ecdsa / crypto/rsa.
func genSharedURI(t *testing.T, r randT, w *lib.Writer, fx *fixtures, rep int) {
	keyPool := []struct {
		k    *logKey
		name string
	}{{fx.keys[0], "p256-a"}, {fx.keys[1], "rsa2048-a"}, {fx.foreign[0], "p256-b"}, {fx.foreign[1], "rsa2048-b"}, {nil, "none"}}
	dated := fx.datedChains()
	other := entryOf(fx.chain("x509-other"), false)
	spell := func(host string, k int) string {
		if k == 0 {
			return "http://" + host + []string{"/ct", "/ct/"}[r.Intn(2)]
		}
		if r.Intn(4) == 0 {
			host = strings.ToUpper(host)
		}
		return "http://" + host + []string{"/ct", "/ct/", "/ct//"}[r.Intn(3)]
	}
	for n := 2; n <= 4; n++ {
		gs := uriGroupings[n]
		picks := [][]int{gs[(r.Intn(len(gs))+rep)%len(gs)]}
		if lib.Tier() != "quick" && len(gs) > 1 && rep%2 == 0 {
			picks = append(picks, gs[(r.Intn(len(gs)-1)+1+indexOfGrouping(gs, picks[0]))%len(gs)])
		}
		for _, g := range picks {
			first := r.Intn(len(shardBounds) - n)
			kp := r.Perm(len(keyPool))
			if keyPool[kp[0]].k == nil && r.Intn(2) == 0 {
				kp[0], kp[1] = kp[1], kp[0] // "no key" on the first shard of a URI in half of its draws only
			}
			var shards []shardCfg
			var gtxt []string
			nth := map[int]int{}
			for i := 0; i < n; i++ {
				lo, hi := shardBounds[first+i], shardBounds[first+i+1]
				host := fmt.Sprintf("frontend%d.c12.example", g[i])
				sh := shardCfg{host: host, uri: spell(host, nth[g[i]]), key: keyPool[kp[i]].k, keyName: keyPool[kp[i]].name, lower: &lo, upper: &hi}
				nth[g[i]]++
				if i == 0 && r.Intn(2) == 0 {
					sh.lower = nil
				}
				if i == n-1 && r.Intn(2) == 0 {
					sh.upper = nil
				}
				shards = append(shards, sh)
				gtxt = append(gtxt, fmt.Sprint(g[i]))
			}
			m := newMulti(fmt.Sprintf("temporal client with %d shards behind shared URIs", n), shards)
			m.groups = strings.Join(gtxt, "-")

			var steps []func()
			// the chains of every shard
			for i := 0; i < n; i++ {
				var mine []datedChain
				for _, dc := range dated {
					if s, ok := m.shardFor(dc.certs[0]); ok && s == i {
						mine = append(mine, dc)
					}
				}
				if len(mine) == 0 {
					panic("c12: no dated chain for a shard")
				}
				if len(mine) > 2 {
					// one certificate chain and one precertificate chain (when there is one); thorough: one more
					p := r.Perm(len(mine))
					sel := []datedChain{mine[p[0]]}
					for _, j := range p[1:] {
						if mine[j].precert != sel[0].precert {
							sel = append(sel, mine[j])
							break
						}
					}
					if lib.Tier() != "quick" {
						for _, j := range p[1:] {
							if mine[j].name != sel[len(sel)-1].name && mine[j].name != sel[0].name {
								sel = append(sel, mine[j])
								break
							}
						}
					}
					mine = sel
				}
				mates := m.mates(i)
				for ci, dc := range mine {
					dc := dc
					mate := func(j int) func(int, *logKey) *logKey {
						return func(int, *logKey) *logKey { return shards[j].key }
					}
					anyMate := func(int, *logKey) *logKey { return nil }
					if len(mates) > 0 {
						anyMate = mate(mates[r.Intn(len(mates))])
					}
					steps = append(steps, func() { addSharded(t, r, w, fx, m, dc, "valid", anyMate, other) })
					// a genuine SCT of every other shard behind the same URI
					for _, j := range mates {
						f := mate(j)
						steps = append(steps, func() { addSharded(t, r, w, fx, m, dc, "foreign-signature-and-foreign-id", f, other) })
					}
					vn := []string{"foreign-signature", "id-of-foreign-key", "timestamp-changed", "500", "valid-with-extensions", "signed-for-another-chain", "id-absent"}[(ci+i+rep+r.Intn(7))%7]
					steps = append(steps, func() { addSharded(t, r, w, fx, m, dc, vn, anyMate, other) })
					if len(mates) == 0 {
						steps = append(steps, func() { addSharded(t, r, w, fx, m, dc, "foreign-signature-and-foreign-id", anyMate, other) })
					}
				}
			}
			// get-roots: all well; one fault on every position
			uniq := func(i int) []byte { return dated[(3*i+rep+1)%len(dated)].certs[0] }
			goodOf := func(i int) []byte { return goodRootsBody(fx.root.DER, uniq(i)) }
			wellAll := func() []shardAnswer {
				var as []shardAnswer
				for i := 0; i < n; i++ {
					as = append(as, shardAnswer{"good", []wireItem{resp(200, goodOf(i), "good-body")}})
				}
				return as
			}
			delays := func() []time.Duration {
				var ds []time.Duration
				for _, p := range r.Perm(n) {
					ds = append(ds, time.Duration(1+p)*7*time.Millisecond)
				}
				return ds
			}
			roots := func(as []shardAnswer) func() { return func() { w.Add(caseShardRoots(t, m, as, delays())) } }
			steps = append(steps, roots(wellAll()))
			nf := len(rootFaults(goodOf(0)))
			for pos := 0; pos < n; pos++ {
				as := wellAll()
				as[pos] = rootFaults(goodOf(pos))[r.Intn(nf)]
				steps = append(steps, roots(as))
			}
			// ONE history per client, in a random order
			r.Shuffle(len(steps), func(i, j int) { steps[i], steps[j] = steps[j], steps[i] })
			for _, s := range steps {
				s()
			}
		}
	}
}

func indexOfGrouping(gs [][]int, g []int) int {
	for i := range gs {
		if &gs[i][0] == &g[0] {
			return i
		}
	}
	return 0
}
