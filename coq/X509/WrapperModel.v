(* C11 - the strict-then-lax wrappers of x509/x509.go, revoked.go, pkcs8.go over an ABSTRACT
   inner parser.  Definitions only.

   The 3000-line field parser (parseCertificate and what it calls) is NOT modelled: it is a
   Section variable [parse].  What is modelled, branch for branch, is the control flow of
   the exported entry points around it: strict asn1.Unmarshal, on failure the lax retry,
   the trailing-data check, the collection of non-fatal errors into one NonFatalErrors
   value, the type assertion that separates non-fatal from fatal inner errors, and for
   ParseCertificates the two loops over a concatenation.

   The model is that of the tree after fix commit 35496df.  The one place where the
   code before it differs is [retry_input] (what the lax retry is handed): the identity in
   the patched code, the empty input in the unpatched code (ParseCertificates overwrote
   asn1Data with the nil rest of the failed strict attempt) - see Findings/C11Prefix.v. *)
From Coq Require Import List Bool NArith String.
Import ListNotations.

Section Wrappers.
  Variable B : Type.                 (* input: a byte string, or an offset into a fixed one *)
  Variable is_empty : B -> bool.     (* len(b) == 0 *)
  Variable measure : B -> nat.       (* len(b) *)
  Variable St : Type.                (* what asn1.Unmarshal fills in: x509.certificate / tbsCertificate / ... *)
  Variable Ob : Type.                 (* the object handed to the caller: *Certificate, ... (None = nil) *)
  Variable E : Type.                 (* an individual error value *)

  (* a Go error as IsFatal sees it *)
  Inductive err :=
  | ErrNil
  | ErrNfe (es : list E)                     (* NonFatalErrors{es} *)
  | ErrErrs (ids : list (string * bool))     (* *Errors: the entries' IDs with their Fatal flag *)
  | ErrOther (e : E).                        (* anything else *)

  (* x509.IsFatal *)
  Definition is_fatal_err (e : err) : bool :=
    match e with
    | ErrNil => false
    | ErrNfe _ => false
    | ErrErrs ids => existsb snd ids          (* Fatal() of the Errors pointer: FirstFatal() != nil *)
    | ErrOther _ => true
    end.

  (* asn1.Unmarshal / UnmarshalWithParams(..., "lax") *)
  Inductive ures := UOk (s : St) (rest : B) | UErr (e : E).
  Variable unm : bool -> B -> ures.          (* lax? -> input -> result *)
  (* parseCertificate: returns whatever it returns - the contract is a hypothesis of the theorems *)
  Variable parse : St -> option Ob * err.
  Variable e_trailing : E.                   (* asn1.SyntaxError{Msg: "trailing data"} *)

  (* rest, err := Unmarshal(b, &x); if err != nil { rest, laxErr = UnmarshalWithParams(retry b, &x, "lax");
     if laxErr != nil { return nil, laxErr }; nfe.AddError(err) } *)
  Definition strict_then_lax_gen (retry_input : B -> B) (b : B) : (St * B * list E) + E :=
    match unm false b with
    | UOk s rest => inl (s, rest, [])
    | UErr e => match unm true (retry_input b) with
                | UOk s rest => inl (s, rest, [e])
                | UErr le => inr le
                end
    end.
  Definition strict_then_lax := strict_then_lax_gen (fun b => b).

  Definition nonempty {T} (l : list T) : bool := match l with [] => false | _ => true end.

  (* if nfe.HasError() { return ret, nfe }; return ret, nil *)
  Definition finish {T} (o : option T) (nfe : list E) : option T * err :=
    if nonempty nfe then (o, ErrNfe nfe) else (o, ErrNil).

  (* ret, err := parseCertificate(..); if err != nil { errs, ok := err.(NonFatalErrors); if !ok { return nil, err };
     nfe.Errors = append(nfe.Errors, errs.Errors...) }; ... *)
  Definition after_parse (nfe : list E) (r : option Ob * err) : option Ob * err :=
    match snd r with
    | ErrNil => finish (fst r) nfe
    | ErrNfe es => finish (fst r) (nfe ++ es)
    | e => (None, e)
    end.

  (* ParseCertificate; ParseTBSCertificate is the same function at the tbsCertificate
     structure with [parse] precomposed with the embedding into certificate{Raw, TBSCertificate} *)
  Definition parse_single (b : B) : option Ob * err :=
    match strict_then_lax b with
    | inr le => (None, ErrOther le)
    | inl (s, rest, nfe) =>
      if negb (is_empty rest) then (None, ErrOther e_trailing)
      else after_parse nfe (parse s)
    end.

  (* ---- ParseCertificates ---- *)
  (* first loop: for len(asn1Data) > 0 { ... v = append(v, cert) }; fuel = an upper bound on
     the number of iterations, None = the loop did not finish within it *)
  Fixpoint unmarshal_all_gen (retry_input : B -> B) (fuel : nat) (b : B) : option ((list St * list E) + E) :=
    if is_empty b then Some (inl ([], [])) else
    match fuel with
    | O => None
    | S f =>
      match strict_then_lax_gen retry_input b with
      | inr le => Some (inr le)
      | inl (s, rest, es) =>
        match unmarshal_all_gen retry_input f rest with
        | None => None
        | Some (inr le) => Some (inr le)
        | Some (inl (ss, es')) => Some (inl (s :: ss, es ++ es'))
        end
      end
    end.

  (* second loop: for i, ci := range v { cert, err := parseCertificate(ci); ... ret[i] = cert } *)
  Fixpoint parse_all (ss : list St) : (list (option Ob) * list E) + err :=
    match ss with
    | [] => inl ([], [])
    | s :: ss' =>
      match snd (parse s) with
      | ErrNil => match parse_all ss' with
                  | inr e => inr e
                  | inl (os, es) => inl (fst (parse s) :: os, es)
                  end
      | ErrNfe pes => match parse_all ss' with
                      | inr e => inr e
                      | inl (os, es) => inl (fst (parse s) :: os, pes ++ es)
                      end
      | e => inr e
      end
    end.

  Inductive wres (T : Type) := WRet (o : option T) (e : err) | WHang.
  Arguments WRet {T}. Arguments WHang {T}.

  Definition parse_many_gen (retry_input : B -> B) (b : B) : wres (list (option Ob)) :=
    match unmarshal_all_gen retry_input (S (measure b)) b with
    | None => WHang
    | Some (inr le) => WRet None (ErrOther le)
    | Some (inl (ss, es)) =>
      match parse_all ss with
      | inr e => WRet None e
      | inl (os, pes) => let r := finish (Some os) (es ++ pes) in WRet (fst r) (snd r)
      end
    end.
  Definition parse_many := parse_many_gen (fun b => b).

  (* ---- strict-only entry points: ParseDERCRL, ParseCertificateRequest, ParsePKCS1PublicKey, ... ----
     rest, err := asn1.Unmarshal(b, &x); if err != nil { return nil, err } else if len(rest) != 0 { return nil, trailing };
     return inner(&x) *)
  Variable e_trailing' : E.
  Definition parse_strict_only (inner : St -> option Ob * err) (b : B) : option Ob * err :=
    match unm false b with
    | UErr e => (None, ErrOther e)
    | UOk s rest => if negb (is_empty rest) then (None, ErrOther e_trailing') else inner s
    end.

  (* ParseCRL / ParseCertificateList: a PEM block of the right type is unwrapped first *)
  Variable pem_strip : B -> B.
  Definition with_pem (f : B -> option Ob * err) (b : B) : option Ob * err := f (pem_strip b).

  (* ---- ParseCertificateListDER: errors are collected in an *Errors ---- *)
  Variable fatal_id : string -> bool.        (* errors.go: idToError[id].Fatal (the GENERATED table) *)
  (* what cracking the revoked certificates and extensions does: either the FreshestCRL arm
     returns (nil, plain error), or it finishes having added some ids *)
  Inductive crack := CrackAbort (e : E) | CrackDone (o : Ob) (ids : list string).
  Variable crack_list : St -> crack.
  Definition flagged (ids : list string) : list (string * bool) := map (fun i => (i, fatal_id i)) ids.
  Definition parse_list_der (b : B) : option Ob * err :=
    match unm false b with
    | UErr _ => (None, ErrErrs (flagged ["ErrInvalidCertList"%string]))
    | UOk s rest =>
      if negb (is_empty rest) then (None, ErrErrs (flagged ["ErrTrailingCertList"%string])) else
      match crack_list s with
      | CrackAbort e => (None, ErrOther e)
      | CrackDone o ids =>
        if existsb fatal_id ids then (None, ErrErrs (flagged ids))        (* if errs.Fatal() *)
        else if nonempty ids then (Some o, ErrErrs (flagged ids))          (* return &certList, &errs *)
        else (Some o, ErrNil)                                              (* if errs.Empty() *)
      end
    end.

  (* ---- ParsePKIXPublicKey: non-fatal errors of the key parser are turned into fatal ones ---- *)
  Variable known_algo : St -> bool.          (* getPublicKeyAlgorithmFromOID(..) != UnknownPublicKeyAlgorithm *)
  Variable e_unknown_algo : E.
  Variable parse_key : St -> (option Ob * err) * list E.     (* parsePublicKey(algo, &pki, &nfe): result and what it added to nfe *)
  Definition parse_pkix (b : B) : option Ob * err :=
    match unm false b with
    | UErr e => (None, ErrOther e)
    | UOk s rest =>
      if negb (is_empty rest) then (None, ErrOther e_trailing') else
      if negb (known_algo s) then (None, ErrOther e_unknown_algo) else
      let '((pub, e), nfes) := parse_key s in
      match e with
      | ErrNil => match nfes with
                  | [] => (pub, ErrNil)
                  | e0 :: _ => (None, ErrOther e0)          (* return nil, nfe.Errors[0] *)
                  end
      | _ => (pub, e)                                       (* if err != nil { return pub, err } *)
      end
    end.

  (* ---- ParsePKCS8PrivateKey: dispatch on the algorithm, inner errors re-wrapped with errors.New ---- *)
  Variable wrap_err : E -> E.
  Inductive p8algo := P8RSA | P8EC | P8Ed (ok : bool) (key : Ob) | P8Unknown.
  Variable p8_algo : St -> p8algo.
  Variable e_p8 : E.
  Variable inner_rsa inner_ec : St -> option Ob * err.
  Definition rewrap (r : option Ob * err) : option Ob * err :=
    match snd r with
    | ErrNil => (fst r, ErrNil)                            (* return key, nil *)
    | ErrNfe _ | ErrErrs _ => (None, ErrOther e_p8)        (* errors.New(... + err.Error()) *)
    | ErrOther e => (None, ErrOther (wrap_err e))
    end.
  Definition parse_pkcs8 (b : B) : option Ob * err :=
    match unm false b with
    | UErr e => (None, ErrOther e)                         (* whichever hint is chosen, a plain error *)
    | UOk s _ =>                                           (* the rest is not inspected by this entry point *)
      match p8_algo s with
      | P8RSA => rewrap (inner_rsa s)
      | P8EC => rewrap (inner_ec s)
      | P8Ed true k => (Some k, ErrNil)
      | P8Ed false _ => (None, ErrOther e_p8)
      | P8Unknown => (None, ErrOther e_p8)
      end
    end.

  (* ---- the property's clause on a returned pair ---- *)
  Definition coherent_pair {T} (r : option T * err) : Prop :=
    match fst r with
    | Some _ => is_fatal_err (snd r) = false
    | None => is_fatal_err (snd r) = true
    end.
  Definition coherent_pairb {T} (r : option T * err) : bool :=
    match fst r with
    | Some _ => negb (is_fatal_err (snd r))
    | None => is_fatal_err (snd r)
    end.
End Wrappers.

Arguments ErrNil {E}. Arguments ErrNfe {E}. Arguments ErrErrs {E}. Arguments ErrOther {E}.
Arguments UOk {B St E}. Arguments UErr {B St E}.
Arguments WRet {E T}. Arguments WHang {E T}.
Arguments CrackAbort {Ob E}. Arguments CrackDone {Ob E}.
Arguments P8RSA {Ob}. Arguments P8EC {Ob}. Arguments P8Ed {Ob}. Arguments P8Unknown {Ob}.

(* ---- x509.IsFatal on Go error values, one level more concrete than [err]: the dynamic
   type and, for *Errors, whether the pointer is nil ---- *)
Inductive goerr :=
| GNil                                   (* the nil error *)
| GNfe (n : N)                           (* NonFatalErrors VALUE with n entries (n may be 0) *)
| GNfePtr                                (* *NonFatalErrors: not what the type assertion looks for *)
| GErrs (flags : option (list bool))     (* *Errors: nil pointer, or the entries' Fatal flags *)
| GOther.                                (* errors.New, asn1 errors, x509.Error, ... *)

Definition go_is_fatal (e : goerr) : bool :=
  match e with
  | GNil => false                                   (* if err == nil { return false } *)
  | GNfe _ => false                                 (* if _, ok := err.(NonFatalErrors); ok { return false } *)
  | GErrs None => false                             (* errs.Fatal() on a nil *Errors: FirstFatal returns nil *)
  | GErrs (Some fl) => existsb (fun b => b) fl      (* errs.Fatal() *)
  | GNfePtr | GOther => true                        (* return true *)
  end.
