(* C06 proofs, part A: shapes of generated proofs (every node is a hash value; audit paths of
   trees with two or more leaves are not empty), prefix bookkeeping, and - endpoint by endpoint -
   "in-range parameters against the honest backend are answered 200 with exactly this body",
   through the C08 decision functions and the generated conditions. *)
From Coq Require Import ZArith NArith Bool List Lia PeanoNat.
From Coq.Strings Require Import Byte.
From V Require Import Base.GoInt Base.Bytes Merkle.Merkle Merkle.MerkleProofs TLS.TlsModel gen.CtTypes CT.Rfc6962Spec CT.CtFuncs
  gen.HttpStatus gen.GetEntries gen.HandlerConds CTFE.HandlersModel CTFE.HandlersProofs CTFE.RangeProofs CTFE.LogModel.
Import ListNotations.
Open Scope Z_scope.
Open Scope bool_scope.

(* ------------------------------------------------------------------ lists *)

Lemma firstN_app_exact {A} (a b : list A) : firstN (lenN a) (a ++ b) = a.
Proof.
  unfold firstN, lenN. rewrite Nat2N.id. rewrite firstn_app, Nat.sub_diag. cbn [firstn].
  rewrite firstn_all, app_nil_r. reflexivity.
Qed.

Lemma firstN_app_le {A} n (a b : list A) : (n <= lenN a)%N -> firstN n (a ++ b) = firstN n a.
Proof.
  intros Hn. unfold firstN, lenN in *. rewrite firstn_app.
  replace (N.to_nat n - length a)%nat with 0%nat by lia. cbn [firstn]. apply app_nil_r.
Qed.

Lemma lenN_app {A} (a b : list A) : lenN (a ++ b) = (lenN a + lenN b)%N.
Proof. unfold lenN. rewrite app_length. lia. Qed.

Lemma lenN_map {A B} (f : A -> B) l : lenN (map f l) = lenN l.
Proof. unfold lenN. rewrite map_length. reflexivity. Qed.

Lemma nthN_firstN {A} i n (l : list A) d : (i < n)%N -> nthN i (firstN n l) d = nthN i l d.
Proof. intros Hi. unfold nthN, firstN. apply nth_firstn_lt. lia. Qed.

(* ------------------------------------------------------------------ shapes of proofs *)

Section Shapes.
  Variable H : bytes -> bytes.
  Variable hlen : nat.
  Hypothesis H_len : forall x, length (H x) = hlen.

  Lemma mth_length l : length (mth H l) = hlen.
  Proof. destruct (mth_is_hash H l) as [x ->]. apply H_len. Qed.

  Lemma subproof_sized : forall f m l b, Forall (fun h => length h = hlen) (subproof_f H f m l b).
  Proof.
    induction f as [|f IH]; intros m l b; cbn [subproof_f].
    - destruct (m =? lenN l)%N; [destruct b|]; repeat constructor. apply mth_length.
    - destruct (m =? lenN l)%N; [destruct b; repeat constructor; apply mth_length|].
      destruct (m <=? pow2lt (lenN l))%N; apply Forall_app; split; try apply IH; repeat constructor; apply mth_length.
  Qed.

  Lemma cproof_sized m l : Forall (fun h => length h = hlen) (cproof H m l).
  Proof. apply subproof_sized. Qed.

  Lemma path_f_sized : forall f i l, Forall (fun h => length h = hlen) (path_f H f i l).
  Proof.
    induction f as [|f IH]; intros i l; cbn [path_f]; [constructor|].
    destruct (lenN l <=? 1)%N; [constructor|].
    destruct (i <? pow2lt (lenN l))%N; apply Forall_app; split; try apply IH; repeat constructor; apply mth_length.
  Qed.

  Lemma path_sized i l : Forall (fun h => length h = hlen) (path H i l).
  Proof. apply path_f_sized. Qed.

  Lemma path_nonempty i l : (2 <= lenN l)%N -> path H i l <> [].
  Proof.
    intros Hn. unfold path. destruct (length l) as [|f] eqn:E; [unfold lenN in Hn; lia|].
    cbn [path_f]. replace (lenN l <=? 1)%N with false by (symmetry; apply N.leb_gt; lia).
    destruct (i <? pow2lt (lenN l))%N; intros Hc; apply app_eq_nil in Hc; destruct Hc as [_ Hc]; discriminate.
  Qed.
End Shapes.

(* ------------------------------------------------------------------ strconv.ParseInt facts *)

Lemma parse_nonempty s z : parse_int64 s = Some z -> blen s =? 0 = false.
Proof.
  intros Hp. destruct s; [rewrite parse_int64_empty in Hp; discriminate|].
  unfold blen. cbn [length]. apply Z.eqb_neq. lia.
Qed.

Lemma wrapu_small z : 0 <= z -> in_i64 z -> wrapu z = z.
Proof.
  intros H0 [_ H1]. unfold wrapu. apply Z.mod_small. rewrite max_i64_eq in H1.
  rewrite two64_eq. pose proof two63_pos. lia.
Qed.

Lemma existsb_bad_false (l : list bytes) :
  Forall (fun h => length h = 32%nat) l -> existsb audit_hash_bad (lens l) = false.
Proof.
  induction 1 as [|h l Hh _ IH]; [reflexivity|].
  unfold lens in *. cbn [map existsb]. rewrite IH. unfold audit_hash_bad, blen. rewrite Hh. reflexivity.
Qed.

(* ------------------------------------------------------------------ endpoints *)

Lemma bsize_values b : lenN (LogModel.values b) = LogModel.bsize b.
Proof. unfold LogModel.values, LogModel.bsize. apply lenN_map. Qed.

Lemma nth_error_values b i lf : nth_error (bs b) i = Some lf -> nth i (LogModel.values b) [] = lv lf.
Proof.
  intros Hn. unfold LogModel.values. apply (map_nth_error lv) in Hn. apply nth_error_nth. exact Hn.
Qed.

Section Endpoints.
  Set Default Proof Using "All".
  Variable H : bytes -> bytes.
  Variable sign : bytes -> N -> bytes.
  Variable is_precert : bytes -> bool.
  Variable cfg : config.
  Variable trusted : list bytes.
  Hypothesis H_len : forall x, length (H x) = 32%nat.
  Hypothesis cfg_log : c_sth cfg = SthLog.
  Hypothesis cfg_direct : c_indirect cfg = false.
  Hypothesis cfg_maxr : 1 <= c_maxr cfg <= max_i64.

  Notation fe_consistency := (fe_consistency H cfg).
  Notation fe_proof_by_hash := (fe_proof_by_hash H cfg).
  Notation fe_entries := (fe_entries H cfg).
  Notation fe_entry_and_proof := (fe_entry_and_proof H cfg).
  Notation fe_get_sth := (fe_get_sth H sign cfg).
  Notation values := LogModel.values.
  Notation bsize := LogModel.bsize.

  Lemma broot_len b : blen (broot H b) = 32.
  Proof. unfold blen, broot. rewrite (mth_length H 32 H_len). reflexivity. Qed.

  (* ---- get-sth-consistency *)

  Lemma consistency_zero st pf ps s :
    parse_int64 pf = Some 0 -> parse_int64 ps = Some s -> 0 <= s ->
    forall w, LogModel.fe_consistency H cfg w st pf ps = ok200 (BProof []).
  Proof.
    intros Hf Hs H0 w. unfold LogModel.fe_consistency. rewrite Hf, Hs.
    unfold fe_status, serve. cbn [endpoint_of method_of meth_eqb negb andb handle].
    unfold get_sth_consistency. rewrite (parse_nonempty _ _ Hf), (parse_nonempty _ _ Hs). cbn [orb].
    rewrite Hf, Hs. unfold consistency_range.
    replace (0 <? 0) with false by reflexivity. replace (s <? 0) with false by (symmetry; apply Z.ltb_ge; lia).
    cbn [orb]. replace (s <? 0) with false by (symmetry; apply Z.ltb_ge; lia).
    unfold consistency_needs_backend. cbn [Z.eqb negb]. unfold finish, env_ok. cbn [write_ok].
    cbn [serve_guard_non200 Z.eqb negb status]. reflexivity.
  Qed.

  Lemma consistency_200 st pf ps f s :
    parse_int64 pf = Some f -> parse_int64 ps = Some s ->
    0 < f -> f <= s -> s <= Z.of_N (bsize (be st)) ->
    fe_consistency wiring_ok st pf ps = ok200 (BProof (cproof H (Z.to_N f) (firstN (Z.to_N s) (values (be st))))).
  Proof.
    intros Hf Hs H0 Hfs Hsn. unfold LogModel.fe_consistency. rewrite Hf, Hs. cbn [w_cons wiring_ok].
    unfold rpc_consistency.
    replace (f <=? 0) with false by (symmetry; apply Z.leb_gt; lia).
    replace (s <=? 0) with false by (symmetry; apply Z.leb_gt; lia).
    replace (s <? f) with false by (symmetry; apply Z.ltb_ge; lia). cbn [orb].
    replace (Z.of_N (bsize (be st)) <? s) with false by (symmetry; apply Z.ltb_ge; lia).
    cbn [map_reply option_map].
    unfold fe_status, serve. cbn [endpoint_of method_of meth_eqb negb andb handle bk b_cons].
    unfold get_sth_consistency. rewrite (parse_nonempty _ _ Hf), (parse_nonempty _ _ Hs). cbn [orb].
    rewrite Hf, Hs. unfold consistency_range.
    replace (f <? 0) with false by (symmetry; apply Z.ltb_ge; lia).
    replace (s <? 0) with false by (symmetry; apply Z.ltb_ge; lia). cbn [orb].
    replace (s <? f) with false by (symmetry; apply Z.ltb_ge; lia).
    unfold consistency_needs_backend. replace (f =? 0) with false by (symmetry; apply Z.eqb_neq; lia). cbn [negb].
    cbn [cr_root root_cls root_size cr_proof].
    unfold consistency_tree_too_small. rewrite (wrapu_small s) by (try lia; eapply parse_int64_range; eauto).
    replace (Z.of_N (bsize (be st)) <? s) with false by (symmetry; apply Z.ltb_ge; lia).
    cbn [current_guards g_cons_proof_missing is_none]. unfold consistency_proof_missing.
    rewrite existsb_bad_false by (apply cproof_sized; exact H_len).
    unfold finish, env_ok. cbn [write_ok]. cbn [serve_guard_non200 Z.eqb negb status].
    destruct f; try lia. reflexivity.
  Qed.

  (* ---- get-entry-and-proof *)

  Lemma entry_and_proof_200 st pli pts i t lf :
    parse_int64 pli = Some i -> parse_int64 pts = Some t ->
    0 <= i -> i < t -> t <= Z.of_N (bsize (be st)) ->
    nth_error (bs (be st)) (Z.to_nat i) = Some lf -> lv lf <> [] ->
    fe_entry_and_proof wiring_ok st pli pts
    = ok200 (BEap (lv lf) (lx lf) (path H (Z.to_N i) (firstN (Z.to_N t) (values (be st))))).
  Proof.
    intros Hi Ht H0 Hit Htn Hnth Hne. unfold LogModel.fe_entry_and_proof. rewrite Hi, Ht. cbn [w_eap wiring_ok].
    unfold rpc_entry.
    replace (t <=? 0) with false by (symmetry; apply Z.leb_gt; lia).
    replace (i <? 0) with false by (symmetry; apply Z.ltb_ge; lia).
    replace (t <=? i) with false by (symmetry; apply Z.leb_gt; lia). cbn [orb].
    replace (Z.of_N (bsize (be st)) <? t) with false by (symmetry; apply Z.ltb_ge; lia). cbn [andb].
    replace (t <=? Z.of_N (bsize (be st))) with true by (symmetry; apply Z.leb_le; lia).
    rewrite Hnth. cbn [map_reply option_map snd].
    unfold fe_status, serve. cbn [endpoint_of method_of meth_eqb negb andb handle bk b_entry].
    unfold get_entry_and_proof. rewrite Hi, Ht. unfold eap_params.
    replace (t <=? 0) with false by (symmetry; apply Z.leb_gt; lia).
    replace (i <? 0) with false by (symmetry; apply Z.ltb_ge; lia).
    replace (i >=? t) with false by (symmetry; rewrite Z.geb_leb; apply Z.leb_gt; lia).
    unfold fix_log_leaf. rewrite cfg_direct.
    cbn [er_root root_cls root_size er_leaf er_proof].
    unfold eap_tree_too_small. rewrite (wrapu_small t) by (try lia; eapply parse_int64_range; eauto).
    replace (Z.of_N (bsize (be st)) <? t) with false by (symmetry; apply Z.ltb_ge; lia).
    unfold eap_reply_incomplete. cbn [eleaf_absent eleaf_len is_none orb].
    replace (blen (lv lf) =? 0) with false
      by (symmetry; apply Z.eqb_neq; unfold blen; destruct (lv lf); [congruence|cbn [length]; lia]).
    cbn [orb]. unfold eap_proof_empty.
    assert (Hp : (t >? 1) && (Z.of_nat (length (lens (path H (Z.to_N i) (firstN (Z.to_N t) (values (be st)))))) =? 0) = false).
    { destruct (Z.gtb_spec t 1) as [Hg|Hl]; [|reflexivity]. cbn [andb]. apply Z.eqb_neq.
      unfold lens. rewrite map_length.
      assert (Hpn : path H (Z.to_N i) (firstN (Z.to_N t) (values (be st))) <> []).
      { apply path_nonempty. rewrite lenN_firstN by (rewrite bsize_values; lia). lia. }
      destruct (path H (Z.to_N i) (firstN (Z.to_N t) (values (be st)))); [congruence|cbn [length]; lia]. }
    rewrite Hp. unfold finish, env_ok. cbn [write_ok]. cbn [serve_guard_non200 Z.eqb negb status]. reflexivity.
  Qed.

  (* ---- get-proof-by-hash *)

  Lemma proof_by_hash_200 st h pts t i0 rest :
    parse_int64 pts = Some t -> length h = 32%nat ->
    0 < t -> t <= Z.of_N (bsize (be st)) ->
    filter (fun i => (i <? Z.to_N t)%N) (find_hash H h 0%N (values (be st))) = i0 :: rest ->
    fe_proof_by_hash st h pts = ok200 (BIncl i0 (path H i0 (firstN (Z.to_N t) (values (be st))))).
  Proof.
    intros Ht Hh H0 Htn Hf. unfold LogModel.fe_proof_by_hash. rewrite Ht. unfold rpc_incl.
    replace (t <=? 0) with false by (symmetry; apply Z.leb_gt; lia). rewrite Hh. cbn [Nat.eqb negb orb].
    replace (Z.of_N (bsize (be st)) <? t) with false by (symmetry; apply Z.ltb_ge; lia).
    rewrite Hf. cbn [map map_reply snd].
    unfold fe_status, serve. cbn [endpoint_of method_of meth_eqb negb andb handle bk b_incl].
    unfold get_proof_by_hash. cbn [h_len h_b64ok negb].
    unfold proof_hash_param_empty, blen. rewrite Hh. cbn [Z.of_nat Z.eqb Pos.of_succ_nat Pos.succ Pos.eqb].
    rewrite Ht. cbn [is_none oget]. unfold proof_tree_size_param_bad.
    replace (t <? 1) with false by (symmetry; apply Z.ltb_ge; lia). cbn [orb].
    cbn [ir_root root_cls root_size ir_proofs].
    unfold proof_tree_too_small. rewrite (wrapu_small t) by (try lia; eapply parse_int64_range; eauto).
    replace (Z.of_N (bsize (be st)) <? t) with false by (symmetry; apply Z.ltb_ge; lia).
    unfold proof_absent. cbn [length].
    replace (Z.of_nat (S (length (map (fun p : N * list bytes => lens (snd p))
              (map (fun i : N => (i, path H i (firstN (Z.to_N t) (values (be st))))) rest)))) =? 0) with false
      by (symmetry; apply Z.eqb_neq; lia).
    rewrite existsb_bad_false by (apply path_sized; exact H_len).
    unfold finish, env_ok. cbn [write_ok]. cbn [serve_guard_non200 Z.eqb negb status]. reflexivity.
  Qed.

  (* ---- get-entries *)

  Lemma map_number_snd {A B} (f : A -> B) (l : list A) : forall s, map (fun x : Z * A => f (snd x)) (number s l) = map f l.
  Proof. induction l as [|x l IH]; intros s; cbn [number map snd]; [reflexivity|]. rewrite IH. reflexivity. Qed.

  Lemma any_index_ok {A} (l : list A) : forall s i,
    0 <= s -> 0 <= i -> s + i + Z.of_nat (length l) <= two63 ->
    any_index_bad s i (map (fun x : Z * A => (fst x, true)) (number (s + i) l)) = false.
  Proof.
    induction l as [|x l IH]; intros s i Hs Hi Hb; [reflexivity|].
    cbn [number map any_index_bad fst]. cbn [length] in Hb.
    unfold entries_index_bad, add64. rewrite wrap64_id
      by (unfold in_i64; rewrite max_i64_eq, min_i64_eq; pose proof two63_pos; lia).
    rewrite Z.eqb_refl. cbn [negb orb].
    replace (s + i + 1) with (s + (i + 1)) by lia. apply IH; lia.
  Qed.

  Lemma entries_200 st ps pe s0 e0 :
    parse_int64 ps = Some s0 -> parse_int64 pe = Some e0 ->
    0 <= s0 <= e0 -> s0 < Z.of_N (bsize (be st)) ->
    exists en, parse_range s0 e0 (c_maxr cfg) (c_align cfg) = Some (s0, en) /\ s0 <= en <= e0 /\ en - s0 + 1 <= c_maxr cfg /\
      let cnt := Z.min (en - s0 + 1) (Z.of_N (bsize (be st)) - s0) in
      fe_entries st ps pe
      = ok200 (BEntries (map (fun lf : bleaf => (lv lf, lx lf)) (firstn (Z.to_nat cnt) (skipn (Z.to_nat s0) (bs (be st)))))).
  Proof.
    intros Hs He H0 Hsn.
    pose proof (parse_int64_range _ _ He) as [_ Hemax].
    destruct (range_contract_lemma s0 e0 (c_maxr cfg) (c_align cfg) H0 Hemax cfg_maxr) as (en & Hpr & Hen & Hcnt & Hmax & _).
    exists en. split; [exact Hpr|]. split; [exact Hen|]. split; [lia|]. intros cnt.
    unfold LogModel.fe_entries. rewrite Hs, He, Hpr, Hcnt. unfold rpc_leaves.
    replace (s0 <? 0) with false by (symmetry; apply Z.ltb_ge; lia).
    replace (en - s0 + 1 <=? 0) with false by (symmetry; apply Z.leb_gt; lia). cbn [orb].
    replace (Z.of_N (bsize (be st)) <=? s0) with false by (symmetry; apply Z.leb_gt; lia).
    fold cnt. cbn [map_reply].
    set (ls := firstn (Z.to_nat cnt) (skipn (Z.to_nat s0) (bs (be st)))).
    assert (Hlen : Z.of_nat (length ls) <= cnt).
    { unfold ls. rewrite firstn_length. unfold cnt. lia. }
    unfold fe_status, serve. cbn [endpoint_of method_of meth_eqb negb andb handle bk b_leaves].
    unfold get_entries. rewrite Hs, He, Hpr, Hcnt. rewrite cfg_direct. cbn [andb].
    cbn [lr_root root_cls root_size lr_leaves].
    unfold entries_tree_too_small. rewrite (wrapu_small s0) by (try lia; eapply parse_int64_range; eauto).
    replace (Z.of_N (bsize (be st)) <=? s0) with false by (symmetry; apply Z.leb_gt; lia).
    unfold entries_too_many. rewrite map_length.
    assert (Hnl : forall (A : Type) (l : list A) s, length (number s l) = length l).
    { intros A l. induction l; intros s; cbn [number length]; [reflexivity|]. rewrite IHl. reflexivity. }
    rewrite Hnl.
    replace (Z.of_nat (length ls) >? en - s0 + 1) with false
      by (symmetry; rewrite Z.gtb_ltb; apply Z.ltb_ge; unfold cnt in Hlen; lia).
    assert (Hidx : any_index_bad s0 0 (map (fun x : Z * bleaf => (fst x, true)) (number s0 ls)) = false).
    { pose proof (any_index_ok ls s0 0) as Hx. replace (s0 + 0) with s0 in Hx by lia. apply Hx; try lia.
      pose proof (parse_int64_range _ _ He) as [_ Hm]. rewrite max_i64_eq in Hm. unfold cnt in Hlen. lia. }
    rewrite Hidx.
    unfold finish, env_ok. cbn [write_ok]. cbn [serve_guard_non200 Z.eqb negb status].
    rewrite <- (map_number_snd (fun lf : bleaf => (lv lf, lx lf)) ls s0). reflexivity.
  Qed.

  (* ---- get-sth *)

  Lemma get_sth_200 st rnd inp :
    serialize_sth_siginput gen_V1 (Z.to_N (bns (be st) / 1000 / 1000)) (bsize (be st)) (broot H (be st)) = Ok inp ->
    (forall m r, sign m r <> []) ->
    (forall i s, cache st = Some (i, s) -> s <> []) ->
    exists sg, snd (fe_get_sth st rnd) = ok200 (BSth (bsize (be st)) (Z.to_N (bns (be st) / 1000 / 1000)) (broot H (be st)) sg)
      /\ be (fst (fe_get_sth st rnd)) = be st
      /\ (sg = sign inp rnd /\ cache (fst (fe_get_sth st rnd)) = Some (inp, sg)
          \/ cache st = Some (inp, sg) /\ cache (fst (fe_get_sth st rnd)) = cache st).
  Proof.
    intros Hser Hsn Hcn. unfold LogModel.fe_get_sth. rewrite Hser.
    set (hit := match cache st with Some (i, s) => if bytes_eqb inp i then Some s else None | None => None end).
    set (sg := match hit with Some s => s | None => sign inp rnd end).
    assert (Hsg : sg <> []).
    { unfold sg, hit. destruct (cache st) as [[i s]|] eqn:Ec; [|apply Hsn].
      destruct (bytes_eqb inp i); [apply (Hcn i s eq_refl)|apply Hsn]. }
    exists sg. cbn [fst snd be].
    assert (Hst : fe_status cfg (env_ok (negb (Nat.eqb (length sg) 0))) ReqGetSTH
                    (bk (Reply (root_cls H (be st))) unused unused unused unused) = 200).
    { unfold fe_status, serve. cbn [endpoint_of method_of meth_eqb negb andb handle bk b_root b_mirror].
      unfold get_sth. rewrite cfg_log. unfold signed_log_root. cbn [root_cls root_is_missing].
      unfold sth_root_missing, sth_hash_size_bad. rewrite broot_len. cbn [Z.eqb Pos.eqb negb].
      unfold env_ok. cbn [signer_ok]. destruct sg; [congruence|]. cbn [length Nat.eqb negb].
      unfold finish. cbn [write_ok]. cbn [serve_guard_non200 Z.eqb negb status]. reflexivity. }
    rewrite Hst. cbn [Z.eqb Pos.eqb]. split; [reflexivity|]. split; [reflexivity|].
    unfold sg, hit. destruct (cache st) as [[i s]|] eqn:Ec.
    - destruct (bytes_eqb inp i) eqn:Eb.
      + right. apply bytes_eqb_eq in Eb. subst i. split; reflexivity.
      + left. split; reflexivity.
    - left. split; reflexivity.
  Qed.

End Endpoints.
