(* C06 proofs, part E: the statements of Props/C06.v in their final form, under ONE named set of
   standing assumptions, and the twin-precertificate witness. *)
From Coq Require Import String ZArith NArith Bool List Lia PeanoNat.
From Coq.Strings Require Import Byte.
From V Require Import Base.GoInt Base.Bytes Merkle.Merkle Merkle.MerkleProofs TLS.TlsModel TLS.TlsRoundTripA gen.CtTypes
  CT.Rfc6962Spec CT.Rfc6962Proofs CT.CtFuncs CT.CtFuncsProofs
  CTFE.HandlersModel CTFE.LogModel CTFE.LogProofsA CTFE.LogProofsB CTFE.LogProofsC CTFE.LogProofsD CTFE.LogCase.
Import ListNotations.
Open Scope Z_scope.
Open Scope bool_scope.

(* SHA-256 has 32-byte values (collision resistance is NOT assumed); a signature made by the log's
   signer verifies under the log's key and is not empty (the only cryptographic assumption);
   the instance is a regular log (LogSTHGetter) with issuance chains stored in the backend and a
   positive get-entries limit. *)
Definition standing (H : bytes -> bytes) (sign : bytes -> N -> bytes) (sig_ok : bytes -> bytes -> bool) (cfg : config) : Prop :=
  (forall x, length (H x) = 32%nat) /\
  (forall m r, sig_ok m (sign m r) = true) /\
  (forall m r, sign m r <> []) /\
  c_sth cfg = SthLog /\ c_indirect cfg = false /\ 1 <= c_maxr cfg <= max_i64.

(* the tree has fewer than 2^64 leaves (TreeSize is a uint64) *)
Definition fits (st : state) : Prop := (bsize (be st) < 18446744073709551616)%N.

Section Final.
  Variable H : bytes -> bytes.
  Variable sign : bytes -> N -> bytes.
  Variable sig_ok : bytes -> bytes -> bool.
  Variable is_precert : bytes -> bool.
  Variable cfg : config.
  Variable trusted : list bytes.
  Hypothesis S : standing H sign sig_ok cfg.

  Notation afterf := (after H sign is_precert cfg trusted wiring_ok).
  Notation ans := (answer_at H sign is_precert cfg trusted wiring_ok).
  Notation built := (built H is_precert).

  Ltac st := destruct S as (H_len & sign_ok & sign_nonempty & cfg_log & cfg_direct & cfg_maxr).

  Lemma f_sth_reports_backend ns0 ops rnd :
    hist_ok ns0 ops -> let st := afterf (init ns0) ops in fits st ->
    exists sg, ans (init ns0) ops (OGetSTH rnd)
               = ok200 (BSth (bsize (be st)) (Z.to_N (bns (be st) / 1000000)) (broot H (be st)) sg).
  Proof. st. apply (sth_reports_backend_lemma H sign sig_ok is_precert cfg trusted); assumption. Qed.

  Lemma f_sth_signature_verifies ns0 ops rnd n t r sg :
    hist_ok ns0 ops -> fits (afterf (init ns0) ops) ->
    ans (init ns0) ops (OGetSTH rnd) = ok200 (BSth n t r sg) ->
    client_verify_sth sig_ok n t r sg = true /\ sig_ok (enc_sth_siginput t n r) sg = true.
  Proof. st. apply (sth_signature_verifies_lemma H sign sig_ok is_precert cfg trusted); assumption. Qed.

  Definition cache_valid (st : state) : Prop := forall i s, cache st = Some (i, s) -> sig_ok i s = true /\ s <> [].

  Lemma f_cache_valid_reachable ns0 ops : hist_ok ns0 ops -> cache_valid (afterf (init ns0) ops).
  Proof.
    st. intros Hh. destruct (inv_after H sign sig_ok is_precert cfg trusted H_len sign_ok sign_nonempty cfg_log cfg_direct cfg_maxr ns0 ops Hh)
      as [_ _ C _]. exact C.
  Qed.

  Lemma f_sig_cache_transparent st1 st2 rnd1 rnd2 :
    be st1 = be st2 -> fits st1 -> 0 <= bns (be st1) < two64 -> cache_valid st1 -> cache_valid st2 ->
    exists size ts root sg1 sg2,
      snd (fe_get_sth H sign cfg st1 rnd1) = ok200 (BSth size ts root sg1) /\
      snd (fe_get_sth H sign cfg st2 rnd2) = ok200 (BSth size ts root sg2) /\
      client_verify_sth sig_ok size ts root sg1 = true /\ client_verify_sth sig_ok size ts root sg2 = true.
  Proof. st. apply (sig_cache_transparent_lemma H sign sig_ok is_precert cfg trusted); assumption. Qed.

  Lemma f_any_two_sths_linked s0 p1 mid mid' r1 r2 n1 t1 root1 sg1 n2 t2 root2 sg2 pf ps :
    ans s0 p1 (OGetSTH r1) = ok200 (BSth n1 t1 root1 sg1) ->
    ans s0 (p1 ++ OGetSTH r1 :: mid) (OGetSTH r2) = ok200 (BSth n2 t2 root2 sg2) ->
    parse_int64 pf = Some (Z.of_N n1) -> parse_int64 ps = Some (Z.of_N n2) ->
    (n1 <= n2)%N /\
    exists proof, ans s0 (p1 ++ OGetSTH r1 :: mid ++ OGetSTH r2 :: mid') (OConsistency pf ps) = ok200 (BProof proof)
                  /\ client_verify_consistency H n1 n2 root1 root2 proof = true.
  Proof. st. apply (any_two_sths_linked_lemma H sign sig_ok is_precert cfg trusted); assumption. Qed.

  Lemma f_served_entry_has_verifying_path ns0 p1 mid r n t root sg pli pts i :
    hist_ok ns0 (p1 ++ OGetSTH r :: mid) ->
    ans (init ns0) p1 (OGetSTH r) = ok200 (BSth n t root sg) ->
    parse_int64 pli = Some i -> parse_int64 pts = Some (Z.of_N n) -> 0 <= i < Z.of_N n ->
    exists lf p, nth_error (bs (be (afterf (init ns0) (p1 ++ OGetSTH r :: mid)))) (Z.to_nat i) = Some lf
      /\ ans (init ns0) (p1 ++ OGetSTH r :: mid) (OEntryAndProof pli pts) = ok200 (BEap (lv lf) (lx lf) p)
      /\ p = path H (Z.to_N i) (firstN n (LogModel.values (be (afterf (init ns0) (p1 ++ OGetSTH r :: mid)))))
      /\ client_verify_inclusion H (Z.to_N i) n (leaf_hash H (lv lf)) root p = true.
  Proof. st. apply (served_entry_has_verifying_path_lemma H sign sig_ok is_precert cfg trusted); assumption. Qed.

  Lemma f_entries_are_sequenced s0 ops ps pe st0 e0 :
    parse_int64 ps = Some st0 -> parse_int64 pe = Some e0 -> 0 <= st0 <= e0 ->
    st0 < Z.of_N (bsize (be (afterf s0 ops))) ->
    exists es, ans s0 ops (OEntries ps pe) = ok200 (BEntries es) /\ es <> [] /\
      Z.of_nat (length es) <= e0 - st0 + 1 /\ Z.of_nat (length es) <= c_maxr cfg /\
      forall j v x, nth_error es j = Some (v, x) ->
        exists lf, nth_error (bs (be (afterf s0 ops))) (Z.to_nat st0 + j) = Some lf /\ v = lv lf /\ x = lx lf.
  Proof. st. apply (entries_are_sequenced_lemma H sign sig_ok is_precert cfg trusted); assumption. Qed.

  (* a served entry (from get-entries) is also found by its hash, in the tree of any STH that covers it *)
  Lemma f_served_entry_found_by_hash ns0 ops i lf n pts :
    hist_ok ns0 ops -> let st := afterf (init ns0) ops in
    nth_error (bs (be st)) i = Some lf ->
    parse_int64 pts = Some n -> Z.of_nat i < n -> n <= Z.of_N (bsize (be st)) ->
    exists j p lf', ans (init ns0) ops (OProofByHash (leaf_hash H (lv lf)) pts) = ok200 (BIncl j p)
      /\ (j <= N.of_nat i)%N /\ nth_error (bs (be st)) (N.to_nat j) = Some lf' /\ leaf_hash H (lv lf') = leaf_hash H (lv lf)
      /\ client_verify_inclusion H j (Z.to_N n) (leaf_hash H (lv lf)) (root_of H (be st) (Z.to_N n)) p = true.
  Proof.
    st. intros Hh st0 Hn Hp Hin Hns.
    destruct (proof_by_hash_finds H sign sig_ok is_precert cfg trusted H_len sign_ok sign_nonempty cfg_log cfg_direct cfg_maxr
                st0 i lf n pts Hn Hp Hin Hns) as (j & p & lf' & A & B & C & D & _ & E).
    exists j, p, lf'. repeat split; assumption.
  Qed.

  Lemma f_accepted_submission ns0 pre p cert chain pe now rnd ts sg :
    hist_ok ns0 (pre ++ [OSubmit p cert chain pe now rnd]) ->
    ans (init ns0) pre (OSubmit p cert chain pe now rnd) = ok200 (BSct ts sg) ->
    exists p0 cert0 chain0 pe0 now0 rnd0 e0 x0,
      let lf0 := {| lv := enc_leaf ts e0 []; lx := x0; lid := H cert |} in
      In (OSubmit p0 cert0 chain0 pe0 now0 rnd0) (pre ++ [OSubmit p cert chain pe now rnd])
      /\ H cert0 = H cert /\ ts = ms_of_ns now0
      /\ built lf0 p0 cert0 chain0 pe0 now0 /\ entry_of p0 cert0 pe0 = Some e0 /\ entry_ok e0
      /\ In lf0 (all_leaves (be (afterf (init ns0) (pre ++ [OSubmit p cert chain pe now rnd]))))
      /\ sig_ok (enc_sct_siginput ts e0 []) sg = true
      /\ ((forall lf, In lf (all_leaves (be (afterf (init ns0) pre))) -> lid lf <> H cert) ->
          p0 = p /\ cert0 = cert /\ chain0 = chain /\ pe0 = pe /\ now0 = now).
  Proof. st. apply (accepted_submission_lemma H sign sig_ok is_precert cfg trusted); assumption. Qed.

  Lemma f_leaves_persist s0 a b lf :
    In lf (all_leaves (be (afterf s0 a))) -> In lf (all_leaves (be (afterf s0 (a ++ b)))).
  Proof.
    st. intros Hi.
    rewrite (after_app H sign sig_ok is_precert cfg trusted H_len sign_ok sign_nonempty cfg_log cfg_direct cfg_maxr).
    apply (leaves_persist H sign sig_ok is_precert cfg trusted H_len sign_ok sign_nonempty cfg_log cfg_direct cfg_maxr). exact Hi.
  Qed.

  Lemma f_sct_leaf_found ns0 ops i lf p cert chain pe now :
    hist_ok ns0 ops -> let st := afterf (init ns0) ops in
    nth_error (bs (be st)) i = Some lf -> built lf p cert chain pe now ->
    client_leaf_hash H p cert pe (ms_of_ns now) = Some (leaf_hash H (lv lf)) /\
    (short (lx lf) -> decodes_to (lv lf) (lx lf) cert chain = true) /\
    (forall n pts, parse_int64 pts = Some n -> Z.of_nat i < n -> n <= Z.of_N (bsize (be st)) ->
       exists j pth lf', ans (init ns0) ops (OProofByHash (leaf_hash H (lv lf)) pts) = ok200 (BIncl j pth)
         /\ (j <= N.of_nat i)%N /\ nth_error (bs (be st)) (N.to_nat j) = Some lf'
         /\ leaf_hash H (lv lf') = leaf_hash H (lv lf)
         /\ client_verify_inclusion H j (Z.to_N n) (leaf_hash H (lv lf)) (root_of H (be st) (Z.to_N n)) pth = true) /\
    (forall j lf', nth_error (bs (be st)) j = Some lf' -> leaf_hash H (lv lf') = leaf_hash H (lv lf) ->
       j = i \/ collision_at H (lv lf') (lv lf) \/ (p = true /\ lv lf' = lv lf /\ lid lf' <> lid lf)).
  Proof.
    st. intros Hh st0 Hn Hb.
    pose proof (inv_after H sign sig_ok is_precert cfg trusted H_len sign_ok sign_nonempty cfg_log cfg_direct cfg_maxr ns0 ops Hh) as Hinv.
    apply (sct_leaf_found_lemma H sign sig_ok is_precert cfg trusted H_len sign_ok sign_nonempty cfg_log cfg_direct cfg_maxr ops st0); assumption.
  Qed.

  Lemma f_first_second ns0 ops pf ps f s :
    let st := afterf (init ns0) ops in
    parse_int64 pf = Some f -> parse_int64 ps = Some s -> 0 < f -> f <= s -> s <= Z.of_N (bsize (be st)) ->
    exists pr, ans (init ns0) ops (OConsistency pf ps) = ok200 (BProof pr)
      /\ pr = cproof H (Z.to_N f) (firstN (Z.to_N s) (LogModel.values (be st)))
      /\ client_verify_consistency H (Z.to_N f) (Z.to_N s) (root_of H (be st) (Z.to_N f)) (root_of H (be st) (Z.to_N s)) pr = true.
  Proof. st. intros st0. apply (first_second_lemma H sign sig_ok is_precert cfg trusted); assumption. Qed.

  Lemma f_first_second_swapped ns0 ops pf ps f s :
    c_mapper cfg (ECode 3) = None ->
    parse_int64 pf = Some f -> parse_int64 ps = Some s -> 0 < f -> f < s ->
    a_status (answer_at H sign is_precert cfg trusted wiring_cons_swapped (init ns0) ops (OConsistency pf ps)) = 400.
  Proof. st. apply (first_second_swapped_refuted H sign sig_ok is_precert cfg trusted); assumption. Qed.

  Lemma f_index_size ns0 ops pli pts i t :
    hist_ok ns0 ops -> let st := afterf (init ns0) ops in
    parse_int64 pli = Some i -> parse_int64 pts = Some t -> 0 <= i -> i < t -> t <= Z.of_N (bsize (be st)) ->
    exists lf pth, nth_error (bs (be st)) (Z.to_nat i) = Some lf
      /\ ans (init ns0) ops (OEntryAndProof pli pts) = ok200 (BEap (lv lf) (lx lf) pth)
      /\ pth = path H (Z.to_N i) (firstN (Z.to_N t) (LogModel.values (be st)))
      /\ client_verify_inclusion H (Z.to_N i) (Z.to_N t) (leaf_hash H (lv lf)) (root_of H (be st) (Z.to_N t)) pth = true.
  Proof.
    st. intros Hh st0.
    pose proof (inv_after H sign sig_ok is_precert cfg trusted H_len sign_ok sign_nonempty cfg_log cfg_direct cfg_maxr ns0 ops Hh) as Hinv.
    apply (index_size_lemma H sign sig_ok is_precert cfg trusted H_len sign_ok sign_nonempty cfg_log cfg_direct cfg_maxr ops st0); assumption.
  Qed.

  Lemma f_index_size_swapped ns0 ops pli pts i t :
    c_mapper cfg (ECode 3) = None ->
    parse_int64 pli = Some i -> parse_int64 pts = Some t -> 0 <= i -> i < t ->
    a_status (answer_at H sign is_precert cfg trusted wiring_eap_swapped (init ns0) ops (OEntryAndProof pli pts)) = 400.
  Proof. st. apply (index_size_swapped_refuted H sign sig_ok is_precert cfg trusted); assumption. Qed.

End Final.

(* ------------------------------------------------------------------ the toy instance satisfies the standing assumptions *)

Lemma toy_standing : standing toyH replay_sign replay_sig_ok toy_cfg.
Proof.
  repeat split; try reflexivity.
  - apply toyH_len.
  - apply replay_sign_ok.
  - apply replay_sign_nonempty.
  - cbn. lia.
  - cbn. change max_i64 with 9223372036854775807. lia.
Qed.

(* ------------------------------------------------------------------ twin precertificates:
   the unrestricted "single index whose entry decodes to the submitted certificate" is FALSE for
   two different precertificates that carry the same TBSCertificate (same issuer key) and are
   logged in the same millisecond: different DER (signature bytes), hence different identity
   hashes and two leaves - but the MerkleTreeLeaf of a precertificate entry covers only
   (issuer_key_hash, TBSCertificate), so the two LeafValues coincide. *)
Definition twin_c1 : bytes := hex "3003020101".
Definition twin_c2 : bytes := hex "3003020102".
Definition twin_ca : bytes := hex "30030201ff".
Definition twin_pe : option (bytes * bytes) := Some (rep 32 (n2b 170), hex "3003020107").
Definition twin_op1 : op := OSubmit true twin_c1 [twin_ca] twin_pe 1700000000123456789 1.
Definition twin_op2 : op := OSubmit true twin_c2 [twin_ca] twin_pe 1700000000123999999 2.
Definition twin_ops : list op := [twin_op1; twin_op2; OSeq 2 1700000001000000000].
Definition twin_ans := answer_at toyH replay_sign (fun _ => true) toy_cfg [] wiring_ok (init 0).
Definition twin_st : state := after toyH replay_sign (fun _ => true) toy_cfg [] wiring_ok (init 0) twin_ops.

Definition is_sct (a : answer) (ts : N) : bool :=
  (a_status a =? 200) && match a_body a with BSct t _ => (t =? ts)%N | _ => false end.
Definition is_incl_at (a : answer) (i : N) : bool :=
  (a_status a =? 200) && match a_body a with BIncl j _ => (j =? i)%N | _ => false end.

Lemma twin_precert_witness :
  twin_c1 <> twin_c2 /\ toyH twin_c1 <> toyH twin_c2 /\ hist_ok 0 twin_ops /\
  is_sct (twin_ans [] twin_op1) 1700000000123 = true /\
  is_sct (twin_ans [twin_op1] twin_op2) 1700000000123 = true /\
  exists lf0 lf1,
    nth_error (bs (be twin_st)) 0 = Some lf0 /\ nth_error (bs (be twin_st)) 1 = Some lf1 /\
    lv lf0 = lv lf1 /\ lid lf0 <> lid lf1 /\
    client_leaf_hash toyH true twin_c2 twin_pe 1700000000123 = Some (leaf_hash toyH (lv lf1)) /\
    is_incl_at (twin_ans twin_ops (OProofByHash (leaf_hash toyH (lv lf1)) (hex "32"))) 0 = true /\
    decodes_to (lv lf0) (lx lf0) twin_c1 [twin_ca] = true /\
    decodes_to (lv lf0) (lx lf0) twin_c2 [twin_ca] = false.
Proof.
  split; [vm_compute; discriminate|]. split; [vm_compute; discriminate|].
  split. { split; [change two64 with 18446744073709551616; lia|].
           repeat constructor; change two64 with 18446744073709551616; lia. }
  split; [vm_compute; reflexivity|]. split; [vm_compute; reflexivity|].
  destruct (nth_error (bs (be twin_st)) 0) as [lf0|] eqn:E0; [|vm_compute in E0; discriminate].
  destruct (nth_error (bs (be twin_st)) 1) as [lf1|] eqn:E1; [|vm_compute in E1; discriminate].
  exists lf0, lf1. split; [reflexivity|]. split; [reflexivity|].
  vm_compute in E0. vm_compute in E1. injection E0 as <-. injection E1 as <-.
  split; [vm_compute; reflexivity|]. split; [vm_compute; discriminate|].
  split; [vm_compute; reflexivity|]. split; [vm_compute; reflexivity|].
  split; vm_compute; reflexivity.
Qed.
