(* C02 - chain admission.  Executable model of
     trillian/ctfe/cert_checker.go  ValidateChain, IsPrecertificate, chainsEquivalent
     trillian/ctfe/handlers.go      verifyAddChain, addChainInternal (status class only)
     x509/verify.go                 Verify, buildChains (budget + candidate cache), isValid
     x509/cert_pool.go              CertPool.AddCert / contains / findPotentialParents
     x509util/pem_cert_pool.go      PEMCertPool.AddCert (duplicate suppression)
   under the VerifyOptions that ValidateChain fixes (time, EKU, path-length, name-constraint and
   critical-extension checks disabled; name chaining on).
   Definitions only.  Certificates are abstract records; what is abstracted away (DER parsing,
   the signature primitives, CheckSignatureFrom's own parent checks) enters through the record
   fields [c_sigs] (the signature oracle) and the [option] in [validate_der] (the parser). *)
From Coq Require Import ZArith NArith Bool List.
From V Require Import Base.GoInt gen.Windows.
Import ListNotations.
Open Scope bool_scope.

(* ---------------------------------------------------------------- certificates *)

(* An extension: its OID (an abstract number; [poison_id] is 1.3.6.1.4.1.11129.2.4.3), the
   critical flag and whether the value is exactly the two bytes of an ASN.1 NULL. *)
Record ext := mkExt { e_id : N; e_critical : bool; e_null : bool }.

Record cert := mkCert {
  c_id : N;              (* identity of the DER bytes: Certificate.Equal compares Raw *)
  c_subject : N;         (* RawSubject *)
  c_issuer : N;          (* RawIssuer *)
  c_ski : option N;      (* SubjectKeyId, None when empty *)
  c_aki : option N;      (* AuthorityKeyId, None when empty *)
  c_key : N;             (* public key (informative: the oracle below is per parent certificate) *)
  c_sigs : list N;       (* ORACLE: ids of the certificates p with  c.CheckSignatureFrom(p) == nil *)
  c_bc_valid : bool;     (* BasicConstraintsValid *)
  c_is_ca : bool;        (* IsCA *)
  c_not_after : Z;       (* NotAfter, ns *)
  c_ekus : list N;       (* ExtKeyUsage values *)
  c_exts : list ext      (* Extensions, in order *)
}.

Definition chain := list cert.

Definition memN (x : N) (l : list N) : bool := existsb (N.eqb x) l.
Definition same (a b : cert) : bool := N.eqb (c_id a) (c_id b).          (* a.Equal(b) *)
Definition signed_by (child parent : cert) : bool := memN (c_id parent) (c_sigs child).
Definition in_chain (cand : cert) (cur : chain) : bool := existsb (same cand) cur.

Definition poison_id : N := 0%N.
Definition eku_ct : N := 14%N.        (* x509.ExtKeyUsageCertificateTransparency *)

(* ---------------------------------------------------------------- pools *)

(* x509.CertPool: certs in insertion order; byName / bySubjectKeyId are index lists in
   insertion order, i.e. order-preserving filters of [certs].  PEMCertPool.AddCert (SHA-256 of
   Raw) and CertPool.AddCert (contains: same RawSubject and Equal) both suppress a certificate
   whose Raw bytes are already present. *)
Definition pool := list cert.
Definition pool_contains (p : pool) (c : cert) : bool := existsb (same c) p.
Definition pool_add (p : pool) (c : cert) : pool := if pool_contains p c then p else p ++ [c].
Definition pool_of (l : list cert) : pool := fold_left pool_add l [].

Definition ski_is (k : N) (p : cert) : bool :=
  match c_ski p with Some s => N.eqb s k | None => false end.
Definition by_ski (p : pool) (k : N) : list cert := filter (ski_is k) p.
Definition by_name (p : pool) (name : N) : list cert := filter (fun x => N.eqb (c_subject x) name) p.

(* CertPool.findPotentialParents: a key-id match wins; the name is consulted only when the
   certificate has no authority key id or no pool member carries it as subject key id. *)
Definition find_potential_parents (p : pool) (c : cert) : list cert :=
  match match c_aki c with Some k => by_ski p k | None => [] end with
  | [] => by_name p (c_issuer c)
  | cands => cands
  end.

(* ---------------------------------------------------------------- isValid *)

Inductive ctype := RootCT | IntermediateCT.

(* Certificate.isValid(certType, currentChain, opts) for a CANDIDATE parent under CTFE's options;
   [child] is currentChain[len-1], which in buildChains is always the receiver c. *)
Definition is_valid (t : ctype) (child cand : cert) : bool :=
  N.eqb (c_issuer child) (c_subject cand)                       (* NameMismatch *)
  && match t with
     | IntermediateCT => c_bc_valid cand && c_is_ca cand         (* NotAuthorizedToSign *)
     | RootCT => true
     end.

(* ---------------------------------------------------------------- buildChains *)

Definition max_chain_signature_checks : nat := 100%nat.

(* The mutable state shared by all (transitive) invocations of one top-level buildChains:
   *sigChecks, the candidate cache (keyed by certificate pointer = pool slot = id), and a
   model-only flag recording that the recursion fuel ran out (never set: see the fuel lemmas in ChainEndpoint.v). *)
Record bstate := mkSt { s_checks : nat; s_cache : list (N * list chain); s_oof : bool }.
Definition st0 : bstate := mkSt 0%nat [] false.
Definition bump (s : bstate) : bstate := mkSt (S (s_checks s)) (s_cache s) (s_oof s).
Fixpoint assoc (id : N) (l : list (N * list chain)) : option (list chain) :=
  match l with
  | [] => None
  | (k, v) :: t => if N.eqb id k then Some v else assoc id t
  end.
Definition cache_put (id : N) (v : list chain) (s : bstate) : bstate :=
  mkSt (s_checks s) ((id, v) :: s_cache s) (s_oof s).
Definition set_oof (s : bstate) : bstate := mkSt (s_checks s) (s_cache s) true.

Definition over_budget (s : bstate) : bool := Nat.ltb max_chain_signature_checks (s_checks s).

(* considerCandidate(rootCertificate, cand) *)
Definition consider_root (c : cert) (cur : chain) (acc : list chain * bstate) (cand : cert)
  : list chain * bstate :=
  let (chs, s) := acc in
  if in_chain cand cur then acc else
  let s1 := bump s in
  if over_budget s1 then (chs, s1) else
  if negb (signed_by c cand) then (chs, s1) else
  if negb (is_valid RootCT c cand) then (chs, s1) else
  (chs ++ [cur ++ [cand]], s1).

(* considerCandidate(intermediateCertificate, cand); [rec] is buildChains one level down *)
Definition consider_int (rec : cert -> chain -> bstate -> list chain * bstate)
  (c : cert) (cur : chain) (acc : list chain * bstate) (cand : cert) : list chain * bstate :=
  let (chs, s) := acc in
  if in_chain cand cur then acc else
  let s1 := bump s in
  if over_budget s1 then (chs, s1) else
  if negb (signed_by c cand) then (chs, s1) else
  if negb (is_valid IntermediateCT c cand) then (chs, s1) else
  match assoc (c_id cand) (s_cache s1) with
  | Some cc => (chs ++ cc, s1)                      (* cached: chains built for ANOTHER prefix *)
  | None =>
      let (cc, s2) := rec cand (cur ++ [cand]) s1 in
      (chs ++ cc, cache_put (c_id cand) cc s2)
  end.

(* c.buildChains(cache, currentChain, sigChecks, opts); [cur] = currentChain (ends with c).
   The returned error is non-nil exactly when no chain is returned, so chains suffice. *)
Fixpoint build (roots ints : pool) (fuel : nat) (c : cert) (cur : chain) (s : bstate)
  : list chain * bstate :=
  match fuel with
  | O => ([], set_oof s)
  | S f =>
      let a1 := fold_left (consider_root c cur) (find_potential_parents roots c) ([], s) in
      fold_left (consider_int (build roots ints f) c cur) (find_potential_parents ints c) a1
  end.

(* Certificate.Verify under CTFE's options: the leaf's own isValid checks nothing, every
   candidate chain passes the (disabled) EKU stage. *)
Definition verify (roots ints : pool) (c0 : cert) : list chain :=
  if pool_contains roots c0 then [[c0]]
  else fst (build roots ints (S (length ints)) c0 [c0] st0).

(* ---------------------------------------------------------------- ValidateChain *)

Fixpoint prefix_same (inc v : chain) : bool :=
  match inc, v with
  | [], _ => true
  | a :: i', b :: v' => same a b && prefix_same i' v'
  | _ :: _, [] => false
  end.
Definition chains_equivalent (inc v : chain) : bool :=
  (Nat.eqb (length inc) (length v) || Nat.eqb (S (length inc)) (length v)) && prefix_same inc v.

Record options := mkOpts {
  o_roots : list cert;            (* trusted roots, file order *)
  o_now : Z;                      (* currentTime (time.Now() when the field is zero) *)
  o_reject_expired : bool;
  o_reject_unexpired : bool;
  o_na_start : option Z;
  o_na_limit : option Z;
  o_only_ca : bool;
  o_ekus : list N;
  o_reject_ext : list N
}.

Inductive reason :=
| RParse | RTooEarly | RTooLate | RNotCA | RExpired | RUnexpired | RExtension | REku
| RVerify | RNoRFCPath | RPoison | RKind | RLeafBuild | REmptyBody.
Inductive outcome := Accepted (p : chain) | Rejected (r : reason) | Panicked.

Definition f_only_ca (o : options) (c : cert) : bool := o_only_ca o && negb (c_is_ca c).
Definition expired (o : options) (c : cert) : bool := (o_now o >? c_not_after c)%Z.   (* now.After(NotAfter) *)
Definition f_expired (o : options) (c : cert) : bool := o_reject_expired o && expired o c.
Definition f_unexpired (o : options) (c : cert) : bool := o_reject_unexpired o && negb (expired o c).
Definition f_ext (o : options) (c : cert) : bool :=
  match o_reject_ext o with
  | [] => false
  | bad => existsb (fun e => memN (e_id e) bad) (c_exts c)
  end.
Definition f_eku (o : options) (c : cert) : bool :=
  match o_ekus o with
  | [] => false
  | want => negb (existsb (fun e => memN e want) (c_ekus c))
  end.

(* the leaf checks of ValidateChain, in source order; the two window conditions are GENERATED *)
Definition leaf_filters (o : options) (c : cert) : option reason :=
  if ctfe_reject_early (c_not_after c) (o_na_start o) (o_na_limit o) then Some RTooEarly else
  if ctfe_reject_late (c_not_after c) (o_na_start o) (o_na_limit o) then Some RTooLate else
  if f_only_ca o c then Some RNotCA else
  if f_expired o c then Some RExpired else
  if f_unexpired o c then Some RUnexpired else
  if f_ext o c then Some RExtension else
  if f_eku o c then Some REku else None.

Definition validate (o : options) (raw : list cert) : outcome :=
  match raw with
  | [] => Panicked                                             (* chain[0] on an empty slice *)
  | c0 :: rest =>
      match leaf_filters o c0 with
      | Some r => Rejected r
      | None =>
          match verify (pool_of (o_roots o)) (pool_of rest) c0 with
          | [] => Rejected RVerify
          | chains =>
              match find (chains_equivalent raw) chains with
              | Some p => Accepted p
              | None => Rejected RNoRFCPath                     (* ErrNoRFCCompliantPathFound *)
              end
          end
      end
  end.

(* the parse loop in front: the first DER that does not parse (fatally) rejects the request *)
Fixpoint parse_all (ders : list (option cert)) : option (list cert) :=
  match ders with
  | [] => Some []
  | None :: _ => None
  | Some c :: t => match parse_all t with Some l => Some (c :: l) | None => None end
  end.
Definition validate_der (o : options) (ders : list (option cert)) : outcome :=
  match parse_all ders with
  | None => Rejected RParse
  | Some raw => validate o raw
  end.

(* ---------------------------------------------------------------- precertificates, endpoints *)

(* IsPrecertificate: decided by the FIRST poison extension.  None = the error return. *)
Definition is_poison (e : ext) : bool := N.eqb (e_id e) poison_id.
Definition is_precertificate (c : cert) : option bool :=
  match find is_poison (c_exts c) with
  | None => Some false
  | Some e => if e_critical e && e_null e then Some true else None
  end.

Definition verify_add_chain (o : options) (ders : list (option cert)) (expect_pre : bool) : outcome :=
  match validate_der o ders with
  | Accepted p =>
      match p with
      | [] => Panicked                                         (* validPath[0] *)
      | leaf :: _ =>
          match is_precertificate leaf with
          | None => Rejected RPoison
          | Some b => if Bool.eqb b expect_pre then Accepted p else Rejected RKind
          end
      end
  | r => r
  end.

(* What MerkleTreeLeafFromChain needs from a validated precertificate path (RFC 6962 3.2):
   an issuer, the issuer's issuer when the issuer is a pre-issuer, exactly one poison extension. *)
Definition is_pre_issuer (c : cert) : bool := memN eku_ct (c_ekus c).
Definition precert_leaf_buildable (p : chain) : bool :=
  match p with
  | leaf :: iss :: rest =>
      Nat.eqb (length (filter is_poison (c_exts leaf))) 1
      && (negb (is_pre_issuer iss) || match rest with [] => false | _ => true end)
  | _ => false
  end.

Inductive status := S200 | S4xx | SPanic.
(* addChainInternal with a backend that queues the leaf: only the status class. *)
Definition add_chain_http (o : options) (ders : list (option cert)) (pre : bool) : status :=
  match ders with
  | [] => S4xx                                                  (* ParseBodyAsJSONChain *)
  | _ =>
      match verify_add_chain o ders pre with
      | Accepted p => if pre && negb (precert_leaf_buildable p) then S4xx else S200
      | Rejected _ => S4xx
      | Panicked => SPanic
      end
  end.
