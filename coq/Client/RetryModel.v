(* C13 - executable model of jsonclient's retry discipline (definitions only).

   Code modelled: jsonclient/backoff.go (backoff.set / until / decreaseMultiplier),
   jsonclient/client.go (PostAndParse, waitForBackoff, PostAndParseWithRetry),
   client/logclient.go (addChainWithRetry calls PostAndParseWithRetry once).

   Every comparison, constant and piece of integer arithmetic of backoff.set,
   decreaseMultiplier, the wait clamp, maxJitter, maxMultiplier and the Retry-After
   seconds conversion is the GENERATED gen/Retry.v (gofrag, from the current source); this
   file only composes them in the order the Go code does.  Hand-written (gofrag has no
   `fallthrough`, no strings, no floats): the status switch of PostAndParseWithRetry
   ([status_action]), the error ladder of PostAndParse ([post_and_parse]) and the jitter
   expression (the jitter is an input; its range is stated with the generated max_jitter).

   Time: Z nanoseconds on the Unix axis, unbounded (time.Time does not wrap at int64 ns:
   the zero Time of a fresh backoff is about -6.2e19 ns).  time.Duration: int64 with wrap
   (generated mul64 etc.); Time.Sub / time.Until saturate ([sat64]); Time.Add is exact.

   The conversion of a Retry-After number of seconds into a Duration is a parameter
   [conv] of the model: the repaired code is [retry_after_duration] (generated), the code
   before pending_fixes/C13-1 is [conv_unpatched] (Findings/C13Prefix.v).                 *)
From Coq Require Import ZArith Bool List.
From V Require Import Base.GoInt gen.Retry.
Import ListNotations.
Open Scope Z_scope.

(* Time.Sub / time.Until: the difference, saturated to the int64 range of a Duration *)
Definition sat64 (z : Z) : Z := Z.max min_i64 (Z.min max_i64 z).

(* ------------------------------------------------------------------ backoff.go *)

Record backoff := mkB { b_mult : Z; b_nb : Z }.

(* &backoff{}: multiplier 0, notBefore = time.Time{} = 0001-01-01T00:00:00Z *)
Definition zero_time : Z := -62135596800000000000.
Definition fresh_backoff : backoff := mkB 0 zero_time.

(* backoff.set: new state and the returned wait (only logged by the caller) *)
Definition set (now : Z) (ov : option Z) (b : backoff) : backoff * Z :=
  let m := b_mult b in let nb := b_nb b in
  if set_in_backoff m nb now ov then
    let nb' :=
      if set_has_override m nb now ov then
        let cand := set_override_target m nb now ov in
        if set_override_later cand nb then cand else nb
      else nb in
    (mkB m nb', sat64 (nb' - now))              (* return time.Until(b.notBefore) *)
  else
    let '(m', nb') := set_fresh m nb now ov in
    (mkB m' nb', nb' - now).                      (* return wait *)

Definition until (b : backoff) : Z := b_nb b.
Definition decrease (b : backoff) : backoff := mkB (decrease_multiplier (b_mult b)) (b_nb b).

(* waitForBackoff: time.Until(until().Add(jitter)), negative clamped to 0 *)
Definition backoff_wait (now nb j : Z) : Z := wait_clamp (sat64 (nb + j - now)).

Definition max_jitter_ns : Z := max_jitter 0.
Definition max_mult : Z := max_multiplier 0.

(* ------------------------------------------------------------------ one response *)

(* the Retry-After header as the code reads it: absent/empty; strconv.Atoi succeeds;
   else time.Parse(RFC1123) succeeds (instant d); else neither *)
Inductive retry_after := RANone | RASeconds (n : Z) | RADate (d : Z) | RAJunk.

(* what came back from one POST, provided the context did not end first *)
Inductive outcome :=
| OTransport                                 (* http.Client.Do returned a non-context error *)
| OBodyErr (code : Z)                        (* reading the body failed: RspError, an error *)
| ORedirected (code : Z) (parsable : bool)   (* final response belongs to a non-POST request *)
| OResp (code : Z) (ra : retry_after) (parsable : bool).

(* PostAndParse: error (including RspError) or (httpRsp, body, nil) with the status *)
Inductive pp_result := PPErr | PPOk (code : Z) (ra : retry_after).

Definition post_and_parse (o : outcome) : pp_result :=
  match o with
  | OTransport => PPErr
  | OBodyErr _ => PPErr
  | ORedirected _ _ => PPErr                 (* httpRsp.Request.Method != http.MethodPost *)
  | OResp code ra parsable =>
      if parse_when_status code then (if parsable then PPOk code ra else PPErr)
      else PPOk code ra
  end.

(* what PostAndParseWithRetry does with it *)
Inductive action :=
| ASuccess                 (* return httpRsp, body, nil *)
| AFail (code : Z)         (* return RspError{StatusCode, Body} *)
| ASetNil                  (* backoff.set(nil), retry *)
| ANoSet                   (* 408: retry, backoff untouched *)
| ASetRA (ra : retry_after)(* 503 / 429: backoff.set(Retry-After if usable), retry *).

(* the switch on httpRsp.StatusCode; `case 503: fallthrough; case 429:` written as one arm *)
Definition status_action (code : Z) (ra : retry_after) : action :=
  if code =? 200 then ASuccess
  else if code =? 408 then ANoSet
  else if (code =? 503) || (code =? 429) then ASetRA ra
  else AFail code.

Definition action_of (o : outcome) : action :=
  match post_and_parse o with
  | PPErr => ASetNil
  | PPOk code ra => status_action code ra
  end.

Section Conv.
(* seconds of Retry-After -> time.Duration *)
Variable conv : Z -> Z.

Definition override_of (ra : retry_after) (now : Z) : option Z :=
  match ra with
  | RANone | RAJunk => None
  | RASeconds n => Some (conv n)
  | RADate d => Some (sat64 (d - now))        (* time.Until(date) *)
  end.

(* the backoff part of a retrying action at instant [now]; None = not a retry *)
Definition apply_action (a : action) (now : Z) (b : backoff) : option (backoff * option Z) :=
  match a with
  | ASuccess | AFail _ => None
  | ASetNil => let '(b', w) := set now None b in Some (b', Some w)
  | ANoSet => Some (b, None)
  | ASetRA ra => let '(b', w) := set now (override_of ra now) b in Some (b', Some w)
  end.

(* ------------------------------------------------------------------ the loop *)

(* the jitter of one wait: given, or recovered from the observed instant of the next attempt *)
Inductive jsrc := JGiven (j : Z) | JObserved (next_at : Z).

Definition jitter_of (s : jsrc) (nb r : Z) : Z :=
  match s with
  | JGiven j => j
  | JObserved a => if a <=? r then 0 else a - nb
  end.

Record ev := mkEv { e_dur : Z; e_out : outcome; e_body : Z; e_jit : jsrc }.

Inductive ctx_kind := KDeadline | KCancel.
(* the instant at which ctx.Done() closes (None: never) and which error ctx.Err() then is *)
Record ctx := mkCtx { c_end : option Z; c_kind : ctx_kind }.

Definition ctx_done_by (c : ctx) (t : Z) : bool :=
  match c_end c with Some e => e <=? t | None => false end.

Definition ctx_end_or (c : ctx) (t : Z) : Z :=
  match c_end c with Some e => Z.max e t | None => t end.

Inductive result :=
| RSuccess (body : Z)
| RStatus (code body : Z)
| RCtx (k : ctx_kind)
| RPending.                 (* the event list ended first: the call is still running *)

(* one completed response and what followed *)
Record rrec := mkRec {
  r_at : Z;               (* instant of the POST *)
  r_resp : Z;             (* instant the response (or error) arrived *)
  r_out : outcome;
  r_act : action;
  r_before : backoff;     (* shared state before / after the set of this step *)
  r_after : backoff;
  r_logged : option Z;    (* value returned by backoff.set (logged) *)
  r_j : Z;                (* jitter used by waitForBackoff (0 if not a retry) *)
  r_next : Z              (* scheduled instant of the next POST (= r_resp if not a retry) *)
}.

(* processing of a response that arrived at instant r (context not done) *)
Inductive after_resp :=
| Finished (res : result)        (* returns now *)
| CtxCut                         (* waits, the context ends first *)
| Again (t : Z).                 (* next POST at t *)

Definition step_resp (c : ctx) (t r : Z) (b : backoff) (e : ev) : rrec * backoff * after_resp :=
  let a := action_of (e_out e) in
  match apply_action a r b with
  | None =>
      let res := match a with AFail code => RStatus code (e_body e) | _ => RSuccess (e_body e) end in
      (mkRec t r (e_out e) a b b None 0 r, b, Finished res)
  | Some (b', w) =>
      let j := jitter_of (e_jit e) (until b') r in
      let next := r + backoff_wait r (until b') j in
      (mkRec t r (e_out e) a b b' w j next, b', if ctx_done_by c next then CtxCut else Again next)
  end.

Record call_out := mkOut {
  o_attempts : list Z;    (* instants of every POST handed to the transport *)
  o_trace : list rrec;    (* the completed ones *)
  o_res : result;
  o_end : Z;              (* instant PostAndParseWithRetry returned *)
  o_b : backoff
}.

Definition cons_out (t : Z) (x : rrec) (o : call_out) : call_out :=
  mkOut (t :: o_attempts o) (x :: o_trace o) (o_res o) (o_end o) (o_b o).

(* PostAndParseWithRetry called at instant t with exclusive use of the backoff state.
   The transport honours the context: a request returns at min(t + dur, context end). *)
Fixpoint run_call (c : ctx) (t : Z) (b : backoff) (evs : list ev) : call_out :=
  match evs with
  | [] => mkOut [] [] RPending t b
  | e :: evs' =>
      if ctx_done_by c (t + e_dur e) then mkOut [t] [] (RCtx (c_kind c)) (ctx_end_or c t) b
      else
        let r := t + e_dur e in
        match step_resp c t r b e with
        | (x, b', Finished res) => mkOut [t] [x] res r b'
        | (x, b', CtxCut) => mkOut [t] [x] (RCtx (c_kind c)) (ctx_end_or c r) b'
        | (x, b', Again t') => cons_out t x (run_call c t' b' evs')
        end
  end.

(* ------------------------------------------------------------------ N callers, one client *)

Record caller := mkCaller { k_ctx : ctx; k_start : Z; k_evs : list ev }.

(* a caller is either about to POST at t with the remaining events, or done *)
Inductive kstate :=
| KRun (t : Z) (evs : list ev) (acc : call_out)      (* acc: reversed lists so far *)
| KDone (o : call_out).

Definition acc_push (t : Z) (x : option rrec) (acc : call_out) : call_out :=
  mkOut (t :: o_attempts acc) (match x with Some x => x :: o_trace acc | None => o_trace acc end)
        (o_res acc) (o_end acc) (o_b acc).

Definition acc_finish (acc : call_out) (res : result) (tend : Z) (b : backoff) : call_out :=
  mkOut (rev (o_attempts acc)) (rev (o_trace acc)) res tend b.

(* settle callers that finish without touching the shared state (context ends during the
   request, or nothing left to say); returns the instant of the next response otherwise *)
Definition settle (c : ctx) (s : kstate) : kstate * option Z :=
  match s with
  | KDone o => (s, None)
  | KRun t [] acc => (KDone (acc_finish acc RPending t (o_b acc)), None)
  | KRun t (e :: _) acc =>
      if ctx_done_by c (t + e_dur e)
      then (KDone (acc_finish (acc_push t None acc) (RCtx (c_kind c)) (ctx_end_or c t) (o_b acc)), None)
      else (s, Some (t + e_dur e))
  end.

Fixpoint settle_all (cs : list caller) (ss : list kstate) : list (kstate * option Z) :=
  match cs, ss with
  | c :: cs', s :: ss' => settle (k_ctx c) s :: settle_all cs' ss'
  | _, _ => []
  end.

(* index of the earliest pending response (ties: the lowest index) *)
Fixpoint earliest (l : list (kstate * option Z)) (i : nat) (best : option (nat * Z)) : option (nat * Z) :=
  match l with
  | [] => best
  | (_, None) :: l' => earliest l' (S i) best
  | (_, Some r) :: l' =>
      let best' := match best with
                   | Some (_, rb) => if r <? rb then Some (i, r) else best
                   | None => Some (i, r)
                   end in
      earliest l' (S i) best'
  end.

Definition process (c : ctx) (s : kstate) (b : backoff) : kstate * backoff :=
  match s with
  | KRun t (e :: evs') acc =>
      let r := t + e_dur e in
      match step_resp c t r b e with
      | (x, b', Finished res) => (KDone (acc_finish (acc_push t (Some x) acc) res r b'), b')
      | (x, b', CtxCut) => (KDone (acc_finish (acc_push t (Some x) acc) (RCtx (c_kind c)) (ctx_end_or c r) b'), b')
      | (x, b', Again t') => (KRun t' evs' (acc_push t (Some x) acc), b')
      end
  | _ => (s, b)
  end.

Fixpoint process_nth (cs : list caller) (ss : list kstate) (i : nat) (b : backoff) : list kstate * backoff :=
  match cs, ss, i with
  | c :: _, s :: ss', O => let '(s', b') := process (k_ctx c) s b in (s' :: ss', b')
  | _ :: cs', s :: ss', S i' => let '(ss'', b') := process_nth cs' ss' i' b in (s :: ss'', b')
  | _, _, _ => (ss, b)
  end.

(* global discrete-event loop: responses are handled in the order of their instants *)
Fixpoint sim_loop (fuel : nat) (cs : list caller) (ss : list kstate) (b : backoff) : list kstate * backoff :=
  match fuel with
  | O => (ss, b)
  | S fuel' =>
      let st := settle_all cs ss in
      let ss1 := map fst st in
      match earliest st 0%nat None with
      | None => (ss1, b)
      | Some (i, _) => let '(ss2, b') := process_nth cs ss1 i b in sim_loop fuel' cs ss2 b'
      end
  end.

Definition empty_out (b : backoff) : call_out := mkOut [] [] RPending 0 b.

Definition sim (cs : list caller) (b : backoff) : list (option call_out) * backoff :=
  let fuel := S (fold_right (fun c n => S (length (k_evs c)) + n)%nat 0%nat cs) in
  let '(ss, b') := sim_loop fuel cs (map (fun c => KRun (k_start c) (k_evs c) (empty_out b)) cs) b in
  (map (fun s => match s with KDone o => Some o | KRun _ _ _ => None end) ss, b').

(* ------------------------------------------------------------------ shared state as atomic operations *)

(* the three critical sections of backoff.go, each stamped with the instant time.Now()
   returned inside it and with the caller that ran it *)
Inductive op :=
| OpSet (who : nat) (t : Z) (ov : option Z)
| OpUntil (who : nat) (t : Z)
| OpDecrease (who : nat) (t : Z).

Definition op_time (o : op) : Z :=
  match o with OpSet _ t _ | OpUntil _ t | OpDecrease _ t => t end.

Definition apply_op (b : backoff) (o : op) : backoff :=
  match o with
  | OpSet _ t ov => fst (set t ov b)
  | OpUntil _ _ => b
  | OpDecrease _ _ => decrease b
  end.

Definition run_ops (b : backoff) (ops : list op) : backoff := fold_left apply_op ops b.

(* instants never go backwards along the history *)
Fixpoint times_mono (t : Z) (ops : list op) : Prop :=
  match ops with
  | [] => True
  | o :: ops' => t <= op_time o /\ times_mono (op_time o) ops'
  end.

End Conv.

(* ------------------------------------------------------------------ client/logclient.go *)

(* addChainWithRetry (AddChain / AddPreChain): PostAndParseWithRetry is called once; when it
   returns (httpRsp, body, nil) the SCT is decoded from the JSON response (tls.Unmarshal of the
   signature, base64 of the extensions).  If that fails the call returns RspError{200, body}
   at once - no further POST, the backoff untouched.  [sct_ok body]: the response with that
   body id holds a decodable SCT (an input, like [parsable]). *)
Definition add_chain_result (sct_ok : Z -> bool) (r : result) : result :=
  match r with
  | RSuccess body => if sct_ok body then RSuccess body else RStatus 200 body
  | _ => r
  end.

Definition add_chain_out (sct_ok : Z -> bool) (o : call_out) : call_out :=
  mkOut (o_attempts o) (o_trace o) (add_chain_result sct_ok (o_res o)) (o_end o) (o_b o).
