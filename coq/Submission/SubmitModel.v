(* C17 - multi-log submission.  Executable model, definitions only.

   Part 1  log list, compatibility filter (loglist3/logfilter.go, distributor.addSomeChain)
           and the policy group computation (ctpolicy/*policy.go); the temporal condition
           is the GENERATED gen/Windows.loglist_keep, the lifetime thresholds the GENERATED
           gen/Policy.{chrome,apple}_inc_count / lifetime_in_months.
   Part 2  safeSubmissionState (submission/races.go) as a state machine: request,
           set_result, group_complete, collect.  Every comparison in it is a GENERATED
           definition of gen/Races.v (translated from races.go on every run).
   Part 3  groupRace / GetSCTs as threads with program counters; one step = one mutex
           critical section / one channel operation / one SubmitToLog call start or return.
           Timers are abstracted to "may fire at any time", so every latency pattern is an
           interleaving of this model.

   The code modelled is races.go WITH pending_fixes/C17-1 applied ([fix_applied] below);
   the whole difference between the two versions is the parameter [p] of [step]/[init]
   (p = false: a goroutine that finds its log already requested reports at once, and the
   verdict is what the races reported; p = true: it waits for that log's outcome, and the
   verdict is read from the shared state after all races ended). *)
From Coq Require Import ZArith NArith Bool List Lia.
From V Require Import Base.GoInt gen.Windows gen.Policy gen.Races.
Import ListNotations.
Open Scope Z_scope.

Definition fix_applied : bool := true.

Definition memN (x : N) (xs : list N) : bool := existsb (N.eqb x) xs.
Definition upd {A} (f : N -> A) (k : N) (v : A) : N -> A := fun x => if N.eqb x k then v else f x.
Definition nodupN := nodup N.eq_dec.

(* ------------------------------------------------------------------ Part 1 *)

(* loglist3.LogStatus *)
Inductive status := StUndefined | StPending | StQualified | StUsable | StReadOnly | StRetired | StRejected.
Definition status_eqb (a b : status) : bool :=
  match a, b with
  | StUndefined, StUndefined | StPending, StPending | StQualified, StQualified | StUsable, StUsable
  | StReadOnly, StReadOnly | StRetired, StRetired | StRejected, StRejected => true
  | _, _ => false
  end.

Record log := mkLog { l_id : N; l_status : status; l_interval : option (Z * Z) }.
Record operator := mkOp { op_google : bool; op_logs : list log }.
Definition loglist := list operator.

(* every filter copies the operator with the kept logs and drops operators left empty *)
Definition filter_logs (keep : log -> bool) (ll : loglist) : loglist :=
  filter (fun op => negb (Nat.eqb (length (op_logs op)) 0))
         (map (fun op => mkOp (op_google op) (filter keep (op_logs op))) ll).

Definition select_by_status (sts : list status) (ll : loglist) : loglist :=
  filter_logs (fun l => existsb (status_eqb (l_status l)) sts) ll.

(* LogList.TemporallyCompatible: no interval = always compatible *)
Definition temporally_compatible (not_after : Z) (ll : loglist) : loglist :=
  filter_logs (fun l => match l_interval l with None => true | Some (s, e) => loglist_keep not_after s e end) ll.

(* LogRoots: per-log accepted root set, absent = unknown *)
Definition logroots := N -> option (list N).

(* LogList.RootCompatible(certRoot non-nil) *)
Definition root_compatible (root : N) (root_is_ca : bool) (roots : logroots) (ll : loglist) : loglist :=
  if negb root_is_ca then []
  else filter_logs (fun l => match roots (l_id l) with None => true | Some rs => memN root rs end) ll.

(* LogList.Compatible *)
Definition compatible (not_after : Z) (root : option (N * bool)) (roots : logroots) (ll : loglist) : loglist :=
  let active := temporally_compatible not_after ll in
  match root with None => active | Some (r, ca) => root_compatible r ca roots active end.

(* what ctfe.ValidateChain said about the submitted chain against the merged root pool *)
Inductive chain_verdict := Rooted (root : N) (is_ca : bool) | Unverified.

(* distributor.addSomeChain / compatibleLogsAndChain; None = the chain is refused *)
Definition distributor_compatible (check_disabled root_data_full : bool) (v : chain_verdict)
           (not_after : Z) (roots : logroots) (usable : loglist) : option loglist :=
  if check_disabled then Some (compatible not_after None (fun _ => None) usable)
  else match v with
       | Rooted r ca => Some (compatible not_after (Some (r, ca)) roots usable)
       | Unverified => if root_data_full then None else Some (compatible not_after None roots usable)
       end.

Definition ids (ll : loglist) : list N := concat (map (fun op => map l_id (op_logs op)) ll).

(* ---- policy groups ---- *)
Record group := mkGroup { g_name : N; g_logs : list N; g_min : Z; g_isbase : bool; g_session : list N }.
Definition cfg := list group.

Definition base_name : N := 0%N.      (* ctpolicy.BaseName "All-logs" *)
Definition google_name : N := 1%N.    (* "Google-operated" *)
Definition nongoogle_name : N := 2%N. (* "Non-Google-operated" *)

(* LogGroupInfo.populate: LogURLs is a set *)
Definition populate (included : operator -> bool) (ll : loglist) : list N :=
  nodupN (ids (filter included ll)).

(* setMinInclusions: assigns, then errors if negative / larger than the group *)
Definition set_min_ok (i : Z) (logs : list N) : bool :=
  negb (min_negative i) && negb (min_exceeds i (Z.of_nat (length logs))).

(* the session is an input here (GetSubmissionSession: weighted random order of the logs
   with positive weight); [sess] picks it for a group *)
Definition chrome_groups (months : Z) (ll : loglist) (sess : N -> list N -> list N) : option cfg :=
  let goog := populate op_google ll in
  if negb (set_min_ok 1 goog) then None else
  let non := populate (fun op => negb (op_google op)) ll in
  if negb (set_min_ok 1 non) then None else
  let all := populate (fun _ => true) ll in
  let inc := chrome_inc_count months in
  if negb (set_min_ok inc all) then None else
  Some [mkGroup google_name goog 1 false (sess google_name goog);
        mkGroup nongoogle_name non 1 false (sess nongoogle_name non);
        mkGroup base_name all inc true (sess base_name all)].

Definition apple_groups (months : Z) (ll : loglist) (sess : N -> list N -> list N) : option cfg :=
  let all := populate (fun _ => true) ll in
  let inc := apple_inc_count months in
  if negb (set_min_ok inc all) then None else
  Some [mkGroup base_name all inc true (sess base_name all)].

(* lifetimeInMonths on civil dates (y, m, d); time.Time.Date() itself is an oracle *)
Definition months_of (nb na : Z * Z * Z) : Z :=
  match nb, na with (sy, sm, sd), (ey, em, ed) => lifetime_in_months sy sm sd ey em ed end.

(* ------------------------------------------------------------------ Part 2 *)

Inductive res := RNil | RPending | RErr | RSct.   (* results[log]: absent | &{} | {nil,err} | {sct,_} *)
Definition res_ptr (r : res) : option Z := match r with RNil => None | _ => Some 0 end.
Definition sct_ptr (r : res) : option Z := match r with RSct => Some 0 | _ => None end.

Record sst := mkSst {
  needs : N -> Z;        (* groupNeeds *)
  results : N -> res;
  cancels : N -> bool;   (* cancels[log] is a non-nil cancel function *)
  finished : N -> bool;  (* done[log] is closed (field added by the fix; unused without it) *)
  cancelled : N -> bool  (* the registered cancel function of log's request has been called *)
}.

Definition names (c : cfg) : list N := map g_name c.
Definition groups_of (c : cfg) (l : N) : list N :=            (* logToGroups[l] *)
  map g_name (filter (fun g => memN l (g_logs g)) c).
Definition all_logs (c : cfg) : list N :=
  nodupN (concat (map g_logs c) ++ concat (map g_session c)).
Definition in_base (c : cfg) (l : N) : bool := memN base_name (groups_of c l).

Definition init_sst (c : cfg) : sst :=
  mkSst (fun g => match find (fun gr => N.eqb (g_name gr) g) c with Some gr => g_min gr | None => 0 end)
        (fun _ => RNil) (fun _ => false) (fun _ => false) (fun _ => false).

Definition request (c : cfg) (st : sst) (l : N) : sst * bool :=
  if req_already (res_ptr (results st l)) then (st, false)
  else
    let rs := upd (results st) l RPending in
    let awaited := existsb (fun g => req_group_awaits (needs st g)) (groups_of c l) in
    if req_not_awaited awaited
    then (mkSst (needs st) rs (cancels st) (upd (finished st) l true) (cancelled st), false)
    else (mkSst (needs st) rs (upd (cancels st) l true) (finished st) (cancelled st), true).

(* the loop over the non-base groups of the log *)
Definition nonbase_pass (l : N) (gs : list N) (nd : N -> Z) (rs : N -> res) : (N -> Z) * (N -> res) :=
  fold_left (fun (acc : (N -> Z) * (N -> res)) (g : N) =>
               if set_skip_base (N.eqb g base_name) then acc
               else (upd (fst acc) g (fst acc g - 1),
                     if set_group_needs (fst acc g) then upd (snd acc) l RSct else snd acc))
            gs (nd, rs).

Definition others_sum (c : cfg) (nd : N -> Z) : Z :=
  fold_left (fun acc g => if set_other_counts (negb (N.eqb g base_name)) (nd g) then acc + nd g else acc)
            (names c) 0.

(* the base-group block; None = results[log] is nil and its .sct is dereferenced (panic) *)
Definition base_pass (c : cfg) (l : N) (nd : N -> Z) (rs : N -> res) : option ((N -> Z) * (N -> res)) :=
  if set_in_base (in_base c l) then
    match rs l with
    | RNil => None
    | r =>
        if set_has_sct (sct_ptr r) then Some (upd nd base_name (nd base_name - 1), rs)
        else if set_base_needs (nd base_name) then
               if set_base_exceeds (nd base_name) (others_sum c nd)
               then Some (upd nd base_name (nd base_name - 1), upd rs l RSct)
               else Some (nd, rs)
             else Some (nd, rs)
    end
  else Some (nd, rs).

Definition awaited_by (c : cfg) (nd : N -> Z) (l : N) : bool :=
  existsb (fun g => set_group_awaits (nd g)) (groups_of c l).

(* cancel every registered request that no group awaits any more *)
Definition cancel_pass (c : cfg) (nd : N -> Z) (cs cd : N -> bool) : (N -> bool) * (N -> bool) :=
  fold_left (fun (acc : (N -> bool) * (N -> bool)) (l : N) =>
               if set_should_cancel (awaited_by c nd l) (if fst acc l then Some 0 else None)
               then (upd (fst acc) l false, upd (snd acc) l true) else acc)
            (nodupN (concat (map g_logs c))) (cs, cd).

Definition set_result (c : cfg) (st : sst) (l : N) (sct : bool) : option sst :=
  if set_is_error (if sct then Some 0 else None)
  then Some (mkSst (needs st) (upd (results st) l RErr) (cancels st) (upd (finished st) l true) (cancelled st))
  else
    let nr := nonbase_pass l (groups_of c l) (needs st) (results st) in
    match base_pass c l (fst nr) (snd nr) with
    | None => None
    | Some (nd, rs) =>
        let cc := cancel_pass c nd (cancels st) (cancelled st) in
        Some (mkSst nd rs (fst cc) (upd (finished st) l true) (snd cc))
    end.

Definition group_complete (c : cfg) (st : sst) (g : N) : bool :=
  group_complete_ret (memN g (names c)) (needs st g).

Definition collect (c : cfg) (st : sst) : list N :=
  filter (fun l => collect_keep (res_ptr (results st l)) (sct_ptr (results st l))) (all_logs c).

(* ------------------------------------------------------------------ Part 3 *)

Inductive outcome := OSct | OErr | OHang.

(* one goroutine of groupRace, for log l of group g *)
Inductive rpc :=
| RSleep                (* in the select on subCtx.Done / the stagger timer *)
| RCheck                (* timer fired; about to call state.groupComplete *)
| RRequest              (* about to call state.request *)
| RCalling              (* first requester; about to call SubmitToLog *)
| RInflight             (* inside SubmitToLog *)
| RGot (sct : bool)     (* SubmitToLog returned; about to call state.setResult *)
| RWait                 (* (fix) waiting for the log's outcome obtained by another race *)
| RCount                (* about to send on the counter channel (deferred countCall) *)
| RDone.

(* the collecting loop of groupRace *)
Inductive mpc :=
| MLoop (k : nat)       (* k iterations done, in the select *)
| MCheck (k : nat)      (* received a count; about to call groupComplete *)
| MFinal                (* about to compute the final groupComplete *)
| MReturn (v : bool)    (* about to send the groupState to GetSCTs *)
| MDone.

(* GetSCTs *)
Inductive tpc :=
| TLoop (n : nat) (gc : N -> bool)           (* n group events received *)
| TVerdict (rest : list N) (gc : N -> bool)  (* (fix) re-reading groupComplete for [rest]; [] = about to collect *)
| TReturned (scts : list N) (ok : bool).

Record state := mkState {
  sh : sst;
  rp : N -> N -> rpc;
  mp : N -> mpc;
  cnt : N -> nat;           (* buffered counter channel of each race *)
  evq : list (N * bool);    (* buffered groupEvents channel *)
  top : tpc;
  ctxdone : bool;           (* the caller's context is done *)
  starts : list N;          (* history: logs SubmitToLog was started for *)
  arrived : list N;         (* history: logs whose SCT reached setResult *)
  panicked : bool
}.

Inductive action :=
| AWakeTimer (g l : N) | AWakeDone (g l : N) | ACheck (g l : N) | ARequest (g l : N)
| AStart (g l : N) | AReturn (g l : N) (sct : bool) | ASetRes (g l : N)
| AWaitDone (g l : N) | ACount (g l : N)
| ARecvCount (g : N) | ARecvDone (g : N) | AMainCheck (g : N) | AMainFinal (g : N) | ASendEvent (g : N)
| ATopRecv | ATopDone | ATopVerdict | ATopCollect
| ACancel.

Definition find_group (c : cfg) (g : N) : option group := find (fun gr => N.eqb (g_name gr) g) c.
Definition session_of (c : cfg) (g : N) : list N :=
  match find_group c g with Some gr => g_session gr | None => [] end.
Definition valid_gor (c : cfg) (g l : N) : bool := memN g (names c) && memN l (session_of c g).

Definition rpc_eqb (a b : rpc) : bool :=
  match a, b with
  | RSleep, RSleep | RCheck, RCheck | RRequest, RRequest | RCalling, RCalling | RInflight, RInflight
  | RWait, RWait | RCount, RCount | RDone, RDone => true
  | RGot x, RGot y => Bool.eqb x y
  | _, _ => false
  end.

Definition set_rp (s : state) (g l : N) (pc : rpc) : state :=
  mkState (sh s) (fun g' l' => if N.eqb g' g && N.eqb l' l then pc else rp s g' l') (mp s) (cnt s) (evq s) (top s)
          (ctxdone s) (starts s) (arrived s) (panicked s).
Definition set_sh (s : state) (x : sst) : state :=
  mkState x (rp s) (mp s) (cnt s) (evq s) (top s) (ctxdone s) (starts s) (arrived s) (panicked s).
Definition set_mp (s : state) (g : N) (pc : mpc) : state :=
  mkState (sh s) (rp s) (upd (mp s) g pc) (cnt s) (evq s) (top s) (ctxdone s) (starts s) (arrived s) (panicked s).
Definition set_cnt (s : state) (g : N) (n : nat) : state :=
  mkState (sh s) (rp s) (mp s) (upd (cnt s) g n) (evq s) (top s) (ctxdone s) (starts s) (arrived s) (panicked s).
Definition set_evq (s : state) (q : list (N * bool)) : state :=
  mkState (sh s) (rp s) (mp s) (cnt s) q (top s) (ctxdone s) (starts s) (arrived s) (panicked s).
Definition set_top (s : state) (t : tpc) : state :=
  mkState (sh s) (rp s) (mp s) (cnt s) (evq s) t (ctxdone s) (starts s) (arrived s) (panicked s).
Definition set_ctx (s : state) : state :=
  mkState (sh s) (rp s) (mp s) (cnt s) (evq s) (top s) true (starts s) (arrived s) (panicked s).
Definition add_start (s : state) (l : N) : state :=
  mkState (sh s) (rp s) (mp s) (cnt s) (evq s) (top s) (ctxdone s) (l :: starts s) (arrived s) (panicked s).
Definition add_arrived (s : state) (l : N) : state :=
  mkState (sh s) (rp s) (mp s) (cnt s) (evq s) (top s) (ctxdone s) (starts s) (l :: arrived s) (panicked s).
Definition set_panic (s : state) : state :=
  mkState (sh s) (rp s) (mp s) (cnt s) (evq s) (top s) (ctxdone s) (starts s) (arrived s) true.

(* what GetSCTs does once all group events are in *)
Definition after_loop (p : bool) (c : cfg) (gc : N -> bool) : tpc :=
  TVerdict (if p then names c else []) gc.

Definition init (p : bool) (c : cfg) : state :=
  mkState (init_sst c) (fun _ _ => RSleep)
          (fun g => match session_of c g with [] => MFinal | _ => MLoop 0 end)
          (fun _ => 0%nat) []
          (match c with [] => after_loop p c (fun _ => false) | _ => TLoop 0 (fun _ => false) end)
          false [] [] false.

(* may SubmitToLog for l return this now?  an SCT only from a log that answers with one; an
   error from a failing log or once the request's context is cancelled *)
Definition may_return (oc : N -> outcome) (s : state) (l : N) (sct : bool) : bool :=
  if sct then match oc l with OSct => true | _ => false end
  else match oc l with OErr => true | _ => cancelled (sh s) l || ctxdone s end.

Definition step (p : bool) (c : cfg) (oc : N -> outcome) (s : state) (a : action) : option state :=
  if panicked s then None else
  match a with
  | AWakeTimer g l =>
      if valid_gor c g l && rpc_eqb (rp s g l) RSleep then Some (set_rp s g l RCheck) else None
  | AWakeDone g l =>
      if valid_gor c g l && rpc_eqb (rp s g l) RSleep && ctxdone s then Some (set_rp s g l RCount) else None
  | ACheck g l =>
      if valid_gor c g l && rpc_eqb (rp s g l) RCheck
      then Some (set_rp s g l (if group_complete c (sh s) g then RCount else RRequest)) else None
  | ARequest g l =>
      if valid_gor c g l && rpc_eqb (rp s g l) RRequest
      then let r := request c (sh s) l in
           Some (set_sh (set_rp s g l (if snd r then RCalling else if p then RWait else RCount)) (fst r))
      else None
  | AStart g l =>
      if valid_gor c g l && rpc_eqb (rp s g l) RCalling then Some (add_start (set_rp s g l RInflight) l) else None
  | AReturn g l sct =>
      if valid_gor c g l && rpc_eqb (rp s g l) RInflight && may_return oc s l sct
      then Some (set_rp s g l (RGot sct)) else None
  | ASetRes g l =>
      if valid_gor c g l then
        match rp s g l with
        | RGot sct =>
            match set_result c (sh s) l sct with
            | Some x => let s' := set_sh (set_rp s g l RCount) x in
                        Some (if sct then add_arrived s' l else s')
            | None => Some (set_panic s)
            end
        | _ => None
        end
      else None
  | AWaitDone g l =>
      if valid_gor c g l && rpc_eqb (rp s g l) RWait && (finished (sh s) l || ctxdone s)
      then Some (set_rp s g l RCount) else None
  | ACount g l =>
      if valid_gor c g l && rpc_eqb (rp s g l) RCount
      then Some (set_cnt (set_rp s g l RDone) g (S (cnt s g))) else None
  | ARecvCount g =>
      if memN g (names c) then
        match mp s g, cnt s g with
        | MLoop k, S n => Some (set_mp (set_cnt s g n) g (MCheck k))
        | _, _ => None
        end
      else None
  | ARecvDone g =>
      if memN g (names c) && ctxdone s then
        match mp s g with MLoop _ => Some (set_mp s g MFinal) | _ => None end
      else None
  | AMainCheck g =>
      if memN g (names c) then
        match mp s g with
        | MCheck k =>
            Some (set_mp s g (if group_complete c (sh s) g then MReturn true
                              else if Nat.eqb (S k) (length (session_of c g)) then MFinal else MLoop (S k)))
        | _ => None
        end
      else None
  | AMainFinal g =>
      if memN g (names c) then
        match mp s g with MFinal => Some (set_mp s g (MReturn (group_complete c (sh s) g))) | _ => None end
      else None
  | ASendEvent g =>
      if memN g (names c) then
        match mp s g with MReturn v => Some (set_evq (set_mp s g MDone) (evq s ++ [(g, v)])) | _ => None end
      else None
  | ATopRecv =>
      match top s, evq s with
      | TLoop n gc, (g, v) :: q =>
          let gc' := upd gc g v in
          Some (set_top (set_evq s q) (if Nat.eqb (S n) (length c) then after_loop p c gc' else TLoop (S n) gc'))
      | _, _ => None
      end
  | ATopDone =>
      match top s with
      | TLoop n gc => if ctxdone s then Some (set_top s (TReturned (collect c (sh s)) (forallb gc (names c)))) else None
      | _ => None
      end
  | ATopVerdict =>
      match top s with
      | TVerdict (g :: rest) gc => Some (set_top s (TVerdict rest (upd gc g (group_complete c (sh s) g))))
      | _ => None
      end
  | ATopCollect =>
      match top s with
      | TVerdict [] gc => Some (set_top s (TReturned (collect c (sh s)) (forallb gc (names c))))
      | _ => None
      end
  | ACancel => if ctxdone s then None else Some (set_ctx s)
  end.

Fixpoint run (p : bool) (c : cfg) (oc : N -> outcome) (s : state) (tr : list action) : option state :=
  match tr with
  | [] => Some s
  | a :: r => match step p c oc s a with Some s' => run p c oc s' r | None => None end
  end.

Definition returned (s : state) : option (list N * bool) :=
  match top s with TReturned scts ok => Some (scts, ok) | _ => None end.

(* ---- a deterministic scheduler, used to produce witnesses and by the correspondence
        replay: repeatedly fire the first enabled action of a candidate list ---- *)
Definition candidates (c : cfg) (with_returns : bool) : list action :=
  concat (map (fun gr =>
     let g := g_name gr in
     concat (map (fun l => [ACount g l; ASetRes g l; AWaitDone g l; AStart g l; ARequest g l; ACheck g l]
                           ++ (if with_returns then [AReturn g l true; AReturn g l false] else [])
                           ++ [AWakeTimer g l]) (g_session gr))
     ++ [AMainCheck g; AMainFinal g; ASendEvent g; ARecvCount g]) c)
  ++ [ATopRecv; ATopVerdict; ATopCollect].

Fixpoint first_enabled (p : bool) (c : cfg) (oc : N -> outcome) (s : state) (as_ : list action) : option (action * state) :=
  match as_ with
  | [] => None
  | a :: r => match step p c oc s a with Some s' => Some (a, s') | None => first_enabled p c oc s r end
  end.

Fixpoint schedule (fuel : nat) (p : bool) (c : cfg) (oc : N -> outcome) (cands : list action) (s : state) : state :=
  match fuel with
  | O => s
  | S f => match first_enabled p c oc s cands with
           | Some (_, s') => schedule f p c oc cands s'
           | None => s
           end
  end.

(* the same, also returning the actions fired (oldest first) *)
Fixpoint schedule_trace (fuel : nat) (p : bool) (c : cfg) (oc : N -> outcome) (cands : list action) (s : state)
  : list action * state :=
  match fuel with
  | O => ([], s)
  | S f => match first_enabled p c oc s cands with
           | Some (a, s') => let r := schedule_trace f p c oc cands s' in (a :: fst r, snd r)
           | None => ([], s)
           end
  end.

(* number of SCTs among [scts] from logs of group g *)
Definition count_in (scts : list N) (logs : list N) : Z :=
  Z.of_nat (length (filter (fun l => memN l logs) scts)).

(* the policy is satisfied by a returned set *)
Definition policy_satisfied (c : cfg) (scts : list N) : Prop :=
  forall gr, In gr c -> count_in scts (g_logs gr) >= g_min gr.
Definition policy_satisfiedb (c : cfg) (scts : list N) : bool :=
  forallb (fun gr => count_in scts (g_logs gr) >=? g_min gr) c.
