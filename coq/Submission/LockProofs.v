(* Generic lock-set lemma (proved once): if every pair of conflicting table entries shares a
   held mutex (one side exclusively), no execution respecting mutex semantics contains two
   adjacent conflicting accesses of different threads. *)
From Coq Require Import List String Bool NArith Lia.
From V Require Import Submission.LockLib.
Import ListNotations.
Open Scope string_scope.

Lemma mode_eqb_eq x y : mode_eqb x y = true <-> x = y.
Proof. destruct x, y; simpl; split; congruence. Qed.

Lemma holder_eqb_eq h k : holder_eqb h k = true <-> h = k.
Proof.
  destruct h as [[[t o] m] md], k as [[[t' o'] m'] md']; simpl.
  rewrite !andb_true_iff, !N.eqb_eq, String.eqb_eq, mode_eqb_eq.
  split; [intros [[[-> ->] ->] ->]; reflexivity | intros E; inversion E; auto].
Qed.

Lemma existsb_holder hs h : existsb (holder_eqb h) hs = true <-> In h hs.
Proof.
  rewrite existsb_exists. split.
  - intros [k [Hin E]]. apply holder_eqb_eq in E. subst. exact Hin.
  - intros Hin. exists h. split; [exact Hin | apply holder_eqb_eq; reflexivity].
Qed.

Lemma remove1_incl h hs k : In k (remove1 h hs) -> In k hs.
Proof.
  induction hs as [|x r IH]; simpl; [tauto|].
  destruct (holder_eqb h x); simpl; intuition.
Qed.

(* mutual exclusion: an exclusive holder is the only holder *)
Definition mutex_inv (hs : list holder) : Prop :=
  forall t t' o m md, In (t, o, m, Ex) hs -> In (t', o, m, md) hs -> t = t'.

Lemma holds_lock_false hs o m t md : holds_lock hs o m = false -> ~ In (t, o, m, md) hs.
Proof.
  unfold holds_lock. intros H Hin. apply not_true_iff_false in H. apply H.
  apply existsb_exists. exists (t, o, m, md). split; [exact Hin|].
  rewrite N.eqb_refl, String.eqb_refl. reflexivity.
Qed.

Lemma holds_excl_false hs o m t : holds_excl hs o m = false -> ~ In (t, o, m, Ex) hs.
Proof.
  unfold holds_excl. intros H Hin. apply not_true_iff_false in H. apply H.
  apply existsb_exists. exists (t, o, m, Ex). split; [exact Hin|].
  rewrite N.eqb_refl, String.eqb_refl. reflexivity.
Qed.

Lemma lstep_inv hs e hs' : mutex_inv hs -> lstep hs e = Some hs' -> mutex_inv hs'.
Proof.
  intros Inv H. destruct e as [t o m md | t o m md | t o a]; simpl in H.
  - destruct md.
    + destruct (holds_excl hs o m) eqn:E; [discriminate|]. inversion H; subst; clear H.
      intros t1 t2 o1 m1 md1 [E1|H1] [E2|H2].
      * inversion E1.
      * inversion E1.
      * inversion E2; subst. exfalso. eapply holds_excl_false; eauto.
      * eapply Inv; eauto.
    + destruct (holds_lock hs o m) eqn:E; [discriminate|]. inversion H; subst; clear H.
      intros t1 t2 o1 m1 md1 [E1|H1] [E2|H2].
      * inversion E1; inversion E2; subst; reflexivity.
      * inversion E1; subst. exfalso. eapply holds_lock_false; eauto.
      * inversion E2; subst. exfalso. eapply holds_lock_false; eauto.
      * eapply Inv; eauto.
  - destruct (existsb (holder_eqb (t, o, m, md)) hs); [|discriminate]. inversion H; subst; clear H.
    intros t1 t2 o1 m1 md1 H1 H2. eapply Inv; eapply remove1_incl; eauto.
  - destruct (_ && _); [|discriminate]. inversion H; subst. exact Inv.
Qed.

Lemma lrun_inv tr : forall hs hs', mutex_inv hs -> lrun hs tr = Some hs' -> mutex_inv hs'.
Proof.
  induction tr as [|e r IH]; simpl; intros hs hs' Inv H.
  - inversion H; subst; exact Inv.
  - destruct (lstep hs e) eqn:E; [|discriminate]. eapply IH; [eapply lstep_inv; eauto | exact H].
Qed.

Lemma lrun_app tr1 : forall tr2 hs hs', lrun hs (tr1 ++ tr2) = Some hs' ->
  exists mid, lrun hs tr1 = Some mid /\ lrun mid tr2 = Some hs'.
Proof.
  induction tr1 as [|e r IH]; simpl; intros tr2 hs hs' H.
  - exists hs. auto.
  - destruct (lstep hs e); [|discriminate]. apply IH; exact H.
Qed.

Lemma table_ok_pair tbl a b : table_ok tbl = true -> In a tbl -> In b tbl -> pair_ok a b = true.
Proof.
  unfold table_ok, access_ok. intros H Ha Hb.
  rewrite forallb_forall in H. specialize (H a Ha). rewrite forallb_forall in H. exact (H b Hb).
Qed.

Theorem lockset_no_adjacent_race : forall tbl tr hs',
  table_ok tbl = true ->
  (forall t o a, In (EAcc t o a) tr -> In a tbl) ->
  lrun [] tr = Some hs' ->
  ~ adjacent_race tr.
Proof.
  intros tbl tr hs' Hok Htbl Hrun (pre & post & t1 & t2 & o & a & b & -> & Hne & Hc).
  apply lrun_app in Hrun. destruct Hrun as (mid & Hpre & Hrest).
  assert (Inv : mutex_inv mid).
  { eapply lrun_inv; [|exact Hpre]. intros ? ? ? ? ? []. }
  simpl in Hrest.
  destruct (negb (a_init a) && forallb (fun l => existsb (holder_eqb (t1, o, fst l, snd l)) mid) (a_locks a)) eqn:Ea; [|discriminate].
  destruct (negb (a_init b) && forallb (fun l => existsb (holder_eqb (t2, o, fst l, snd l)) mid) (a_locks b)) eqn:Eb; [|discriminate].
  apply andb_true_iff in Ea. destruct Ea as [Ia La]. apply andb_true_iff in Eb. destruct Eb as [Ib Lb].
  apply negb_true_iff in Ia. apply negb_true_iff in Ib.
  assert (Ha : In a tbl) by (eapply Htbl; apply in_or_app; right; left; reflexivity).
  assert (Hb : In b tbl) by (eapply Htbl; apply in_or_app; right; right; left; reflexivity).
  pose proof (table_ok_pair tbl a b Hok Ha Hb) as P.
  unfold pair_ok in P. rewrite Ia, Ib, Hc in P. simpl in P.
  unfold share_lock in P. apply existsb_exists in P. destruct P as [[ma mda] [Hla P]].
  apply existsb_exists in P. destruct P as [[mb mdb] [Hlb P]]. simpl in P.
  apply andb_true_iff in P. destruct P as [Em Ex']. apply String.eqb_eq in Em. subst mb.
  rewrite forallb_forall in La, Lb.
  specialize (La _ Hla). specialize (Lb _ Hlb). simpl in La, Lb.
  apply existsb_holder in La. apply existsb_holder in Lb.
  destruct mda, mdb; simpl in Ex'; try discriminate.
  - apply Hne. symmetry. eapply Inv; eauto.
  - apply Hne. eapply Inv; eauto.
  - apply Hne. eapply Inv; eauto.
Qed.
