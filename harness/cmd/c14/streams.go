// Two more input streams of the C14 harness.
//
// sqlStream: the production MySQL and PostgreSQL IssuanceChainStorage implementations over the
// in-memory SQL driver of sqlfake.go, (1) swept at the storage interface with every fault kind at
// the INSERT and at the SELECT, (2) behind real external-storage Instances fed the same
// submissions as a default-mode Instance, with faults of every kind at the INSERT of chains that
// are or are not stored yet, resubmission, and reads in every cache state.
//
// cancelStream: readers (and writers) that overlap on ONE issuance chain, each with its own
// request context, over a storage whose lookup (write) of that chain blocks until it is released;
// some of the contexts end (cancellation, deadline) while the call is in flight, the others stay
// alive.
package main

import (
	"bytes"
	"context"
	"crypto/sha256"
	"database/sql"
	"encoding/json"
	"fmt"
	"math/rand"
	"net/http"
	"net/http/httptest"
	"net/url"
	"sync"
	"time"

	ct "github.com/google/certificate-transparency-go"
	"github.com/google/certificate-transparency-go/trillian/ctfe/cache"
	"github.com/google/certificate-transparency-go/trillian/ctfe/storage"

	"verif/harness/ctfeenv"
	"verif/harness/lib"
	"verif/harness/pki"
)

// doCtx is ctfeenv.Env.Do with a request context of the caller's.
func doCtx(ctx context.Context, e *ctfeenv.Env, method, path, rawQuery string, body []byte) *httptest.ResponseRecorder {
	h, ok := e.Inst.Handlers[e.Prefix+path]
	w := httptest.NewRecorder()
	if !ok {
		w.WriteHeader(http.StatusNotFound)
		return w
	}
	u := url.URL{Path: e.Prefix + path, RawQuery: rawQuery}
	req := httptest.NewRequest(method, u.String(), bytes.NewReader(body)).WithContext(ctx)
	h.ServeHTTP(w, req)
	return w
}

func addChainCtx(ctx context.Context, e *ctfeenv.Env, pre bool, chain [][]byte) int {
	body, _ := json.Marshal(ct.AddChainRequest{Chain: chain})
	p := ct.AddChainPath
	if pre {
		p = ct.AddPreChainPath
	}
	return doCtx(ctx, e, http.MethodPost, p, "", body).Code
}

// readCtx reads entries start..end (get-entries) or the single entry start (get-entry-and-proof)
// and returns the status and the extra_data of every entry served.
func readCtx(ctx context.Context, e *ctfeenv.Env, start, end int, viaProof bool) (int, [][]byte) {
	if viaProof {
		rec := doCtx(ctx, e, http.MethodGet, ct.GetEntryAndProofPath, fmt.Sprintf("leaf_index=%d&tree_size=%d", start, start+1), nil)
		var rsp ct.GetEntryAndProofResponse
		if rec.Code != 200 {
			return rec.Code, nil
		}
		if err := json.Unmarshal(rec.Body.Bytes(), &rsp); err != nil {
			return -1, nil
		}
		return 200, [][]byte{rsp.ExtraData}
	}
	rec := doCtx(ctx, e, http.MethodGet, ct.GetEntriesPath, fmt.Sprintf("start=%d&end=%d", start, end), nil)
	if rec.Code != 200 {
		return rec.Code, nil
	}
	var rsp ct.GetEntriesResponse
	if err := json.Unmarshal(rec.Body.Bytes(), &rsp); err != nil {
		return -1, nil
	}
	var out [][]byte
	for _, le := range rsp.Entries {
		out = append(out, le.ExtraData)
	}
	return 200, out
}

// submission is one generated add-chain / add-pre-chain request.
type submission struct {
	precert bool
	submit  [][]byte
	leaf    []byte
	rest    [][]byte // the validated chain after the leaf
	blob    []byte   // its ASN.1 form: what the external storage holds
	hash    [32]byte
	want    []byte // extra_data the default mode serves for it
}

type issuerPath struct {
	root  *pki.Entity
	inter []*pki.Entity // leaf-side first
}

func newIssuer(r *rand.Rand, roots []*pki.Entity, tag string, depth int) issuerPath {
	is := issuerPath{root: roots[r.Intn(len(roots))]}
	parent := is.root
	for d := depth; d > 0; d-- {
		e := pki.Issue(pki.Opts{CN: fmt.Sprintf("%s int %d", tag, d), IsCA: true, KeyIdx: 1 + r.Intn(3)}, parent)
		is.inter = append([]*pki.Entity{e}, is.inter...)
		parent = e
	}
	return is
}

// newSubmission issues a leaf under is, submits it to the default-mode instance and records what
// that instance serves for it.
func newSubmission(r *rand.Rand, direct *ctfeenv.Env, directLog *simpleLog, is issuerPath, cn string) submission {
	parent := is.root
	if len(is.inter) > 0 {
		parent = is.inter[0]
	}
	s := submission{precert: r.Intn(2) == 0}
	o := pki.Opts{CN: cn, KeyIdx: 5}
	if s.precert {
		o.ExtraExt = append(o.ExtraExt, pki.PoisonExt())
	}
	leaf := pki.Issue(o, parent)
	s.leaf = leaf.DER
	s.submit = [][]byte{leaf.DER}
	for _, e := range is.inter {
		s.submit = append(s.submit, e.DER)
		s.rest = append(s.rest, e.DER)
	}
	s.rest = append(s.rest, is.root.DER)
	if r.Intn(2) == 0 {
		s.submit = append(s.submit, is.root.DER)
	}
	if rec := direct.AddChain(s.precert, s.submit); rec.Code != 200 {
		panic(fmt.Sprintf("default-mode add-chain failed: %d %s", rec.Code, rec.Body.String()))
	}
	directLog.mu.Lock()
	idx := len(directLog.leaves) - 1
	directLog.mu.Unlock()
	code, got := readCtx(context.Background(), direct, idx, idx, false)
	if code != 200 || len(got) != 1 {
		panic(fmt.Sprintf("default-mode get-entries failed: %d", code))
	}
	s.want = got[0]
	s.blob, _ = asn1Chain(s.rest)
	s.hash = sha256.Sum256(s.blob)
	return s
}

func newEnvWith(roots []*pki.Entity, st storage.IssuanceChainStorage, c cache.IssuanceChainCache, now time.Time) (*ctfeenv.Env, *simpleLog) {
	opts := ctfeenv.Options{Roots: roots, Dir: *lib.OutDir, Deadline: time.Hour}
	if st != nil {
		opts.ChainStorage, opts.ChainCache = st, c
	}
	env, err := ctfeenv.New(opts)
	if err != nil {
		panic(err)
	}
	env.Clock.Set(now) // request deadlines are computed from this clock: keep the request contexts alive
	lg := &simpleLog{}
	lg.wire(env.Backend)
	return env, lg
}

func (c *recCache) setEvicted(v bool) {
	c.mu.Lock()
	c.hit, c.lastGet, c.evicted = false, nil, v
	c.mu.Unlock()
}

// sampler decides which cases of the two streams are also evaluated by the Coq model: every case
// that fails the direct oracle, and one in `every` of the others per class (the cases carry whole
// certificates and chains; evaluating all of them would double the model's share of a quick run).
// The cases left out are direct-oracle cases (cases.jsonl only).
type sampler struct {
	seen map[string]int
	keys int
}

func (s *sampler) pick(class string, every int, failing bool, coq string) (string, string) {
	if s.seen == nil {
		s.seen = map[string]int{}
	}
	n := s.seen[class]
	s.seen[class] = n + 1
	if failing || n%every == 0 {
		return coq, ""
	}
	s.keys++
	return "", fmt.Sprintf("%s-unsampled-%d", class, s.keys)
}

var modelSample sampler

func obsOf(code int, served [][]byte) string {
	if code == 200 && len(served) == 1 {
		return "Ok " + lib.Bytes(served[0])
	}
	return "ErrStruct"
}

// ---------------------------------------------------------------------------------------------

func sqlStream(r *rand.Rand, w *lib.Writer, roots []*pki.Entity) {
	ctx := context.Background()
	// (1) the storage interface, every fault kind.  Oracle, on the table itself: an Add that reports
	// success leaves the row in the table and FindByKey returns it once the fault is over; a FindByKey
	// that meets a fault or an unknown key reports an error.
	for _, dialect := range []string{"mysql", "postgresql"} {
		fdb, db := newFakeDB(dialect)
		st := newSQLStorage(dialect, db)
		kinds := append([]sqlFault{{name: "none"}}, faultsFor(dialect)...)
		emit := func(op, fault, side, state string, ok bool, note string, impl map[string]interface{}) {
			w.Add(lib.Case{Coq: "", Key: fmt.Sprintf("sql-%s-%s-%s-%s", dialect, op, fault, state),
				Input:  map[string]interface{}{"op": "sql-storage-" + op, "dialect": dialect, "fault": fault, "fault_side": side, "key_state": state},
				Impl:   impl,
				PropOK: ok, Note: note, Tags: []string{"sql-storage:" + dialect + ":" + op + ":" + side}})
		}
		errStr := func(e error) string {
			if e == nil {
				return ""
			}
			return e.Error()
		}
		for ki := range kinds {
			k := kinds[ki]
			for _, state := range []string{"absent", "present"} {
				val := make([]byte, 1+r.Intn(400))
				r.Read(val)
				h := sha256.Sum256(val)
				key := h[:]
				if state == "present" {
					if err := st.Add(ctx, key, val); err != nil {
						panic(fmt.Sprintf("%s storage: Add without a fault failed: %v", dialect, err))
					}
				}
				if k.err != nil {
					fdb.setExecFault(&k)
				}
				err := st.Add(ctx, key, val)
				fdb.setExecFault(nil)
				row, inTable := fdb.row(key)
				got, ferr := st.FindByKey(ctx, key)
				ok, note := true, ""
				switch {
				case err == nil && !(inTable && bytes.Equal(row, val)):
					ok, note = false, fmt.Sprintf("%s storage: Add reported success while the INSERT failed (%s: %v) and the table does not hold the row", dialect, k.name, k.err)
				case err == nil && (ferr != nil || !bytes.Equal(got, val)):
					ok, note = false, fmt.Sprintf("%s storage: Add reported success (%s) but FindByKey of the same key afterwards fails or returns other bytes: %v", dialect, k.name, ferr)
				case err != nil && k.err == nil:
					ok, note = false, fmt.Sprintf("%s storage: Add failed without any fault (key %s): %v", dialect, state, err)
				}
				side := k.side
				if side == "" {
					side = "none"
				}
				emit("add", k.name, side, state, ok, note, map[string]interface{}{"add_error": errStr(err), "row_in_table": inTable, "find_error": errStr(ferr)})
				if state == "present" {
					// a second Add of a stored key without a fault: still success, value unchanged
					err2 := st.Add(ctx, key, val)
					got2, ferr2 := st.FindByKey(ctx, key)
					emit("add-duplicate", k.name, side, state, err2 == nil && ferr2 == nil && bytes.Equal(got2, val),
						fmt.Sprintf("%s storage: adding a stored chain again failed or changed it: %v / %v", dialect, err2, ferr2), map[string]interface{}{"add_error": errStr(err2), "find_error": errStr(ferr2)})
					if k.err != nil {
						fdb.setQueryFault(&k)
						got3, ferr3 := st.FindByKey(ctx, key)
						fdb.setQueryFault(nil)
						emit("find", k.name, side, state, ferr3 != nil && got3 == nil,
							fmt.Sprintf("%s storage: FindByKey met a fault (%s) and returned no error (%d octets)", dialect, k.name, len(got3)), map[string]interface{}{"find_error": errStr(ferr3), "octets": len(got3)})
					}
				}
			}
		}
		// unknown key
		unk := make([]byte, 32)
		r.Read(unk)
		gotU, errU := st.FindByKey(ctx, unk)
		emit("find", "none", "none", "unknown", errU != nil && gotU == nil, dialect+" storage: FindByKey of an unknown key returned no error", map[string]interface{}{"find_error": errStr(errU)})
		// the caller's context has ended before the statement is sent (database/sql reports the context's error)
		for _, flavour := range []string{"canceled", "deadline-exceeded"} {
			val := make([]byte, 1+r.Intn(400))
			r.Read(val)
			h := sha256.Sum256(val)
			var cctx context.Context
			var cancel context.CancelFunc
			if flavour == "canceled" {
				cctx, cancel = context.WithCancel(ctx)
				cancel()
			} else {
				cctx, cancel = context.WithDeadline(ctx, time.Now().Add(-time.Second))
			}
			err := st.Add(cctx, h[:], val)
			cancel()
			_, inTable := fdb.row(h[:])
			_, ferr := st.FindByKey(ctx, h[:])
			emit("add", "caller-context-"+flavour, "client", "absent", err != nil || (inTable && ferr == nil),
				fmt.Sprintf("%s storage: Add with a context that has ended (%s) reported success and the table does not hold the row", dialect, flavour), map[string]interface{}{"add_error": errStr(err), "row_in_table": inTable})
		}
		// the connection pool is closed (shutdown): nothing can be written any more
		{
			val := make([]byte, 1+r.Intn(400))
			r.Read(val)
			h := sha256.Sum256(val)
			db.Close()
			err := st.Add(ctx, h[:], val)
			_, inTable := fdb.row(h[:])
			emit("add", "database-closed", "client", "absent", err != nil || inTable,
				dialect+" storage: Add on a closed database reported success and the table does not hold the row", map[string]interface{}{"add_error": errStr(err), "row_in_table": inTable})
		}
		if len(fdb.odd) > 0 {
			emit("statements", "none", "none", "-", false, fmt.Sprintf("%s storage sent a statement that is neither the INSERT nor the SELECT of the IssuanceChain table: %q", dialect, fdb.odd[0]), map[string]interface{}{"statements": fdb.odd})
		}
	}

	// (2) real Instances over the SQL storages
	now := time.Now()
	direct, directLog := newEnvWith(roots, nil, nil, now)
	type sqlEnv struct {
		name, dialect, cacheName string
		env                      *ctfeenv.Env
		log                      *simpleLog
		fdb                      *fakeDB
		db                       *sql.DB
		cache                    *recCache
		kinds                    []sqlFault
		cursor                   int
		want, blob               [][]byte
	}
	var envs []*sqlEnv
	for di, dialect := range []string{"mysql", "postgresql"} {
		for ci, ck := range []struct {
			name string
			opt  cache.Option
			typ  cache.Type
		}{{"noop", cache.Option{}, cache.NOOP}, {"lru2", cache.Option{Size: 2, TTL: time.Hour}, cache.LRU}} {
			inner, err := cache.NewIssuanceChainCache(ctx, ck.typ, ck.opt)
			if err != nil {
				panic(err)
			}
			fdb, db := newFakeDB(dialect)
			rc := &recCache{inner: inner}
			env, lg := newEnvWith(roots, newSQLStorage(dialect, db), rc, now)
			kinds := faultsFor(dialect)
			envs = append(envs, &sqlEnv{name: dialect + "/" + ck.name, dialect: dialect, cacheName: ck.name, env: env, log: lg, fdb: fdb, db: db, cache: rc,
				kinds: kinds, cursor: r.Intn(len(kinds)) + (di+ci)*len(kinds)/2})
		}
	}
	readBack := func(se *sqlEnv, idx int, evicted bool, fault *sqlFault, lost bool, why string, insertFault string) {
		h := sha256.Sum256(se.blob[idx])
		var saved []byte
		if lost {
			se.fdb.mu.Lock()
			saved = se.fdb.rows[string(h[:])]
			delete(se.fdb.rows, string(h[:]))
			se.fdb.mu.Unlock()
		}
		se.fdb.setQueryFault(fault)
		se.fdb.mu.Lock()
		se.fdb.lastSelect = nil
		se.fdb.mu.Unlock()
		se.cache.setEvicted(evicted)
		viaProof := r.Intn(2) == 0
		code, served := readCtx(ctx, se.env, idx, idx, viaProof)
		se.cache.mu.Lock()
		hit, lastGet := se.cache.hit, se.cache.lastGet
		se.cache.evicted = false
		se.cache.mu.Unlock()
		se.fdb.setQueryFault(nil)
		se.fdb.mu.Lock()
		ls := se.fdb.lastSelect
		if lost && saved != nil {
			se.fdb.rows[string(h[:])] = saved
		}
		se.fdb.mu.Unlock()
		got := "None"
		switch {
		case hit:
			got = "(Some (IoOk " + lib.Bytes(lastGet) + "))"
		case ls != nil && ls.err:
			got = "(Some IoErr)"
		case ls != nil:
			got = "(Some (IoOk " + lib.Bytes(ls.val) + "))"
		}
		fname := "none"
		if fault != nil {
			fname = fault.name
		}
		if lost {
			fname = "row-deleted"
		}
		ok, note := true, ""
		where := fmt.Sprintf("%s storage, cache %s, evicted %v, %s; fault at the INSERT of this submission: %s", se.dialect, se.cacheName, evicted, why, insertFault)
		switch {
		case code == 200 && (len(served) != 1 || !bytes.Equal(served[0], se.want[idx])):
			ok, note = false, "served extra_data differs from the default mode's ("+where+", fault at read time "+fname+")"
		case code != 200 && fname == "none":
			ok, note = false, fmt.Sprintf("an entry accepted with 200 is answered %d although the storage is healthy at read time (%s)", code, where)
		case code >= 400 && code < 500:
			ok, note = false, fmt.Sprintf("storage fault answered %d (%s)", code, where)
		}
		se.log.mu.Lock()
		stored := se.log.leaves[idx].ExtraData
		se.log.mu.Unlock()
		coq, key := modelSample.pick("sql-serve:"+se.name, 4, !ok, fmt.Sprintf("CServe %s %s (%s)", lib.Bytes(stored), got, obsOf(code, served)))
		w.Add(lib.Case{
			Coq: coq, Key: key,
			Input:  map[string]interface{}{"op": "sql-serve", "dialect": se.dialect, "cache": se.cacheName, "evicted": evicted, "read_fault": fname, "insert_fault": insertFault, "why": why, "via_entry_and_proof": viaProof},
			Impl:   map[string]interface{}{"status": code, "cache_hit": hit},
			PropOK: ok, Note: note, Tags: []string{"sql-serve:" + se.name + ":" + fname + fmt.Sprintf(":%d", code), "sql-serve-after-insert-fault:" + insertFault}})
	}
	submitTo := func(se *sqlEnv, s submission, fault *sqlFault, reqCtx string, step int) {
		_, storedBefore := se.fdb.row(s.hash[:])
		cachedBefore, _ := se.cache.inner.Get(ctx, s.hash[:])
		fname, side := "none", "none"
		if fault != nil {
			fname, side = fault.name, fault.side
		}
		rctx, cancel := context.WithCancel(ctx)
		switch reqCtx {
		case "request-canceled":
			cancel()
			fname, side = reqCtx, "client"
		case "request-deadline-exceeded":
			cancel()
			rctx, cancel = context.WithDeadline(ctx, time.Now().Add(-time.Second))
			fname, side = reqCtx, "client"
		}
		se.fdb.setExecFault(fault)
		code := addChainCtx(rctx, se.env, s.precert, s.submit)
		se.fdb.setExecFault(nil)
		cancel()
		row, inTable := se.fdb.row(s.hash[:])
		desc := fmt.Sprintf("%s storage, cache %s, fault at the INSERT %s (%s side), chain stored before %v, cached before %v", se.dialect, se.cacheName, fname, side, storedBefore, cachedBefore != nil)
		input := map[string]interface{}{"op": "sql-add-chain", "dialect": se.dialect, "cache": se.cacheName, "insert_fault": fname, "fault_side": side, "stored_before": storedBefore, "cached_before": cachedBefore != nil, "precert": s.precert, "chain_len": len(s.rest)}
		retried := false
		if code != 200 {
			ok, note := true, ""
			switch {
			case fname == "none":
				ok, note = false, fmt.Sprintf("submission answered %d without any fault (%s)", code, desc)
			case code >= 400 && code < 500:
				ok, note = false, fmt.Sprintf("storage fault answered %d (%s)", code, desc)
			}
			w.Add(lib.Case{Coq: "", Key: fmt.Sprintf("sql-add-%s-%d", se.name, step), Input: input, Impl: map[string]interface{}{"status": code, "row_in_table": inTable},
				PropOK: ok, Note: note, Tags: []string{"sql-add:" + se.dialect + ":" + side + fmt.Sprintf(":%d", code)}})
			// what a submitter does next: the same chain again, the storage now healthy
			code = addChainCtx(ctx, se.env, s.precert, s.submit)
			retried = true
			row, inTable = se.fdb.row(s.hash[:])
			if code != 200 {
				w.Add(lib.Case{Coq: "", Key: fmt.Sprintf("sql-readd-%s-%d", se.name, step), Input: input, Impl: map[string]interface{}{"status": code},
					PropOK: false, Note: fmt.Sprintf("resubmission after a storage failure answered %d although the storage is healthy (%s)", code, desc), Tags: []string{"sql-readd:" + fmt.Sprint(code)}})
				return
			}
		}
		se.log.mu.Lock()
		idx := len(se.log.leaves) - 1
		stored := se.log.leaves[idx].ExtraData
		se.log.mu.Unlock()
		se.want = append(se.want, s.want)
		se.blob = append(se.blob, s.blob)
		if len(se.want) != idx+1 {
			panic(fmt.Sprintf("sql stream: instance %s holds %d entries after %d accepted submissions", se.name, idx+1, len(se.want)))
		}
		held := inTable && bytes.Equal(row, s.blob)
		coq, key := modelSample.pick("sql-add:"+se.name, 3, !held, fmt.Sprintf("CHashed %s %s %s %s", lib.Bool(s.precert), lib.Bytes(s.leaf), lib.Bytes(s.hash[:]), lib.Bytes(stored)))
		w.Add(lib.Case{
			Coq: coq, Key: key,
			Input:  input,
			Impl:   map[string]interface{}{"status": code, "row_in_table": inTable, "retried": retried, "extra_len": len(stored)},
			PropOK: held, Note: fmt.Sprintf("add-chain answered 200 and the entry was sequenced with a chain hash the storage does not hold (%s, resubmitted %v)", desc, retried),
			Tags: []string{"sql-add:" + se.dialect + ":" + side + ":200", fmt.Sprintf("sql-add-new-chain:%v", !storedBefore)}})
		// read it back once the fault is over, from a cache that does not hold the chain, then in the cache's own state
		time.Sleep(50 * time.Microsecond)
		readBack(se, idx, true, nil, false, "first read of the new entry", fname)
		if r.Intn(2) == 0 {
			readBack(se, r.Intn(idx+1), false, nil, false, "entry read in the cache's own state", fname)
		}
		switch r.Intn(6) {
		case 0, 1:
			k := se.kinds[r.Intn(len(se.kinds))]
			readBack(se, r.Intn(idx+1), true, &k, false, "read while the SELECT fails", fname)
		case 2:
			readBack(se, idx, true, nil, true, "read after the row was lost", fname)
		}
	}
	const n = 26 // the same in both tiers (the thorough tier of this property is long as it is; its second seed doubles these)
	var pool []issuerPath
	for i := 0; i < n; i++ {
		var is issuerPath
		if len(pool) == 0 || r.Intn(20) < 13 {
			is = newIssuer(r, roots, fmt.Sprintf("sql %d", i), 1+r.Intn(2))
			pool = append(pool, is)
		} else {
			is = pool[r.Intn(len(pool))]
		}
		s := newSubmission(r, direct, directLog, is, fmt.Sprintf("sql-leaf-%d.example", i))
		for _, se := range envs {
			_, storedBefore := se.fdb.row(s.hash[:])
			p := 4 // in 10
			if !storedBefore {
				p = 8
			}
			var fault *sqlFault
			reqCtx := ""
			if r.Intn(10) < p {
				if r.Intn(9) == 0 {
					reqCtx = []string{"request-canceled", "request-deadline-exceeded"}[r.Intn(2)]
				} else {
					k := se.kinds[se.cursor%len(se.kinds)]
					se.cursor++
					fault = &k
				}
			}
			submitTo(se, s, fault, reqCtx, i)
		}
	}
	// shutdown: the pool is closed under the instance; a chain that is not stored cannot be accepted
	for _, se := range envs {
		is := newIssuer(r, roots, "sql closed "+se.name, 1)
		s := newSubmission(r, direct, directLog, is, "sql-closed-leaf.example")
		se.db.Close()
		code := addChainCtx(ctx, se.env, s.precert, s.submit)
		_, inTable := se.fdb.row(s.hash[:])
		w.Add(lib.Case{Coq: "", Key: "sql-add-closed-" + se.name,
			Input:  map[string]interface{}{"op": "sql-add-chain", "dialect": se.dialect, "cache": se.cacheName, "insert_fault": "database-closed", "fault_side": "client", "stored_before": false},
			Impl:   map[string]interface{}{"status": code, "row_in_table": inTable},
			PropOK: (code != 200 || inTable) && !(code >= 400 && code < 500), Note: fmt.Sprintf("add-chain answered %d on a closed database and the storage does not hold the chain (%s)", code, se.name),
			Tags: []string{"sql-add:" + se.dialect + ":closed:" + fmt.Sprint(code)}})
	}
}

// ---------------------------------------------------------------------------------------------

// gateStore is a memStore whose FindByKey / Add of chosen keys block until released or until the
// caller's context ends (what a SQL driver does with a slow server).
type gateStore struct {
	*memStore
	gmu      sync.Mutex
	findGate map[string]chan struct{}
	addGate  map[string]chan struct{}
	entered  chan string
}

func newGateStore() *gateStore {
	return &gateStore{memStore: &memStore{m: map[string][]byte{}}, findGate: map[string]chan struct{}{}, addGate: map[string]chan struct{}{}, entered: make(chan string, 256)}
}

func (g *gateStore) wait(ctx context.Context, gates map[string]chan struct{}, key []byte, what string) error {
	g.gmu.Lock()
	ch := gates[string(key)]
	g.gmu.Unlock()
	if ch == nil {
		return nil
	}
	select {
	case g.entered <- what:
	default:
	}
	select {
	case <-ch:
		return nil
	case <-ctx.Done():
		return ctx.Err()
	}
}

func (g *gateStore) FindByKey(ctx context.Context, key []byte) ([]byte, error) {
	if err := g.wait(ctx, g.findGate, key, "find"); err != nil {
		return nil, err
	}
	return g.memStore.FindByKey(ctx, key)
}

func (g *gateStore) Add(ctx context.Context, key, chain []byte) error {
	if err := g.wait(ctx, g.addGate, key, "add"); err != nil {
		return err
	}
	return g.memStore.Add(ctx, key, chain)
}

func (g *gateStore) close(gates map[string]chan struct{}, key []byte) chan struct{} {
	ch := make(chan struct{})
	g.gmu.Lock()
	gates[string(key)] = ch
	g.gmu.Unlock()
	for len(g.entered) > 0 {
		<-g.entered
	}
	return ch
}

func (g *gateStore) open(gates map[string]chan struct{}, key []byte) {
	g.gmu.Lock()
	ch := gates[string(key)]
	delete(gates, string(key))
	g.gmu.Unlock()
	if ch != nil {
		close(ch)
	}
}

// awaitEntered waits until one more call has reached the gate (false: none did within d).
func (g *gateStore) awaitEntered(d time.Duration) bool {
	select {
	case <-g.entered:
		return true
	case <-time.After(d):
		return false
	}
}

func waitDone(ch chan struct{}, d time.Duration) bool {
	select {
	case <-ch:
		return true
	case <-time.After(d):
		return false
	}
}

func cancelStream(r *rand.Rand, w *lib.Writer, roots []*pki.Entity) {
	ctx := context.Background()
	now := time.Now()
	direct, directLog := newEnvWith(roots, nil, nil, now)
	type cenv struct {
		name  string
		env   *ctfeenv.Env
		log   *simpleLog
		store *gateStore
		cache *recCache
		subs  []submission // per leaf index
	}
	var envs []*cenv
	for _, ck := range []struct {
		name string
		opt  cache.Option
		typ  cache.Type
	}{{"noop", cache.Option{}, cache.NOOP}, {"lru2", cache.Option{Size: 2, TTL: time.Hour}, cache.LRU}, {"lru64", cache.Option{Size: 64, TTL: time.Hour}, cache.LRU}} {
		inner, err := cache.NewIssuanceChainCache(ctx, ck.typ, ck.opt)
		if err != nil {
			panic(err)
		}
		st := newGateStore()
		rc := &recCache{inner: inner}
		env, lg := newEnvWith(roots, st, rc, now)
		envs = append(envs, &cenv{name: ck.name, env: env, log: lg, store: st, cache: rc})
	}
	// the log: a few issuers, several entries each, no fault
	var issuers []issuerPath
	for k := 0; k < 3; k++ {
		issuers = append(issuers, newIssuer(r, roots, fmt.Sprintf("cancel %d", k), k%3))
	}
	nEntries := 9
	for i := 0; i < nEntries; i++ {
		s := newSubmission(r, direct, directLog, issuers[i%len(issuers)], fmt.Sprintf("cancel-leaf-%d.example", i))
		for _, ce := range envs {
			if code := addChainCtx(ctx, ce.env, s.precert, s.submit); code != 200 {
				panic(fmt.Sprintf("cancel stream: add-chain without a fault answered %d", code))
			}
			ce.subs = append(ce.subs, s)
		}
	}
	time.Sleep(2 * time.Millisecond)
	const enterWait = 25 * time.Millisecond

	type reader struct {
		start, end int
		viaProof   bool
		role       string // "live", "canceled", "deadline"
		ctx        context.Context
		cancel     context.CancelFunc
		done       chan struct{}
		code       int
		served     [][]byte
		reached    bool // its lookup reached the storage before the contexts ended
	}
	const rounds = 10 // both tiers
	for round := 0; round < rounds; round++ {
		for _, ce := range envs {
			// ---- readers of one chain
			target := r.Intn(len(issuers))
			var same []int
			for i, s := range ce.subs {
				if s.hash == ce.subs[target].hash {
					same = append(same, i)
				}
			}
			h := ce.subs[target].hash
			nR := 2 + r.Intn(3)
			first := []string{"canceled", "canceled", "deadline", "live"}[r.Intn(4)] // the reader that arrives first
			var rs []*reader
			for k := 0; k < nR; k++ {
				rd := &reader{done: make(chan struct{}), role: "live"}
				idx := same[r.Intn(len(same))]
				rd.start, rd.end = idx, idx
				switch r.Intn(4) {
				case 0:
					rd.viaProof = true
				case 1: // a range around the entry
					rd.start, rd.end = idx-r.Intn(3), idx+r.Intn(3)
					if rd.start < 0 {
						rd.start = 0
					}
					if rd.end >= len(ce.subs) {
						rd.end = len(ce.subs) - 1
					}
				}
				if k == 0 {
					rd.role = first
				} else if k > 1 && r.Intn(4) == 0 {
					rd.role = "canceled"
				}
				rs = append(rs, rd)
			}
			if first == "live" && nR > 2 {
				rs[1+r.Intn(nR-1)].role = "canceled"
			}
			ce.store.close(ce.store.findGate, h[:])
			ce.cache.setEvicted(true)
			for _, rd := range rs {
				if rd.role == "deadline" {
					rd.ctx, rd.cancel = context.WithTimeout(ctx, 3*enterWait)
				} else {
					rd.ctx, rd.cancel = context.WithCancel(ctx)
				}
				go func(rd *reader) {
					defer close(rd.done)
					rd.code, rd.served = readCtx(rd.ctx, ce.env, rd.start, rd.end, rd.viaProof)
				}(rd)
				rd.reached = ce.store.awaitEntered(enterWait)
			}
			for _, rd := range rs {
				switch rd.role {
				case "canceled":
					rd.cancel()
				case "deadline":
					<-rd.ctx.Done()
				}
			}
			hung := false
			for _, rd := range rs {
				if rd.role != "live" && !waitDone(rd.done, 5*time.Second) {
					hung = true
				}
			}
			ce.store.open(ce.store.findGate, h[:])
			for _, rd := range rs {
				if !waitDone(rd.done, 20*time.Second) {
					hung = true
				}
			}
			ce.cache.setEvicted(false)
			var roles []string
			for _, rd := range rs {
				roles = append(roles, rd.role)
			}
			for k, rd := range rs {
				select {
				case <-rd.done:
				default:
					w.Add(lib.Case{Coq: "", Key: fmt.Sprintf("cancel-read-hang-%d-%s-%d", round, ce.name, k),
						Input:  map[string]interface{}{"op": "serve-overlapping", "cache": ce.name, "role": rd.role, "roles_in_arrival_order": roles},
						Impl:   map[string]interface{}{"status": "no answer"},
						PropOK: false, Note: fmt.Sprintf("reader %d (%s) of overlapping reads of one chain never answered (cache %s)", k, rd.role, ce.name), Tags: []string{"serve-overlapping:hang"}})
					continue
				}
				ok, note := true, ""
				good := rd.code == 200 && len(rd.served) == rd.end-rd.start+1
				for j := 0; good && j < len(rd.served); j++ {
					good = bytes.Equal(rd.served[j], ce.subs[rd.start+j].want)
				}
				where := fmt.Sprintf("reader %d of %d readers overlapping on one issuance chain, roles in arrival order %v, cache %s, %s start=%d end=%d", k+1, nR, roles, ce.name,
					map[bool]string{true: "get-entry-and-proof", false: "get-entries"}[rd.viaProof], rd.start, rd.end)
				switch {
				case rd.code == 200 && !good:
					ok, note = false, "served extra_data differs from the default mode's ("+where+")"
				case rd.role == "live" && rd.code != 200:
					ok, note = false, fmt.Sprintf("a reader whose own context is alive and whose chain is stored was answered %d because another reader's context ended while the lookup was in flight (%s)", rd.code, where)
				case rd.code >= 400 && rd.code < 500:
					ok, note = false, fmt.Sprintf("a reader whose context ended was answered %d (%s)", rd.code, where)
				}
				coq, key := "", fmt.Sprintf("cancel-read-%d-%s-%d", round, ce.name, k)
				if rd.start == rd.end {
					got := "(Some (IoOk " + lib.Bytes(ce.subs[rd.start].blob) + "))"
					if rd.role != "live" && rd.code != 200 {
						got = "(Some IoErr)" // its own lookup ended with its context
					}
					ce.log.mu.Lock()
					stored := ce.log.leaves[rd.start].ExtraData
					ce.log.mu.Unlock()
					coq, key = fmt.Sprintf("CServe %s %s (%s)", lib.Bytes(stored), got, obsOf(rd.code, rd.served)), ""
					if hung {
						coq, key = "", fmt.Sprintf("cancel-read-%d-%s-%d", round, ce.name, k)
					} else {
						coq, key = modelSample.pick("serve-overlapping:"+ce.name+":"+rd.role, 2, !ok, coq)
					}
				}
				w.Add(lib.Case{Coq: coq, Key: key,
					Input:  map[string]interface{}{"op": "serve-overlapping", "cache": ce.name, "role": rd.role, "roles_in_arrival_order": roles, "position": k, "start": rd.start, "end": rd.end, "via_entry_and_proof": rd.viaProof, "lookup_reached_storage_before_release": rd.reached},
					Impl:   map[string]interface{}{"status": rd.code, "entries": len(rd.served)},
					PropOK: ok, Note: note, Tags: []string{"serve-overlapping:" + ce.name + ":" + rd.role + fmt.Sprintf(":%d", rd.code), "serve-overlapping-first:" + first}})
				rd.cancel()
			}

			// ---- writers of one new chain
			if round%2 == 1 {
				continue
			}
			is := newIssuer(r, roots, fmt.Sprintf("cancel new %d %s", round, ce.name), 1+r.Intn(2))
			nW := 2 + r.Intn(2)
			firstW := []string{"canceled", "canceled", "deadline", "live"}[r.Intn(4)]
			type writer struct {
				s      submission
				role   string
				ctx    context.Context
				cancel context.CancelFunc
				done   chan struct{}
				code   int
			}
			var ws []*writer
			byID := map[[32]byte]*writer{}
			for k := 0; k < nW; k++ {
				wr := &writer{s: newSubmission(r, direct, directLog, is, fmt.Sprintf("cancel-new-%d-%s-%d.example", round, ce.name, k)), role: "live", done: make(chan struct{})}
				if k == 0 {
					wr.role = firstW
				}
				ws = append(ws, wr)
				byID[sha256.Sum256(wr.s.leaf)] = wr
			}
			if firstW == "live" {
				ws[1+r.Intn(nW-1)].role = "canceled"
			}
			nh := ws[0].s.hash
			ce.log.mu.Lock()
			startLen := len(ce.log.leaves)
			ce.log.mu.Unlock()
			ce.store.close(ce.store.addGate, nh[:])
			for _, wr := range ws {
				if wr.role == "deadline" {
					wr.ctx, wr.cancel = context.WithTimeout(ctx, 3*enterWait)
				} else {
					wr.ctx, wr.cancel = context.WithCancel(ctx)
				}
				go func(wr *writer) {
					defer close(wr.done)
					wr.code = addChainCtx(wr.ctx, ce.env, wr.s.precert, wr.s.submit)
				}(wr)
				ce.store.awaitEntered(enterWait)
			}
			for _, wr := range ws {
				switch wr.role {
				case "canceled":
					wr.cancel()
				case "deadline":
					<-wr.ctx.Done()
				}
			}
			for _, wr := range ws {
				if wr.role != "live" {
					waitDone(wr.done, 5*time.Second)
				}
			}
			ce.store.open(ce.store.addGate, nh[:])
			allDone := true
			for _, wr := range ws {
				if !waitDone(wr.done, 20*time.Second) {
					allDone = false
				}
			}
			var wroles []string
			for _, wr := range ws {
				wroles = append(wroles, wr.role)
			}
			if !allDone {
				w.Add(lib.Case{Coq: "", Key: fmt.Sprintf("cancel-write-hang-%d-%s", round, ce.name),
					Input:  map[string]interface{}{"op": "add-overlapping", "cache": ce.name, "roles_in_arrival_order": wroles},
					Impl:   map[string]interface{}{"status": "no answer"},
					PropOK: false, Note: fmt.Sprintf("a writer of overlapping submissions of one new chain never answered (cache %s, roles %v)", ce.name, wroles), Tags: []string{"add-overlapping:hang"}})
				panic("cancel stream: a submission never answered; the log of this instance is undetermined")
			}
			// the entries the writers produced, in the schedule's order
			ce.log.mu.Lock()
			var ids [][32]byte
			for i := startLen; i < len(ce.log.leaves); i++ {
				var id [32]byte
				copy(id[:], ce.log.leaves[i].LeafIdentityHash)
				ids = append(ids, id)
			}
			ce.log.mu.Unlock()
			idxOf := map[*writer]int{}
			for i, id := range ids {
				wr := byID[id]
				if wr == nil {
					panic("cancel stream: unknown leaf identity")
				}
				ce.subs = append(ce.subs, wr.s)
				idxOf[wr] = startLen + i
			}
			time.Sleep(50 * time.Microsecond)
			for k, wr := range ws {
				where := fmt.Sprintf("writer %d of %d submissions overlapping on one new issuance chain, roles in arrival order %v, cache %s", k+1, nW, wroles, ce.name)
				idx, sequenced := idxOf[wr]
				ok, note := true, ""
				switch {
				case wr.role == "live" && wr.code != 200:
					ok, note = false, fmt.Sprintf("a submission whose own context is alive was answered %d because another submitter's context ended while the chain was being written (%s)", wr.code, where)
				case wr.code == 200 && !sequenced:
					ok, note = false, "add-chain answered 200 without an entry being queued ("+where+")"
				case wr.code >= 400 && wr.code < 500:
					ok, note = false, fmt.Sprintf("a submission whose context ended was answered %d (%s)", wr.code, where)
				}
				w.Add(lib.Case{Coq: "", Key: fmt.Sprintf("cancel-write-%d-%s-%d", round, ce.name, k),
					Input:  map[string]interface{}{"op": "add-overlapping", "cache": ce.name, "role": wr.role, "roles_in_arrival_order": wroles, "position": k},
					Impl:   map[string]interface{}{"status": wr.code, "sequenced": sequenced},
					PropOK: ok, Note: note, Tags: []string{"add-overlapping:" + ce.name + ":" + wr.role + fmt.Sprintf(":%d", wr.code)}})
				if !sequenced {
					continue
				}
				// every entry that was sequenced must be served as the default mode serves it, from any cache state
				ev := r.Intn(2) == 0
				ce.cache.setEvicted(ev)
				viaProof := r.Intn(2) == 0
				code, served := readCtx(ctx, ce.env, idx, idx, viaProof)
				ce.cache.setEvicted(false)
				rok, rnote := true, ""
				if code != 200 {
					rok, rnote = false, fmt.Sprintf("an entry sequenced by overlapping submissions is answered %d without any fault at read time (evicted %v, add-chain had answered %d; %s)", code, ev, wr.code, where)
				} else if len(served) != 1 || !bytes.Equal(served[0], wr.s.want) {
					rok, rnote = false, "served extra_data differs from the default mode's ("+where+")"
				}
				got := "(Some (IoOk " + lib.Bytes(wr.s.blob) + "))"
				if code != 200 {
					if _, ok := ce.store.memStore.peek(wr.s.hash[:]); !ok {
						got = "(Some IoErr)"
					}
				}
				ce.log.mu.Lock()
				stored := ce.log.leaves[idx].ExtraData
				ce.log.mu.Unlock()
				coq, key := modelSample.pick("serve-after-overlapping-adds:"+ce.name, 2, !rok, fmt.Sprintf("CServe %s %s (%s)", lib.Bytes(stored), got, obsOf(code, served)))
				w.Add(lib.Case{Coq: coq, Key: key,
					Input:  map[string]interface{}{"op": "serve-after-overlapping-adds", "cache": ce.name, "role": wr.role, "roles_in_arrival_order": wroles, "evicted": ev, "via_entry_and_proof": viaProof},
					Impl:   map[string]interface{}{"status": code, "add_status": wr.code},
					PropOK: rok, Note: rnote, Tags: []string{"serve-after-overlapping-adds:" + ce.name + fmt.Sprintf(":%d", code)}})
				wr.cancel()
			}
		}
	}
}

func (s *memStore) peek(key []byte) ([]byte, bool) {
	s.mu.Lock()
	defer s.mu.Unlock()
	v, ok := s.m[string(key)]
	return v, ok
}
