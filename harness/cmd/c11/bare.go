package main

// Certificates that lack optional TBSCertificate fields (version, unique identifiers,
// extensions, AlgorithmIdentifier parameters), built field by field: RFC 5280 encoders omit
// these, so a parser that is handed several certificates in one buffer meets a certificate
// without them right after one that has them.

import (
	stdasn1 "encoding/asn1"
	"math/big"
	"time"

	"github.com/google/certificate-transparency-go/x509"
)

type bareValidity struct{ NotBefore, NotAfter time.Time }

type bareTBS struct {
	Version         int `asn1:"optional,explicit,default:0,tag:0"`
	Serial          *big.Int
	SigAlg          stdasn1.RawValue
	Issuer          stdasn1.RawValue
	Validity        bareValidity
	Subject         stdasn1.RawValue
	SPKI            stdasn1.RawValue
	IssuerUniqueID  stdasn1.BitString  `asn1:"optional,tag:1"`
	SubjectUniqueID stdasn1.BitString  `asn1:"optional,tag:2"`
	Extensions      []stdasn1.RawValue `asn1:"optional,explicit,tag:3"`
}

type bareCert struct {
	TBS    stdasn1.RawValue
	SigAlg stdasn1.RawValue
	Sig    stdasn1.BitString
}

// bareDocs derives from each donor (a parsed, well-formed certificate) the variants
// v1-bare, v3-bare, v2-with-unique-ids, v3-ids-and-extensions; with and without NULL
// parameters in the algorithm identifiers. Signatures are not valid (parsing does not verify).
func bareDocs(donors []*x509.Certificate) (bare []doc, order []string) {
	sigAbsent := stdasn1.RawValue{FullBytes: []byte{0x30, 0x0a, 0x06, 0x08, 0x2a, 0x86, 0x48, 0xce, 0x3d, 0x04, 0x03, 0x02}}                 // ecdsa-with-SHA256, no parameters
	sigNull := stdasn1.RawValue{FullBytes: []byte{0x30, 0x0d, 0x06, 0x09, 0x2a, 0x86, 0x48, 0x86, 0xf7, 0x0d, 0x01, 0x01, 0x0b, 0x05, 0x00}} // sha256WithRSAEncryption, NULL
	for di, d := range donors {
		raw := func(b []byte) stdasn1.RawValue { return stdasn1.RawValue{FullBytes: b} }
		var exts []stdasn1.RawValue
		for _, e := range d.Extensions {
			b, err := stdasn1.Marshal(struct {
				ID       stdasn1.ObjectIdentifier
				Critical bool `asn1:"optional"`
				Value    []byte
			}{stdasn1.ObjectIdentifier(e.Id), e.Critical, e.Value})
			if err != nil {
				panic(err)
			}
			exts = append(exts, raw(b))
		}
		for vi, v := range []struct {
			name    string
			version int
			ids     bool
			exts    bool
			sig     stdasn1.RawValue
		}{
			{"v1-bare", 0, false, false, sigAbsent},
			{"v1-bare-nullparams", 0, false, false, sigNull},
			{"v3-bare", 2, false, false, sigAbsent},
			{"v2-unique-ids", 1, true, false, sigNull},
			{"v3-ids-exts", 2, true, true, sigAbsent},
		} {
			t := bareTBS{Version: v.version, Serial: big.NewInt(int64(1000 + 10*di + vi)), SigAlg: v.sig, Issuer: raw(d.RawIssuer),
				Validity: bareValidity{d.NotBefore, d.NotAfter}, Subject: raw(d.RawSubject), SPKI: raw(d.RawSubjectPublicKeyInfo)}
			if v.ids {
				t.IssuerUniqueID = stdasn1.BitString{Bytes: []byte{0xde, 0xad, byte(di)}, BitLength: 24}
				t.SubjectUniqueID = stdasn1.BitString{Bytes: []byte{0xbe, 0xef, 0xf0}, BitLength: 20}
			}
			if v.exts {
				t.Extensions = exts
			}
			tb, err := stdasn1.Marshal(t)
			if err != nil {
				panic(err)
			}
			cb, err := stdasn1.Marshal(bareCert{TBS: raw(tb), SigAlg: v.sig, Sig: stdasn1.BitString{Bytes: []byte{1, 2, 3, 4, 5, 6, 7, 8}, BitLength: 64}})
			if err != nil {
				panic(err)
			}
			bare = append(bare, doc{"cert", "generated/bare/" + v.name, cb})
			order = append(order, v.name)
		}
	}
	return
}
