From Coq Require Import ZArith Bool List.
From V Require Import Base.GoInt Base.Bytes gen.GetEntries gen.HttpStatus CTFE.GetEntriesModel Base.CaseLib.
Import ListNotations.
Open Scope Z_scope.

(* the reply the scripted backend gave (if called) *)
Inductive reply :=
| RCode (code : Z)                       (* gRPC status code *)
| RPlain                                 (* a non-gRPC error *)
| RLeaves (root : option Z) (ls : list (Z * bytes * bytes)).

Inductive case :=
| CGet (maxr : Z) (align : bool) (ps pe : param) (r : reply)
       (status : Z) (req : option (Z * Z)) (served : list (bytes * bytes)).

Definition to_bres (r : reply) : bres :=
  match r with
  | RCode c => BErr (to_http_status c)
  | RPlain => BErr 500
  | RLeaves root ls => BReply root (map (fun t => {| l_index := fst (fst t); l_value := snd (fst t); l_extra := snd t |}) ls)
  end.

Definition run (c : case) : outcome :=
  match c with CGet maxr align ps pe r _ _ _ => get_entries maxr align ps pe (fun _ _ => to_bres r) end.

Definition check (c : case) : bool :=
  match c with
  | CGet _ _ _ _ _ status req served =>
      let o := run c in
      (o_status o =? status) && opt_eqb (pair_eqb Z.eqb Z.eqb) (o_request o) req
      && list_eqb (pair_eqb bytes_eqb bytes_eqb) (o_served o) served
  end.

Definition explain (c : case) := let o := run c in (o_status o, o_request o, o_served o).
