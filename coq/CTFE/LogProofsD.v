(* C06 proofs, part D: what add-chain promised is what the read endpoints prove.  An accepted
   submission leaves a stored leaf whose timestamp is the SCT's; the client's leaf hash (from
   certificate + SCT) is the backend's leaf hash of that leaf; once sequenced, get-proof-by-hash
   finds it with a verifying audit path, the stored entry decodes to certificate and chain, and
   the index is unique up to the two explicit exceptions (a collision of H; a second
   precertificate with the same TBSCertificate logged in the same millisecond).
   Also: the handlers forward (first, second) and (leaf_index, tree_size) in this order - the
   swapped variants are refuted. *)
From Coq Require Import String ZArith NArith Bool List Lia PeanoNat.
From Coq.Strings Require Import Byte.
From V Require Import Base.GoInt Base.Bytes Merkle.Merkle Merkle.MerkleProofs TLS.TlsModel TLS.TlsRoundTripA gen.CtTypes
  CT.Rfc6962Spec CT.Rfc6962Proofs CT.CtFuncs CT.CtFuncsProofs
  gen.HttpStatus gen.GetEntries gen.HandlerConds CTFE.HandlersModel CTFE.HandlersProofs
  CTFE.LogModel CTFE.LogProofsA CTFE.LogProofsB CTFE.LogProofsC.
Import ListNotations.
Open Scope Z_scope.
Open Scope bool_scope.

(* ------------------------------------------------------------------ GetLeavesByHash *)

Lemma NoDup_app_left {A} (a b : list A) : NoDup (a ++ b) -> NoDup a.
Proof.
  induction a as [|x a IH]; cbn [app]; intros Hn; [constructor|].
  inversion Hn as [|x' l' Hx Hl]; subst. constructor; [|apply IH; exact Hl].
  intros Hi. apply Hx. apply in_or_app. left. exact Hi.
Qed.

Section FindHash.
  Variable H : bytes -> bytes.
  Variable h : bytes.

  Lemma find_hash_sound : forall l k i, In i (find_hash H h k l) ->
    (k <= i)%N /\ (N.to_nat (i - k) < length l)%nat /\ leaf_hash H (nth (N.to_nat (i - k)) l []) = h.
  Proof.
    induction l as [|d r IH]; intros k i Hi; cbn [find_hash] in Hi; [destruct Hi|].
    assert (Hrec : In i (find_hash H h (k + 1)%N r) ->
                   (k <= i)%N /\ (N.to_nat (i - k) < length (d :: r))%nat /\ leaf_hash H (nth (N.to_nat (i - k)) (d :: r) []) = h).
    { intros Hr. destruct (IH _ _ Hr) as (A & B & C).
      replace (N.to_nat (i - k)) with (S (N.to_nat (i - (k + 1)))) by lia. cbn [length nth].
      repeat split; [lia|lia|exact C]. }
    destruct (bytes_eqb (leaf_hash H d) h) eqn:E; [|apply Hrec; exact Hi].
    destruct Hi as [<-|Hi]; [|apply Hrec; exact Hi].
    rewrite N.sub_diag. cbn [N.to_nat length nth]. apply bytes_eqb_eq in E. repeat split; [lia|lia|exact E].
  Qed.

  Lemma find_hash_complete : forall l k j, (j < length l)%nat -> leaf_hash H (nth j l []) = h ->
    In (k + N.of_nat j)%N (find_hash H h k l).
  Proof.
    induction l as [|d r IH]; intros k j Hj Hh; cbn [length] in Hj; [lia|]. cbn [find_hash].
    destruct j as [|j].
    - cbn [nth] in Hh. rewrite (proj2 (bytes_eqb_eq _ _) Hh). left. lia.
    - cbn [nth] in Hh. replace (k + N.of_nat (S j))%N with ((k + 1) + N.of_nat j)%N by lia.
      destruct (bytes_eqb (leaf_hash H d) h); [right|]; apply IH; try assumption; lia.
  Qed.

  (* OrderBySequence: the first proof is the one of the LOWEST matching index *)
  Lemma filter_find_head n : forall l k i0 rest,
    filter (fun i => (i <? n)%N) (find_hash H h k l) = i0 :: rest ->
    forall i, In i (filter (fun i => (i <? n)%N) (find_hash H h k l)) -> (i0 <= i)%N.
  Proof.
    induction l as [|d r IH]; intros k i0 rest Hf i Hi; cbn [find_hash] in *; [discriminate|].
    destruct (bytes_eqb (leaf_hash H d) h); [|eapply IH; eauto].
    cbn [filter] in *. destruct (k <? n)%N; [|eapply IH; eauto].
    injection Hf as <- _. destruct Hi as [<-|Hi]; [lia|].
    apply filter_In in Hi. destruct Hi as [Hi _]. apply find_hash_sound in Hi. lia.
  Qed.
End FindHash.

Section Found.
  Variable H : bytes -> bytes.
  Variable sign : bytes -> N -> bytes.
  Variable sig_ok : bytes -> bytes -> bool.
  Variable is_precert : bytes -> bool.
  Variable cfg : config.
  Variable trusted : list bytes.
  Hypothesis H_len : forall x, length (H x) = 32%nat.
  Hypothesis sign_ok : forall m r, sig_ok m (sign m r) = true.
  Hypothesis sign_nonempty : forall m r, sign m r <> [].
  Hypothesis cfg_log : c_sth cfg = SthLog.
  Hypothesis cfg_direct : c_indirect cfg = false.
  Hypothesis cfg_maxr : 1 <= c_maxr cfg <= max_i64.

  Notation stepf := (step H sign is_precert cfg trusted wiring_ok).
  Notation afterf := (after H sign is_precert cfg trusted wiring_ok).
  Notation ans := (answer_at H sign is_precert cfg trusted wiring_ok).
  Notation fe_submit := (fe_submit H sign is_precert).
  Notation values := LogModel.values.
  Notation bsize := LogModel.bsize.
  Notation built := (built H is_precert).
  Notation inv := (inv H sig_ok is_precert).
  Set Default Proof Using "All".
  Notation proof_by_hash_200 := (proof_by_hash_200 H sign is_precert cfg trusted H_len cfg_log cfg_direct cfg_maxr).
  Notation inv_after := (inv_after H sign sig_ok is_precert cfg trusted H_len sign_ok sign_nonempty cfg_log cfg_direct cfg_maxr).
  Notation hist_ok_prefix := (hist_ok_prefix H sign sig_ok is_precert cfg trusted H_len sign_ok sign_nonempty cfg_log cfg_direct cfg_maxr).
  Notation submit_cases := (submit_cases H sign sig_ok is_precert cfg trusted H_len sign_ok sign_nonempty cfg_log cfg_direct cfg_maxr).
  Notation rpc_queue_cases := (rpc_queue_cases H sign sig_ok is_precert cfg trusted H_len sign_ok sign_nonempty cfg_log cfg_direct cfg_maxr).
  Notation consistency_200 := (consistency_200 H sign is_precert cfg trusted H_len cfg_log cfg_direct cfg_maxr).
  Notation entry_and_proof_200 := (entry_and_proof_200 H sign is_precert cfg trusted H_len cfg_log cfg_direct cfg_maxr).
  Notation after_snoc := (after_snoc H sign sig_ok is_precert cfg trusted H_len sign_ok sign_nonempty cfg_log cfg_direct cfg_maxr).

  (* ---------------------------------------------------------------- get-proof-by-hash finds a sequenced leaf *)

  Lemma proof_by_hash_finds st i lf n pts :
    nth_error (bs (be st)) i = Some lf ->
    parse_int64 pts = Some n -> Z.of_nat i < n -> n <= Z.of_N (bsize (be st)) ->
    let lh := leaf_hash H (lv lf) in
    exists j p lf', fe_proof_by_hash H cfg st lh pts = ok200 (BIncl j p)
      /\ (j <= N.of_nat i)%N /\ nth_error (bs (be st)) (N.to_nat j) = Some lf' /\ leaf_hash H (lv lf') = lh
      /\ p = path H j (firstN (Z.to_N n) (values (be st)))
      /\ client_verify_inclusion H j (Z.to_N n) lh (root_of H (be st) (Z.to_N n)) p = true.
  Proof.
    intros Hn Hp Hin Hns lh.
    assert (Hil : (i < length (values (be st)))%nat).
    { unfold values. rewrite map_length. apply nth_error_Some. congruence. }
    assert (Hnv : nth i (values (be st)) [] = lv lf) by (apply nth_error_values; exact Hn).
    assert (Hlh : leaf_hash H (nth i (values (be st)) []) = lh) by (unfold lh; f_equal; exact Hnv).
    pose proof (find_hash_complete H lh (values (be st)) 0%N i Hil Hlh) as Hfc.
    rewrite N.add_0_l in Hfc.
    set (fl := filter (fun k => (k <? Z.to_N n)%N) (find_hash H lh 0%N (values (be st)))).
    assert (Hif : In (N.of_nat i) fl).
    { unfold fl. apply filter_In. split; [exact Hfc|]. apply N.ltb_lt. lia. }
    destruct fl as [|j rest] eqn:Efl; [destruct Hif|].
    pose proof (filter_find_head H lh (Z.to_N n) _ _ _ _ Efl (N.of_nat i)) as Hmin.
    unfold fl in Efl. rewrite Efl in Hmin. specialize (Hmin Hif).
    assert (Hj : In j (find_hash H lh 0%N (values (be st))) /\ (j <? Z.to_N n)%N = true).
    { apply (filter_In (fun k => (k <? Z.to_N n)%N)). rewrite Efl. left. reflexivity. }
    destruct Hj as [Hj Hjn]. apply N.ltb_lt in Hjn.
    destruct (find_hash_sound H lh _ _ _ Hj) as (_ & Hjl & Hjh). rewrite N.sub_0_r in Hjl, Hjh.
    assert (Hjl' : (N.to_nat j < length (bs (be st)))%nat) by (unfold values in Hjl; rewrite map_length in Hjl; exact Hjl).
    destruct (nth_error (bs (be st)) (N.to_nat j)) as [lf'|] eqn:En; [|apply nth_error_None in En; lia].
    exists j, (path H j (firstN (Z.to_N n) (values (be st)))), lf'.
    assert (Hlf' : leaf_hash H (lv lf') = lh).
    { rewrite <- (nth_error_values (be st) _ _ En). exact Hjh. }
    split.
    { eapply proof_by_hash_200; try eassumption; try lia. unfold lh, leaf_hash. apply H_len. }
    split; [exact Hmin|]. split; [exact En|]. split; [exact Hlf'|]. split; [reflexivity|].
    unfold client_verify_inclusion, root_of.
    set (l := firstN (Z.to_N n) (values (be st))).
    assert (Ll : lenN l = Z.to_N n).
    { unfold l. apply lenN_firstN. rewrite (bsize_values (be st)). lia. }
    assert (Hnth : nthN j l [] = lv lf').
    { unfold l. rewrite nthN_firstN by exact Hjn. unfold nthN. apply nth_error_values. exact En. }
    rewrite <- Hlf', <- Hnth. rewrite <- Ll at 1. apply vpath_complete. unfold bytes, lenN in *. lia.
  Qed.

  (* ---------------------------------------------------------------- a stored leaf's index is unique, up to ... *)

  Lemma built_fields lf pre cert chain pe now :
    built lf pre cert chain pe now ->
    exists e x, entry_of pre cert pe = Some e /\ entry_ok e /\
      marshal (extra_ty pre) None (extra_val pre cert chain) = Ok x /\
      lv lf = enc_leaf (ms_of_ns now) e [] /\ lx lf = x /\ lid lf = H cert.
  Proof.
    intros (_ & e & x & He & Ho & Hm & ->). exists e, x. cbn [lv lx lid].
    repeat split; auto. apply entry_okb_ok. exact Ho.
  Qed.

  Lemma nodup_seq_ids ops st : inv ops st -> NoDup (map lid (bs (be st))).
  Proof.
    intros [A _ _ _]. unfold all_leaves in A. rewrite map_app in A. eapply NoDup_app_left. exact A.
  Qed.

  Lemma index_unique ops st i j lf lf' pre cert chain pe now :
    inv ops st ->
    nth_error (bs (be st)) i = Some lf -> built lf pre cert chain pe now ->
    nth_error (bs (be st)) j = Some lf' -> leaf_hash H (lv lf') = leaf_hash H (lv lf) ->
    j = i
    \/ (x00 :: lv lf' <> x00 :: lv lf /\ H (x00 :: lv lf') = H (x00 :: lv lf))       (* an explicit collision of H *)
    \/ (pre = true /\ lv lf' = lv lf /\ lid lf' <> lid lf).                           (* a twin precertificate *)
  Proof.
    intros Hinv Hi Hb Hj Hh.
    destruct (bytes_eq_dec (lv lf') (lv lf)) as [Ev|Nv].
    2: { right. left. split; [intros Hc; injection Hc as Hc; exact (Nv Hc)|exact Hh]. }
    destruct (bytes_eq_dec (lid lf') (lid lf)) as [Ei|Ni].
    - left. pose proof (nodup_seq_ids ops st Hinv) as Hnd.
      rewrite NoDup_nth_error in Hnd. apply Hnd.
      + rewrite map_length. apply nth_error_Some. congruence.
      + rewrite !nth_error_map, Hi, Hj. cbn. congruence.
    - destruct pre; [right; right; auto|]. exfalso.
      destruct (built_fields _ _ _ _ _ _ Hb) as (e & x & He & Hok & _ & Hlv & _ & Hid).
      cbn [entry_of] in He. injection He as <-.
      destruct Hinv as [_ B _ _].
      destruct (B lf') as (p1 & c1 & ch1 & pe1 & now1 & rnd1 & _ & Hb1);
        [apply in_or_app; left; eapply nth_error_In; exact Hj|].
      destruct (built_fields _ _ _ _ _ _ Hb1) as (e1 & x1 & He1 & Hok1 & _ & Hlv1 & _ & Hid1).
      rewrite Hlv, Hlv1 in Ev.
      destruct (enc_leaf_inj _ _ _ _ (ms_of_ns_ok now1) Hok1 (ms_of_ns_ok now) Hok Ev) as [_ Ee].
      subst e1. destruct p1; cbn [entry_of] in He1.
      + destruct pe1 as [[? ?]|]; discriminate.
      + injection He1 as ->. apply Ni. congruence.
  Qed.

  (* ---------------------------------------------------------------- an accepted submission is stored *)

  Lemma accepted_submission_lemma ns0 pre p cert chain pe now rnd ts sg :
    hist_ok ns0 (pre ++ [OSubmit p cert chain pe now rnd]) ->
    ans (init ns0) pre (OSubmit p cert chain pe now rnd) = ok200 (BSct ts sg) ->
    exists p0 cert0 chain0 pe0 now0 rnd0 e0 x0,
      let lf0 := {| lv := enc_leaf ts e0 []; lx := x0; lid := H cert |} in
      In (OSubmit p0 cert0 chain0 pe0 now0 rnd0) (pre ++ [OSubmit p cert chain pe now rnd])
      /\ H cert0 = H cert /\ ts = ms_of_ns now0
      /\ built lf0 p0 cert0 chain0 pe0 now0 /\ entry_of p0 cert0 pe0 = Some e0 /\ entry_ok e0
      /\ In lf0 (all_leaves (be (afterf (init ns0) (pre ++ [OSubmit p cert chain pe now rnd]))))
      /\ sig_ok (enc_sct_siginput ts e0 []) sg = true
      /\ ((forall lf, In lf (all_leaves (be (afterf (init ns0) pre))) -> lid lf <> H cert) ->
          p0 = p /\ cert0 = cert /\ chain0 = chain /\ pe0 = pe /\ now0 = now).
  Proof.
    intros Hh Ha.
    pose proof (inv_after ns0 pre (hist_ok_prefix _ _ _ Hh)) as Hinv.
    set (st := afterf (init ns0) pre) in *.
    unfold answer_at in Ha. fold st in Ha. cbn [step] in Ha.
    destruct (submit_cases st p cert chain pe now rnd) as [[_ Hs]|(e & x & Hp & He & Ho & Hm & Hst & Hans)].
    { rewrite Ha in Hs. cbn in Hs. congruence. }
    cbv zeta in Hst, Hans. rewrite Ha in Hans.
    assert (Haft : afterf (init ns0) (pre ++ [OSubmit p cert chain pe now rnd])
                   = {| be := fst (rpc_queue (be st) {| lv := enc_leaf (ms_of_ns now) e []; lx := x; lid := H cert |}); cache := cache st |}).
    { rewrite after_snoc. fold st. cbn [step]. exact Hst. }
    rewrite Haft. cbn [be].
    destruct (rpc_queue_cases (be st) {| lv := enc_leaf (ms_of_ns now) e []; lx := x; lid := H cert |})
      as [(old & Hf & Hq)|(Hf & Hq)]; rewrite Hq in Hans |- *; cbn [fst snd lid] in *.
    - (* a leaf with this identity hash is already stored: the SCT is built from IT *)
      destruct (find_id_some _ _ _ Hf) as [Hin Hid].
      destruct Hinv as [_ B _ _].
      destruct (B old Hin) as (p0 & cert0 & chain0 & pe0 & now0 & rnd0 & Hop & Hb).
      destruct (built_fields _ _ _ _ _ _ Hb) as (e0 & x0 & He0 & Hok0 & Hm0 & Hlv0 & Hlx0 & Hid0).
      rewrite Hlv0, (sct_input_of_leaf _ _ (ms_of_ns_ok now0) Hok0) in Hans.
      injection Hans as Hts Hsg.
      exists p0, cert0, chain0, pe0, now0, rnd0, e0, x0. cbv zeta.
      assert (Est : old = {| lv := enc_leaf ts e0 []; lx := x0; lid := H cert |}).
      { destruct old as [v xx idd]. cbn [lv lx lid] in *. subst. reflexivity. }
      split; [apply in_or_app; left; exact Hop|]. split; [congruence|]. split; [exact Hts|].
      split; [rewrite <- Est; exact Hb|]. split; [exact He0|]. split; [exact Hok0|].
      split; [rewrite <- Est; exact Hin|].
      split; [rewrite Hsg, Hts; apply sign_ok|].
      intros Hfresh. exfalso. exact (Hfresh old Hin Hid).
    - (* fresh: the leaf just built is queued and returned *)
      cbn [lv] in Hans. pose proof (entry_okb_ok _ Ho) as Hok.
      rewrite (sct_input_of_leaf _ _ (ms_of_ns_ok now) Hok) in Hans. injection Hans as Hts Hsg.
      subst ts. exists p, cert, chain, pe, now, rnd, e, x. cbv zeta.
      split; [apply in_or_app; right; left; reflexivity|]. split; [reflexivity|]. split; [reflexivity|].
      split. { split; [exact Hp|]. exists e, x. repeat split; assumption. }
      split; [exact He|]. split; [exact Hok|].
      split. { unfold all_leaves. cbn [bs bq]. apply in_or_app. right. apply in_or_app. right. left. reflexivity. }
      split; [rewrite Hsg; apply sign_ok|]. auto.
  Qed.

  (* ---------------------------------------------------------------- once sequenced *)

  Definition collision_at (a b : bytes) : Prop := x00 :: a <> x00 :: b /\ H (x00 :: a) = H (x00 :: b).

  Lemma sct_leaf_found_lemma ops st i lf p cert chain pe now :
    inv ops st -> nth_error (bs (be st)) i = Some lf -> built lf p cert chain pe now ->
    (* the client's leaf hash, from certificate + SCT timestamp alone, is the backend's *)
    client_leaf_hash H p cert pe (ms_of_ns now) = Some (leaf_hash H (lv lf)) /\
    (* the stored entry decodes to the certificate and the chain *)
    (short (lx lf) -> decodes_to (lv lf) (lx lf) cert chain = true) /\
    (* get-proof-by-hash finds it in every tree that contains it, with a verifying audit path *)
    (forall n pts, parse_int64 pts = Some n -> Z.of_nat i < n -> n <= Z.of_N (bsize (be st)) ->
       exists j pth lf', fe_proof_by_hash H cfg st (leaf_hash H (lv lf)) pts = ok200 (BIncl j pth)
         /\ (j <= N.of_nat i)%N /\ nth_error (bs (be st)) (N.to_nat j) = Some lf'
         /\ leaf_hash H (lv lf') = leaf_hash H (lv lf)
         /\ client_verify_inclusion H j (Z.to_N n) (leaf_hash H (lv lf)) (root_of H (be st) (Z.to_N n)) pth = true) /\
    (* and at no other index, except for ... *)
    (forall j lf', nth_error (bs (be st)) j = Some lf' -> leaf_hash H (lv lf') = leaf_hash H (lv lf) ->
       j = i \/ collision_at (lv lf') (lv lf) \/ (p = true /\ lv lf' = lv lf /\ lid lf' <> lid lf)).
  Proof.
    intros Hinv Hi Hb.
    destruct (built_fields _ _ _ _ _ _ Hb) as (e & x & He & Hok & Hm & Hlv & Hlx & Hid).
    split; [rewrite Hlv; apply client_leaf_hash_is; [exact He|exact Hok|apply ms_of_ns_ok]|].
    split.
    { intros Hs. rewrite Hlv, Hlx in *. eapply stored_entry_decodes_to; eauto. apply ms_of_ns_ok. }
    split.
    { intros n pts Hp Hin Hn.
      destruct (proof_by_hash_finds st i lf n pts Hi Hp Hin Hn) as (j & pth & lf' & A & B & C & D & _ & E).
      exists j, pth, lf'. auto. }
    intros j lf' Hj Hh. eapply index_unique; eauto.
  Qed.

  (* ---------------------------------------------------------------- wiring *)

  (* get-sth-consistency(first, second) serves PROOF(first, D[0:second]) of RFC 6962 2.1.2, which
     verifies between the roots of THOSE two sizes *)
  Lemma first_second_lemma st pf ps f s :
    parse_int64 pf = Some f -> parse_int64 ps = Some s -> 0 < f -> f <= s -> s <= Z.of_N (bsize (be st)) ->
    exists pr, fe_consistency H cfg wiring_ok st pf ps = ok200 (BProof pr)
      /\ pr = cproof H (Z.to_N f) (firstN (Z.to_N s) (values (be st)))
      /\ client_verify_consistency H (Z.to_N f) (Z.to_N s) (root_of H (be st) (Z.to_N f)) (root_of H (be st) (Z.to_N s)) pr = true.
  Proof.
    intros Hf Hs H0 Hfs Hsn. eexists. split; [apply (consistency_200 st pf ps f s); assumption|]. split; [reflexivity|].
    unfold client_verify_consistency, root_of.
    set (l := firstN (Z.to_N s) (values (be st))).
    assert (Ll : lenN l = Z.to_N s) by (unfold l; apply lenN_firstN; rewrite bsize_values; lia).
    replace (firstN (Z.to_N f) (values (be st))) with (firstN (Z.to_N f) l) by (unfold l; apply firstN_firstN; lia).
    rewrite <- Ll at 1. apply verify_consistency_complete; unfold bytes, lenN in *; lia.
  Qed.

  (* with (first, second) forwarded the other way round the request is not even answered *)
  Lemma first_second_swapped_refuted st pf ps f s :
    c_mapper cfg (ECode 3) = None ->
    parse_int64 pf = Some f -> parse_int64 ps = Some s -> 0 < f -> f < s ->
    a_status (fe_consistency H cfg wiring_cons_swapped st pf ps) = 400.
  Proof.
    intros Hmap Hf Hs H0 Hfs. unfold LogModel.fe_consistency. rewrite Hf, Hs. cbn [w_cons wiring_cons_swapped].
    unfold rpc_consistency.
    replace (s <=? 0) with false by (symmetry; apply Z.leb_gt; lia).
    replace (f <=? 0) with false by (symmetry; apply Z.leb_gt; lia).
    replace (f <? s) with true by (symmetry; apply Z.ltb_lt; lia). cbn [orb map_reply].
    assert (Hst : fe_status cfg (env_ok true) (ReqConsistency pf ps) (bk unused (RpcErr (FCode 3)) unused unused unused) = 400).
    { unfold fe_status, serve. cbn [endpoint_of method_of meth_eqb negb andb handle bk b_cons].
      unfold get_sth_consistency. rewrite (parse_nonempty _ _ Hf), (parse_nonempty _ _ Hs). cbn [orb].
      rewrite Hf, Hs. unfold consistency_range.
      replace (f <? 0) with false by (symmetry; apply Z.ltb_ge; lia).
      replace (s <? 0) with false by (symmetry; apply Z.ltb_ge; lia). cbn [orb].
      replace (s <? f) with false by (symmetry; apply Z.ltb_ge; lia).
      unfold consistency_needs_backend. replace (f =? 0) with false by (symmetry; apply Z.eqb_neq; lia). cbn [negb].
      cbn [err_of_fault]. unfold to_status. rewrite Hmap. reflexivity. }
    rewrite Hst. reflexivity.
  Qed.

  (* get-entry-and-proof(leaf_index, tree_size) serves PATH(leaf_index, D[0:tree_size]) *)
  Lemma index_size_lemma ops st pli pts i t :
    inv ops st ->
    parse_int64 pli = Some i -> parse_int64 pts = Some t -> 0 <= i -> i < t -> t <= Z.of_N (bsize (be st)) ->
    exists lf pth, nth_error (bs (be st)) (Z.to_nat i) = Some lf
      /\ fe_entry_and_proof H cfg wiring_ok st pli pts = ok200 (BEap (lv lf) (lx lf) pth)
      /\ pth = path H (Z.to_N i) (firstN (Z.to_N t) (values (be st)))
      /\ client_verify_inclusion H (Z.to_N i) (Z.to_N t) (leaf_hash H (lv lf)) (root_of H (be st) (Z.to_N t)) pth = true.
  Proof.
    intros Hinv Hi Ht H0 Hit Htn.
    assert (Hlt : (Z.to_nat i < length (bs (be st)))%nat) by (unfold bsize, lenN in Htn; lia).
    destruct (nth_error (bs (be st)) (Z.to_nat i)) as [lf|] eqn:Hn; [|apply nth_error_None in Hn; lia].
    exists lf. eexists. split; [reflexivity|].
    assert (Hne : lv lf <> []) by (eapply (seq_leaf_nonempty H sign sig_ok is_precert cfg trusted); eauto).
    split; [apply (entry_and_proof_200 st pli pts i t lf); assumption|]. split; [reflexivity|].
    unfold client_verify_inclusion, root_of.
    set (l := firstN (Z.to_N t) (values (be st))).
    assert (Ll : lenN l = Z.to_N t) by (unfold l; apply lenN_firstN; rewrite bsize_values; lia).
    assert (Hnth : nthN (Z.to_N i) l [] = lv lf).
    { unfold l. rewrite nthN_firstN by lia. unfold nthN. rewrite Z_N_nat. apply nth_error_values. exact Hn. }
    rewrite <- Hnth. rewrite <- Ll at 1. apply vpath_complete. unfold bytes, lenN in *. lia.
  Qed.

  Lemma index_size_swapped_refuted st pli pts i t :
    c_mapper cfg (ECode 3) = None ->
    parse_int64 pli = Some i -> parse_int64 pts = Some t -> 0 <= i -> i < t ->
    a_status (fe_entry_and_proof H cfg wiring_eap_swapped st pli pts) = 400.
  Proof.
    intros Hmap Hi Ht H0 Hit. unfold LogModel.fe_entry_and_proof. rewrite Hi, Ht. cbn [w_eap wiring_eap_swapped].
    unfold rpc_entry.
    replace (i <=? t) with true by (symmetry; apply Z.leb_le; lia). rewrite !orb_true_r. cbn [map_reply].
    assert (Hst : fe_status cfg (env_ok true) (ReqEntryAndProof pli pts) (bk unused unused unused unused (RpcErr (FCode 3))) = 400).
    { unfold fe_status, serve. cbn [endpoint_of method_of meth_eqb negb andb handle bk b_entry].
      unfold get_entry_and_proof. rewrite Hi, Ht. unfold eap_params.
      replace (t <=? 0) with false by (symmetry; apply Z.leb_gt; lia).
      replace (i <? 0) with false by (symmetry; apply Z.ltb_ge; lia).
      replace (i >=? t) with false by (symmetry; rewrite Z.geb_leb; apply Z.leb_gt; lia).
      cbn [err_of_fault]. unfold to_status. rewrite Hmap. reflexivity. }
    rewrite Hst. reflexivity.
  Qed.

End Found.
