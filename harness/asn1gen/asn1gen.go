// Package asn1gen generates ASN.1 target types (as descriptors that can be turned into Go
// types for the forked asn1 package and, in parallel, for encoding/asn1), values of them,
// and renders both as Coq terms of V.ASN1.DerModel (aty / tok / val).
package asn1gen

import (
	uasn1 "encoding/asn1"
	"encoding/hex"
	"fmt"
	"math/big"
	"math/rand"
	"reflect"
	"strconv"
	"strings"
	"time"

	fasn1 "github.com/google/certificate-transparency-go/asn1"
)

// Pkg selects the implementation a Go type / value is built for.
type Pkg int

const (
	Fork Pkg = iota
	Upstream
)

// Ty is a type descriptor.
type Ty struct {
	Kind    string // bool int int32 int64 bigint bitstring oid enum flag time rawvalue octets string any seqof struct
	SetName int    // seqof: 0 = anonymous slice, >0 = index into the fixed list of named "...SET" slice types
	Elem    *Ty
	RC      bool // struct: first Go field is a RawContent
	Fields  []Field
}

type Field struct {
	Tag string // the asn1:"..." tag text
	T   *Ty
}

// Named slice types whose name ends in "SET" (getUniversalType looks at the type name;
// reflect cannot create named types at run time, so the list is fixed).
type (
	Int64SET  []int64
	StringSET []string
	BytesSET  [][]byte
	BoolSET   []bool
)

var setNamed = []struct {
	t    reflect.Type
	elem string
}{
	{}, // index 0 unused
	{reflect.TypeOf(Int64SET(nil)), "int64"},
	{reflect.TypeOf(StringSET(nil)), "string"},
	{reflect.TypeOf(BytesSET(nil)), "octets"},
	{reflect.TypeOf(BoolSET(nil)), "bool"},
}

var (
	bigIntT = reflect.TypeOf((*big.Int)(nil))
	timeT   = reflect.TypeOf(time.Time{})
	anyT    = reflect.TypeOf((*interface{})(nil)).Elem()
)

func pkgType(p Pkg, kind string) reflect.Type {
	if p == Fork {
		switch kind {
		case "bitstring":
			return reflect.TypeOf(fasn1.BitString{})
		case "oid":
			return reflect.TypeOf(fasn1.ObjectIdentifier(nil))
		case "enum":
			return reflect.TypeOf(fasn1.Enumerated(0))
		case "flag":
			return reflect.TypeOf(fasn1.Flag(false))
		case "rawvalue":
			return reflect.TypeOf(fasn1.RawValue{})
		case "rawcontent":
			return reflect.TypeOf(fasn1.RawContent(nil))
		}
	} else {
		switch kind {
		case "bitstring":
			return reflect.TypeOf(uasn1.BitString{})
		case "oid":
			return reflect.TypeOf(uasn1.ObjectIdentifier(nil))
		case "enum":
			return reflect.TypeOf(uasn1.Enumerated(0))
		case "flag":
			return reflect.TypeOf(uasn1.Flag(false))
		case "rawvalue":
			return reflect.TypeOf(uasn1.RawValue{})
		case "rawcontent":
			return reflect.TypeOf(uasn1.RawContent(nil))
		}
	}
	panic("pkgType " + kind)
}

// GoType builds the Go type for the given package.
func (t *Ty) GoType(p Pkg) reflect.Type {
	switch t.Kind {
	case "bool":
		return reflect.TypeOf(false)
	case "int":
		return reflect.TypeOf(int(0))
	case "int32":
		return reflect.TypeOf(int32(0))
	case "int64":
		return reflect.TypeOf(int64(0))
	case "bigint":
		return bigIntT
	case "time":
		return timeT
	case "octets":
		return reflect.TypeOf([]byte(nil))
	case "string":
		return reflect.TypeOf("")
	case "any":
		return anyT
	case "bitstring", "oid", "enum", "flag", "rawvalue":
		return pkgType(p, t.Kind)
	case "seqof":
		if t.SetName > 0 {
			return setNamed[t.SetName].t
		}
		return reflect.SliceOf(t.Elem.GoType(p))
	case "struct":
		var fs []reflect.StructField
		if t.RC {
			fs = append(fs, reflect.StructField{Name: "Raw", Type: pkgType(p, "rawcontent")})
		}
		for i, f := range t.Fields {
			sf := reflect.StructField{Name: "F" + strconv.Itoa(i), Type: f.T.GoType(p)}
			if f.Tag != "" {
				sf.Tag = reflect.StructTag(`asn1:"` + f.Tag + `"`)
			}
			fs = append(fs, sf)
		}
		return reflect.StructOf(fs)
	}
	panic("GoType " + t.Kind)
}

// Toks renders a tag string as the Coq token list, mirroring parseFieldParameters.
func Toks(tag string) string {
	var out []string
	for _, part := range strings.Split(tag, ",") {
		switch {
		case part == "optional":
			out = append(out, "KOptional")
		case part == "explicit":
			out = append(out, "KExplicit")
		case part == "generalized":
			out = append(out, "KGeneralized")
		case part == "utc":
			out = append(out, "KUtc")
		case part == "ia5":
			out = append(out, "KIa5")
		case part == "printable":
			out = append(out, "KPrintable")
		case part == "numeric":
			out = append(out, "KNumeric")
		case part == "utf8":
			out = append(out, "KUtf8")
		case strings.HasPrefix(part, "default:"):
			if i, err := strconv.ParseInt(part[8:], 10, 64); err == nil {
				out = append(out, fmt.Sprintf("KDefault (%d)", i))
			} else {
				out = append(out, "KOther")
			}
		case strings.HasPrefix(part, "tag:"):
			if i, err := strconv.Atoi(part[4:]); err == nil {
				out = append(out, fmt.Sprintf("KTag (%d)", i))
			} else {
				out = append(out, "KOther")
			}
		case part == "set":
			out = append(out, "KSet")
		case part == "application":
			out = append(out, "KApplication")
		case part == "private":
			out = append(out, "KPrivate")
		case part == "omitempty":
			out = append(out, "KOmitEmpty")
		case part == "lax":
			out = append(out, "KLax")
		case part == "":
			// strings.Split("", ",") yields one empty part, which matches nothing
		default:
			out = append(out, "KOther")
		}
	}
	return "[" + strings.Join(out, "; ") + "]"
}

// Coq renders the descriptor as a term of type aty.
func (t *Ty) Coq() string {
	switch t.Kind {
	case "bool":
		return "TBool"
	case "int", "int64":
		return "(TInt true)"
	case "int32":
		return "(TInt false)"
	case "bigint":
		return "TBigInt"
	case "bitstring":
		return "TBitString"
	case "oid":
		return "TOid"
	case "enum":
		return "TEnum"
	case "flag":
		return "TFlag"
	case "time":
		return "TTime"
	case "rawvalue":
		return "TRawValue"
	case "octets":
		return "TOctets"
	case "string":
		return "TString"
	case "any":
		return "TAny"
	case "seqof":
		return fmt.Sprintf("(TSeqOf %v %s)", t.SetName > 0, t.Elem.Coq())
	case "struct":
		s := "FNil"
		for i := len(t.Fields) - 1; i >= 0; i-- {
			s = fmt.Sprintf("(FCons %s %s %s)", Toks(t.Fields[i].Tag), t.Fields[i].T.Coq(), s)
		}
		return fmt.Sprintf("(TStruct %v %s)", t.RC, s)
	}
	panic("Coq " + t.Kind)
}

// String is a compact human-readable form used in notes and JSON mirrors.
func (t *Ty) String() string {
	switch t.Kind {
	case "seqof":
		if t.SetName > 0 {
			return "SET[]" + t.Elem.String()
		}
		return "[]" + t.Elem.String()
	case "struct":
		var fs []string
		if t.RC {
			fs = append(fs, "RawContent")
		}
		for _, f := range t.Fields {
			s := f.T.String()
			if f.Tag != "" {
				s += " `" + f.Tag + "`"
			}
			fs = append(fs, s)
		}
		return "struct{" + strings.Join(fs, "; ") + "}"
	}
	return t.Kind
}

// Kinds returns the set of kinds used in t (for distribution tags).
func (t *Ty) Kinds(m map[string]bool) {
	m[t.Kind] = true
	if t.Elem != nil {
		t.Elem.Kinds(m)
	}
	for _, f := range t.Fields {
		f.T.Kinds(m)
	}
}

func (t *Ty) Depth() int {
	d := 0
	if t.Elem != nil {
		d = t.Elem.Depth()
	}
	for _, f := range t.Fields {
		if x := f.T.Depth(); x > d {
			d = x
		}
	}
	return d + 1
}

// ---------------------------------------------------------------- generation of types

type Gen struct {
	R *rand.Rand
	Boundary bool // force byte-string / string lengths at the DER length-field boundaries
}

var leafKinds = []string{"bool", "int", "int32", "int64", "bigint", "bitstring", "oid", "enum", "flag", "time",
	"rawvalue", "octets", "string", "string", "any", "int", "oid", "time"}

func (g *Gen) Leaf() *Ty { return &Ty{Kind: leafKinds[g.R.Intn(len(leafKinds))]} }

// Type generates a type of nesting depth at most depth.
func (g *Gen) Type(depth int) *Ty {
	if depth <= 1 || g.R.Intn(5) == 0 {
		return g.Leaf()
	}
	switch g.R.Intn(7) {
	case 0, 1:
		if g.R.Intn(4) == 0 {
			k := 1 + g.R.Intn(len(setNamed)-1)
			return &Ty{Kind: "seqof", SetName: k, Elem: &Ty{Kind: setNamed[k].elem}}
		}
		e := g.Type(depth - 1)
		if e.Kind == "any" && g.R.Intn(3) != 0 {
			e = g.Leaf()
		}
		return &Ty{Kind: "seqof", Elem: e}
	default:
		return g.Struct(depth)
	}
}

func (g *Gen) Struct(depth int) *Ty {
	t := &Ty{Kind: "struct", RC: g.R.Intn(6) == 0}
	n := g.R.Intn(5)
	if n == 0 && g.R.Intn(3) != 0 {
		n = 1 + g.R.Intn(3)
	}
	for i := 0; i < n; i++ {
		ft := g.Type(depth - 1)
		t.Fields = append(t.Fields, Field{Tag: g.Tag(ft, true), T: ft})
	}
	return t
}

// Tag generates a field tag for a field of type t: mostly from the documented grammar,
// sometimes with parts that do not fit the type or do not parse.
func (g *Gen) Tag(t *Ty, field bool) string {
	r := g.R
	var parts []string
	if r.Intn(3) == 0 {
		parts = append(parts, "optional")
		if (t.Kind == "int" || t.Kind == "int32" || t.Kind == "int64" || t.Kind == "enum" || r.Intn(12) == 0) && r.Intn(2) == 0 {
			d := []int64{0, 1, -1, 5, 127, 128, 1 << 31, -(1 << 31) - 1, 1 << 40}[r.Intn(9)]
			parts = append(parts, fmt.Sprintf("default:%d", d))
		}
	}
	switch r.Intn(8) {
	case 0, 1:
		parts = append(parts, fmt.Sprintf("tag:%d", g.tagNum()))
	case 2, 3:
		parts = append(parts, "explicit", fmt.Sprintf("tag:%d", g.tagNum()))
	}
	if len(parts) > 0 && r.Intn(6) == 0 {
		parts = append(parts, []string{"application", "private"}[r.Intn(2)])
	}
	switch t.Kind {
	case "string":
		if r.Intn(2) == 0 {
			parts = append(parts, []string{"ia5", "printable", "numeric", "utf8"}[r.Intn(4)])
		}
	case "time":
		if r.Intn(3) == 0 {
			parts = append(parts, []string{"generalized", "utc"}[r.Intn(2)])
		}
	case "seqof", "struct":
		if r.Intn(4) == 0 {
			parts = append(parts, "set")
		}
	}
	if (t.Kind == "seqof" || t.Kind == "octets" || t.Kind == "oid") && r.Intn(4) == 0 {
		parts = append(parts, "omitempty")
	}
	if r.Intn(10) == 0 {
		parts = append(parts, "lax") // a field-level lax tag is overridden by the parent's flag
	}
	if r.Intn(25) == 0 {
		parts = append(parts, []string{"tag:x", "default:", "bogus", "explicit", "set", "utf8", "generalized", "application", "tag:-1", ""}[r.Intn(10)])
	}
	r.Shuffle(len(parts), func(i, j int) { parts[i], parts[j] = parts[j], parts[i] })
	return strings.Join(parts, ",")
}

func (g *Gen) tagNum() int {
	switch g.R.Intn(10) {
	case 0:
		return 30
	case 1:
		return 31
	case 2:
		return 127 + g.R.Intn(3)
	case 3:
		return []int{16383, 16384, 1 << 21, 1<<31 - 1}[g.R.Intn(4)]
	}
	return g.R.Intn(6)
}

// ---------------------------------------------------------------- values

// Val is a package-neutral value tree mirroring the Coq type val.
type Val struct {
	K        string // nil bool int bits oid time raw bytes str list struct
	B        bool
	I        *big.Int
	Bytes    []byte // bits: Bytes (BytesNil says nil), bytes, str, raw content
	BytesNil bool
	BitLen   int
	Oid      []int
	T        time.Time
	Class    int
	Tag      int
	Full     []byte
	FullNil  bool
	L        []*Val
	RC       []byte
	HasRC    bool
}

func hx(b []byte) string {
	if len(b) == 0 {
		return "[]"
	}
	return `(hex "` + hex.EncodeToString(b) + `"%string)`
}

func optHex(b []byte, isNil bool) string {
	if isNil {
		return "None"
	}
	return "(Some " + hx(b) + ")"
}

// Coq renders the value as a term of type val.
func (v *Val) Coq() string {
	switch v.K {
	case "nil":
		return "VNil"
	case "bool":
		return fmt.Sprintf("(VBool %v)", v.B)
	case "int":
		return fmt.Sprintf("(VInt (%s))", v.I.String())
	case "bits":
		return fmt.Sprintf("(VBits %s (%d))", optHex(v.Bytes, v.BytesNil), v.BitLen)
	case "oid":
		s := make([]string, len(v.Oid))
		for i, x := range v.Oid {
			s[i] = fmt.Sprintf("(%d)", x)
		}
		return "(VOid [" + strings.Join(s, "; ") + "])"
	case "time":
		y, mo, d := v.T.Date()
		h, mi, s := v.T.Clock()
		_, off := v.T.Zone()
		return fmt.Sprintf("(VTime (mkTime (%d) %d %d %d %d %d %d (%d)))", y, int(mo), d, h, mi, s, v.T.Nanosecond(), off)
	case "raw":
		return fmt.Sprintf("(VRaw (%d) (%d) %v %s %s)", v.Class, v.Tag, v.B, optHex(v.Bytes, v.BytesNil), optHex(v.Full, v.FullNil))
	case "bytes":
		return "(VBytes " + hx(v.Bytes) + ")"
	case "str":
		return "(VStr " + hx(v.Bytes) + ")"
	case "list":
		s := make([]string, len(v.L))
		for i, x := range v.L {
			s[i] = x.Coq()
		}
		return "(VList [" + strings.Join(s, "; ") + "])"
	case "struct":
		s := make([]string, len(v.L))
		for i, x := range v.L {
			s[i] = x.Coq()
		}
		rc := "None"
		if v.HasRC {
			rc = "(Some " + hx(v.RC) + ")"
		}
		return "(VStruct " + rc + " [" + strings.Join(s, "; ") + "])"
	}
	panic("Val.Coq " + v.K)
}

// FromReflect converts a Go value of t.GoType(p) into the neutral form.
func FromReflect(t *Ty, rv reflect.Value, p Pkg) *Val {
	switch t.Kind {
	case "bool", "flag":
		return &Val{K: "bool", B: rv.Bool()}
	case "int", "int32", "int64", "enum":
		return &Val{K: "int", I: big.NewInt(rv.Int())}
	case "bigint":
		if rv.IsNil() {
			return &Val{K: "nil"}
		}
		return &Val{K: "int", I: new(big.Int).Set(rv.Interface().(*big.Int))}
	case "bitstring":
		b := rv.Field(0)
		return &Val{K: "bits", Bytes: append([]byte(nil), b.Bytes()...), BytesNil: b.IsNil(), BitLen: int(rv.Field(1).Int())}
	case "oid":
		if rv.IsNil() {
			return &Val{K: "nil"}
		}
		o := make([]int, rv.Len())
		for i := range o {
			o[i] = int(rv.Index(i).Int())
		}
		return &Val{K: "oid", Oid: o}
	case "time":
		return &Val{K: "time", T: rv.Interface().(time.Time)}
	case "rawvalue":
		return &Val{K: "raw", Class: int(rv.Field(0).Int()), Tag: int(rv.Field(1).Int()), B: rv.Field(2).Bool(),
			Bytes: append([]byte(nil), rv.Field(3).Bytes()...), BytesNil: rv.Field(3).IsNil(),
			Full: append([]byte(nil), rv.Field(4).Bytes()...), FullNil: rv.Field(4).IsNil()}
	case "octets":
		if rv.IsNil() {
			return &Val{K: "nil"}
		}
		return &Val{K: "bytes", Bytes: append([]byte(nil), rv.Bytes()...)}
	case "string":
		return &Val{K: "str", Bytes: []byte(rv.String())}
	case "any":
		if rv.IsNil() {
			return &Val{K: "nil"}
		}
		return fromDynamic(rv.Elem(), p)
	case "seqof":
		if rv.IsNil() {
			return &Val{K: "nil"}
		}
		v := &Val{K: "list"}
		for i := 0; i < rv.Len(); i++ {
			v.L = append(v.L, FromReflect(t.Elem, rv.Index(i), p))
		}
		return v
	case "struct":
		v := &Val{K: "struct"}
		off := 0
		if t.RC {
			v.HasRC = true
			v.RC = append([]byte(nil), rv.Field(0).Bytes()...)
			off = 1
		}
		for i, f := range t.Fields {
			v.L = append(v.L, FromReflect(f.T, rv.Field(i+off), p))
		}
		return v
	}
	panic("FromReflect " + t.Kind)
}

func fromDynamic(rv reflect.Value, p Pkg) *Val {
	switch x := rv.Interface().(type) {
	case int64:
		return &Val{K: "int", I: big.NewInt(x)}
	case string:
		return &Val{K: "str", Bytes: []byte(x)}
	case []byte:
		return &Val{K: "bytes", Bytes: append([]byte(nil), x...)}
	case bool:
		return &Val{K: "bool", B: x}
	case time.Time:
		return &Val{K: "time", T: x}
	}
	switch rv.Type() {
	case pkgType(p, "bitstring"):
		return FromReflect(&Ty{Kind: "bitstring"}, rv, p)
	case pkgType(p, "oid"):
		return FromReflect(&Ty{Kind: "oid"}, rv, p)
	case pkgType(p, "rawvalue"):
		return FromReflect(&Ty{Kind: "rawvalue"}, rv, p)
	}
	return &Val{K: "str", Bytes: []byte("?dynamic:" + rv.Type().String())}
}

// ToReflect builds a Go value of t.GoType(p) from the neutral form.
func ToReflect(t *Ty, v *Val, p Pkg) reflect.Value {
	rv := reflect.New(t.GoType(p)).Elem()
	set(t, v, rv, p)
	return rv
}

func set(t *Ty, v *Val, rv reflect.Value, p Pkg) {
	switch t.Kind {
	case "bool", "flag":
		rv.SetBool(v.B)
	case "int", "int32", "int64", "enum":
		rv.SetInt(v.I.Int64())
	case "bigint":
		if v.K != "nil" {
			rv.Set(reflect.ValueOf(new(big.Int).Set(v.I)))
		}
	case "bitstring":
		if !v.BytesNil {
			rv.Field(0).SetBytes(append([]byte{}, v.Bytes...))
		}
		rv.Field(1).SetInt(int64(v.BitLen))
	case "oid":
		if v.K != "nil" {
			s := reflect.MakeSlice(rv.Type(), len(v.Oid), len(v.Oid))
			for i, x := range v.Oid {
				s.Index(i).SetInt(int64(x))
			}
			rv.Set(s)
		}
	case "time":
		rv.Set(reflect.ValueOf(v.T))
	case "rawvalue":
		rv.Field(0).SetInt(int64(v.Class))
		rv.Field(1).SetInt(int64(v.Tag))
		rv.Field(2).SetBool(v.B)
		if !v.BytesNil {
			rv.Field(3).SetBytes(append([]byte{}, v.Bytes...))
		}
		if !v.FullNil {
			rv.Field(4).SetBytes(append([]byte{}, v.Full...))
		}
	case "octets":
		if v.K != "nil" {
			rv.SetBytes(append([]byte{}, v.Bytes...))
		}
	case "string":
		rv.SetString(string(v.Bytes))
	case "any":
		switch v.K {
		case "nil":
		case "int":
			rv.Set(reflect.ValueOf(v.I.Int64()))
		case "str":
			rv.Set(reflect.ValueOf(string(v.Bytes)))
		case "bytes":
			rv.Set(reflect.ValueOf(append([]byte{}, v.Bytes...)))
		case "bits":
			rv.Set(ToReflect(&Ty{Kind: "bitstring"}, v, p))
		case "oid":
			rv.Set(ToReflect(&Ty{Kind: "oid"}, v, p))
		case "time":
			rv.Set(reflect.ValueOf(v.T))
		}
	case "seqof":
		if v.K != "nil" {
			s := reflect.MakeSlice(rv.Type(), len(v.L), len(v.L))
			for i, x := range v.L {
				set(t.Elem, x, s.Index(i), p)
			}
			rv.Set(s)
		}
	case "struct":
		off := 0
		if t.RC {
			if len(v.RC) > 0 {
				rv.Field(0).SetBytes(append([]byte{}, v.RC...))
			}
			off = 1
		}
		for i, f := range t.Fields {
			set(f.T, v.L[i], rv.Field(i+off), p)
		}
	}
}

var printableChars = "abcXYZ019 '()+,-./:=?"

func (g *Gen) str(tag string) []byte {
	r := g.R
	n := r.Intn(6)
	if g.Boundary && r.Intn(2) == 0 {
		n = []int{127, 128, 255, 256}[r.Intn(4)] - r.Intn(3)*r.Intn(6)
	}
	kind := "printable"
	for _, p := range strings.Split(tag, ",") {
		switch p {
		case "ia5", "numeric", "utf8", "printable":
			kind = p
		}
	}
	if !strings.Contains(tag, kind) && r.Intn(3) == 0 {
		kind = "utf8"
	}
	var b []byte
	for i := 0; i < n; i++ {
		switch kind {
		case "numeric":
			b = append(b, "0123456789 "[r.Intn(11)])
		case "ia5":
			b = append(b, "a@*&~\x01Zz09"[r.Intn(10)])
		case "utf8":
			b = append(b, []string{"a", "é", "€", "𝄞", "*", "&", "z"}[r.Intn(7)]...)
		default:
			b = append(b, printableChars[r.Intn(len(printableChars))])
		}
	}
	if r.Intn(20) == 0 {
		b = append(b, []byte{0xe9, '*', '&', '@', 0xff, 0x80}[r.Intn(6)])
	}
	return b
}

func (g *Gen) integer(bits int) *big.Int {
	r := g.R
	lim := new(big.Int).Lsh(big.NewInt(1), uint(bits-1))
	var x *big.Int
	switch r.Intn(8) {
	case 0:
		x = big.NewInt(int64(r.Intn(3) - 1))
	case 1:
		x = big.NewInt([]int64{127, 128, -128, -129, 255, 256, 32767, 32768, -32768, -32769}[r.Intn(10)])
	case 2:
		x = new(big.Int).Sub(lim, big.NewInt(1))
	case 3:
		x = new(big.Int).Neg(lim)
	default:
		x = new(big.Int).Rand(r, lim)
		x.Rsh(x, uint(r.Intn(bits)))
		if r.Intn(2) == 0 {
			x.Neg(x)
		}
	}
	return x
}

func (g *Gen) time(tag string) time.Time {
	r := g.R
	year := 1950 + r.Intn(100)
	switch r.Intn(8) {
	case 0:
		year = []int{1949, 1950, 2049, 2050, 1999, 2000, 0, 9999, 1, 1969, 1970}[r.Intn(11)]
	case 1:
		year = r.Intn(10000)
	}
	loc := time.UTC
	switch r.Intn(6) {
	case 0:
		loc = time.FixedZone("", (r.Intn(27*60)-13*60)*60)
	case 1:
		loc = time.FixedZone("", []int{3600, -3600, 24 * 3600, 59 * 60, -30, 45}[r.Intn(6)])
	}
	ns := 0
	if r.Intn(10) == 0 {
		ns = r.Intn(1e9)
	}
	return time.Date(year, time.Month(1+r.Intn(12)), 1+r.Intn(28), r.Intn(24), r.Intn(60), r.Intn(60), ns, loc)
}

func (g *Gen) oid() []int {
	r := g.R
	o := []int{r.Intn(3), r.Intn(40)}
	if o[0] == 2 && r.Intn(2) == 0 {
		o[1] = r.Intn(1000)
	}
	for n := r.Intn(5); n > 0; n-- {
		o = append(o, []int{0, 1, 127, 128, 16383, 16384, 1<<31 - 1, r.Intn(1 << 20)}[r.Intn(8)])
	}
	if r.Intn(25) == 0 {
		o = o[:r.Intn(2)]
	}
	return o
}

// SmallTLV returns a short well-formed DER element (for RawValue.FullBytes).
func (g *Gen) SmallTLV() []byte {
	r := g.R
	switch r.Intn(5) {
	case 0:
		return []byte{0x05, 0x00}
	case 1:
		return []byte{0x02, 0x01, byte(r.Intn(256))}
	case 2:
		return []byte{0x30, 0x03, 0x02, 0x01, byte(r.Intn(128))}
	case 3:
		return []byte{0x80 | byte(r.Intn(31)), 0x02, byte(r.Intn(256)), byte(r.Intn(256))}
	}
	return []byte{0x13, 0x02, 'h', 'i'}
}

// Value generates a value of type t (tag = the field's tag text, which steers string / time choices).
func (g *Gen) Value(t *Ty, tag string) *Val {
	r := g.R
	switch t.Kind {
	case "bool", "flag":
		return &Val{K: "bool", B: r.Intn(2) == 0}
	case "int", "int64":
		return &Val{K: "int", I: g.integer(64)}
	case "int32":
		return &Val{K: "int", I: g.integer(32)}
	case "enum":
		return &Val{K: "int", I: g.integer(32)}
	case "bigint":
		if r.Intn(15) == 0 {
			return &Val{K: "nil"}
		}
		return &Val{K: "int", I: g.integer([]int{8, 64, 65, 128, 520}[r.Intn(5)])}
	case "bitstring":
		n := r.Intn(5)
		b := make([]byte, n)
		r.Read(b)
		bl := n * 8
		if n > 0 && r.Intn(2) == 0 {
			pad := r.Intn(8)
			b[n-1] &^= byte(1<<uint(pad)) - 1
			bl -= pad
		}
		return &Val{K: "bits", Bytes: b, BytesNil: n == 0 && r.Intn(2) == 0, BitLen: bl}
	case "oid":
		if r.Intn(12) == 0 {
			return &Val{K: "nil"}
		}
		return &Val{K: "oid", Oid: g.oid()}
	case "time":
		return &Val{K: "time", T: g.time(tag)}
	case "rawvalue":
		if r.Intn(2) == 0 {
			return &Val{K: "raw", Full: g.SmallTLV(), BytesNil: true}
		}
		b := make([]byte, r.Intn(4))
		r.Read(b)
		return &Val{K: "raw", Class: r.Intn(4), Tag: []int{0, 1, 5, 30, 31, 200}[r.Intn(6)], B: r.Intn(2) == 0, Bytes: b, BytesNil: len(b) == 0, FullNil: true}
	case "octets":
		if r.Intn(8) == 0 {
			return &Val{K: "nil"}
		}
		b := make([]byte, r.Intn(6))
		r.Read(b)
		if r.Intn(30) == 0 {
			b = make([]byte, 127+r.Intn(200))
		}
		if r.Intn(12) == 0 || g.Boundary {
			// content lengths at and around the points where the DER length field grows or has 0xff as
			// its top octet (127/128, 255/256, 0xff00..0xffff/0x10000), also a few bytes below them so
			// that an ENCLOSING element's length lands there
			base := []int{127, 128, 255, 256, 255, 256}[r.Intn(6)]
			if r.Intn(25) == 0 {
				base = []int{0xff00, 0xffff, 0x10000, 0xfeff}[r.Intn(4)]
			}
			if r.Intn(2) == 0 {
				base -= r.Intn(14)
			}
			b = make([]byte, base)
			r.Read(b[:minInt(len(b), 16)])
		}
		if len(b) == 0 && strings.Contains(tag, "omitempty") {
			return &Val{K: "nil"} // an omitted empty slice decodes as nil
		}
		return &Val{K: "bytes", Bytes: b}
	case "string":
		return &Val{K: "str", Bytes: g.str(tag)}
	case "any":
		switch r.Intn(8) {
		case 0:
			return &Val{K: "nil"}
		case 1:
			return &Val{K: "int", I: g.integer(64)}
		case 2:
			return &Val{K: "str", Bytes: g.str(tag)}
		case 3:
			return g.Value(&Ty{Kind: "octets"}, "x")
		case 4:
			return g.Value(&Ty{Kind: "bitstring"}, "")
		case 5:
			return &Val{K: "oid", Oid: g.oid()}
		case 6:
			return &Val{K: "time", T: g.time(tag)}
		}
		return &Val{K: "int", I: big.NewInt(int64(r.Intn(100)))}
	case "seqof":
		if r.Intn(8) == 0 {
			return &Val{K: "nil"}
		}
		v := &Val{K: "list"}
		for n := r.Intn(4); n > 0; n-- {
			v.L = append(v.L, g.Value(t.Elem, ""))
		}
		if len(v.L) == 0 && strings.Contains(tag, "omitempty") {
			return &Val{K: "nil"}
		}
		return v
	case "struct":
		v := &Val{K: "struct", HasRC: t.RC}
		for _, f := range t.Fields {
			v.L = append(v.L, g.Value(f.T, f.Tag))
		}
		return v
	}
	panic("Value " + t.Kind)
}

func minInt(a, b int) int {
	if a < b {
		return a
	}
	return b
}

// HasSetOf reports whether marshalling v of type t reaches a SET OF with two or more elements (D6).
func HasSetOf(t *Ty, tag string, v *Val) bool {
	switch t.Kind {
	case "seqof":
		isSet := t.SetName > 0
		for _, p := range strings.Split(tag, ",") {
			if p == "set" {
				isSet = true
			}
		}
		if v.K == "list" {
			if isSet && len(v.L) >= 2 {
				return true
			}
			for _, x := range v.L {
				if HasSetOf(t.Elem, "", x) {
					return true
				}
			}
		}
	case "struct":
		for i, f := range t.Fields {
			if HasSetOf(f.T, f.Tag, v.L[i]) {
				return true
			}
		}
	}
	return false
}
