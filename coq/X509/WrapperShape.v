(* C11 - return-shape summaries of the X.509 parse functions (T1 tie "retshape").

   The translator harness/gen/retshape walks the CURRENT Go source of the functions listed
   in gen/targets/X509Returns.json with a small abstract interpreter (go/ast) and emits, for
   every [return] statement, what it could establish syntactically about the returned
   (object, error) pair: constants, constructors, variables bound to the results of earlier
   calls, and for each such call the error kinds (nil / NonFatalErrors / anything else) and
   object nil-ness that the enclosing conditions still allow.  This file gives those
   summaries a semantics ([exec]: an execution of f ends in one of f's return statements,
   and the values it returns are drawn from what the summary says, where results of calls
   are results of executions of the callee one level down), a computable check
   ([shape_ok]) and the generic lemma proved once ([shape_sound], induction on the call
   depth): if every return of every function passes [shape_ok] then every execution of
   every function satisfies its declared contract.

   What is NOT covered here and stays validation only (harness/cmd/c11): that executions
   end in a return statement at all (no panic, no non-termination), and that the
   abstract interpreter classifies Go expressions correctly (trusted translator). *)
From Coq Require Import List String Bool Arith.
Import ListNotations.
Local Open Scope string_scope.

(* ---- dynamic classes of a returned pair ---- *)
Inductive ocls := ONil | ONonNil.
(* error classes as x509.IsFatal sees them: nil; a NonFatalErrors value; a *Errors without
   fatal entry; everything else *)
Inductive ecls := ENil | ENfe | EErrsNF | EFatal.
Definition outcome := (ocls * ecls)%type.

Definition ocls_eqb (a b : ocls) : bool :=
  match a, b with ONil, ONil | ONonNil, ONonNil => true | _, _ => false end.
Definition ecls_eqb (a b : ecls) : bool :=
  match a, b with ENil, ENil | ENfe, ENfe | EErrsNF, EErrsNF | EFatal, EFatal => true | _, _ => false end.
Definition outcome_eqb (a b : outcome) : bool := ocls_eqb (fst a) (fst b) && ecls_eqb (snd a) (snd b).

(* model of x509.IsFatal on the error classes *)
Definition is_fatal (e : ecls) : bool := match e with EFatal => true | _ => false end.

(* the property's clause: a usable object with no / a non-fatal error, or no object with a
   fatal error - never the mixed cases *)
Definition coherent (oc : outcome) : Prop :=
  (fst oc = ONonNil /\ is_fatal (snd oc) = false) \/ (fst oc = ONil /\ is_fatal (snd oc) = true).
Definition coherentb (oc : outcome) : bool :=
  match fst oc with ONonNil => negb (is_fatal (snd oc)) | ONil => is_fatal (snd oc) end.

(* ---- contracts ---- *)
Inductive contract :=
| KStrict        (* (object, nil) | (nil, fatal) *)
| KLenient       (* ... | (object, NonFatalErrors) *)
| KLenientErrs   (* ... | (object, *Errors without fatal entry) *)
| KErrOnly       (* error is nil or fatal; the first result is not an "object" (rest bytes, flags, slices that may be empty) *)
| KObjNonNil     (* single result, never nil *)
| KOptObj.       (* (anything, nil) | (nil, fatal): parsePublicKey, whose unknown-algorithm arm returns (nil, nil) *)

Definition allowed (k : contract) : list outcome :=
  match k with
  | KStrict => [(ONonNil, ENil); (ONil, EFatal)]
  | KLenient => [(ONonNil, ENil); (ONonNil, ENfe); (ONil, EFatal)]
  | KLenientErrs => [(ONonNil, ENil); (ONonNil, EErrsNF); (ONil, EFatal)]
  | KErrOnly => [(ONil, ENil); (ONonNil, ENil); (ONil, EFatal); (ONonNil, EFatal)]
  | KObjNonNil => [(ONonNil, ENil)]
  | KOptObj => [(ONil, ENil); (ONonNil, ENil); (ONil, EFatal)]
  end.

Definition coherent_contract (k : contract) : bool :=
  match k with KStrict | KLenient | KLenientErrs => true | _ => false end.

(* ---- what a condition can test syntactically ---- *)
Inductive kind := KdNil | KdNfe | KdOther.     (* err == nil; err.(NonFatalErrors) ok; neither *)
Definition kind_of (e : ecls) : kind :=
  match e with ENil => KdNil | ENfe => KdNfe | EErrsNF | EFatal => KdOther end.
Definition kind_eqb (a b : kind) : bool :=
  match a, b with KdNil, KdNil | KdNfe, KdNfe | KdOther, KdOther => true | _, _ => false end.

(* one earlier call whose results a return refers to (or whose results were tested on the
   way to the return): the kinds / nil-ness the path conditions still allow *)
Record callc := mkCall { c_id : nat; c_callee : string; c_kinds : list kind; c_objs : list ocls;
                         c_must : bool  (* the call was executed on EVERY path that reaches the return *) }.

Inductive errs_state := SFatal | SNotFatal | SUnknown.

Inductive oatom :=
| OaNil | OaNonNil            (* nil; &x, new, make, composite literal, configured constructors *)
| OaCall (id : nat)           (* first result of call [id] *)
| OaTop.                      (* anything: unclassified *)
Inductive eatom :=
| EaNil
| EaFatalCtor                 (* errors.New, fmt.Errorf, asn1.SyntaxError{}, asn1.StructuralError{} *)
| EaNfe                       (* a NonFatalErrors VALUE *)
| EaErrs (st : errs_state)    (* &errs, errs of type Errors, with what is known about errs.Fatal() *)
| EaCall (id : nat)           (* error result of call [id] *)
| EaNfeElem                   (* nfe.Errors[i]: an element of a NonFatalErrors list *)
| EaTop.

Record ret := mkRet {
  r_fn : string; r_idx : nat; r_pos : string;
  r_tail : option string;            (* [return g(...)] *)
  r_obj : list oatom; r_err : list eatom; r_calls : list callc }.

Definition mem {A} (eqb : A -> A -> bool) (x : A) (l : list A) : bool := existsb (eqb x) l.

Lemma ocls_eqb_eq a b : ocls_eqb a b = true <-> a = b.
Proof. destruct a, b; simpl; split; intro H; congruence. Qed.
Lemma ecls_eqb_eq a b : ecls_eqb a b = true <-> a = b.
Proof. destruct a, b; simpl; split; intro H; congruence. Qed.
Lemma kind_eqb_eq a b : kind_eqb a b = true <-> a = b.
Proof. destruct a, b; simpl; split; intro H; congruence. Qed.
Lemma outcome_eqb_eq a b : outcome_eqb a b = true <-> a = b.
Proof.
  destruct a as [a1 a2], b as [b1 b2]; unfold outcome_eqb; simpl.
  rewrite andb_true_iff, ocls_eqb_eq, ecls_eqb_eq. split; [intros [-> ->]; reflexivity | intro H; inversion H; auto].
Qed.
Lemma mem_In {A} (eqb : A -> A -> bool) (H : forall a b, eqb a b = true <-> a = b) x l :
  mem eqb x l = true <-> In x l.
Proof.
  unfold mem. rewrite existsb_exists. split.
  - intros [y [Hy E]]. apply H in E. subst. exact Hy.
  - intro Hx. exists x. split; [exact Hx | apply H; reflexivity].
Qed.

Section Shape.
  (* declared contracts of the analysed functions, assumed contracts of the external ones
     (asn1.Unmarshal, tls.Unmarshal, url.Parse, rsa Validate, ...: their error result is nil
     or an error that is neither NonFatalErrors nor *x509.Errors - they live in packages
     that x509 imports, so they cannot name those types), and the classes an element of a
     NonFatalErrors list may have *)
  Variable K : string -> option contract.
  Variable X : string -> option contract.
  Variable A : list ecls.
  Variable R : list ret.

  Definition contract_of (g : string) : option contract :=
    match X g with Some k => Some k | None => K g end.

  Definition satisfies (c : callc) (oc : outcome) : Prop :=
    In (kind_of (snd oc)) (c_kinds c) /\ In (fst oc) (c_objs c).
  Definition satisfiesb (c : callc) (oc : outcome) : bool :=
    mem kind_eqb (kind_of (snd oc)) (c_kinds c) && mem ocls_eqb (fst oc) (c_objs c).

  (* env: the outcome of each call that was executed on the path taken (None = not executed) *)
  Definition odenote (env : nat -> option outcome) (a : oatom) (o : ocls) : Prop :=
    match a with
    | OaNil => o = ONil | OaNonNil => o = ONonNil
    | OaCall id => exists oc', env id = Some oc' /\ o = fst oc'
    | OaTop => True
    end.
  Definition edenote (env : nat -> option outcome) (a : eatom) (e : ecls) : Prop :=
    match a with
    | EaNil => e = ENil | EaFatalCtor => e = EFatal | EaNfe => e = ENfe
    | EaErrs SFatal => e = EFatal | EaErrs SNotFatal => e = EErrsNF
    | EaErrs SUnknown => e = EErrsNF \/ e = EFatal
    | EaCall id => exists oc', env id = Some oc' /\ e = snd oc'
    | EaNfeElem => In e A
    | EaTop => True
    end.

  (* executions, by call depth *)
  Fixpoint exec (d : nat) (f : string) (oc : outcome) : Prop :=
    match d with
    | O => False
    | S d' =>
      let callee_sem g oc' := match X g with Some k => In oc' (allowed k) | None => exec d' g oc' end in
      exists r, In r R /\ r_fn r = f /\
        match r_tail r with
        | Some g => callee_sem g oc
        | None => exists env : nat -> option outcome,
            (forall c, In c (r_calls r) ->
               (c_must c = true -> env (c_id c) <> None) /\
               (forall oc', env (c_id c) = Some oc' -> callee_sem (c_callee c) oc' /\ satisfies c oc'))
            /\ (exists a, In a (r_obj r) /\ odenote env a (fst oc))
            /\ (exists a, In a (r_err r) /\ edenote env a (snd oc))
        end
    end.

  (* ---- the computable check ---- *)
  Definition feasible (c : callc) : list outcome :=
    match contract_of (c_callee c) with
    | Some k => filter (satisfiesb c) (allowed k)
    | None => []
    end.
  Definition call_known (c : callc) : bool :=
    match contract_of (c_callee c) with Some _ => true | None => false end.
  Definition find_call (id : nat) (cs : list callc) : option callc := find (fun c => Nat.eqb (c_id c) id) cs.

  Definition sden_o (cs : list callc) (a : oatom) : list ocls :=
    match a with
    | OaNil => [ONil] | OaNonNil => [ONonNil]
    | OaCall id => match find_call id cs with Some c => map fst (feasible c) | None => [ONil; ONonNil] end
    | OaTop => [ONil; ONonNil]
    end.
  Definition all_ecls := [ENil; ENfe; EErrsNF; EFatal].
  Definition sden_e (cs : list callc) (a : eatom) : list ecls :=
    match a with
    | EaNil => [ENil] | EaFatalCtor => [EFatal] | EaNfe => [ENfe]
    | EaErrs SFatal => [EFatal] | EaErrs SNotFatal => [EErrsNF] | EaErrs SUnknown => [EErrsNF; EFatal]
    | EaCall id => match find_call id cs with Some c => map snd (feasible c) | None => all_ecls end
    | EaNfeElem => A
    | EaTop => all_ecls
    end.

  Definition nonempty {T} (l : list T) : bool := match l with [] => false | _ => true end.

  Definition shape_ok (r : ret) : bool :=
    match K (r_fn r) with
    | None => false
    | Some k =>
      match r_tail r with
      | Some g => match contract_of g with
                  | Some kg => forallb (fun oc => mem outcome_eqb oc (allowed k)) (allowed kg)
                  | None => false
                  end
      | None =>
        forallb call_known (r_calls r) && nonempty (r_obj r) && nonempty (r_err r) &&
        (existsb (fun c => c_must c && negb (nonempty (feasible c))) (r_calls r)      (* unreachable return *)
         || forallb (fun o => forallb (fun e => mem outcome_eqb (o, e) (allowed k))
                                      (flat_map (sden_e (r_calls r)) (r_err r)))
                    (flat_map (sden_o (r_calls r)) (r_obj r)))
      end
    end.

  Definition holds (f : string) (oc : outcome) : Prop := exists k, K f = Some k /\ In oc (allowed k).

  Lemma find_call_some id cs c : find_call id cs = Some c -> In c cs /\ c_id c = id.
  Proof.
    unfold find_call. intro H. apply find_some in H. destruct H as [H1 H2].
    split; [exact H1 | apply Nat.eqb_eq; exact H2].
  Qed.

  Lemma satisfiesb_iff c oc : satisfiesb c oc = true <-> satisfies c oc.
  Proof.
    unfold satisfiesb, satisfies. rewrite andb_true_iff.
    rewrite (mem_In kind_eqb kind_eqb_eq), (mem_In ocls_eqb ocls_eqb_eq). tauto.
  Qed.

  (* the generic lemma, proved once *)
  Theorem shape_sound :
    forallb shape_ok R = true ->
    forall d f oc, exec d f oc -> holds f oc.
  Proof.
    intros HR. rewrite forallb_forall in HR.
    induction d as [|d IH]; intros f oc Hex; [destruct Hex|].
    simpl in Hex. destruct Hex as [r [Hin [Hfn Hbody]]].
    specialize (HR r Hin). unfold shape_ok in HR. rewrite Hfn in HR.
    destruct (K f) as [k|] eqn:EK; [|discriminate].
    assert (Hsem : forall g oc', match X g with Some k' => In oc' (allowed k') | None => exec d g oc' end ->
                                 exists kg, contract_of g = Some kg /\ In oc' (allowed kg)).
    { intros g oc' H. unfold contract_of. destruct (X g) as [kx|] eqn:EX.
      - exists kx. split; [reflexivity | exact H].
      - apply IH in H. destruct H as [kg [H1 H2]]. exists kg. split; assumption. }
    unfold holds. exists k. split; [exact EK|].
    destruct (r_tail r) as [g|].
    - apply Hsem in Hbody. destruct Hbody as [kg [Hc Hoc]]. rewrite Hc in HR.
      rewrite forallb_forall in HR. specialize (HR oc Hoc).
      apply (mem_In outcome_eqb outcome_eqb_eq) in HR. exact HR.
    - destruct Hbody as [env [Hcalls [[a [Ha Hoa]] [b [Hb Heb]]]]].
      repeat rewrite andb_true_iff in HR. destruct HR as [[[Hknown _] _] HR].
      (* every constrained call has a feasible outcome, namely the one the execution took *)
      assert (Hfeas : forall c oc', In c (r_calls r) -> env (c_id c) = Some oc' -> In oc' (feasible c)).
      { intros c oc' Hc He. destruct (Hcalls c Hc) as [_ Hc2]. destruct (Hc2 oc' He) as [Hs Hsat]. apply Hsem in Hs.
        destruct Hs as [kg [Hk Hal]]. unfold feasible. rewrite Hk.
        apply filter_In. split; [exact Hal | apply satisfiesb_iff; exact Hsat]. }
      apply orb_true_iff in HR. destruct HR as [Hdead | HR].
      { apply existsb_exists in Hdead. destruct Hdead as [c [Hc Hne]].
        apply andb_true_iff in Hne. destruct Hne as [Hm Hne].
        destruct (Hcalls c Hc) as [Hmust _]. specialize (Hmust Hm).
        destruct (env (c_id c)) as [oc'|] eqn:Ee; [|congruence].
        specialize (Hfeas c oc' Hc Ee). destruct (feasible c); [destruct Hfeas | discriminate]. }
      rewrite forallb_forall in HR.
      assert (Ho : In (fst oc) (flat_map (sden_o (r_calls r)) (r_obj r))).
      { apply in_flat_map. exists a. split; [exact Ha|].
        destruct a; simpl in *; try (left; congruence).
        - destruct (find_call id (r_calls r)) as [c|] eqn:EF.
          + apply find_call_some in EF. destruct EF as [Hc Hid].
            destruct Hoa as [oc' [He' ->]]. apply in_map. apply Hfeas; [exact Hc | rewrite Hid; exact He'].
          + destruct (fst oc); simpl; auto.
        - destruct (fst oc); simpl; auto. }
      assert (He : In (snd oc) (flat_map (sden_e (r_calls r)) (r_err r))).
      { apply in_flat_map. exists b. split; [exact Hb|].
        destruct b; simpl in *; try (left; congruence).
        - destruct st; simpl in *; [left; congruence | left; congruence | destruct Heb; [left | right; left]; congruence].
        - destruct (find_call id (r_calls r)) as [c|] eqn:EF.
          + apply find_call_some in EF. destruct EF as [Hc Hid].
            destruct Heb as [oc' [He' ->]]. apply in_map. apply Hfeas; [exact Hc | rewrite Hid; exact He'].
          + unfold all_ecls. destruct (snd oc); simpl; auto.
        - exact Heb.
        - unfold all_ecls. destruct (snd oc); simpl; auto 6. }
      specialize (HR _ Ho). rewrite forallb_forall in HR. specialize (HR _ He).
      apply (mem_In outcome_eqb outcome_eqb_eq) in HR. destruct oc; exact HR.
  Qed.

  Lemma allowed_coherent k oc : coherent_contract k = true -> In oc (allowed k) -> coherent oc.
  Proof.
    unfold coherent. destruct k; simpl; intros Hk H; try discriminate;
      repeat (destruct H as [H|H]; [subst oc; simpl; auto|]); destruct H.
  Qed.

  Corollary shape_coherent :
    forallb shape_ok R = true ->
    forall d f k oc, K f = Some k -> coherent_contract k = true -> exec d f oc -> coherent oc.
  Proof.
    intros HR d f k oc HK Hk Hex. apply (shape_sound HR) in Hex.
    destruct Hex as [k' [HK' Hin]]. rewrite HK in HK'. inversion HK'; subst k'.
    eapply allowed_coherent; eauto.
  Qed.
End Shape.

(* ---- side tables emitted with the returns ---- *)

(* an argument of some nfe.AddError(arg) in the analysed functions *)
Record added := mkAdded { a_fn : string; a_pos : string; a_err : list eatom; a_calls : list callc }.
(* the classes an element of a NonFatalErrors list can have: computed from the AddError
   arguments WITHOUT assuming anything about list elements (A := all classes while computing) *)
Definition added_classes (K X : string -> option contract) (l : list added) : list ecls :=
  flat_map (fun a => flat_map (sden_e K X all_ecls (a_calls a)) (a_err a)) l.
Definition nodup_ecls (l : list ecls) : list ecls :=
  filter (fun e => mem ecls_eqb e l) all_ecls.

(* a switch over a value whose range is known: every value the range function can return,
   other than the ones excluded by a guard at the call site, has an arm *)
Record cover := mkCover { cv_variant : string; cv_arms : list string; cv_range : list string; cv_excluded : list string }.
Definition cover_ok (c : cover) : bool :=
  forallb (fun v => mem String.eqb v (cv_excluded c) || mem String.eqb v (cv_arms c)) (cv_range c)
  && nonempty (cv_range c).

Definition lookup (tbl : list (string * contract)) (f : string) : option contract :=
  match find (fun p => String.eqb (fst p) f) tbl with Some p => Some (snd p) | None => None end.
