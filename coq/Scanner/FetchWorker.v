(* C16: one worker on one range, whatever the short-read / error pattern. *)
From Coq Require Import ZArith Bool List Lia.
From V Require Import Base.GoInt Scanner.FetchLib Scanner.FetchModel.
Import ListNotations.
Open Scope Z_scope.

Section Worker.
Context {entry : Type}.
Notation resp := (resp entry).

(* every successful answer carries between one entry and the number asked for *)
Fixpoint answers_sized (a b : Z) (rs : list resp) : Prop :=
  match rs with
  | [] => True
  | r :: rs' =>
      if a <=? b then
        match r with
        | RErr => answers_sized a b rs'
        | ROk es => 1 <= Z.of_nat (length es) <= b - a + 1 /\ answers_sized (a + Z.of_nat (length es)) b rs'
        end
      else True
  end.

(* ... and is what the log [lg] holds at the requested indices *)
Fixpoint answers_honest (lg : Z -> entry) (a b : Z) (rs : list resp) : Prop :=
  match rs with
  | [] => True
  | r :: rs' =>
      if a <=? b then
        match r with
        | RErr => answers_honest lg a b rs'
        | ROk es => es = map lg (zseq a (length es)) /\ answers_honest lg (a + Z.of_nat (length es)) b rs'
        end
      else True
  end.

(* the entries of the successful answers the loop consumed, in order *)
Fixpoint consumed (a b : Z) (rs : list resp) : list entry :=
  match rs with
  | [] => []
  | r :: rs' =>
      if a <=? b then
        match r with
        | RErr => consumed a b rs'
        | ROk es => es ++ consumed (a + Z.of_nat (length es)) b rs'
        end
      else []
  end.

Lemma worker_loop_general : forall rs a b,
  a <= b + 1 -> answers_sized a b rs ->
  let a' := fst (worker_loop a b rs) in
  let out := snd (worker_loop a b rs) in
  a <= a' <= b + 1
  /\ flatten out = indexed a (consumed a b rs)
  /\ Z.of_nat (length (consumed a b rs)) = a' - a.
Proof.
  induction rs as [|r rs IH]; intros a b Hab Hs; cbn zeta.
  - cbn. repeat split; lia.
  - cbn [worker_loop consumed answers_sized] in *.
    destruct (Z.leb_spec a b) as [Hle|Hgt].
    + destruct r as [|es].
      * apply IH; assumption.
      * destruct Hs as [Hk Hs].
        specialize (IH (a + Z.of_nat (length es)) b ltac:(lia) Hs). cbn zeta in IH.
        destruct (worker_loop (a + Z.of_nat (length es)) b rs) as [a' out] eqn:E. cbn [fst snd] in *.
        destruct IH as (Hr & Hf & Hl). repeat split; try lia.
        -- unfold flatten in *. cbn [flat_map fst snd]. rewrite Hf. now rewrite indexed_app.
        -- rewrite app_length. lia.
    + cbn. repeat split; lia.
Qed.

Lemma consumed_honest lg : forall rs a b,
  answers_honest lg a b rs -> consumed a b rs = map lg (zseq a (length (consumed a b rs))).
Proof.
  induction rs as [|r rs IH]; intros a b H; cbn [consumed answers_honest] in *.
  - reflexivity.
  - destruct (a <=? b); [|reflexivity]. destruct r as [|es].
    + apply IH, H.
    + destruct H as [He H]. rewrite app_length, zseq_app, map_app.
      rewrite <- (IH _ _ H). rewrite <- He. reflexivity.
Qed.

(* a worker that finishes [a, b] has delivered a, a+1, ..., b once each, in order, each with
   the entry the log returned for that index *)
Theorem worker_delivers_range_lemma (lg : Z -> entry) rs a b :
  a <= b + 1 -> answers_sized a b rs -> answers_honest lg a b rs ->
  fst (worker_loop a b rs) > b ->
  flatten (snd (worker_loop a b rs)) = map (fun i => (i, lg i)) (zrange a (b + 1)).
Proof.
  intros Hab Hs Hh Hdone.
  destruct (worker_loop_general rs a b Hab Hs) as (Hr & Hf & Hl).
  rewrite Hf, (consumed_honest lg _ _ _ Hh), indexed_map. f_equal.
  unfold zrange. f_equal. lia.
Qed.

(* the same without assuming anything about the bytes: indices exactly once and in order,
   entries exactly those of the answers, in the order returned *)
Theorem worker_indices_lemma rs a b :
  a <= b + 1 -> answers_sized a b rs -> fst (worker_loop a b rs) > b ->
  map fst (flatten (snd (worker_loop a b rs))) = zrange a (b + 1)
  /\ map snd (flatten (snd (worker_loop a b rs))) = consumed a b rs.
Proof.
  intros Hab Hs Hdone.
  destruct (worker_loop_general rs a b Hab Hs) as (Hr & Hf & Hl).
  rewrite Hf, indexed_fst, indexed_snd. split; [|reflexivity].
  unfold zrange. f_equal. lia.
Qed.

(* errors only repeat the same request: dropping them changes nothing *)
Lemma worker_loop_errors_irrelevant : forall (rs : list resp) a b,
  worker_loop a b rs = worker_loop a b (filter (fun r => match r with RErr => false | ROk _ => true end) rs).
Proof.
  induction rs as [|r rs IH]; intros a b; [reflexivity|].
  destruct r as [|es]; cbn [filter worker_loop].
  - destruct (a <=? b) eqn:E; [apply IH|].
    destruct (filter _ rs) as [|r' rs']; cbn [worker_loop]; [reflexivity | now rewrite E].
  - destruct (a <=? b); [|reflexivity]. now rewrite IH.
Qed.

End Worker.
