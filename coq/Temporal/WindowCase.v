(* Correspondence cases for C18: observed behaviour of the three real components. *)
From Coq Require Import ZArith Bool List.
From V Require Import Base.GoInt Base.CaseLib gen.Windows Temporal.WindowModel.
Import ListNotations.
Open Scope Z_scope.

Inductive case :=
| CPoint (t : Z) (iv : interval) (ctfe_ok : bool) (client_ok : option bool)
| CLogList (t s e : Z) (kept : bool)
| CShards (shards : list interval) (ts : list Z) (obs : option (list (option nat))).

Definition model_client_point (t : Z) (iv : interval) : option bool :=
  match new_temporal [iv] with
  | None => None
  | Some ivs => Some (match index_by_date t ivs with Some _ => true | None => false end)
  end.

Definition check (c : case) : bool :=
  match c with
  | CPoint t iv a b => Bool.eqb (ctfe_admits t iv) a && opt_eqb Bool.eqb (model_client_point t iv) b
  | CLogList t s e k => Bool.eqb (loglist_keep t s e) k
  | CShards sh ts obs => opt_eqb (list_eqb (opt_eqb Nat.eqb)) (run_shards sh ts) obs
  end.

Definition explain (c : case) :=
  match c with
  | CPoint t iv _ _ => (Some (ctfe_admits t iv, model_client_point t iv), None, None)
  | CLogList t s e _ => (None, Some (loglist_keep t s e), None)
  | CShards sh ts _ => (None, None, Some (run_shards sh ts))
  end.
