(* C01 - an issued SCT binds exactly the submitted entry, the stored leaf and the log key.
   Property theorems only.

   Model: CTFE/AddChainModel.v (addChainInternal's success path, byte for byte, over a
   de-duplicating backend; SHA-256 [H] and the log's signer [sign] are oracles - only
   "what was signed verifies" is assumed).  [run H sign g cfg subs] is the fold of the handler
   over a HISTORY of submissions (each with its own, arbitrary, clock reading);
   [at_pos H sign g cfg before s after o] says: in the history before ++ s :: after the request
   [s] was answered [o].  Every theorem is for ALL histories, all clock values, all chains, all
   log keys; there are no size hypotheses (whatever is issued was in the RFC's ranges).
   [client_entry H s e] (CTFE/AddChainSpec.v) is the RFC 6962 entry an independent client
   derives from the submission: written from the RFC, not from the handler.
   [current_guard] = this tree; [guard_same_entry] = with pending_fixes/C01-1.diff.

   non200_issues_no_sct is C08's theorem sct_only_on_success (Props/C08.v); in this model an
   outcome other than [Issued] carries no SCT by construction. *)
From Coq Require Import String NArith ZArith List.
From V Require Import Base.Bytes TLS.TlsModel CT.Rfc6962Spec CT.CtFuncs X509.PrecertModel
  CTFE.AddChainModel CTFE.AddChainSpec CTFE.AddChainFinding CTFE.AddChainTheorems.
From V Require Import Base.GoInt gen.AddChain CTFE.AddChainGenTie.
Import ListNotations.
Local Open Scope N_scope.

(* the id is the SHA-256 of the log key's SubjectPublicKeyInfo *)
Theorem sct_id_is_key_hash : forall H sign cfg before s after r,
  at_pos H sign current_guard cfg before s after (Issued r) -> i_id r = H (k_spki cfg).
Proof. exact T_id. Qed.
Print Assumptions sct_id_is_key_hash.

(* the signature verifies under the log key over the RFC 6962 signature input of the entry an
   independent client derives from the submitted chain, at the SCT's timestamp - provided no
   certificate of the history so far was submitted under two different issuer chains (see the
   _refuted / _patched companions) *)
Theorem sct_signs_independent_entry : forall H sign (verify : bytes -> bytes -> bytes -> bool) cfg,
  (forall n d sg, sign n d = Some sg -> verify (k_spki cfg) d sg = true) ->
  forall before s after r e,
  issuance_consistent H (before ++ [s]) ->
  at_pos H sign current_guard cfg before s after (Issued r) -> client_entry H s e ->
  entry_ok e /\ i_ext r = [] /\ i_signed r = enc_sct_siginput (i_ts r) e (i_ext r) /\
  verify (k_spki cfg) (enc_sct_siginput (i_ts r) e (i_ext r)) (i_sig r) = true.
Proof. exact T_signed. Qed.
Print Assumptions sct_signs_independent_entry.

(* without that proviso the clause is FALSE for this tree (guard_none is what current_guard
   unfolds to; the statement names it so that it survives the switch to the patched model): a precertificate whose signing
   certificate is certified by two CAs, submitted under one and then under the other, gets an
   SCT over the first submission's entry (explicit two-request history) *)
Theorem sct_signs_independent_entry_refuted :
  exists (H : bytes -> bytes) sign cfg before s after r e,
    (forall b, length (H b) = 32%nat) /\
    at_pos H sign guard_none cfg before s after (Issued r) /\
    client_entry H s e /\ i_dup r = true /\
    i_signed r <> enc_sct_siginput (i_ts r) e (i_ext r).
Proof. exact T_refuted. Qed.
Print Assumptions sct_signs_independent_entry_refuted.

(* with the returned-leaf check of pending_fixes/C01-1.diff the clause holds unconditionally *)
Theorem sct_signs_independent_entry_patched : forall H sign (verify : bytes -> bytes -> bytes -> bool) cfg,
  (forall n d sg, sign n d = Some sg -> verify (k_spki cfg) d sg = true) ->
  forall before s after r e,
  at_pos H sign guard_same_entry cfg before s after (Issued r) -> client_entry H s e ->
  entry_ok e /\ i_ext r = [] /\ i_signed r = enc_sct_siginput (i_ts r) e (i_ext r) /\
  verify (k_spki cfg) (enc_sct_siginput (i_ts r) e (i_ext r)) (i_sig r) = true.
Proof. exact T_patched. Qed.
Print Assumptions sct_signs_independent_entry_patched.

(* for a precertificate that entry is the FINAL certificate's TBSCertificate without its SCT
   list (C03), also when a dedicated precertificate signing certificate was used *)
Theorem precert_entry_is_final_certificate_without_scts : forall H s e, client_entry H s e ->
  match e with
  | X509E c => c = s_leaf s
  | PrecertE _ t => exists final, remove_sct_list (enc_tbs final) = Ok t
  end.
Proof. exact T_final. Qed.
Print Assumptions precert_entry_is_final_certificate_without_scts.

(* the leaf handed to the backend is the TLS encoding of that same entry at the request's own
   timestamp (so its Merkle leaf hash preimage is the RFC's) *)
Theorem queued_leaf_is_that_entry : forall H sign cfg before s after r e,
  at_pos H sign current_guard cfg before s after (Issued r) -> client_entry H s e ->
  entry_ok e /\ l_value (i_queued r) = enc_leaf (time_millis (s_now s)) e [] /\
  Byte.x00 :: l_value (i_queued r) = leaf_hash_preimage (time_millis (s_now s)) e [].
Proof. exact T_queued. Qed.
Print Assumptions queued_leaf_is_that_entry.

(* it is identified for de-duplication by the SHA-256 of the submitted leaf certificate *)
Theorem identity_hash_is_leaf_cert : forall H sign cfg before s after r,
  at_pos H sign current_guard cfg before s after (Issued r) -> l_id (i_queued r) = H (s_leaf s).
Proof. exact T_identity. Qed.
Print Assumptions identity_hash_is_leaf_cert.

(* and carries the validated chain, root included, as extra data (RFC 6962 s4.6 layout) *)
Theorem extra_data_is_validated_chain_with_root : forall H sign cfg before s after r,
  at_pos H sign current_guard cfg before s after (Issued r) ->
  l_extra (i_queued r) = enc_extra_data (s_pre s) (s_leaf s) (map c_der (s_rest s)) /\
  chain_in_range (map c_der (s_rest s)).
Proof. exact T_extra. Qed.
Print Assumptions extra_data_is_validated_chain_with_root.

(* and reads back as the submission: the library's entry decoder (ct.RawLogEntryFromLeaf, what
   get-entries clients run) returns the submitted leaf certificate and the validated chain *)
Theorem stored_leaf_decodes_to_submitted_chain : forall H sign cfg before s after r,
  at_pos H sign current_guard cfg before s after (Issued r) ->
  exists leaf_value,
    raw_log_entry_from_leaf (l_value (i_queued r)) (l_extra (i_queued r)) =
      Ok (leaf_value, asn1cert (s_leaf s), VList (map asn1cert (map c_der (s_rest s)))).
Proof. exact T_decode. Qed.
Print Assumptions stored_leaf_decodes_to_submitted_chain.

(* a repeated submission of a stored certificate gets the stored leaf: the same timestamp and the
   same signed bytes, whatever the clock says now - the FIRST submission's clock reading *)
Theorem duplicate_repeats_stored_timestamp : forall H sign cfg before s1 mid s2 after r1 r2,
  let subs := before ++ s1 :: mid ++ s2 :: after in
  nth_error (snd (run H sign current_guard cfg subs)) (length before) = Some (s1, Issued r1) ->
  nth_error (snd (run H sign current_guard cfg subs)) (length before + 1 + length mid) = Some (s2, Issued r2) ->
  H (s_leaf s1) = H (s_leaf s2) ->
  i_dup r2 = true /\ i_returned r2 = i_returned r1 /\ i_ts r2 = i_ts r1 /\ i_ext r2 = i_ext r1 /\ i_signed r2 = i_signed r1 /\
  (i_dup r1 = false -> i_ts r2 = time_millis (s_now s1)).
Proof. exact T_duplicate. Qed.
Print Assumptions duplicate_repeats_stored_timestamp.

(* a first submission is stamped with the clock: now_ns / 10^6 exactly *)
Theorem fresh_submission_uses_clock : forall H sign cfg before s after r,
  at_pos H sign current_guard cfg before s after (Issued r) ->
  (forall s', In s' before -> H (s_leaf s') <> H (s_leaf s)) ->
  i_dup r = false /\ i_returned r = i_queued r /\ i_ts r = time_millis (s_now s) /\
  ((0 <= s_now s < 9223372036854775808)%Z -> Z.of_N (i_ts r) = clock_ms (s_now s)).
Proof. exact T_fresh. Qed.
Print Assumptions fresh_submission_uses_clock.

(* what RequestLog.IssueSCT records is the RFC 6962 s3.2 encoding of that SCT *)
Theorem issued_sct_bytes_are_rfc : forall H sign cfg before s after r,
  at_pos H sign current_guard cfg before s after (Issued r) ->
  i_sct_bytes r = enc_sct (H (k_spki cfg)) (i_ts r) (i_ext r) hash_alg_sha256 (sig_alg_of (k_kind cfg)) (i_sig r) /\
  len (i_sig r) <= 65535.
Proof. exact T_sct_bytes. Qed.
Print Assumptions issued_sct_bytes_are_rfc.

(* no request of any history panics (the leaf a de-duplicating backend returns always decodes) *)
Theorem history_never_panics : forall H sign cfg subs s o,
  In (s, o) (snd (run H sign current_guard cfg subs)) -> o <> OPanic.
Proof. exact T_no_panic. Qed.
Print Assumptions history_never_panics.

(* non-vacuity: a precertificate signed by a pre-issuer, submitted twice with different clocks
   (1.000000 ms and 7999.999999 ms): both answered, the second with the first's timestamp; the
   hypotheses of sct_signs_independent_entry hold for this history *)
Example history_example :
  (exists r1 r2,
    snd (run toyH w_sign current_guard w_cfg [sub_a; sub_a_again]) = [(sub_a, Issued r1); (sub_a_again, Issued r2)] /\
    i_dup r1 = false /\ i_ts r1 = 1 /\ i_dup r2 = true /\ i_ts r2 = 1 /\
    i_signed r2 = enc_sct_siginput 1 w_entry_a [])
  /\ issuance_consistent toyH ([sub_a] ++ [sub_a_again])
  /\ client_entry toyH sub_a w_entry_a /\ client_entry toyH sub_a_again w_entry_a.
Proof. exact (conj w_history (conj w_consistent w_client_a)). Qed.

(* the timestamp of an add-chain / add-pre-chain request as handlers.go computes it today (translated on every
   run: uint64(UnixNano / millisPerNano) with the constant of structures.go) is the model's time_millis, for
   every int64 clock reading - negative ones included (truncation towards zero, then reduction mod 2^64) *)
Theorem time_millis_as_in_source : forall now,
  (min_i64 <= now <= max_i64)%Z -> time_millis_gen now = Z.of_N (time_millis now).
Proof. exact time_millis_meaning. Qed.
Print Assumptions time_millis_as_in_source.
