"""Per-property configuration for bin/check: one JSON file per property under /verif/props/."""
import json, os, glob

VERIF = os.path.dirname(os.path.dirname(os.path.abspath(__file__)))

COMMON_TRUSTED = [
    "Coq 8.16.1 kernel (coqc; vm_compute used for case evaluation and finite sweeps; no native_compute)",
    "translators under harness/gen (gofrag: go/ast -> Gallina for the slices named in gen/targets/*.json)",
    "Go correspondence harness and its generators (harness/cmd/*), Go toolchain, reflect",
    "no extraction: cases are evaluated inside Coq by vm_compute",
]

NOT_APPLICABLE = {}

PROPS = {}
for f in sorted(glob.glob(os.path.join(VERIF, "props", "C*.json"))):
    PROPS[os.path.basename(f)[:-5]] = json.load(open(f))
