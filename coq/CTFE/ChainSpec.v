(* C02 - the property's sentence, written independently of the algorithm (definitions only).

   "A submitted chain is admitted iff every certificate parses, each certificate names and is
    validly signed by the next one (which must be a CA), the last one is a trusted root or
    directly issued by one, every submitted certificate is used in the order given, and the
    leaf satisfies the log's configured filters."

   Reading fixed here (and nowhere else):
   * the witness is a certification path P = raw or raw ++ [r]: the submitted certificates, in
     the order given, followed by at most one more certificate;
   * the final certificate of P is in the trusted pool.  It is a trust anchor: it is not asked
     to carry the CA bit (X.509v1 roots); every certificate strictly between the leaf and the
     final one must (BasicConstraintsValid and IsCA);
   * "names and is validly signed by": issuer name = subject name of the next certificate and the
     signature oracle (CheckSignatureFrom) accepts the next certificate as signer;
   * a certification path does not contain a certificate twice (RFC 5280, 6.1). *)
From Coq Require Import ZArith NArith Bool List.
From V Require Import Base.GoInt gen.Windows Temporal.WindowModel CTFE.ChainModel.
Import ListNotations.
Open Scope bool_scope.

Definition is_ca_cert (c : cert) : bool := c_bc_valid c && c_is_ca c.

Definition issued_by (child parent : cert) : Prop :=
  c_issuer child = c_subject parent /\ signed_by child parent = true.

Fixpoint linked (p : chain) : Prop :=
  match p with
  | a :: t => match t with b :: _ => issued_by a b /\ linked t | [] => True end
  | [] => True
  end.

Fixpoint last_opt {A} (l : list A) : option A :=
  match l with
  | [] => None
  | x :: t => match t with [] => Some x | _ => last_opt t end
  end.

Definition middle (p : chain) : chain := removelast (tl p).     (* all but the first and the last *)
Definition trusted (o : options) (c : cert) : Prop := In c (o_roots o).
Definition NoDupIds (p : chain) : Prop := NoDup (map c_id p).

Definition certifies (o : options) (raw P : chain) : Prop :=
  raw <> []
  /\ (P = raw \/ exists r, P = raw ++ [r])
  /\ linked P
  /\ (forall c, In c (middle P) -> is_ca_cert c = true)
  /\ (exists r, last_opt P = Some r /\ trusted o r)
  /\ NoDupIds P.

(* the leaf filters, as the sentence lists them; "expired" = NotAfter strictly before now *)
Definition filters_pass (o : options) (c : cert) : Prop :=
  inside (c_not_after c) (o_na_start o, o_na_limit o)
  /\ (o_only_ca o = true -> c_is_ca c = true)
  /\ (o_reject_expired o = true -> (o_now o <= c_not_after c)%Z)
  /\ (o_reject_unexpired o = true -> (c_not_after c < o_now o)%Z)
  /\ (forall e, In e (c_exts c) -> ~ In (e_id e) (o_reject_ext o))
  /\ (o_ekus o <> [] -> exists k, In k (c_ekus c) /\ In k (o_ekus o)).

Definition leaf_ok (o : options) (raw : chain) : Prop :=
  exists c0 rest, raw = c0 :: rest /\ filters_pass o c0.

Definition admissible_by (o : options) (raw P : chain) : Prop := leaf_ok o raw /\ certifies o raw P.
Definition admissible (o : options) (raw : chain) : Prop := exists P, admissible_by o raw P.

(* the validated path handed on *)
Definition path_shape (o : options) (raw path : chain) : Prop :=
  exists extra, path = raw ++ extra /\ (length extra <= 1)%nat
             /\ exists r, last_opt path = Some r /\ trusted o r.

(* The id stands for the DER bytes, every other field is a function of them. *)
Definition wf_ids (o : options) (raw : chain) : Prop :=
  forall a b, In a (raw ++ o_roots o) -> In b (raw ++ o_roots o) -> c_id a = c_id b -> a = b.

(* ---------------------------------------------------------------- hypotheses of completeness *)

(* H_keyid.  [parent] is found among the potential parents of [child] in [pool] even though the
   lookup prefers key ids: if child's authority key id is some pool member's subject key id,
   it is parent's. *)
Definition visible (pl : pool) (child parent : cert) : Prop :=
  forall k, c_aki child = Some k -> (exists p, In p pl /\ c_ski p = Some k) -> c_ski parent = Some k.

Fixpoint keyid_ok (rp ints : pool) (c : cert) (suf : chain) : Prop :=
  match suf with
  | [] => True
  | x :: t => match t with
              | [] => visible rp c x                         (* the final certificate: looked up in the roots *)
              | _ => visible ints c x /\ keyid_ok rp ints x t
              end
  end.
Definition H_keyid (o : options) (raw P : chain) : Prop :=
  match P with
  | [] => True
  | c0 :: suf => keyid_ok (pool_of (o_roots o)) (pool_of (tl raw)) c0 suf
  end.

(* H_budget.  The CheckSignatureFrom calls made on the way down P - which is the FIRST descent
   of the search, because candidates are tried in submission order - up to and including the
   one that accepts P's final certificate, number at most maxChainSignatureChecks. *)
Fixpoint upto (x : cert) (l : list cert) : list cert :=
  match l with
  | [] => []
  | y :: t => if same x y then [] else y :: upto x t
  end.
Definition cnt (cur : chain) (l : list cert) : nat :=
  length (filter (fun y => negb (in_chain y cur)) l).
Fixpoint descent_cost (rp : pool) (cur : chain) (c : cert) (suf : chain) : nat :=
  match suf with
  | [] => 0
  | x :: t => match t with
              | [] => cnt cur (upto x (find_potential_parents rp c)) + 1
              | _ => cnt cur (find_potential_parents rp c) + 1 + descent_cost rp (cur ++ [x]) x t
              end
  end.
Definition H_budget (o : options) (raw P : chain) : Prop :=
  match P with
  | [] => True
  | c0 :: suf => (descent_cost (pool_of (o_roots o)) [c0] c0 suf <= max_chain_signature_checks)%nat
  end.

(* H_leafroot.  Verify answers [[leaf]] at once when the leaf itself is in the trusted pool, so
   nothing may follow such a leaf. *)
Definition H_leafroot (o : options) (raw : chain) : Prop :=
  forall c0 rest, raw = c0 :: rest -> pool_contains (pool_of (o_roots o)) c0 = true -> rest = [].

(* ---------------------------------------------------------------- precertificates *)

(* the four classes of the (first) CT poison extension of a certificate *)
Inductive pclass := PAbsent | PCriticalNull | PNonCritical | PCriticalNonNull.
Definition poison_class (c : cert) : pclass :=
  match find is_poison (c_exts c) with
  | None => PAbsent
  | Some e => if e_critical e then (if e_null e then PCriticalNull else PCriticalNonNull) else PNonCritical
  end.
Definition malformed_poison (c : cert) : Prop :=
  poison_class c = PNonCritical \/ poison_class c = PCriticalNonNull.
