(* C14: byte-level forms of the four extra-data layouts and their pairwise disjointness
   (arithmetic on 2- vs 3-byte length prefixes, for unbounded sizes). *)
From Coq Require Import String NArith ZArith Bool Lia PeanoNat List ZifyN ZifyNat.
From V Require Import Base.Bytes TLS.TlsModel TLS.TlsLemmas TLS.TlsRoundTripA TLS.TlsRoundTripB gen.CtTypes CT.CtFuncs
  CT.Rfc6962Proofs X509.Der X509.PrecertModel CTFE.ChainStoreModel.
Import ListNotations.
Local Open Scope N_scope.

Ltac Zify.zify_post_hook ::= Z.div_mod_to_equations.

Definition u16 (n : N) := be_enc 2 n.
Definition u24 (n : N) := be_enc 3 n.

(* explicit byte forms *)
Definition form_pceh (bs : bytes) : Prop :=
  exists cert h, 1 <= len cert <= 16777215 /\ len h <= 256 /\ bs = u24 (len cert) ++ cert ++ u16 (len h) ++ h.
Definition form_cch (bs : bytes) : Prop :=
  exists h, len h <= 256 /\ bs = u16 (len h) ++ h.
Definition form_pce (bs : bytes) : Prop :=
  exists cert body, 1 <= len cert <= 16777215 /\ len body <= 16777215 /\ bs = u24 (len cert) ++ cert ++ u24 (len body) ++ body.
Definition form_cc (bs : bytes) : Prop :=
  exists body, len body <= 16777215 /\ bs = u24 (len body) ++ body.

(* ---- prefix arithmetic ---- *)
Lemma be_enc3_split L : L < 16777216 ->
  be_enc 3 L = n2b (L / 65536) :: n2b ((L mod 65536) / 256) :: n2b (L mod 256) :: [].
Proof.
  intros HL. unfold be_enc. change (256 ^ N.of_nat 2) with 65536. change (256 ^ N.of_nat 1) with 256. change (256 ^ N.of_nat 0) with 1.
  rewrite N.div_1_r. f_equal. f_equal. f_equal. f_equal.
  replace ((L mod 65536) mod 256) with (L mod 256); [reflexivity|].
  change 65536 with (256 * 256). rewrite N.mod_mul_r by lia. rewrite N.mul_comm, N.mod_add by lia. rewrite N.mod_mod by lia. reflexivity.
Qed.

Lemma n2b_inj a b : a < 256 -> b < 256 -> n2b a = n2b b -> a = b.
Proof. intros Ha Hb H. rewrite <- (b2n_n2b a Ha), <- (b2n_n2b b Hb), H. reflexivity. Qed.

(* a 3-byte prefix read as a 2-byte prefix yields the value shifted by 8 bits *)
Lemma prefix3_as_prefix2 L h x y :
  L < 16777216 -> h < 65536 -> u24 L ++ x = u16 h ++ y -> h = L / 256.
Proof.
  intros HL Hh H. unfold u24, u16 in H. rewrite (be_enc3_split L HL) in H.
  unfold be_enc in H. cbn [app] in H. change (256 ^ N.of_nat 1) with 256 in H. change (256 ^ N.of_nat 0) with 1 in H.
  rewrite N.div_1_r in H.
  inversion H as [[H1 H2 H3]].
  apply n2b_inj in H1; [|apply N.div_lt_upper_bound; lia|apply N.div_lt_upper_bound; lia].
  apply n2b_inj in H2; [|apply N.div_lt_upper_bound; [lia|]; pose proof (N.mod_lt L 65536); lia | apply N.mod_lt; lia].
  lia.
Qed.

Lemma len_app (a b : bytes) : len (a ++ b) = len a + len b.
Proof. unfold len. rewrite app_length. lia. Qed.
Lemma len_be_enc w n : len (be_enc w n) = N.of_nat w.
Proof. unfold len. rewrite be_enc_length. reflexivity. Qed.

Lemma u24_inj a b x y : a < 16777216 -> b < 16777216 -> u24 a ++ x = u24 b ++ y -> a = b /\ x = y.
Proof. intros. apply (be_enc_len_inj 3 a b x y); auto. Qed.

(* ---- pairwise disjointness (every layout vs every layout tried before it) ---- *)
Lemma cch_not_pceh bs : form_cch bs -> form_pceh bs -> False.
Proof.
  intros (h & Hh & ->) (cert & h' & Hc & Hh' & E).
  assert (Hl := f_equal len E). unfold u16, u24 in Hl. rewrite !len_app, !len_be_enc in Hl.
  symmetry in E. apply prefix3_as_prefix2 in E; [|lia|lia]. cbn in Hl. lia.
Qed.

Lemma pce_not_pceh bs : form_pce bs -> form_pceh bs -> False.
Proof.
  intros (cert & body & Hc & Hb & ->) (cert' & h & Hc' & Hh & E).
  apply u24_inj in E; [|lia|lia]. destruct E as [Ea E].
  apply app_inv_len in E; [|apply Nnat.Nat2N.inj; exact Ea]. destruct E as [_ E].
  assert (Hl := f_equal len E). unfold u16, u24 in Hl. rewrite !len_app, !len_be_enc in Hl.
  apply prefix3_as_prefix2 in E; [|lia|lia]. cbn in Hl. lia.
Qed.

Lemma pce_not_cch bs : form_pce bs -> form_cch bs -> False.
Proof.
  intros (cert & body & Hc & Hb & ->) (h & Hh & E).
  assert (Hl := f_equal len E). unfold u16, u24 in Hl. rewrite !len_app, !len_be_enc in Hl.
  apply prefix3_as_prefix2 in E; [|lia|lia]. cbn in Hl. lia.
Qed.

Lemma cc_not_pceh bs : form_cc bs -> form_pceh bs -> False.
Proof.
  intros (body & Hb & ->) (cert & h & Hc & Hh & E).
  apply u24_inj in E; [|lia|lia]. destruct E as [Ea E].
  assert (Hl := f_equal len E). unfold u16 in Hl. rewrite !len_app, !len_be_enc in Hl. cbn in Hl. lia.
Qed.

Lemma cc_not_cch bs : form_cc bs -> form_cch bs -> False.
Proof.
  intros (body & Hb & ->) (h & Hh & E).
  assert (Hl := f_equal len E). unfold u16, u24 in Hl. rewrite !len_app, !len_be_enc in Hl.
  apply prefix3_as_prefix2 in E; [|lia|lia]. cbn in Hl. lia.
Qed.

Lemma cc_not_pce bs : form_cc bs -> form_pce bs -> False.
Proof.
  intros (body & Hb & ->) (cert & body' & Hc & Hb' & E).
  apply u24_inj in E; [|lia|lia]. destruct E as [Ea E].
  assert (Hl := f_equal len E). unfold u24 in Hl. rewrite !len_app, !len_be_enc in Hl. cbn in Hl. lia.
Qed.
