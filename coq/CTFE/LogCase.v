(* C06 correspondence cases: one case = one HISTORY against a real ctfe.Instance over the harness's
   reference backend, with what the real client stack (client.LogClient, ctutil) observed after
   every operation.  The model is run over the same operations; [check] compares, step by step,
   the projected observables: status; STH size / timestamp / root; served proof hashes; leaf
   index; leaf hashes of served entries; and the VERDICTS of the client-side verifiers (the model's
   recursive [vpath] / [verify_consistency] against transparency-dev/merkle's iterative ones,
   signature checks).  Signature bytes are never compared.

   SHA-256 is the case's table [tbl] of (preimage, digest) pairs recorded by the harness (every
   hash the backend, the front end's identity hash and the client computed); a preimage the
   model asks for that the implementation never hashed maps to [] and shows up as a mismatch. *)
From Coq Require Import ZArith NArith Bool List.
From Coq.Strings Require Import Byte.
From V Require Import Base.GoInt Base.Bytes Base.CaseLib Merkle.Merkle TLS.TlsModel gen.CtTypes CT.Rfc6962Spec CT.CtFuncs
  CTFE.HandlersModel CTFE.LogModel.
Import ListNotations.
Open Scope Z_scope.

Fixpoint lookup_hash (tbl : list (bytes * bytes)) (x : bytes) : bytes :=
  match tbl with
  | [] => []
  | (p, d) :: r => if bytes_eqb p x then d else lookup_hash r x
  end.

(* replay instances of the signer: a "signature" is the message; verification is equality *)
Definition replay_sign (m : bytes) (_ : N) : bytes := x01 :: m.
Definition replay_sig_ok (m s : bytes) : bool := bytes_eqb s (x01 :: m).

Inductive cop :=
| CSubmit (pre : bool) (cert : nat) (chain : list nat) (pe : option (bytes * bytes)) (now_ns : Z)
| CSubmitBad (pre : bool)
| CSeq (k : nat) (ns : Z)
| CGetSTH
| CGetSTHSignFail                                   (* a get-sth that reached the log's signer, which the harness made return an error *)
| CCons (first second : bytes)
| CProof (hash : bytes) (tree_size : bytes)
| CEntries (start end_ : bytes)
| CEap (leaf_index tree_size : bytes)
| CRoots.

Inductive obs :=
| XFail (st : Z)
| XSct (ts : N) (verifies : bool) (leaf_hash_ : bytes)
| XSeq (size : N) (root : bytes)
| XSth (size ts : N) (root : bytes) (verifies : bool)
| XCons (proof : list bytes) (verifies : bool)
| XIncl (idx : N) (path : list bytes) (verifies : bool)
| XEntries (es : list (bytes * bool))             (* leaf hash of each leaf_input; decodes to a submission *)
| XEap (leaf_hash_ : bytes) (decodes : bool) (path : list bytes) (verifies : bool)
| XRoots (n : N).

Inductive case :=
| CHist (tbl : list (bytes * bytes)) (certs : list bytes) (precerts : list nat) (trusted : list nat)
        (maxr : Z) (align : bool)
        (indirect : bool)   (* the instance keeps issuance chains in the external CTFE storage (indirectIssuanceChainService) *)
        (ns0 : Z) (steps : list (cop * obs)).

Definition obs_eqb (a b : obs) : bool :=
  match a, b with
  | XFail s, XFail s' => s =? s'
  | XSct t v h, XSct t' v' h' => (t =? t')%N && Bool.eqb v v' && bytes_eqb h h'
  | XSeq n r, XSeq n' r' => (n =? n')%N && bytes_eqb r r'
  | XSth n t r v, XSth n' t' r' v' => (n =? n')%N && (t =? t')%N && bytes_eqb r r' && Bool.eqb v v'
  | XCons p v, XCons p' v' => list_eqb bytes_eqb p p' && Bool.eqb v v'
  | XIncl i p v, XIncl i' p' v' => (i =? i')%N && list_eqb bytes_eqb p p' && Bool.eqb v v'
  | XEntries es, XEntries es' => list_eqb (pair_eqb bytes_eqb Bool.eqb) es es'
  | XEap h d p v, XEap h' d' p' v' => bytes_eqb h h' && Bool.eqb d d' && list_eqb bytes_eqb p p' && Bool.eqb v v'
  | XRoots n, XRoots n' => (n =? n')%N
  | _, _ => false
  end.

Section Replay.
  Variable tbl : list (bytes * bytes).
  Variable certs : list bytes.
  Variable precerts trusted : list nat.
  Variable maxr : Z.
  Variable align : bool.
  (* external issuance-chain storage: the status decisions take the indirect arms of the C08 model
     (chain stored before the leaf is built, FixLogLeaf on every served leaf) with a store that
     works ([env_ok]: store_ok, every leaf fixable); WHAT is served is the RFC 6962 extra_data
     ([lx]) in both configurations: a store that returns what was stored is not observable. *)
  Variable indirect : bool.

  Definition cert_of (i : nat) : bytes := nth i certs [].
  Definition rH : bytes -> bytes := lookup_hash tbl.
  Definition r_is_precert (c : bytes) : bool := existsb (fun i => bytes_eqb (cert_of i) c) precerts.
  Definition rcfg : config :=
    {| c_mask := false; c_mapper := fun _ => None; c_indirect := indirect; c_sth := SthLog; c_maxr := maxr; c_align := align |}.
  Definition rtrusted : list bytes := map cert_of trusted.

  Definition rstep := step rH replay_sign r_is_precert rcfg rtrusted wiring_ok.

  Definition to_op (c : cop) : op :=
    match c with
    | CSubmit pre cert chain pe now => OSubmit pre (cert_of cert) (map cert_of chain) pe now 0%N
    | CSubmitBad pre => OSubmitBad pre
    | CSeq k ns => OSeq k ns
    | CGetSTH | CGetSTHSignFail => OGetSTH 0%N
    | CCons f s => OConsistency f s
    | CProof h t => OProofByHash h t
    | CEntries s e => OEntries s e
    | CEap i t => OEntryAndProof i t
    | CRoots => ORoots
    end.

  (* one step of the replay: the model's [step], except for the request whose signer call the
     harness made fail (not an [op] of the histories; LogModel.fe_get_sth_signer_fails) *)
  Definition cstep (st : state) (c : cop) : state * answer :=
    match c with
    | CGetSTHSignFail => fe_get_sth_signer_fails rH rcfg st
    | _ => rstep st (to_op c)
    end.

  Definition pz (s : bytes) : Z := match parse_int64 s with Some z => z | None => 0 end.

  (* does a served (leaf_input, extra_data) decode (ct.RawLogEntryFromLeaf) to the certificate and
     chain of an accepted submission?  Same predicate as LogModel.decodes_to, with the decoding
     done once per entry. *)
  Fixpoint chain_bytes (l : list val) : option (list bytes) :=
    match l with
    | [] => Some []
    | VStruct [Some (VBytes x)] :: r => match chain_bytes r with Some t => Some (x :: t) | None => None end
    | _ => None
    end.
  Definition decode_entry (li x : bytes) : option (bytes * list bytes) :=
    match raw_log_entry_from_leaf li x with
    | Ok (_, VStruct [Some (VBytes c)], VList l) => match chain_bytes l with Some ch => Some (c, ch) | None => None end
    | _ => None
    end.
  Definition decodes_some (subs : list (bytes * list bytes)) (li x : bytes) : bool :=
    match decode_entry li x with
    | Some (c, ch) => existsb (fun s => bytes_eqb c (fst s) && list_eqb bytes_eqb ch (snd s)) subs
    | None => false
    end.

  (* the model's projected observation of one step: [st] before, [st'] / [a] after *)
  Definition observe (subs : list (bytes * list bytes)) (st st' : state) (c : cop) (a : answer) : obs :=
    let b := be st in
    match c, a_body a with
    | CSeq _ _, _ => XSeq (bsize (be st')) (broot rH (be st'))
    | CSubmit pre cert chain pe _, BSct ts sg =>
        XSct ts (client_verify_sct replay_sig_ok pre (cert_of cert) pe ts sg)
             (match client_leaf_hash rH pre (cert_of cert) pe ts with Some h => h | None => [] end)
    | CGetSTH, BSth n t r sg => XSth n t r (client_verify_sth replay_sig_ok n t r sg)
    | CCons f s, BProof p =>
        let m := Z.to_N (pz f) in let n := Z.to_N (pz s) in
        XCons p (client_verify_consistency rH m n (root_of rH b m) (root_of rH b n) p)
    | CProof h t, BIncl i p =>
        let n := Z.to_N (pz t) in XIncl i p (client_verify_inclusion rH i n h (root_of rH b n) p)
    | CEntries _ _, BEntries es => XEntries (map (fun e => (leaf_hash rH (fst e), decodes_some subs (fst e) (snd e))) es)
    | CEap i t, BEap li x p =>
        let n := Z.to_N (pz t) in
        XEap (leaf_hash rH li) (decodes_some subs li x) p
             (client_verify_inclusion rH (Z.to_N (pz i)) n (leaf_hash rH li) (root_of rH b n) p)
    | CRoots, BRoots cs => XRoots (N.of_nat (length cs))
    | _, _ => XFail (a_status a)
    end.

  (* accepted submissions so far (certificate, validated chain) *)
  Definition note_sub (subs : list (bytes * list bytes)) (c : cop) (a : answer) : list (bytes * list bytes) :=
    match c, a_body a with
    | CSubmit _ cert chain _ _, BSct _ _ => subs ++ [(cert_of cert, map cert_of chain)]
    | _, _ => subs
    end.

  Fixpoint replay (subs : list (bytes * list bytes)) (st : state) (cs : list cop) : list obs :=
    match cs with
    | [] => []
    | c :: r =>
        let '(st', a) := cstep st c in
        let subs' := note_sub subs c a in
        observe subs' st st' c a :: replay subs' st' r
    end.
End Replay.

Definition run (c : case) : list obs :=
  match c with
  | CHist tbl certs precerts trusted maxr align indirect ns0 steps =>
      replay tbl certs precerts trusted maxr align indirect [] (init ns0) (map fst steps)
  end.

Definition check (c : case) : bool :=
  match c with
  | CHist _ _ _ _ _ _ _ _ steps => list_eqb obs_eqb (run c) (map snd steps)
  end.

(* what the model computes, and the positions where it differs from the observation *)
Fixpoint diff_at (i : nat) (a b : list obs) : list nat :=
  match a, b with
  | x :: a', y :: b' => if obs_eqb x y then diff_at (S i) a' b' else i :: diff_at (S i) a' b'
  | [], [] => []
  | _, _ => [i]
  end.
Definition explain (c : case) :=
  match c with
  | CHist _ _ _ _ _ _ _ _ steps => (diff_at 0 (run c) (map snd steps), run c)
  end.

(* ------------------------------------------------------------------ a toy instance for the
   non-vacuity examples of Props/C06.v: a 32-byte "hash" that is not collision-free at all *)
Definition toyH (x : bytes) : bytes := firstn 32 (x ++ repeat x00 32).
Lemma toyH_len x : length (toyH x) = 32%nat.
Proof.
  unfold toyH. rewrite firstn_length, app_length, repeat_length. apply Nat.min_l.
  rewrite Nat.add_comm. apply Nat.le_add_r.
Qed.
Lemma replay_sign_ok m r : replay_sig_ok m (replay_sign m r) = true.
Proof. unfold replay_sig_ok, replay_sign. apply bytes_eqb_eq. reflexivity. Qed.
Lemma replay_sign_nonempty m r : replay_sign m r <> [].
Proof. discriminate. Qed.
Definition toy_cfg : config :=
  {| c_mask := false; c_mapper := fun _ => None; c_indirect := false; c_sth := SthLog; c_maxr := 1000; c_align := false |}.
