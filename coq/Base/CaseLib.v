(* Boolean equality helpers shared by the correspondence case libraries. *)
From Coq Require Import Bool List.
Import ListNotations.
Definition opt_eqb {A} (eqb : A -> A -> bool) (a b : option A) : bool :=
  match a, b with Some x, Some y => eqb x y | None, None => true | _, _ => false end.
Fixpoint list_eqb {A} (eqb : A -> A -> bool) (a b : list A) : bool :=
  match a, b with
  | [], [] => true
  | x :: a', y :: b' => eqb x y && list_eqb eqb a' b'
  | _, _ => false
  end.
Definition pair_eqb {A B} (ea : A -> A -> bool) (eb : B -> B -> bool) (x y : A * B) : bool :=
  ea (fst x) (fst y) && eb (snd x) (snd y).
