(* C16: the entries that reach the callback are the ones the log returned for their index. *)
From Coq Require Import ZArith Bool List Lia Permutation.
From V Require Import Base.GoInt gen.Fetcher Scanner.FetchLib Scanner.FetchModel Scanner.FetchArith Scanner.FetchProofs.
Import ListNotations.
Open Scope Z_scope.

Section Bytes.
Context {entry : Type}.
Notation state := (state entry).
Notation wstate := (wstate entry).
Notation label := (label entry).

Variable lg : Z -> entry.
Variable cfg : config.

Definition right_entry (ie : Z * entry) : Prop := snd ie = lg (fst ie).
Definition whonest (w : wstate) : Prop :=
  match w with WGot a _ es => es = map lg (zseq a (length es)) | _ => True end.

Definition BInv (s : state) : Prop := Forall right_entry (delivered s) /\ Forall whonest (ws s).

Definition good (s : state) (l : label) : Prop := resp_honest lg s l /\ sizes_ok s l.

Lemma good_good0 s l : good s l -> good0 s l.
Proof.
  intros [H S]. split; [|exact S]. destruct l as [| | |w [|es]| | | |]; cbn in *; auto.
  destruct (nth_error (ws s) w) as [[| | |]|]; auto. tauto.
Qed.

Lemma conforms_impl (P Q : state -> label -> Prop) :
  (forall s l, P s l -> Q s l) -> forall tr s, conforms P cfg s tr -> conforms Q cfg s tr.
Proof.
  intros PQ. induction tr as [|l tr IH]; intros s C; cbn in *; [exact I|].
  destruct C as [H C]. split; [auto|]. destruct (step cfg s l); auto.
Qed.

Lemma indexed_right a n : Forall right_entry (indexed a (map lg (zseq a n))).
Proof. rewrite indexed_map. apply Forall_forall. intros ie H. apply in_map_iff in H as (i & <- & _). reflexivity. Qed.

Lemma init_binv end0 : BInv (init cfg end0).
Proof.
  split; cbn.
  - constructor.
  - apply Forall_repeat. exact I.
Qed.

Lemma step_binv s l s' : BInv s -> good s l -> step cfg s l = Some s' -> BInv s'.
Proof.
  intros [D W] [H _] St.
  destruct l as [w|n| |w r|w|w| |]; cbn [step] in St.
  - destruct (g_alive s && loop_on cfg s && negb (wait_cond (c_variant cfg) (g_cur s) (g_end s))); [|discriminate].
    destruct (nth_error (ws s) w) as [[| | |]|] eqn:Nw; try discriminate.
    inversion St; subst s'. split; [exact D|]. cbn [ws].
    apply Forall_upd; [exact W|]. unfold norm. destruct (_ <=? _); exact I.
  - destruct (_ && _); [|discriminate]. inversion St; subst s'. split; assumption.
  - destruct (_ && _); [|discriminate]. inversion St; subst s'. split; assumption.
  - destruct (nth_error (ws s) w) as [[|a b|a b es|]|] eqn:Nw; try discriminate.
    destruct r as [|es]; inversion St; subst s'; [split; assumption|].
    cbn in H. rewrite Nw in H. destruct H as [_ He].
    split; [exact D|]. cbn [ws]. apply Forall_upd; [exact W | exact He].
  - destruct (nth_error (ws s) w) as [[|a b|a b es|]|] eqn:Nw; try discriminate.
    inversion St; subst s'. pose proof (Forall_nth_error _ _ _ _ W Nw) as He. cbn in He.
    split.
    + unfold delivered in *. cbn [batches]. rewrite flatten_app, flatten_one. apply Forall_app. split; [exact D|].
      rewrite He. apply indexed_right.
    + cbn [ws]. apply Forall_upd; [exact W|]. unfold norm. destruct (_ <=? _); exact I.
  - destruct (nth_error (ws s) w) as [[|a b|a b es|]|] eqn:Nw; try discriminate.
    + destruct (g_alive s); [discriminate|]. inversion St; subst s'. split; [exact D|].
      cbn [set_ws ws]. apply Forall_upd; [exact W | exact I].
    + destruct (cancelled s); [|discriminate]. inversion St; subst s'. split; [exact D|].
      cbn [set_ws ws]. apply Forall_upd; [exact W | exact I].
  - inversion St; subst s'. split; assumption.
  - inversion St; subst s'. split; assumption.
Qed.

Lemma run_binv : forall tr s s', BInv s -> conforms good cfg s tr -> run cfg s tr = Some s' -> BInv s'.
Proof.
  induction tr as [|l tr IH]; intros s s' B C R; cbn in *.
  - inversion R; subst; exact B.
  - destruct C as [G C]. destruct (step cfg s l) as [s1|] eqn:St; [|discriminate].
    eapply IH; [eapply step_binv; eauto | exact C | exact R].
Qed.

Lemma right_entries_are_map (l : list (Z * entry)) :
  Forall right_entry l -> l = map (fun i => (i, lg i)) (map fst l).
Proof.
  induction 1 as [|[i e] l H _ IH]; cbn; [reflexivity|]. unfold right_entry in H; cbn in H. subst e. now rewrite <- IH.
Qed.

(* indices exactly once + right entry per index  =>  the delivered pairs are exactly the log's *)
Lemma delivered_pairs (l : list (Z * entry)) (r : list Z) :
  Forall right_entry l -> Permutation (map fst l) r -> Permutation l (map (fun i => (i, lg i)) r).
Proof. intros F P. rewrite (right_entries_are_map l F). apply Permutation_map. exact P. Qed.

End Bytes.
