(* Basic facts: the generated check/byteCount, length prefixes. *)
From Coq Require Import Ascii String NArith ZArith List Bool Lia.
From V Require Import Base.GoInt Base.Bytes gen.Tls TLS.TlsModel.
Import ListNotations.
Local Open Scope N_scope.

Definition two64N : N := 18446744073709551616.

Definition check_spec_b (i : finfo) (n : N) : bool :=
  (f_count i <=? 8) && ((f_count i =? 8) || (n <? 256 ^ f_count i))
  && ((f_max i =? 0) || ((f_min i <=? n) && (n <=? f_max i))).

Lemma shl_small c : (c < 8)%Z -> (0 <= c)%Z -> shlu 1 (mulu 8 c) = (2 ^ (8 * c))%Z.
Proof.
  intros H1 H0.
  assert (Hc : (c = 0 \/ c = 1 \/ c = 2 \/ c = 3 \/ c = 4 \/ c = 5 \/ c = 6 \/ c = 7)%Z) by lia.
  destruct Hc as [->|[->|[->|[->|[->|[->|[->| ->]]]]]]]; vm_compute; reflexivity.
Qed.

Lemma range_tail mn mx n :
  match (if negb (Z.of_N mx =? 0)%Z
         then if (Z.of_N n <? Z.of_N mn)%Z then None
              else if (Z.of_N n >? Z.of_N mx)%Z then None else Some tt
         else Some tt) with Some _ => true | None => false end
  = ((mx =? 0) || ((mn <=? n) && (n <=? mx))).
Proof.
  destruct (N.eqb_spec mx 0) as [Hm|Hm]; destruct (Z.eqb_spec (Z.of_N mx) 0) as [Hm'|Hm']; try lia; cbn [negb orb andb].
  - reflexivity.
  - destruct (Z.ltb_spec (Z.of_N n) (Z.of_N mn)), (N.leb_spec mn n); try lia; cbn [andb]; try reflexivity.
    destruct (Z.gtb_spec (Z.of_N n) (Z.of_N mx)), (N.leb_spec n mx); try lia; reflexivity.
Qed.

Lemma check_spec i n : check i n = check_spec_b i n.
Proof.
  unfold check, check_gen, check_spec_b.
  set (c := f_count i). set (mn := f_min i). set (mx := f_max i).
  destruct (N.leb_spec c 8) as [Hle|Hgt].
  - destruct (Z.gtb_spec (Z.of_N c) 8) as [?|_]; [lia|]. cbn [orb andb].
    destruct (N.eqb_spec c 8) as [He|Hne].
    + destruct (Z.ltb_spec (Z.of_N c) 8) as [?|_]; [lia|]. cbn [orb andb]. apply range_tail.
    + destruct (Z.ltb_spec (Z.of_N c) 8) as [Hlt|?]; [|lia]. cbn [orb andb].
      rewrite shl_small by lia.
      assert (Hpow : (2 ^ (8 * Z.of_N c))%Z = Z.of_N (256 ^ c)).
      { rewrite N2Z.inj_pow. change (Z.of_N 256) with (2 ^ 8)%Z. rewrite <- Z.pow_mul_r by lia. reflexivity. }
      rewrite Hpow.
      destruct (Z.geb_spec (Z.of_N n) (Z.of_N (256 ^ c))), (N.ltb_spec n (256 ^ c)); try lia; cbn [orb andb]; try reflexivity.
      apply range_tail.
  - destruct (Z.gtb_spec (Z.of_N c) 8) as [_|?]; [|lia]. reflexivity.
Qed.

Lemma check_true i n : check i n = true ->
  f_count i <= 8 /\ (f_count i = 8 \/ n < 256 ^ f_count i) /\ (f_max i = 0 \/ (f_min i <= n /\ n <= f_max i)).
Proof.
  rewrite check_spec. unfold check_spec_b. rewrite !andb_true_iff, !orb_true_iff, andb_true_iff.
  rewrite !N.leb_le, !N.eqb_eq, N.ltb_lt. tauto.
Qed.

(* byteCount: the minimal number of bytes that hold x *)
Lemma byte_count_spec x : x < two64N ->
  1 <= byte_count x <= 8 /\ x < 256 ^ byte_count x /\ (byte_count x = 1 \/ 256 ^ (byte_count x - 1) <= x).
Proof.
  intros Hx. unfold byte_count, byte_count_gen, two64N in *.
  repeat match goal with
  | |- context [Z.ltb ?a ?b] => destruct (Z.ltb_spec a b)
  end; cbn; repeat split; try lia; right; lia.
Qed.

Lemma low_bytes_length c n : length (low_bytes c n) = N.to_nat c.
Proof. unfold low_bytes. apply be_enc_length. Qed.

Lemma firstn_app_exact {A} (a b : list A) n : n = length a -> firstn n (a ++ b) = a.
Proof. intros ->. rewrite firstn_app, Nat.sub_diag, firstn_all. cbn. apply app_nil_r. Qed.
Lemma skipn_app_exact {A} (a b : list A) n : n = length a -> skipn n (a ++ b) = b.
Proof. intros ->. rewrite skipn_app, Nat.sub_diag, skipn_all. reflexivity. Qed.

Lemma pow256_nat c : 256 ^ N.of_nat (N.to_nat c) = 256 ^ c.
Proof. rewrite N2Nat.id. reflexivity. Qed.

(* writing then reading a length / enum field *)
Lemma read_low_bytes i n rest :
  f_set i = true -> check i n = true -> n < two64N ->
  read_var_uint (Some i) (low_bytes (f_count i) n ++ rest) = Ok (n, rest).
Proof.
  intros Hset Hchk Hn. unfold read_var_uint. rewrite Hset. cbn [negb].
  destruct (check_true _ _ Hchk) as (Hc8 & Hfit & _).
  rewrite app_length, low_bytes_length.
  destruct (N.ltb_spec (N.of_nat (N.to_nat (f_count i) + length rest)) (f_count i)) as [H|_]; [lia|].
  rewrite firstn_app_exact by (rewrite low_bytes_length; reflexivity).
  rewrite skipn_app_exact by (rewrite low_bytes_length; reflexivity).
  assert (Hn' : n < 256 ^ f_count i).
  { destruct Hfit as [E|H]; [|exact H]. rewrite E. exact Hn. }
  unfold low_bytes. rewrite N.mod_small by exact Hn'.
  rewrite be_dec_enc by (rewrite pow256_nat; exact Hn').
  rewrite Hchk. reflexivity.
Qed.

Lemma read_var_uint_inv info data n r :
  read_var_uint info data = Ok (n, r) ->
  exists i, info = Some i /\ f_set i = true /\ check i n = true /\ n < two64N
            /\ data = low_bytes (f_count i) n ++ r.
Proof.
  unfold read_var_uint. destruct info as [i|]; [|discriminate].
  destruct (f_set i) eqn:Hset; cbn [negb]; [|discriminate].
  destruct (N.ltb_spec (N.of_nat (length data)) (f_count i)) as [?|Hlen]; [discriminate|].
  destruct (check i (be_dec (firstn (N.to_nat (f_count i)) data))) eqn:Hchk; [|discriminate].
  intros H; inversion H; subst n r; clear H.
  exists i. repeat split; auto.
  - destruct (check_true _ _ Hchk) as (Hc8 & _ & _).
    pose proof (be_dec_bound (firstn (N.to_nat (f_count i)) data)) as Hb.
    rewrite firstn_length_le in Hb by lia. rewrite pow256_nat in Hb.
    assert (256 ^ f_count i <= 256 ^ 8) by (apply N.pow_le_mono_r; lia).
    unfold two64N. change (256 ^ 8) with 18446744073709551616 in *. lia.
  - set (h := firstn (N.to_nat (f_count i)) data).
    assert (Hl : length h = N.to_nat (f_count i)) by (unfold h; apply firstn_length_le; lia).
    unfold low_bytes.
    pose proof (be_dec_bound h) as Hb. rewrite Hl, pow256_nat in Hb.
    rewrite N.mod_small by exact Hb. rewrite <- Hl, be_enc_dec.
    rewrite Hl. unfold h. symmetry. apply firstn_skipn.
Qed.
