// Package reflog is an in-process REFERENCE log backend: what Trillian promises behind
// trillian.TrillianLogClient, written from RFC 6962 section 2.1 (MTH, PATH, PROOF over SHA-256)
// and from the request validation / small-tree conventions of the Trillian log server
// (server/log_rpc_server.go, server/validate.go of trillian v1.7.1).  It is NOT derived from the
// code under test.  State: queued leaves, sequenced leaves in order, de-duplication on
// LeafIdentityHash, a root timestamp in nanoseconds.  Every RPC is one critical section.
//
// For the correspondence harnesses it also records (a) every SHA-256 it computes, as
// (preimage, digest) pairs, and (b) a trace of the RPCs in the order they took effect, each
// tagged with the request id found in the RPC's context, so that a concurrent execution can be
// replayed sequentially in linearisation order.  An optional Gate lets the harness decide that
// order itself (deterministic scheduling of concurrent requests).
package reflog

import (
	"bytes"
	"context"
	"crypto/sha256"
	"sync"

	"github.com/google/trillian"
	"github.com/google/trillian/types"
	"google.golang.org/grpc"
	"google.golang.org/grpc/codes"
	"google.golang.org/grpc/status"
)

// HashRec records every SHA-256 evaluation.
type HashRec struct {
	mu    sync.Mutex
	seen  map[string]bool
	Pairs [][2][]byte // (preimage, digest) in first-use order
}

func NewHashRec() *HashRec { return &HashRec{seen: map[string]bool{}} }

// Sum returns SHA-256(pre) and records the pair.
func (h *HashRec) Sum(pre []byte) []byte {
	d := sha256.Sum256(pre)
	h.mu.Lock()
	if !h.seen[string(pre)] {
		h.seen[string(pre)] = true
		h.Pairs = append(h.Pairs, [2][]byte{append([]byte{}, pre...), d[:]})
	}
	h.mu.Unlock()
	return d[:]
}

// Leaf is a stored log leaf.
type Leaf struct {
	Value, Extra, ID, MerkleHash []byte
}

type reqIDKey struct{}

// WithReqID tags a context with a request id that RPCs issued under it will carry in the trace.
func WithReqID(ctx context.Context, id int) context.Context {
	return context.WithValue(ctx, reqIDKey{}, id)
}

// ReqID extracts the request id (or -1).
func ReqID(ctx context.Context) int {
	if v, ok := ctx.Value(reqIDKey{}).(int); ok {
		return v
	}
	return -1
}

// RPC is one trace entry.
type RPC struct {
	Seq   int    // position in the linearisation
	ReqID int    // request that issued it (-1: none; sequencing steps carry -2)
	Kind  string // QueueLeaf, GetLatestSignedLogRoot, GetConsistencyProof, GetInclusionProofByHash, GetLeavesByRange, GetEntryAndProof, Sequence
	// what the RPC saw / did
	Size   uint64 // tree size at the time (after the step, for Sequence)
	Root   []byte
	NS     uint64
	Dup    bool  // QueueLeaf: identity hash already known
	K      int   // Sequence: requested batch
	A, B   int64 // the two numeric request fields (first/second, index/size, start/count, -/tree_size)
	LeafTS uint64
}

// Log is the reference backend.
type Log struct {
	mu     sync.Mutex
	H      *HashRec
	queued []*Leaf
	seq    []*Leaf
	ns     uint64
	memo   map[[2]int][]byte
	Trace  []RPC
	// Gate, if set, is called at the start of every RPC with the RPC's context and must return
	// when the RPC may take effect; the returned function is called when it has.
	Gate func(ctx context.Context) func()
}

// New returns an empty log whose first root carries timestamp ns.
func New(ns uint64) *Log {
	return &Log{H: NewHashRec(), ns: ns, memo: map[[2]int][]byte{}}
}

func (l *Log) enter(ctx context.Context) func() {
	var leave func()
	if l.Gate != nil {
		leave = l.Gate(ctx)
	}
	l.mu.Lock()
	return func() {
		l.mu.Unlock()
		if leave != nil {
			leave()
		}
	}
}

func (l *Log) rec(ctx context.Context, r RPC) {
	r.Seq = len(l.Trace)
	if r.Kind != "Sequence" {
		r.ReqID = ReqID(ctx)
	}
	if r.Kind != "Sequence" || r.Root == nil {
		r.Size = uint64(len(l.seq))
		r.Root = l.mth(0, len(l.seq))
		r.NS = l.ns
	}
	l.Trace = append(l.Trace, r)
}

// ---------------------------------------------------------------- RFC 6962 section 2.1

func split(n int) int { // largest power of two smaller than n (n >= 2)
	k := 1
	for k*2 < n {
		k *= 2
	}
	return k
}

// mth = MTH(D[lo:hi])
func (l *Log) mth(lo, hi int) []byte {
	if v, ok := l.memo[[2]int{lo, hi}]; ok {
		return v
	}
	var v []byte
	switch n := hi - lo; {
	case n == 0:
		v = l.H.Sum(nil)
	case n == 1:
		v = l.seq[lo].MerkleHash
	default:
		k := split(n)
		a, b := l.mth(lo, lo+k), l.mth(lo+k, hi)
		v = l.H.Sum(append(append([]byte{1}, a...), b...))
	}
	l.memo[[2]int{lo, hi}] = v
	return v
}

// path = PATH(m, D[lo:hi]), m relative to lo
func (l *Log) path(m, lo, hi int) [][]byte {
	n := hi - lo
	if n <= 1 {
		return nil
	}
	k := split(n)
	if m < k {
		return append(l.path(m, lo, lo+k), l.mth(lo+k, hi))
	}
	return append(l.path(m-k, lo+k, hi), l.mth(lo, lo+k))
}

// subproof = SUBPROOF(m, D[lo:hi], b)
func (l *Log) subproof(m, lo, hi int, b bool) [][]byte {
	n := hi - lo
	if m == n {
		if b {
			return nil
		}
		return [][]byte{l.mth(lo, hi)}
	}
	k := split(n)
	if m <= k {
		return append(l.subproof(m, lo, lo+k, b), l.mth(lo+k, hi))
	}
	return append(l.subproof(m-k, lo+k, hi, false), l.mth(lo, lo+k))
}

// ---------------------------------------------------------------- inspection (harness side)

// Size returns the number of sequenced leaves.
func (l *Log) Size() int { l.mu.Lock(); defer l.mu.Unlock(); return len(l.seq) }

// Queued returns the number of queued leaves.
func (l *Log) Queued() int { l.mu.Lock(); defer l.mu.Unlock(); return len(l.queued) }

// RootAt returns MTH(D[0:n]) for n <= Size.
func (l *Log) RootAt(n int) []byte { l.mu.Lock(); defer l.mu.Unlock(); return l.mth(0, n) }

// LeafAt returns the sequenced leaf of index i.
func (l *Log) LeafAt(i int) *Leaf { l.mu.Lock(); defer l.mu.Unlock(); return l.seq[i] }

// TraceLen returns the number of recorded RPCs.
func (l *Log) TraceLen() int { l.mu.Lock(); defer l.mu.Unlock(); return len(l.Trace) }

// Sequence integrates up to k queued leaves (oldest first) and publishes a root with timestamp ns.
func (l *Log) Sequence(ctx context.Context, k int, ns uint64) (uint64, []byte) {
	defer l.enter(ctx)()
	if k > len(l.queued) {
		k = len(l.queued)
	}
	l.seq = append(l.seq, l.queued[:k]...)
	l.queued = l.queued[k:]
	l.ns = ns
	root := l.mth(0, len(l.seq))
	l.rec(ctx, RPC{ReqID: -2, Kind: "Sequence", K: k, Size: uint64(len(l.seq)), Root: root, NS: ns})
	return uint64(len(l.seq)), root
}

func (l *Log) slr() *trillian.SignedLogRoot {
	b, err := (&types.LogRootV1{TreeSize: uint64(len(l.seq)), RootHash: l.mth(0, len(l.seq)), TimestampNanos: l.ns}).MarshalBinary()
	if err != nil {
		panic(err)
	}
	return &trillian.SignedLogRoot{LogRoot: b}
}

func pbLeaf(lf *Leaf, idx int64) *trillian.LogLeaf {
	return &trillian.LogLeaf{LeafValue: lf.Value, ExtraData: lf.Extra, LeafIdentityHash: lf.ID, MerkleLeafHash: lf.MerkleHash, LeafIndex: idx}
}

// ---------------------------------------------------------------- trillian.TrillianLogClient

func (l *Log) QueueLeaf(ctx context.Context, in *trillian.QueueLeafRequest, _ ...grpc.CallOption) (*trillian.QueueLeafResponse, error) {
	defer l.enter(ctx)()
	if in.Leaf == nil || len(in.Leaf.LeafValue) == 0 {
		l.rec(ctx, RPC{Kind: "QueueLeaf", A: -1})
		return nil, status.Error(codes.InvalidArgument, "QueueLeafRequest.Leaf.LeafValue: empty")
	}
	mh := l.H.Sum(append([]byte{0}, in.Leaf.LeafValue...))
	id := in.Leaf.LeafIdentityHash
	if len(id) == 0 {
		id = mh
	}
	for _, set := range [][]*Leaf{l.seq, l.queued} {
		for _, old := range set {
			if bytes.Equal(old.ID, id) {
				l.rec(ctx, RPC{Kind: "QueueLeaf", Dup: true})
				return &trillian.QueueLeafResponse{QueuedLeaf: &trillian.QueuedLogLeaf{
					Leaf: pbLeaf(old, 0), Status: status.New(codes.AlreadyExists, "leaf already exists").Proto()}}, nil
			}
		}
	}
	lf := &Leaf{Value: append([]byte{}, in.Leaf.LeafValue...), Extra: append([]byte{}, in.Leaf.ExtraData...), ID: append([]byte{}, id...), MerkleHash: mh}
	l.queued = append(l.queued, lf)
	l.rec(ctx, RPC{Kind: "QueueLeaf"})
	return &trillian.QueueLeafResponse{QueuedLeaf: &trillian.QueuedLogLeaf{Leaf: pbLeaf(lf, 0)}}, nil
}

func (l *Log) GetLatestSignedLogRoot(ctx context.Context, in *trillian.GetLatestSignedLogRootRequest, _ ...grpc.CallOption) (*trillian.GetLatestSignedLogRootResponse, error) {
	defer l.enter(ctx)()
	l.rec(ctx, RPC{Kind: "GetLatestSignedLogRoot"})
	return &trillian.GetLatestSignedLogRootResponse{SignedLogRoot: l.slr()}, nil
}

func (l *Log) GetConsistencyProof(ctx context.Context, in *trillian.GetConsistencyProofRequest, _ ...grpc.CallOption) (*trillian.GetConsistencyProofResponse, error) {
	defer l.enter(ctx)()
	l.rec(ctx, RPC{Kind: "GetConsistencyProof", A: in.FirstTreeSize, B: in.SecondTreeSize})
	if in.FirstTreeSize <= 0 || in.SecondTreeSize <= 0 || in.SecondTreeSize < in.FirstTreeSize {
		return nil, status.Error(codes.InvalidArgument, "GetConsistencyProofRequest: bad tree sizes")
	}
	r := &trillian.GetConsistencyProofResponse{SignedLogRoot: l.slr()}
	if uint64(in.SecondTreeSize) > uint64(len(l.seq)) {
		return r, nil
	}
	r.Proof = &trillian.Proof{Hashes: l.subproof(int(in.FirstTreeSize), 0, int(in.SecondTreeSize), true)}
	return r, nil
}

func (l *Log) GetInclusionProofByHash(ctx context.Context, in *trillian.GetInclusionProofByHashRequest, _ ...grpc.CallOption) (*trillian.GetInclusionProofByHashResponse, error) {
	defer l.enter(ctx)()
	l.rec(ctx, RPC{Kind: "GetInclusionProofByHash", B: in.TreeSize})
	if in.TreeSize <= 0 || len(in.LeafHash) != sha256.Size {
		return nil, status.Error(codes.InvalidArgument, "GetInclusionProofByHashRequest: bad tree size or hash")
	}
	r := &trillian.GetInclusionProofByHashResponse{SignedLogRoot: l.slr()}
	if in.TreeSize > int64(len(l.seq)) {
		return r, nil // tree too small for the request: root only
	}
	for i, lf := range l.seq {
		if int64(i) < in.TreeSize && bytes.Equal(lf.MerkleHash, in.LeafHash) {
			r.Proof = append(r.Proof, &trillian.Proof{LeafIndex: int64(i), Hashes: l.path(i, 0, int(in.TreeSize))})
		}
	}
	if len(r.Proof) == 0 {
		return nil, status.Errorf(codes.NotFound, "no leaf found for hash %x in tree size %d", in.LeafHash, in.TreeSize)
	}
	return r, nil
}

func (l *Log) GetLeavesByRange(ctx context.Context, in *trillian.GetLeavesByRangeRequest, _ ...grpc.CallOption) (*trillian.GetLeavesByRangeResponse, error) {
	defer l.enter(ctx)()
	l.rec(ctx, RPC{Kind: "GetLeavesByRange", A: in.StartIndex, B: in.Count})
	if in.StartIndex < 0 || in.Count <= 0 {
		return nil, status.Error(codes.InvalidArgument, "GetLeavesByRangeRequest: bad range")
	}
	r := &trillian.GetLeavesByRangeResponse{SignedLogRoot: l.slr()}
	for i := in.StartIndex; i < int64(len(l.seq)) && i-in.StartIndex < in.Count; i++ {
		r.Leaves = append(r.Leaves, pbLeaf(l.seq[i], i))
	}
	return r, nil
}

func (l *Log) GetEntryAndProof(ctx context.Context, in *trillian.GetEntryAndProofRequest, _ ...grpc.CallOption) (*trillian.GetEntryAndProofResponse, error) {
	defer l.enter(ctx)()
	l.rec(ctx, RPC{Kind: "GetEntryAndProof", A: in.LeafIndex, B: in.TreeSize})
	if in.TreeSize <= 0 || in.LeafIndex < 0 || in.LeafIndex >= in.TreeSize {
		return nil, status.Error(codes.InvalidArgument, "GetEntryAndProofRequest: bad index or tree size")
	}
	r := &trillian.GetEntryAndProofResponse{SignedLogRoot: l.slr()}
	n := int64(len(l.seq))
	ts := in.TreeSize
	if ts > n && in.LeafIndex < n {
		ts = n // "return latest proof we can manage"
	}
	if ts <= n {
		r.Proof = &trillian.Proof{LeafIndex: in.LeafIndex, Hashes: l.path(int(in.LeafIndex), 0, int(ts))}
		r.Leaf = pbLeaf(l.seq[in.LeafIndex], in.LeafIndex)
	}
	return r, nil
}

func (l *Log) GetInclusionProof(ctx context.Context, in *trillian.GetInclusionProofRequest, _ ...grpc.CallOption) (*trillian.GetInclusionProofResponse, error) {
	return nil, status.Error(codes.Unimplemented, "not used by the CT front end")
}
func (l *Log) InitLog(ctx context.Context, in *trillian.InitLogRequest, _ ...grpc.CallOption) (*trillian.InitLogResponse, error) {
	return nil, status.Error(codes.Unimplemented, "not used by the CT front end")
}
func (l *Log) AddSequencedLeaves(ctx context.Context, in *trillian.AddSequencedLeavesRequest, _ ...grpc.CallOption) (*trillian.AddSequencedLeavesResponse, error) {
	return nil, status.Error(codes.Unimplemented, "not used by the CT front end")
}
