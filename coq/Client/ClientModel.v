(* Model of the log client: client/logclient.go, client/getentries.go, client/multilog.go
   (addChain), and the parts of jsonclient/client.go they stand on (GetAndParse, PostAndParse,
   the outcome structure of PostAndParseWithRetry; its timing is C13's subject).

   Every method is a function of
     - the HTTP outcome(s): no response (context error or other transport error) | a response
       = status, identity of the body bytes read, did io.ReadAll / Body.Close succeed, is the
       request that was finally answered still a POST, and what encoding/json makes of the
       body for the endpoint's response type (None = json error);
     - the crypto oracle [sig_ok] (tls.VerifySignature under the configured key) and
       [key_hash] (SHA-256 of the key's SubjectPublicKeyInfo);
     - the X.509 oracles: leaf derivation from the SUBMITTED chain (MerkleTreeLeafFromRawChain)
       and the parse class of a certificate / TBSCertificate (ok, non-fatal, fatal).
   TLS decoding / signature inputs are the C04 function models over the GENERATED
   descriptors (gen/CtTypes.v).  Definitions only. *)
From Coq Require Import String NArith ZArith List Bool.
From V Require Import Base.Bytes Base.GoInt TLS.TlsModel gen.CtTypes CT.Rfc6962Spec CT.CtFuncs.
Import ListNotations.

(* ------------------------------------------------------------------ outcomes *)

(* what a LogClient method hands back: a result, a jsonclient.RspError carrying the status and
   the body of the response, a context error, any other error, or a panic *)
Inductive result (A : Type) : Type :=
| COk (a : A)
| CRspErr (status : Z) (body : N)
| CPlainErr
| CCtxErr
| CPanic.
Arguments COk {A} a.
Arguments CRspErr {A} status body.
Arguments CPlainErr {A}.
Arguments CCtxErr {A}.
Arguments CPanic {A}.

Record response (F : Type) : Type := mkResp {
  r_status : Z;           (* http.Response.StatusCode *)
  r_body : N;             (* identity of the bytes io.ReadAll returned *)
  r_read_ok : bool;       (* io.ReadAll returned no error *)
  r_close_ok : bool;      (* Body.Close returned no error *)
  r_post : bool;          (* httpRsp.Request.Method is still POST (no 301/302/303 rewriting) *)
  r_json : option F       (* encoding/json on the body, into the endpoint's response struct *)
}.
Arguments mkResp {F}.
Arguments r_status {F}.
Arguments r_body {F}.
Arguments r_read_ok {F}.
Arguments r_close_ok {F}.
Arguments r_post {F}.
Arguments r_json {F}.

Inductive outcome (F : Type) : Type :=
| NoResp (ctx : bool)     (* http.Client.Do failed; ctx: the context had ended (ctxhttp returns ctx.Err()) *)
| Resp (r : response F).
Arguments NoResp {F} ctx.
Arguments Resp {F} r.

(* the three places where this tree may differ from the fixed one (pending_fixes/C12-{1,2,3}) *)
Record variant := {
  v_check_log_id : bool;        (* C12-1: addChainWithRetry compares resp.ID with the hash of the configured key *)
  v_guard_empty_chain : bool;   (* C12-2: MerkleTreeLeafFromChain refuses an empty chain instead of indexing it *)
  v_entries_rsp_error : bool    (* C12-3: GetEntries wraps a per-entry decoding failure in RspError *)
}.
Definition patched : variant := {| v_check_log_id := true; v_guard_empty_chain := true; v_entries_rsp_error := true |}.
Definition unpatched : variant := {| v_check_log_id := false; v_guard_empty_chain := false; v_entries_rsp_error := false |}.
(* THE definition to switch: which code the correspondence harness is compared against *)
Definition current : variant := patched.

(* ------------------------------------------------------------------ jsonclient *)

(* JSONClient.GetAndParse: (status, body, decoded fields) *)
Definition get_and_parse {F} (o : outcome F) : result (Z * N * F) :=
  match o with
  | NoResp true => CCtxErr
  | NoResp false => CPlainErr
  | Resp r =>
      if negb (r_close_ok r) then CPlainErr                                   (* return nil, nil, err *)
      else if negb (r_read_ok r) then CRspErr (r_status r) (r_body r)
      else if negb (r_status r =? 200)%Z then CRspErr (r_status r) (r_body r)
      else match r_json r with
           | None => CRspErr (r_status r) (r_body r)
           | Some f => COk (r_status r, r_body r, f)
           end
  end.

(* JSONClient.PostAndParse: a non-200 response is NOT an error here (fields stay unset) *)
Definition post_and_parse {F} (o : outcome F) : result (Z * N * option F) :=
  match o with
  | NoResp true => CCtxErr
  | NoResp false => CPlainErr
  | Resp r =>
      if negb (r_close_ok r) then CPlainErr
      else if negb (r_read_ok r) then CRspErr (r_status r) (r_body r)
      else if negb (r_post r) then CPlainErr                                  (* POST converted by a redirect *)
      else if (r_status r =? 200)%Z then
        match r_json r with
        | None => CRspErr (r_status r) (r_body r)
        | Some f => COk (r_status r, r_body r, Some f)
        end
      else COk (r_status r, r_body r, None)
  end.

(* JSONClient.PostAndParseWithRetry over the outcomes of the successive attempts.  Between two
   attempts the client waits (waitForBackoff); the list ends where the caller's context ended. *)
Fixpoint post_retry {F} (os : list (outcome F)) : result (Z * N * F) :=
  match os with
  | [] => CCtxErr                                           (* waitForBackoff / the next Do: ctx.Err() *)
  | o :: rest =>
      match post_and_parse o with
      | CCtxErr => CCtxErr                                  (* err == context.Canceled / DeadlineExceeded *)
      | COk (st, b, fo) =>
          if (st =? 200)%Z then
            match fo with Some f => COk (st, b, f) | None => CPanic end   (* None: unreachable, see post_and_parse *)
          else if (st =? 408)%Z then post_retry rest        (* StatusRequestTimeout: retry immediately *)
          else if (st =? 503)%Z || (st =? 429)%Z then post_retry rest   (* back off (Retry-After), retry *)
          else CRspErr st b
      | _ => post_retry rest                                (* any other error: back off, retry *)
      end
  end.

(* ------------------------------------------------------------------ decoded response fields *)

(* ct.AddChainResponse after encoding/json; [a_ext] is base64.StdEncoding.DecodeString of the
   extensions string (None = invalid base64) *)
Record sct_rsp := { a_version : N; a_id : bytes; a_ts : N; a_ext : option bytes; a_sig : bytes }.
(* ct.SignedCertificateTimestamp *)
Record sct := { s_version : N; s_logid : bytes; s_ts : N; s_ext : bytes; s_sig : val }.
(* ct.GetSTHResponse / the fields of ct.SignedTreeHead that GetSTH sets (Version and LogID stay zero) *)
Record sth_rsp := { h_size : N; h_ts : N; h_root : bytes; h_sig : bytes }.
Record sth := { t_size : N; t_ts : N; t_root : bytes; t_sig : val }.

(* copy(logID.KeyID[:], id) into a zeroed [32]byte *)
Definition copy32 (id : bytes) : bytes := firstn 32 id ++ repeat Byte.x00 (32 - length id).

Definition entry_body (e : entry) : val :=
  match e with
  | X509E c => VStruct [Some (VBytes c)]
  | PrecertE h t => VStruct [Some (VBytes h); Some (VBytes t)]
  end.

(* x509.ParseCertificate / ParseTBSCertificate as seen through x509.IsFatal *)
Inductive pclass := POk | PNonFatal | PFatal.
Definition is_fatal (c : pclass) : bool := match c with PFatal => true | _ => false end.

(* one ct.LogEntry: index, leaf, chain, and for a precert entry Precert.Submitted *)
Record log_entry := { e_index : Z; e_leaf : val; e_chain : val; e_submitted : option val }.

Inductive derived := DEntry (e : entry) | DErr | DPanic.

Section Client.
  Variable key : Type.
  Variable sig_ok : key -> bytes -> val -> bool.        (* tls.VerifySignature(key, data, ds) == nil *)
  Variable key_hash : key -> bytes.                      (* sha256(MarshalPKIXPublicKey(key)) *)
  (* MerkleTreeLeafFromRawChain on a non-empty chain: the certificate chain[0].Raw, resp. the
     (issuer key hash, defanged TBS) pair; None = error (fatal parse, missing issuer, ...) *)
  Variable x509_of : list bytes -> option bytes.
  Variable precert_of : list bytes -> option (bytes * bytes).
  Variable parse_cert : bytes -> pclass.                 (* x509.ParseCertificate *)
  Variable parse_tbs : bytes -> pclass.                  (* x509.ParseTBSCertificate *)

  (* ---------------- get-sth ---------------- *)

  (* LogClient.GetSTH: ToSignedTreeHead (root length, complete DigitallySigned), then
     VerifySTHSignature over SerializeSTHSignatureInput (sth.Version is the zero value) *)
  Definition get_sth (verifier : option key) (o : outcome sth_rsp) : result sth :=
    match get_and_parse o with
    | COk (st, b, f) =>
        match to_sth (h_size f) (h_ts f) (h_root f) (h_sig f) with
        | Ok (size, ts, root, ds) =>
            let s := {| t_size := size; t_ts := ts; t_root := root; t_sig := ds |} in
            match verifier with
            | None => COk s                                   (* "Can't verify signatures without a verifier" *)
            | Some k =>
                match serialize_sth_siginput 0 ts size root with
                | Ok msg => if sig_ok k msg ds then COk s else CRspErr st b
                | TlsModel.Panic | Hang => CPanic
                | _ => CRspErr st b
                end
            end
        | TlsModel.Panic | Hang => CPanic
        | _ => CRspErr st b
        end
    | CRspErr st b => CRspErr st b
    | CPlainErr => CPlainErr
    | CCtxErr => CCtxErr
    | CPanic => CPanic
    end.

  (* ---------------- add-chain / add-pre-chain ---------------- *)

  (* ct.MerkleTreeLeafFromRawChain(chain, etype, ts): at most three certificates are parsed,
     then MerkleTreeLeafFromChain; an X.509 entry is chain[0] (indexed unguarded before C12-2) *)
  Definition derive_entry (v : variant) (chain : list bytes) (etype : N) : derived :=
    if (etype =? gen_X509LogEntryType)%N then
      match chain with
      | [] => if v_guard_empty_chain v then DErr else DPanic
      | _ :: _ => match x509_of chain with Some c => DEntry (X509E c) | None => DErr end
      end
    else if negb (etype =? gen_PrecertLogEntryType)%N then DErr
    else
      match chain with
      | [] => DErr                                            (* len(chain) < 2 *)
      | _ :: _ => match precert_of chain with Some (h, t) => DEntry (PrecertE h t) | None => DErr end
      end.

  Inductive vres := VOk | VErr | VPanic.

  (* LogClient.VerifySCTSignature *)
  Definition verify_sct (v : variant) (verifier : option key) (chain : list bytes) (etype : N) (s : sct) : vres :=
    match verifier with
    | None => VOk
    | Some k =>
        match derive_entry v chain etype with
        | DPanic => VPanic
        | DErr => VErr
        | DEntry e =>
            (* leaf.TimestampedEntry.Extensions = sct.Extensions; SerializeSCTSignatureInput *)
            match serialize_sct_siginput (s_version s) (s_ts s) etype (entry_body e) (s_ext s) with
            | Ok msg => if sig_ok k msg (s_sig s) then VOk else VErr
            | TlsModel.Panic | Hang => VPanic
            | _ => VErr
            end
        end
    end.

  (* the log id of the returned SCT: Some id, or None = the response is refused *)
  Definition sct_log_id (v : variant) (verifier : option key) (id : bytes) : option bytes :=
    match verifier with
    | Some k =>
        if v_check_log_id v then
          match id with
          | [] => Some (key_hash k)                           (* no id in the response: the configured log's *)
          | _ :: _ => if bytes_eqb id (key_hash k) then Some (copy32 id) else None
          end
        else Some (copy32 id)
    | None => Some (copy32 id)
    end.

  (* the part of addChainWithRetry after PostAndParseWithRetry returned (status, body, fields) *)
  Definition sct_of_response (v : variant) (verifier : option key) (chain : list bytes) (etype : N)
             (st : Z) (b : N) (f : sct_rsp) : result sct :=
    match complete gen_DigitallySigned (a_sig f) with
    | Ok ds =>
        match a_ext f with
        | None => CRspErr st b
        | Some ext =>
            match sct_log_id v verifier (a_id f) with
            | None => CRspErr st b
            | Some logid =>
                let s := {| s_version := a_version f; s_logid := logid; s_ts := a_ts f; s_ext := ext; s_sig := ds |} in
                match verify_sct v verifier chain etype s with
                | VOk => COk s
                | VErr => CRspErr st b
                | VPanic => CPanic
                end
            end
        end
    | TlsModel.Panic | Hang => CPanic
    | _ => CRspErr st b
    end.

  Definition add_chain (v : variant) (verifier : option key) (chain : list bytes) (etype : N)
             (os : list (outcome sct_rsp)) : result sct :=
    match post_retry os with
    | COk (st, b, f) => sct_of_response v verifier chain etype st b f
    | CRspErr st b => CRspErr st b
    | CPlainErr => CPlainErr
    | CCtxErr => CCtxErr
    | CPanic => CPanic
    end.

  (* TemporalLogClient.addChain with a single unbounded shard: the chain head must parse
     without ANY error before the shard's client is used *)
  Definition temporal_add_chain (v : variant) (verifier : option key) (chain : list bytes) (etype : N)
             (os : list (outcome sct_rsp)) : result sct :=
    match chain with
    | [] => CPlainErr
    | c :: _ => match parse_cert c with
                | POk => add_chain v verifier chain etype os
                | _ => CPlainErr
                end
    end.

  (* ---------------- histories of calls on one client ---------------- *)

  (* LogClient keeps NO state between calls (the struct is the JSONClient: URI, http client,
     verifier, logger, backoff): a history of calls on one client is the list of the results of
     its calls, each a function of that call's own HTTP outcome(s) only.  The correspondence
     harness holds every call of its histories to exactly this. *)
  Definition get_sth_history (verifier : option key) (os : list (outcome sth_rsp)) : list (result sth) :=
    map (get_sth verifier) os.

  (* one add-chain / add-pre-chain call: the submitted chain, the entry type, the attempts *)
  Definition add_call : Type := (list bytes * N * list (outcome sct_rsp))%type.
  Definition add_chain_history (v : variant) (verifier : option key) (calls : list add_call) : list (result sct) :=
    map (fun c : add_call => add_chain v verifier (fst (fst c)) (snd (fst c)) (snd c)) calls.

  (* ---------------- get-entries ---------------- *)

  Definition bytes_of (v : val) : option bytes := match v with VBytes b => Some b | _ => None end.

  (* RawLogEntry.ToLogEntry *)
  Definition to_log_entry (index : Z) (r : val * val * val) : res log_entry :=
    let '(leaf, cert, chain) := r in
    match field 2 leaf with
    | None => TlsModel.Panic
    | Some te =>
        match field 1 te with
        | Some (VInt et) =>
            if (et =? gen_X509LogEntryType)%N then
              match field 2 te with
              | Some x => match field 0 x with
                          | Some (VBytes c) =>
                              if is_fatal (parse_cert c) then ErrStruct
                              else Ok {| e_index := index; e_leaf := leaf; e_chain := chain; e_submitted := None |}
                          | _ => TlsModel.Panic
                          end
              | None => TlsModel.Panic
              end
            else if (et =? gen_PrecertLogEntryType)%N then
              match field 3 te with
              | Some p => match field 1 p with
                          | Some (VBytes t) =>
                              if is_fatal (parse_tbs t) then ErrStruct
                              else Ok {| e_index := index; e_leaf := leaf; e_chain := chain; e_submitted := Some cert |}
                          | _ => TlsModel.Panic
                          end
              | None => TlsModel.Panic
              end
            else ErrStruct
        | _ => TlsModel.Panic
        end
    end.

  (* ct.LogEntryFromLeaf *)
  Definition log_entry_from_leaf (index : Z) (li x : bytes) : res log_entry :=
    match raw_log_entry_from_leaf li x with
    | Ok r => to_log_entry index r
    | ErrSyntax => ErrSyntax | ErrStruct => ErrStruct | TlsModel.Panic => TlsModel.Panic | Hang => Hang
    end.

  (* the loop of GetEntries: index := start + int64(i), the first fatal error ends the call *)
  Fixpoint decode_entries (start i : Z) (es : list (bytes * bytes)) : res (list log_entry) :=
    match es with
    | [] => Ok []
    | (li, x) :: rest =>
        match log_entry_from_leaf (add64 start i) li x with
        | Ok le => match decode_entries start (i + 1) rest with
                   | Ok l => Ok (le :: l)
                   | ErrSyntax => ErrSyntax | ErrStruct => ErrStruct | TlsModel.Panic => TlsModel.Panic | Hang => Hang
                   end
        | ErrSyntax => ErrSyntax | ErrStruct => ErrStruct | TlsModel.Panic => TlsModel.Panic | Hang => Hang
        end
    end.

  (* LogClient.GetRawEntries (keeping the status and body for C12-3) *)
  Definition get_raw_entries_full (start end_ : Z) (o : outcome (list (bytes * bytes))) : result (Z * N * list (bytes * bytes)) :=
    if (end_ <? 0)%Z then CPlainErr                            (* no request is made *)
    else if (end_ <? start)%Z then CPlainErr
    else get_and_parse o.

  Definition get_raw_entries (start end_ : Z) (o : outcome (list (bytes * bytes))) : result (list (bytes * bytes)) :=
    match get_raw_entries_full start end_ o with
    | COk (_, _, es) => COk es
    | CRspErr st b => CRspErr st b
    | CPlainErr => CPlainErr | CCtxErr => CCtxErr | CPanic => CPanic
    end.

  (* LogClient.GetEntries: every entry the server sent is decoded, however many were asked for *)
  Definition get_entries (v : variant) (start end_ : Z) (o : outcome (list (bytes * bytes))) : result (list log_entry) :=
    match get_raw_entries_full start end_ o with
    | COk (st, b, es) =>
        match decode_entries start 0 es with
        | Ok l => COk l
        | TlsModel.Panic | Hang => CPanic
        | _ => if v_entries_rsp_error v then CRspErr st b else CPlainErr
        end
    | CRspErr st b => CRspErr st b
    | CPlainErr => CPlainErr | CCtxErr => CCtxErr | CPanic => CPanic
    end.

  (* ---------------- get-roots, proofs ---------------- *)

  Fixpoint all_some {A} (l : list (option A)) : option (list A) :=
    match l with
    | [] => Some []
    | None :: _ => None
    | Some a :: r => match all_some r with Some l' => Some (a :: l') | None => None end
    end.

  (* LogClient.GetAcceptedRoots: each string of "certificates" through base64 (None = invalid) *)
  Definition get_roots (o : outcome (list (option bytes))) : result (list bytes) :=
    match get_and_parse o with
    | COk (st, b, cs) => match all_some cs with Some l => COk l | None => CRspErr st b end
    | CRspErr st b => CRspErr st b
    | CPlainErr => CPlainErr | CCtxErr => CCtxErr | CPanic => CPanic
    end.

  (* GetSTHConsistency, GetProofByHash, GetEntryAndProof: the decoded fields are handed back as
     they are (no length check on hashes, no decoding of the leaf) *)
  Definition pass_through {F} (o : outcome F) : result F :=
    match get_and_parse o with
    | COk (_, _, f) => COk f
    | CRspErr st b => CRspErr st b
    | CPlainErr => CPlainErr | CCtxErr => CCtxErr | CPanic => CPanic
    end.
End Client.

(* ------------------------------------------------------------------ the temporal client with SEVERAL shards *)

(* TemporalLogClient.GetAcceptedRoots: every shard's client is asked (in parallel); the results are
   consumed in the order in which the shards ANSWER ([rs] is in that order); the first error ends
   the call and nothing is returned with it; otherwise the union, each certificate once, in the
   order of first appearance *)
Definition add_new (seen l : list bytes) : list bytes :=
  fold_left (fun acc r => if existsb (bytes_eqb r) acc then acc else acc ++ [r]) l seen.

Fixpoint merge_roots (seen : list bytes) (rs : list (result (list bytes))) : result (list bytes) :=
  match rs with
  | [] => COk seen
  | COk l :: rest => merge_roots (add_new seen l) rest
  | CRspErr st b :: _ => CRspErr st b
  | CPlainErr :: _ => CPlainErr
  | CCtxErr :: _ => CCtxErr
  | CPanic :: _ => CPanic
  end.

Definition temporal_get_roots (os : list (outcome (list (option bytes)))) : result (list bytes) :=
  merge_roots [] (map get_roots os).

(* a shard's interval [NotAfterStart, NotAfterLimit) in ns since the epoch; None = unbounded *)
Definition interval : Type := (option Z * option Z)%type.

(* one round of TemporalLogClient.IndexByDate: neither when.Before(lower) nor !when.Before(upper) *)
Definition covers (iv : interval) (t : Z) : bool :=
  match fst iv with Some lo => negb (t <? lo)%Z | None => true end &&
  match snd iv with Some hi => (t <? hi)%Z | None => true end.

(* TemporalLogClient.IndexByDate: the first shard whose interval holds the date *)
Fixpoint index_by_date (ivs : list interval) (t : Z) : option nat :=
  match ivs with
  | [] => None
  | iv :: rest => if covers iv t then Some 0%nat else option_map S (index_by_date rest t)
  end.

Section Sharded.
  Variable key : Type.
  Variable sig_ok : key -> bytes -> val -> bool.
  Variable key_hash : key -> bytes.
  Variable x509_of : list bytes -> option bytes.
  Variable precert_of : list bytes -> option (bytes * bytes).
  Variable parse_cert : bytes -> pclass.
  Variable not_after : bytes -> Z.                        (* NotAfter of a certificate that parses, ns *)

  (* TemporalLogClient.addChain over shards = (interval, the shard client's verifier): the chain
     head must parse without any error, its NotAfter selects ONE shard, and the call is that
     shard's addChainWithRetry - with that shard's key.  The first component is the shard the
     requests go to (None: no request is made). *)
  Definition temporal_add_chain_sharded (v : variant) (shards : list (interval * option key))
             (chain : list bytes) (etype : N) (os : list (outcome sct_rsp)) : option nat * result sct :=
    match chain with
    | [] => (None, CPlainErr)
    | c :: _ =>
        match parse_cert c with
        | POk =>
            match index_by_date (map fst shards) (not_after c) with
            | None => (None, CPlainErr)
            | Some i =>
                let verifier := match nth_error shards i with Some s => snd s | None => None end in
                (Some i, add_chain key sig_ok key_hash x509_of precert_of v verifier chain etype os)
            end
        | _ => (None, CPlainErr)
        end
    end.
End Sharded.
