(* C12 findings: the client model with the three checks in their PRE-FIX form
   ([unpatched]: the only difference to [patched] is Client/ClientModel.variant) and the
   refutation witnesses for the unpatched tree.
   Patches: pending_fixes/C12-1.diff (addChainWithRetry: log id), C12-2.diff
   (MerkleTreeLeafFromChain: empty chain), C12-3.diff (GetEntries: RspError). *)
From Coq Require Import String NArith ZArith List Bool.
From V Require Import Base.Bytes Base.GoInt TLS.TlsModel gen.CtTypes CT.Rfc6962Spec CT.Rfc6962Proofs CT.CtFuncs
  Client.ClientModel Client.ClientSpec.
From V Require TLS.TlsCase.
Import ListNotations.

(* a log key (hash 32 x 0xAA) under which exactly one (message, signature) pair verifies: the
   RFC 6962 signature input of timestamp 1234, X.509 entry 30 03 02 01 01, no extensions *)
Definition f_cert : bytes := hex "3003020101".
Definition f_kh : bytes := rep 32 (n2b 170).
Definition f_ds : val := VStruct [Some (VStruct [Some (VInt 4); Some (VInt 3)]); Some (VBytes (hex "300602010102010a"))].
Definition f_sig : bytes := hex "04030008300602010102010a".
Definition f_ok (_ : unit) (msg : bytes) (ds : val) : bool :=
  bytes_eqb msg (enc_sct_siginput 1234 (X509E f_cert) []) && V.TLS.TlsCase.val_eqb ds f_ds.
Definition f_rsp (id : bytes) : outcome sct_rsp :=
  Resp (mkResp 200 1 true true true (Some {| a_version := 0; a_id := id; a_ts := 1234; a_ext := Some []; a_sig := f_sig |})).
Definition f_add (v : variant) (chain : list bytes) (id : bytes) : result sct :=
  add_chain unit f_ok (fun _ => f_kh) (fun _ => Some f_cert) (fun _ => None) v (Some tt) chain 0 [f_rsp id].

(* F13 (C12-1): a client holding the log key returns an SCT whose log id is NOT the hash of that
   key: the response's id (here another log's, 32 x 0xBB) is copied unchecked; the signature
   does not cover it.  Conjunct "s_logid s = key_hash k" of add_chain_verified fails. *)
Theorem add_chain_verified_refuted :
  exists (key : Type) (sig_ok : key -> bytes -> val -> bool) (key_hash : key -> bytes) x509_of precert_of k chain et os s,
    length (key_hash k) = 32%nat /\
    add_chain key sig_ok key_hash x509_of precert_of unpatched (Some k) chain et os = COk s /\ ts_ok (s_ts s) /\
    sig_ok k (enc_sct_siginput (s_ts s) (X509E f_cert) (s_ext s)) (s_sig s) = true /\
    s_logid s <> key_hash k.
Proof.
  exists unit, f_ok, (fun _ => f_kh), (fun _ => Some f_cert), (fun _ => None), tt, [hex "00"], 0%N, [f_rsp (rep 32 (n2b 187))],
    {| s_version := 0; s_logid := rep 32 (n2b 187); s_ts := 1234; s_ext := []; s_sig := f_ds |}.
  split; [reflexivity|]. split; [vm_compute; reflexivity|]. split; [reflexivity|]. split; [vm_compute; reflexivity|].
  vm_compute. discriminate.
Qed.

(* ... and a 2-byte id is accepted too: copy() fills two bytes of the zeroed array *)
Theorem add_chain_short_id_accepted :
  f_add unpatched [hex "00"] (hex "aaaa") = COk {| s_version := 0; s_logid := hex "aaaa" ++ rep 30 (n2b 0); s_ts := 1234; s_ext := []; s_sig := f_ds |}.
Proof. vm_compute. reflexivity. Qed.

(* the fixed client refuses both (with the response's status and body) and keeps the good one *)
Theorem add_chain_fixed_on_witnesses :
  f_add patched [hex "00"] (rep 32 (n2b 187)) = CRspErr 200 1 /\
  f_add patched [hex "00"] (hex "aaaa") = CRspErr 200 1 /\
  f_add patched [hex "00"] f_kh = COk {| s_version := 0; s_logid := f_kh; s_ts := 1234; s_ext := []; s_sig := f_ds |}.
Proof. vm_compute. repeat split; reflexivity. Qed.

(* C12-2: AddChain(ctx, nil) on a client with a key panics on ANY parseable 200 response
   (MerkleTreeLeafFromChain indexes chain[0]); "never panics" fails *)
Theorem no_panic_refuted_empty_chain :
  exists os, f_add unpatched [] f_kh = CPanic /\ reported_seq os (f_add patched [] f_kh) /\ os = [f_rsp f_kh].
Proof.
  exists [f_rsp f_kh]. split; [vm_compute; reflexivity|]. split; [|reflexivity].
  vm_compute. exists (f_rsp f_kh). split; [left; reflexivity|].
  eexists. repeat split; reflexivity.
Qed.

(* C12-3: GetEntries reports an undecodable entry of a received 200 response as a plain error,
   without the status and the body; "errors carry the HTTP status and body whenever a response
   was received" fails *)
Definition f_entries : outcome (list (bytes * bytes)) := Resp (mkResp 200 5 true true true (Some [(hex "0000", [])])).
Theorem status_body_refuted_get_entries :
  get_entries (fun _ => POk) (fun _ => POk) unpatched 0 0 f_entries = CPlainErr /\
  ~ reported f_entries (get_entries (fun _ => POk) (fun _ => POk) unpatched 0 0 f_entries) /\
  get_entries (fun _ => POk) (fun _ => POk) patched 0 0 f_entries = CRspErr 200 5.
Proof.
  split; [vm_compute; reflexivity|]. split; [|vm_compute; reflexivity].
  assert (E : get_entries (fun _ => POk) (fun _ => POk) unpatched 0 0 f_entries = CPlainErr) by (vm_compute; reflexivity).
  rewrite E. cbn. intros [H|(r & H & Hc)]; [discriminate|]. inversion H; subst. discriminate.
Qed.
