(* C08 - backend faults and bad requests never surface as success.
   Property theorems only.  [serve] is the model of AppHandler.ServeHTTP around the eight endpoint
   handlers (CTFE/HandlersModel.v); every comparison, nil check and status constant it decides on
   is GENERATED from trillian/ctfe/{handlers,sth,services}.go on every run (gen/HandlerConds.v,
   gen/HttpStatus.v, gen/GetEntries.v).  Quantification is over ALL configurations (masking,
   ErrorMapper as an arbitrary function, chain-storage mode, STH getter), all environments, all
   methods, all parameter byte strings, all backend replies (any code, any size, any list).

   Fault domain: gRPC codes <> OK (1..16 and unknown codes) and non-gRPC errors; grpc's status
   package cannot build a non-nil error with code OK, and toHTTPStatus maps OK to 200.
   Replies are non-nil messages without nil elements (generated gRPC stubs / protobuf).
   Each request issues at most one backend RPC in this tree, so "injected at any call of a request
   sequence" is the sequence theorem at the end. *)
From Coq Require Import ZArith Bool List.
From V Require Import Base.GoInt Base.Bytes gen.HttpStatus gen.GetEntries gen.HandlerConds
  CTFE.HandlersModel CTFE.HandlersSpec CTFE.HandlersProofs CTFE.HandlersFaults CTFE.HandlersStatus.
Import ListNotations.
Open Scope Z_scope.

(* the front end never crashes, whatever the request, the backend reply, the configuration *)
Theorem no_panic : forall cfg e m form_ok r b, serve current_guards cfg e m form_ok r b <> Panic.
Proof. exact serve_no_panic. Qed.
Print Assumptions no_panic.

(* every endpoint x the RPC it issues x every faulty answer (error, missing/garbled root, tree smaller than the
   request needs, surplus / mis-indexed leaves, absent optional parts, wrong-size proof hashes, echoed leaf that
   does not decode): no crash, not 200 but 4xx/5xx, an error page, no SCT signed or recorded, RequestLog <> 200 *)
Theorem fault_never_200 : forall cfg e m form_ok r b,
  sane_mapper cfg -> 1 <= c_maxr cfg <= max_i64 -> faulty cfg r b ->
  match serve current_guards cfg e m form_ok r b with
  | Panic => False
  | Done resp => calls resp <> [] -> refused resp
  end.
Proof. exact serve_fault_never_200. Qed.
Print Assumptions fault_never_200.

(* status reflects cause, 1: a backend error is answered with what the GENERATED toHTTPStatus table says
   (or with what the ErrorMapper says when it claims the error) *)
Theorem status_reflects_cause_rpc_error : forall cfg e m form_ok r b f resp,
  reply_error cfg r b = Some f ->
  serve current_guards cfg e m form_ok r b = Done resp -> calls resp <> [] ->
  error_page resp = true
  /\ (c_mapper cfg (err_of_fault f) = None ->
        status resp = match f with FCode c => to_http_status c | FPlain => 500 end)
  /\ (forall s, c_mapper cfg (err_of_fault f) = Some s -> status resp = s).
Proof. exact serve_rpc_error_status. Qed.
Print Assumptions status_reflects_cause_rpc_error.

(* ... and the generated table: caller-caused codes 4xx, ResourceExhausted 429, Unavailable 503,
   Canceled / DeadlineExceeded 504, every other non-OK code (known or not) 5xx; never 200 *)
Theorem status_reflects_cause_table : forall c, c <> 0 ->
  to_http_status c <> 200
  /\ (caller_caused_code c -> 400 <= to_http_status c < 500)
  /\ (c = 8 -> to_http_status c = 429)
  /\ (c = 14 -> to_http_status c = 503)
  /\ (c = 1 \/ c = 4 -> to_http_status c = 504)
  /\ (~ caller_caused_code c -> c <> 8 -> 500 <= to_http_status c < 600).
Proof. exact ths_table_full. Qed.
Print Assumptions status_reflects_cause_table.

(* status reflects cause, 2: asking beyond the current tree (or, get-proof-by-hash, for an unknown hash) is 4xx *)
Theorem status_reflects_cause_beyond_tree : forall cfg e m form_ok r b resp,
  beyond_tree cfg r b ->
  serve current_guards cfg e m form_ok r b = Done resp -> calls resp <> [] ->
  400 <= status resp < 500 /\ error_page resp = true /\ sct_issued resp = false.
Proof. exact serve_beyond_tree. Qed.
Print Assumptions status_reflects_cause_beyond_tree.

(* status reflects cause, 3: ONLY then - a reply is never blamed on the caller otherwise ... *)
Theorem status_reflects_cause_4xx_only_if_caller_caused : forall cfg e m form_ok r b resp,
  c_mapper cfg EInternal = None -> answered cfg r b ->
  serve current_guards cfg e m form_ok r b = Done resp -> calls resp <> [] ->
  400 <= status resp < 500 -> beyond_tree cfg r b.
Proof. exact serve_4xx_only_if_beyond_tree. Qed.
Print Assumptions status_reflects_cause_4xx_only_if_caller_caused.

(* ... so every other malformed reply is 5xx *)
Theorem status_reflects_cause_malformed_5xx : forall cfg e m form_ok r b resp,
  sane_mapper cfg -> 1 <= c_maxr cfg <= max_i64 -> c_mapper cfg EInternal = None ->
  answered cfg r b -> faulty cfg r b -> ~ beyond_tree cfg r b ->
  serve current_guards cfg e m form_ok r b = Done resp -> calls resp <> [] ->
  500 <= status resp < 600.
Proof. exact serve_malformed_5xx. Qed.
Print Assumptions status_reflects_cause_malformed_5xx.

(* wrong method, unparsable form, missing / malformed / out-of-range parameters (for ALL parameter strings:
   [params_bad] is phrased over parse_int64, the model of strconv.ParseInt, on the raw bytes), bad bodies:
   4xx, an error page, before any backend call, no SCT - whatever the guards *)
Theorem bad_request_rejected_before_backend : forall g cfg e m form_ok r b,
  bad_request cfg m form_ok r ->
  exists resp, serve g cfg e m form_ok r b = Done resp
    /\ 400 <= status resp < 500 /\ calls resp = [] /\ sct_issued resp = false /\ error_page resp = true.
Proof. exact serve_rejects_bad_request. Qed.
Print Assumptions bad_request_rejected_before_backend.

(* the ParseInt outcome classes: every byte string is an int64 value or an error; the empty (missing) string,
   a string with a non-digit after the first byte, and a non-digit non-sign first byte are errors *)
Theorem parse_int_outcome_classes : forall s,
  (parse_int64 s = None \/ exists z, parse_int64 s = Some z /\ in_i64 z)
  /\ (s = [] -> parse_int64 s = None)
  /\ (forall b r, s = b :: r -> (exists x, In x r /\ digit x = None) -> parse_int64 s = None)
  /\ (forall b r, s = b :: r -> digit b = None -> is_plus b = false -> is_minus b = false -> parse_int64 s = None).
Proof. exact parse_int64_outcomes. Qed.
Print Assumptions parse_int_outcome_classes.

(* with masking on, a 500 response carries no error text; text appears only on error pages and only when
   masking is off or the status is not 500 (GENERATED condition of SendHTTPError) *)
Theorem masking_hides_500_text : forall g cfg e m form_ok r b resp,
  serve g cfg e m form_ok r b = Done resp ->
  (c_mask cfg = true -> status resp = 500 -> detail resp = false)
  /\ (detail resp = true -> error_page resp = true /\ (c_mask cfg = false \/ status resp <> 500))
  /\ (error_page resp = true -> (c_mask cfg = false \/ status resp <> 500) -> detail resp = true).
Proof. exact serve_masking. Qed.
Print Assumptions masking_hides_500_text.

(* a non-200 answer always is an error page; a non-error answer is 200 and logged as 200; and the handlers never
   return non-200 without an error, so RequestLog.Status is the status sent *)
Theorem non200_must_carry_error : forall g cfg e m form_ok r b resp,
  serve g cfg e m form_ok r b = Done resp ->
  (status resp <> 200 -> error_page resp = true)
  /\ (error_page resp = false -> status resp = 200 /\ logged resp = 200)
  /\ logged resp = status resp.
Proof. exact serve_non200_full. Qed.
Print Assumptions non200_must_carry_error.

(* the global rule: an SCT is recorded as issued only on the 200 path (the one exception is not a backend
   fault: the HTTP response could not be written to the client after signing) *)
Theorem sct_only_on_success : forall g cfg e m form_ok r b resp,
  serve g cfg e m form_ok r b = Done resp -> sct_issued resp = true ->
  (status resp = 200 /\ error_page resp = false)
  \/ (write_ok e = false /\ status resp = 500 /\ error_page resp = true).
Proof. exact serve_sct_only_on_success. Qed.
Print Assumptions sct_only_on_success.

(* a fault injected at ANY position of ANY request sequence against one instance *)
Theorem fault_never_200_in_any_sequence : forall cfg rs,
  sane_mapper cfg -> 1 <= c_maxr cfg <= max_i64 ->
  Forall2 (fun x o => match x with (e, m, fo, r, b) =>
             o <> Panic /\ (faulty cfg r b -> forall resp, o = Done resp -> calls resp <> [] -> refused resp) end)
          rs (serve_seq current_guards cfg rs).
Proof. exact serve_seq_fault_never_200. Qed.
Print Assumptions fault_never_200_in_any_sequence.

(* ---- non-vacuity: the hypotheses are satisfiable by real scenarios, and the success path exists *)
Definition ex_cfg : config :=
  {| c_mask := true; c_mapper := fun ec => match ec with ECode c => if c =? 5 then Some 410 else None | _ => None end;
     c_indirect := true; c_sth := SthLog; c_maxr := 1000; c_align := true |}.
Definition ex_env : env := {| signer_ok := true; write_ok := true; store_ok := true |}.
Definition ex_bk (q : reply queue_reply) (ea : reply eap_reply) : backend :=
  {| b_queue := q; b_root := RpcErr FPlain; b_mirror := RpcErr FPlain; b_cons := RpcErr FPlain;
     b_incl := RpcErr FPlain; b_leaves := RpcErr FPlain; b_entry := ea |}.

Example ex_sane : sane_mapper ex_cfg /\ 1 <= c_maxr ex_cfg <= max_i64.
Proof.
  split; [|vm_compute; split; discriminate].
  intros ec s. destruct ec as [c| |]; cbn; try discriminate.
  destruct (c =? 5); [|discriminate]. intros H; inversion H; subst. split; [discriminate|reflexivity].
Qed.

(* add-chain: success issues an SCT with 200; DeadlineExceeded gives 504, a leaf that does not decode 500 (masked), no SCT *)
Example ex_add_chain :
  (exists r0, serve current_guards ex_cfg ex_env MPost true (ReqAddChain false ChainOK) (ex_bk (Reply (QLeaf Decodes)) (RpcErr FPlain)) = Done r0
      /\ status r0 = 200 /\ sct_issued r0 = true /\ calls r0 = [RpcQueueLeaf])
  /\ faulty ex_cfg (ReqAddChain false ChainOK) (ex_bk (RpcErr (FCode 4)) (RpcErr FPlain))
  /\ (exists r1, serve current_guards ex_cfg ex_env MPost true (ReqAddChain false ChainOK) (ex_bk (RpcErr (FCode 4)) (RpcErr FPlain)) = Done r1
      /\ status r1 = 504 /\ sct_issued r1 = false /\ calls r1 = [RpcQueueLeaf] /\ detail r1 = true)
  /\ faulty ex_cfg (ReqAddChain false ChainOK) (ex_bk (Reply (QLeaf Undecodable)) (RpcErr FPlain))
  /\ (exists r2, serve current_guards ex_cfg ex_env MPost true (ReqAddChain false ChainOK) (ex_bk (Reply (QLeaf Undecodable)) (RpcErr FPlain)) = Done r2
      /\ status r2 = 500 /\ sct_issued r2 = false /\ detail r2 = false).
Proof.
  split; [eexists; split; [vm_compute; reflexivity|repeat split; reflexivity]|].
  split; [cbn; discriminate|].
  split; [eexists; split; [vm_compute; reflexivity|repeat split; reflexivity]|].
  split; [exact I|].
  eexists; split; [vm_compute; reflexivity|repeat split; reflexivity].
Qed.

(* get-entry-and-proof?leaf_index=7&tree_size=10 against a tree of 5 (root-only reply, external storage): 400;
   the same with NotFound mapped by the ErrorMapper: 410; bad parameter "1x": 400 without a backend call *)
Example ex_entry_and_proof :
  let rq := ReqEntryAndProof [Byte.x37] [Byte.x31; Byte.x30] in
  let small := ex_bk (RpcErr FPlain) (Reply {| er_root := RootOk 5 32; er_leaf := LeafAbsent; er_proof := None |}) in
  beyond_tree ex_cfg rq small /\ faulty ex_cfg rq small
  /\ (exists r1, serve current_guards ex_cfg ex_env MGet true rq small = Done r1 /\ status r1 = 400 /\ calls r1 = [RpcGetEntryAndProof])
  /\ (exists r2, serve current_guards ex_cfg ex_env MGet true rq (ex_bk (RpcErr FPlain) (RpcErr (FCode 5))) = Done r2 /\ status r2 = 410)
  /\ bad_request ex_cfg MGet true (ReqEntryAndProof [Byte.x31; Byte.x78] [Byte.x31; Byte.x30])
  /\ (exists r3, serve current_guards ex_cfg ex_env MGet true (ReqEntryAndProof [Byte.x31; Byte.x78] [Byte.x31; Byte.x30]) small = Done r3
        /\ status r3 = 400 /\ calls r3 = []).
Proof.
  cbv zeta. split.
  - cbn. exists 10, 5, 32, LeafAbsent, None. repeat split; try reflexivity. intros _ k H; discriminate.
  - split; [cbn; left; reflexivity|].
    split; [eexists; split; [vm_compute; reflexivity|split; reflexivity]|].
    split; [eexists; split; [vm_compute; reflexivity|reflexivity]|].
    split; [right; right; cbn; exact I|].
    eexists; split; [vm_compute; reflexivity|split; reflexivity].
Qed.
