(* C15 - configuration validation is total and the instance matches its configuration.
   Property theorems only; each is closed by [exact] of a lemma proved elsewhere.

   The model (CTFE/ConfigModel.v) is that of the tree WITH pending_fixes/C15-1..3 applied; its
   `if` conditions are gen/Config.v (gofrag) and its tables / switches gen/ConfigTables.v
   (cfggen), both regenerated from the Go source on every run.  The behaviour of the unpatched
   tree is refuted in Findings/C15Prefix.v (re-exported at the end of this file).

   [my] / [pg] are the two external DSN parsers (mysql.ParseDSN, pgconn.ParseConfig) as
   arbitrary functions; key / timestamp / STH parse outcomes are carried in the abstract
   configuration.  Every theorem holds for ALL configurations and all such oracles. *)
From Coq Require Import ZArith List String Lia.
From V Require Import Base.GoInt gen.Config gen.ConfigTables CTFE.ConfigModel
  CTFE.ConfigProofs CTFE.ConfigSetProofs CTFE.ConfigInstanceProofs Findings.C15Prefix.
Import ListNotations.
Open Scope string_scope.
Open Scope Z_scope.

(* No entry point of configuration validation panics: ValidateLogConfig, ValidateLogConfigs,
   BuildLogBackendMap, ValidateLogMultiConfig, and the three file pipelines of ct_server
   (LogConfigFromFile -> ValidateLogConfigs; LogConfigFromFile -> ToMultiLogConfig ->
   ValidateLogMultiConfig; MultiLogConfigFromFile -> ValidateLogMultiConfig) - including
   absent sub-messages and a connection string without "://". *)
Theorem validate_never_panics : forall (my pg : string -> bool),
  (forall c, validate_log_config my pg c <> Panic) /\
  (forall cfgs, validate_log_configs my pg cfgs <> Panic) /\
  (forall lbs, build_backend_map lbs <> BPanic) /\
  (forall m, validate_log_multi_config my pg m <> Panic) /\
  (forall parsed, file_single my pg parsed <> Panic) /\
  (forall parsed spec, file_single_as_multi my pg parsed spec <> Panic) /\
  (forall parsed, file_multi my pg parsed <> Panic).
Proof. exact all_entry_points_total. Qed.
Print Assumptions validate_never_panics.

(* A single log configuration is accepted exactly when it is well-formed; [wellformed_log]
   is the conjunction, clause by clause, of: non-zero log id; public key parses and is
   present for mirrors and frozen logs; private key present and usable for non-mirrors, absent
   for mirrors; not rejecting every certificate; EKU names known (up to the first "Any");
   NotAfter bounds valid and not (limit before start); merge delays non-negative and ordered;
   frozen STH well-formed and verifying under a usable public key; a usable connection string
   when the CTFE storage backend is selected. *)
Theorem accept_iff_wellformed : forall (my pg : string -> bool) c,
  validate_log_config my pg c = Accept <->
  wf_log_id c /\ wf_public_key c /\ wf_private_key c /\ wf_not_reject_all c /\ wf_ekus c /\
  wf_window c /\ wf_merge_delays c /\ wf_frozen c /\ wf_conn my pg c.
Proof. exact validate_log_config_iff. Qed.
Print Assumptions accept_iff_wellformed.

(* the names ValidateLogConfig knows are exactly the twelve documented ones *)
Theorem known_eku_names : forall n,
  known_eku n <->
  In n ["Any"; "ServerAuth"; "ClientAuth"; "CodeSigning"; "EmailProtection"; "IPSECEndSystem";
        "IPSECTunnel"; "IPSECUser"; "TimeStamping"; "OCSPSigning"; "MicrosoftServerGatedCrypto";
        "NetscapeServerGatedCrypto"].
Proof. exact known_eku_names_lemma. Qed.
Print Assumptions known_eku_names.

(* single-backend set (ValidateLogConfigs): every log well-formed, prefixes non-empty and
   pairwise distinct, tree ids pairwise distinct *)
Theorem configs_accept_iff_wellformed : forall (my pg : string -> bool) cfgs,
  validate_log_configs my pg cfgs = Accept <->
  Forall (wellformed_log my pg) cfgs /\
  (Forall (fun c => lc_prefix c <> "") cfgs /\ NoDup (map lc_prefix cfgs)) /\
  NoDup (map lc_log_id cfgs).
Proof. exact validate_log_configs_iff. Qed.
Print Assumptions configs_accept_iff_wellformed.

(* BuildLogBackendMap succeeds exactly on a present backend set with non-empty, pairwise
   distinct names and non-empty, pairwise distinct specifications, and returns those names *)
Theorem backend_map_iff_unique_nonempty : forall lbs ns,
  build_backend_map lbs = BOk ns <->
  exists bes, lbs = Some bes /\
    (Forall (fun be => be_name be <> "" /\ be_spec be <> "") bes /\
     NoDup (map be_name bes) /\ NoDup (map be_spec bes)) /\
    ns = rev (map be_name bes).
Proof. exact build_backend_map_ok. Qed.
Print Assumptions backend_map_iff_unique_nonempty.

(* multi-backend configuration (ValidateLogMultiConfig): both sub-messages present, backends
   uniquely named with unique non-empty specifications, every log well-formed, prefixes
   non-empty and unique, every log refers to a defined backend, tree ids unique per backend *)
Theorem multi_accept_iff_wellformed : forall (my pg : string -> bool) m,
  validate_log_multi_config my pg m = Accept <->
  exists bes cfgs,
    mc_backends m = Some bes /\ mc_log_configs m = Some cfgs /\
    (Forall (fun be => be_name be <> "" /\ be_spec be <> "") bes /\
     NoDup (map be_name bes) /\ NoDup (map be_spec bes)) /\
    Forall (wellformed_log my pg) cfgs /\
    (Forall (fun c => lc_prefix c <> "") cfgs /\ NoDup (map lc_prefix cfgs)) /\
    Forall (fun c => In (lc_backend_name c) (map be_name bes)) cfgs /\
    NoDup (map (fun c => (lc_backend_name c, lc_log_id c)) cfgs).
Proof. exact validate_log_multi_config_iff. Qed.
Print Assumptions multi_accept_iff_wellformed.

(* An instance exposes add-chain (and add-pre-chain) under its normalised prefix if and only
   if the log is neither a mirror nor read-only; every other endpoint is always exposed. *)
Theorem handlers_iff_writable : forall c e inst,
  set_up_instance c e = Some inst ->
  (In (norm_prefix (lc_prefix c) ++ path_add_chain) (i_handlers inst) <->
     lc_is_mirror c = false /\ lc_is_readonly c = false) /\
  (In (norm_prefix (lc_prefix c) ++ path_add_pre_chain) (i_handlers inst) <->
     lc_is_mirror c = false /\ lc_is_readonly c = false) /\
  (forall x, In x handler_paths -> x <> path_add_chain -> x <> path_add_pre_chain ->
     In (norm_prefix (lc_prefix c) ++ x) (i_handlers inst)).
Proof. exact handlers_iff_writable_lemma. Qed.
Print Assumptions handlers_iff_writable.

(* the STH getter of an instance is determined by its configuration: frozen first, then mirror *)
Theorem getter_matches_config : forall c e inst,
  set_up_instance c e = Some inst ->
  i_getter inst = match lc_frozen_sth c with
                  | Some s => GFrozen s
                  | None => if lc_is_mirror c then GMirror else GLog
                  end.
Proof. exact getter_matches_config_lemma. Qed.
Print Assumptions getter_matches_config.

(* A frozen log serves its frozen STH and nothing else: whatever the backend would reply,
   whatever the mirror storage holds, whether or not signing works - and without asking. *)
Theorem frozen_serves_only_frozen : forall c e inst s backend storage sign_ok,
  set_up_instance c e = Some inst -> lc_frozen_sth c = Some s ->
  get_sth (i_getter inst) backend storage sign_ok =
    {| r_result := SthOk (wrapu (sth_tree_size s)) (wrapu (sth_timestamp s));
       r_backend_calls := 0; r_storage_arg := None |}.
Proof. exact frozen_serves_only_frozen_lemma. Qed.
Print Assumptions frozen_serves_only_frozen.

(* A (non-frozen) mirror never serves an STH larger than its backend tree - PROVIDED the
   MirrorSTHStorage honours its documented contract (TreeSize <= maxTreeSize), which
   MirrorSTHGetter relies on without checking.  [n] is the backend's uint64 tree size. *)
Theorem mirror_sth_le_backend : forall c e inst n t storage sign_ok sz ts,
  set_up_instance c e = Some inst ->
  lc_is_mirror c = true -> lc_frozen_sth c = None ->
  storage_contract storage -> 0 <= n ->
  r_result (get_sth (i_getter inst) (BRoot n t) storage sign_ok) = SthOk sz ts ->
  0 <= sz <= n.
Proof. exact mirror_sth_le_backend_lemma. Qed.
Print Assumptions mirror_sth_le_backend.

(* what SetUpInstance insists on beyond validation: roots for a non-mirror, loadable roots, a
   working signer whose public key matches the configured one, a known storage backend *)
Theorem setup_requirements : forall c e inst,
  set_up_instance c e = Some inst ->
  (lc_is_mirror c = false -> 0 < lc_n_roots c \/ lc_n_roots c < 0) /\
  se_roots_load_ok e = true /\
  (lc_is_mirror c = false -> se_signer_ok e = true /\ (lc_public_key c <> None -> se_key_match e = true)) /\
  In (lc_storage_backend c) setup_storage_arms.
Proof. exact set_up_requires. Qed.
Print Assumptions setup_requirements.

(* ---- the unpatched tree violates the property (Findings/C15Prefix.v) ---- *)

Theorem prefix_conn_without_separator_panics_refuted :
  exists c, forall my pg, validate_log_config_prefix my pg c = Panic.
Proof. exact C15Prefix.prefix_conn_without_separator_panics_refuted. Qed.
Print Assumptions prefix_conn_without_separator_panics_refuted.

(* on every "mysql..." connection string without "://" the unpatched check panics, the patched rejects *)
Theorem prefix_every_separatorless_mysql_string_panics : forall my pg c,
  lc_storage_backend c = backend_CTFE -> has_prefix (lc_conn c) "mysql" = true ->
  ~ (exists a b, lc_conn c = a ++ "://" ++ b) ->
  check_conn_prefix my pg c = Panic /\ check_conn my pg c = Reject.
Proof. exact C15Prefix.prefix_every_separatorless_mysql_string_panics. Qed.
Print Assumptions prefix_every_separatorless_mysql_string_panics.

Theorem prefix_absent_backends_panics_refuted :
  exists m, forall my pg, validate_log_multi_config_prefix my pg m = Panic.
Proof. exact C15Prefix.prefix_absent_backends_panics_refuted. Qed.
Print Assumptions prefix_absent_backends_panics_refuted.

Theorem prefix_absent_log_configs_panics_refuted :
  exists m, mc_backends m <> None /\ forall my pg, validate_log_multi_config_prefix my pg m = Panic.
Proof. exact C15Prefix.prefix_absent_log_configs_panics_refuted. Qed.
Print Assumptions prefix_absent_log_configs_panics_refuted.

Theorem prefix_tree_id_key_collision_refuted :
  exists m, forall my pg, wellformed_multi my pg m /\ validate_log_multi_config_prefix my pg m = Reject.
Proof. exact C15Prefix.prefix_tree_id_key_collision_refuted. Qed.
Print Assumptions prefix_tree_id_key_collision_refuted.

(* ---- non-vacuity ---- *)

Definition yes (_ : string) : bool := true.

Definition example_key : pubkey := {| pk_parses := true; pk_verifier_ok := true |}.
Definition example_sth : sth :=
  {| sth_tree_size := 1000; sth_timestamp := 1700000000000; sth_root_len := 32;
     sth_sig_parses := true; sth_sig_verifies := true |}.

(* an ordinary sharded log with external MySQL storage *)
Definition example_log : LogConfig :=
  {| lc_log_id := 6962; lc_prefix := "shard2025"; lc_n_roots := 1;
     lc_private_key := Some true; lc_public_key := Some example_key;
     lc_reject_expired := true; lc_reject_unexpired := false;
     lc_ext_key_usages := ["ServerAuth"; "ClientAuth"];
     lc_not_after_start := Some {| ts_seconds := 1735689600; ts_nanos := 0 |};
     lc_not_after_limit := Some {| ts_seconds := 1767225600; ts_nanos := 0 |};
     lc_backend_name := "primary"; lc_is_mirror := false; lc_is_readonly := false;
     lc_max_merge_delay := 86400; lc_expected_merge_delay := 7200;
     lc_frozen_sth := None; lc_conn := "mysql://ctfe:pw@tcp(db:3306)/chains";
     lc_storage_backend := backend_CTFE |}.

(* a frozen mirror *)
Definition example_mirror (frozen : option sth) : LogConfig :=
  {| lc_log_id := 7; lc_prefix := "/mirror/"; lc_n_roots := 0;
     lc_private_key := None; lc_public_key := Some example_key;
     lc_reject_expired := false; lc_reject_unexpired := false; lc_ext_key_usages := [];
     lc_not_after_start := None; lc_not_after_limit := None;
     lc_backend_name := "primary"; lc_is_mirror := true; lc_is_readonly := false;
     lc_max_merge_delay := 0; lc_expected_merge_delay := 0;
     lc_frozen_sth := frozen; lc_conn := ""; lc_storage_backend := backend_TRILLIAN_GRPC |}.

Definition good_env : setup_env :=
  {| se_roots_load_ok := true; se_signer_ok := true; se_key_match := true; se_oids_ok := true |}.

Example accepted_configurations :
  validate_log_config yes yes example_log = Accept /\
  validate_log_config yes yes (example_mirror (Some example_sth)) = Accept /\
  validate_log_multi_config yes yes
    {| mc_backends := Some [ {| be_name := "primary"; be_spec := "dns:///trillian:8090" |} ];
       mc_log_configs := Some [example_log; example_mirror None] |} = Accept.
Proof. vm_compute. repeat split. Qed.

Example instances :
  option_map i_handlers (set_up_instance example_log good_env) =
    Some (map (append "/shard2025") handler_paths) /\
  option_map i_handlers (set_up_instance (example_mirror None) good_env) =
    Some ["/mirror/ct/v1/get-sth"; "/mirror/ct/v1/get-sth-consistency"; "/mirror/ct/v1/get-proof-by-hash";
          "/mirror/ct/v1/get-entries"; "/mirror/ct/v1/get-roots"; "/mirror/ct/v1/get-entry-and-proof"] /\
  option_map i_getter (set_up_instance (example_mirror (Some example_sth)) good_env) = Some (GFrozen example_sth) /\
  option_map i_getter (set_up_instance (example_mirror None) good_env) = Some GMirror.
Proof. vm_compute. repeat split. Qed.

(* the contract hypothesis of mirror_sth_le_backend is satisfiable, and then it bites *)
Example honest_mirror :
  storage_contract (honest_storage [(10, 1); (20, 2); (30, 3)]) /\
  r_result (get_sth GMirror (BRoot 25 0) (honest_storage [(10, 1); (20, 2); (30, 3)]) false) = SthOk 20 2.
Proof.
  split; [apply honest_storage_meets_contract; repeat constructor; simpl; lia | vm_compute; reflexivity].
Qed.
