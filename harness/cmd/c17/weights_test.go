// Stream W of the C17 harness: multi-step HISTORIES on the ctpolicy group API.
//
// The weights of a LogGroupInfo decide the submission session of its group race (a log with
// weight 0 is never sampled), and they are the only state of a policy group that outlives a
// call.  The other streams build their groups, submit once and throw them away; here one
// LogPolicyData lives through a history of
//
//	SetLogWeights (bulk)   accepted / refused: too few positive member weights for MinInclusions
//	                       (0 .. need-1 of them, with or without positive weights of FOREIGN logs
//	                       that must not count), exactly enough, plenty, a negative weight, empty map
//	SetLogWeight  (single) accepted / refused: foreign log, negative, zeroing a log the group
//	                       cannot spare, zeroing one it can, raising a zero, changing a positive
//	GetSubmissionSession   the session drawn from the weights as they are now
//	GetSCTs                a whole submission (virtual time, scripted logs) over the groups as they are now
//
// with every update followed, more often than not, by an observation of the same group.
//
// Oracle (independent reference): the harness keeps its own copy of every group's weights,
// updated by hand from the documented contract - a refused call "does not reset weights and
// returns error", an accepted bulk call sets every member to the supplied weight or 0, an
// accepted single call sets that one log.  After EVERY call the group's weights have to equal
// the reference copy (so: unchanged by a refused call), a session has to be exactly the logs
// with positive reference weight, each once, and a submission is judged by the property's
// sentences (propRun) against the sessions the REFERENCE weights allow: when enough of those
// logs answer and the caller does not cancel, GetSCTs reports success with a policy-satisfying set.
package main

import (
	"context"
	"fmt"
	"math"
	mrand "math/rand"
	"sort"
	"strings"
	"testing"

	ct "github.com/google/certificate-transparency-go"
	"github.com/google/certificate-transparency-go/ctpolicy"
	"github.com/google/certificate-transparency-go/submission"

	"verif/harness/lib"
)

// refGroup: the harness's own copy of one group's weights.
type refGroup struct {
	logs []int
	min  int
	w    map[int]float32
}

func (g *refGroup) member(l int) bool { return contains(g.logs, l) }

func (g *refGroup) positives() []int {
	var out []int
	for _, l := range g.logs {
		if g.w[l] > 0 {
			out = append(out, l)
		}
	}
	sort.Ints(out)
	return out
}

func (g *refGroup) copyW() map[int]float32 {
	m := map[int]float32{}
	for _, l := range g.logs {
		m[l] = g.w[l]
	}
	return m
}

// reaches: "enough positive weights to reach the minimal inclusion number".  unclear: a group
// that needs nothing offered no positive weight at all - the contract's sentence is satisfied,
// the code has always refused; the reference then follows whichever verdict was observed.
func (g *refGroup) reaches(positive int) (ok, unclear bool) {
	if g.min <= 0 && positive == 0 {
		return false, true
	}
	return positive >= g.min, false
}

// setAll: the contract of SetLogWeights; returns whether the call is to be refused.
func (g *refGroup) setAll(ws map[int]float32, observedErr bool) bool {
	n := 0
	for l, w := range ws {
		if w < 0 {
			return true
		}
		if g.member(l) && w > 0 {
			n++
		}
	}
	ok, unclear := g.reaches(n)
	if unclear {
		ok = !observedErr
	}
	if !ok {
		return true
	}
	for _, l := range g.logs {
		g.w[l] = ws[l] // absent = 0
	}
	return false
}

// setOne: the contract of SetLogWeight.
func (g *refGroup) setOne(l int, w float32, observedErr bool) bool {
	if !g.member(l) || w < 0 {
		return true
	}
	n := 0
	for _, k := range g.logs {
		x := g.w[k]
		if k == l {
			x = w
		}
		if x > 0 {
			n++
		}
	}
	ok, unclear := g.reaches(n)
	if unclear {
		ok = !observedErr
	}
	if !ok {
		return true
	}
	g.w[l] = w
	return false
}

// one step of a history: what is done ...
type wStepIn struct {
	Op      string            `json:"op"` // set-weights set-weight session submit
	Group   int               `json:"group,omitempty"`
	Class   string            `json:"class,omitempty"`
	Weights map[int]float32   `json:"weights,omitempty"`
	Log     int               `json:"log,omitempty"`
	Weight  float32           `json:"weight,omitempty"`
	Scripts map[int]logScript `json:"scripts,omitempty"`
	Ctx     *ctxSpec          `json:"context,omitempty"`
}

// ... what the implementation did, and what the reference copy says
type wStepObs struct {
	Op           string          `json:"op"`
	Err          bool            `json:"returned_error,omitempty"`
	After        map[int]float32 `json:"weights_after,omitempty"`
	Session      []int           `json:"session,omitempty"`
	Run          *runObs         `json:"run,omitempty"`
	RefRefused   bool            `json:"reference_refuses,omitempty"`
	RefWeights   map[int]float32 `json:"reference_weights,omitempty"`
	RefSessions  map[int][]int   `json:"reference_sessions,omitempty"`
	AfterRefused bool            `json:"follows_a_refused_update,omitempty"`
}

func quarters(w float32) int64 { return int64(math.Round(float64(w) * 4)) }

func coqW(m map[int]float32) string {
	var ks []int
	for k := range m {
		ks = append(ks, k)
	}
	sort.Ints(ks)
	var xs []string
	for _, k := range ks {
		xs = append(xs, lib.Pair(lib.Nn(uint64(k)), lib.Z(quarters(m[k]))))
	}
	return lib.List(xs)
}

func readWeights(gi *ctpolicy.LogGroupInfo) map[int]float32 {
	m := map[int]float32{}
	for u, w := range gi.LogWeights {
		m[idOf(u)] = w
	}
	return m
}

func sameWeights(a, b map[int]float32) bool {
	if len(a) != len(b) {
		return false
	}
	for k, v := range a {
		if w, ok := b[k]; !ok || w != v {
			return false
		}
	}
	return true
}

var positiveWeights = []float32{0.25, 0.5, 1, 1, 2.5, 5}

func posW(r *mrand.Rand) float32 { return positiveWeights[r.Intn(len(positiveWeights))] }

// foreignLogs: logs that are not members of g - members of the other groups first, then logs
// no group knows.
func foreignLogs(g *refGroup, ids []int) []int {
	var out []int
	for _, l := range ids {
		if !g.member(l) {
			out = append(out, l)
		}
	}
	return append(out, 91, 92)
}

// genSetAll draws the argument of a bulk update, aimed at the boundary of the validation.
func genSetAll(r *mrand.Rand, g *refGroup, ids []int) (map[int]float32, string) {
	need := g.min
	if need < 1 {
		need = 1
	}
	ws := map[int]float32{}
	perm := r.Perm(len(g.logs))
	fill := func(k int) { // k members positive, the others zero or absent
		for i, p := range perm {
			switch {
			case i < k:
				ws[g.logs[p]] = posW(r)
			case r.Intn(2) == 0:
				ws[g.logs[p]] = 0
			}
		}
	}
	foreign := func(n int) {
		fl := foreignLogs(g, ids)
		for i := 0; i < n; i++ {
			ws[fl[r.Intn(len(fl))]] = posW(r)
		}
	}
	class := ""
	switch x := r.Intn(20); {
	case x < 7: // refused: fewer positive member weights than needed
		k := r.Intn(need)
		if k > len(g.logs) {
			k = len(g.logs)
		}
		fill(k)
		class = "too-few"
		if r.Intn(2) == 0 { // ... made up for by foreign logs, which must not count
			foreign(need - k + r.Intn(2))
			class = "too-few+foreign"
		}
	case x < 10:
		if need <= len(g.logs) {
			fill(need)
			class = "exactly-enough"
		} else {
			fill(len(g.logs))
			class = "all-members-still-too-few"
		}
		if r.Intn(3) == 0 {
			foreign(1)
		}
	case x < 14:
		k := len(g.logs)
		if need < k {
			k = need + r.Intn(len(g.logs)-need+1)
		}
		fill(k)
		class = "plenty"
		if r.Intn(3) == 0 {
			foreign(1)
		}
	case x < 16: // an otherwise acceptable map with one negative weight
		fill(len(g.logs))
		class = "negative-member"
		if len(g.logs) > 0 && r.Intn(2) == 0 {
			ws[g.logs[r.Intn(len(g.logs))]] = []float32{-0.25, -1}[r.Intn(2)]
		} else {
			fl := foreignLogs(g, ids)
			ws[fl[r.Intn(len(fl))]] = []float32{-0.25, -1}[r.Intn(2)]
			class = "negative-foreign"
		}
	case x < 17:
		class = "empty"
	case x < 18:
		foreign(need + 1)
		class = "foreign-only"
	default:
		for _, l := range g.logs {
			switch r.Intn(3) {
			case 0:
				ws[l] = posW(r)
			case 1:
				ws[l] = 0
			}
		}
		class = "random"
	}
	return ws, class
}

// genSetOne draws the arguments of a single update.
func genSetOne(r *mrand.Rand, g *refGroup, ids []int) (int, float32, string) {
	pos := g.positives()
	var zeros []int
	for _, l := range g.logs {
		if g.w[l] == 0 {
			zeros = append(zeros, l)
		}
	}
	switch x := r.Intn(10); {
	case x < 1:
		fl := foreignLogs(g, ids)
		return fl[r.Intn(len(fl))], posW(r), "foreign"
	case x < 2 && len(g.logs) > 0:
		return g.logs[r.Intn(len(g.logs))], []float32{-0.25, -1}[r.Intn(2)], "negative"
	case x < 6 && len(pos) > 0: // refused exactly when the group cannot spare the log
		class := "zero-a-spare-log"
		if len(pos) <= g.min || len(pos) == 1 {
			class = "zero-a-needed-log"
		}
		return pos[r.Intn(len(pos))], 0, class
	case x < 8 && len(zeros) > 0:
		return zeros[r.Intn(len(zeros))], posW(r), "raise-a-zero"
	case len(pos) > 0:
		return pos[r.Intn(len(pos))], posW(r), "change-a-positive"
	}
	return 91, 1, "foreign"
}

func streamWeights(t *testing.T, r *mrand.Rand, w adder, n int) {
	for i := 0; i < n; i++ {
		gs, ids, kind := genGroups(r)
		if i%4 == 0 { // the policies of the field: every weight 1, the total at 2..5
			gs, ids, kind = fieldGroups(r)
		}
		groups := mkPolicyData(gs)
		ref := map[int]*refGroup{}
		var gnames []int
		initW := map[int]map[int]float32{}
		for _, g := range gs {
			rg := &refGroup{logs: append([]int(nil), g.Logs...), min: g.Min, w: map[int]float32{}}
			for _, l := range g.Logs {
				rg.w[l] = 0
				if contains(g.Sess, l) {
					rg.w[l] = 1
				}
			}
			ref[g.Name] = rg
			initW[g.Name] = rg.copyW()
			gnames = append(gnames, g.Name)
		}
		curGroups := func() []groupSpec { // the policy with the sessions the reference weights allow
			out := make([]groupSpec, len(gs))
			for k, g := range gs {
				out[k] = groupSpec{g.Name, g.Logs, g.Min, g.IsBase, ref[g.Name].positives()}
			}
			return out
		}
		var ins []wStepIn
		var obs []wStepObs
		var coqOps []string
		tags := map[string]bool{"W:" + kind: true}
		ok, note := true, ""
		// Every step the oracle objects to is kept; the note is the first one.  A submission that hangs
		// on a submitter ignoring the cancellation of its context (the fairness premise of the property
		// fails; the open finding of stream B, same note) does not get in the way of a later objection
		// of another kind in the same history: it becomes the note only if nothing else is objected to.
		var failures []string
		deafNote := ""
		fail := func(step int, s string) {
			failures = append(failures, fmt.Sprintf("step=%d %s", step, s))
			if strings.Contains(s, "in-flight-ignores-cancellation") {
				if deafNote == "" {
					deafNote = fmt.Sprintf("%s in-weights-history step=%d", s, step)
				}
				return
			}
			if ok {
				ok, note = false, fmt.Sprintf("weights step=%d %s", step, s)
			}
		}
		lastRefused := map[int]bool{} // group -> its latest update was refused
		submits := 0

		doSession := func(gn int) {
			step := len(ins)
			gi := groups[groupName(gn)]
			var sess []int
			for _, u := range gi.GetSubmissionSession() {
				sess = append(sess, idOf(u))
			}
			want := ref[gn].positives()
			got := append([]int(nil), sess...)
			sort.Ints(got)
			ins = append(ins, wStepIn{Op: "session", Group: gn})
			obs = append(obs, wStepObs{Op: "session", Session: sess, RefSessions: map[int][]int{gn: want}, AfterRefused: lastRefused[gn]})
			coqOps = append(coqOps, fmt.Sprintf("WSession %s %s", lib.Nn(uint64(gn)), nlist(sess)))
			tags[fmt.Sprintf("W:session:after-refused-update=%v", lastRefused[gn])] = true
			if !eqInts(got, want) {
				fail(step, fmt.Sprintf("session-is-not-the-logs-with-positive-weight group=%d after-refused-update=%v have=%d want=%d", gn, lastRefused[gn], len(got), len(want)))
			}
		}
		doSubmit := func() {
			step := len(ins)
			submits++
			sc := genScripts(r, ids, []int{100, 95, 75}[r.Intn(3)])
			cs := pickCtx(r)
			cur := curGroups()
			o := runBubble(t, cs, func(ctx context.Context, rc *recorder) ([]int, bool) {
				res, err := submission.GetSCTs(ctx, &scriptedSubmitter{rc, sc}, []ct.ASN1Cert{{Data: []byte{4, 5, 6}}}, false, groups)
				return sctIDs(res), err == nil
			})
			anyRefused := false
			for _, v := range lastRefused {
				anyRefused = anyRefused || v
			}
			rs := map[int][]int{}
			for _, g := range cur {
				rs[g.Name] = g.Sess
			}
			ins = append(ins, wStepIn{Op: "submit", Scripts: sc, Ctx: &cs})
			obs = append(obs, wStepObs{Op: "submit", Run: o, RefSessions: rs, AfterRefused: anyRefused})
			coqOps = append(coqOps, fmt.Sprintf("WSubmit %s %s %s %s", coqEvs(o.Evs), nlist(o.SCTs), lib.Bool(o.OK), coqReqs(ids, o.Counts)))
			tags[fmt.Sprintf("W:submit:after-refused-update=%v", anyRefused)] = true
			tags["W:submit:"+outcomeTag(o)] = true
			if enough(cur, sc) && goodCfg(cur) {
				tags[fmt.Sprintf("W:submit:enough-logs-answer+after-refused-update=%v", anyRefused)] = true
			}
			pok, pnote := propRun(cur, sc, o, nil, cs)
			if pok {
				union := map[int]bool{}
				for _, g := range cur {
					for _, l := range g.Sess {
						union[l] = true
					}
				}
				for l, c := range o.Counts {
					if c > 0 && !union[l] {
						pok, pnote = false, fmt.Sprintf("getscts contacted-log-without-positive-weight log=%d", l)
					}
				}
			}
			if !pok {
				fail(step, fmt.Sprintf("%s after-refused-update=%v", pnote, anyRefused))
			}
		}
		observe := func(gn int) {
			if r.Intn(2) == 0 && submits < 3 {
				doSubmit()
			} else {
				doSession(gn)
			}
		}
		doUpdate := func(gn int) {
			step := len(ins)
			gi := groups[groupName(gn)]
			rg := ref[gn]
			before := readWeights(gi)
			var err error
			var refused bool
			var in wStepIn
			var coq string
			if r.Intn(3) != 0 {
				ws, class := genSetAll(r, rg, ids)
				arg := map[string]float32{}
				for l, x := range ws {
					arg[logURL(l)] = x
				}
				err = gi.SetLogWeights(arg)
				refused = rg.setAll(ws, err != nil)
				in = wStepIn{Op: "set-weights", Group: gn, Class: class, Weights: ws}
				coq = fmt.Sprintf("WSetAll %s %s %s", lib.Nn(uint64(gn)), coqW(ws), lib.Bool(err != nil))
			} else {
				l, x, class := genSetOne(r, rg, ids)
				err = gi.SetLogWeight(logURL(l), x)
				refused = rg.setOne(l, x, err != nil)
				in = wStepIn{Op: "set-weight", Group: gn, Class: class, Log: l, Weight: x}
				coq = fmt.Sprintf("WSetOne %s %s %s %s", lib.Nn(uint64(gn)), lib.Nn(uint64(l)), lib.Z(quarters(x)), lib.Bool(err != nil))
			}
			after := readWeights(gi)
			ins = append(ins, in)
			obs = append(obs, wStepObs{Op: in.Op, Err: err != nil, After: after, RefRefused: refused, RefWeights: rg.copyW()})
			coqOps = append(coqOps, coq+" "+coqW(after))
			verdict := "accepted"
			if refused {
				verdict = "refused"
			}
			tags["W:"+in.Op+":"+verdict] = true
			tags["W:"+in.Op+":"+in.Class+":"+verdict] = true
			lastRefused[gn] = refused
			switch {
			case (err != nil) != refused:
				fail(step, fmt.Sprintf("%s class=%s returned-error=%v although-the-contract-says-refuse=%v group=%d", in.Op, in.Class, err != nil, refused, gn))
			case refused && !sameWeights(after, before):
				fail(step, fmt.Sprintf("%s class=%s refused-call-changed-the-weights group=%d min=%d", in.Op, in.Class, gn, rg.min))
			case !sameWeights(after, rg.w):
				fail(step, fmt.Sprintf("%s class=%s accepted-call-left-other-weights-than-asked group=%d", in.Op, in.Class, gn))
			}
		}

		nUpd := 2 + r.Intn(4)
		for u := 0; u < nUpd; u++ {
			gn := gnames[r.Intn(len(gnames))]
			if u == 0 && r.Intn(3) == 0 { // a first look before anything was changed
				observe(gn)
			}
			doUpdate(gn)
			if r.Intn(5) < 3 {
				observe(gn)
			}
		}
		// the end of every history: the session of every group, and one more submission
		for _, gn := range gnames {
			doSession(gn)
		}
		doSubmit()

		if ok && deafNote != "" {
			ok, note = false, deafNote
		}
		var cg []string
		for _, g := range gs {
			cg = append(cg, lib.Pair(lib.Nn(uint64(g.Name)), nlist(g.Logs), lib.Z(int64(g.Min)), lib.Bool(g.IsBase), coqW(initW[g.Name])))
		}
		var tl []string
		for k := range tags {
			tl = append(tl, k)
		}
		sort.Strings(tl)
		w.Add(lib.Case{
			Coq:    fmt.Sprintf("CWeights %s %s", lib.List(cg), lib.List(coqOps)),
			Input:  map[string]interface{}{"kind": "weights-history", "groups": gs, "initial_weights": initW, "steps": ins},
			Impl:   map[string]interface{}{"steps": obs, "oracle_objections": failures},
			PropOK: ok, Note: note, Tags: tl,
		})
	}
}

// fieldGroups: the groups ChromeCTPolicy / AppleCTPolicy compute - every log in the session
// (weight 1), one Google and one non-Google group of one SCT each plus the base group, or the
// base group alone, the total at 2..5 and never above the number of logs.
func fieldGroups(r *mrand.Rand) ([]groupSpec, []int, string) {
	if r.Intn(2) == 0 {
		n := 2 + r.Intn(5)
		var ids []int
		for i := 1; i <= n; i++ {
			ids = append(ids, i)
		}
		bm := 2 + r.Intn(4)
		if bm > n {
			bm = n
		}
		return []groupSpec{{0, ids, bm, true, append([]int(nil), ids...)}}, ids, "apple-policy"
	}
	nG, nN := 1+r.Intn(3), 1+r.Intn(3)
	var g, nn, all []int
	for i := 1; i <= nG; i++ {
		g, all = append(g, i), append(all, i)
	}
	for i := nG + 1; i <= nG+nN; i++ {
		nn, all = append(nn, i), append(all, i)
	}
	bm := 2 + r.Intn(4)
	if bm > len(all) {
		bm = len(all)
	}
	return []groupSpec{{1, g, 1, false, append([]int(nil), g...)}, {2, nn, 1, false, append([]int(nil), nn...)},
		{0, all, bm, true, append([]int(nil), all...)}}, all, "chrome-policy"
}
