(* C01: what the property's sentence talks about, written WITHOUT reference to the handler model:
   - the RFC 6962 s4.6 / s3.1 encodings of the extra data (the chain stored beside a leaf);
   - the log entry an independent client derives from a submission (RFC 6962 s3.1 / s3.2):
     for a certificate the certificate itself; for a precertificate the TBSCertificate of the
     certificate that is finally issued, without its SCT list, together with the key hash of the
     FINAL issuer - also when a dedicated precertificate signing certificate signed the
     precertificate (then the final certificate names the pre-issuer's issuer and carries the
     pre-issuer's authority key id);
   - "the same certificate is always submitted under the same issuer".
   Definitions only. *)
From Coq Require Import String NArith ZArith List Bool.
From V Require Import Base.Bytes TLS.TlsModel CT.Rfc6962Spec X509.Der X509.PrecertModel X509.PrecertProofs CTFE.AddChainModel.
Import ListNotations.
Local Open Scope N_scope.

(* ASN.1Cert certificate_chain<0..2^24-1> *)
Definition enc_cert_chain (ders : list bytes) : bytes := opaque24 (concat (map opaque24 ders)).
(* struct { ASN.1Cert pre_certificate; ASN.1Cert precertificate_chain<0..2^24-1>; } PrecertChainEntry *)
Definition enc_precert_chain_entry (leaf : bytes) (ders : list bytes) : bytes := opaque24 leaf ++ enc_cert_chain ders.
Definition enc_extra_data (pre : bool) (leaf : bytes) (ders : list bytes) : bytes :=
  if pre then enc_precert_chain_entry leaf ders else enc_cert_chain ders.
Definition chain_in_range (ders : list bytes) : Prop :=
  Forall (fun d => 1 <= len d <= 16777215) ders /\ len (concat (map opaque24 ders)) <= 16777215.

(* the clock reading in RFC 6962 time: milliseconds since the epoch *)
Definition clock_ms (now_ns : Z) : Z := (now_ns / 1000000)%Z.

Section Client.
Variable H : bytes -> bytes.

(* The final certificate that corresponds to a precertificate, as TBS records (X509/PrecertModel):
   same TBS fields, the other extensions equal and in the same order, the SCT list at ANY
   position where the precertificate has the poison at ANY position. *)
Record twin := {
  w_head : list (Byte.byte * bytes);   (* the precertificate's TBS fields before the extensions *)
  w_a' : list ext; w_poison : ext; w_b' : list ext;   (* precertificate extensions: a' ++ poison :: b' *)
  w_a : list ext; w_sct : ext; w_b : list ext         (* final certificate extensions:  a  ++ sct :: b  *)
}.
Definition precert_tbs (w : twin) : tbs := {| t_head := w_head w; t_exts := Some (w_a' w ++ w_poison w :: w_b' w) |}.
Definition twin_ok (w : twin) : Prop :=
  has_oid oid_poison (w_poison w) = true /\ has_oid oid_sctlist (w_sct w) = true /\
  count_oid oid_poison (w_a' w ++ w_b' w) = 0%nat /\ count_oid oid_sctlist (w_a w ++ w_b w) = 0%nat.

(* direct issuance: the final certificate has the same fields; entry TBS = final TBS minus SCT list *)
Definition final_tbs_direct (w : twin) : tbs := {| t_head := w_head w; t_exts := Some (w_a w ++ w_sct w :: w_b w) |}.
Definition entry_tbs_direct (w : twin) : tbs := {| t_head := w_head w; t_exts := Some (w_a w ++ w_b w) |}.
(* through a pre-issuer [p]: the final certificate is issued by the pre-issuer's issuer *)
Definition final_head (p : preissuer) (w : twin) := replace_nth (issuer_index (w_head w)) (pi_issuer p) (w_head w).
Definition final_tbs_pre (p : preissuer) (w : twin) : tbs := {| t_head := final_head p w; t_exts := Some (w_a w ++ w_sct w :: w_b w) |}.
Definition entry_tbs_pre (p : preissuer) (w : twin) : tbs := {| t_head := final_head p w; t_exts := Some (w_a w ++ w_b w) |}.

Inductive client_entry : submission -> entry -> Prop :=
| CE_cert s :
    s_pre s = false ->
    client_entry s (X509E (s_leaf s))
| CE_direct s issuer more w :
    s_pre s = true -> s_rest s = issuer :: more ->
    pi_ct_eku (c_pi issuer) = false ->                        (* an ordinary CA signed the precertificate *)
    twin_ok w -> s_tbs s = enc_tbs (precert_tbs w) ->
    w_a w ++ w_b w = w_a' w ++ w_b' w ->                      (* final = precert with the SCT list for the poison *)
    tbs_ok (precert_tbs w) -> tbs_ok (final_tbs_direct w) -> tbs_ok (entry_tbs_direct w) ->
    client_entry s (PrecertE (H (c_spki issuer)) (enc_tbs (entry_tbs_direct w)))
| CE_preissuer s pre issuer more w :
    s_pre s = true -> s_rest s = pre :: issuer :: more ->
    pi_ct_eku (c_pi pre) = true ->                            (* a precertificate signing certificate signed it *)
    twin_ok w -> s_tbs s = enc_tbs (precert_tbs w) ->
    w_a w ++ w_b w = aki_edit (c_pi pre) (w_a' w ++ w_b' w) ->   (* final carries the pre-issuer's authority key id *)
    tbs_ok (precert_tbs w) -> tbs_ok {| t_head := w_head w; t_exts := Some (w_a' w ++ w_b' w) |} ->
    tbs_ok (final_tbs_pre (c_pi pre) w) ->
    client_entry s (PrecertE (H (c_spki issuer)) (enc_tbs (entry_tbs_pre (c_pi pre) w))).

(* what decides the entry, as far as the submission goes: the leaf, and key / name / key id /
   EKU of the next two certificates of the chain *)
Definition issuance (s : submission) :=
  (s_pre s, s_tbs s, map (fun c => (c_spki c, c_pi c)) (firstn 2 (s_rest s))).
(* no certificate is submitted under two different issuer chains, and SHA-256 does not collide
   on the submitted certificates *)
Definition issuance_consistent (subs : list submission) : Prop :=
  forall s1 s2, In s1 subs -> In s2 subs -> H (s_leaf s1) = H (s_leaf s2) ->
    s_leaf s1 = s_leaf s2 /\ issuance s1 = issuance s2.
End Client.

(* the outcome of the request at position |before| of the history before ++ s :: after *)
Definition at_pos (H : bytes -> bytes) (sign : N -> bytes -> option bytes) (g : val -> val -> bool) (cfg : config)
  (before : list submission) (s : submission) (after : list submission) (o : outcome) : Prop :=
  nth_error (snd (run H sign g cfg (before ++ s :: after))) (length before) = Some (s, o).
