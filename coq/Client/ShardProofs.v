(* Lemmas about the temporal client with several shards (ClientModel.v, last part). *)
From Coq Require Import String NArith ZArith List Bool Lia.
From V Require Import Base.Bytes Base.GoInt TLS.TlsModel gen.CtTypes CT.Rfc6962Spec CT.Rfc6962Proofs CT.CtFuncs
  Client.ClientModel Client.ClientSpec Client.ClientProofs.
Import ListNotations.

(* ------------------------------------------------------------------ the union of the shards' roots *)

Lemma existsb_bytes_in (r : bytes) (l : list bytes) : existsb (bytes_eqb r) l = true <-> In r l.
Proof.
  rewrite existsb_exists. split.
  - intros (x & Hin & E). apply bytes_eqb_eq in E. subst. exact Hin.
  - intros Hin. exists r. split; [exact Hin|]. apply bytes_eqb_eq. reflexivity.
Qed.

Lemma NoDup_snoc {A} (l : list A) x : NoDup l -> ~ In x l -> NoDup (l ++ [x]).
Proof.
  induction l as [|a l IH]; intros Hnd Hx; cbn.
  - constructor; [intros []|constructor].
  - inversion Hnd; subst. constructor.
    + rewrite in_app_iff. cbn. intros [H|[H|[]]]; [contradiction|subst; apply Hx; left; reflexivity].
    + apply IH; [assumption|]. intros H. apply Hx. right. exact H.
Qed.

Lemma add_new_spec (l : list bytes) : forall seen,
  NoDup seen -> NoDup (add_new seen l) /\ (forall r, In r (add_new seen l) <-> In r seen \/ In r l).
Proof.
  unfold add_new. induction l as [|x l IH]; intros seen Hnd; cbn [fold_left].
  - split; [exact Hnd|]. intros r. split; [auto|intros [H|[]]; exact H].
  - destruct (existsb (bytes_eqb x) seen) eqn:E.
    + destruct (IH seen Hnd) as [N I]. split; [exact N|]. intros r. rewrite I. cbn [In].
      apply existsb_bytes_in in E. split; [intros [H|H]; auto|intros [H|[<-|H]]; auto].
    + assert (Hx : ~ In x seen) by (intros H; apply existsb_bytes_in in H; congruence).
      assert (Hnd' : NoDup (seen ++ [x])) by (apply NoDup_snoc; assumption).
      destruct (IH (seen ++ [x]) Hnd') as [N I]. split; [exact N|]. intros r. rewrite I. rewrite in_app_iff. cbn [In].
      split; [intros [[H|[<-|[]]]|H]; auto|intros [H|[<-|H]]; auto].
Qed.

Lemma merge_roots_ok (rs : list (result (list bytes))) : forall seen l,
  NoDup seen -> merge_roots seen rs = COk l ->
  NoDup l /\ (forall x, In x rs -> is_ok x) /\
  (forall r, In r l <-> In r seen \/ exists lo, In (COk lo) rs /\ In r lo).
Proof.
  induction rs as [|x rs IH]; intros seen l Hnd H; cbn in H.
  - inversion H; subst. split; [exact Hnd|]. split; [intros x []|].
    intros r. split; [auto|intros [Hr|(lo & [] & _)]; exact Hr].
  - destruct x as [lx|st b| | |]; try discriminate.
    destruct (add_new_spec lx seen Hnd) as [N I].
    destruct (IH _ _ N H) as (Nl & Hall & Hin). split; [exact Nl|]. split.
    + intros y [<-|Hy]; [exists lx; reflexivity|apply Hall; exact Hy].
    + intros r. rewrite Hin, I. cbn [In]. split.
      * intros [[Hs|Hx]|(lo & Hlo & Hr)]; [left; exact Hs|right; exists lx; auto|right; exists lo; auto].
      * intros [Hs|(lo & [E|Hlo] & Hr)]; [left; left; exact Hs|inversion E; subst; left; right; exact Hr|right; exists lo; auto].
Qed.

Lemma merge_roots_err (rs : list (result (list bytes))) : forall seen,
  (exists x, In x rs /\ ~ is_ok x) ->
  exists x, In x rs /\ ~ is_ok x /\ merge_roots seen rs = x.
Proof.
  induction rs as [|x rs IH]; intros seen (y & Hy & Hn); [destruct Hy|].
  destruct x as [lx|st b| | |].
  - destruct Hy as [<-|Hy]; [exfalso; apply Hn; exists lx; reflexivity|].
    destruct (IH (add_new seen lx) (ex_intro _ y (conj Hy Hn))) as (z & Hz & Hnz & E).
    exists z. split; [right; exact Hz|]. split; [exact Hnz|exact E].
  - exists (CRspErr st b). split; [left; reflexivity|]. split; [intros (a & E); discriminate|reflexivity].
  - exists CPlainErr. split; [left; reflexivity|]. split; [intros (a & E); discriminate|reflexivity].
  - exists CCtxErr. split; [left; reflexivity|]. split; [intros (a & E); discriminate|reflexivity].
  - exists CPanic. split; [left; reflexivity|]. split; [intros (a & E); discriminate|reflexivity].
Qed.

(* a result = every shard answered with a complete, decodable 200 response, and the result is
   exactly the union of what the shards sent, each certificate once *)
Lemma temporal_get_roots_ok os l :
  temporal_get_roots os = COk l ->
  (forall o, In o os -> exists lo, get_roots o = COk lo /\ good_response o (map Some lo) /\ incl lo l) /\
  (forall r, In r l -> exists o lo, In o os /\ get_roots o = COk lo /\ In r lo) /\
  NoDup l.
Proof.
  unfold temporal_get_roots. intros H. destruct (merge_roots_ok _ _ _ (NoDup_nil _) H) as (N & Hall & Hin).
  split; [|split; [|exact N]].
  - intros o Ho. destruct (Hall (get_roots o) (in_map get_roots os o Ho)) as (lo & E).
    exists lo. split; [exact E|]. split; [apply get_roots_ok; exact E|].
    intros r Hr. apply Hin. right. exists lo. split; [rewrite <- E; apply in_map; exact Ho|exact Hr].
  - intros r Hr. apply Hin in Hr. destruct Hr as [[]|(lo & Hlo & Hr)].
    apply in_map_iff in Hlo. destruct Hlo as (o & E & Ho). exists o, lo. auto.
Qed.

(* any shard that does not answer with a complete, decodable 200 response makes the call an
   error: the error of one such shard, carrying that shard's status and body ([reported]) *)
Lemma temporal_get_roots_err os :
  (exists o, In o os /\ ~ is_ok (get_roots o)) ->
  exists o, In o os /\ ~ is_ok (get_roots o) /\ temporal_get_roots os = get_roots o /\
            reported o (temporal_get_roots os).
Proof.
  intros (o & Ho & Hn). unfold temporal_get_roots.
  destruct (merge_roots_err (map get_roots os) [] (ex_intro _ (get_roots o) (conj (in_map get_roots os o Ho) Hn)))
    as (x & Hx & Hnx & E).
  apply in_map_iff in Hx. destruct Hx as (o' & <- & Ho'). exists o'. split; [exact Ho'|]. split; [exact Hnx|].
  split; [exact E|]. rewrite E. apply get_roots_reported.
Qed.

(* ------------------------------------------------------------------ routing by NotAfter *)

Lemma index_by_date_spec (ivs : list interval) t : forall i,
  index_by_date ivs t = Some i ->
  (exists iv, nth_error ivs i = Some iv /\ covers iv t = true) /\
  (forall j iv, (j < i)%nat -> nth_error ivs j = Some iv -> covers iv t = false).
Proof.
  induction ivs as [|iv rest IH]; intros i H; cbn in H; [discriminate|].
  destruct (covers iv t) eqn:E.
  - inversion H; subst. split; [exists iv; auto|]. intros j iv' Hj. lia.
  - destruct (index_by_date rest t) as [k|] eqn:Ek; [|discriminate]. cbn in H. inversion H; subst.
    destruct (IH k eq_refl) as [Hc Hb]. split; [exact Hc|].
    intros [|j] iv' Hj Hn; cbn in Hn; [inversion Hn; subst; exact E|]. apply (Hb j iv'); [lia|exact Hn].
Qed.

Lemma index_by_date_none (ivs : list interval) t :
  index_by_date ivs t = None -> forall iv, In iv ivs -> covers iv t = false.
Proof.
  induction ivs as [|iv rest IH]; intros H iv' Hin; [destruct Hin|]. cbn in H.
  destruct (covers iv t) eqn:E; [discriminate|].
  destruct (index_by_date rest t) eqn:Ek; [discriminate|].
  destruct Hin as [<-|Hin]; [exact E|apply IH; auto].
Qed.

Section ShardedProofs.
  Variable key : Type.
  Variable sig_ok : key -> bytes -> val -> bool.
  Variable key_hash : key -> bytes.
  Variable x509_of : list bytes -> option bytes.
  Variable precert_of : list bytes -> option (bytes * bytes).
  Variable parse_cert : bytes -> pclass.
  Variable not_after : bytes -> Z.

  Notation add_chain := (add_chain key sig_ok key_hash x509_of precert_of).
  Notation sharded := (temporal_add_chain_sharded key sig_ok key_hash x509_of precert_of parse_cert not_after).

  (* requests go to exactly the first shard whose interval holds the head's NotAfter, and the
     call is that shard's add_chain with THAT shard's verifier *)
  Lemma sharded_routed v shards chain et os i r :
    sharded v shards chain et os = (Some i, r) ->
    exists c rest iv vk, chain = c :: rest /\ parse_cert c = POk /\ nth_error shards i = Some (iv, vk) /\
      covers iv (not_after c) = true /\
      (forall j s, (j < i)%nat -> nth_error shards j = Some s -> covers (fst s) (not_after c) = false) /\
      r = add_chain v vk chain et os.
  Proof.
    unfold temporal_add_chain_sharded. destruct chain as [|c rest]; [discriminate|].
    destruct (parse_cert c) eqn:Ep; try discriminate.
    destruct (index_by_date (map fst shards) (not_after c)) as [k|] eqn:Ei; [|discriminate].
    intros H. inversion H; subst k. clear H.
    destruct (index_by_date_spec _ _ _ Ei) as [(iv & Hn & Hc) Hb].
    rewrite nth_error_map in Hn. destruct (nth_error shards i) as [[iv' vk]|] eqn:En; [|discriminate].
    cbn in Hn. inversion Hn; subst iv'. exists c, rest, iv, vk. repeat split; auto.
    intros j s Hj Hs. apply (Hb j (fst s) Hj). rewrite nth_error_map, Hs. reflexivity.
  Qed.

  (* no request: the chain is empty, its head does not parse cleanly, or no shard holds its NotAfter *)
  Lemma sharded_refused v shards chain et os r :
    sharded v shards chain et os = (None, r) ->
    r = CPlainErr /\
    (chain = [] \/ exists c rest, chain = c :: rest /\
       (parse_cert c <> POk \/ forall s, In s shards -> covers (fst s) (not_after c) = false)).
  Proof.
    unfold temporal_add_chain_sharded. destruct chain as [|c rest]; [intros H; inversion H; auto|].
    destruct (parse_cert c) eqn:Ep.
    - destruct (index_by_date (map fst shards) (not_after c)) as [k|] eqn:Ei; [discriminate|].
      intros H; inversion H. split; [reflexivity|]. right. exists c, rest. split; [reflexivity|]. right.
      intros s Hs. apply (index_by_date_none _ _ Ei). apply in_map. exact Hs.
    - intros H; inversion H. split; [reflexivity|]. right. exists c, rest. split; [reflexivity|]. left. congruence.
    - intros H; inversion H. split; [reflexivity|]. right. exists c, rest. split; [reflexivity|]. left. congruence.
  Qed.

  (* an SCT handed back by the sharded client verifies under the key OF THE SHARD THE CHAIN WAS
     ROUTED TO, and carries that key's hash *)
  Lemma sharded_verified shards chain et os i s :
    sharded patched shards chain et os = (Some i, COk s) -> ts_ok (s_ts s) ->
    forall iv k, nth_error shards i = Some (iv, Some k) -> length (key_hash k) = 32%nat ->
    exists e, submitted_entry x509_of precert_of chain et e /\ entry_type e = et /\ entry_ok e /\ ext_ok (s_ext s) /\
      s_version s = 0%N /\
      sig_ok k (enc_sct_siginput (s_ts s) e (s_ext s)) (s_sig s) = true /\
      s_logid s = key_hash k.
  Proof.
    intros H Hts iv k Hn Hl. destruct (sharded_routed _ _ _ _ _ _ _ H) as (c & rest & iv' & vk & -> & _ & Hn' & _ & _ & E).
    rewrite Hn in Hn'. inversion Hn'; subst iv' vk.
    apply (add_chain_verified_l key sig_ok key_hash x509_of precert_of k (c :: rest) et os s Hl (eq_sym E) Hts).
  Qed.
End ShardedProofs.
