(* C17: list / counting lemmas used by the submission proofs. *)
From Coq Require Import ZArith NArith Bool List Lia Permutation.
From V Require Import Submission.SubmitModel.
Import ListNotations.

Lemma memN_In x xs : memN x xs = true <-> In x xs.
Proof.
  unfold memN. rewrite existsb_exists. split.
  - intros [y [Hy E]]. apply N.eqb_eq in E. subst. exact Hy.
  - intros H. exists x. split; [exact H | apply N.eqb_refl].
Qed.

Lemma memN_false x xs : memN x xs = false <-> ~ In x xs.
Proof. rewrite <- memN_In. destruct (memN x xs); split; congruence. Qed.

Lemma upd_same {A} (f : N -> A) k v : upd f k v k = v.
Proof. unfold upd. rewrite N.eqb_refl. reflexivity. Qed.

Lemma upd_other {A} (f : N -> A) k v x : x <> k -> upd f k v x = f x.
Proof. unfold upd. intros H. apply N.eqb_neq in H. rewrite H. reflexivity. Qed.

Lemma NoDup_nodupN xs : NoDup (nodupN xs).
Proof. apply NoDup_nodup. Qed.

Lemma In_nodupN x xs : In x (nodupN xs) <-> In x xs.
Proof. apply nodup_In. Qed.

Lemma NoDup_filter {A} (f : A -> bool) xs : NoDup xs -> NoDup (filter f xs).
Proof.
  induction 1 as [|x xs Hx Hnd IH]; simpl; [constructor|].
  destruct (f x); [constructor; [rewrite filter_In; tauto | exact IH] | exact IH].
Qed.

(* |A cap B| computed from either side *)
Lemma inter_length (A B : list N) : NoDup A -> NoDup B ->
  length (filter (fun l => memN l B) A) = length (filter (fun l => memN l A) B).
Proof.
  intros HA HB. apply Nat.le_antisymm; apply NoDup_incl_length; try (apply NoDup_filter; assumption);
    intros x Hx; apply filter_In in Hx; destruct Hx as [H1 H2]; apply memN_In in H2;
    apply filter_In; split; try assumption; apply memN_In; assumption.
Qed.

Lemma filter_length_le {A} (f : A -> bool) xs : (length (filter f xs) <= length xs)%nat.
Proof. induction xs; simpl; [lia|]. destruct (f a); simpl; lia. Qed.

Lemma filter_lt_exists {A} (f : A -> bool) xs :
  (length (filter f xs) < length xs)%nat -> exists x, In x xs /\ f x = false.
Proof.
  induction xs as [|a xs IH]; simpl; [lia|].
  destruct (f a) eqn:E; simpl; intros H.
  - destruct IH as [x [Hx Hf]]; [lia|]. exists x. auto.
  - exists a. auto.
Qed.

Lemma filter_all_length {A} (f : A -> bool) xs :
  (length xs <= length (filter f xs))%nat -> forall x, In x xs -> f x = true.
Proof.
  induction xs as [|a xs IH]; simpl; [tauto|].
  pose proof (filter_length_le f xs) as Hle.
  destruct (f a) eqn:E; simpl; intros H x [->|Hx]; try assumption; try lia.
  apply IH; [lia | exact Hx].
Qed.

Lemma filter_ext_in' {A} (f g : A -> bool) xs : (forall x, In x xs -> f x = g x) -> filter f xs = filter g xs.
Proof. apply filter_ext_in. Qed.

(* a predicate switched on at one point of a duplicate-free list *)
Lemma filter_point_on (f f' : N -> bool) xs x :
  NoDup xs -> In x xs -> f x = false -> f' x = true -> (forall y, y <> x -> f' y = f y) ->
  length (filter f' xs) = S (length (filter f xs)).
Proof.
  induction 1 as [|a xs Ha Hnd IH]; simpl; [tauto|].
  intros [->|Hin] Hf Hf' Hext.
  - rewrite Hf, Hf'. simpl. f_equal. f_equal. apply filter_ext_in. intros y Hy. apply Hext. intros ->. tauto.
  - assert (a <> x) by (intros ->; tauto). rewrite (Hext a H).
    destruct (f a); simpl; rewrite IH; auto.
Qed.

Lemma filter_point_same (f f' : N -> bool) xs x :
  f' x = f x -> (forall y, y <> x -> f' y = f y) -> filter f' xs = filter f xs.
Proof.
  intros Hx Hext. apply filter_ext. intros y. destruct (N.eq_dec y x) as [->|Hne]; auto.
Qed.

(* sums of nat-valued rank functions *)
Fixpoint sumf {A} (f : A -> nat) (xs : list A) : nat :=
  match xs with [] => 0%nat | x :: r => (f x + sumf f r)%nat end.

Lemma sumf_ext {A} (f g : A -> nat) xs : (forall x, In x xs -> f x = g x) -> sumf f xs = sumf g xs.
Proof.
  induction xs as [|a xs IH]; simpl; intros H; [reflexivity|].
  rewrite (H a), IH; auto.
Qed.

Lemma sumf_point (f f' : N -> nat) xs x :
  NoDup xs -> In x xs -> (f' x < f x)%nat -> (forall y, In y xs -> y <> x -> f' y = f y) ->
  (sumf f' xs < sumf f xs)%nat.
Proof.
  induction 1 as [|a xs Ha Hnd IH]; simpl; [tauto|].
  intros [->|Hin] Hlt Hext.
  - rewrite (sumf_ext f' f xs); [lia|]. intros y Hy. apply Hext; [right; exact Hy | intros ->; tauto].
  - assert (Hne : a <> x) by (intros ->; tauto).
    assert (E : f' a = f a) by (apply Hext; [left; reflexivity | exact Hne]). rewrite E.
    assert (sumf f' xs < sumf f xs)%nat by (apply IH; auto; intros y Hy; apply Hext; right; exact Hy). lia.
Qed.

Lemma find_some_name (c : cfg) g gr : find_group c g = Some gr -> In gr c /\ g_name gr = g.
Proof.
  unfold find_group. intros H. apply find_some in H. destruct H as [H1 H2]. apply N.eqb_eq in H2. auto.
Qed.

Lemma find_group_in (c : cfg) gr : NoDup (names c) -> In gr c -> find_group c (g_name gr) = Some gr.
Proof.
  unfold find_group, names. induction c as [|a c IH]; simpl; [tauto|].
  intros Hnd [->|Hin].
  - rewrite N.eqb_refl. reflexivity.
  - inversion Hnd; subst. destruct (N.eqb (g_name a) (g_name gr)) eqn:E.
    + apply N.eqb_eq in E. exfalso. apply H1. rewrite E. apply in_map. exact Hin.
    + apply IH; assumption.
Qed.

Lemma names_in (c : cfg) g : In g (names c) -> exists gr, In gr c /\ g_name gr = g.
Proof. unfold names. rewrite in_map_iff. intros [gr [E H]]. exists gr. auto. Qed.

Lemma in_names (c : cfg) gr : In gr c -> In (g_name gr) (names c).
Proof. intros. unfold names. apply in_map. assumption. Qed.

Lemma groups_of_in (c : cfg) l g : In g (groups_of c l) <-> exists gr, In gr c /\ g_name gr = g /\ In l (g_logs gr).
Proof.
  unfold groups_of. rewrite in_map_iff. split.
  - intros [gr [E H]]. apply filter_In in H. destruct H as [H1 H2]. apply memN_In in H2. exists gr. auto.
  - intros [gr [H1 [H2 H3]]]. exists gr. split; [exact H2|]. apply filter_In. split; [exact H1 | apply memN_In; exact H3].
Qed.

Lemma NoDup_map_filter {A B} (f : A -> B) (p : A -> bool) xs : NoDup (map f xs) -> NoDup (map f (filter p xs)).
Proof.
  induction xs as [|a xs IH]; simpl; intros H; [constructor|].
  inversion H; subst. destruct (p a); simpl; [constructor|]; auto.
  intros Hin. apply H2. apply in_map_iff in Hin. destruct Hin as [y [E Hy]]. apply filter_In in Hy.
  rewrite <- E. apply in_map. tauto.
Qed.

Lemma groups_of_nodup (c : cfg) l : NoDup (names c) -> NoDup (groups_of c l).
Proof. apply NoDup_map_filter. Qed.
