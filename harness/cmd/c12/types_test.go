package main

import (
	"math/rand"

	"github.com/google/certificate-transparency-go/client"
)

type randT = *rand.Rand
type clientT = *client.LogClient
