(* C16 correspondence cases: the linearised event log of one real execution of
   scanner.Fetcher.Run / scanner.Scanner.ScanLog against a scripted LogClient is REPLAYED
   through the model: every observed event must be an enabled step of [step] / [sstep]
   (right range, right remainder after a short read or an error, right callback, at most
   ParallelFetch ranges in flight, Run returns only when the model is terminal).
   Entries are tokens (Z): the harness keeps the bijection token <-> bytes. *)
From Coq Require Import ZArith Bool List.
From V Require Import Base.GoInt Base.CaseLib gen.Fetcher Scanner.FetchLib Scanner.FetchModel.
Import ListNotations.
Open Scope Z_scope.

Inductive ev :=
| ESth (r : option Z)                         (* GetSTH answered: Some tree size | None = error *)
| EReq (a b : Z) (r : option (list Z))        (* GetRawEntries(a, b) answered: None = error | Some entries *)
| ECb (a : Z) (es : list Z)                   (* fetcher callback: EntryBatch{Start: a, Entries: es} *)
| EFound (k : ekind) (i : Z) (e : Z)          (* scanner callback foundCert / foundPrecert(index, entry) *)
| EStop | ECancel                             (* Fetcher.Stop() / the caller's context cancelled *)
| EReturn (ok : bool) (ret : Z)               (* Run returned (ok = nil error); ScanLog returned ret *)
| EBad.                                       (* panic, hang or request storm observed *)

Inductive case :=
| CFetch (batch : Z) (workers : nat) (start end_ : Z) (cont : bool)
         (log : list Z) (evs : list ev)
| CScan (batch : Z) (workers : nat) (start end_ : Z) (cont : bool)
        (mk : mkind) (precert_only : bool) (classes : list (eclass * bool))
        (log : list Z) (evs : list ev).

Definition zeqb_list := list_eqb Z.eqb.

Definition nthZ {A} (l : list A) (i : Z) : option A := if i <? 0 then None else nth_error l (Z.to_nat i).

(* the entries the log holds at a, a+1, ..., a+n-1 *)
Definition log_slice (log : list Z) (a : Z) (n : nat) : list Z :=
  if a <? 0 then [] else firstn n (skipn (Z.to_nat a) log).

Section Replay.
Variable classes : list (eclass * bool).
Definition classify (e : Z) : eclass := match nthZ classes e with Some c => fst c | None => CBad end.
Definition matches (e : Z) : bool := match nthZ classes e with Some c => snd c | None => false end.

Variable cfg : config.
Variable opt_end : Z.
Variable scan : bool.
Variable mk : mkind.
Variable po : bool.
Variable log : list Z.

Inductive phase := PPrepare | PRunning | PReturned | PFailed.

Record rstate := { m : sstate Z; last_sth : option Z; ph : phase }.

Fixpoint find_w (p : wstate Z -> bool) (l : list (wstate Z)) (i : nat) : option nat :=
  match l with
  | [] => None
  | w :: t => if p w then Some i else find_w p t (S i)
  end.

Definition is_busy (a b : Z) (w : wstate Z) : bool :=
  match w with WBusy a' b' => (a =? a') && (b =? b') | _ => false end.
Definition is_got (a : Z) (es : list Z) (w : wstate Z) : bool :=
  match w with WGot a' _ es' => (a =? a') && zeqb_list es es' | _ => false end.
Definition is_idle (w : wstate Z) : bool := match w with WIdle => true | _ => false end.

Definition sst (s : sstate Z) (l : label Z) : option (sstate Z) :=
  sstep classify matches cfg mk po s (SF l).

Definition bind {A B} (o : option A) (f : A -> option B) : option B :=
  match o with Some x => f x | None => None end.

Definition to_resp (r : option (list Z)) : resp Z := match r with None => RErr | Some es => ROk es end.

(* a request for (a, b): either the remainder some worker holds, or the next range of the
   generator handed to an idle worker (after adopting the last tree size seen, if the
   generator had to wait for one) *)
Definition replay_req (s : sstate Z) (sth : option Z) (a b : Z) (r : option (list Z)) : option (sstate Z) :=
  let honest := match r with
                | Some es => zeqb_list es (log_slice log a (length es))
                | None => true
                end in
  if negb honest then None else
  let after_resp (s1 : sstate Z) (w : nat) :=
      bind (sst s1 (LResp w (to_resp r)))
           (fun s2 => match r with
                      | Some _ => if scan then sst s2 (LCallback w) else Some s2
                      | None => Some s2
                      end) in
  match find_w (is_busy a b) (ws (fs s)) 0 with
  | Some w => after_resp s w
  | None =>
      match find_w is_idle (ws (fs s)) 0 with
      | None => None
      | Some w =>
          let f := fs s in
          let s1 := if loop_on cfg f && wait_cond (c_variant cfg) (g_cur f) (g_end f)
                    then match sth with Some n => sst s (LAccept n) | None => None end
                    else Some s in
          bind s1 (fun s1 =>
          bind (sst s1 (LTake w)) (fun s2 =>
          match nth_error (ws (fs s2)) w with
          | Some (WBusy a' b') => if (a =? a') && (b =? b') then after_resp s2 w else None
          | _ => None
          end))
      end
  end.

(* Run returns: the generator must be able to return, every worker must be able to return *)
Fixpoint exit_workers (s : sstate Z) (n : nat) : option (sstate Z) :=
  match n with
  | O => Some s
  | S n' =>
      bind (exit_workers s n')
           (fun s1 => match nth_error (ws (fs s1)) n' with
                      | Some WExit => Some s1
                      | Some _ => sst s1 (LWExit n')
                      | None => None
                      end)
  end.

Definition finalize (s : sstate Z) : option (sstate Z) :=
  bind (if g_alive (fs s) then sst s LGenExit else Some s)
       (fun s1 => bind (exit_workers s1 (length (ws (fs s1))))
                       (fun s2 => if terminal (fs s2) then Some s2 else None)).

Definition find_pool (i e : Z) (l : list (Z * Z)) : option nat :=
  (fix go (l : list (Z * Z)) (k : nat) : option nat :=
     match l with
     | [] => None
     | x :: t => if (fst x =? i) && (snd x =? e) then Some k else go t (S k)
     end) l O.

Definition ekind_eqb (a b : ekind) : bool :=
  match a, b with KCert, KCert | KPrecert, KPrecert => true | _, _ => false end.

Definition no_found (l : list (Z * Z)) : bool :=
  forallb (fun ie => match found_of classify matches (c_variant cfg) mk po ie with [] => true | _ => false end) l.

Definition replay_ev (r : rstate) (e : ev) : option rstate :=
  match ph r, e with
  | PPrepare, ESth (Some n) =>
      Some {| m := sinit cfg (prepare_end opt_end n); last_sth := None; ph := PRunning |}
  | PPrepare, ESth None => Some {| m := m r; last_sth := None; ph := PFailed |}
  | PFailed, EReturn false _ => Some {| m := m r; last_sth := None; ph := PReturned |}
  | PRunning, ESth (Some n) =>
      (* only the waiting generator of a continuous fetch asks for tree heads *)
      if c_cont cfg then Some {| m := m r; last_sth := Some n; ph := PRunning |} else None
  | PRunning, ESth None => if c_cont cfg then Some r else None
  | PRunning, EReq a b rs =>
      bind (replay_req (m r) (last_sth r) a b rs)
           (fun s => Some {| m := s; last_sth := last_sth r; ph := PRunning |})
  | PRunning, ECb a es =>
      if scan then None else
      bind (find_w (is_got a es) (ws (fs (m r))) 0)
           (fun w => bind (sst (m r) (LCallback w))
                          (fun s => Some {| m := s; last_sth := last_sth r; ph := PRunning |}))
  | PRunning, EFound k i e =>
      if negb scan then None else
      bind (find_pool i e (pool (m r)))
           (fun n => match found_of classify matches (c_variant cfg) mk po (i, e) with
                     | [(k', _, _)] =>
                         if ekind_eqb k k' then
                           bind (sstep classify matches cfg mk po (m r) (SProc n))
                                (fun s => Some {| m := s; last_sth := last_sth r; ph := PRunning |})
                         else None
                     | _ => None
                     end)
  | PRunning, EStop => bind (sst (m r) LStop) (fun s => Some {| m := s; last_sth := last_sth r; ph := PRunning |})
  | PRunning, ECancel => bind (sst (m r) LCancel) (fun s => Some {| m := s; last_sth := last_sth r; ph := PRunning |})
  | PRunning, EReturn true ret =>
      bind (finalize (m r))
           (fun s => if scan
                     then (if no_found (pool s) && (ret =? g_end (fs s))
                           then Some {| m := s; last_sth := None; ph := PReturned |} else None)
                     else Some {| m := s; last_sth := None; ph := PReturned |})
  | _, _ => None
  end.

(* replay; on rejection return the number of events accepted and the state reached *)
Fixpoint replay (r : rstate) (evs : list ev) (n : N) : rstate * option N :=
  match evs with
  | [] => (r, None)
  | e :: t => match replay_ev r e with
              | Some r' => replay r' t (n + 1)
              | None => (r, Some n)
              end
  end.

Definition start_state : rstate := {| m := sinit cfg 0; last_sth := None; ph := PPrepare |}.

Definition accepted (evs : list ev) : bool :=
  match replay start_state evs 0 with
  | (r, None) => match ph r with PReturned => true | _ => false end
  | _ => false
  end.

End Replay.

Definition mkcfg (batch : Z) (workers : nat) (start : Z) (cont : bool) : config :=
  {| c_variant := the_code; c_batch := batch; c_workers := workers; c_start := start; c_cont := cont |}.

Definition check (c : case) : bool :=
  match c with
  | CFetch batch workers start end_ cont log evs =>
      accepted [] (mkcfg batch workers start cont) end_ false MCert false log evs
  | CScan batch workers start end_ cont mk po classes log evs =>
      accepted classes (mkcfg batch workers start cont) end_ true mk po log evs
  end.

(* what the model says: (index of the first event the model does not allow, if any;
   generator cursor and end; worker states; indices delivered; callbacks found so far) *)
Definition explain (c : case) :=
  let '(r, bad) :=
    match c with
    | CFetch batch workers start end_ cont log evs =>
        replay [] (mkcfg batch workers start cont) end_ false MCert false log
               (start_state (mkcfg batch workers start cont)) evs 0
    | CScan batch workers start end_ cont mk po classes log evs =>
        replay classes (mkcfg batch workers start cont) end_ true mk po log
               (start_state (mkcfg batch workers start cont)) evs 0
    end in
  (bad, (g_cur (fs (m r)), g_end (fs (m r)), g_alive (fs (m r))), ws (fs (m r)),
   map fst (delivered (fs (m r))), map (fun x => (fst (fst x), snd (fst x))) (found (m r))).
