package main

// (ii) conformance: certificates issued by a conforming encoder - x509.CreateCertificate of the
// fork AND of crypto/x509 - from templates that cover every extension the parser interprets,
// name string types, key types and validity on both sides of 2050 are parsed by the fork and
// by crypto/x509 of the installed toolchain.  Required: NO error at all from the fork, and
// field-by-field equality of the interpreted fields (both Certificate structs are projected to
// one common JSON form).  This is validation, not proof: there is no Coq model of the field
// parser; the case term only records the verdict.

import (
	"crypto"
	"crypto/ed25519"
	"crypto/rand"
	stdx509 "crypto/x509"
	stdpkix "crypto/x509/pkix"
	stdasn1 "encoding/asn1"
	"encoding/binary"
	"encoding/hex"
	"encoding/json"
	"fmt"
	"math/big"
	"net"
	"net/url"
	"sort"
	"strings"
	"time"

	"github.com/google/certificate-transparency-go/asn1"
	"github.com/google/certificate-transparency-go/x509"
	"github.com/google/certificate-transparency-go/x509/pkix"

	"verif/harness/lib"
	"verif/harness/pki"
)

type ext struct {
	oid      []int
	critical bool
	value    []byte
}

type atv struct {
	oid []int
	tag int // ASN.1 string tag, 0 = let the encoder choose
	val string
}

type tmpl struct {
	name              string
	key               string
	serial            *big.Int
	cn                string
	org, ou, country  []string
	extraNames        []atv
	notBefore         time.Time
	notAfter          time.Time
	keyUsage          int
	eku               []int // indexes into ekuPairs
	unknownEKU        [][]int
	bcValid, isCA     bool
	maxPathLen        int
	maxPathLenZero    bool
	ski               []byte
	dns, emails, uris []string
	ips               []net.IP
	permDNS, exclDNS  []string
	permIP, exclIP    []*net.IPNet
	permEmail         []string
	exclEmail         []string
	permURI, exclURI  []string
	ncCritical        bool
	policies          [][]int
	crldp             []string
	ocsp, issuing     []string
	extra             []ext
	stdOnly           bool // issue with crypto/x509 only
}

var ekuPairs = []struct {
	f x509.ExtKeyUsage
	s stdx509.ExtKeyUsage
	n string
}{
	{x509.ExtKeyUsageAny, stdx509.ExtKeyUsageAny, "Any"},
	{x509.ExtKeyUsageServerAuth, stdx509.ExtKeyUsageServerAuth, "ServerAuth"},
	{x509.ExtKeyUsageClientAuth, stdx509.ExtKeyUsageClientAuth, "ClientAuth"},
	{x509.ExtKeyUsageCodeSigning, stdx509.ExtKeyUsageCodeSigning, "CodeSigning"},
	{x509.ExtKeyUsageEmailProtection, stdx509.ExtKeyUsageEmailProtection, "EmailProtection"},
	{x509.ExtKeyUsageIPSECEndSystem, stdx509.ExtKeyUsageIPSECEndSystem, "IPSECEndSystem"},
	{x509.ExtKeyUsageIPSECTunnel, stdx509.ExtKeyUsageIPSECTunnel, "IPSECTunnel"},
	{x509.ExtKeyUsageIPSECUser, stdx509.ExtKeyUsageIPSECUser, "IPSECUser"},
	{x509.ExtKeyUsageTimeStamping, stdx509.ExtKeyUsageTimeStamping, "TimeStamping"},
	{x509.ExtKeyUsageOCSPSigning, stdx509.ExtKeyUsageOCSPSigning, "OCSPSigning"},
	{x509.ExtKeyUsageMicrosoftServerGatedCrypto, stdx509.ExtKeyUsageMicrosoftServerGatedCrypto, "MicrosoftServerGatedCrypto"},
	{x509.ExtKeyUsageNetscapeServerGatedCrypto, stdx509.ExtKeyUsageNetscapeServerGatedCrypto, "NetscapeServerGatedCrypto"},
	{x509.ExtKeyUsageMicrosoftCommercialCodeSigning, stdx509.ExtKeyUsageMicrosoftCommercialCodeSigning, "MicrosoftCommercialCodeSigning"},
	{x509.ExtKeyUsageMicrosoftKernelCodeSigning, stdx509.ExtKeyUsageMicrosoftKernelCodeSigning, "MicrosoftKernelCodeSigning"},
}

const ctEKU = "1.3.6.1.4.1.11129.2.4.4"
const sctListOID = "1.3.6.1.4.1.11129.2.4.2"

func oidStr(o []int) string {
	var s []string
	for _, x := range o {
		s = append(s, fmt.Sprint(x))
	}
	return strings.Join(s, ".")
}

func (t *tmpl) forkTemplate() *x509.Certificate {
	c := &x509.Certificate{SerialNumber: t.serial, NotBefore: t.notBefore, NotAfter: t.notAfter, KeyUsage: x509.KeyUsage(t.keyUsage),
		BasicConstraintsValid: t.bcValid, IsCA: t.isCA, MaxPathLen: t.maxPathLen, MaxPathLenZero: t.maxPathLenZero, SubjectKeyId: t.ski,
		DNSNames: t.dns, EmailAddresses: t.emails, IPAddresses: t.ips,
		PermittedDNSDomainsCritical: t.ncCritical, PermittedDNSDomains: t.permDNS, ExcludedDNSDomains: t.exclDNS, PermittedIPRanges: t.permIP, ExcludedIPRanges: t.exclIP,
		PermittedEmailAddresses: t.permEmail, ExcludedEmailAddresses: t.exclEmail, PermittedURIDomains: t.permURI, ExcludedURIDomains: t.exclURI,
		CRLDistributionPoints: t.crldp, OCSPServer: t.ocsp, IssuingCertificateURL: t.issuing}
	c.Subject = pkix.Name{CommonName: t.cn, Organization: t.org, OrganizationalUnit: t.ou, Country: t.country}
	for _, a := range t.extraNames {
		var v interface{} = a.val
		if a.tag != 0 {
			v = asn1.RawValue{Tag: a.tag, Bytes: encodeString(a.tag, a.val)}
		}
		c.Subject.ExtraNames = append(c.Subject.ExtraNames, pkix.AttributeTypeAndValue{Type: a.oid, Value: v})
	}
	for _, u := range t.uris {
		p, _ := url.Parse(u)
		c.URIs = append(c.URIs, p)
	}
	for _, i := range t.eku {
		c.ExtKeyUsage = append(c.ExtKeyUsage, ekuPairs[i].f)
	}
	for _, o := range t.unknownEKU {
		c.UnknownExtKeyUsage = append(c.UnknownExtKeyUsage, o)
	}
	for _, p := range t.policies {
		c.PolicyIdentifiers = append(c.PolicyIdentifiers, p)
	}
	for _, e := range t.extra {
		c.ExtraExtensions = append(c.ExtraExtensions, pkix.Extension{Id: e.oid, Critical: e.critical, Value: e.value})
	}
	return c
}

func (t *tmpl) stdTemplate() *stdx509.Certificate {
	c := &stdx509.Certificate{SerialNumber: t.serial, NotBefore: t.notBefore, NotAfter: t.notAfter, KeyUsage: stdx509.KeyUsage(t.keyUsage),
		BasicConstraintsValid: t.bcValid, IsCA: t.isCA, MaxPathLen: t.maxPathLen, MaxPathLenZero: t.maxPathLenZero, SubjectKeyId: t.ski,
		DNSNames: t.dns, EmailAddresses: t.emails, IPAddresses: t.ips,
		PermittedDNSDomainsCritical: t.ncCritical, PermittedDNSDomains: t.permDNS, ExcludedDNSDomains: t.exclDNS, PermittedIPRanges: t.permIP, ExcludedIPRanges: t.exclIP,
		PermittedEmailAddresses: t.permEmail, ExcludedEmailAddresses: t.exclEmail, PermittedURIDomains: t.permURI, ExcludedURIDomains: t.exclURI,
		CRLDistributionPoints: t.crldp, OCSPServer: t.ocsp, IssuingCertificateURL: t.issuing}
	c.Subject = stdpkix.Name{CommonName: t.cn, Organization: t.org, OrganizationalUnit: t.ou, Country: t.country}
	for _, a := range t.extraNames {
		var v interface{} = a.val
		if a.tag != 0 {
			v = stdasn1.RawValue{Tag: a.tag, Bytes: encodeString(a.tag, a.val)}
		}
		c.Subject.ExtraNames = append(c.Subject.ExtraNames, stdpkix.AttributeTypeAndValue{Type: a.oid, Value: v})
	}
	for _, u := range t.uris {
		p, _ := url.Parse(u)
		c.URIs = append(c.URIs, p)
	}
	for _, i := range t.eku {
		c.ExtKeyUsage = append(c.ExtKeyUsage, ekuPairs[i].s)
	}
	for _, o := range t.unknownEKU {
		c.UnknownExtKeyUsage = append(c.UnknownExtKeyUsage, o)
	}
	for _, p := range t.policies {
		c.PolicyIdentifiers = append(c.PolicyIdentifiers, p)
	}
	for _, e := range t.extra {
		c.ExtraExtensions = append(c.ExtraExtensions, stdpkix.Extension{Id: e.oid, Critical: e.critical, Value: e.value})
	}
	return c
}

func encodeString(tag int, s string) []byte {
	if tag == 30 { // BMPString: UTF-16BE
		var o []byte
		for _, r := range s {
			o = append(o, byte(r>>8), byte(r))
		}
		return o
	}
	return []byte(s)
}

// ---- projection of both Certificate types to one JSON form ----

type proj map[string]interface{}

func hx(b []byte) string { return hex.EncodeToString(b) }

func strs(xs interface{}) []string {
	out := []string{}
	switch v := xs.(type) {
	case []string:
		out = append(out, v...)
	case []net.IP:
		for _, x := range v {
			out = append(out, x.String())
		}
	case []*net.IPNet:
		for _, x := range v {
			out = append(out, x.String())
		}
	case []*url.URL:
		for _, x := range v {
			out = append(out, x.String())
		}
	}
	return out
}

func keyBytes(pub interface{}) string {
	if pub == nil {
		return "nil"
	}
	b, err := stdx509.MarshalPKIXPublicKey(pub)
	if err != nil {
		return fmt.Sprintf("%T: %v", pub, err)
	}
	return fmt.Sprintf("%T:%s", pub, hx(b))
}

func projFork(c *x509.Certificate) proj {
	p := proj{"version": c.Version, "serial": c.SerialNumber.String(), "rawTBS": sha(c.RawTBSCertificate), "rawSubject": hx(c.RawSubject), "rawIssuer": hx(c.RawIssuer),
		"rawSPKI": sha(c.RawSubjectPublicKeyInfo), "raw": sha(c.Raw), "notBefore": c.NotBefore.UTC().Format(time.RFC3339), "notAfter": c.NotAfter.UTC().Format(time.RFC3339),
		"keyUsage": int(c.KeyUsage), "bcValid": c.BasicConstraintsValid, "isCA": c.IsCA, "maxPathLen": c.MaxPathLen, "maxPathLenZero": c.MaxPathLenZero,
		"ski": hx(c.SubjectKeyId), "aki": hx(c.AuthorityKeyId), "dns": strs(c.DNSNames), "emails": strs(c.EmailAddresses), "ips": strs(c.IPAddresses), "uris": strs(c.URIs),
		"ncCritical": c.PermittedDNSDomainsCritical, "permDNS": strs(c.PermittedDNSDomains), "exclDNS": strs(c.ExcludedDNSDomains), "permIP": strs(c.PermittedIPRanges),
		"exclIP": strs(c.ExcludedIPRanges), "permEmail": strs(c.PermittedEmailAddresses), "exclEmail": strs(c.ExcludedEmailAddresses), "permURI": strs(c.PermittedURIDomains),
		"exclURI": strs(c.ExcludedURIDomains), "crldp": strs(c.CRLDistributionPoints), "ocsp": strs(c.OCSPServer), "issuing": strs(c.IssuingCertificateURL),
		"sigAlg": c.SignatureAlgorithm.String(), "pubAlg": c.PublicKeyAlgorithm.String(), "pub": keyBytes(c.PublicKey), "signature": sha(c.Signature)}
	known, unknown := []string{}, []string{}
	for _, e := range c.ExtKeyUsage {
		found := false
		for _, pr := range ekuPairs {
			if pr.f == e {
				known = append(known, pr.n)
				found = true
			}
		}
		if !found && e == x509.ExtKeyUsageCertificateTransparency {
			unknown = append(unknown, ctEKU) // crypto/x509 does not know this one
		} else if !found {
			known = append(known, fmt.Sprintf("fork-only-%d", e))
		}
	}
	for _, o := range c.UnknownExtKeyUsage {
		unknown = append(unknown, o.String())
	}
	sort.Strings(unknown)
	p["eku"], p["unknownEKU"] = known, unknown
	pol := []string{}
	for _, o := range c.PolicyIdentifiers {
		pol = append(pol, o.String())
	}
	p["policies"] = pol
	exts := []string{}
	for _, e := range c.Extensions {
		exts = append(exts, fmt.Sprintf("%s/%v/%s", e.Id.String(), e.Critical, sha(e.Value)))
	}
	p["extensions"] = exts
	uh := []string{}
	for _, o := range c.UnhandledCriticalExtensions {
		uh = append(uh, o.String())
	}
	p["unhandledCritical"] = uh
	p["subject"], p["issuer"] = namesFork(c.Subject), namesFork(c.Issuer)
	return p
}

func namesFork(n pkix.Name) []string {
	out := []string{}
	for _, a := range n.Names {
		out = append(out, fmt.Sprintf("%s=%v", a.Type.String(), a.Value))
	}
	return out
}

func namesStd(n stdpkix.Name) []string {
	out := []string{}
	for _, a := range n.Names {
		out = append(out, fmt.Sprintf("%s=%v", a.Type.String(), a.Value))
	}
	return out
}

func projStd(c *stdx509.Certificate) proj {
	p := proj{"version": c.Version, "serial": c.SerialNumber.String(), "rawTBS": sha(c.RawTBSCertificate), "rawSubject": hx(c.RawSubject), "rawIssuer": hx(c.RawIssuer),
		"rawSPKI": sha(c.RawSubjectPublicKeyInfo), "raw": sha(c.Raw), "notBefore": c.NotBefore.UTC().Format(time.RFC3339), "notAfter": c.NotAfter.UTC().Format(time.RFC3339),
		"keyUsage": int(c.KeyUsage), "bcValid": c.BasicConstraintsValid, "isCA": c.IsCA, "maxPathLen": c.MaxPathLen, "maxPathLenZero": c.MaxPathLenZero,
		"ski": hx(c.SubjectKeyId), "aki": hx(c.AuthorityKeyId), "dns": strs(c.DNSNames), "emails": strs(c.EmailAddresses), "ips": strs(c.IPAddresses), "uris": strs(c.URIs),
		"ncCritical": c.PermittedDNSDomainsCritical, "permDNS": strs(c.PermittedDNSDomains), "exclDNS": strs(c.ExcludedDNSDomains), "permIP": strs(c.PermittedIPRanges),
		"exclIP": strs(c.ExcludedIPRanges), "permEmail": strs(c.PermittedEmailAddresses), "exclEmail": strs(c.ExcludedEmailAddresses), "permURI": strs(c.PermittedURIDomains),
		"exclURI": strs(c.ExcludedURIDomains), "crldp": strs(c.CRLDistributionPoints), "ocsp": strs(c.OCSPServer), "issuing": strs(c.IssuingCertificateURL),
		"sigAlg": c.SignatureAlgorithm.String(), "pubAlg": c.PublicKeyAlgorithm.String(), "pub": keyBytes(c.PublicKey), "signature": sha(c.Signature)}
	known, unknown := []string{}, []string{}
	for _, e := range c.ExtKeyUsage {
		found := false
		for _, pr := range ekuPairs {
			if pr.s == e {
				known = append(known, pr.n)
				found = true
			}
		}
		if !found {
			known = append(known, fmt.Sprintf("std-only-%d", e))
		}
	}
	for _, o := range c.UnknownExtKeyUsage {
		unknown = append(unknown, o.String())
	}
	sort.Strings(unknown)
	p["eku"], p["unknownEKU"] = known, unknown
	pol := []string{}
	for _, o := range c.PolicyIdentifiers {
		pol = append(pol, o.String())
	}
	p["policies"] = pol
	exts := []string{}
	for _, e := range c.Extensions {
		exts = append(exts, fmt.Sprintf("%s/%v/%s", e.Id.String(), e.Critical, sha(e.Value)))
	}
	p["extensions"] = exts
	uh := []string{}
	for _, o := range c.UnhandledCriticalExtensions {
		uh = append(uh, o.String())
	}
	p["unhandledCritical"] = uh
	p["subject"], p["issuer"] = namesStd(c.Subject), namesStd(c.Issuer)
	return p
}

func diff(a, b proj) []string {
	var out []string
	var keys []string
	for k := range a {
		keys = append(keys, k)
	}
	sort.Strings(keys)
	for _, k := range keys {
		x, _ := json.Marshal(a[k])
		y, _ := json.Marshal(b[k])
		if string(x) != string(y) {
			out = append(out, fmt.Sprintf("%s: fork=%s std=%s", k, x, y))
		}
	}
	return out
}

// ---- templates ----

func sctListExt() ext {
	sct := []byte{0}
	sct = append(sct, make([]byte, 32)...)
	ts := make([]byte, 8)
	binary.BigEndian.PutUint64(ts, 1700000000123)
	sct = append(sct, ts...)
	sct = append(sct, 0, 0)             // extensions
	sct = append(sct, 4, 3, 0, 4)       // sha256, ecdsa, 4-byte signature
	sct = append(sct, 0x30, 0x02, 1, 2) // opaque
	var list []byte
	list = append(list, byte(len(sct)>>8), byte(len(sct)))
	list = append(list, sct...)
	tl := append([]byte{byte(len(list) >> 8), byte(len(list))}, list...)
	v, _ := asn1.Marshal(tl)
	return ext{[]int{1, 3, 6, 1, 4, 1, 11129, 2, 4, 2}, false, v}
}

func ipnet(s string) *net.IPNet {
	_, n, err := net.ParseCIDR(s)
	if err != nil {
		panic(err)
	}
	return n
}

func baseTmpl(name string, serial int64) *tmpl {
	return &tmpl{name: name, key: "p256", serial: big.NewInt(serial), cn: "conformance " + name, org: []string{"verif"},
		notBefore: time.Date(2021, 3, 4, 5, 6, 7, 0, time.UTC), notAfter: time.Date(2031, 3, 4, 5, 6, 7, 0, time.UTC),
		keyUsage: int(x509.KeyUsageDigitalSignature), bcValid: true}
}

func (rn *runner) templates() []*tmpl {
	var ts []*tmpl
	n := int64(7000)
	rot := []string{"p256", "rsa2048", "p384", "ed25519", "p224", "p521"}
	add := func(name string, f func(t *tmpl)) {
		n++
		t := baseTmpl(name, n)
		t.key = rot[int(n)%len(rot)] // every feature is exercised under several key / signature types
		f(t)
		ts = append(ts, t)
	}
	add("minimal", func(t *tmpl) {})
	for _, k := range []string{"rsa2048", "p224", "p256", "p384", "p521", "ed25519"} {
		k := k
		add("key-"+k, func(t *tmpl) { t.key = k })
	}
	for i := 0; i < 9; i++ {
		i := i
		add(fmt.Sprintf("keyusage-bit%d", i), func(t *tmpl) { t.keyUsage = 1 << uint(i) })
	}
	add("keyusage-all", func(t *tmpl) { t.keyUsage = 0x1ff })
	add("keyusage-none", func(t *tmpl) { t.keyUsage = 0 })
	for i := range ekuPairs {
		i := i
		add("eku-"+ekuPairs[i].n, func(t *tmpl) { t.eku = []int{i} })
	}
	add("eku-many+unknown", func(t *tmpl) {
		t.eku = []int{1, 2, 8}
		t.unknownEKU = [][]int{{1, 3, 6, 1, 4, 1, 11129, 2, 4, 4}, {1, 2, 3, 4, 5}, {2, 5, 29, 37, 99}}
	})
	add("eku-unknown-only", func(t *tmpl) { t.unknownEKU = [][]int{{1, 3, 6, 1, 5, 5, 7, 3, 17}} })
	add("ca", func(t *tmpl) { t.isCA = true; t.keyUsage = int(x509.KeyUsageCertSign | x509.KeyUsageCRLSign) })
	add("ca-pathlen0", func(t *tmpl) { t.isCA = true; t.maxPathLenZero = true; t.keyUsage = int(x509.KeyUsageCertSign) })
	add("ca-pathlen3", func(t *tmpl) { t.isCA = true; t.maxPathLen = 3; t.keyUsage = int(x509.KeyUsageCertSign) })
	add("no-basic-constraints", func(t *tmpl) { t.bcValid = false })
	add("ski", func(t *tmpl) { t.ski = []byte{1, 2, 3, 4, 5, 6, 7, 8, 9, 10, 11, 12, 13, 14, 15, 16, 17, 18, 19, 20} })
	add("san-dns", func(t *tmpl) { t.dns = []string{"example.com", "*.example.org", "xn--bcher-kva.example"} })
	add("san-email", func(t *tmpl) { t.emails = []string{"a@example.com", "first.last+tag@sub.example.org"} })
	add("san-ip", func(t *tmpl) {
		t.ips = []net.IP{net.ParseIP("192.0.2.1").To4(), net.ParseIP("2001:db8::1"), net.ParseIP("0.0.0.0").To4(), net.ParseIP("::")}
	})
	add("san-uri", func(t *tmpl) {
		t.uris = []string{"https://example.com/path?q=1", "spiffe://trust.example/workload", "urn:uuid:f81d4fae-7dec-11d0-a765-00a0c91e6bf6"}
	})
	add("san-all", func(t *tmpl) {
		t.dns, t.emails, t.ips, t.uris = []string{"a.example"}, []string{"x@a.example"}, []net.IP{net.ParseIP("10.1.2.3").To4()}, []string{"https://a.example/"}
	})
	add("san-only-empty-subject", func(t *tmpl) { t.cn, t.org = "", nil; t.dns = []string{"only-san.example"} })
	add("nc-permitted-dns", func(t *tmpl) {
		t.isCA = true
		t.keyUsage = 4
		t.permDNS = []string{"example.com", ".sub.example.org"}
		t.ncCritical = true
	})
	add("nc-excluded-dns", func(t *tmpl) { t.isCA = true; t.keyUsage = 4; t.exclDNS = []string{"bad.example"}; t.ncCritical = true })
	add("nc-ip", func(t *tmpl) {
		t.isCA = true
		t.keyUsage = 4
		t.permIP = []*net.IPNet{ipnet("10.0.0.0/8"), ipnet("2001:db8::/32")}
		t.exclIP = []*net.IPNet{ipnet("10.1.0.0/16"), ipnet("0.0.0.0/0")}
		t.ncCritical = true
	})
	add("nc-email-uri", func(t *tmpl) {
		t.isCA = true
		t.keyUsage = 4
		t.permEmail, t.exclEmail = []string{"example.com", "user@example.org"}, []string{".bad.example"}
		t.permURI, t.exclURI = []string{"example.com", ".example.net"}, []string{"bad.example"}
	})
	add("nc-all-noncritical", func(t *tmpl) {
		t.isCA = true
		t.keyUsage = 4
		t.permDNS, t.exclDNS = []string{"a.example"}, []string{"b.a.example"}
		t.permIP, t.exclIP = []*net.IPNet{ipnet("192.0.2.0/24")}, []*net.IPNet{ipnet("192.0.2.128/25")}
		t.permEmail, t.permURI = []string{"a.example"}, []string{"a.example"}
	})
	add("policies", func(t *tmpl) {
		t.policies = [][]int{{2, 23, 140, 1, 2, 1}, {1, 3, 6, 1, 4, 1, 11129, 2, 5, 1}, {2, 5, 29, 32, 0}}
	})
	add("crldp", func(t *tmpl) { t.crldp = []string{"http://crl.example.com/ca.crl", "ldap://ldap.example.com/cn=ca"} })
	add("aia", func(t *tmpl) {
		t.ocsp, t.issuing = []string{"http://ocsp.example.com", "http://ocsp2.example.com/x"}, []string{"http://ca.example.com/ca.cer"}
	})
	add("sct-list", func(t *tmpl) { t.extra = []ext{sctListExt()} })
	add("unknown-noncritical-ext", func(t *tmpl) { t.extra = []ext{{[]int{1, 2, 3, 4, 5, 6}, false, []byte{0x05, 0x00}}} })
	add("unknown-critical-ext", func(t *tmpl) { t.extra = []ext{{[]int{1, 2, 3, 4, 5, 7}, true, []byte{0x04, 0x02, 0xde, 0xad}}} })
	add("ct-poison", func(t *tmpl) { t.extra = []ext{{[]int{1, 3, 6, 1, 4, 1, 11129, 2, 4, 3}, true, []byte{0x05, 0x00}}} })
	add("unknown-ext-in-arc", func(t *tmpl) {
		t.extra = []ext{{[]int{2, 5, 29, 99}, false, []byte{0x30, 0x00}}, {[]int{2, 5, 29, 98}, true, []byte{0x30, 0x00}}}
	})
	// names
	add("name-utf8", func(t *tmpl) { t.cn = "Zertifikat für Prüfung ✓"; t.org = []string{"Ünïcode GmbH", "second org"} })
	add("name-nonprintable-ascii", func(t *tmpl) { t.cn = "user_name@host*"; t.ou = []string{"a&b", "c"}; t.country = []string{"CH"} })
	add("name-ia5-email", func(t *tmpl) {
		t.extraNames = []atv{{[]int{1, 2, 840, 113549, 1, 9, 1}, 22, "ca@example.com"}, {[]int{0, 9, 2342, 19200300, 100, 1, 25}, 22, "example"}}
	})
	add("name-t61-bmp-numeric", func(t *tmpl) {
		t.extraNames = []atv{{[]int{2, 5, 4, 3}, 20, "t61 ascii name"}, {[]int{2, 5, 4, 10}, 30, "bmp org"}, {[]int{2, 5, 4, 5}, 18, "12345 678"}, {[]int{2, 5, 4, 11}, 19, "printable ou"}}
	})
	add("name-extra-unknown-oid", func(t *tmpl) { t.extraNames = []atv{{[]int{1, 2, 3, 4, 5, 6, 7}, 0, "custom attribute"}} })
	// validity
	for _, v := range []struct {
		n    string
		a, b time.Time
	}{
		{"both-utctime", time.Date(1999, 12, 31, 23, 59, 59, 0, time.UTC), time.Date(2049, 12, 31, 23, 59, 59, 0, time.UTC)},
		{"straddle-2050", time.Date(2049, 12, 31, 23, 59, 59, 0, time.UTC), time.Date(2050, 1, 1, 0, 0, 0, 0, time.UTC)},
		{"both-generalized", time.Date(2050, 1, 1, 0, 0, 0, 0, time.UTC), time.Date(2099, 6, 30, 12, 0, 1, 0, time.UTC)},
		{"utctime-1950", time.Date(1950, 1, 1, 0, 0, 0, 0, time.UTC), time.Date(2020, 2, 29, 1, 2, 3, 0, time.UTC)},
		{"far-future", time.Date(2024, 1, 1, 0, 0, 0, 0, time.UTC), time.Date(9999, 12, 31, 23, 59, 59, 0, time.UTC)},
		{"non-utc-zone", time.Date(2030, 5, 5, 5, 5, 5, 0, time.FixedZone("x", 3600)), time.Date(2051, 5, 5, 5, 5, 5, 0, time.FixedZone("y", -7200))},
	} {
		v := v
		add("validity-"+v.n, func(t *tmpl) { t.notBefore, t.notAfter = v.a, v.b })
	}
	// The two ends of the UTCTime window (RFC 5280 4.1.2.5: years 1950..2049 are written with two digits,
	// everything else as GeneralizedTime), enumerated: each of the years around both pivots as notBefore AND
	// as notAfter, at the first and the last second of the year, and the window's two ends together.  Every
	// template is issued by crypto/x509.CreateCertificate (and by the fork's encoder) and, beyond the
	// comparison with crypto/x509's reading, the parsed bounds are compared with the template itself.
	at := func(y int, end bool) time.Time {
		if end {
			return time.Date(y, 12, 31, 23, 59, 59, 0, time.UTC)
		}
		return time.Date(y, 1, 1, 0, 0, 0, 0, time.UTC)
	}
	for _, y := range []int{1949, 1950, 1951, 1999, 2000, 2049, 2050, 2051} {
		y := y
		add(fmt.Sprintf("validity-year-%d-whole", y), func(t *tmpl) { t.notBefore, t.notAfter = at(y, false), at(y, true) })
		add(fmt.Sprintf("validity-year-%d-notbefore-end", y), func(t *tmpl) { t.notBefore, t.notAfter = at(y, true), at(2060, false) })
		add(fmt.Sprintf("validity-year-%d-notafter-start", y), func(t *tmpl) { t.notBefore, t.notAfter = at(1940, false), at(y, false) })
	}
	add("validity-utctime-window", func(t *tmpl) { t.notBefore, t.notAfter = at(1950, false), at(2049, true) })
	add("validity-just-outside-window", func(t *tmpl) { t.notBefore, t.notAfter = at(1949, true), at(2050, false) })
	add("serial-large", func(t *tmpl) { t.serial, _ = new(big.Int).SetString("00f1e2d3c4b5a69788796a5b4c3d2e1f00", 16) })
	add("serial-high-bit", func(t *tmpl) { t.serial = new(big.Int).SetBytes([]byte{0x80, 0, 0, 0, 0, 0, 0, 1}) })
	add("serial-one", func(t *tmpl) { t.serial = big.NewInt(1) })
	// seeded random combinations of the features above
	feats := ts
	keys := []string{"rsa2048", "p224", "p256", "p384", "p521", "ed25519"}
	for i := 0; i < lib.Count(40, 600); i++ {
		i := i
		add(fmt.Sprintf("combo%d", i), func(t *tmpl) {
			t.key = keys[rn.r.Intn(len(keys))]
			for j := 0; j < 2+rn.r.Intn(5); j++ {
				f := feats[rn.r.Intn(len(feats))]
				mergeTmpl(t, f)
			}
		})
	}
	rn.sanTemplates(add)
	return ts
}

// The subjectAltName class.  The templates above always put a DNS name next to an empty subject
// and never a single non-DNS kind into a CRITICAL extension, although an encoder marks the
// extension critical exactly when the subject is empty (RFC 5280 4.2.1.6) and the parser's
// decision "was the extension handled?" (UnhandledCriticalExtensions) is a function of WHICH kinds
// of name it found.  Enumerated here, without random choices:
//   - every non-empty subset of the four kinds the encoders take from template fields
//     {DNS, e-mail, IP, URI} x subject {non-empty, empty} x 1..3 names per kind, and
//   - GeneralNames written by hand (passed as ExtraExtensions, which both encoders copy in place
//     of their own subjectAltName) over the seven kinds {otherName, rfc822Name, dNSName,
//     directoryName, URI, iPAddress, registeredID}: every subset of size 1, 2 and 7 (all 127 in
//     the thorough tier) x {empty subject + critical, subject + non-critical, subject + critical,
//     empty subject + non-critical}.
//
// Each is issued by crypto/x509.CreateCertificate and by the fork's encoder and compared field by
// field with crypto/x509.ParseCertificate like every other template (names, URIs, Extensions
// (id, critical, value), UnhandledCriticalExtensions ...).
func (rn *runner) sanTemplates(add func(name string, f func(t *tmpl))) {
	dns := []string{"a.sanset.example", "*.b.sanset.example", "xn--bcher-kva.sanset.example"}
	emails := []string{"u@sanset.example", "first.last+tag@sub.sanset.example", "x@y.example"}
	ips := []net.IP{net.ParseIP("192.0.2.1").To4(), net.ParseIP("2001:db8::1"), net.ParseIP("0.0.0.0").To4()}
	uris := []string{"spiffe://trust.sanset.example/ns/default/sa/workload", "https://sanset.example/path?q=1", "urn:uuid:f81d4fae-7dec-11d0-a765-00a0c91e6bf6"}
	for mask := 1; mask < 16; mask++ {
		for _, empty := range []bool{false, true} {
			for n := 1; n <= 3; n++ {
				mask, empty, n := mask, empty, n
				name := fmt.Sprintf("sanset-fields-%04b-n%d", mask, n)
				if empty {
					name += "-emptysubject"
				}
				add(name, func(t *tmpl) {
					if empty {
						t.cn, t.org = "", nil
					}
					if mask&1 != 0 {
						t.dns = dns[:n]
					}
					if mask&2 != 0 {
						t.emails = emails[:n]
					}
					if mask&4 != 0 {
						t.ips = ips[:n]
					}
					if mask&8 != 0 {
						t.uris = uris[:n]
					}
				})
			}
		}
	}
	// hand-encoded GeneralNames
	upn := derTLV(0xa0, derOID(1, 3, 6, 1, 4, 1, 311, 20, 2, 3), derTLV(0xa0, derTLV(0x0c, []byte("user@sanset.example"))))
	gn := [][][]byte{
		{upn, derTLV(0xa0, derOID(1, 3, 6, 1, 5, 5, 7, 8, 7), derTLV(0xa0, derTLV(0x16, []byte("_xmpp.sanset.example"))))}, // otherName
		{derTLV(0x81, []byte("u@sanset.example")), derTLV(0x81, []byte("v@sanset.example"))},                               // rfc822Name
		{derTLV(0x82, []byte("a.sanset.example")), derTLV(0x82, []byte("*.b.sanset.example"))},                             // dNSName
		{derTLV(0xa4, dirName("san directory name")), derTLV(0xa4, stringsName("dir"))},                                    // directoryName
		{derTLV(0x86, []byte("spiffe://trust.sanset.example/workload")), derTLV(0x86, []byte("https://sanset.example/"))},  // URI
		{derTLV(0x87, []byte{192, 0, 2, 1}), derTLV(0x87, net.ParseIP("2001:db8::2"))},                                     // iPAddress
		{derTLV(0x88, derOID(1, 2, 3, 4)[2:]), derTLV(0x88, derOID(2, 5, 29, 17, 1)[2:])},                                  // registeredID
	}
	kindNames := []string{"other", "email", "dns", "dir", "uri", "ip", "rid"}
	pop := func(m int) (c int) {
		for ; m != 0; m &= m - 1 {
			c++
		}
		return
	}
	for mask := 1; mask < 128; mask++ {
		if lib.Tier() == "quick" && pop(mask) > 2 && pop(mask) < 7 {
			continue
		}
		for mode := 0; mode < 4; mode++ {
			mask, mode := mask, mode
			var names []string
			var content [][]byte
			for k := 0; k < 7; k++ {
				if mask&(1<<uint(k)) != 0 {
					names = append(names, kindNames[k])
					content = append(content, gn[k][0])
					if (mask+mode+k)%2 == 0 {
						content = append(content, gn[k][1])
					}
				}
			}
			empty, critical := mode == 0 || mode == 3, mode == 0 || mode == 2
			name := fmt.Sprintf("sanset-hand-%s-subject:%v-critical:%v", strings.Join(names, "+"), !empty, critical)
			add(name, func(t *tmpl) {
				if empty {
					t.cn, t.org = "", nil
				}
				t.extra = []ext{{[]int{2, 5, 29, 17}, critical, derTLV(0x30, content...)}}
			})
		}
	}
}

func mergeTmpl(t, f *tmpl) {
	if f.keyUsage != int(x509.KeyUsageDigitalSignature) {
		t.keyUsage = f.keyUsage
	}
	t.eku = append(t.eku, f.eku...)
	seen := map[int]bool{}
	var e2 []int
	for _, e := range t.eku {
		if !seen[e] {
			seen[e] = true
			e2 = append(e2, e)
		}
	}
	t.eku = e2
	if len(t.unknownEKU) == 0 {
		t.unknownEKU = f.unknownEKU
	}
	if f.isCA {
		t.isCA, t.maxPathLen, t.maxPathLenZero = true, f.maxPathLen, f.maxPathLenZero
		t.bcValid = true
	}
	if f.ski != nil {
		t.ski = f.ski
	}
	t.dns = append(t.dns, f.dns...)
	t.emails = append(t.emails, f.emails...)
	t.ips = append(t.ips, f.ips...)
	t.uris = append(t.uris, f.uris...)
	if len(f.permDNS)+len(f.exclDNS)+len(f.permIP)+len(f.exclIP)+len(f.permEmail)+len(f.exclEmail)+len(f.permURI)+len(f.exclURI) > 0 {
		t.isCA, t.bcValid = true, true
		t.permDNS, t.exclDNS, t.permIP, t.exclIP = f.permDNS, f.exclDNS, f.permIP, f.exclIP
		t.permEmail, t.exclEmail, t.permURI, t.exclURI, t.ncCritical = f.permEmail, f.exclEmail, f.permURI, f.exclURI, f.ncCritical
	}
	if len(f.policies) > 0 {
		t.policies = f.policies
	}
	if len(f.crldp) > 0 {
		t.crldp = f.crldp
	}
	if len(f.ocsp)+len(f.issuing) > 0 {
		t.ocsp, t.issuing = f.ocsp, f.issuing
	}
	for _, e := range f.extra {
		dup := false
		for _, x := range t.extra {
			if oidStr(x.oid) == oidStr(e.oid) {
				dup = true
			}
		}
		if !dup {
			t.extra = append(t.extra, e)
		}
	}
	if len(f.extraNames) > 0 && len(t.extraNames) == 0 {
		t.extraNames = f.extraNames
	}
	if f.cn != "" && !strings.HasPrefix(f.cn, "conformance ") {
		t.cn = f.cn
	}
	if !f.notBefore.Equal(time.Date(2021, 3, 4, 5, 6, 7, 0, time.UTC)) {
		t.notBefore, t.notAfter = f.notBefore, f.notAfter
	}
}

func (rn *runner) conformance() {
	for _, t := range rn.templates() {
		sc := rn.conformOne(t)
		// The criticality dimension: both encoders fix the critical flag of every extension they build
		// (keyUsage / basicConstraints always critical, the others never, subjectAltName by the subject),
		// so the parser's handled / unhandled decision was only ever seen at one flag value per
		// extension.  Each extension of the certificate crypto/x509 issued for a feature template is
		// issued again with the flag flipped (ExtraExtensions replace the encoder's own extension of
		// the same id) and compared in the same way.
		if sc == nil || strings.HasPrefix(t.name, "combo") || strings.HasPrefix(t.name, "sanset") || strings.HasPrefix(t.name, "key-") ||
			strings.HasPrefix(t.name, "validity-") || strings.HasPrefix(t.name, "serial-") || strings.HasPrefix(t.name, "name-") {
			continue
		}
		for _, e := range sc.Extensions {
			if seenFlip := rn.flipped[e.Id.String()+hx(e.Value)]; seenFlip && lib.Tier() == "quick" {
				continue // the same extension value (e.g. the default keyUsage) is flipped once in the quick tier
			}
			if rn.flipped == nil {
				rn.flipped = map[string]bool{}
			}
			rn.flipped[e.Id.String()+hx(e.Value)] = true
			tt := *t
			tt.name = fmt.Sprintf("%s/critflip-%s-to-%v", t.name, e.Id.String(), !e.Critical)
			tt.stdOnly = true
			tt.extra = nil
			for _, x := range t.extra {
				if oidStr(x.oid) != e.Id.String() {
					tt.extra = append(tt.extra, x)
				}
			}
			tt.extra = append(tt.extra, ext{append([]int{}, e.Id...), !e.Critical, e.Value})
			rn.conformOne(&tt)
		}
	}
}

// conformOne issues the template with both encoders and compares the parsers on each certificate;
// it returns crypto/x509's reading of the certificate crypto/x509 issued (nil if none).
func (rn *runner) conformOne(t *tmpl) (stdIssued *stdx509.Certificate) {
	{
		key := signerFor(t.key)
		type issued struct {
			enc string
			der []byte
		}
		var ds []issued
		if t.stdOnly {
		} else if der, err := x509.CreateCertificate(rand.Reader, t.forkTemplate(), t.forkTemplate(), key.Public(), key); err == nil {
			ds = append(ds, issued{"fork", der})
		} else {
			ds = append(ds, issued{"fork-encoder-error:" + err.Error(), nil})
		}
		if der, err := stdx509.CreateCertificate(rand.Reader, t.stdTemplate(), t.stdTemplate(), key.Public(), key); err == nil {
			ds = append(ds, issued{"std", der})
		} else {
			ds = append(ds, issued{"std-encoder-error:" + err.Error(), nil})
		}
		for _, d := range ds {
			tags := []string{"stream:conformance", "tmpl:" + strings.SplitN(t.name, "-", 2)[0], "key:" + t.key}
			if t.stdOnly {
				tags = append(tags, "conformance-class:critical-flag-flipped")
			}
			if d.der == nil {
				// a template one of the encoders refuses is not a well-formed certificate: recorded, not judged
				rn.w.Add(lib.Case{Coq: "(CConf true true)", Input: map[string]interface{}{"template": t.name, "encoder": d.enc}, Impl: "not issued", PropOK: true,
					Trivial: true, Tags: append(tags, "conformance:encoder-refused")})
				continue
			}
			fr := guard(func() res { return parsers[fnCert].f(d.der) })
			sc, serr := stdx509.ParseCertificate(d.der)
			if d.enc == "std" && serr == nil {
				stdIssued = sc
			}
			in := describe("template "+t.name+" issued by "+d.enc, nil, d.der, false)
			switch {
			case fr.panicked != "" || fr.hung:
				rn.coh(fnCert, "template "+t.name+" issued by "+d.enc, nil, d.der)
			case serr != nil:
				// crypto/x509 itself refuses what the encoder issued: outside the property's antecedent
				rn.w.Add(lib.Case{Coq: "(CConf true true)", Input: in, Impl: map[string]interface{}{"std_error": serr.Error(), "fork_error": fmt.Sprint(fr.err)}, PropOK: true,
					Tags: append(tags, "conformance:std-refuses-own-encoding")})
			default:
				noerr := fr.err == nil && fr.has
				var dd []string
				if fr.has {
					ps := projStd(sc)
					// the one extension the fork interprets and crypto/x509 does not (the embedded SCT list;
					// the fork fills Certificate.SCTList, checked below): when it is marked critical,
					// crypto/x509 lists it as unhandled and the fork, rightly, does not
					var uh []string
					for _, o := range ps["unhandledCritical"].([]string) {
						if o != sctListOID {
							uh = append(uh, o)
						}
					}
					if uh == nil {
						uh = []string{}
					}
					ps["unhandledCritical"] = uh
					dd = diff(projFork(fr.certs[0]), ps)
					// the validity bounds against the template itself (whole seconds; independent of both parsers)
					if got, want := fr.certs[0].NotBefore, t.notBefore.Truncate(time.Second); !got.Equal(want) {
						dd = append(dd, fmt.Sprintf("notBefore: fork=%s template=%s", got.UTC().Format(time.RFC3339), want.UTC().Format(time.RFC3339)))
					}
					if got, want := fr.certs[0].NotAfter, t.notAfter.Truncate(time.Second); !got.Equal(want) {
						dd = append(dd, fmt.Sprintf("notAfter: fork=%s template=%s", got.UTC().Format(time.RFC3339), want.UTC().Format(time.RFC3339)))
					}
					if len(t.extra) > 0 && oidStr(t.extra[0].oid) == sctListOID && len(fr.certs[0].SCTList.SCTList) != 1 {
						dd = append(dd, fmt.Sprintf("SCTList: %d entries, expected 1", len(fr.certs[0].SCTList.SCTList)))
					}
				}
				ok := noerr && len(dd) == 0
				note := ""
				if !noerr {
					note = fmt.Sprintf("conformance: template %s issued by %s: fork returns error %v (object=%v)", t.name, d.enc, fr.err, fr.has)
				} else if len(dd) > 0 {
					note = fmt.Sprintf("conformance: template %s issued by %s: %s", t.name, d.enc, strings.Join(dd, "; "))
				}
				if !ok {
					in = describe("template "+t.name+" issued by "+d.enc, nil, d.der, true)
				}
				rn.w.Add(lib.Case{Coq: fmt.Sprintf("(CConf %s %s)", lib.Bool(len(dd) == 0), lib.Bool(noerr)), Input: in,
					Impl: map[string]interface{}{"fork_error": fmt.Sprint(fr.err), "differences": dd}, PropOK: ok, Note: note, Tags: append(tags, "conformance:compared", "enc:"+d.enc),
					Key: "conf " + t.name + " " + d.enc})
				// the issued certificate also goes through the coherence / raw / model-tied cases
				rn.coh(fnCert, "template "+t.name, []string{d.enc}, d.der, "stream:conformance")
				rn.single(false, "template "+t.name, []string{d.enc}, d.der, "stream:conformance")
				rn.certs = append(rn.certs, d.der)
			}
		}
	}
	return
}

var p224Key crypto.Signer

func signerFor(kind string) crypto.Signer {
	if kind == "p224" {
		if p224Key == nil {
			p224Key = newP224()
		}
		return p224Key
	}
	if kind == "ed25519" {
		_, priv, _ := ed25519.GenerateKey(rand.Reader)
		return priv
	}
	return pki.Key(kind, 0)
}
