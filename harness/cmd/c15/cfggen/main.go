// cfggen (C15, T1): regenerates coq/gen/ConfigTables.v from the CURRENT Go source with go/ast:
//
//   - eku_table            the stringToKeyUsage map literal of trillian/ctfe/config.go
//   - merge_delay_rejected the case conditions of the tag-less merge-delay switch of ValidateLogConfig
//   - select_sth_getter    the tag-less switch of newLogInfo that picks the STH getter type
//   - handler_paths / dropped_paths   the key set of logInfo.Handlers and the keys it deletes
//   - backend_* constants  the IssuanceChainStorageBackend enum values of configpb
//   - storage_arms         the case labels of the storage-backend switches (config.go, storage.go)
//
// gofrag (the shared translator) handles `if` conditions only; the constructs above are map /
// composite literals and tag-less switches, so this small C15-only translator covers them.
// Anything it does not understand aborts with a non-zero exit status (bin/check reports a
// broken translation obligation); it never guesses.
package main

import (
	"bytes"
	"flag"
	"fmt"
	"go/ast"
	"go/parser"
	"go/printer"
	"go/token"
	"os"
	"path/filepath"
	"strconv"
	"strings"
)

var fset = token.NewFileSet()

func die(f string, a ...interface{}) {
	fmt.Fprintf(os.Stderr, "CFGGEN-ABORT "+f+"\n", a...)
	os.Exit(2)
}

func src(n ast.Node) string {
	var b bytes.Buffer
	printer.Fprint(&b, fset, n)
	return b.String()
}

func parse(path string) *ast.File {
	f, err := parser.ParseFile(fset, path, nil, 0)
	if err != nil {
		die("parse %s: %v", path, err)
	}
	return f
}

func findFunc(f *ast.File, recv, name string) *ast.FuncDecl {
	for _, d := range f.Decls {
		fd, ok := d.(*ast.FuncDecl)
		if !ok || fd.Name.Name != name {
			continue
		}
		if recv == "" && fd.Recv == nil {
			return fd
		}
		if recv != "" && fd.Recv != nil && strings.TrimPrefix(src(fd.Recv.List[0].Type), "*") == recv {
			return fd
		}
	}
	die("function %s.%s not found", recv, name)
	return nil
}

func coqStr(s string) string {
	for _, c := range []byte(s) {
		if c < 0x20 || c > 0x7e {
			die("non-printable byte in string constant %q", s)
		}
	}
	return "\"" + strings.ReplaceAll(s, "\"", "\"\"") + "\""
}

// stringConsts collects `Name = "literal"` constants of a file.
func stringConsts(f *ast.File) map[string]string {
	m := map[string]string{}
	for _, d := range f.Decls {
		gd, ok := d.(*ast.GenDecl)
		if !ok || gd.Tok != token.CONST {
			continue
		}
		for _, sp := range gd.Specs {
			vs := sp.(*ast.ValueSpec)
			for i, nm := range vs.Names {
				if i < len(vs.Values) {
					if bl, ok := vs.Values[i].(*ast.BasicLit); ok && bl.Kind == token.STRING {
						if s, err := strconv.Unquote(bl.Value); err == nil {
							m[nm.Name] = s
						}
					}
				}
			}
		}
	}
	return m
}

// ---- a tiny boolean/comparison expression translator ----

type ent struct{ coq, ty string } // ty: bool | int | ptr

func expr(e ast.Expr, env map[string]ent) (string, string) {
	if v, ok := env[src(e)]; ok {
		return v.coq, v.ty
	}
	switch n := e.(type) {
	case *ast.ParenExpr:
		s, t := expr(n.X, env)
		return "(" + s + ")", t
	case *ast.BasicLit:
		if n.Kind == token.INT {
			v, err := strconv.ParseInt(n.Value, 0, 64)
			if err != nil {
				die("integer literal %s", n.Value)
			}
			return fmt.Sprintf("(%d)", v), "int"
		}
	case *ast.UnaryExpr:
		if n.Op == token.NOT {
			s, t := expr(n.X, env)
			if t != "bool" {
				die("! on %s", t)
			}
			return "negb (" + s + ")", "bool"
		}
	case *ast.BinaryExpr:
		isNil := func(x ast.Expr) bool { id, ok := x.(*ast.Ident); return ok && id.Name == "nil" }
		if (n.Op == token.EQL || n.Op == token.NEQ) && isNil(n.Y) {
			s, t := expr(n.X, env)
			if t != "ptr" {
				die("nil comparison on %s: %s", t, src(n))
			}
			if n.Op == token.NEQ {
				return s, "bool" // the env binds a pointer to its "is present" boolean
			}
			return "negb (" + s + ")", "bool"
		}
		a, ta := expr(n.X, env)
		b, tb := expr(n.Y, env)
		switch n.Op {
		case token.LAND, token.LOR:
			if ta != "bool" || tb != "bool" {
				die("boolean operator on %s,%s: %s", ta, tb, src(n))
			}
			op := " && "
			if n.Op == token.LOR {
				op = " || "
			}
			return "(" + a + op + b + ")", "bool"
		case token.LSS, token.LEQ, token.GTR, token.GEQ, token.EQL, token.NEQ:
			if ta != "int" || tb != "int" {
				die("comparison on %s,%s: %s", ta, tb, src(n))
			}
			ops := map[token.Token]string{token.LSS: "<?", token.LEQ: "<=?", token.GTR: ">?", token.GEQ: ">=?", token.EQL: "=?"}
			if n.Op == token.NEQ {
				return "negb (" + a + " =? " + b + ")", "bool"
			}
			return "(" + a + " " + ops[n.Op] + " " + b + ")", "bool"
		}
	}
	die("unsupported expression %T: %s", e, src(e))
	return "", ""
}

// taglessSwitch finds the first `switch { ... }` of fd whose source contains marker.
func taglessSwitch(fd *ast.FuncDecl, marker string) *ast.SwitchStmt {
	var found *ast.SwitchStmt
	ast.Inspect(fd.Body, func(n ast.Node) bool {
		if sw, ok := n.(*ast.SwitchStmt); ok && found == nil && sw.Tag == nil && sw.Init == nil && strings.Contains(src(sw), marker) {
			found = sw
		}
		return true
	})
	if found == nil {
		die("no tag-less switch containing %q in %s", marker, fd.Name.Name)
	}
	return found
}

func taggedSwitch(fd *ast.FuncDecl, marker string) *ast.SwitchStmt {
	var found *ast.SwitchStmt
	ast.Inspect(fd.Body, func(n ast.Node) bool {
		if sw, ok := n.(*ast.SwitchStmt); ok && found == nil && sw.Tag != nil && strings.Contains(src(sw.Tag), marker) {
			found = sw
		}
		return true
	})
	if found == nil {
		die("no switch on %q in %s", marker, fd.Name.Name)
	}
	return found
}

func main() {
	repo := flag.String("repo", "/repo", "repository root")
	out := flag.String("out", "", "output .v file")
	flag.Parse()
	if *out == "" {
		die("-out is required")
	}
	var b strings.Builder
	b.WriteString("(* GENERATED by harness/cmd/c15/cfggen from the repository's working tree; do not edit. *)\n")
	b.WriteString("From Coq Require Import ZArith Bool List String.\nImport ListNotations.\nOpen Scope string_scope.\nOpen Scope Z_scope.\nOpen Scope bool_scope.\n\n")

	cfgFile := parse(filepath.Join(*repo, "trillian/ctfe/config.go"))

	// 1. stringToKeyUsage
	{
		var lit *ast.CompositeLit
		for _, d := range cfgFile.Decls {
			gd, ok := d.(*ast.GenDecl)
			if !ok || gd.Tok != token.VAR {
				continue
			}
			for _, sp := range gd.Specs {
				vs := sp.(*ast.ValueSpec)
				for i, nm := range vs.Names {
					if nm.Name == "stringToKeyUsage" && i < len(vs.Values) {
						lit, _ = vs.Values[i].(*ast.CompositeLit)
					}
				}
			}
		}
		if lit == nil {
			die("stringToKeyUsage map literal not found")
		}
		var rows []string
		for _, e := range lit.Elts {
			kv, ok := e.(*ast.KeyValueExpr)
			if !ok {
				die("stringToKeyUsage: element %s", src(e))
			}
			k, ok := kv.Key.(*ast.BasicLit)
			if !ok || k.Kind != token.STRING {
				die("stringToKeyUsage: key %s", src(kv.Key))
			}
			ks, _ := strconv.Unquote(k.Value)
			sel, ok := kv.Value.(*ast.SelectorExpr)
			if !ok || src(sel.X) != "x509" {
				die("stringToKeyUsage: value %s", src(kv.Value))
			}
			rows = append(rows, "("+coqStr(ks)+", "+coqStr(sel.Sel.Name)+")")
		}
		b.WriteString("(* trillian/ctfe/config.go: var stringToKeyUsage (name, x509 constant) *)\n")
		b.WriteString("Definition eku_table : list (string * string) :=\n  [" + strings.Join(rows, ";\n   ") + "].\n\n")
	}

	// 2. merge-delay switch of ValidateLogConfig
	{
		fd := findFunc(cfgFile, "", "ValidateLogConfig")
		sw := taglessSwitch(fd, "MergeDelaySec")
		env := map[string]ent{"cfg.MaxMergeDelaySec": {"v_max", "int"}, "cfg.ExpectedMergeDelaySec": {"v_exp", "int"}}
		var conds, cmts []string
		for _, c := range sw.Body.List {
			cc := c.(*ast.CaseClause)
			if cc.List == nil {
				die("merge-delay switch has a default arm")
			}
			if len(cc.Body) != 1 {
				die("merge-delay switch arm is not a single return: %s", src(cc))
			}
			rs, ok := cc.Body[0].(*ast.ReturnStmt)
			if !ok || len(rs.Results) != 2 || src(rs.Results[0]) != "nil" || src(rs.Results[1]) == "nil" {
				die("merge-delay switch arm does not return (nil, error): %s", src(cc))
			}
			for _, e := range cc.List {
				s, t := expr(e, env)
				if t != "bool" {
					die("merge-delay case is not boolean")
				}
				conds = append(conds, s)
				cmts = append(cmts, src(e))
			}
		}
		b.WriteString("(* trillian/ctfe/config.go: ValidateLogConfig, tag-less switch; every arm returns an error:\n   " + strings.Join(cmts, " | ") + " *)\n")
		b.WriteString("Definition merge_delay_rejected (v_max v_exp : Z) : bool :=\n  " + strings.Join(conds, " || ") + ".\n\n")
	}

	// 3. storage-backend switch arms of ValidateLogConfig and storage.NewIssuanceChainStorage
	pbFile := parse(filepath.Join(*repo, "trillian/ctfe/configpb/config.pb.go"))
	enum := map[string]int64{}
	for _, d := range pbFile.Decls {
		gd, ok := d.(*ast.GenDecl)
		if !ok || gd.Tok != token.CONST {
			continue
		}
		for _, sp := range gd.Specs {
			vs := sp.(*ast.ValueSpec)
			if vs.Type == nil || src(vs.Type) != "LogConfig_IssuanceChainStorageBackend" {
				continue
			}
			for i, nm := range vs.Names {
				bl, ok := vs.Values[i].(*ast.BasicLit)
				if !ok {
					die("enum value %s", src(vs.Values[i]))
				}
				v, _ := strconv.ParseInt(bl.Value, 0, 64)
				enum[nm.Name] = v
			}
		}
	}
	for _, want := range []string{"LogConfig_ISSUANCE_CHAIN_STORAGE_BACKEND_TRILLIAN_GRPC", "LogConfig_ISSUANCE_CHAIN_STORAGE_BACKEND_CTFE"} {
		v, ok := enum[want]
		if !ok {
			die("enum constant %s not found", want)
		}
		fmt.Fprintf(&b, "Definition backend_%s : Z := %d.\n", strings.TrimPrefix(want, "LogConfig_ISSUANCE_CHAIN_STORAGE_BACKEND_"), v)
	}
	arms := func(sw *ast.SwitchStmt) (string, bool) {
		var xs []string
		def := false
		for _, c := range sw.Body.List {
			cc := c.(*ast.CaseClause)
			if cc.List == nil {
				def = true
			}
			for _, e := range cc.List {
				sel, ok := e.(*ast.SelectorExpr)
				if !ok {
					die("storage switch label %s", src(e))
				}
				v, ok := enum[sel.Sel.Name]
				if !ok {
					die("storage switch label %s is not an enum constant", src(e))
				}
				xs = append(xs, fmt.Sprintf("%d", v))
			}
		}
		return "[" + strings.Join(xs, "; ") + "]", def
	}
	{
		sw := taggedSwitch(findFunc(cfgFile, "", "ValidateLogConfig"), "ExtraDataIssuanceChainStorageBackend")
		a, def := arms(sw)
		if def {
			die("ValidateLogConfig storage switch gained a default arm")
		}
		b.WriteString("(* labels of `switch cfg.ExtraDataIssuanceChainStorageBackend` in ValidateLogConfig (no default arm) *)\n")
		b.WriteString("Definition validate_storage_arms : list Z := " + a + ".\n")
		stFile := parse(filepath.Join(*repo, "trillian/ctfe/storage/storage.go"))
		sw2 := taggedSwitch(findFunc(stFile, "", "NewIssuanceChainStorage"), "backend")
		a2, def2 := arms(sw2)
		if def2 {
			die("NewIssuanceChainStorage switch gained a default arm")
		}
		b.WriteString("(* labels of `switch backend` in storage.NewIssuanceChainStorage (falls through to an error) *)\n")
		b.WriteString("Definition setup_storage_arms : list Z := " + a2 + ".\n\n")
	}

	// 4. newLogInfo: STH getter selection
	hFile := parse(filepath.Join(*repo, "trillian/ctfe/handlers.go"))
	{
		fd := findFunc(hFile, "", "newLogInfo")
		sw := taglessSwitch(fd, "sthGetter")
		env := map[string]ent{"vCfg.FrozenSTH": {"frozen_present", "ptr"}, "cfg.IsMirror": {"is_mirror", "bool"}}
		getter := func(cc *ast.CaseClause) string {
			name := ""
			for _, s := range cc.Body {
				ast.Inspect(s, func(n ast.Node) bool {
					as, ok := n.(*ast.AssignStmt)
					if !ok || len(as.Lhs) != 1 || src(as.Lhs[0]) != "li.sthGetter" {
						return true
					}
					u, ok := as.Rhs[0].(*ast.UnaryExpr)
					if !ok || u.Op != token.AND {
						die("li.sthGetter assigned %s", src(as.Rhs[0]))
					}
					cl, ok := u.X.(*ast.CompositeLit)
					if !ok {
						die("li.sthGetter assigned %s", src(as.Rhs[0]))
					}
					if name != "" {
						die("li.sthGetter assigned twice in one arm")
					}
					name = src(cl.Type)
					return true
				})
			}
			if name == "" {
				die("switch arm does not assign li.sthGetter: %s", src(cc))
			}
			return name
		}
		var body, cmt string
		var def *ast.CaseClause
		for _, c := range sw.Body.List {
			cc := c.(*ast.CaseClause)
			if cc.List == nil {
				def = cc
				continue
			}
			if def != nil {
				die("default arm is not last")
			}
			var cs []string
			for _, e := range cc.List {
				s, t := expr(e, env)
				if t != "bool" {
					die("getter case is not boolean")
				}
				cs = append(cs, s)
			}
			body += "if " + strings.Join(cs, " || ") + " then " + coqStr(getter(cc)) + "\n  else "
			cmt += "case " + src(cc.List[0]) + " -> " + getter(cc) + "; "
		}
		if def == nil {
			die("getter switch has no default arm")
		}
		body += coqStr(getter(def))
		cmt += "default -> " + getter(def)
		b.WriteString("(* trillian/ctfe/handlers.go: newLogInfo, tag-less switch: " + cmt + " *)\n")
		b.WriteString("Definition select_sth_getter (frozen_present is_mirror : bool) : string :=\n  " + body + ".\n\n")
	}

	// 5. Handlers(): key set and deleted keys
	{
		consts := stringConsts(parse(filepath.Join(*repo, "types.go")))
		fd := findFunc(hFile, "logInfo", "Handlers")
		pathOf := func(e ast.Expr) string {
			be, ok := e.(*ast.BinaryExpr)
			if !ok || be.Op != token.ADD || src(be.X) != "prefix" {
				die("handler key %s is not prefix + constant", src(e))
			}
			sel, ok := be.Y.(*ast.SelectorExpr)
			if !ok || src(sel.X) != "ct" {
				die("handler key %s", src(e))
			}
			v, ok := consts[sel.Sel.Name]
			if !ok {
				die("constant ct.%s not found in types.go", sel.Sel.Name)
			}
			return coqStr(v)
		}
		var keys, dropped []string
		var dropCond string
		ast.Inspect(fd.Body, func(n ast.Node) bool {
			switch x := n.(type) {
			case *ast.CompositeLit:
				if src(x.Type) == "PathHandlers" {
					for _, e := range x.Elts {
						kv, ok := e.(*ast.KeyValueExpr)
						if !ok {
							die("PathHandlers element %s", src(e))
						}
						keys = append(keys, pathOf(kv.Key))
					}
					return false
				}
			case *ast.IfStmt:
				for _, s := range x.Body.List {
					es, ok := s.(*ast.ExprStmt)
					if !ok {
						continue
					}
					call, ok := es.X.(*ast.CallExpr)
					if ok && src(call.Fun) == "delete" && len(call.Args) == 2 && src(call.Args[0]) == "ph" {
						dropped = append(dropped, pathOf(call.Args[1]))
						dropCond = src(x.Cond)
					}
				}
			case *ast.CallExpr:
				_ = x
			}
			return true
		})
		// a delete outside an `if` would be missed above: count all delete calls
		nDel := 0
		ast.Inspect(fd.Body, func(n ast.Node) bool {
			if c, ok := n.(*ast.CallExpr); ok && src(c.Fun) == "delete" {
				nDel++
			}
			return true
		})
		if nDel != len(dropped) {
			die("Handlers: %d delete calls but %d inside a recognised if", nDel, len(dropped))
		}
		if len(keys) == 0 {
			die("Handlers: PathHandlers literal not found")
		}
		b.WriteString("(* trillian/ctfe/handlers.go: logInfo.Handlers: keys of the PathHandlers literal (without the prefix) *)\n")
		b.WriteString("Definition handler_paths : list string :=\n  [" + strings.Join(keys, ";\n   ") + "].\n")
		b.WriteString("(* ... and the keys deleted under `if " + dropCond + "` (condition itself: gen/Config.v c_drop_add_endpoints) *)\n")
		b.WriteString("Definition dropped_paths : list string :=\n  [" + strings.Join(dropped, "; ") + "].\n")
		b.WriteString("Definition path_add_chain : string := " + coqStr(consts["AddChainPath"]) + ".\n")
		b.WriteString("Definition path_add_pre_chain : string := " + coqStr(consts["AddPreChainPath"]) + ".\n")
		b.WriteString("Definition path_get_sth : string := " + coqStr(consts["GetSTHPath"]) + ".\n")
	}

	content := b.String()
	old, _ := os.ReadFile(*out)
	if string(old) != content {
		if err := os.WriteFile(*out, []byte(content), 0o644); err != nil {
			die("%v", err)
		}
		fmt.Println("cfggen: wrote", *out)
	}
}
