(* C01: histories.  Invariant of the backend state over ANY history of submissions with ANY clock
   values (induction over the history), and the property's clauses at an arbitrary position of
   an arbitrary history. *)
From Coq Require Import String NArith ZArith List Bool Lia PeanoNat.
From V Require Import Base.Bytes TLS.TlsModel gen.CtTypes
  CT.Rfc6962Spec CT.Rfc6962Proofs CT.CtFuncs CT.CtFuncsProofs X509.PrecertModel X509.PrecertProofs
  CTFE.AddChainModel CTFE.AddChainSpec CTFE.AddChainCodec CTFE.AddChainStep.
Import ListNotations.
Local Open Scope N_scope.
Local Arguments app : simpl nomatch.   (* the codec files set "simpl never" for their normal forms *)

Section History.
Variable H : bytes -> bytes.
Variable sign : N -> bytes -> option bytes.
Variable guard : val -> val -> bool.
Variable cfg : config.

Notation add_chain' := (add_chain H sign guard cfg).
Notation server_entry' := (server_entry H).
Notation built_leaf' := (built_leaf H).

(* the fold of the model, as a structural recursion *)
Fixpoint run_rec (st : state) (subs : list submission) : state * list (submission * outcome) :=
  match subs with
  | [] => (st, [])
  | s :: r =>
      let '(st', o) := add_chain' st s in
      let '(st'', l) := run_rec st' r in (st'', (s, o) :: l)
  end.

Lemma fold_step_rec subs : forall st acc,
  fold_left (step H sign guard cfg) subs (st, acc) =
  let '(st', l) := run_rec st subs in (st', acc ++ l).
Proof.
  induction subs as [|s r IH]; intros st acc; cbn [fold_left run_rec].
  - rewrite app_nil_r. reflexivity.
  - unfold step at 2. cbn [fst snd]. destruct (add_chain' st s) as [st' o]. rewrite IH.
    destruct (run_rec st' r) as [st'' l]. rewrite <- app_assoc. reflexivity.
Qed.

Lemma run_from_rec st subs : run_from H sign guard cfg st subs = run_rec st subs.
Proof. unfold run_from. rewrite fold_step_rec. destruct (run_rec st subs). reflexivity. Qed.

Lemma run_rec_app a : forall st b,
  run_rec st (a ++ b) =
  let '(st1, l1) := run_rec st a in let '(st2, l2) := run_rec st1 b in (st2, l1 ++ l2).
Proof.
  induction a as [|s r IH]; intros st b; cbn [app run_rec].
  - destruct (run_rec st b). reflexivity.
  - destruct (add_chain' st s) as [st' o]. rewrite IH.
    destruct (run_rec st' r) as [st1 l1]. destruct (run_rec st1 b) as [st2 l2]. reflexivity.
Qed.

Lemma run_rec_length subs : forall st, length (snd (run_rec st subs)) = length subs.
Proof.
  induction subs as [|s r IH]; intros st; cbn [run_rec]; [reflexivity|].
  destruct (add_chain' st s) as [st' o]. specialize (IH st'). destruct (run_rec st' r). cbn in *. lia.
Qed.

(* the request at position |before| of the history before ++ s :: after *)
Lemma run_rec_split st before s after stf log :
  run_rec st (before ++ s :: after) = (stf, log) ->
  exists st1 l1 st2 o l3,
    run_rec st before = (st1, l1) /\ add_chain' st1 s = (st2, o) /\ run_rec st2 after = (stf, l3) /\
    log = l1 ++ (s, o) :: l3 /\ length l1 = length before.
Proof.
  rewrite run_rec_app. pose proof (run_rec_length before st) as Hl.
  destruct (run_rec st before) as [st1 l1]. cbn [run_rec].
  destruct (add_chain' st1 s) as [st2 o] eqn:Ea. destruct (run_rec st2 after) as [st3 l3] eqn:Er.
  intros E; inversion E; subst. exists st1, l1, st2, o, l3. cbn in Hl. auto.
Qed.

Lemma nth_middle {A} (l1 : list A) x l3 n : length l1 = n -> nth_error (l1 ++ x :: l3) n = Some x.
Proof. intros <-. rewrite nth_error_app2 by lia. rewrite Nat.sub_diag. reflexivity. Qed.

(* ---------------- the backend invariant ---------------- *)

(* every stored leaf is the leaf built for some earlier submission, under that submission's
   identity hash *)
Definition store_inv (past : list submission) (st : store) : Prop :=
  forall id l, find_leaf id st = Some l ->
    exists s0 e0, In s0 past /\ server_entry' s0 = Ok e0 /\ entry_ok e0 /\ l = built_leaf' s0 e0 /\ id = H (s_leaf s0).

Lemma built_leaf_wf s e : entry_ok e -> wf_leaf (built_leaf' s e).
Proof. intros He. exists (time_millis (s_now s)), e. repeat split; auto. apply ts_ok_millis. Qed.

Lemma store_inv_wf past st : store_inv past st -> store_wf st.
Proof.
  intros Hi id l Hf. destruct (Hi id l Hf) as (s0 & e0 & _ & _ & He & -> & _). apply built_leaf_wf. exact He.
Qed.

Lemma store_inv_init : store_inv [] (st_store init_state).
Proof. intros id l Hf. discriminate Hf. Qed.

Lemma store_inv_weaken past past' st : (forall s, In s past -> In s past') -> store_inv past st -> store_inv past' st.
Proof.
  intros Hsub Hi id l Hf. destruct (Hi id l Hf) as (s0 & e0 & Hin & Hrest). exists s0, e0. split; [apply Hsub; exact Hin|exact Hrest].
Qed.

Lemma store_inv_step past st s st' o :
  store_inv past (st_store st) -> add_chain' st s = (st', o) -> store_inv (past ++ [s]) (st_store st').
Proof.
  intros Hi Ha. destruct (add_chain_store H sign guard cfg st s st' o Ha) as [->|(e & Hse & He & Hnone & ->)].
  - eapply store_inv_weaken; [|exact Hi]. intros x Hx. apply in_or_app. auto.
  - intros id l Hf. cbn [find_leaf] in Hf. destruct (bytes_eqb id (H (s_leaf s))) eqn:Eid.
    + apply bytes_eqb_eq in Eid. inversion Hf; subst. exists s, e. repeat split; auto. apply in_or_app. right. left. reflexivity.
    + destruct (Hi id l Hf) as (s0 & e0 & Hin & Hrest). exists s0, e0. split; [apply in_or_app; auto|exact Hrest].
Qed.

Lemma store_inv_run subs : forall past st st' log,
  store_inv past (st_store st) -> run_rec st subs = (st', log) -> store_inv (past ++ subs) (st_store st').
Proof.
  induction subs as [|s r IH]; intros past st st' log Hi Hr; cbn [run_rec] in Hr.
  - inversion Hr; subst. rewrite app_nil_r. exact Hi.
  - destruct (add_chain' st s) as [st1 o] eqn:Ea. destruct (run_rec st1 r) as [st2 l] eqn:Er. inversion Hr; subst.
    replace (past ++ s :: r) with ((past ++ [s]) ++ r) by (rewrite <- app_assoc; reflexivity).
    eapply IH; [|exact Er]. eapply store_inv_step; eauto.
Qed.

(* the backend never forgets and never overwrites: first write wins *)
Lemma find_monotone_step st s st' o id l :
  find_leaf id (st_store st) = Some l -> add_chain' st s = (st', o) -> find_leaf id (st_store st') = Some l.
Proof.
  intros Hf Ha. destruct (add_chain_store H sign guard cfg st s st' o Ha) as [->|(e & _ & _ & Hnone & ->)]; [exact Hf|].
  cbn [find_leaf]. destruct (bytes_eqb id (H (s_leaf s))) eqn:Eid; [|exact Hf].
  apply bytes_eqb_eq in Eid. subst id. rewrite Hnone in Hf. discriminate.
Qed.

Lemma find_monotone_run subs : forall st st' log id l,
  find_leaf id (st_store st) = Some l -> run_rec st subs = (st', log) -> find_leaf id (st_store st') = Some l.
Proof.
  induction subs as [|s r IH]; intros st st' log id l Hf Hr; cbn [run_rec] in Hr.
  - inversion Hr; subst. exact Hf.
  - destruct (add_chain' st s) as [st1 o] eqn:Ea. destruct (run_rec st1 r) as [st2 l2] eqn:Er. inversion Hr; subst.
    eapply IH; [|exact Er]. eapply find_monotone_step; eauto.
Qed.

Lemma bytes_eqb_refl b : bytes_eqb b b = true.
Proof. apply bytes_eqb_eq. reflexivity. Qed.

Lemma queue_leaf_find st l st' ret dup :
  queue_leaf st l = (st', ret, dup) -> find_leaf (l_id l) st' = Some ret.
Proof.
  unfold queue_leaf. destruct (find_leaf (l_id l) st) as [old|] eqn:Ef; intros E; inversion E; subst.
  - exact Ef.
  - cbn [find_leaf]. rewrite bytes_eqb_refl. reflexivity.
Qed.

(* ---------------- the request at a position of a history ---------------- *)

Definition log_of (subs : list submission) := snd (run H sign guard cfg subs).

Lemma at_position before s after o :
  nth_error (log_of (before ++ s :: after)) (length before) = Some (s, o) ->
  exists st1 st2 l1,
    run_rec init_state before = (st1, l1) /\ store_inv before (st_store st1) /\ add_chain' st1 s = (st2, o).
Proof.
  unfold log_of, run. rewrite run_from_rec.
  destruct (run_rec init_state (before ++ s :: after)) as [stf log] eqn:Er. cbn [snd].
  destruct (run_rec_split _ _ _ _ _ _ Er) as (st1 & l1 & st2 & o' & l3 & Hb & Ha & _ & -> & Hl).
  rewrite (nth_middle l1 (s, o') l3 _ Hl). intros E; inversion E; subst o'.
  exists st1, st2, l1. repeat split; auto.
  pose proof (store_inv_run before [] init_state st1 l1 store_inv_init Hb) as Hi. exact Hi.
Qed.

Lemma issued_at before s after r :
  nth_error (log_of (before ++ s :: after)) (length before) = Some (s, Issued r) ->
  exists st1 st2 e ts0 e0,
    store_inv before (st_store st1) /\ issued_facts H sign guard cfg st1 st2 s r e ts0 e0.
Proof.
  intros Hn. destruct (at_position _ _ _ _ Hn) as (st1 & st2 & l1 & _ & Hi & Ha).
  destruct (add_chain_issued H sign guard cfg st1 s st2 r (store_inv_wf _ _ Hi) Ha) as (e & ts0 & e0 & Hf).
  exists st1, st2, e, ts0, e0. auto.
Qed.

(* no request of any history panics *)
Lemma history_no_panic subs s o : In (s, o) (log_of subs) -> o <> OPanic.
Proof.
  intros Hin. apply In_nth_error in Hin. destruct Hin as [n Hn].
  assert (Hlen : (n < length subs)%nat).
  { unfold log_of, run in Hn. rewrite run_from_rec in Hn.
    rewrite <- (run_rec_length subs init_state). apply nth_error_Some. congruence. }
  (* split the history at n *)
  destruct (nth_error subs n) as [s'|] eqn:Es; [|apply nth_error_None in Es; lia].
  destruct (nth_error_split subs n Es) as (before & after & -> & Hb).
  assert (Hs : s' = s).
  { unfold log_of, run in Hn. rewrite run_from_rec in Hn.
    destruct (run_rec init_state (before ++ s' :: after)) as [stf log] eqn:Er. cbn [snd] in Hn.
    destruct (run_rec_split _ _ _ _ _ _ Er) as (st1 & l1 & st2 & o' & l3 & _ & _ & _ & -> & Hl).
    rewrite <- Hb, (nth_middle l1 (s', o') l3 _ Hl) in Hn. congruence. }
  subst s'. rewrite <- Hb in Hn.
  destruct (at_position _ _ _ _ Hn) as (st1 & st2 & l1 & _ & Hi & Ha).
  exact (add_chain_no_panic H sign guard cfg st1 s st2 o (store_inv_wf _ _ Hi) Ha).
Qed.

Lemma enc_leaf_inj ts e ts' e' :
  ts_ok ts -> entry_ok e -> ts_ok ts' -> entry_ok e' -> enc_leaf ts e [] = enc_leaf ts' e' [] -> ts = ts' /\ e = e'.
Proof.
  intros H1 H2 H3 H4 Heq.
  destruct (sct_siginput_inj ts e [] ts' e' [] H1 H2 nil_ext_ok H3 H4 nil_ext_ok Heq) as (A & B & _). auto.
Qed.

(* 1. the id *)
Lemma id_at before s after r :
  nth_error (log_of (before ++ s :: after)) (length before) = Some (s, Issued r) -> i_id r = H (k_spki cfg).
Proof. intros Hn. destruct (issued_at _ _ _ _ Hn) as (st1 & st2 & e & ts0 & e0 & _ & F). exact (f_id _ _ _ _ _ _ _ _ _ _ _ F). Qed.

(* 3,4,5. the queued leaf *)
Lemma queued_at before s after r :
  nth_error (log_of (before ++ s :: after)) (length before) = Some (s, Issued r) ->
  exists e, server_entry' s = Ok e /\ entry_ok e /\ chain_in_range (map c_der (s_rest s)) /\ i_queued r = built_leaf' s e.
Proof.
  intros Hn. destruct (issued_at _ _ _ _ Hn) as (st1 & st2 & e & ts0 & e0 & _ & F). exists e.
  repeat split; [exact (f_entry _ _ _ _ _ _ _ _ _ _ _ F) | exact (f_entry_ok _ _ _ _ _ _ _ _ _ _ _ F)
               | apply (f_chain_ok _ _ _ _ _ _ _ _ _ _ _ F) | apply (f_chain_ok _ _ _ _ _ _ _ _ _ _ _ F)
               | exact (f_queued _ _ _ _ _ _ _ _ _ _ _ F)].
Qed.

Lemma queued_client_at before s after r e :
  nth_error (log_of (before ++ s :: after)) (length before) = Some (s, Issued r) -> client_entry H s e ->
  entry_ok e /\ i_queued r = built_leaf' s e.
Proof.
  intros Hn Hc. destruct (queued_at _ _ _ _ Hn) as (e' & Hse & He & _ & Hq).
  rewrite (client_entry_is_server_entry H s e Hc) in Hse. inversion Hse; subst. auto.
Qed.

(* the SCT is read off the returned leaf; the signature is the signer's over exactly those bytes *)
Lemma sct_at before s after r :
  nth_error (log_of (before ++ s :: after)) (length before) = Some (s, Issued r) ->
  returned_sct (i_returned r) = Ok (i_ts r, i_ext r, i_signed r) /\ i_ext r = [] /\
  (exists n, sign n (i_signed r) = Some (i_sig r)) /\
  i_sct_bytes r = enc_sct (i_id r) (i_ts r) (i_ext r) hash_alg_sha256 (sig_alg_of (k_kind cfg)) (i_sig r) /\
  len (i_sig r) <= 65535.
Proof.
  intros Hn. destruct (issued_at _ _ _ _ Hn) as (st1 & st2 & e & ts0 & e0 & _ & F).
  split; [exact (f_sct _ _ _ _ _ _ _ _ _ _ _ F)|]. split; [exact (f_ext _ _ _ _ _ _ _ _ _ _ _ F)|].
  split; [exists (st_n st1); exact (f_sig _ _ _ _ _ _ _ _ _ _ _ F)|].
  split; [|exact (f_sig_len _ _ _ _ _ _ _ _ _ _ _ F)].
  rewrite <- (f_halg _ _ _ _ _ _ _ _ _ _ _ F), <- (f_salg _ _ _ _ _ _ _ _ _ _ _ F). exact (f_sct_bytes _ _ _ _ _ _ _ _ _ _ _ F).
Qed.

(* where the returned leaf comes from: a submission of the past or this one, with the same
   identity hash *)
Lemma returned_origin before s after r :
  nth_error (log_of (before ++ s :: after)) (length before) = Some (s, Issued r) ->
  exists s0 e0, In s0 (before ++ [s]) /\ H (s_leaf s0) = H (s_leaf s) /\ server_entry' s0 = Ok e0 /\ entry_ok e0 /\
    i_returned r = built_leaf' s0 e0 /\ i_ts r = time_millis (s_now s0) /\ i_ext r = [] /\
    i_signed r = enc_sct_siginput (time_millis (s_now s0)) e0 [] /\
    (i_dup r = false -> s0 = s) /\
    (exists e, server_entry' s = Ok e /\ guard (embed_leaf (time_millis (s_now s0)) e0 []) (embed_leaf (time_millis (s_now s)) e []) = true).
Proof.
  intros Hn. destruct (issued_at _ _ _ _ Hn) as (st1 & st2 & e & ts0 & e0 & Hi & F).
  pose proof (f_queue _ _ _ _ _ _ _ _ _ _ _ F) as Hq.
  assert (Horigin : exists s0 e0', In s0 (before ++ [s]) /\ H (s_leaf s0) = H (s_leaf s) /\ server_entry' s0 = Ok e0' /\ entry_ok e0' /\
                      i_returned r = built_leaf' s0 e0' /\ (i_dup r = false -> s0 = s)).
  { destruct (queue_leaf_cases (st_store st1) (built_leaf' s e)) as [[_ Hq']|[old [Hf Hq']]]; rewrite Hq' in Hq; inversion Hq.
    - exists s, e. repeat split; auto.
      + apply in_or_app. right. left. reflexivity.
      + exact (f_entry _ _ _ _ _ _ _ _ _ _ _ F).
      + exact (f_entry_ok _ _ _ _ _ _ _ _ _ _ _ F).
    - cbn [built_leaf l_id] in Hf. destruct (Hi _ _ Hf) as (s0 & e0' & Hin & Hse & He & -> & Hid).
      exists s0, e0'. repeat split; auto.
      + apply in_or_app. auto.
      + congruence. }
  destruct Horigin as (s0 & e0' & Hin & Hid & Hse & He & Hret & Hdup).
  exists s0, e0'. repeat split; auto.
  all: pose proof (f_returned _ _ _ _ _ _ _ _ _ _ _ F) as Hv; rewrite Hret in Hv; cbn [built_leaf l_value] in Hv;
       destruct (enc_leaf_inj _ _ _ _ (ts_ok_millis _) He (f_ts0 _ _ _ _ _ _ _ _ _ _ _ F) (f_e0 _ _ _ _ _ _ _ _ _ _ _ F) Hv) as [Hts He0].
  - rewrite (f_ts _ _ _ _ _ _ _ _ _ _ _ F). auto.
  - exact (f_ext _ _ _ _ _ _ _ _ _ _ _ F).
  - rewrite (f_signed _ _ _ _ _ _ _ _ _ _ _ F), <- Hts, <- He0. reflexivity.
  - exists e. split; [exact (f_entry _ _ _ _ _ _ _ _ _ _ _ F)|]. rewrite Hts, He0. exact (f_guard _ _ _ _ _ _ _ _ _ _ _ F).
Qed.

(* 2. the signed bytes: under a consistent history the signed entry is the client's *)
Lemma signed_at before s after r e :
  issuance_consistent H (before ++ [s]) ->
  nth_error (log_of (before ++ s :: after)) (length before) = Some (s, Issued r) -> client_entry H s e ->
  entry_ok e /\ i_ext r = [] /\ i_signed r = enc_sct_siginput (i_ts r) e (i_ext r) /\
  exists n, sign n (enc_sct_siginput (i_ts r) e (i_ext r)) = Some (i_sig r).
Proof.
  intros Hcons Hn Hc.
  destruct (returned_origin _ _ _ _ Hn) as (s0 & e0 & Hin & Hid & Hse0 & He0 & _ & Hts & Hext & Hsg & _).
  assert (Hs : In s (before ++ [s])) by (apply in_or_app; right; left; reflexivity).
  destruct (Hcons s0 s Hin Hs Hid) as [Hl Hiss].
  pose proof (server_entry_issuance H s0 s Hl Hiss) as Hsame.
  rewrite (client_entry_is_server_entry H s e Hc), Hse0 in Hsame. inversion Hsame; subst e0.
  destruct (sct_at _ _ _ _ Hn) as (_ & _ & [n Hsig] & _).
  rewrite Hext, Hts. repeat split; auto. exists n. rewrite <- Hsg. exact Hsig.
Qed.

(* 7. a first submission carries the clock *)
Lemma fresh_at before s after r :
  nth_error (log_of (before ++ s :: after)) (length before) = Some (s, Issued r) ->
  (forall s', In s' before -> H (s_leaf s') <> H (s_leaf s)) ->
  i_dup r = false /\ i_returned r = i_queued r /\ i_ts r = time_millis (s_now s).
Proof.
  intros Hn Hfresh. destruct (issued_at _ _ _ _ Hn) as (st1 & st2 & e & ts0 & e0 & Hi & F).
  pose proof (f_queue _ _ _ _ _ _ _ _ _ _ _ F) as Hq.
  destruct (queue_leaf_cases (st_store st1) (built_leaf' s e)) as [[_ Hq']|[old [Hf Hq']]]; rewrite Hq' in Hq;
    injection Hq as Est Eret Edup.
  - rewrite (f_queued _ _ _ _ _ _ _ _ _ _ _ F). repeat split; auto.
    pose proof (f_sct _ _ _ _ _ _ _ _ _ _ _ F) as Hs. rewrite <- Eret in Hs.
    rewrite (returned_sct_wf (built_leaf' s e) (time_millis (s_now s)) e (ts_ok_millis _) (f_entry_ok _ _ _ _ _ _ _ _ _ _ _ F) eq_refl) in Hs.
    inversion Hs. reflexivity.
  - exfalso. cbn [built_leaf l_id] in Hf. destruct (Hi _ _ Hf) as (s0 & _ & Hin & _ & _ & _ & Hid).
    exact (Hfresh s0 Hin (eq_sym Hid)).
Qed.

(* 6. a repeated submission gets the stored leaf: the same timestamp and the same signed bytes *)
Lemma duplicate_at before s1 mid s2 after r1 r2 :
  let subs := before ++ s1 :: mid ++ s2 :: after in
  nth_error (log_of subs) (length before) = Some (s1, Issued r1) ->
  nth_error (log_of subs) (length before + 1 + length mid) = Some (s2, Issued r2) ->
  H (s_leaf s1) = H (s_leaf s2) ->
  i_dup r2 = true /\ i_returned r2 = i_returned r1 /\ i_ts r2 = i_ts r1 /\ i_ext r2 = i_ext r1 /\ i_signed r2 = i_signed r1 /\
  (i_dup r1 = false -> i_ts r2 = time_millis (s_now s1)).
Proof.
  intros subs Hn1 Hn2 Hid. subst subs.
  assert (Hdup : i_dup r2 = true /\ i_returned r2 = i_returned r1).
  { unfold log_of, run in Hn1, Hn2. rewrite run_from_rec in Hn1, Hn2.
    destruct (run_rec init_state (before ++ s1 :: mid ++ s2 :: after)) as [stf log] eqn:Er. cbn [snd] in Hn1, Hn2.
    destruct (run_rec_split _ _ _ _ _ _ Er) as (st1 & l1 & st2 & o1 & l3 & Hb & Ha1 & Hrest & -> & Hl1).
    rewrite (nth_middle l1 (s1, o1) l3 _ Hl1) in Hn1. inversion Hn1; subst o1. clear Hn1.
    destruct (run_rec_split _ _ _ _ _ _ Hrest) as (st3 & l4 & st4 & o2 & l5 & Hm & Ha2 & _ & -> & Hl4).
    replace (l1 ++ (s1, Issued r1) :: l4 ++ (s2, o2) :: l5) with ((l1 ++ (s1, Issued r1) :: l4) ++ (s2, o2) :: l5) in Hn2
      by (rewrite <- app_assoc; reflexivity).
    rewrite (nth_middle _ (s2, o2) l5) in Hn2 by (rewrite app_length; cbn [length]; lia).
    inversion Hn2; subst o2. clear Hn2.
    (* invariants along the way *)
    pose proof (store_inv_run before [] init_state st1 l1 store_inv_init Hb) as Hi1. cbn [app] in Hi1.
    pose proof (store_inv_step _ _ _ _ _ Hi1 Ha1) as Hi2.
    pose proof (store_inv_run mid _ st2 st3 l4 Hi2 Hm) as Hi3.
    destruct (add_chain_issued H sign guard cfg st1 s1 st2 r1 (store_inv_wf _ _ Hi1) Ha1) as (e1 & t1 & x1 & F1).
    destruct (add_chain_issued H sign guard cfg st3 s2 st4 r2 (store_inv_wf _ _ Hi3) Ha2) as (e2 & t2 & x2 & F2).
    pose proof (queue_leaf_find _ _ _ _ _ (f_queue _ _ _ _ _ _ _ _ _ _ _ F1)) as Hfind. cbn [built_leaf l_id] in Hfind.
    pose proof (find_monotone_run mid st2 st3 l4 _ _ Hfind Hm) as Hfind3. rewrite Hid in Hfind3.
    pose proof (f_queue _ _ _ _ _ _ _ _ _ _ _ F2) as Hq2. unfold queue_leaf in Hq2. cbn [built_leaf l_id] in Hq2.
    rewrite Hfind3 in Hq2. inversion Hq2. auto. }
  destruct Hdup as [Hd Hret]. split; [exact Hd|]. split; [exact Hret|].
  destruct (sct_at _ _ _ _ Hn1) as (Hs1 & _).
  assert (Hn2' : nth_error (log_of ((before ++ s1 :: mid) ++ s2 :: after)) (length (before ++ s1 :: mid)) = Some (s2, Issued r2)).
  { rewrite <- app_assoc. cbn [app]. rewrite app_length. cbn [length]. replace (length before + S (length mid))%nat with (length before + 1 + length mid)%nat by lia. exact Hn2. }
  destruct (sct_at _ _ _ _ Hn2') as (Hs2 & _).
  rewrite Hret, Hs1 in Hs2. inversion Hs2. repeat split; auto.
  intros Hfresh1.
  destruct (returned_origin _ _ _ _ Hn1) as (s0 & e0 & _ & _ & _ & _ & _ & Hts & _ & _ & Hd1 & _).
  rewrite (Hd1 Hfresh1) in Hts. congruence.
Qed.

End History.
