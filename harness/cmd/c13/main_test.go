// C13 correspondence harness (a `go test -c` binary: testing/synctest needs a *testing.T).
//
// One case = one fresh client (jsonclient.JSONClient inside client.LogClient) used by one or
// several callers of PostAndParseWithRetry / AddChain / AddPreChain over a scripted
// http.RoundTripper, run inside a synctest bubble (virtual time).  Recorded: the virtual
// instant of every POST, of every response, every wait value the client logs, the result
// class and the instant the call returned.  The Coq side (Client/RetryCase.v) recovers the
// jitter of each wait from the observed instant of the next POST and compares the whole
// trace exactly; PropOK is the property's sentence evaluated directly on the observations.
//
// Two input classes are spread over every profile and have a profile of their own:
//   - transport errors of every shape (transportShapes): plain values, *net.OpError, io.EOF,
//     *url.Error, errors that wrap or claim to be context.DeadlineExceeded / context.Canceled,
//     the bare error of an inner context made by the transport, net/http's own timeout error
//     (http.Client.Timeout) - all of them while the CALLER's context is live, so all of them
//     must be retried; a context error may be the result only once the caller's context ended;
//   - 200 bodies of every form (parsableForms / unparsableForms): which of them parse is decided
//     by a reference decoder on the bytes sent (refParses), not by the generator and not by
//     /repo's types; the first one that parses must end the submission, every other is retried.
//
// Build: go1.26 test -c -tags verif -o build/bin/c13 ./cmd/c13
// Run:   build/bin/c13 -test.run '^TestHarness$' -test.timeout 0 -test.count 1 -out DIR

//go:debug randseednop=0
package main

import (
	"bytes"
	"context"
	"encoding/base64"
	"encoding/json"
	"errors"
	"fmt"
	"io"
	"math"
	"math/big"
	mrand "math/rand"
	"net"
	"net/http"
	"net/url"
	"os"
	"sort"
	"strconv"
	"strings"
	"sync"
	"syscall"
	"testing"
	"testing/synctest"
	"time"

	ct "github.com/google/certificate-transparency-go"
	"github.com/google/certificate-transparency-go/client"
	"github.com/google/certificate-transparency-go/jsonclient"

	"verif/harness/lib"
)

const header = `From Coq Require Import ZArith List. Import ListNotations.
From V Require Import Client.RetryModel Client.RetryCase.
Local Open Scope Z_scope.
`

// ---------------------------------------------------------------- script

const (
	kTransport = iota // RoundTrip returns a (non-context) error
	kBodyErr          // response whose body fails while being read
	kRedirect         // a chain of 1..3 redirects (30x + Location each), then the final response to the last follow-up request
	kResp             // plain response
)

type evSpec struct {
	Dur       time.Duration `json:"dur_ns"`
	Kind      int           `json:"kind"`
	Code      int           `json:"code"`
	RA        *string       `json:"retry_after"`                    // nil = header absent
	Parsable  bool          `json:"parsable"`                       // for a 200: set by finish() from the bytes sent (reference decoder), not by the generator
	Hops      []int         `json:"redirect_hops,omitempty"`        // kRedirect: the status of every hop of the chain, in order (301/302/303 turn a POST into a GET, 307/308 keep the method)
	FinalMeth string        `json:"final_request_method,omitempty"` // kRedirect, OBSERVED by the transport: the method of the request that got the final answer
	Synth     bool          `json:"synthesised,omitempty"`          // appended because the client asked again after the script ended
	Shape     string        `json:"error_shape,omitempty"`          // kTransport: what kind of error value the transport returns (transportShapes)
	Form      string        `json:"body_form,omitempty"`            // 200: how the body is written (parsableForms / unparsableForms)
	Body      string        `json:"body"`                           // the bytes sent (set by finish())
	NoSCT     bool          `json:"no_sct,omitempty"`               // AddChain/AddPreChain, 200: the JSON decodes but holds no decodable SCT
}

type callerSpec struct {
	Start   time.Duration `json:"start_ns"`   // offset from the start of the bubble
	CtxEnd  time.Duration `json:"ctx_end_ns"` // offset from the start of the bubble; <0 = the context never ends
	Cancel  bool          `json:"cancel"`     // cancellation instead of a deadline
	API     int           `json:"api"`        // 0 PostAndParseWithRetry, 1 AddChain, 2 AddPreChain
	Evs     []evSpec      `json:"events"`
	Profile string        `json:"-"`
}

type session struct {
	Profile string       `json:"profile"`
	Callers []callerSpec `json:"callers"`
	// http.Client.Timeout of the client (0 = none): a per-attempt limit enforced by net/http itself
	ClientTimeout time.Duration `json:"client_timeout_ns,omitempty"`
}

// ---------------------------------------------------------------- observation

type delivered struct {
	idx  int
	resp time.Time
}

type callerObs struct {
	attempts  []time.Time // POSTs handed to the transport (follow-ups of redirects excluded)
	delivered []delivered // events answered (the context did not end first)
	logged    map[int]*int64
	hasLog    map[int]bool
	class     string // success | status | ctx-deadline | ctx-cancel | other | panic
	code      int
	body      int
	end       time.Time
	errText   string
}

type logLine struct {
	at   time.Time
	wait *int64
}

type env struct {
	mu     sync.Mutex
	t0     time.Time
	sess   *session
	obs    []*callerObs
	next   []int             // next event index per caller
	cctx   []context.Context // the context each caller passed to the client
	follow []*evSpec         // pending follow-up of a redirect, per caller
	hop    []int             // ... and how many hops of its chain have been served
	logs   []logLine
}

type ckey struct{}

type logger struct{ e *env }

func (l logger) Printf(format string, args ...interface{}) {
	var w *int64
	for _, a := range args {
		if d, ok := a.(time.Duration); ok {
			v := int64(d)
			w = &v
			break
		}
	}
	l.e.mu.Lock()
	l.e.logs = append(l.e.logs, logLine{time.Now(), w})
	l.e.mu.Unlock()
}

type failingBody struct{ n int }

func (f *failingBody) Read(p []byte) (int, error) {
	if f.n == 0 {
		f.n++
		copy(p, "par")
		return 3, nil
	}
	return 0, errors.New("scripted body read failure")
}
func (f *failingBody) Close() error { return nil }

func sctBody(id int) []byte {
	// DigitallySigned: hash sha256(4), sig ecdsa(3), 2-byte length, 4 signature bytes
	ds := []byte{4, 3, 0, 4, 0xde, 0xad, 0xbe, 0xef}
	r := ct.AddChainResponse{SCTVersion: ct.V1, ID: bytes.Repeat([]byte{7}, 32), Timestamp: uint64(id), Extensions: "",
		Signature: ds}
	b, _ := json.Marshal(r)
	return b
}

// forms of a 200 body.  Which of them "parse" is NOT decided here: finish() asks the reference
// decoder (refParses) about the bytes actually sent.
var parsableForms = []string{"std", "std", "std", "std", "std", "padded", "padded", "null", "empty-object"}
var unparsableForms = []string{"empty", "ws-space", "ws-lf", "ws-mixed", "truncated", "truncated", "wrong-field", "wrong-top",
	"trailing", "trailing", "garbage"}

func goodBody(api, id int) []byte {
	if api == 0 {
		return []byte(fmt.Sprintf(`{"timestamp": %d, "id": %d}`, id, id))
	}
	return sctBody(id)
}

func bodyFor(api, id int, form string, code int) []byte {
	if code != 200 {
		return []byte(fmt.Sprintf("body-%d", id))
	}
	good := goodBody(api, id)
	switch form {
	case "padded": // JSON whitespace around a complete value is still that value
		return []byte(" \r\n\t" + string(good) + "\n \t\r\n")
	case "null":
		return []byte("null")
	case "empty-object":
		return []byte("{}")
	case "empty": // Content-Length: 0
		return []byte{}
	case "ws-space":
		return []byte(" ")
	case "ws-lf":
		return []byte("\n")
	case "ws-mixed":
		return []byte(" \t\r\n \n")
	case "truncated": // a proper, non-empty prefix of the good body (down to the lone opening brace)
		return good[:1+(id*7+3)%(len(good)-1)]
	case "wrong-field": // well-formed JSON, a member of the wrong type
		return []byte(fmt.Sprintf(`{"timestamp": "x", "id": %d}`, id))
	case "wrong-top": // well-formed JSON, not an object
		return []byte([]string{fmt.Sprintf("[%d]", id), fmt.Sprintf(`"%d"`, id), strconv.Itoa(id), "true"}[id%4])
	case "trailing": // a complete good value followed by something else
		return append(good, []string{" garbage", "}", string(good), ",", " null", "\x00"}[id%6]...)
	case "garbage":
		return []byte(fmt.Sprintf("<html><body>200 OK %d</body></html>", id))
	}
	return good
}

// refParses is the reference for "the body parses": the standard library's json.Unmarshal of
// the whole body into a value shaped like the expected answer (for AddChain / AddPreChain the
// outputs of RFC 6962 4.1, written out here), and, for those two, whether that answer holds an
// SCT: a base64 extensions string and a signature that is exactly one digitally-signed
// struct (RFC 5246 4.7: hash, signature algorithm, 2-byte length, that many bytes).
func refParses(api int, body []byte) (parses, sct bool) {
	if api == 0 {
		var v struct {
			Timestamp uint64 `json:"timestamp"`
			ID        int    `json:"id"`
		}
		return json.Unmarshal(body, &v) == nil, true
	}
	var v struct {
		SCTVersion uint64 `json:"sct_version"`
		ID         []byte `json:"id"`
		Timestamp  uint64 `json:"timestamp"`
		Extensions string `json:"extensions"`
		Signature  []byte `json:"signature"`
	}
	if json.Unmarshal(body, &v) != nil {
		return false, false
	}
	_, b64 := base64.StdEncoding.DecodeString(v.Extensions)
	sig := v.Signature
	return true, b64 == nil && len(sig) >= 4 && int(sig[2])<<8|int(sig[3]) == len(sig)-4
}

func hasBody(ev *evSpec) bool { return ev.Kind == kResp || ev.Kind == kRedirect }

// finish writes the bytes of every answer and classifies the 200 ones with the reference decoder.
func finish(s *session) {
	for k := range s.Callers {
		cs := &s.Callers[k]
		for i := range cs.Evs {
			ev := &cs.Evs[i]
			if !hasBody(ev) {
				continue
			}
			ev.Body = string(bodyFor(cs.API, i, ev.Form, ev.Code))
			if ev.Code == 200 {
				parses, sct := refParses(cs.API, []byte(ev.Body))
				ev.Parsable, ev.NoSCT = parses, parses && !sct
			}
		}
	}
}

// identify: which answer of the script a returned body is, byte for byte (the answer the client
// got last if it is that one; several answers may carry the same bytes, e.g. none at all)
func identify(cs *callerSpec, o *callerObs, body []byte) int {
	if n := len(o.delivered); n > 0 {
		if ev := &cs.Evs[o.delivered[n-1].idx]; hasBody(ev) && ev.Body == string(body) {
			return o.delivered[n-1].idx
		}
	}
	for i := range cs.Evs {
		if ev := &cs.Evs[i]; hasBody(ev) && ev.Body == string(body) {
			return i
		}
	}
	return -1
}

// ---------------------------------------------------------------- transport errors of every shape

// like net/http's timeoutError: no Unwrap, reports context.DeadlineExceeded through Is
type isDeadlineErr struct{}

func (isDeadlineErr) Error() string {
	return "scripted: gateway timed out (Is context.DeadlineExceeded)"
}
func (isDeadlineErr) Timeout() bool   { return true }
func (isDeadlineErr) Temporary() bool { return true }
func (isDeadlineErr) Is(t error) bool { return t == context.DeadlineExceeded }

// shapes whose error value is made on the spot; "inner-deadline", "inner-cancel" (a context the
// transport creates itself) and "client-timeout" (http.Client.Timeout) are produced in RoundTrip
var valueShapes = []string{"plain", "op-refused", "op-io-timeout", "eof", "unexpected-eof", "url", "wrap-deadline", "wrap-cancel",
	"op-ctx-deadline", "url-ctx-cancel", "joined-cancel", "is-deadline", "bare-deadline", "bare-cancel"}
var transportShapes = append([]string{"inner-deadline", "inner-cancel"}, valueShapes...)

func transportErr(shape string) error {
	switch shape {
	case "op-refused":
		return &net.OpError{Op: "dial", Net: "tcp", Err: os.NewSyscallError("connect", syscall.ECONNREFUSED)}
	case "op-io-timeout":
		return &net.OpError{Op: "read", Net: "tcp", Err: os.ErrDeadlineExceeded}
	case "eof":
		return io.EOF
	case "unexpected-eof":
		return io.ErrUnexpectedEOF
	case "url":
		return &url.Error{Op: "Post", URL: "http://log.example/ct/v1/add-chain", Err: errors.New("scripted: connection reset by peer")}
	case "wrap-deadline":
		return fmt.Errorf("dial tcp 192.0.2.1:443: %w", context.DeadlineExceeded)
	case "wrap-cancel":
		return fmt.Errorf("proxyconnect: upstream request aborted: %w", context.Canceled)
	case "op-ctx-deadline":
		return &net.OpError{Op: "dial", Net: "tcp", Err: context.DeadlineExceeded}
	case "url-ctx-cancel":
		return &url.Error{Op: "Post", URL: "http://log.example/ct/v1/add-chain", Err: context.Canceled}
	case "joined-cancel":
		return errors.Join(errors.New("scripted: stream closed"), context.Canceled)
	case "is-deadline":
		return isDeadlineErr{}
	case "bare-deadline":
		return context.DeadlineExceeded
	case "bare-cancel":
		return context.Canceled
	}
	return errors.New("scripted network error")
}

func (e *env) RoundTrip(req *http.Request) (*http.Response, error) {
	k, _ := req.Context().Value(ckey{}).(int)
	cs := &e.sess.Callers[k]
	e.mu.Lock()
	if f := e.follow[k]; f != nil { // a follow-up request of a redirected attempt
		idx := e.next[k] - 1
		if h := e.hop[k]; h < len(f.Hops) { // the next hop of the chain
			e.hop[k]++
			e.mu.Unlock()
			return redirectResponse(req, f.Hops[h]), nil
		}
		e.follow[k] = nil
		f.FinalMeth = req.Method // observed: what the chain made of the POST
		e.mu.Unlock()
		return e.response(req, cs, idx, f.Code, f)
	}
	now := time.Now()
	e.obs[k].attempts = append(e.obs[k].attempts, now)
	if req.Context().Err() != nil {
		e.mu.Unlock()
		return nil, req.Context().Err()
	}
	idx := e.next[k]
	if idx >= len(cs.Evs) {
		// the client asked again after the script ended: answer with a final status
		cs.Evs = append(cs.Evs, evSpec{Kind: kResp, Code: 404, Synth: true, Body: string(bodyFor(cs.API, idx, "", 404))})
	}
	e.next[k]++
	if len(e.sess.Callers) > 1 {
		// distinct sub-millisecond offsets (one bit per (caller, POST)): no two responses of a
		// session share an instant, whatever the order in which goroutines run
		// (not for an attempt ended by http.Client.Timeout: its length is the client's, not the script's;
		// such sessions run their callers one after another)
		if k < 4 && idx < 4 && cs.Evs[idx].Shape != "client-timeout" {
			cs.Evs[idx].Dur += time.Duration(1) << uint(4*k+idx)
		}
	}
	ev := cs.Evs[idx]
	caller := e.cctx[k]
	e.mu.Unlock()
	var innerErr error
	switch {
	case ev.Kind == kTransport && ev.Shape == "inner-deadline":
		// a dialer / proxy / round-tripper with its own per-attempt deadline: the error is the
		// bare error of a context the transport created itself
		ictx, cancel := context.WithTimeout(req.Context(), ev.Dur)
		<-ictx.Done()
		cancel()
		if caller.Err() != nil {
			return nil, req.Context().Err()
		}
		innerErr = ictx.Err()
	case ev.Kind == kTransport && ev.Shape == "inner-cancel":
		ictx, cancel := context.WithCancel(req.Context())
		tm := time.AfterFunc(ev.Dur, cancel)
		<-ictx.Done()
		tm.Stop()
		cancel()
		if caller.Err() != nil {
			return nil, req.Context().Err()
		}
		innerErr = ictx.Err()
	case ev.Kind == kTransport && ev.Shape == "client-timeout":
		// the server never answers this attempt; http.Client.Timeout (= ev.Dur) ends it
		<-req.Context().Done()
		if caller.Err() != nil {
			return nil, req.Context().Err()
		}
		innerErr = req.Context().Err()
	case ev.Dur > 0:
		tm := time.NewTimer(ev.Dur)
		select {
		case <-req.Context().Done():
			tm.Stop()
			return nil, req.Context().Err()
		case <-tm.C:
		}
	}
	e.mu.Lock()
	e.obs[k].delivered = append(e.obs[k].delivered, delivered{idx, time.Now()})
	e.mu.Unlock()
	switch ev.Kind {
	case kTransport:
		if innerErr != nil {
			return nil, innerErr
		}
		return nil, transportErr(ev.Shape)
	case kRedirect:
		e.mu.Lock()
		e.follow[k], e.hop[k] = &cs.Evs[idx], 1
		e.mu.Unlock()
		return redirectResponse(req, ev.Hops[0]), nil
	}
	return e.response(req, cs, idx, ev.Code, &ev)
}

func redirectResponse(req *http.Request, code int) *http.Response {
	h := http.Header{}
	h.Set("Location", "http://log.example/moved/elsewhere")
	return &http.Response{StatusCode: code, Status: strconv.Itoa(code) + " redirect", Header: h,
		Body: io.NopCloser(bytes.NewReader(nil)), Request: req, ProtoMajor: 1, ProtoMinor: 1}
}

func (e *env) response(req *http.Request, cs *callerSpec, idx, code int, ev *evSpec) (*http.Response, error) {
	h := http.Header{}
	if ev.RA != nil {
		h.Set("Retry-After", *ev.RA)
	}
	var body io.ReadCloser = io.NopCloser(strings.NewReader(ev.Body))
	if ev.Kind == kBodyErr {
		body = &failingBody{}
	}
	return &http.Response{StatusCode: code, Status: strconv.Itoa(code) + " scripted", Header: h, Body: body,
		Request: req, ProtoMajor: 1, ProtoMinor: 1}, nil
}

// runSession executes the session inside a synctest bubble.
func runSession(t *testing.T, s *session) (*env, bool) {
	e := &env{sess: s}
	ok := true
	synctest.Test(t, func(t *testing.T) {
		e.t0 = time.Now()
		n := len(s.Callers)
		e.obs = make([]*callerObs, n)
		e.next = make([]int, n)
		e.follow = make([]*evSpec, n)
		e.hop = make([]int, n)
		e.cctx = make([]context.Context, n)
		for i := range e.obs {
			e.obs[i] = &callerObs{logged: map[int]*int64{}, hasLog: map[int]bool{}}
		}
		lc, err := client.New("http://log.example/ct", &http.Client{Transport: e, Timeout: s.ClientTimeout}, jsonclient.Options{Logger: logger{e}})
		if err != nil {
			ok = false
			return
		}
		var wg sync.WaitGroup
		var stops []func()
		for k := range s.Callers {
			k := k
			cs := &s.Callers[k]
			wg.Add(1)
			go func() {
				defer wg.Done()
				if cs.Start > 0 {
					time.Sleep(cs.Start)
				}
				base := context.WithValue(context.Background(), ckey{}, k)
				ctx := base
				var cancel context.CancelFunc = func() {}
				if cs.CtxEnd >= 0 {
					left := e.t0.Add(cs.CtxEnd).Sub(time.Now())
					if cs.Cancel {
						ctx, cancel = context.WithCancel(base)
						if left <= 0 {
							cancel()
						} else {
							tm := time.AfterFunc(left, cancel)
							e.mu.Lock()
							stops = append(stops, func() { tm.Stop() })
							e.mu.Unlock()
						}
					} else {
						ctx, cancel = context.WithDeadline(base, e.t0.Add(cs.CtxEnd))
					}
				}
				o := e.obs[k]
				e.mu.Lock()
				e.cctx[k] = ctx
				e.mu.Unlock()
				func() {
					defer func() {
						if r := recover(); r != nil {
							o.class, o.errText = "panic", fmt.Sprint(r)
						}
					}()
					var err error
					switch cs.API {
					case 0:
						var out struct {
							Timestamp uint64 `json:"timestamp"`
							ID        int    `json:"id"`
						}
						var body []byte
						_, body, err = lc.PostAndParseWithRetry(ctx, "/ct/v1/add-chain", map[string]int{"k": k}, &out)
						if err == nil {
							o.class, o.body = "success", identify(cs, o, body)
							// a body that sets the timestamp must have been decoded into the caller's value
							if o.body >= 0 && (cs.Evs[o.body].Form == "std" || cs.Evs[o.body].Form == "padded") && int(out.Timestamp) != o.body {
								o.body = -2
							}
						}
					default:
						var sct *ct.SignedCertificateTimestamp
						chain := []ct.ASN1Cert{{Data: []byte{0x30, 0x03, 1, 2, byte(k)}}}
						if cs.API == 1 {
							sct, err = lc.AddChain(ctx, chain)
						} else {
							sct, err = lc.AddPreChain(ctx, chain)
						}
						if err == nil {
							o.class, o.body = "success", int(sct.Timestamp)
						}
					}
					if err != nil {
						o.errText = err.Error()
						var re jsonclient.RspError
						switch {
						case err == context.DeadlineExceeded:
							o.class = "ctx-deadline"
						case err == context.Canceled:
							o.class = "ctx-cancel"
						case errors.As(err, &re):
							o.class, o.code, o.body = "status", re.StatusCode, identify(cs, o, re.Body)
						case errors.Is(err, context.DeadlineExceeded) || errors.Is(err, context.Canceled):
							o.class = "wrapped-ctx" // not a context's own error value: some error that wraps or claims to be one
						default:
							o.class = "other"
						}
					}
				}()
				o.end = time.Now()
				cancel()
			}()
		}
		wg.Wait()
		for _, f := range stops {
			f()
		}
	})
	return e, ok
}

// ---------------------------------------------------------------- classification (property side)

// raForm reads a Retry-After value the way RFC 7231 7.1.3 is implemented with strconv.Atoi
// and time.Parse(time.RFC1123): (form, seconds, date).
func raForm(ra *string) (string, int64, time.Time) {
	if ra == nil || *ra == "" {
		return "none", 0, time.Time{}
	}
	if n, err := strconv.Atoi(*ra); err == nil {
		return "seconds", int64(n), time.Time{}
	}
	if d, err := time.Parse(time.RFC1123, *ra); err == nil {
		return "date", 0, d
	}
	return "junk", 0, time.Time{}
}

func converting(code int) bool { return code == 301 || code == 302 || code == 303 }

// methodChanged: was the request that got the final answer of a redirected attempt no longer a
// POST?  The transport OBSERVED that request (FinalMeth).  (For an event that was never answered:
// net/http turns a POST into a GET on 301, 302, 303 and keeps the method on 307, 308, so the POST
// survives a chain only if every hop is a 307 / 308.)
func methodChanged(ev *evSpec) bool {
	if ev.Kind != kRedirect {
		return false
	}
	if ev.FinalMeth != "" {
		return ev.FinalMeth != http.MethodPost
	}
	for _, h := range ev.Hops {
		if converting(h) {
			return true
		}
	}
	return false
}

// class of an answered event according to the property's sentence.
func evClass(ev *evSpec) string {
	switch {
	case ev.Kind == kTransport || ev.Kind == kBodyErr || methodChanged(ev):
		return "retry"
	case ev.Code == 200 && ev.Parsable && ev.NoSCT:
		// AddChain / AddPreChain: the first 200 that parses ends the submission; it holds no SCT,
		// so it is handed back as an error carrying status 200 and the body
		return "fail"
	case ev.Code == 200 && ev.Parsable:
		return "success"
	case ev.Code == 200:
		return "retry"
	case ev.Code == 408:
		return "retry408"
	case ev.Code == 429 || ev.Code == 503:
		return "retryRA"
	}
	return "fail"
}

func ns(t time.Time) *big.Int {
	v := new(big.Int).Mul(big.NewInt(t.Unix()), big.NewInt(1e9))
	return v.Add(v, big.NewInt(int64(t.Nanosecond())))
}

func zt(t time.Time) string { return lib.ZBig(ns(t)) }

var (
	bigMaxDur = big.NewInt(math.MaxInt64)
	big128s   = big.NewInt(128e9)
	bigJit    = big.NewInt(250e6 - 1)
)

func bmax(a, b *big.Int) *big.Int {
	if a.Cmp(b) >= 0 {
		return a
	}
	return b
}
func bmin(a, b *big.Int) *big.Int {
	if a.Cmp(b) <= 0 {
		return a
	}
	return b
}

// oracle evaluates the property's sentence on what was observed.  Returns "" if it holds.
func oracle(e *env) string {
	s := e.sess
	// all answered retryable events of the session in the order of their instants: the
	// "horizon" is the latest instant any answer so far may legitimately hold the client back to
	type ans struct {
		k, pos int
		at     *big.Int
	}
	var all []ans
	for k, o := range e.obs {
		for pos, d := range o.delivered {
			all = append(all, ans{k, pos, ns(d.resp)})
		}
	}
	sort.SliceStable(all, func(i, j int) bool { return all[i].at.Cmp(all[j].at) < 0 })
	horizonBefore := map[[2]int]*big.Int{}
	var horizon *big.Int
	// asked[i]: the instant up to which the server, in an answer to ANY submission of this client,
	// asked the client to stay away (the back-off state is one per client: jsonclient/backoff.go)
	type asked struct {
		at, until *big.Int
		ev        *evSpec
	}
	var askedAll []asked
	for _, a := range all {
		if horizon != nil {
			horizonBefore[[2]int{a.k, a.pos}] = horizon
		}
		if ev := &s.Callers[a.k].Evs[e.obs[a.k].delivered[a.pos].idx]; evClass(ev) == "retryRA" {
			switch form, n, d := raForm(ev.RA); form {
			case "seconds":
				req := new(big.Int).Mul(big.NewInt(n), big.NewInt(1e9))
				askedAll = append(askedAll, asked{a.at, new(big.Int).Add(a.at, bmin(req, bigMaxDur)), ev})
			case "date":
				askedAll = append(askedAll, asked{a.at, bmin(ns(d), new(big.Int).Add(a.at, bigMaxDur)), ev})
			}
		}
		ev := &s.Callers[a.k].Evs[e.obs[a.k].delivered[a.pos].idx]
		cl := evClass(ev)
		if cl == "retry" || cl == "retryRA" {
			h := new(big.Int).Add(a.at, big128s)
			if cl == "retryRA" {
				switch form, n, d := raForm(ev.RA); form {
				case "seconds":
					req := new(big.Int).Mul(big.NewInt(n), big.NewInt(1e9))
					h = bmax(h, new(big.Int).Add(a.at, bmin(req, bigMaxDur)))
				case "date":
					h = bmax(h, bmin(ns(d), new(big.Int).Add(a.at, bigMaxDur)))
				}
			}
			if horizon == nil || h.Cmp(horizon) > 0 {
				horizon = h
			}
		}
	}
	for k, o := range e.obs {
		cs := &s.Callers[k]
		start := ns(e.t0.Add(cs.Start))
		var tend *big.Int
		if cs.CtxEnd >= 0 {
			tend = ns(e.t0.Add(cs.CtxEnd))
		}
		end := ns(o.end)
		isCtx := o.class == "ctx-deadline" || o.class == "ctx-cancel"
		key := func(what string, ev *evSpec) string {
			ra := "absent"
			if ev != nil && ev.RA != nil {
				ra = strconv.Quote(*ev.RA)
			}
			code, kind, extra := 0, -1, ""
			if ev != nil {
				code, kind = ev.Code, ev.Kind
				if ev.Kind == kTransport {
					extra = " error-shape=" + ev.Shape
				} else if ev.Code == 200 && hasBody(ev) {
					extra = fmt.Sprintf(" body-form=%s body=%q", ev.Form, ev.Body)
				}
			}
			return fmt.Sprintf("%s: caller=%d api=%d kind=%d status=%d%s retry-after=%s result=%s", what, k, cs.API, kind, code, extra, ra, o.class)
		}
		if o.class == "wrapped-ctx" {
			// the result is an error that wraps (or claims to be) a context error without being a
			// context's own error value.  A transport error must be retried while the caller's context
			// is live; once that context has ended the result must be that context's error itself.
			var lastEv *evSpec
			if n := len(o.delivered); n > 0 {
				lastEv = &cs.Evs[o.delivered[n-1].idx]
			}
			if tend == nil || end.Cmp(tend) < 0 {
				return key(fmt.Sprintf("transport error not retried: the call returned an error wrapping a context error at +%v although the caller's context was live (it ends at +%v)",
					o.end.Sub(e.t0), cs.CtxEnd), lastEv)
			}
			return key("the caller's context ended but the result is not that context's error", lastEv)
		}
		if o.class == "panic" || o.class == "other" {
			return key("unclassified result "+o.errText, nil)
		}
		if isCtx {
			if tend == nil {
				return key("context error without a context end", nil)
			}
			if (o.class == "ctx-cancel") != cs.Cancel {
				return key("wrong context error", nil)
			}
			if end.Cmp(bmax(tend, start)) != 0 {
				return key(fmt.Sprintf("context ended at +%v, call returned at +%v", cs.CtxEnd, o.end.Sub(e.t0)), nil)
			}
		} else if tend != nil && end.Cmp(bmax(tend, start)) > 0 {
			return key("returned after the context ended", nil)
		}
		for i, a := range o.attempts {
			if i > 0 && tend != nil && ns(a).Cmp(tend) >= 0 {
				return key(fmt.Sprintf("POST #%d sent after the context ended", i), nil)
			}
		}
		if len(o.delivered) > len(o.attempts) {
			return key("more answers than POSTs", nil)
		}
		for pos, d := range o.delivered {
			ev := &cs.Evs[d.idx]
			cl := evClass(ev)
			resp := ns(d.resp)
			last := pos == len(o.delivered)-1
			hasNext := pos+1 < len(o.attempts)
			switch cl {
			case "success", "fail":
				if !last || hasNext {
					return key("POST sent after a final answer", ev)
				}
				if cl == "success" && !(o.class == "success" && o.body == d.idx) {
					return key("parsable 200 not returned as success", ev)
				}
				if cl == "fail" && !(o.class == "status" && o.code == ev.Code && o.body == d.idx) {
					return key("final status not returned with status and body", ev)
				}
				if end.Cmp(resp) != 0 {
					return key("final answer not returned at once", ev)
				}
			default:
				if !hasNext {
					if !isCtx {
						return key("retryable answer, no retry, no context error", ev)
					}
				}
				// lower bound: a server-supplied Retry-After
				var lower *big.Int
				if cl == "retryRA" {
					switch form, n, dt := raForm(ev.RA); form {
					case "seconds":
						req := new(big.Int).Mul(big.NewInt(n), big.NewInt(1e9))
						lower = new(big.Int).Add(resp, bmin(req, bigMaxDur))
					case "date":
						lower = bmin(ns(dt), new(big.Int).Add(resp, bigMaxDur))
					}
				}
				// upper bound: what any answer so far (this one included) may impose, plus jitter
				hb := horizonBefore[[2]int{k, pos}]
				upper := new(big.Int).Set(resp)
				if hb != nil {
					upper = bmax(upper, hb)
				}
				if cl != "retry408" {
					upper = bmax(upper, new(big.Int).Add(resp, big128s))
					if lower != nil {
						upper = bmax(upper, lower)
					}
				}
				upper = new(big.Int).Add(upper, bigJit)
				if hasNext {
					nx := ns(o.attempts[pos+1])
					waited := o.attempts[pos+1].Sub(d.resp)
					if nx.Cmp(resp) < 0 {
						return key("time went backwards", ev)
					}
					if lower != nil && nx.Cmp(lower) < 0 {
						return key(fmt.Sprintf("retried after %v, less than the server's Retry-After", waited), ev)
					}
					// answers to other submissions of the same client strictly earlier than this one
					for _, q := range askedAll {
						if q.at.Cmp(resp) < 0 && nx.Cmp(bmin(q.until, new(big.Int).Add(resp, bigMaxDur))) < 0 {
							return key(fmt.Sprintf("retried after %v, before the instant an earlier answer to this client (Retry-After %q) asked it to stay away until", waited, *q.ev.RA), ev)
						}
					}
					if nx.Cmp(upper) > 0 {
						return key(fmt.Sprintf("retried after %v, longer than the cap plus jitter", waited), ev)
					}
					if cl == "retry408" && hb == nil && nx.Cmp(resp) != 0 {
						return key(fmt.Sprintf("408 retried after %v although no back-off was pending", waited), ev)
					}
				} else if tend != nil && tend.Cmp(upper) > 0 {
					return key("context error although a retry was due before the context ended", ev)
				}
			}
		}
		// a success or status result needs the matching final answer
		if o.class == "success" || o.class == "status" {
			if len(o.delivered) == 0 {
				return key("result without an answer", nil)
			}
			cl := evClass(&cs.Evs[o.delivered[len(o.delivered)-1].idx])
			if (o.class == "success") != (cl == "success") || (o.class == "status") != (cl == "fail") {
				return key("result does not match the last answer", &cs.Evs[o.delivered[len(o.delivered)-1].idx])
			}
		}
	}
	return ""
}

// ---------------------------------------------------------------- Coq rendering

func coqRA(ra *string) string {
	switch form, n, d := raForm(ra); form {
	case "seconds":
		return "(RASeconds " + lib.Z(n) + ")"
	case "date":
		return "(RADate " + zt(d) + ")"
	case "junk":
		return "RAJunk"
	}
	return "RANone"
}

func coqOutcome(ev *evSpec) string {
	switch {
	case ev.Kind == kTransport:
		return "OTransport"
	case ev.Kind == kBodyErr:
		return fmt.Sprintf("(OBodyErr %s)", lib.Z(int64(ev.Code)))
	case methodChanged(ev):
		return fmt.Sprintf("(ORedirected %s %s)", lib.Z(int64(ev.Code)), lib.Bool(ev.Parsable))
	}
	return fmt.Sprintf("(OResp %s %s %s)", lib.Z(int64(ev.Code)), coqRA(ev.RA), lib.Bool(ev.Parsable))
}

func assignLogs(e *env) {
	// k-th log line at instant T belongs to the k-th answered retryable event at instant T
	type slot struct{ k, pos int }
	var slots []slot
	for k, o := range e.obs {
		for pos, d := range o.delivered {
			cl := evClass(&e.sess.Callers[k].Evs[d.idx])
			if cl != "success" && cl != "fail" {
				slots = append(slots, slot{k, pos})
			}
		}
	}
	used := map[slot]bool{}
	for _, l := range e.logs {
		for _, sl := range slots {
			if !used[sl] && e.obs[sl.k].delivered[sl.pos].resp.Equal(l.at) {
				used[sl] = true
				e.obs[sl.k].hasLog[sl.pos] = true
				e.obs[sl.k].logged[sl.pos] = l.wait
				break
			}
		}
	}
}

func buildCase(e *env, id int) lib.Case {
	assignLogs(e)
	s := e.sess
	var callers, observed, nosct []string
	anyNoSCT := false
	tags := []string{"profile:" + s.Profile, fmt.Sprintf("callers:%d", len(s.Callers))}
	if s.ClientTimeout > 0 {
		tags = append(tags, "http-client-timeout:set")
	}
	var implJ []interface{}
	for k := range s.Callers {
		cs := &s.Callers[k]
		o := e.obs[k]
		var evs, bad []string
		for i := range cs.Evs {
			ev := &cs.Evs[i]
			if ev.NoSCT {
				bad = append(bad, lib.Z(int64(i)))
				anyNoSCT = true
			}
			j := "(JGiven 0)"
			// position of this event among the answered ones
			for pos, d := range o.delivered {
				if d.idx == i {
					cl := evClass(ev)
					if cl != "success" && cl != "fail" {
						if pos+1 < len(o.attempts) {
							j = "(JObserved " + zt(o.attempts[pos+1]) + ")"
						} else {
							j = "(JGiven 249000000)" // wait cut by the context: the longest jitter explains it if any does
						}
					}
				}
			}
			evs = append(evs, fmt.Sprintf("mkEv %s %s %s %s", lib.Z(int64(ev.Dur)), coqOutcome(ev), lib.Z(int64(i)), j))
			if i < o.consumed() {
				tags = append(tags, "event:"+evTag(ev))
			}
		}
		cend := "None"
		if cs.CtxEnd >= 0 {
			cend = lib.Some(zt(e.t0.Add(cs.CtxEnd)))
		}
		kind := "KDeadline"
		if cs.Cancel {
			kind = "KCancel"
		}
		callers = append(callers, fmt.Sprintf("mkCaller (mkCtx %s %s) %s %s", cend, kind, zt(e.t0.Add(cs.Start)), lib.List(evs)))
		nosct = append(nosct, lib.List(bad))
		var atts, logs []string
		for _, a := range o.attempts {
			atts = append(atts, zt(a))
		}
		for pos := range o.delivered {
			if w := o.logged[pos]; w != nil {
				logs = append(logs, lib.Some(lib.Z(*w)))
			} else {
				logs = append(logs, "None")
			}
		}
		res := "RPending"
		switch o.class {
		case "success":
			res = "(RSuccess " + lib.Z(int64(o.body)) + ")"
		case "status":
			res = fmt.Sprintf("(RStatus %s %s)", lib.Z(int64(o.code)), lib.Z(int64(o.body)))
		case "ctx-deadline":
			res = "(RCtx KDeadline)"
		case "ctx-cancel":
			res = "(RCtx KCancel)"
		}
		observed = append(observed, fmt.Sprintf("mkObs %s %s %s %s", lib.List(atts), lib.List(logs), res, zt(o.end)))
		tags = append(tags, "result:"+o.class, fmt.Sprintf("posts:%s", bucket(len(o.attempts))))
		if cs.Profile == "far-deadline" {
			tags = append(tags, "ctx:30-days")
		} else if cs.Cancel {
			tags = append(tags, "ctx:cancel")
		} else {
			tags = append(tags, "ctx:deadline")
		}
		var at, rs []string
		for _, a := range o.attempts {
			at = append(at, a.Sub(e.t0).String())
		}
		for _, d := range o.delivered {
			rs = append(rs, d.resp.Sub(e.t0).String())
		}
		implJ = append(implJ, map[string]interface{}{"posts_at": at, "answers_at": rs, "result": o.class, "status": o.code,
			"body": o.body, "returned_at": o.end.Sub(e.t0).String(), "error": o.errText})
	}
	tags = append(tags, "history:server-paced-failures-before-an-unpaced-one:"+pacedBeforeUnpaced(e))
	note := oracle(e)
	coq := fmt.Sprintf("CSession %s %s", lib.List(callers), lib.List(observed))
	if anyNoSCT {
		coq = fmt.Sprintf("CSessionSCT %s %s %s", lib.List(callers), lib.List(nosct), lib.List(observed))
	}
	return lib.Case{
		Coq:    coq,
		Input:  s,
		Impl:   implJ,
		PropOK: note == "",
		Note:   note,
		Tags:   tags,
	}
}

// pacedBeforeUnpaced: over the whole history of the client (all submissions, in the order of the
// answers): the largest number of failures paced by the server (429 / 503 with a usable
// Retry-After) seen before a failure the server did not pace and that was followed by another POST.
func pacedBeforeUnpaced(e *env) string {
	type ans struct {
		at            time.Time
		paced, repost bool
		cl            string
	}
	var all []ans
	for k, o := range e.obs {
		for pos, d := range o.delivered {
			ev := &e.sess.Callers[k].Evs[d.idx]
			form, _, _ := raForm(ev.RA)
			cl := evClass(ev)
			all = append(all, ans{d.resp, cl == "retryRA" && (form == "seconds" || form == "date"), pos+1 < len(o.attempts), cl})
		}
	}
	sort.SliceStable(all, func(i, j int) bool { return all[i].at.Before(all[j].at) })
	paced, best := 0, -1
	for _, a := range all {
		switch {
		case a.paced:
			paced++
		case (a.cl == "retry" || a.cl == "retryRA") && a.repost && paced > best:
			best = paced
		}
	}
	switch {
	case best < 0:
		return "no-unpaced-retry"
	case best == 0:
		return "0"
	case best <= 4:
		return "1-4"
	case best <= 8:
		return "5-8"
	case best <= 16:
		return "9-16"
	}
	return "17+"
}

func (o *callerObs) consumed() int {
	n := len(o.delivered)
	if len(o.attempts) > n {
		n = len(o.attempts)
	}
	return n
}

func bucket(n int) string {
	switch {
	case n <= 1:
		return "1"
	case n <= 3:
		return "2-3"
	case n <= 8:
		return "4-8"
	}
	return "9+"
}

func evTag(ev *evSpec) string {
	switch ev.Kind {
	case kTransport:
		return "transport-error:" + ev.Shape
	case kBodyErr:
		return "body-error"
	case kRedirect:
		var hs []string
		last := "last-hop-keeps-method"
		for _, h := range ev.Hops {
			hs = append(hs, strconv.Itoa(h))
		}
		if converting(ev.Hops[len(ev.Hops)-1]) {
			last = "last-hop-converts"
		}
		final := strconv.Itoa(ev.Code)
		if ev.Code == 200 {
			final = map[bool]string{true: "200-parsable", false: "200-unparsable"}[ev.Parsable]
		}
		if methodChanged(ev) {
			meth := ev.FinalMeth
			if meth == "" {
				meth = "another-method(unanswered)"
			}
			return fmt.Sprintf("redirect-chain:hops=%d:post-became-%s:%s:final=%s [%s]", len(ev.Hops), meth, last, final, strings.Join(hs, ","))
		}
		return fmt.Sprintf("redirect-chain:hops=%d:still-post:final=%s [%s]", len(ev.Hops), final, strings.Join(hs, ","))
	}
	t := strconv.Itoa(ev.Code)
	if ev.Code == 200 {
		switch {
		case ev.NoSCT:
			return "200-parsable-no-sct:" + ev.Form
		case ev.Parsable:
			return "200-parsable:" + ev.Form
		}
		return "200-unparsable:" + ev.Form
	}
	if ev.Code == 429 || ev.Code == 503 {
		form, n, _ := raForm(ev.RA)
		if form == "seconds" && (n > 9223372036 || n < -9223372036) {
			form = "seconds-beyond-duration"
		}
		return t + ":retry-after-" + form
	}
	if ev.Code != 408 {
		return "other-status"
	}
	return t
}

// ---------------------------------------------------------------- generators

var bubbleStart = time.Date(2000, 1, 1, 0, 0, 0, 0, time.UTC)

var raBoundary = []string{"0", "1", "2", "127", "128", "129", "9223372036", "9223372037", "18446744073", "18446744074",
	"9223372036854775807", "9223372036854775808", "-1", "-9223372036", "-9223372037", "+7", "007", " 5", "1.5", "1e3", "soon", "0x10"}

func genRA(r *mrand.Rand, at time.Duration) *string {
	p := func(s string) *string { return &s }
	switch x := r.Intn(100); {
	case x < 22:
		return nil
	case x < 42:
		return p(strconv.Itoa(r.Intn(6)))
	case x < 52:
		return p(strconv.Itoa(6 + r.Intn(300)))
	case x < 70:
		return p(raBoundary[r.Intn(len(raBoundary))])
	case x < 92:
		offs := []time.Duration{-time.Hour, -time.Second, 0, time.Second, 2 * time.Second, 5 * time.Second, 30 * time.Second,
			129 * time.Second, 200 * time.Second, 1000 * time.Second, time.Duration(r.Intn(400)) * time.Second}
		d := bubbleStart.Add(at.Truncate(time.Second)).Add(offs[r.Intn(len(offs))])
		switch r.Intn(10) {
		case 0:
			return p(d.Format(time.RFC1123Z)) // numeric zone: not RFC1123 for time.Parse
		case 1:
			return p(d.Format(time.RFC850))
		case 2:
			return p("Fri, 31 Dec 9999 23:59:59 GMT")
		case 3:
			return p("Mon, 01 Jan 1000 00:00:00 GMT")
		}
		return p(d.In(time.FixedZone("GMT", 0)).Format(time.RFC1123))
	}
	return p("")
}

var otherCodes = []int{201, 202, 204, 300, 305, 304, 400, 401, 403, 404, 407, 409, 418, 428, 430, 499, 500, 501, 502, 504, 505, 599}

func genDur(r *mrand.Rand) time.Duration {
	switch r.Intn(6) {
	case 0:
		return 0
	case 1:
		return time.Duration(1+r.Intn(20)) * time.Millisecond
	case 2:
		return time.Duration(1+r.Intn(3000)) * time.Millisecond
	case 3:
		return time.Duration(1+r.Intn(60)) * time.Second
	}
	return time.Duration(r.Intn(500)) * time.Millisecond
}

// dress: the shape of a transport error, the form of a 200 body (the generator's intention
// parsable / unparsable picks the list; finish() classifies the bytes)
func dress(r *mrand.Rand, ev *evSpec) {
	switch {
	case ev.Kind == kTransport:
		ev.Shape = transportShapes[r.Intn(len(transportShapes))]
	case ev.Code == 200 && hasBody(ev) && ev.Parsable:
		ev.Form = parsableForms[r.Intn(len(parsableForms))]
	case ev.Code == 200 && hasBody(ev):
		ev.Form = unparsableForms[r.Intn(len(unparsableForms))]
	}
}

// genEv: one event; at = rough offset at which it may be answered (for date headers)
func genEv(r *mrand.Rand, at time.Duration, final bool) evSpec {
	ev := genEv0(r, at, final)
	dress(r, &ev)
	return ev
}

func genEv0(r *mrand.Rand, at time.Duration, final bool) evSpec {
	ev := evSpec{Dur: genDur(r), Kind: kResp, Parsable: r.Intn(2) == 0}
	x := r.Intn(100)
	if final {
		x = 76 + r.Intn(24)
		if r.Intn(2) == 0 {
			ev.Code, ev.Parsable = 200, true
			return ev
		}
	}
	switch {
	case x < 12:
		ev.Kind = kTransport
	case x < 16:
		ev.Kind = kBodyErr
		ev.Code = []int{200, 500, 503, 404}[r.Intn(4)]
	case x < 24:
		ev.Kind = kRedirect
		ev.Hops = genHops(r, true)
		ev.Code = []int{200, 200, 404, 503}[r.Intn(4)]
		ev.Parsable = r.Intn(3) > 0
	case x < 34:
		ev.Code, ev.Parsable = 200, false
	case x < 44:
		ev.Code = 408
		if r.Intn(4) == 0 {
			ev.RA = genRA(r, at)
		}
	case x < 58:
		ev.Code = 429
		ev.RA = genRA(r, at)
	case x < 76:
		ev.Code = 503
		ev.RA = genRA(r, at)
	case x < 80:
		ev.Kind = kRedirect // method-preserving redirects only: the final answer counts
		ev.Hops = genHops(r, false)
		ev.Code = []int{200, 404, 503, 408}[r.Intn(4)]
		ev.Parsable = true
	case x < 88:
		ev.Code, ev.Parsable = 200, true
	default:
		ev.Code = otherCodes[r.Intn(len(otherCodes))]
		if r.Intn(5) == 0 {
			ev.Code = 200 + r.Intn(400)
			if ev.Code == 200 || ev.Code == 408 || ev.Code == 429 || ev.Code == 503 {
				ev.Code = 500
			}
		}
		if r.Intn(3) == 0 {
			ev.RA = genRA(r, at)
		}
	}
	return ev
}

var hopCodes = []int{301, 302, 303, 307, 308}

// genHops: a chain of 1..3 redirects; converting: at least one hop (anywhere in the chain) turns
// the POST into a GET; otherwise every hop keeps the method
func genHops(r *mrand.Rand, conv bool) []int {
	n := 1 + r.Intn(3)
	hops := make([]int, n)
	for i := range hops {
		if conv {
			hops[i] = hopCodes[r.Intn(5)]
		} else {
			hops[i] = hopCodes[3+r.Intn(2)]
		}
	}
	if conv {
		hops[r.Intn(n)] = hopCodes[r.Intn(3)]
	}
	return hops
}

// allChains: every sequence of 1..3 hops over 301, 302, 303, 307, 308 (155 of them), split into
// those that turn the POST into another method (141) and those that keep it (14)
func allChains() (conv, keep [][]int) {
	var rec func(pre []int, left int)
	rec = func(pre []int, left int) {
		if len(pre) > 0 {
			c := append([]int{}, pre...)
			isConv := false
			for _, h := range c {
				isConv = isConv || converting(h)
			}
			if isConv {
				conv = append(conv, c)
			} else {
				keep = append(keep, c)
			}
		}
		if left == 0 {
			return
		}
		for _, h := range hopCodes {
			rec(append(pre, h), left-1)
		}
	}
	rec(nil, 3)
	return
}

// redirectChains: one caller whose script walks through the redirect chains: three chains that
// turn the POST into another method (whatever their final answer is - a 200 whose body parses, one
// that does not, another status - the attempt must be retried), then a chain that keeps the POST
// (its final answer counts), then a plain good answer.  The case number selects the chains, so the
// cases of a run cover the 155 sequences in turn, in every order of method-changing and
// method-preserving hops.
func redirectChains(r *mrand.Rand, i int) *session {
	conv, keep := allChains()
	round := i / 24
	cs := callerSpec{CtxEnd: -1, API: r.Intn(3), Start: time.Duration(r.Intn(3)) * time.Second}
	final := func(ev *evSpec, j int) {
		switch j % 4 {
		case 0, 1:
			ev.Code, ev.Parsable = 200, true
			ev.Form = []string{"std", "std", "padded"}[r.Intn(3)]
		case 2:
			ev.Code, ev.Parsable = 200, false
			ev.Form = unparsableForms[r.Intn(len(unparsableForms))]
		default:
			ev.Code = []int{404, 500, 503, 408, 429, 204}[r.Intn(6)]
			if ev.Code == 503 || ev.Code == 429 {
				ev.RA = genRA(r, cs.Start)
			}
		}
	}
	for j := 0; j < 3; j++ {
		ev := evSpec{Dur: genDur(r), Kind: kRedirect, Hops: conv[(round*3+j)*46%len(conv)]}
		final(&ev, round+j)
		cs.Evs = append(cs.Evs, ev)
	}
	kp := evSpec{Dur: genDur(r), Kind: kRedirect, Hops: keep[round%len(keep)]}
	final(&kp, round)
	cs.Evs = append(cs.Evs, kp, evSpec{Kind: kResp, Code: 200, Parsable: true, Form: "std"})
	if r.Intn(4) == 0 {
		cs.CtxEnd, cs.Cancel = genCtxEnd(r, cs.Start, 0)
	}
	return &session{Profile: "redirect-chains", Callers: []callerSpec{cs}}
}

func genScript(r *mrand.Rand, start time.Duration, n int) []evSpec {
	var evs []evSpec
	at := start
	for i := 0; i < n; i++ {
		ev := genEv(r, at, i == n-1)
		evs = append(evs, ev)
		at += ev.Dur + time.Duration(1<<uint(minInt(i, 7)))*time.Second
	}
	return evs
}

func minInt(a, b int) int {
	if a < b {
		return a
	}
	return b
}

func genCtxEnd(r *mrand.Rand, start time.Duration, k int) (time.Duration, bool) {
	// offsets end in .5 ms (+ k us): never the instant of a response or of a timer
	frac := 500*time.Microsecond + time.Duration(k)*time.Microsecond
	var ms int64
	switch r.Intn(7) {
	case 0:
		ms = int64(r.Intn(30))
	case 1:
		ms = int64(r.Intn(1500))
	case 2:
		ms = int64(r.Intn(8000))
	case 3:
		ms = int64(r.Intn(140000))
	case 4:
		ms = int64(r.Intn(600000))
	case 5:
		ms = 127000 + int64(r.Intn(3000))
	default:
		ms = int64(r.Intn(5000000))
	}
	end := start.Truncate(time.Millisecond) + time.Duration(ms)*time.Millisecond + frac
	if r.Intn(40) == 0 { // already over when the call starts
		end = start.Truncate(time.Millisecond) - time.Duration(r.Intn(3))*time.Millisecond - frac
		if end < 0 {
			end = 0
		}
	}
	return end, r.Intn(4) == 0
}

func genCaller(r *mrand.Rand, start time.Duration, k int, maxEv int, forceCtx bool) callerSpec {
	cs := callerSpec{Start: start, CtxEnd: -1, API: r.Intn(3)}
	cs.Evs = genScript(r, start, 1+r.Intn(maxEv))
	if forceCtx || r.Intn(100) < 70 {
		cs.CtxEnd, cs.Cancel = genCtxEnd(r, start, k)
	}
	return cs
}

var clientTimeouts = []time.Duration{2 * time.Second, 10 * time.Second, 45 * time.Second, 90 * time.Second}

// withClientTimeout gives the session's http.Client a per-attempt Timeout T: every scripted answer
// comes strictly before T, except transport events turned into "the server does not answer this
// attempt" (shape client-timeout), which net/http ends at exactly T.  Not for concurrent callers
// (their answers are kept at distinct instants by sub-millisecond offsets of the durations).
func withClientTimeout(r *mrand.Rand, s *session, atLeastOne bool) *session {
	T := clientTimeouts[r.Intn(len(clientTimeouts))]
	s.ClientTimeout = T
	for k := range s.Callers {
		evs := s.Callers[k].Evs
		for i := range evs {
			if evs[i].Dur >= T {
				evs[i].Dur %= T
			}
			if evs[i].Kind == kTransport && (r.Intn(2) == 0 || (atLeastOne && i == 0)) {
				evs[i].Shape, evs[i].Dur = "client-timeout", T
			}
		}
	}
	return s
}

// retryThenOK: failures of one class (200 bodies that do not parse / transport errors of every
// shape), each followed by the answer that must be the result: a 200 whose body parses.  The
// first failure walks through all forms / shapes as the case number grows.
func retryThenOK(r *mrand.Rand, i int, bodies bool) *session {
	cs := callerSpec{CtxEnd: -1, API: r.Intn(3), Start: time.Duration(r.Intn(3)) * time.Second}
	n := 1 + r.Intn(3)
	round := i / 24
	for j := 0; j < n; j++ {
		ev := evSpec{Dur: genDur(r)}
		if bodies {
			ev.Kind, ev.Code = kResp, 200
			ev.Form = unparsableForms[r.Intn(len(unparsableForms))]
			if j == 0 {
				ev.Form = unparsableForms[round%len(unparsableForms)]
			}
		} else {
			ev.Kind = kTransport
			ev.Shape = transportShapes[r.Intn(len(transportShapes))]
			if j == 0 {
				ev.Shape = transportShapes[round%len(transportShapes)]
			}
		}
		cs.Evs = append(cs.Evs, ev)
		if r.Intn(4) == 0 { // some other retryable answer in between
			o := evSpec{Dur: genDur(r), Kind: kResp, Code: []int{408, 429, 503}[r.Intn(3)]}
			if r.Intn(2) == 0 {
				o.RA = genRA(r, cs.Start)
			}
			cs.Evs = append(cs.Evs, o)
		}
	}
	last := evSpec{Dur: genDur(r), Kind: kResp, Code: 200, Parsable: true, Form: []string{"std", "std", "padded"}[r.Intn(3)]}
	if r.Intn(6) == 0 {
		last.Form = parsableForms[r.Intn(len(parsableForms))]
	}
	cs.Evs = append(cs.Evs, last, evSpec{Kind: kResp, Code: 200, Parsable: true, Form: "std"})
	if r.Intn(3) == 0 {
		cs.CtxEnd, cs.Cancel = genCtxEnd(r, cs.Start, 0)
	}
	if bodies {
		return &session{Profile: "unparsable-then-ok", Callers: []callerSpec{cs}}
	}
	return &session{Profile: "transport-then-ok", Callers: []callerSpec{cs}}
}

// forms of a Retry-After the client cannot use (neither strconv.Atoi nor RFC 1123): the failure is not paced by the server
var unusableRA = []string{"", "soon", "1.5", "1e3", " 5", "0x10", "Saturday, 01-Jan-00 00:05:00 GMT", "Sat, 01 Jan 2000 00:05:00 +0000"}

// pacedRA: a Retry-After the client can use, asking for a short pause (seconds, also signed /
// zero-padded / non-positive; an HTTP date around the instant of the answer, also long past).
// hi = upper bound of the offset of the answer; returns the upper bound of the offset of the next POST.
func pacedRA(r *mrand.Rand, hi time.Duration) (*string, time.Duration) {
	p := func(s string) *string { return &s }
	const jit = 250 * time.Millisecond
	switch x := r.Intn(10); {
	case x < 4:
		n := r.Intn(6)
		return p(strconv.Itoa(n)), hi + time.Duration(n)*time.Second + jit
	case x < 5:
		n := 6 + r.Intn(150)
		return p(strconv.Itoa(n)), hi + time.Duration(n)*time.Second + jit
	case x < 7:
		f := []struct {
			s string
			n int
		}{{"007", 7}, {"+7", 7}, {"-1", 0}, {"-0", 0}, {"-9223372036", 0}, {"-9223372037", 0}, {"00", 0}, {"128", 128}, {"129", 129}}[r.Intn(9)]
		return p(f.s), hi + time.Duration(f.n)*time.Second + jit
	}
	if r.Intn(12) == 0 {
		return p("Mon, 01 Jan 1000 00:00:00 GMT"), hi + jit
	}
	off := []time.Duration{-time.Hour, -time.Second, 0, time.Second, 2 * time.Second, 5 * time.Second, 30 * time.Second,
		129 * time.Second, 200 * time.Second}[r.Intn(9)]
	at := hi.Truncate(time.Second) + off
	d := bubbleStart.Add(at)
	if at > hi {
		hi = at
	}
	return p(d.In(time.FixedZone("GMT", 0)).Format(time.RFC1123)), hi + jit
}

// pacedRun: a long history on ONE client - one to three submissions, one after another, every wait
// served in full - in which the server paces many failures (429 / 503 with a Retry-After the
// client can use; the back-off is never pending when they arrive) and then stops pacing: failures
// WITHOUT a usable Retry-After follow (429 / 503 without the header or with one that is neither
// seconds nor an RFC 1123 date, transport errors, unparsable 200 bodies, body read errors).  The
// pause after those is the client's own: at most the 128 s cap plus jitter, however many paced
// failures the client has seen before (the back-off state is one per client and survives the
// submissions).  Plans: 9..14 paced failures, then 1..3 unpaced; 7 or 8 paced (just below the number
// of exponential steps), 60..70 paced (more than the bits of the step), and mixed histories of
// 10..16 failures ending with an unpaced one.  All but the last submission end with a final answer
// (a 200 that parses, or another status); the last one ends with a 200 that parses.
func pacedRun(r *mrand.Rand, i int) *session {
	s := &session{Profile: "paced-run"}
	var plan []bool // the failures of the whole history in order: true = paced by the server
	add := func(n int, paced bool) {
		for ; n > 0; n-- {
			plan = append(plan, paced)
		}
	}
	switch x := r.Intn(20); {
	case x < 11:
		add(9+r.Intn(6), true)
		add(1+r.Intn(3), false)
	case x < 14:
		add(7+r.Intn(2), true)
		add(1+r.Intn(3), false)
	case x < 15:
		add(60+r.Intn(11), true)
		add(1+r.Intn(2), false)
	default:
		for n := 9 + r.Intn(7); n > 0; n-- {
			plan = append(plan, r.Intn(5) < 3)
		}
		add(1, false)
	}
	cuts := map[int]bool{}
	for c := r.Intn(3); c > 0; c-- {
		cuts[1+r.Intn(len(plan)-1)] = true
	}
	const slack = time.Millisecond + 250*time.Millisecond
	hi := time.Duration(r.Intn(3)) * time.Second // upper bound of the offset reached so far
	cs := callerSpec{Start: hi, CtxEnd: -1, API: r.Intn(3)}
	dur := func() time.Duration {
		if r.Intn(5) == 0 {
			return genDur(r)
		}
		return time.Duration(r.Intn(3)) * time.Millisecond
	}
	for j, paced := range plan {
		if cuts[j] { // this submission gets a final answer; the next one starts when everything is over
			term := evSpec{Dur: dur(), Kind: kResp, Code: 200, Parsable: true, Form: "std"}
			if r.Intn(3) == 0 {
				term = evSpec{Dur: dur(), Kind: kResp, Code: []int{404, 400, 500, 502}[r.Intn(4)]}
			}
			cs.Evs = append(cs.Evs, term)
			s.Callers = append(s.Callers, cs)
			hi += term.Dur + slack + []time.Duration{time.Millisecond, 100 * time.Millisecond, time.Second, 3 * time.Second, 200 * time.Second}[r.Intn(5)]
			cs = callerSpec{Start: hi, CtxEnd: -1, API: r.Intn(3)}
		}
		ev := evSpec{Dur: dur(), Kind: kResp, Code: []int{429, 503}[r.Intn(2)]}
		hi += ev.Dur + slack
		if paced {
			ev.RA, hi = pacedRA(r, hi)
		} else {
			switch r.Intn(6) {
			case 0: // header absent
			case 1:
				ra := unusableRA[r.Intn(len(unusableRA))]
				ev.RA = &ra
			case 2, 3:
				ev = evSpec{Dur: ev.Dur, Kind: kTransport}
			case 4:
				ev = evSpec{Dur: ev.Dur, Kind: kResp, Code: 200, Parsable: false}
			default:
				ev = evSpec{Dur: ev.Dur, Kind: kBodyErr, Code: []int{200, 500, 503, 404}[r.Intn(4)]}
			}
			dress(r, &ev)
			hi += 128*time.Second + 250*time.Millisecond
		}
		cs.Evs = append(cs.Evs, ev)
		if r.Intn(12) == 0 { // a 408 in between: retried at once, the back-off is not touched
			e408 := evSpec{Dur: dur(), Kind: kResp, Code: 408}
			hi += e408.Dur + slack
			cs.Evs = append(cs.Evs, e408)
		}
	}
	last := evSpec{Dur: dur(), Kind: kResp, Code: 200, Parsable: true, Form: []string{"std", "std", "padded"}[r.Intn(3)]}
	hi += last.Dur + slack
	cs.Evs = append(cs.Evs, last, evSpec{Kind: kResp, Code: 200, Parsable: true, Form: "std"})
	if r.Intn(5) == 0 {
		cs.CtxEnd, cs.Cancel = hi.Truncate(time.Millisecond)+time.Duration(100+r.Intn(900))*time.Second+500*time.Microsecond, r.Intn(2) == 0
	}
	s.Callers = append(s.Callers, cs)
	return s
}

// sharedPacing: the server's pacing of ONE client met by ANOTHER submission of that client.
// Submission A is answered 429 / 503 with a Retry-After the client can use (N seconds, written
// plainly / signed / zero-padded, or the HTTP date of that instant); while that pause is still
// running - A is sleeping on it (concurrent variant), or A has already returned because its context
// ended (sequential variant) - submission B is answered something retryable: a 408 (half of the
// cases: "retried without added delay" does not mean "retried before the server's instant"), a
// transport error, a 200 that does not parse, a 429 / 503 without or with a shorter Retry-After, a
// redirect that turned the POST into another method, a body read error.  B's next POST must not
// come before the instant the server gave to this client; then both get a 200 that parses.
func sharedPacing(r *mrand.Rand, i int) *session {
	s := &session{Profile: "shared-pacing"}
	ms := func(n int) time.Duration { return time.Duration(n) * time.Millisecond }
	ok := func() evSpec {
		return evSpec{Dur: ms(r.Intn(30)), Kind: kResp, Code: 200, Parsable: true, Form: []string{"std", "std", "padded"}[r.Intn(3)]}
	}
	a := callerSpec{CtxEnd: -1, API: r.Intn(3)}
	tP := time.Duration(0) // offset of the pacing answer (a 408 before it is retried at once)
	if r.Intn(3) == 0 {
		e408 := evSpec{Dur: ms(1 + r.Intn(20)), Kind: kResp, Code: 408}
		a.Evs = append(a.Evs, e408)
		tP += e408.Dur
	}
	n := []int{2, 3, 5, 10, 30, 127, 128, 129, 161, 300}[r.Intn(10)]
	pace := evSpec{Dur: ms(1 + r.Intn(500)), Kind: kResp, Code: []int{429, 503}[r.Intn(2)]}
	tP += pace.Dur
	var ra string
	switch r.Intn(6) {
	case 0:
		ra = "+" + strconv.Itoa(n)
	case 1:
		ra = "00" + strconv.Itoa(n)
	case 2, 3:
		ra = bubbleStart.Add(tP.Truncate(time.Second) + time.Duration(n+1)*time.Second).In(time.FixedZone("GMT", 0)).Format(time.RFC1123)
	default:
		ra = strconv.Itoa(n)
	}
	pace.RA = &ra
	a.Evs = append(a.Evs, pace, ok(), evSpec{Kind: kResp, Code: 200, Parsable: true, Form: "std"})
	window := time.Duration(n) * time.Second // the server's pause lasts at least until tP + window
	b := callerSpec{CtxEnd: -1, API: r.Intn(3)}
	base := tP.Truncate(time.Millisecond) + ms(1)
	if i%2 == 0 { // sequential: A's context ends during the pause, B is submitted afterwards, still during the pause
		cut := base + ms(r.Intn(n*400))
		a.CtxEnd, a.Cancel = cut+500*time.Microsecond, r.Intn(3) == 0
		base = cut + ms(1)
	}
	b.Start = base + ms(r.Intn(int((tP+window/2-base)/time.Millisecond)+1))
	if b.Start > tP+window/2 {
		b.Start = base
	}
	// B's first answer arrives (well) within the pause: at most 400 ms after a start in its first half (n >= 2)
	met := evSpec{Dur: ms(1 + r.Intn(400)), Kind: kResp, Code: 408}
	switch r.Intn(12) {
	case 0, 1:
		met.Kind, met.Code = kTransport, 0
	case 2:
		met.Code, met.Parsable = 200, false
	case 3:
		met.Code = []int{429, 503}[r.Intn(2)]
		if r.Intn(2) == 0 {
			u := unusableRA[r.Intn(len(unusableRA))]
			met.RA = &u
		}
	case 4: // a shorter pause asked for while the longer one is running
		met.Code = []int{429, 503}[r.Intn(2)]
		sh := []string{"0", "1", "-1", "Mon, 01 Jan 1000 00:00:00 GMT", bubbleStart.Add(-time.Hour).In(time.FixedZone("GMT", 0)).Format(time.RFC1123)}[r.Intn(5)]
		met.RA = &sh
	case 5:
		met.Kind, met.Hops, met.Code, met.Parsable = kRedirect, genHops(r, true), 200, true
	case 6:
		met.Kind, met.Code = kBodyErr, []int{200, 500, 503, 404}[r.Intn(4)]
	}
	dress(r, &met)
	if met.Kind == kTransport && met.Shape == "client-timeout" {
		met.Shape = "plain"
	}
	b.Evs = append(b.Evs, met)
	if r.Intn(4) == 0 { // and a 408 once the pause is over: retried at once
		b.Evs = append(b.Evs, evSpec{Dur: ms(1 + r.Intn(20)), Kind: kResp, Code: 408})
	}
	b.Evs = append(b.Evs, ok(), evSpec{Kind: kResp, Code: 200, Parsable: true, Form: "std"})
	if r.Intn(4) == 0 {
		b.CtxEnd, b.Cancel = (tP+window).Truncate(time.Millisecond)+ms(2000+r.Intn(200000))+501*time.Microsecond, r.Intn(2) == 0
	}
	s.Callers = []callerSpec{a, b}
	return s
}

func genSession(r *mrand.Rand, i int) *session {
	switch x := i % 24; {
	case x >= 22:
		s := retryThenOK(r, i, false)
		if x == 23 {
			return withClientTimeout(r, s, (i/24)%2 == 0)
		}
		return s
	case x >= 20:
		return retryThenOK(r, i, true)
	case x == 9:
		return redirectChains(r, i)
	case x < 10:
		s := &session{Profile: "single", Callers: []callerSpec{genCaller(r, time.Duration(r.Intn(3))*time.Second, 0, 7, false)}}
		if r.Intn(5) == 0 {
			return withClientTimeout(r, s, false)
		}
		return s
	case x < 12: // long runs of failures: the exponential cap
		cs := callerSpec{CtxEnd: -1, API: r.Intn(3)}
		n := 9 + r.Intn(4)
		for j := 0; j < n; j++ {
			ev := evSpec{Dur: time.Duration(r.Intn(3)) * time.Millisecond, Kind: kTransport}
			switch r.Intn(5) {
			case 0:
				ev = evSpec{Kind: kResp, Code: 503}
			case 1:
				ev = evSpec{Kind: kResp, Code: 200, Parsable: false}
			case 2:
				ev = evSpec{Kind: kResp, Code: 429, RA: func() *string { s := "junk"; return &s }()}
			}
			dress(r, &ev)
			cs.Evs = append(cs.Evs, ev)
		}
		cs.Evs = append(cs.Evs, evSpec{Kind: kResp, Code: 200, Parsable: true, Form: "std"})
		if r.Intn(3) == 0 {
			cs.CtxEnd, cs.Cancel = time.Duration(100+r.Intn(900))*time.Second+500*time.Microsecond, r.Intn(2) == 0
		}
		return &session{Profile: "long-run", Callers: []callerSpec{cs}}
	case x < 15: // calls one after another on the same client; a cut wait leaves a pending back-off
		s := &session{Profile: "sequential"}
		start := time.Duration(0)
		n := 2 + r.Intn(2)
		for k := 0; k < n; k++ {
			cs := genCaller(r, start, k, 3, k < n-1)
			s.Callers = append(s.Callers, cs)
			gap := []time.Duration{time.Millisecond, 100 * time.Millisecond, time.Second, 3 * time.Second, 200 * time.Second}[r.Intn(5)]
			if cs.CtxEnd > start {
				start = cs.CtxEnd.Truncate(time.Millisecond) + gap
			} else {
				start += gap
			}
		}
		if r.Intn(5) == 0 {
			return withClientTimeout(r, s, false)
		}
		return s
	default: // concurrent callers sharing the client
		s := &session{Profile: "concurrent"}
		n := 2 + r.Intn(3)
		for k := 0; k < n; k++ {
			start := time.Duration(r.Intn(4)) * time.Duration([]int64{0, 1e6, 1e9, 3e9}[r.Intn(4)])
			s.Callers = append(s.Callers, genCaller(r, start, k, 3, true))
		}
		return s
	}
}

// an unbounded wait without a context end would never return: give such callers a deadline
func bound(s *session) {
	for k := range s.Callers {
		cs := &s.Callers[k]
		if cs.CtxEnd < 0 {
			cs.Profile = "far-deadline"
			cs.CtxEnd = 30*24*time.Hour + 500*time.Microsecond + time.Duration(k)*time.Microsecond
		}
	}
}

// ---------------------------------------------------------------- main

func TestHarness(t *testing.T) {
	if *lib.OutDir == "" {
		t.Skip("-out not given")
	}
	r := lib.Rand()
	w := lib.NewWriter(header, 120)
	n := lib.Count(500, 12000)
	nPaced := lib.Count(40, 600)  // a stream of its own after the others: long server-paced histories (pacedRun)
	nShared := lib.Count(40, 600) // and another: the server's pacing met by another submission of the same client (sharedPacing)
	var cur int
	var curSess *session
	done := make(chan struct{})
	progress := make(chan struct{}, 1)
	go func() { // real-time watchdog: a case that does not finish is an observable class
		for {
			select {
			case <-done:
				return
			case <-progress:
			case <-time.After(120 * time.Second):
				w.Add(lib.Case{Coq: "CSession [] [mkObs [] [] RPending 0]", Input: curSess, Impl: "hang",
					PropOK: false, Note: fmt.Sprintf("hang: case %d did not return within 120 s of real time", cur), Tags: []string{"result:hang"}})
				w.Close()
				os.Exit(0)
			}
		}
	}()
	for i := 0; i < n+nPaced+nShared; i++ {
		var s *session
		switch {
		case i < n:
			s = genSession(r, i)
		case i < n+nPaced:
			s = pacedRun(r, i)
		default:
			s = sharedPacing(r, i)
		}
		bound(s)
		finish(s)
		cur, curSess = i, s
		mrand.Seed(lib.Seed()*1000003 + int64(i)) // the client's jitter comes from the global source
		e, ok := runSession(t, s)
		if !ok {
			t.Fatalf("case %d: could not construct the client", i)
		}
		w.Add(buildCase(e, i))
		select {
		case progress <- struct{}{}:
		default:
		}
	}
	close(done)
	w.Close()
}
