// Hand-written DER and RFC 6962 helpers of the C03 harness: everything the direct oracles use as a
// reference is assembled here from the RFC texts, without the repository's asn1 / tls packages.
package main

import (
	"bytes"
	"encoding/binary"

	ct "github.com/google/certificate-transparency-go"
)

func derLen(n int) []byte {
	switch {
	case n < 0x80:
		return []byte{byte(n)}
	case n < 0x100:
		return []byte{0x81, byte(n)}
	case n < 0x10000:
		return []byte{0x82, byte(n >> 8), byte(n)}
	case n < 0x1000000:
		return []byte{0x83, byte(n >> 16), byte(n >> 8), byte(n)}
	}
	return []byte{0x84, byte(n >> 24), byte(n >> 16), byte(n >> 8), byte(n)}
}

func tlv(tag byte, content []byte) []byte {
	return append(append([]byte{tag}, derLen(len(content))...), content...)
}

// derOID encodes an OBJECT IDENTIFIER (X.690 8.19).
func derOID(arcs []int) []byte {
	var c []byte
	b128 := func(v int) {
		var t []byte
		t = append(t, byte(v&0x7f))
		for v >>= 7; v > 0; v >>= 7 {
			t = append(t, byte(v&0x7f)|0x80)
		}
		for i := len(t) - 1; i >= 0; i-- {
			c = append(c, t[i])
		}
	}
	b128(arcs[0]*40 + arcs[1])
	for _, a := range arcs[2:] {
		b128(a)
	}
	return tlv(0x06, c)
}

// readTLV takes one DER element apart (single identifier octet, definite length).
func readTLV(b []byte) (tag byte, content, rest []byte, ok bool) {
	if len(b) < 2 {
		return 0, nil, nil, false
	}
	n, i := int(b[1]), 2
	if n >= 0x80 {
		k := n & 0x7f
		if k == 0 || k > 4 || 2+k > len(b) {
			return 0, nil, nil, false
		}
		n = 0
		for j := 0; j < k; j++ {
			n = n<<8 | int(b[2+j])
		}
		i = 2 + k
	}
	if i+n > len(b) {
		return 0, nil, nil, false
	}
	return b[0], b[i : i+n], b[i+n:], true
}

// elemLen measures, in a TBSCertificate, the content length of one of the elements that the
// transformations re-encode: "tbs" (the TBSCertificate SEQUENCE), "wrap" (the [3] wrapper), "list"
// (the Extensions SEQUENCE), "ext" (the Extension SEQUENCE carrying oid) or "value" (its extnValue).
func elemLen(tbs []byte, elem string, oid []byte) (int, bool) {
	tag, body, rest, ok := readTLV(tbs)
	if !ok || tag != 0x30 || len(rest) != 0 {
		return 0, false
	}
	if elem == "tbs" {
		return len(body), true
	}
	var wrap []byte
	for len(body) > 0 {
		t, c, r, ok := readTLV(body)
		if !ok {
			return 0, false
		}
		if t == 0xa3 {
			wrap = c
		}
		body = r
	}
	if wrap == nil {
		return 0, false
	}
	if elem == "wrap" {
		return len(wrap), true
	}
	t, list, _, ok := readTLV(wrap)
	if !ok || t != 0x30 {
		return 0, false
	}
	if elem == "list" {
		return len(list), true
	}
	for len(list) > 0 {
		_, e, r, ok := readTLV(list)
		if !ok {
			return 0, false
		}
		list = r
		if !bytes.HasPrefix(e, oid) {
			continue
		}
		if elem == "ext" {
			return len(e), true
		}
		for f := e; len(f) > 0; {
			t, c, r2, ok := readTLV(f)
			if !ok {
				return 0, false
			}
			if t == 0x04 {
				return len(c), true
			}
			f = r2
		}
	}
	return 0, false
}

// handSCT is the RFC 6962 section 3.2 SignedCertificateTimestamp structure.
func handSCT(s *ct.SignedCertificateTimestamp) []byte {
	b := []byte{byte(s.SCTVersion)}
	b = append(b, s.LogID.KeyID[:]...)
	b = binary.BigEndian.AppendUint64(b, s.Timestamp)
	b = binary.BigEndian.AppendUint16(b, uint16(len(s.Extensions)))
	b = append(b, s.Extensions...)
	b = append(b, byte(s.Signature.Algorithm.Hash), byte(s.Signature.Algorithm.Signature))
	b = binary.BigEndian.AppendUint16(b, uint16(len(s.Signature.Signature)))
	return append(b, s.Signature.Signature...)
}

// handSCTListExt is the value of the embedded SCT list extension (RFC 6962 section 3.3): an OCTET
// STRING holding SignedCertificateTimestampList, opaque<1..2^16-1> elements in a <1..2^16-1> vector.
func handSCTListExt(scts []*ct.SignedCertificateTimestamp) []byte {
	var l []byte
	for _, s := range scts {
		e := handSCT(s)
		l = binary.BigEndian.AppendUint16(l, uint16(len(e)))
		l = append(l, e...)
	}
	return tlv(0x04, append(binary.BigEndian.AppendUint16(nil, uint16(len(l))), l...))
}

// handPrecertLeaf is the MerkleTreeLeaf of a precertificate entry (RFC 6962 section 3.4) without extensions.
func handPrecertLeaf(ts uint64, issuerKeyHash [32]byte, tbs []byte) []byte {
	b := []byte{0, 0}
	b = binary.BigEndian.AppendUint64(b, ts)
	b = append(b, 0, 1)
	b = append(b, issuerKeyHash[:]...)
	b = append(b, byte(len(tbs)>>16), byte(len(tbs)>>8), byte(len(tbs)))
	b = append(b, tbs...)
	return append(b, 0, 0)
}

// ---- a TBSCertificate taken apart by hand (reference of the pre-issuer route) ----

var (
	oidPoisonDER = []byte{0x2b, 0x06, 0x01, 0x04, 0x01, 0xd6, 0x79, 0x02, 0x04, 0x03} // 1.3.6.1.4.1.11129.2.4.3
	oidAKIDER    = []byte{0x55, 0x1d, 0x23}                                           // 2.5.29.35
)

// rawExt is one Extension: the content octets of its extnID, the octets between extnID and extnValue
// (empty, or the BOOLEAN critical exactly as it was written) and the content of the extnValue OCTET STRING.
type rawExt struct {
	oid, crit, val []byte
}

func (x rawExt) encode() []byte {
	return tlv(0x30, append(append(tlv(0x06, x.oid), x.crit...), tlv(0x04, x.val)...))
}

// rawTBS is a TBSCertificate as the list of its fields (complete TLVs, extensions field excluded)
// and its extensions.
type rawTBS struct {
	head    [][]byte
	exts    []rawExt
	hasExts bool
}

func parseRawTBS(tbs []byte) (t rawTBS, ok bool) {
	tag, body, rest, ok := readTLV(tbs)
	if !ok || tag != 0x30 || len(rest) != 0 {
		return t, false
	}
	for len(body) > 0 {
		ft, c, r, ok := readTLV(body)
		if !ok {
			return t, false
		}
		field := body[:len(body)-len(r)]
		body = r
		if ft != 0xa3 {
			t.head = append(t.head, field)
			continue
		}
		lt, list, lr, ok := readTLV(c)
		if !ok || lt != 0x30 || len(lr) != 0 || len(body) != 0 {
			return t, false
		}
		t.hasExts = true
		for len(list) > 0 {
			et, e, r2, ok := readTLV(list)
			if !ok || et != 0x30 {
				return t, false
			}
			list = r2
			ot, oid, after, ok := readTLV(e)
			if !ok || ot != 0x06 {
				return t, false
			}
			x := rawExt{oid: oid}
			vt, v, vr, ok := readTLV(after)
			if ok && vt == 0x01 {
				x.crit = after[:len(after)-len(vr)]
				vt, v, vr, ok = readTLV(vr)
			}
			if !ok || vt != 0x04 || len(vr) != 0 {
				return t, false
			}
			x.val = v
			t.exts = append(t.exts, x)
		}
	}
	return t, true
}

func (t rawTBS) encode() []byte {
	var body []byte
	for _, f := range t.head {
		body = append(body, f...)
	}
	if t.hasExts {
		var list []byte
		for _, x := range t.exts {
			list = append(list, x.encode()...)
		}
		body = append(body, tlv(0xa3, tlv(0x30, list))...)
	}
	return tlv(0x30, body)
}

// issuerAt is the position of the issuer among the fields: after [0] version (when present),
// serialNumber and signature.
func (t rawTBS) issuerAt() int {
	if len(t.head) > 0 && t.head[0][0] == 0xa0 {
		return 3
	}
	return 2
}

// certTBS is the TBSCertificate of a DER Certificate.
func certTBS(der []byte) []byte {
	tag, body, _, ok := readTLV(der)
	if !ok || tag != 0x30 {
		return nil
	}
	_, _, r, ok := readTLV(body)
	if !ok {
		return nil
	}
	return body[:len(body)-len(r)]
}

// handPreIssuerTBS states RFC 6962 section 3.2 for a precertificate signed by a precertificate signing
// certificate, on the octets: the TBSCertificate of the entry is the precertificate's TBSCertificate
// without its (one) poison extension, with the issuer field replaced by the issuer field of the signing
// certificate and the VALUE of the authority key identifier extension replaced by the value of the signing
// certificate's authority key identifier; every other octet (every other field, every other extension,
// the order, the critical flag of each extension including the authority key identifier's) stays what it
// was, only the enclosing lengths are written anew.  Where one side has no authority key identifier the
// convention of BuildPrecertTBS applies: the precertificate's is removed when the signing certificate has
// none, and a non-critical one is appended at the end when only the signing certificate has one.
func handPreIssuerTBS(precertTBS, preIssuerDER []byte) ([]byte, bool) {
	t, ok := parseRawTBS(precertTBS)
	p, ok2 := parseRawTBS(certTBS(preIssuerDER))
	if !ok || !ok2 || len(t.head) <= t.issuerAt() || len(p.head) <= p.issuerAt() {
		return nil, false
	}
	var kept []rawExt
	poison := 0
	for _, x := range t.exts {
		if bytes.Equal(x.oid, oidPoisonDER) {
			poison++
			continue
		}
		kept = append(kept, x)
	}
	if poison != 1 {
		return nil, false
	}
	t.exts = kept
	t.head = append([][]byte{}, t.head...)
	t.head[t.issuerAt()] = p.head[p.issuerAt()]
	var aki []byte
	hasAKI := false
	for _, x := range p.exts {
		if bytes.Equal(x.oid, oidAKIDER) {
			aki, hasAKI = x.val, true
			break
		}
	}
	at := -1
	for k, x := range t.exts {
		if bytes.Equal(x.oid, oidAKIDER) {
			at = k
			break
		}
	}
	switch {
	case at >= 0 && hasAKI:
		t.exts[at].val = aki
	case at >= 0:
		t.exts = append(t.exts[:at:at], t.exts[at+1:]...)
	case hasAKI:
		t.exts = append(t.exts, rawExt{oid: oidAKIDER, val: aki})
	}
	return t.encode(), true
}

// handSCTSigInput is the input of the signature of an SCT over a precertificate entry (RFC 6962
// section 3.2, digitally-signed struct with signature_type certificate_timestamp).
func handSCTSigInput(ts uint64, issuerKeyHash [32]byte, tbs, extensions []byte) []byte {
	b := []byte{0, 0} // sct_version v1, signature_type certificate_timestamp
	b = binary.BigEndian.AppendUint64(b, ts)
	b = append(b, 0, 1) // entry_type precert_entry
	b = append(b, issuerKeyHash[:]...)
	b = append(b, byte(len(tbs)>>16), byte(len(tbs)>>8), byte(len(tbs)))
	b = append(b, tbs...)
	b = binary.BigEndian.AppendUint16(b, uint16(len(extensions)))
	return append(b, extensions...)
}

// oidArcs decodes the content octets of an OBJECT IDENTIFIER (X.690 8.19).
func oidArcs(c []byte) []int {
	var out []int
	v := 0
	for _, b := range c {
		v = v<<7 | int(b&0x7f)
		if b&0x80 != 0 {
			continue
		}
		if len(out) == 0 {
			switch {
			case v < 40:
				out = append(out, 0, v)
			case v < 80:
				out = append(out, 1, v-40)
			default:
				out = append(out, 2, v-80)
			}
		} else {
			out = append(out, v)
		}
		v = 0
	}
	return out
}

// recodeName writes an RDNSequence anew with every PrintableString attribute value as a UTF8String of the
// same characters: the same name for every comparison of RFC 5280 section 7.1, other octets.
func recodeName(name []byte) ([]byte, bool) {
	tag, body, rest, ok := readTLV(name)
	if !ok || tag != 0x30 || len(rest) != 0 {
		return nil, false
	}
	var out []byte
	changed := false
	for len(body) > 0 {
		st, set, r2, ok := readTLV(body)
		if !ok || st != 0x31 {
			return nil, false
		}
		body = r2
		var setOut []byte
		for len(set) > 0 {
			at, atv, r3, ok := readTLV(set)
			if !ok || at != 0x30 {
				return nil, false
			}
			set = r3
			ot, oid, val, ok := readTLV(atv)
			if !ok || ot != 0x06 {
				return nil, false
			}
			vt, vc, r4, ok := readTLV(val)
			if !ok || len(r4) != 0 {
				return nil, false
			}
			if vt == 0x13 {
				vt, changed = 0x0c, true
			}
			setOut = append(setOut, tlv(0x30, append(tlv(0x06, oid), tlv(vt, vc)...))...)
		}
		out = append(out, tlv(0x31, setOut)...)
	}
	return tlv(0x30, out), changed
}
