(* L2 + L3 of the ASN.1 model: primitive contents.  asn1.go parseBool, checkInteger, parseInt64,
   parseInt32, parseBigInt, parseBitString, parseObjectIdentifier, the string parsers, parseUTCTime /
   parseGeneralizedTime (digit-level, with the calendar checks time.Parse performs and the
   "serialises back to the input" check), and the matching encoders of marshal.go.
   [lax] is the fork's relaxation flag; D3 = upstream accepts fractional seconds in GeneralizedTime.
   Definitions only. *)
From Coq Require Import ZArith NArith List Bool Lia.
From Coq.Strings Require Import Byte.
From V Require Import Base.Bytes ASN1.DerBase ASN1.DerHeader.
Import ListNotations.
Local Open Scope Z_scope.

(* ------------------------------------------------------------------ BOOLEAN *)

Definition parse_bool (c : bytes) : res bool :=
  match c with
  | [b] => if bz b =? 0 then Ok false else if bz b =? 255 then Ok true else ErrSyntax
  | _ => ErrSyntax
  end.

(* ------------------------------------------------------------------ INTEGER *)

Definition check_integer (lax : bool) (c : bytes) : res unit :=
  match c with
  | [] => ErrStruct                                            (* empty integer *)
  | [_] => Ok tt
  | b0 :: b1 :: _ =>
      if lax then Ok tt
      else if ((bz b0 =? 0) && (bz b1 <? 128)) || ((bz b0 =? 255) && (128 <=? bz b1))
           then ErrStruct                                      (* not minimally-encoded *)
           else Ok tt
  end.

Fixpoint be_z_acc (acc : Z) (c : bytes) : Z :=
  match c with [] => acc | b :: r => be_z_acc (acc * 256 + bz b) r end.
Definition be_z (c : bytes) : Z := be_z_acc 0 c.
(* big-endian two's complement *)
Definition be_signed (c : bytes) : Z :=
  match c with
  | [] => 0
  | b :: _ => if bz b <? 128 then be_z c else be_z c - 256 ^ zlen c
  end.

(* the check is an abstract component so that two relaxation levels can be related *)
Definition parse_int64_with (chk : bytes -> res unit) (c : bytes) : res Z :=
  bind (chk c) (fun _ => if zlen c >? 8 then ErrStruct else Ok (be_signed c)).
Definition parse_int32_with (chk : bytes -> res unit) (c : bytes) : res Z :=
  bind (chk c) (fun _ =>
  bind (parse_int64_with chk c) (fun v =>
  if (v <? -2147483648) || (2147483647 <? v) then ErrStruct else Ok v)).
Definition parse_bigint_with (chk : bytes -> res unit) (c : bytes) : res Z :=
  bind (chk c) (fun _ => Ok (be_signed c)).

(* ------------------------------------------------------------------ BIT STRING *)

Definition last_byte (c : bytes) : Z := bz (last c x00).

Definition parse_bitstring (c : bytes) : res (bytes * Z) :=
  match c with
  | [] => ErrSyntax                                            (* zero length BIT STRING *)
  | p :: body =>
      let pad := bz p in
      if (pad >? 7) || ((zlen c =? 1) && (pad >? 0)) || negb (last_byte c mod 2 ^ pad =? 0)
      then ErrSyntax                                           (* invalid padding bits *)
      else Ok (body, (zlen c - 1) * 8 - pad)
  end.

(* ------------------------------------------------------------------ OBJECT IDENTIFIER *)

Fixpoint oid_rest (b128 : bytes -> res (Z * bytes)) (fuel : nat) (d : bytes) : res (list Z) :=
  match d with
  | [] => Ok []
  | _ :: _ =>
      match fuel with
      | O => Hang
      | S f => bind (b128 d) (fun vr => bind (oid_rest b128 f (snd vr)) (fun l => Ok (fst vr :: l)))
      end
  end.

Definition parse_oid (b128 : bytes -> res (Z * bytes)) (lax : bool) (c : bytes) : res (list Z) :=
  match c with
  | [] => if lax then Ok [] else ErrSyntax                     (* zero length OBJECT IDENTIFIER *)
  | _ :: _ =>
      bind (b128 c) (fun vr =>
      let v := fst vr in
      bind (oid_rest b128 (length c) (snd vr)) (fun l =>
      Ok ((if v <? 80 then [v / 40; v mod 40] else [2; v - 80]) ++ l)))
  end.

(* ------------------------------------------------------------------ strings *)

Definition in_range (lo hi x : Z) : bool := (lo <=? x) && (x <=? hi).

Definition is_printable (asterisk ampersand : bool) (b : byte) : bool :=
  let x := bz b in
  in_range 97 122 x || in_range 65 90 x || in_range 48 57 x || in_range 39 41 x || in_range 43 47 x ||
  (x =? 32) || (x =? 58) || (x =? 61) || (x =? 63) || (asterisk && (x =? 42)) || (ampersand && (x =? 38)).

Definition is_numeric (b : byte) : bool := in_range 48 57 (bz b) || (bz b =? 32).

Definition could_be_iso8859_1 (c : bytes) : bool :=
  forallb (fun b => negb ((bz b <? 32) || ((127 <=? bz b) && (bz b <? 160)))) c.

Definition t61_invalid : list Z :=
  [0; 35; 36; 92; 94; 96; 123; 125; 126; 165; 166; 172; 173; 174; 175; 185; 186; 192; 201; 208; 209; 210; 211;
   212; 213; 214; 215; 216; 217; 218; 219; 220; 222; 223; 229; 255].
Definition could_be_t61 (c : bytes) : bool :=
  forallb (fun b => negb (existsb (Z.eqb (bz b)) t61_invalid)) c.

(* utf8.EncodeRune / string(rune) *)
Definition encode_rune (r : Z) : bytes :=
  if r <? 0 then [xef; xbf; xbd]
  else if r <? 128 then [zb r]
  else if r <? 2048 then [zb (192 + r / 64); zb (128 + r mod 64)]
  else if in_range 55296 57343 r || (1114111 <? r) then [xef; xbf; xbd]
  else if r <? 65536 then [zb (224 + r / 4096); zb (128 + (r / 64) mod 64); zb (128 + r mod 64)]
  else [zb (240 + r / 262144); zb (128 + (r / 4096) mod 64); zb (128 + (r / 64) mod 64); zb (128 + r mod 64)].

Definition iso8859_1_to_utf8 (c : bytes) : bytes := flat_map (fun b => encode_rune (bz b)) c.

Definition parse_printable (lax : bool) (c : bytes) : res bytes :=
  if forallb (is_printable true true) c then Ok c
  else if negb lax then ErrSyntax
  else if could_be_iso8859_1 c then Ok (iso8859_1_to_utf8 c)
  else if could_be_t61 c then Ok c
  else ErrSyntax.

Definition parse_numeric (c : bytes) : res bytes := if forallb is_numeric c then Ok c else ErrSyntax.
Definition parse_ia5 (c : bytes) : res bytes := if forallb (fun b => bz b <? 128) c then Ok c else ErrSyntax.
Definition parse_t61 (c : bytes) : res bytes := Ok c.

(* utf8.Valid *)
Definition cont (b : byte) : bool := in_range 128 191 (bz b).
Fixpoint utf8_valid (c : bytes) : bool :=
  match c with
  | [] => true
  | b0 :: r =>
      let x := bz b0 in
      if x <? 128 then utf8_valid r
      else if in_range 194 223 x then
        match r with b1 :: r1 => cont b1 && utf8_valid r1 | _ => false end
      else if in_range 224 239 x then
        match r with
        | b1 :: b2 :: r2 =>
            (if x =? 224 then in_range 160 191 (bz b1) else if x =? 237 then in_range 128 159 (bz b1) else cont b1)
            && cont b2 && utf8_valid r2
        | _ => false
        end
      else if in_range 240 244 x then
        match r with
        | b1 :: b2 :: b3 :: r3 =>
            (if x =? 240 then in_range 144 191 (bz b1) else if x =? 244 then in_range 128 143 (bz b1) else cont b1)
            && cont b2 && cont b3 && utf8_valid r3
        | _ => false
        end
      else false
  end.
Definition parse_utf8 (c : bytes) : res bytes := if utf8_valid c then Ok c else ErrOther.

(* BMPString: UTF-16 big-endian code units, utf16.Decode, string(runes) *)
Fixpoint bmp_units (c : bytes) : list Z :=
  match c with
  | a :: b :: r => (bz a * 256 + bz b) :: bmp_units r
  | _ => []
  end.
Fixpoint utf16_decode (u : list Z) : list Z :=
  match u with
  | [] => []
  | a :: r =>
      if in_range 55296 56319 a then
        match r with
        | b :: r' => if in_range 56320 57343 b then ((a - 55296) * 1024 + (b - 56320) + 65536) :: utf16_decode r'
                     else 65533 :: utf16_decode r
        | [] => [65533]
        end
      else if in_range 56320 57343 a then 65533 :: utf16_decode r
      else a :: utf16_decode r
  end.
Definition strip_bmp_terminator (c : bytes) : bytes :=
  let n := length c in
  if (2 <=? n)%nat && (bz (nth (n - 1) c x01) =? 0) && (bz (nth (n - 2) c x01) =? 0) then firstn (n - 2) c else c.
Definition parse_bmp (c : bytes) : res bytes :=
  if Nat.odd (length c) then ErrOther
  else Ok (flat_map encode_rune (utf16_decode (bmp_units (strip_bmp_terminator c)))).

(* ------------------------------------------------------------------ time *)

Record vtime := mkTime { tm_year : Z; tm_month : Z; tm_day : Z; tm_hour : Z; tm_min : Z; tm_sec : Z; tm_nsec : Z; tm_off : Z }.
Definition zero_time : vtime := mkTime 1 1 1 0 0 0 0 0.

Definition is_digit (b : byte) : bool := in_range 48 57 (bz b).
Definition dig (b : byte) : Z := bz b - 48.

Definition two_digits (d : bytes) : option (Z * bytes) :=
  match d with
  | a :: b :: r => if is_digit a && is_digit b then Some (dig a * 10 + dig b, r) else None
  | _ => None
  end.
Definition four_digits (d : bytes) : option (Z * bytes) :=
  match two_digits d with
  | Some (hi, r) => match two_digits r with Some (lo, r') => Some (hi * 100 + lo, r') | None => None end
  | None => None
  end.

Definition is_leap (y : Z) : bool := (y mod 4 =? 0) && (negb (y mod 100 =? 0) || (y mod 400 =? 0)).
Definition days_in (m y : Z) : Z :=
  if m =? 2 then (if is_leap y then 29 else 28)
  else if (m =? 4) || (m =? 6) || (m =? 9) || (m =? 11) then 30 else 31.

(* fraction: '.' then 1..9 digits, the last one not '0' (what Format(".999999999") writes back) *)
Fixpoint frac_digits (n : nat) (acc : Z) (d : bytes) : Z * nat * bytes :=     (* value, digits read, rest *)
  match n, d with
  | S n', b :: r => if is_digit b then let '(v, k, r') := frac_digits n' (acc * 10 + dig b) r in (v, S k, r')
                    else (acc, O, d)
  | _, _ => (acc, O, d)
  end.
Definition last_digit_nonzero (k : nat) (d : bytes) : bool :=
  match k with O => false | S k' => negb (bz (nth k' d x30) =? 48) end.
Definition parse_fraction (allow : bool) (d : bytes) : option (Z * bytes) :=
  match d with
  | p :: r =>
      if bz p =? 46 then
        if allow then
          let '(v, k, r') := frac_digits 9 0 r in
          if last_digit_nonzero k r then Some (v * 10 ^ (9 - Z.of_nat k), r') else None
        else None
      else Some (0, d)
  | [] => Some (0, d)
  end.

(* "Z0700": 'Z', or a sign and hhmm that Format would write back unchanged *)
Definition parse_zone (d : bytes) : option Z :=
  match d with
  | [z] => if bz z =? 90 then Some 0 else None
  | s :: r =>
      if (bz s =? 43) || (bz s =? 45) then
        match two_digits r with
        | Some (hh, r1) =>
            match two_digits r1 with
            | Some (mm, []) =>
                if (hh <=? 24) && (mm <? 60) && negb ((hh =? 0) && (mm =? 0))
                then Some ((if bz s =? 43 then 1 else -1) * (hh * 60 + mm) * 60) else None
            | _ => None
            end
        | None => None
        end
      else None
  | [] => None
  end.

(* one layout: [long] = four-digit year, [secs] = seconds field present, [frac] = fraction allowed *)
Definition parse_time_layout (long secs frac : bool) (c : bytes) : option vtime :=
  match (if long then four_digits c
         else match two_digits c with Some (yy, r) => Some (if 69 <=? yy then 1900 + yy else 2000 + yy, r) | None => None end) with
  | None => None
  | Some (year, r0) =>
  match two_digits r0 with None => None | Some (mon, r1) =>
  match two_digits r1 with None => None | Some (day, r2) =>
  match two_digits r2 with None => None | Some (hh, r3) =>
  match two_digits r3 with None => None | Some (mi, r4) =>
  match (if secs then two_digits r4 else Some (0, r4)) with None => None | Some (ss, r5) =>
  match (if secs then parse_fraction frac r5 else Some (0, r5)) with None => None | Some (ns, r6) =>
  match parse_zone r6 with None => None | Some off =>
    if (1 <=? mon) && (mon <=? 12) && (1 <=? day) && (day <=? days_in mon year) && (hh <? 24) && (mi <? 60) && (ss <? 60)
    then Some (mkTime year mon day hh mi ss ns off) else None
  end end end end end end end
  end.

Definition parse_utctime (c : bytes) : res vtime :=
  match (match parse_time_layout false false false c with Some t => Some t | None => parse_time_layout false true false c end) with
  | Some t => Ok (if 2050 <=? tm_year t then mkTime (tm_year t - 100) (tm_month t) (tm_day t) (tm_hour t) (tm_min t) (tm_sec t) (tm_nsec t) (tm_off t) else t)
  | None => ErrOther
  end.

Definition parse_gentime (frac : bool) (c : bytes) : res vtime :=
  match parse_time_layout true true frac c with Some t => Ok t | None => ErrOther end.

(* ------------------------------------------------------------------ the variant/lax dependent components *)

Record leaves := mkLeaves {
  l_b128 : bytes -> res (Z * bytes);
  l_int_check : bytes -> res unit;
  l_oid : bytes -> res (list Z);
  l_printable : bytes -> res bytes;
  l_gentime : bytes -> res vtime }.

Definition eff_lax (v : variant) (lax : bool) : bool := match v with Fork => lax | Upstream => false end.

Definition leaves_of (v : variant) (lax : bool) : leaves :=
  {| l_b128 := parse_base128 v;
     l_int_check := check_integer (eff_lax v lax);
     l_oid := parse_oid (parse_base128 v) (eff_lax v lax);
     l_printable := parse_printable (eff_lax v lax);
     l_gentime := parse_gentime (is_upstream v) |}.

(* ------------------------------------------------------------------ encoders (marshal.go) *)

(* int64Encoder: minimal two's complement *)
Fixpoint int_enc_f (fuel : nat) (i : Z) : bytes :=
  match fuel with
  | O => [zb i]
  | S f => if (i >? 127) || (i <? -128) then int_enc_f f (i / 256) ++ [zb i] else [zb i]
  end.
Definition int64_enc (i : Z) : bytes := int_enc_f 8 i.
(* makeBigInt: the same minimal form, any size *)
Definition bigint_enc (i : Z) : bytes := int_enc_f (Z.to_nat (Z.log2 (Z.abs i) / 8 + 1)) i.

Definition bitstring_enc (body : bytes) (bitlen : Z) : bytes := zb ((8 - bitlen mod 8) mod 8) :: body.

(* makeObjectIdentifier *)
Definition oid_enc (oid : list Z) : res bytes :=
  match oid with
  | a :: b :: r =>
      if (2 <? a) || ((a <? 2) && (40 <=? b)) then ErrStruct
      else Ok (append_base128 (a * 40 + b) ++ flat_map append_base128 r)
  | _ => ErrStruct
  end.

Definition two_dig (v : Z) : bytes := [zb (48 + (v / 10) mod 10); zb (48 + v mod 10)].
Definition four_dig (v : Z) : bytes := [zb (48 + (v / 1000) mod 10); zb (48 + (v / 100) mod 10); zb (48 + (v / 10) mod 10); zb (48 + v mod 10)].

Definition time_common (t : vtime) : bytes :=
  two_dig (tm_month t) ++ two_dig (tm_day t) ++ two_dig (tm_hour t) ++ two_dig (tm_min t) ++ two_dig (tm_sec t) ++
  (let om := Z.quot (tm_off t) 60 in
   if om =? 0 then [x5a]
   else (if 0 <? tm_off t then [x2b] else [x2d]) ++ two_dig (Z.abs om / 60) ++ two_dig (Z.abs om mod 60)).

Definition outside_utc (t : vtime) : bool := (tm_year t <? 1950) || (2050 <=? tm_year t).
Definition utctime_enc (t : vtime) : res bytes :=
  let y := tm_year t in
  if (1950 <=? y) && (y <? 2000) then Ok (two_dig (y - 1900) ++ time_common t)
  else if (2000 <=? y) && (y <? 2050) then Ok (two_dig (y - 2000) ++ time_common t)
  else ErrStruct.
Definition gentime_enc (t : vtime) : res bytes :=
  if (tm_year t <? 0) || (9999 <? tm_year t) then ErrStruct else Ok (four_dig (tm_year t) ++ time_common t).
