// SubjectPublicKeyInfo encodings that are NOT what an encoder of the parsed key emits.
//
// harness/pki issues every certificate with the repository's own CreateCertificate, which encodes
// the public key itself: every SubjectPublicKeyInfo of the test PKI used to be in the one form
// Go's encoder writes, so "hash / copy the bytes as they stand in the certificate" and "encode the
// parsed key again and hash / copy that" were the same function on every input.  RFC 6962 3.2
// defines issuer_key_hash over the issuer's SubjectPublicKeyInfo as it stands, and the entry's
// TBSCertificate carries the leaf's SubjectPublicKeyInfo byte for byte.  Real CA certificates have
// RSA keys whose AlgorithmIdentifier lacks the NULL parameters, or whose INTEGERs are padded; the
// repository's parser accepts them (non-fatal error).  Certificates with an RSA key are therefore
// re-issued here with such an encoding of the same key: the SubjectPublicKeyInfo field of the
// TBSCertificate is replaced by hand and the TBSCertificate signed again by the issuer's key.  The
// oracle reads the field back out of the certificate's DER with the hand-written walk (handSPKI),
// never through a parser's or an encoder's view of the key.
package main

import (
	"bytes"
	"crypto"
	"crypto/rand"
	"crypto/sha256"
	"crypto/sha512"
	"fmt"
	mrand "math/rand"

	"github.com/google/certificate-transparency-go/x509"

	"verif/harness/pki"
)

// spkiStyles: "canonical" = what the encoder emits (left alone); the others apply to RSA keys.
var spkiStyles = []string{"canonical", "rsa-params-absent", "rsa-modulus-padded", "rsa-exponent-padded", "rsa-params-absent+modulus-padded"}

// drawSPKIStyle: two in three RSA keys get an encoding the encoder would not emit.
func drawSPKIStyle(r *mrand.Rand, kind string) string {
	if kind != "rsa2048" || r.Intn(3) == 0 {
		return "canonical"
	}
	return spkiStyles[1+r.Intn(len(spkiStyles)-1)]
}

// handSPKI: the subjectPublicKeyInfo element of a certificate, byte for byte, without any parser
// of the repository or of the standard library.
func handSPKI(certDER []byte) []byte {
	f, i, ok := tbsFields(certDER)
	if !ok {
		panic("harness certificate does not split into TBSCertificate fields")
	}
	return f[i+5]
}

// rsaSPKIVariant re-assembles SubjectPublicKeyInfo ::= SEQUENCE { SEQUENCE { rsaEncryption, NULL },
// BIT STRING { SEQUENCE { INTEGER n, INTEGER e } } } of the same key in the given style.
func rsaSPKIVariant(canon []byte, style string) []byte {
	fail := func() { panic("not the RSA SubjectPublicKeyInfo the encoder writes") }
	tag, body, _, rest, ok := derNext(canon)
	if !ok || tag != 0x30 || len(rest) != 0 {
		fail()
	}
	parts, ok := derChildren(body)
	if !ok || len(parts) != 2 {
		fail()
	}
	_, algBody, _, _, ok := derNext(parts[0])
	algParts, ok2 := derChildren(algBody)
	if !ok || !ok2 || len(algParts) != 2 || !bytes.Equal(algParts[1], []byte{0x05, 0x00}) {
		fail()
	}
	btag, bits, _, _, ok := derNext(parts[1])
	if !ok || btag != 0x03 || len(bits) < 1 || bits[0] != 0 {
		fail()
	}
	ktag, keyBody, _, krest, ok := derNext(bits[1:])
	if !ok || ktag != 0x30 || len(krest) != 0 {
		fail()
	}
	ints, ok := derChildren(keyBody)
	if !ok || len(ints) != 2 {
		fail()
	}
	pad := func(integer []byte) []byte { // one more leading zero octet than DER allows
		_, c, _, _, _ := derNext(integer)
		return hTLV(0x02, append([]byte{0x00}, c...))
	}
	alg, n, e := parts[0], ints[0], ints[1]
	switch style {
	case "rsa-params-absent":
		alg = hTLV(0x30, algParts[0])
	case "rsa-modulus-padded":
		n = pad(n)
	case "rsa-exponent-padded":
		e = pad(e)
	case "rsa-params-absent+modulus-padded":
		alg, n = hTLV(0x30, algParts[0]), pad(n)
	default:
		panic("unknown SubjectPublicKeyInfo style " + style)
	}
	key := hTLV(0x30, append(append([]byte{}, n...), e...))
	return hTLV(0x30, append(append([]byte{}, alg...), hTLV(0x03, append([]byte{0x00}, key...))...))
}

// respki re-issues e with its SubjectPublicKeyInfo in the given style: same TBSCertificate field
// for field except that one, signed again by signer (the issuer's key; e's own for a self-signed
// certificate) with the algorithm the certificate names.
func respki(e *pki.Entity, signer crypto.Signer, style string) *pki.Entity {
	if style == "canonical" {
		return e
	}
	tag, body, _, rest, ok := derNext(e.DER)
	if !ok || tag != 0x30 || len(rest) != 0 {
		panic("certificate is not one SEQUENCE")
	}
	outer, ok := derChildren(body)
	if !ok || len(outer) != 3 {
		panic("certificate does not have three elements")
	}
	fields, i, ok := tbsFields(e.DER)
	if !ok {
		panic("certificate does not split into TBSCertificate fields")
	}
	spki := rsaSPKIVariant(fields[i+5], style)
	var tbsBody []byte
	for k, f := range fields {
		if k == i+5 {
			f = spki
		}
		tbsBody = append(tbsBody, f...)
	}
	tbs := hTLV(0x30, tbsBody)
	var h crypto.Hash
	var digest []byte
	switch e.Cert.SignatureAlgorithm {
	case x509.ECDSAWithSHA256, x509.SHA256WithRSA:
		d := sha256.Sum256(tbs)
		h, digest = crypto.SHA256, d[:]
	case x509.ECDSAWithSHA384, x509.SHA384WithRSA:
		d := sha512.Sum384(tbs)
		h, digest = crypto.SHA384, d[:]
	case x509.ECDSAWithSHA512, x509.SHA512WithRSA:
		d := sha512.Sum512(tbs)
		h, digest = crypto.SHA512, d[:]
	default:
		panic(fmt.Sprintf("respki: signature algorithm %v", e.Cert.SignatureAlgorithm))
	}
	sig, err := signer.Sign(rand.Reader, digest, h) // ECDSA: ASN.1; RSA: PKCS #1 v1.5
	if err != nil {
		panic(err)
	}
	der := hTLV(0x30, append(append(append([]byte{}, tbs...), outer[1]...), hTLV(0x03, append([]byte{0x00}, sig...))...))
	c, err := x509.ParseCertificate(der)
	if err != nil && x509.IsFatal(err) {
		panic(fmt.Sprintf("respki(%s): the certificate does not parse: %v", style, err))
	}
	if !bytes.Equal(handSPKI(der), spki) || bytes.Equal(spki, fields[i+5]) {
		panic("respki: the SubjectPublicKeyInfo is not the one assembled here")
	}
	return &pki.Entity{Cert: c, DER: der, Key: e.Key}
}
