(* T1 tie for C02: the budget test of x509/verify.go buildChains (`*sigChecks > maxChainSignatureChecks`, constant
   100 in the same file), translated by gofrag on every run (coq/gen/Verify.v), is the model's over_budget
   (CTFE/ChainModel.v) - constant and comparison direction included. *)
From Coq Require Import ZArith Arith Bool Lia.
From V Require Import Base.GoInt gen.Verify CTFE.ChainModel.

Lemma over_budget_meaning s : over_budget s = sig_budget_exceeded_gen (Z.of_nat (s_checks s)).
Proof.
  unfold over_budget, sig_budget_exceeded_gen, max_chain_signature_checks.
  destruct (Nat.ltb_spec 100 (s_checks s)); destruct (Z.gtb_spec (Z.of_nat (s_checks s)) 100); try reflexivity; lia.
Qed.
