package main

// Certificates (real ones, from verif/harness/pki), the clients under test, the synctest
// bubble every call runs in, and the classification of what a call returned.

import (
	"bytes"
	"context"
	"crypto/sha256"
	stdx509 "crypto/x509"
	"encoding/asn1"
	"encoding/hex"
	"fmt"
	"math/big"
	"net/http"
	"strings"
	"testing"
	"testing/synctest"
	"time"

	ct "github.com/google/certificate-transparency-go"
	"github.com/google/certificate-transparency-go/client"
	"github.com/google/certificate-transparency-go/client/configpb"
	"github.com/google/certificate-transparency-go/jsonclient"
	"github.com/google/certificate-transparency-go/x509"
	"github.com/google/certificate-transparency-go/x509/pkix"

	"verif/harness/lib"
	"verif/harness/pki"
)

type pkixExt = pkix.Extension

type chainFix struct {
	name  string
	certs [][]byte
	// ref: the RFC 6962 precert_entry of this chain, put together BY HAND from what the harness's
	// PKI knows (see issuePre): the issuer key hash of the CA that really issues the final
	// certificate and the TBSCertificate of that final certificate.  nil: not a precertificate
	// chain of known provenance.
	ref *entry
	// alts: entries that a log (or a client) deriving the entry WRONGLY would come to: the key
	// hash of another certificate of the chain, a TBSCertificate that still names the
	// Precertificate Signing Certificate, the poisoned TBSCertificate
	alts []altEntry
}

type altEntry struct {
	name string
	e    *entry
}

// tbsOf cuts the TBSCertificate out of a certificate with encoding/asn1 (no X.509 parser involved)
func tbsOf(der []byte) []byte {
	var outer, tbs asn1.RawValue
	if rest, err := asn1.Unmarshal(der, &outer); err != nil || len(rest) != 0 || outer.Tag != 16 || !outer.IsCompound {
		panic("c12: not a certificate")
	}
	if _, err := asn1.Unmarshal(outer.Bytes, &tbs); err != nil || tbs.Tag != 16 || !tbs.IsCompound {
		panic("c12: no TBSCertificate")
	}
	return tbs.FullBytes
}

// keyHashOf: SHA-256 of the SubjectPublicKeyInfo a certificate carries, read with crypto/x509
func keyHashOf(der []byte) ([]byte, bool) {
	c, err := stdx509.ParseCertificate(der)
	if err != nil {
		return nil, false
	}
	h := sha256.Sum256(c.RawSubjectPublicKeyInfo)
	return h[:], true
}

var preSerial int64 = 770000

// issuePre issues a precertificate (the options plus the poison extension) signed by [signerCA],
// and its FINAL-CERTIFICATE TWIN: the same options without the poison, the same serial number,
// issued by [realCA] - the CA itself, or the CA above a Precertificate Signing Certificate.  RFC
// 6962 s3.2: the precert_entry is the issuer key hash of the CA that issues the final certificate
// and "the DER encoded TBSCertificate component of the Precertificate - that is, without the
// signature and the poison extension [...] the Precertificate's issuer and Authority Key
// Identifier changed to those of the final issuer": exactly the twin's TBSCertificate.  The
// reference uses neither ct.MerkleTreeLeafFromRawChain nor x509.BuildPrecertTBS.
func issuePre(o pki.Opts, signerCA, realCA *pki.Entity) (*pki.Entity, *entry) {
	if o.Serial == nil {
		preSerial++
		o.Serial = big.NewInt(preSerial)
	}
	fo := o
	po := o
	po.ExtraExt = append(append([]pkixExt{}, o.ExtraExt...), pki.PoisonExt())
	pre := pki.Issue(po, signerCA)
	fin := pki.Issue(fo, realCA)
	ikh, ok := keyHashOf(realCA.DER)
	if !ok {
		panic("c12: crypto/x509 does not parse the CA certificate")
	}
	return pre, &entry{precert: true, ikh: ikh, tbs: tbsOf(fin.DER)}
}

// altsOf: the wrong entries for a precertificate chain with reference [ref]
func altsOf(certs [][]byte, ref *entry, more ...altEntry) []altEntry {
	var out []altEntry
	for k, c := range certs {
		if h, ok := keyHashOf(c); ok && !bytes.Equal(h, ref.ikh) {
			out = append(out, altEntry{fmt.Sprintf("issuer-key-hash-is-of-chain[%d]", k), &entry{precert: true, ikh: h, tbs: ref.tbs}})
		}
	}
	out = append(out, altEntry{"tbs-still-poisoned", &entry{precert: true, ikh: ref.ikh, tbs: tbsOf(certs[0])}})
	return append(out, more...)
}

type fixtures struct {
	keys    []*logKey // log keys the client may be configured with
	foreign []*logKey // same kinds, other keys
	chains  []chainFix
	root    *pki.Entity
	inter   *pki.Entity
	leaf    *pki.Entity
	pre     *pki.Entity
	quirks  []quirkFix   // certificates / precertificates the parser accepts with a NON-fatal error
	dated   []datedChain // chains whose head expires around the shard boundaries (multishard_test.go)
}

// quirkFix: a certificate and a precertificate carrying a tolerated quirk (x509.NonFatalErrors),
// both issued by the fixtures' intermediate.  [tbs] is the precertificate's log entry.
type quirkFix struct {
	name string
	cert []byte
	pre  []byte
	tbs  *entry // nil: the TBS of the precertificate does not have a non-fatal parse class
}

// quirk candidates: extensions of real-world certificates that the lenient parser is expected to
// tolerate.  Every candidate is PROBED against the parser under test at start-up; only those it
// classifies as non-fatal are used (same approach as harness/cmd/c07/entries.go).
func quirkCandidates() []struct {
	name  string
	ext   pkixExt
	noSAN bool
} {
	ip5, _ := asn1.Marshal([]asn1.RawValue{{Class: 2, Tag: 7, Bytes: []byte{10, 0, 0, 1, 9}}})
	return []struct {
		name  string
		ext   pkixExt
		noSAN bool
	}{
		{"san-ip-5-bytes", pkixExt{Id: []int{2, 5, 29, 17}, Value: ip5}, true},
		{"empty-aia", pkixExt{Id: []int{1, 3, 6, 1, 5, 5, 7, 1, 1}, Value: []byte{0x30, 0x00}}, false},
		{"empty-eku", pkixExt{Id: []int{2, 5, 29, 37}, Value: []byte{0x30, 0x00}}, false},
		{"malformed-sct-list", pkixExt{Id: []int{1, 3, 6, 1, 4, 1, 11129, 2, 4, 2}, Value: []byte{0x04, 0x03, 0x00, 0x01, 0xff}}, false},
		{"empty-crl-dp", pkixExt{Id: []int{2, 5, 29, 31}, Value: []byte{0x30, 0x00}}, false},
		{"bad-policy", pkixExt{Id: []int{2, 5, 29, 32}, Value: []byte{0x30, 0x02, 0x30, 0x00}}, false},
		{"name-constraints-on-leaf-garbage", pkixExt{Id: []int{2, 5, 29, 30}, Value: []byte{0x30, 0x04, 0xa0, 0x02, 0x30, 0x00}}, false},
	}
}

func buildQuirks(inter, root *pki.Entity) []quirkFix {
	_ = root
	var out []quirkFix
	for i, q := range quirkCandidates() {
		func() {
			defer func() { recover() }() // pki.Issue panics when the parser calls the result fatal
			o := pki.Opts{CN: "quirk-" + q.name + ".c12.example", KeyIdx: 37, ExtraExt: []pkixExt{q.ext}}
			if !q.noSAN {
				o.DNSNames = []string{fmt.Sprintf("quirk%d.c12.example", i)}
			}
			c := pki.Issue(o, inter)
			if parseClass(c.DER, false) != "PNonFatal" {
				return
			}
			qf := quirkFix{name: q.name, cert: c.DER}
			o.CN = "pre-" + o.CN
			p, ref := issuePre(o, inter, inter)
			qf.pre = p.DER
			if parseClass(ref.tbs, true) == "PNonFatal" {
				qf.tbs = ref
			}
			out = append(out, qf)
		}()
	}
	return out
}

func buildFixtures() *fixtures {
	f := &fixtures{}
	f.keys = []*logKey{newLogKey("p256", 40), newLogKey("rsa2048", 0)}
	f.foreign = []*logKey{newLogKey("p256", 41), newLogKey("rsa2048", 1)}
	root := pki.Issue(pki.Opts{CN: "c12 root", IsCA: true, KeyIdx: 30}, nil)
	inter := pki.Issue(pki.Opts{CN: "c12 intermediate", IsCA: true, KeyIdx: 31}, root)
	leaf := pki.Issue(pki.Opts{CN: "leaf.c12.example", KeyIdx: 32, DNSNames: []string{"leaf.c12.example"}}, inter)
	leaf2 := pki.Issue(pki.Opts{CN: "other.c12.example", KeyIdx: 33, DNSNames: []string{"other.c12.example"}}, inter)
	pre, preRef := issuePre(pki.Opts{CN: "pre.c12.example", KeyIdx: 34}, inter, inter)
	// Precertificate Signing Certificates (CA certificates with the CT extended key usage): one
	// under the intermediate, one directly under the root
	ctEKU := []x509.ExtKeyUsage{x509.ExtKeyUsageCertificateTransparency}
	preIssuer := pki.Issue(pki.Opts{CN: "c12 pre-issuer", IsCA: true, KeyIdx: 35, EKUs: ctEKU}, inter)
	preIssuerR := pki.Issue(pki.Opts{CN: "c12 pre-issuer under the root", IsCA: true, KeyIdx: 38, EKUs: ctEKU}, root)
	// viaPI: a precertificate signed by the Precertificate Signing Certificate [pi] on behalf of
	// [ca]; besides the reference entry, the entry a party would derive that took [pi] for an
	// ordinary issuing CA (the twin issued by [pi] itself)
	viaPI := func(o pki.Opts, pi, ca *pki.Entity) (*pki.Entity, *entry, []altEntry) {
		preSerial++
		o.Serial = big.NewInt(preSerial)
		p, ref := issuePre(o, pi, ca)
		_, asIssuer := issuePre(o, pi, pi)
		return p, ref, []altEntry{
			{"tbs-still-names-the-pre-issuer", &entry{precert: true, ikh: ref.ikh, tbs: asIssuer.tbs}},
			{"entry-as-if-the-pre-issuer-were-the-issuer", asIssuer},
		}
	}
	pre2, pre2Ref, pre2Alts := viaPI(pki.Opts{CN: "pre2.c12.example", KeyIdx: 36, DNSNames: []string{"pre2.c12.example"}}, preIssuer, inter)
	pre3, pre3Ref, pre3Alts := viaPI(pki.Opts{CN: "pre3.c12.example", KeyIdx: 39}, preIssuerR, root)
	f.root, f.inter, f.leaf, f.pre = root, inter, leaf, pre
	f.quirks = buildQuirks(inter, root)
	nt := 0
	for _, q := range f.quirks {
		if q.tbs != nil {
			nt++
		}
	}
	if len(f.quirks) < 2 || nt < 1 {
		panic(fmt.Sprintf("c12: only %d certificate quirks (%d with a quirky TBS) are non-fatal for the parser", len(f.quirks), nt))
	}
	f.chains = []chainFix{
		{name: "x509-3", certs: [][]byte{leaf.DER, inter.DER, root.DER}},
		{name: "x509-1", certs: [][]byte{leaf.DER}},
		{name: "x509-other", certs: [][]byte{leaf2.DER, inter.DER}},
		{name: "pre-3", certs: [][]byte{pre.DER, inter.DER, root.DER}, ref: preRef},
		{name: "pre-preissuer", certs: [][]byte{pre2.DER, preIssuer.DER, inter.DER, root.DER}, ref: pre2Ref, alts: pre2Alts},
		{name: "pre-noissuer", certs: [][]byte{pre.DER}},
		{name: "empty"},
		{name: "garbage", certs: [][]byte{[]byte("this is not a certificate")}},
		// more chains through a Precertificate Signing Certificate: root left out; signing certificate directly under the root
		{name: "pre-preissuer-no-root", certs: [][]byte{pre2.DER, preIssuer.DER, inter.DER}, ref: pre2Ref, alts: pre2Alts},
		{name: "pre-preissuer-under-root", certs: [][]byte{pre3.DER, preIssuerR.DER, root.DER}, ref: pre3Ref, alts: pre3Alts},
	}
	for _, q := range f.quirks {
		f.chains = append(f.chains, chainFix{name: "x509-quirk:" + q.name, certs: [][]byte{q.cert, inter.DER, root.DER}})
		if q.tbs != nil {
			f.chains = append(f.chains, chainFix{name: "pre-quirk:" + q.name, certs: [][]byte{q.pre, inter.DER, root.DER}, ref: q.tbs})
		}
	}
	for i := range f.chains {
		if c := &f.chains[i]; c.ref != nil {
			c.alts = altsOf(c.certs, c.ref, c.alts...)
		}
	}
	return f
}

// preIssuerChains: the chains that go through a Precertificate Signing Certificate
func (f *fixtures) preIssuerChains() []chainFix {
	return []chainFix{f.chain("pre-preissuer"), f.chain("pre-preissuer-no-root"), f.chain("pre-preissuer-under-root")}
}

// entryOf: the oracle "entry derived from the SUBMITTED chain and entry type".  WHETHER an entry can
// be derived is the library's answer (deriveEntry); WHAT the entry is comes from the harness's
// own knowledge wherever it has it: an X.509 entry is the first certificate as submitted, a
// precertificate entry is the hand-made reference of the chain.
func entryOf(ch chainFix, precert bool) *entry {
	e := deriveEntry(ch.certs, precert)
	switch {
	case e == nil:
		return nil
	case !precert:
		return &entry{cert: ch.certs[0]}
	case ch.ref != nil:
		return ch.ref
	}
	return e
}

func (f *fixtures) chain(name string) chainFix {
	for _, c := range f.chains {
		if c.name == name {
			return c
		}
	}
	panic("no chain " + name)
}

func asn1Chain(certs [][]byte) []ct.ASN1Cert {
	var out []ct.ASN1Cert
	for _, c := range certs {
		out = append(out, ct.ASN1Cert{Data: c})
	}
	return out
}

// token: a short identity of a certificate for the Coq case (the model never looks inside)
func token(der []byte) []byte {
	h := sha256.Sum256(der)
	return h[:4]
}

// deriveEntry: the oracle "entry derived from the SUBMITTED chain and entry type"
// (ct.MerkleTreeLeafFromRawChain), nil when it fails or panics.
func deriveEntry(certs [][]byte, precert bool) (e *entry) {
	defer func() {
		if recover() != nil {
			e = nil
		}
	}()
	et := ct.X509LogEntryType
	if precert {
		et = ct.PrecertLogEntryType
	}
	leaf, err := ct.MerkleTreeLeafFromRawChain(asn1Chain(certs), et, 0)
	if err != nil || leaf == nil || leaf.TimestampedEntry == nil {
		return nil
	}
	if precert {
		p := leaf.TimestampedEntry.PrecertEntry
		if p == nil {
			return nil
		}
		return &entry{precert: true, ikh: append([]byte{}, p.IssuerKeyHash[:]...), tbs: p.TBSCertificate}
	}
	if leaf.TimestampedEntry.X509Entry == nil {
		return nil
	}
	return &entry{cert: leaf.TimestampedEntry.X509Entry.Data}
}

func parseClass(der []byte, tbs bool) string {
	var err error
	func() {
		defer func() {
			if recover() != nil {
				err = fmt.Errorf("panic")
			}
		}()
		if tbs {
			_, err = x509.ParseTBSCertificate(der)
		} else {
			_, err = x509.ParseCertificate(der)
		}
	}()
	switch {
	case err == nil:
		return "POk"
	case x509.IsFatal(err):
		return "PFatal"
	}
	return "PNonFatal"
}

type quiet struct{}

func (quiet) Printf(string, ...interface{}) {}

const logURI = "http://log.c12.example/ct"

// switchRT hands every request to the script of the CURRENT call: one client, many calls
type switchRT struct{ cur *script }

func (s *switchRT) RoundTrip(req *http.Request) (*http.Response, error) { return s.cur.RoundTrip(req) }

// session: ONE client (plain and temporal over the same transport) that lives through a history
// of calls; [trail] is what was served / returned so far, for the replay files.
type session struct {
	rt    *switchRT
	key   *logKey
	lc    *client.LogClient
	tlc   *client.TemporalLogClient
	name  string
	trail []string
}

func newSession(name string, key *logKey, usePEM bool) *session {
	rt := &switchRT{}
	return &session{rt: rt, key: key, name: name, lc: newClientRT(rt, key, usePEM), tlc: newTemporalClientRT(rt, key)}
}

// use makes [sc] the script of the next call of the session
func (s *session) use(sc *script) { s.rt.cur = sc }

func (s *session) did(step, class string) { s.trail = append(s.trail, step+" -> "+class) }

// history: what a case of a session records about the calls made before it on the same client
func (s *session) history() interface{} {
	if s == nil {
		return nil
	}
	return map[string]interface{}{"session": s.name, "earlier_calls_on_this_client": append([]string{}, s.trail...)}
}

// plain / temporal: the client a call uses: the session's own, or a fresh one over [sc]
func (s *session) plain(sc *script, key *logKey, usePEM bool) *client.LogClient {
	if s != nil {
		return s.lc
	}
	return newClient(sc, key, usePEM)
}

func (s *session) temporal(sc *script, key *logKey) *client.TemporalLogClient {
	if s != nil {
		return s.tlc
	}
	return newTemporalClient(sc, key)
}

func (s *session) tags() []string {
	if s == nil {
		return []string{"history:fresh-client"}
	}
	n := len(s.trail)
	if n > 4 {
		n = 4
	}
	return []string{"history:session=" + s.name, fmt.Sprintf("history:earlier-calls=%d", n)}
}

func (s *session) after() string {
	if s == nil || len(s.trail) == 0 {
		return ""
	}
	return fmt.Sprintf(" after %d earlier call(s) on the same client [%s: %s]", len(s.trail), s.name, strings.Join(s.trail, "; "))
}

func newClient(sc *script, key *logKey, usePEM bool) *client.LogClient {
	return newClientRT(sc, key, usePEM)
}

func newClientRT(sc http.RoundTripper, key *logKey, usePEM bool) *client.LogClient {
	opts := jsonclient.Options{Logger: quiet{}}
	if key != nil {
		if usePEM {
			opts.PublicKey = key.pem
		} else {
			opts.PublicKeyDER = key.spki
		}
	}
	lc, err := client.New(logURI, &http.Client{Transport: sc}, opts)
	if err != nil {
		panic(err)
	}
	return lc
}

func newTemporalClient(sc *script, key *logKey) *client.TemporalLogClient {
	return newTemporalClientRT(sc, key)
}

func newTemporalClientRT(sc http.RoundTripper, key *logKey) *client.TemporalLogClient {
	shard := &configpb.LogShardConfig{Uri: logURI}
	if key != nil {
		shard.PublicKeyDer = key.spki
	}
	tlc, err := client.NewTemporalLogClient(&configpb.TemporalLogConfig{Shard: []*configpb.LogShardConfig{shard}}, &http.Client{Transport: sc})
	if err != nil {
		panic(err)
	}
	return tlc
}

// bubble runs one client call under virtual time; a panic is an observation
func bubble(t *testing.T, sc *script, f func(ctx context.Context)) (panicked bool, pv string) {
	synctest.Test(t, func(t *testing.T) {
		ctx, cancel := context.WithCancel(context.Background())
		sc.cancel = cancel
		func() {
			defer func() {
				if r := recover(); r != nil {
					panicked, pv = true, fmt.Sprint(r)
				}
			}()
			f(ctx)
		}()
		cancel()
		time.Sleep(15 * time.Minute) // let abandoned backoff timers fire inside the bubble
	})
	return
}

// observed: class of what the call returned
type observed struct {
	Class  string `json:"class"` // ok | rsp-error | plain-error | context-error | panic
	Status int    `json:"status,omitempty"`
	BodyID int    `json:"body_id,omitempty"`
	Err    string `json:"error,omitempty"`
	body   []byte
}

func classify(err error, panicked bool, pv string, bodies *bodyTable) observed {
	switch {
	case panicked:
		return observed{Class: "panic", Err: pv}
	case err == nil:
		return observed{Class: "ok"}
	}
	if re, ok := err.(jsonclient.RspError); ok {
		return observed{Class: "rsp-error", Status: re.StatusCode, BodyID: bodies.lookup(re.Body), Err: trunc(err.Error()), body: re.Body}
	}
	if err == context.Canceled || err == context.DeadlineExceeded {
		return observed{Class: "context-error", Err: err.Error()}
	}
	return observed{Class: "plain-error", Err: trunc(err.Error())}
}

func trunc(s string) string {
	if len(s) > 160 {
		return s[:160] + "..."
	}
	return s
}

// coq renders a non-ok observation ("" for ok: the caller renders the payload)
func (o observed) coq() string {
	switch o.Class {
	case "rsp-error":
		return fmt.Sprintf("(CRspErr %s %s)", lib.Z(int64(o.Status)), lib.Nn(uint64(o.BodyID)))
	case "plain-error":
		return "CPlainErr"
	case "context-error":
		return "CCtxErr"
	case "panic":
		return "CPanic"
	}
	return ""
}

func coqAttempt(a attempt, jsonCoq string) string {
	if a.NoResp {
		return fmt.Sprintf("(NoResp %s)", lib.Bool(a.Ctx))
	}
	return fmt.Sprintf("(Resp (mkResp %s %s %s %s %s %s))", lib.Z(int64(a.Status)), lib.Nn(uint64(a.BodyID)),
		lib.Bool(a.ReadOK), lib.Bool(a.CloseOK), lib.Bool(a.Post), jsonCoq)
}

// errorOracle: the property's sentence about errors, on the observations alone.  [last] is the
// attempt that ended the call (nil: no request was made).
func errorOracle(last *attempt, o observed, resultNil bool) (bool, string) {
	if o.Class == "panic" {
		return false, "panic: " + o.Err
	}
	if o.Class == "ok" {
		if last == nil || !last.received || last.Status != 200 || !last.ReadOK || !last.CloseOK {
			return false, "a result was returned although no complete 200 response was received"
		}
		// the body AS SENT, judged by encoding/json here: the answer, on every endpoint (POST and GET), is
		// one JSON value followed only by white space - anything after it makes the response malformed /
		// over-long and must produce an error
		if !wholeJSON(last.body) {
			return false, fmt.Sprintf("a result was returned although the %d-byte body of the 200 response is not, as a whole, one JSON value", len(last.body))
		}
		return true, ""
	}
	if !resultNil {
		return false, "an error was returned together with a (partially filled) result"
	}
	if last != nil && last.received && last.CloseOK {
		if o.Class != "rsp-error" {
			return false, "error after a received response is not a jsonclient.RspError (" + o.Class + ")"
		}
		if o.Status != last.Status || !bytes.Equal(o.body, last.body) {
			return false, fmt.Sprintf("RspError does not carry the status and body of the response (status %d, %d bytes; the response had status %d, %d bytes)", o.Status, len(o.body), last.Status, len(last.body))
		}
		return true, ""
	}
	if o.Class == "rsp-error" {
		return false, "RspError without a received response"
	}
	return true, ""
}

func hexs(b []byte) string {
	if len(b) > 24 {
		return hex.EncodeToString(b[:24]) + "..."
	}
	return hex.EncodeToString(b)
}
