(* Byte strings: list byte, hex literals for harness cases, big-endian integers. *)
From Coq Require Import Ascii String NArith ZArith Lia Bool List.
Open Scope bool_scope.
From Coq.Strings Require Import Byte.
Import ListNotations.

Definition bytes := list byte.

Definition byte_eqb (a b : byte) : bool := Byte.eqb a b.
Lemma byte_eqb_eq a b : byte_eqb a b = true <-> a = b.
Proof. unfold byte_eqb. split; [apply Byte.byte_dec_bl | apply Byte.byte_dec_lb]. Qed.

Fixpoint bytes_eqb (a b : bytes) : bool :=
  match a, b with
  | [], [] => true
  | x :: a', y :: b' => byte_eqb x y && bytes_eqb a' b'
  | _, _ => false
  end.
Lemma bytes_eqb_eq a b : bytes_eqb a b = true <-> a = b.
Proof.
  revert b; induction a as [|x a IH]; destruct b as [|y b]; cbn; try (split; congruence).
  rewrite Bool.andb_true_iff, byte_eqb_eq, IH. split; [intros [-> ->]; reflexivity | intros H; inversion H; auto].
Qed.

(* byte <-> N *)
Definition b2n (b : byte) : N := Byte.to_N b.
Definition n2b (n : N) : byte := match Byte.of_N (n mod 256) with Some b => b | None => x00 end.
Lemma b2n_lt b : (b2n b < 256)%N. Proof. pose proof (Byte.to_N_bounded b); unfold b2n; lia. Qed.
Lemma n2b_b2n b : n2b (b2n b) = b.
Proof.
  unfold n2b, b2n. pose proof (Byte.to_N_bounded b). rewrite N.mod_small by lia.
  rewrite Byte.of_to_N. reflexivity.
Qed.
Lemma b2n_n2b n : (n < 256)%N -> b2n (n2b n) = n.
Proof.
  intros H. unfold n2b, b2n. rewrite N.mod_small by lia.
  destruct (Byte.of_N n) as [b|] eqn:E.
  - apply Byte.to_of_N in E. exact E.
  - apply Byte.of_N_None_iff in E. lia.
Qed.

(* hex literals *)
Definition hexval (c : ascii) : N :=
  let n := N_of_ascii c in
  if (48 <=? n)%N && (n <=? 57)%N then n - 48
  else if (97 <=? n)%N && (n <=? 102)%N then n - 87
  else if (65 <=? n)%N && (n <=? 70)%N then n - 55 else 0.
Fixpoint hex (s : string) : bytes :=
  match s with
  | String a (String b rest) => n2b (16 * hexval a + hexval b) :: hex rest
  | _ => []
  end.

(* n copies of a byte, n given as N (harness cases never write large nat literals) *)
Definition rep (n : N) (b : byte) : bytes := repeat b (N.to_nat n).

(* big-endian, fixed width *)
Fixpoint be_enc (w : nat) (x : N) : bytes :=
  match w with
  | O => []
  | S w' => n2b (x / 256 ^ N.of_nat w') :: be_enc w' (x mod 256 ^ N.of_nat w')
  end.
Fixpoint be_dec_acc (acc : N) (bs : bytes) : N :=
  match bs with [] => acc | b :: r => be_dec_acc (acc * 256 + b2n b) r end.
Definition be_dec (bs : bytes) : N := be_dec_acc 0 bs.

Local Open Scope N_scope.
Lemma be_enc_length w x : length (be_enc w x) = w.
Proof. revert x; induction w as [|w IH]; intros x; cbn; [reflexivity|]. f_equal. apply IH. Qed.

Lemma be_dec_acc_app acc a b : be_dec_acc acc (a ++ b) = be_dec_acc (be_dec_acc acc a) b.
Proof. revert acc; induction a; cbn; auto. Qed.

Lemma be_dec_acc_enc w : forall acc x, (x < 256 ^ N.of_nat w)%N -> be_dec_acc acc (be_enc w x) = (acc * 256 ^ N.of_nat w + x)%N.
Proof.
  induction w as [|w IH]; intros acc x Hx.
  - cbn in *. assert (x = 0)%N by lia. subst. lia.
  - cbn [be_enc be_dec_acc].
    rewrite Nnat.Nat2N.inj_succ, N.pow_succ_r' in *.
    assert (Hp : (0 < 256 ^ N.of_nat w)%N) by (apply N.neq_0_lt_0, N.pow_nonzero; lia).
    assert (Hq : (x / 256 ^ N.of_nat w < 256)%N) by (apply N.div_lt_upper_bound; lia).
    rewrite b2n_n2b by exact Hq.
    rewrite IH by (apply N.mod_lt; lia).
    pose proof (N.div_mod x (256 ^ N.of_nat w)). lia.
Qed.

Lemma be_dec_enc w x : (x < 256 ^ N.of_nat w)%N -> be_dec (be_enc w x) = x.
Proof. intros H. unfold be_dec. rewrite be_dec_acc_enc by exact H. lia. Qed.

Lemma be_dec_acc_bound bs : forall acc, (be_dec_acc acc bs < (acc + 1) * 256 ^ N.of_nat (length bs))%N.
Proof.
  induction bs as [|b r IH]; intros acc; cbn [be_dec_acc length].
  - cbn. lia.
  - rewrite Nnat.Nat2N.inj_succ, N.pow_succ_r'. specialize (IH (acc * 256 + b2n b)%N).
    pose proof (b2n_lt b). nia.
Qed.

Lemma be_dec_bound bs : (be_dec bs < 256 ^ N.of_nat (length bs))%N.
Proof. unfold be_dec. pose proof (be_dec_acc_bound bs 0). lia. Qed.

Lemma be_dec_acc_split l : forall a, be_dec_acc a l = a * 256 ^ N.of_nat (length l) + be_dec_acc 0 l.
Proof.
  induction l as [|c l IH]; intros a; cbn [be_dec_acc length]; [cbn; lia|].
  rewrite Nnat.Nat2N.inj_succ, N.pow_succ_r'. rewrite IH. rewrite (IH (0 * 256 + b2n c)). lia.
Qed.

Lemma be_enc_dec bs : be_enc (length bs) (be_dec bs) = bs.
Proof.
  unfold be_dec. induction bs as [|b r IH]; [reflexivity|].
  cbn [length be_enc be_dec_acc]. rewrite be_dec_acc_split.
  assert (Hp : 256 ^ N.of_nat (length r) <> 0) by (apply N.pow_nonzero; lia).
  pose proof (be_dec_bound r) as Hb. unfold be_dec in Hb.
  f_equal.
  - rewrite N.div_add_l by exact Hp. rewrite (N.div_small (be_dec_acc 0 r)) by exact Hb.
    rewrite N.add_0_r. replace (0 * 256 + b2n b) with (b2n b) by lia. apply n2b_b2n.
  - rewrite N.add_comm, N.mod_add by exact Hp. rewrite N.mod_small by exact Hb. exact IH.
Qed.
