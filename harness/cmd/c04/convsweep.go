package main

// Class "JSON message -> structure conversions": AddChainResponse.ToSignedCertificateTimestamp and
// GetSTHResponse.ToSignedTreeHead over a sweep of field lengths, every part well-formed (so that the
// conversion really happens) or exactly one part ill-formed.
//
// The reference never touches /repo: the JSON text is read with encoding/json into the mirror structs
// of jsonrep.go (all base64 members as plain strings), every member is decoded with
// encoding/base64.StdEncoding here, the DigitallySigned is split by hand (RFC 5246 4.7) and the TLS
// encoding of the expected SignedCertificateTimestamp is written by hand (RFC 6962 3.2).  Every field of
// the converted structure, and its TLS encoding, must equal that reference; the conversion must succeed
// exactly when id / root hash has 32 octets, the extensions text is base64 and the signature is exactly
// one DigitallySigned.
//
// The lengths cover all three base64 padding situations (none, "=", "==") for the extensions, the
// signature and (ill-formed) the id: 0..40 and a few large ones up to the limit of CtExtensions.

import (
	"encoding/base64"
	"encoding/binary"
	"encoding/json"
	"fmt"
	mrand "math/rand"
	"reflect"

	ct "github.com/google/certificate-transparency-go"
	"github.com/google/certificate-transparency-go/tls"

	"verif/harness/lib"
	"verif/harness/tlsgen"
)

var convLarge = []int{41, 42, 43, 62, 63, 64, 254, 255, 256, 257, 1000, 1001, 1002, 4094, 4095, 4096, 65533, 65534, 65535}

// handSCT: RFC 6962 3.2 SignedCertificateTimestamp, written out octet by octet.
func handSCT(ver byte, id []byte, ts uint64, ext []byte, ds []byte) []byte {
	out := []byte{ver}
	out = append(out, id...)
	out = binary.BigEndian.AppendUint64(out, ts)
	out = append(out, byte(len(ext)>>8), byte(len(ext)))
	out = append(out, ext...)
	return append(out, ds...) // hash, signature, uint16 length, signature octets: the message's bytes themselves
}

func b64(b []byte) string { return base64.StdEncoding.EncodeToString(b) }

// deformB64 makes a base64 text ill-formed (or, for "crlf", differently written but equivalent).
func deformB64(s string, how string) string {
	switch how {
	case "bad-char":
		return s + "!"
	case "no-padding":
		for len(s) > 0 && s[len(s)-1] == '=' {
			s = s[:len(s)-1]
		}
		return s
	case "extra-padding":
		return s + "="
	case "crlf":
		if len(s) > 4 {
			return s[:4] + "\r\n" + s[4:]
		}
	}
	return s
}

func conversionSweep(r *mrand.Rand, w *lib.Writer) {
	lens := []int{}
	for n := 0; n <= 40; n++ {
		lens = append(lens, n)
	}
	lens = append(lens, convLarge...)
	variants := []string{"good", "good", "ext:bad-char", "ext:no-padding", "ext:extra-padding", "ext:crlf", "id:31", "id:33", "id:0",
		"sig:trailing", "sig:short", "sig:empty", "good"}
	for li, n := range lens {
		for vi := 0; vi < 3; vi++ {
			variant := "good"
			if vi > 0 {
				variant = variants[(li*2+vi+r.Intn(len(variants)))%len(variants)]
			}
			// ---- add-chain / add-pre-chain response
			ext := payload(r, n)
			if n > 0 && r.Intn(2) == 0 {
				ext[n-1] = 0 // a genuine trailing zero octet must survive as well
			}
			id := payload(r, 32)
			sigBody := payload(r, []int{0, 1, 2, 3, 70, 71, 72}[r.Intn(7)])
			if vi == 1 {
				sigBody = payload(r, n%300) // the signature text goes through the padding situations too
			}
			ds := append([]byte{byte(r.Intn(256)), byte(r.Intn(256)), byte(len(sigBody) >> 8), byte(len(sigBody))}, sigBody...)
			ver := uint64(r.Intn(2))
			ts := []uint64{0, 1512556025588, 1<<64 - 1, r.Uint64()}[r.Intn(4)]
			extText := b64(ext)
			switch variant {
			case "ext:bad-char", "ext:no-padding", "ext:extra-padding", "ext:crlf":
				extText = deformB64(extText, variant[4:])
			case "id:31":
				id = id[:31]
			case "id:33":
				id = append(id, 7)
			case "id:0":
				id = nil
			case "sig:trailing":
				ds = append(ds, 0)
			case "sig:short":
				ds = ds[:len(ds)-1]
			case "sig:empty":
				ds = nil
			}
			text := fmt.Sprintf(`{"sct_version":%d,"id":%q,"timestamp":%d,"extensions":%q,"signature":%q}`, ver, b64(id), ts, extText, b64(ds))
			// (%q writes the CR LF of the "crlf" variant as the JSON escapes \r \n)

			// reference: standard library only
			var m mAddChainResponse
			if err := json.Unmarshal([]byte(text), &m); err != nil {
				panic("harness: conversion sweep: the reference refuses its own message: " + err.Error())
			}
			wid, e1 := base64.StdEncoding.DecodeString(m.ID)
			wext, e2 := base64.StdEncoding.DecodeString(m.Extensions)
			wsig, e3 := base64.StdEncoding.DecodeString(m.Signature)
			if e1 != nil || e3 != nil {
				panic("harness: conversion sweep: id / signature text is not base64")
			}
			wantOK := len(wid) == 32 && e2 == nil && exactDS(wsig)

			// implementation
			var rsp ct.AddChainResponse
			jerr := json.Unmarshal([]byte(text), &rsp)
			var sct *ct.SignedCertificateTimestamp
			var cerr error
			pan := false
			if jerr == nil {
				pan = try(func() { sct, cerr = rsp.ToSignedCertificateTimestamp() })
			}
			ok, note := true, ""
			co := "ErrStruct"
			switch {
			case jerr != nil:
				ok, note = false, "AddChainResponse: the JSON message is refused: "+jerr.Error()
			case pan:
				ok, note = false, "ToSignedCertificateTimestamp panics"
			case (cerr == nil) != wantOK:
				ok, note = false, fmt.Sprintf("ToSignedCertificateTimestamp ok=%v, parts well-formed=%v (id %d octets, extensions base64=%v, signature exactly one DigitallySigned=%v)",
					cerr == nil, wantOK, len(wid), e2 == nil, exactDS(wsig))
			case cerr == nil:
				got := tls.DigitallySigned(sct.Signature)
				switch {
				case uint64(sct.SCTVersion) != m.SCTVersion:
					ok, note = false, "ToSignedCertificateTimestamp alters sct_version"
				case string(sct.LogID.KeyID[:]) != string(wid):
					ok, note = false, "ToSignedCertificateTimestamp alters id"
				case sct.Timestamp != m.Timestamp:
					ok, note = false, "ToSignedCertificateTimestamp alters timestamp"
				case string(sct.Extensions) != string(wext):
					ok, note = false, fmt.Sprintf("ToSignedCertificateTimestamp alters extensions: %d octets sent, %d octets in the structure", len(wext), len(sct.Extensions))
				case byte(got.Algorithm.Hash) != wsig[0] || byte(got.Algorithm.Signature) != wsig[1] || string(got.Signature) != string(wsig[4:]):
					ok, note = false, "ToSignedCertificateTimestamp alters signature"
				default:
					enc, merr := tls.Marshal(*sct)
					if want := handSCT(byte(m.SCTVersion), wid, m.Timestamp, wext, wsig); merr != nil || string(enc) != string(want) {
						ok, note = false, "the converted SCT does not serialize to the RFC 6962 3.2 octets of the received message"
					}
				}
				d := tlsgen.FromGoType(reflect.TypeOf(*sct))
				co = "Ok " + tlsgen.ValCoq(d, reflect.ValueOf(*sct))
			}
			c := lib.Case{
				Input:  map[string]interface{}{"op": "to-sct-sweep", "variant": variant, "ext_len": n, "id_len": len(id), "sig_len": len(ds), "text": clip(text)},
				Impl:   map[string]interface{}{"ok": jerr == nil && !pan && cerr == nil},
				PropOK: ok, Note: note,
				Tags: []string{"conv-sct:" + variant, fmt.Sprintf("conv-sct:pad=%d:ok=%v", (3-n%3)%3, cerr == nil && jerr == nil)},
			}
			if n <= 64 && jerr == nil && !pan {
				extCoq := "None"
				if e2 == nil {
					extCoq = lib.Some(lib.Bytes(wext))
				}
				c.Coq = fmt.Sprintf("CToSct %s %s %s %s %s (%s)", lib.Nn(ver), lib.Bytes(id), lib.Nn(ts), extCoq, lib.Bytes(ds), co)
			} else {
				c.Key = fmt.Sprintf("conv-sct-%d-%d", n, vi)
			}
			w.Add(c)

			// ---- get-sth response (same signature bytes; root hash in place of the id)
			if n > 300 {
				continue
			}
			size := []uint64{0, 1, uint64(n), 1<<64 - 1, r.Uint64()}[r.Intn(5)]
			stext := fmt.Sprintf(`{"tree_size":%d,"timestamp":%d,"sha256_root_hash":%q,"tree_head_signature":%q}`, size, ts, b64(id), b64(ds))
			var ms mGetSTHResponse
			if err := json.Unmarshal([]byte(stext), &ms); err != nil {
				panic("harness: conversion sweep: the reference refuses its own message: " + err.Error())
			}
			wroot, _ := base64.StdEncoding.DecodeString(ms.Root)
			wsig2, _ := base64.StdEncoding.DecodeString(ms.Signature)
			wantOK = len(wroot) == 32 && exactDS(wsig2)
			var srsp ct.GetSTHResponse
			jerr = json.Unmarshal([]byte(stext), &srsp)
			var sth *ct.SignedTreeHead
			var therr error
			pan = false
			if jerr == nil {
				pan = try(func() { sth, therr = srsp.ToSignedTreeHead() })
			}
			ok, note = true, ""
			to := "ErrStruct"
			switch {
			case jerr != nil:
				ok, note = false, "GetSTHResponse: the JSON message is refused: "+jerr.Error()
			case pan:
				ok, note = false, "ToSignedTreeHead panics"
			case (therr == nil) != wantOK:
				ok, note = false, fmt.Sprintf("ToSignedTreeHead ok=%v, parts well-formed=%v (root hash %d octets, signature exactly one DigitallySigned=%v)", therr == nil, wantOK, len(wroot), exactDS(wsig2))
			case therr == nil:
				got := tls.DigitallySigned(sth.TreeHeadSignature)
				if sth.TreeSize != ms.TreeSize || sth.Timestamp != ms.Timestamp || string(sth.SHA256RootHash[:]) != string(wroot) ||
					byte(got.Algorithm.Hash) != wsig2[0] || byte(got.Algorithm.Signature) != wsig2[1] || string(got.Signature) != string(wsig2[4:]) {
					ok, note = false, "ToSignedTreeHead loses or alters a field"
				}
				d := tlsgen.FromGoType(reflect.TypeOf(sth.TreeHeadSignature))
				to = fmt.Sprintf("Ok (%s, %s, %s, %s)", lib.Nn(sth.TreeSize), lib.Nn(sth.Timestamp), lib.Bytes(sth.SHA256RootHash[:]), tlsgen.ValCoq(d, reflect.ValueOf(sth.TreeHeadSignature)))
			}
			c = lib.Case{
				Input:  map[string]interface{}{"op": "to-sth-sweep", "variant": variant, "root_len": len(id), "sig_len": len(ds), "text": clip(stext)},
				Impl:   map[string]interface{}{"ok": jerr == nil && !pan && therr == nil},
				PropOK: ok, Note: note, Tags: []string{fmt.Sprintf("conv-sth:ok=%v", therr == nil && jerr == nil)},
			}
			if n <= 64 && jerr == nil && !pan {
				c.Coq = fmt.Sprintf("CToSth %s %s %s %s (%s)", lib.Nn(size), lib.Nn(ts), lib.Bytes(id), lib.Bytes(ds), to)
			} else {
				c.Key = fmt.Sprintf("conv-sth-%d-%d", n, vi)
			}
			w.Add(c)
		}
	}
}
