// C09 correspondence harness: tls.Marshal / tls.Unmarshal on struct types generated at run
// time from the tag grammar, values of them, and byte strings (valid encodings, truncations,
// trailing data, corrupted length fields, random bytes).
package main

import (
	"flag"
	"fmt"
	"reflect"
	"strings"
	"time"

	"github.com/google/certificate-transparency-go/tls"

	"verif/harness/lib"
	"verif/harness/tlsgen"
)

const header = `From Coq Require Import String NArith List. Import ListNotations.
From V Require Import Base.Bytes TLS.TlsModel TLS.TlsCase.
Local Open Scope N_scope.
`

type outcome struct {
	class string // ok syntax struct panic hang other
	bytes []byte
	val   reflect.Value
	rest  []byte
}

func classify(err error) string {
	if err == nil {
		return "ok"
	}
	s := err.Error()
	switch {
	case strings.HasPrefix(s, "tls: syntax error"):
		return "syntax"
	case strings.HasPrefix(s, "tls: structure error"):
		return "struct"
	}
	return "other:" + s
}

func guarded(f func() outcome) (o outcome) {
	done := make(chan outcome, 1)
	go func() {
		defer func() {
			if r := recover(); r != nil {
				done <- outcome{class: "panic"}
			}
		}()
		done <- f()
	}()
	select {
	case o = <-done:
		return o
	case <-time.After(5 * time.Second):
		return outcome{class: "hang"}
	}
}

func coqClass(c string) string {
	switch c {
	case "syntax":
		return "ErrSyntax"
	case "struct":
		return "ErrStruct"
	case "panic":
		return "Panic"
	case "hang":
		return "Hang"
	}
	return "ErrStruct (* " + c + " *)"
}

func main() {
	flag.Parse()
	r := lib.Rand()
	w := lib.NewWriter(header, 150)
	defer w.Guard()
	n := lib.Count(700, 12000)
	g := &tlsgen.Gen{R: r}
	hung := false

	for i := 0; i < n && !hung; i++ {
		g.Malformed = 0
		wellformed := true
		if i%6 == 5 {
			g.Malformed = 120
			wellformed = false
		}
		t, tag := g.Type(1+r.Intn(4), true)
		if i%3 == 0 {
			t, tag = g.Struct(1+r.Intn(3)), ""
		}
		if i%7 == 3 {
			t, tag = g.VariantVec(r.Intn(2)) // vectors of variant structs: repeated selectors in consecutive elements
		}
		if strings.Contains(t.Coq(), "size:0") {
			wellformed = false
		}
		gt := t.GoType()
		valid := r.Intn(5) != 0
		pv := reflect.New(gt)
		g.Missed = false
		g.Value(t, tag, pv.Elem(), valid)
		params := tlsgen.Clauses(tag)

		// --- Marshal ---
		mo := guarded(func() outcome {
			b, err := tls.MarshalWithParams(pv.Elem().Interface(), tag)
			return outcome{class: classify(err), bytes: b}
		})
		hung = hung || mo.class == "hang"
		obs := coqClass(mo.class)
		propOK, note := true, ""
		if mo.class == "ok" {
			obs = "Ok " + lib.Bytes(mo.bytes)
			// direct oracle: decoding the encoding returns the value, nothing left over
			back := reflect.New(gt)
			po := guarded(func() outcome {
				rest, err := tls.UnmarshalWithParams(mo.bytes, back.Interface(), tag)
				return outcome{class: classify(err), rest: rest}
			})
			if po.class != "ok" || len(po.rest) != 0 || !reflect.DeepEqual(normalize(back.Elem()), normalize(pv.Elem())) {
				if wellformed {
					propOK, note = false, fmt.Sprintf("round trip value->bytes->value fails (%s) for type %s", po.class, t.String())
				}
			}
		} else if mo.class == "panic" || mo.class == "hang" {
			if wellformed {
				propOK, note = false, "Marshal "+mo.class+" for type "+t.String()
			}
		} else if wellformed && valid && !g.Missed && noVectors(t) {
			// every in-range value of a supported shape has an encoding
			propOK, note = false, fmt.Sprintf("Marshal refuses an in-range value (%s) of type %s", mo.class, t.String())
		}
		w.Add(lib.Case{
			Coq:    fmt.Sprintf("CMarshal %s %s %s (%s)", t.Coq(), params, tlsgen.ValCoq(t, pv.Elem()), obs),
			Input:  map[string]interface{}{"op": "marshal", "type": t.String(), "params": tag, "valid_value": valid},
			Impl:   map[string]interface{}{"class": mo.class, "len": len(mo.bytes)},
			PropOK: propOK, Note: note,
			Tags: []string{"marshal:" + strings.SplitN(mo.class, ":", 2)[0], fmt.Sprintf("wellformed=%v", wellformed), "top:" + t.Kind},
		})

		// --- Unmarshal on derived byte strings ---
		var inputs [][]byte
		var kinds []string
		if mo.class == "ok" {
			b := mo.bytes
			inputs, kinds = append(inputs, b), append(kinds, "exact")
			inputs, kinds = append(inputs, append(append([]byte{}, b...), byte(r.Intn(256)), 0x7)), append(kinds, "trailing")
			if len(b) > 0 {
				inputs, kinds = append(inputs, b[:r.Intn(len(b))]), append(kinds, "truncated")
				m := append([]byte{}, b...)
				k := r.Intn(len(m))
				if len(m) > 8 && r.Intn(2) == 0 {
					k = r.Intn(8) // length fields live near the front
				}
				m[k] ^= byte(1 << uint(r.Intn(8)))
				inputs, kinds = append(inputs, m), append(kinds, "bitflip")
				m2 := append([]byte{}, b...)
				m2[k] = 0xff
				inputs, kinds = append(inputs, m2), append(kinds, "ff")
			}
		}
		rb := make([]byte, r.Intn(24))
		r.Read(rb)
		inputs, kinds = append(inputs, rb), append(kinds, "random")
		for j, in := range inputs {
			if len(in) > 4000 && kinds[j] != "exact" {
				continue
			}
			dst := reflect.New(gt)
			po := guarded(func() outcome {
				rest, err := tls.UnmarshalWithParams(in, dst.Interface(), tag)
				return outcome{class: classify(err), rest: rest}
			})
			hung = hung || po.class == "hang"
			pobs := coqClass(po.class)
			pOK, pnote := true, ""
			if po.class == "ok" {
				pobs = fmt.Sprintf("Ok (%s, %s)", tlsgen.ValCoq(t, dst.Elem()), lib.Bytes(po.rest))
				// direct oracle: re-encoding reproduces exactly the consumed bytes
				ro := guarded(func() outcome {
					b, err := tls.MarshalWithParams(dst.Elem().Interface(), tag)
					return outcome{class: classify(err), bytes: b}
				})
				consumed := in[:len(in)-len(po.rest)]
				if ro.class != "ok" || string(ro.bytes) != string(consumed) {
					pOK, pnote = false, fmt.Sprintf("round trip bytes->value->bytes fails (%s) for type %s", ro.class, t.String())
				}
			} else if po.class == "panic" || po.class == "hang" {
				pOK, pnote = false, "Unmarshal "+po.class+" for type "+t.String()
			}
			w.Add(lib.Case{
				Coq:    fmt.Sprintf("CParse %s %s %s (%s)", t.Coq(), params, lib.Bytes(in), pobs),
				Input:  map[string]interface{}{"op": "unmarshal", "type": t.String(), "params": tag, "bytes_kind": kinds[j], "len": len(in)},
				Impl:   map[string]interface{}{"class": po.class, "rest": len(po.rest)},
				PropOK: pOK, Note: pnote,
				Tags: []string{"parse:" + kinds[j] + ":" + strings.SplitN(po.class, ":", 2)[0], fmt.Sprintf("wellformed=%v", wellformed)},
			})
		}
	}
	// targeted stream: 8-byte length prefixes with huge declared lengths (beyond MaxInt64 too)
	for i := 0; i < n/8 && !hung; i++ {
		max := []uint64{1 << 56, 1 << 63, 1<<64 - 1, 1<<63 - 1}[r.Intn(4)]
		tag := fmt.Sprintf("maxlen:%d", max)
		var t *tlsgen.Ty
		elem := &tlsgen.Ty{Kind: []string{"u16", "u24", "arr"}[r.Intn(3)], N: 2}
		inner := &tlsgen.Ty{Kind: "bytes"}
		if r.Intn(2) == 0 {
			inner = &tlsgen.Ty{Kind: "vec", Elem: elem}
		}
		asField := r.Intn(2) == 0
		if asField {
			t = &tlsgen.Ty{Kind: "struct", Fields: []tlsgen.Field{{Name: "A", T: &tlsgen.Ty{Kind: "u8"}}, {Name: "B", Tag: tag, T: inner}}}
			tag = ""
		} else {
			t = inner
		}
		body := make([]byte, r.Intn(9))
		r.Read(body)
		declared := []uint64{1 << 63, 1<<64 - 1, 1<<63 + uint64(r.Intn(100)), uint64(len(body)), uint64(len(body)) + 1, 1<<63 - 1, 1 << 62}[r.Intn(7)]
		var in []byte
		if asField {
			in = append(in, byte(r.Intn(256)))
		}
		for k := 7; k >= 0; k-- {
			in = append(in, byte(declared>>(8*uint(k))))
		}
		in = append(in, body...)
		gt := t.GoType()
		dst := reflect.New(gt)
		po := guarded(func() outcome {
			rest, err := tls.UnmarshalWithParams(in, dst.Interface(), tag)
			return outcome{class: classify(err), rest: rest}
		})
		hung = hung || po.class == "hang"
		pobs := coqClass(po.class)
		pOK, pnote := true, ""
		if po.class == "ok" {
			pobs = fmt.Sprintf("Ok (%s, %s)", tlsgen.ValCoq(t, dst.Elem()), lib.Bytes(po.rest))
			if declared > uint64(len(body)) {
				pOK, pnote = false, fmt.Sprintf("declared length %d accepted with only %d bytes of input", declared, len(body))
			}
		} else if po.class == "panic" || po.class == "hang" {
			pOK, pnote = false, fmt.Sprintf("Unmarshal %s on an 8-byte length prefix declaring %d for type %s", po.class, declared, t.String())
		}
		w.Add(lib.Case{
			Coq:    fmt.Sprintf("CParse %s %s %s (%s)", t.Coq(), tlsgen.Clauses(tag), lib.Bytes(in), pobs),
			Input:  map[string]interface{}{"op": "unmarshal", "type": t.String(), "params": tag, "bytes_kind": "huge-length", "declared": fmt.Sprint(declared), "len": len(in)},
			Impl:   map[string]interface{}{"class": po.class, "rest": len(po.rest)},
			PropOK: pOK, Note: pnote, Tags: []string{"parse:huge-length:" + strings.SplitN(po.class, ":", 2)[0]},
		})
	}
	w.Close()
	fmt.Printf("c09: wrote %d cases (hang seen: %v)\n", w.Len(), hung)
}

// normalize maps nil and empty slices to one form (Unmarshal produces empty non-nil slices).
func normalize(v reflect.Value) interface{} {
	switch v.Kind() {
	case reflect.Slice:
		out := make([]interface{}, v.Len())
		for i := range out {
			out[i] = normalize(v.Index(i))
		}
		return out
	case reflect.Array:
		out := make([]interface{}, v.Len())
		for i := range out {
			out[i] = normalize(v.Index(i))
		}
		return out
	case reflect.Struct:
		out := make([]interface{}, v.NumField())
		for i := range out {
			out[i] = normalize(v.Field(i))
		}
		return out
	case reflect.Ptr:
		if v.IsNil() {
			return nil
		}
		return []interface{}{"ptr", normalize(v.Elem())}
	}
	return v.Uint()
}

// noVectors: the type contains only fixed-width integers, enums, byte arrays, structs and
// variants, for which the generator's notion of an in-range value is exact.
func noVectors(t *tlsgen.Ty) bool {
	switch t.Kind {
	case "bytes", "vec":
		return false
	case "struct":
		for _, f := range t.Fields {
			if !noVectors(f.T) {
				return false
			}
		}
	}
	return true
}
