(* C17 - the weights of a ctpolicy log group (ctpolicy/ctpolicy.go: LogGroupInfo.SetLogWeights,
   SetLogWeight, satisfyMinimalInclusion, GetSubmissionSession).  Executable model, definitions only.

   The weights decide the submission session of a group race (submission/races.go groupRace
   draws group.GetSubmissionSession() first): a log with weight 0 is never sampled, so the set
   of logs with positive weight is the [g_session] of SubmitModel's group.  The setters are the
   only writers of the weights; both validate "enough positive weights to reach MinInclusions"
   and, on refusal, must leave the weights as they were ("Does not reset weights and returns
   error").  The code is followed branch for branch: SetLogWeights validates BEFORE it writes
   (it rewrites the map in place: reset of every member to 0, then the supplied weights of the
   members), SetLogWeight validates a copy and installs the copy.

   Weights are float32 in the code; only their sign is ever inspected, so the model carries
   them as Z in quarters (the harness draws multiples of 0.25).  A Go map is an association
   list with unique keys; iteration order does not matter to any function below (counts and
   per-key updates). *)
From Coq Require Import ZArith NArith Bool List.
From V Require Import Submission.SubmitModel.
Import ListNotations.
Open Scope Z_scope.

Definition wmap := list (N * Z).

Definition wget (m : wmap) (l : N) : option Z :=
  match find (fun p => N.eqb (fst p) l) m with Some p => Some (snd p) | None => None end.

(* m[l] = w *)
Fixpoint wset (m : wmap) (l : N) (w : Z) : wmap :=
  match m with
  | [] => [(l, w)]
  | (k, v) :: rest => if N.eqb k l then (k, w) :: rest else (k, v) :: wset rest l w
  end.

Record wgroup := mkWG { wg_name : N; wg_logs : list N; wg_min : Z; wg_isbase : bool; wg_w : wmap }.

Definition with_w (g : wgroup) (m : wmap) : wgroup :=
  mkWG (wg_name g) (wg_logs g) (wg_min g) (wg_isbase g) m.

(* satisfyMinimalInclusion: ranges over the given map, counts the members of the group with a
   positive weight and returns true the moment the count reaches MinInclusions (so: false for a
   map without any positive member weight, whatever MinInclusions is) *)
Fixpoint satisfy_from (logs : list N) (mn cnt : Z) (ws : wmap) : bool :=
  match ws with
  | [] => false
  | (l, w) :: rest =>
      if memN l logs && (0 <? w) then
        let cnt' := cnt + 1 in
        if mn <=? cnt' then true else satisfy_from logs mn cnt' rest
      else satisfy_from logs mn cnt rest
  end.

Definition satisfy_min (g : wgroup) (ws : wmap) : bool := satisfy_from (wg_logs g) (wg_min g) 0 ws.

(* SetLogWeights: (group afterwards, an error was returned) *)
Definition set_weights (g : wgroup) (ws : wmap) : wgroup * bool :=
  if existsb (fun p => snd p <? 0) ws then (g, true)
  else if negb (satisfy_min g ws) then (g, true)
  else
    let reset := fold_left (fun m l => wset m l 0) (wg_logs g) (wg_w g) in
    (with_w g (fold_left (fun m p => if memN (fst p) (wg_logs g) then wset m (fst p) (snd p) else m) ws reset), false).

(* SetLogWeight *)
Definition set_weight (g : wgroup) (l : N) (w : Z) : wgroup * bool :=
  if negb (memN l (wg_logs g)) then (g, true)
  else if w <? 0 then (g, true)
  else
    let nw := wset (wg_w g) l w in
    if negb (satisfy_min g nw) then (g, true) else (with_w g nw, false).

(* GetSubmissionSession: weighted random order of the logs with positive weight *)
Definition positive_logs (g : wgroup) : list N := map fst (filter (fun p => 0 <? snd p) (wg_w g)).

(* the group as the submission state machine sees it *)
Definition group_of_w (g : wgroup) : group :=
  mkGroup (wg_name g) (wg_logs g) (wg_min g) (wg_isbase g) (positive_logs g).

(* one call of the group API *)
Inductive wcall :=
| WCAll (ws : wmap)
| WCOne (l : N) (w : Z).

Definition wapply (g : wgroup) (c : wcall) : wgroup * bool :=
  match c with WCAll ws => set_weights g ws | WCOne l w => set_weight g l w end.

(* a history of calls on one group; the calls that were refused are returned as well *)
Definition whistory (g : wgroup) (cs : list wcall) : wgroup :=
  fold_left (fun g c => fst (wapply g c)) cs g.

Definition accepted (g : wgroup) (c : wcall) : bool := negb (snd (wapply g c)).

(* the calls of a history that were accepted, each judged in the state it was made in *)
Fixpoint accepted_calls (g : wgroup) (cs : list wcall) : list wcall :=
  match cs with
  | [] => []
  | c :: rest => if accepted g c then c :: accepted_calls (fst (wapply g c)) rest
                 else accepted_calls (fst (wapply g c)) rest
  end.
