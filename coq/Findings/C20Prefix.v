(* C20, finding C20-1 - the tree BEFORE pending_fixes/C20-1.diff.

   trillian.go:  var errRetry = errors.New("retry")      -- a plain error
   Trillian v1.7.1 client/backoff:  Retry returns as soon as IsRetryable(f's error) is false, and
   IsRetryable is true only for four gRPC codes and for values of type backoff.RetriableError.
   So the first ResourceExhausted reply of AddSequencedLeaves ends Retry, addSequencedLeaves returns
   the ResourceExhausted error, the submitter gives up, fetchTail cancels the pass.

   The model of that tree is the model of the patched one with ONE definition changed
   (MigrateModel.errRetry := errRetry_prefix instead of errRetry_patched); the statement refuted is
   Props/C20.v quota_is_retried_not_fatal with fetch_tail taken at errRetry_prefix. *)
From Coq Require Import String ZArith Bool List Lia.
From V Require Import Base.Bytes Migrillian.MigrateModel Migrillian.MigrateDestProofs Migrillian.MigratePassProofs Migrillian.MigrateProofs.
Import ListNotations.
Open Scope Z_scope.

(* the witness found by the harness (seed 1, case 8): one-shot Run, a source of 10 entries, batch size 8,
   empty destination, ONE ResourceExhausted reply to the first batch [0, 8) *)
Definition px_entry (b : Byte.byte) : entry :=
  {| e_input := hex "0000"%string ++ hex "0000000000000001"%string ++ hex "0000"%string ++ hex "000001"%string ++ [b] ++ hex "0000"%string;
     e_extra := hex "000000"%string |}.
Definition px_src : list entry :=
  map px_entry [Byte.x01; Byte.x02; Byte.x03; Byte.x04; Byte.x05; Byte.x06; Byte.x07; Byte.x08; Byte.x09; Byte.x0a].
Definition px_cfg : config := {| c_batch := 8; c_start := -1; c_end := 0; c_continuous := false; c_nocheck := false; c_idf := IdLeafIndex |}.
Definition px_world : world := {| w_src := px_src; w_dest := {| d_leaves := []; d_size := 0 |}; w_ver := 0 |}.
Definition px_script : pscript bool :=
  {| ps_grow := []; ps_integrate := 0; ps_root := RootOk; ps_sth := SthOk 10 []; ps_cons := ConsErr;
     ps_short := []; ps_srcerr := []; ps_replies := [(0, [quota_reply])] |}.

Definition px_sha (b : bytes) : bytes := b.
Definition px_x509 (_ : bytes) : xverdict := XOk.
Definition px_mth (_ : list bytes) : bytes := [].
Definition px_vcons (_ _ : Z) (pf : bool) (_ _ : bytes) : bool := pf.

Lemma px_quota_only : forall s, quota_only (script_of (ps_replies px_script) s).
Proof.
  intros s. unfold script_of. cbn [ps_replies px_script assoc]. destruct (0 =? s); [constructor; [reflexivity | constructor] | constructor].
Qed.

(* every hypothesis of quota_is_retried_not_fatal holds, and the pass fails with nothing stored *)
Theorem quota_is_retried_not_fatal_refuted :
  exists cfg begin w (ps : pscript bool) n r,
    world_inv px_sha px_x509 (c_idf cfg) w /\
    ps_root ps = RootOk /\ ps_sth ps = SthOk n r /\ begin < n /\ n <= Z.of_nat (length (w_src w)) /\
    fst (gate bool px_vcons cfg (d_size (w_dest w)) (dest_root px_mth (w_dest w)) n r (ps_cons ps)) = true /\
    0 < c_batch cfg /\
    (forall e, In e (w_src w) -> raw_log_entry e <> None) /\
    (forall p v, assoc (ps_short ps) p = Some v -> 1 <= v) /\
    (forall s, quota_only (script_of (ps_replies ps) s)) /\
    let o := fetch_tail_gen bool px_sha px_x509 px_mth px_vcons errRetry_prefix cfg begin w ps in
    po_res o = PErr /\ d_leaves (po_dest o) = [] /\
    map (fun q => (rr_start q, length (rr_leaves q), rr_reply q)) (po_stream o) = [(0, 8%nat, RpcCode 8)].
Proof.
  exists px_cfg, 0, px_world, px_script, 10, [].
  split; [apply world_inv_empty|].
  split; [reflexivity|]. split; [reflexivity|]. split; [lia|]. split; [vm_compute; discriminate|].
  split; [reflexivity|]. split; [reflexivity|].
  split. { intros e He. vm_compute in He. repeat (destruct He as [<- | He]; [vm_compute; discriminate|]). contradiction. }
  split; [intros p v H; discriminate|].
  split; [exact px_quota_only|].
  vm_compute. repeat split.
Qed.
Print Assumptions quota_is_retried_not_fatal_refuted.

(* the same input on the patched tree: retried once, everything stored *)
Example same_input_after_the_fix :
  let o := fetch_tail bool px_sha px_x509 px_mth px_vcons px_cfg 0 px_world px_script in
  po_res o = POk 10 /\ length (d_leaves (po_dest o)) = 10%nat /\
  map (fun q => (rr_start q, length (rr_leaves q), rr_attempt q, match rr_reply q with RpcCode c => c | _ => 0 end)) (po_stream o)
  = [(0, 8%nat, 0%nat, 8); (0, 8%nat, 1%nat, 0); (8, 2%nat, 0%nat, 0)].
Proof. vm_compute. repeat split. Qed.

(* and the one place where the two trees differ *)
Example the_difference : is_retryable errRetry_prefix = false /\ is_retryable errRetry_patched = true /\ errRetry = errRetry_patched.
Proof. repeat split. Qed.
