(* C03: the embedded SCT list (RFC 6962 s3.3): x509util.MarshalSCTsIntoSCTList +
   submission.ASN1MarshalSCTs on the way in, parseCertificate's SCT-list extension parsing +
   x509util.ParseSCTsFromSCTList on the way out, over the GENERATED TLS descriptors. *)
From Coq Require Import String NArith Bool Lia PeanoNat List.
From V Require Import Base.Bytes TLS.TlsModel TLS.TlsLemmas TLS.TlsRoundTripA TLS.TlsRoundTripB gen.CtTypes CT.CtFuncs X509.Der X509.PrecertModel.
Import ListNotations.
Local Open Scope N_scope.

Definition wrap (b : bytes) : val := VStruct [Some (VBytes b)].            (* SerializedSCT *)

Fixpoint marshal_each (l : list val) : res (list bytes) :=
  match l with
  | [] => Ok []
  | s :: r => match marshal gen_SignedCertificateTimestamp None s with
              | Ok b => match marshal_each r with Ok bs => Ok (b :: bs) | e => e end
              | ErrSyntax => ErrSyntax | ErrStruct => ErrStruct | Panic => Panic | Hang => Hang
              end
  end.

(* the value of the SCT-list certificate extension for a list of SCTs *)
Definition asn1_marshal_scts (l : list val) : res bytes :=
  match l with
  | [] => ErrStruct
  | _ => match marshal_each l with
         | Ok encs =>
             match marshal gen_SCTList None (VStruct [Some (VList (map wrap encs))]) with
             | Ok tl => Ok (enc_tlv tOCTET tl)
             | e => e
             end
         | ErrSyntax => ErrSyntax | ErrStruct => ErrStruct | Panic => Panic | Hang => Hang
         end
  end.

Fixpoint parse_each (ws : list val) : res (list val) :=
  match ws with
  | [] => Ok []
  | VStruct [Some (VBytes b)] :: r =>
      match complete gen_SignedCertificateTimestamp b with
      | Ok s => match parse_each r with Ok ss => Ok (s :: ss) | e => e end
      | ErrSyntax => ErrSyntax | ErrStruct => ErrStruct | Panic => Panic | Hang => Hang
      end
  | _ => Panic
  end.

(* reading the list back from the extension value *)
Definition parse_sct_extension (v : bytes) : res (list val) :=
  match dec_tlv v with
  | Some (t, c, []) =>
      if byte_is t tOCTET then
        match complete gen_SCTList c with
        | Ok (VStruct [Some (VList ws)]) => parse_each ws
        | Ok _ => Panic
        | ErrSyntax => ErrSyntax | ErrStruct => ErrStruct | Panic => Panic | Hang => Hang
        end
      else ErrStruct
  | _ => ErrSyntax
  end.

(* ---- proofs ---- *)
Lemma sized_sct : sized gen_SignedCertificateTimestamp None = true. Proof. vm_compute. reflexivity. Qed.
Lemma sized_sctlist : sized gen_SCTList None = true. Proof. vm_compute. reflexivity. Qed.

Lemma PrecertProofs_low_oct : low_tag tOCTET = true.
Proof. vm_compute. reflexivity. Qed.

Lemma wt_sctlist encs : wt gen_SCTList (VStruct [Some (VList (map wrap encs))]).
Proof. cbn. split; [|exact I]. induction encs; constructor; cbn; auto. Qed.

Global Opaque gen_SignedCertificateTimestamp gen_SCTList.

Lemma complete_marshal t v bs : sized t None = true -> wt t v -> short bs -> marshal t None v = Ok bs -> complete t bs = Ok v.
Proof.
  intros Hs Hw Hsh Hm. unfold complete.
  pose proof (proj1 roundtripA t None v bs Hs Hm Hsh Hw []) as H. rewrite app_nil_r in H. rewrite H. reflexivity.
Qed.

Lemma parse_marshal_each l encs :
  marshal_each l = Ok encs -> Forall (wt gen_SignedCertificateTimestamp) l -> Forall short encs ->
  parse_each (map wrap encs) = Ok l.
Proof.
  revert encs. induction l as [|s r IH]; intros encs Hm Hw Hsh; cbn [marshal_each] in Hm.
  - inversion Hm; subst. reflexivity.
  - destruct (marshal gen_SignedCertificateTimestamp None s) as [b| | | |] eqn:Es; try discriminate.
    destruct (marshal_each r) as [bs| | | |] eqn:Er; try discriminate.
    inversion Hm; subst. inversion Hw; subst. inversion Hsh; subst.
    cbn [map parse_each wrap]. rewrite (complete_marshal _ s b sized_sct); auto.
    rewrite (IH bs eq_refl); auto.
Qed.

Lemma marshal_each_short l encs :
  marshal_each l = Ok encs ->
  Forall (fun s => forall b, marshal gen_SignedCertificateTimestamp None s = Ok b -> short b) l ->
  Forall short encs.
Proof.
  revert encs. induction l as [|s r IH]; intros encs Hm Hs; cbn [marshal_each] in Hm.
  - inversion Hm; constructor.
  - destruct (marshal gen_SignedCertificateTimestamp None s) as [b| | | |] eqn:Es; try discriminate.
    destruct (marshal_each r) as [bs| | | |] eqn:Er; try discriminate.
    inversion Hm; subst. inversion Hs; subst. constructor; auto.
Qed.

(* the SCT list read back from the extension equals, element for element, the list embedded *)
Lemma sct_list_roundtrip_lemma l v :
  asn1_marshal_scts l = Ok v ->
  Forall (wt gen_SignedCertificateTimestamp) l ->
  Forall (fun s => forall b, marshal gen_SignedCertificateTimestamp None s = Ok b -> short b) l ->
  len v < max_len ->
  parse_sct_extension v = Ok l.
Proof.
  unfold asn1_marshal_scts. destruct l as [|s0 r0]; [discriminate|]. set (l := s0 :: r0).
  destruct (marshal_each l) as [encs| | | |] eqn:Ee; try discriminate.
  destruct (marshal gen_SCTList None (VStruct [Some (VList (map wrap encs))])) as [tl| | | |] eqn:Et; try discriminate.
  intros H Hw Hshort Hlen. inversion H; subst v; clear H.
  unfold parse_sct_extension.
  assert (Htl : len tl < max_len).
  { unfold enc_tlv, len in Hlen. cbn [length] in Hlen. rewrite app_length in Hlen. unfold len. lia. }
  rewrite <- (app_nil_r (enc_tlv tOCTET tl)). rewrite dec_enc_tlv; [| apply PrecertProofs_low_oct | exact Htl].
  replace (byte_is tOCTET tOCTET) with true by (vm_compute; reflexivity).
  assert (Hsh : short tl). { unfold short, two64N. unfold len, max_len in Htl. lia. }
  rewrite (complete_marshal _ _ tl sized_sctlist (wt_sctlist encs) Hsh Et).
  apply parse_marshal_each; auto. eapply marshal_each_short; eauto.
Qed.

(* an empty list cannot be embedded *)
Lemma sct_list_nonempty : asn1_marshal_scts [] = ErrStruct.
Proof. reflexivity. Qed.
