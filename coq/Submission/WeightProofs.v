(* C17 - lemmas about the group weight setters (Submission/WeightModel.v). *)
From Coq Require Import ZArith NArith Bool List.
From V Require Import Submission.SubmitModel Submission.WeightModel.
Import ListNotations.
Open Scope Z_scope.

(* a refused call (bulk or single) leaves the group exactly as it was *)
Lemma L_refused_unchanged : forall g c, snd (wapply g c) = true -> fst (wapply g c) = g.
Proof.
  intros g [ws | l w]; simpl.
  - unfold set_weights.
    destruct (existsb (fun p => snd p <? 0) ws) eqn:Eneg; simpl; [reflexivity |].
    destruct (negb (satisfy_min g ws)) eqn:Esat; simpl; [reflexivity | discriminate].
  - unfold set_weight.
    destruct (negb (memN l (wg_logs g))) eqn:Emem; simpl; [reflexivity |].
    destruct (w <? 0) eqn:Eneg; simpl; [reflexivity |].
    destruct (negb (satisfy_min g (wset (wg_w g) l w))) eqn:Esat; simpl; [reflexivity | discriminate].
Qed.

(* hence its submission session, i.e. what a group race will contact, is unchanged *)
Lemma L_refused_session_unchanged : forall g c,
  snd (wapply g c) = true -> group_of_w (fst (wapply g c)) = group_of_w g.
Proof. intros g c H. rewrite (L_refused_unchanged g c H). reflexivity. Qed.

(* no call changes anything but the weights *)
Lemma L_static_fields : forall g c,
  wg_name (fst (wapply g c)) = wg_name g /\ wg_logs (fst (wapply g c)) = wg_logs g /\
  wg_min (fst (wapply g c)) = wg_min g /\ wg_isbase (fst (wapply g c)) = wg_isbase g.
Proof.
  intros g [ws | l w]; simpl.
  - unfold set_weights.
    destruct (existsb (fun p => snd p <? 0) ws); simpl; [repeat split |].
    destruct (negb (satisfy_min g ws)); simpl; repeat split.
  - unfold set_weight.
    destruct (negb (memN l (wg_logs g))); simpl; [repeat split |].
    destruct (w <? 0); simpl; [repeat split |].
    destruct (negb (satisfy_min g (wset (wg_w g) l w))); simpl; repeat split.
Qed.

(* for every history of calls: the resulting group is the one the accepted calls alone produce *)
Lemma L_history_accepted_only : forall cs g, whistory g cs = whistory g (accepted_calls g cs).
Proof.
  induction cs as [| c rest IH]; intro g; [reflexivity |].
  unfold whistory in *. simpl.
  unfold accepted. destruct (snd (wapply g c)) eqn:E; simpl.
  - rewrite (L_refused_unchanged g c E). apply IH.
  - apply IH.
Qed.
