(* C11 - parsing a concatenation vs parsing each certificate alone, and the top-level Raw
   field, over the abstract inner parser with inputs that are lists (B := list A).

   Hypotheses (all about the ABSTRACT asn1.Unmarshal, stated where they are used):
     prefix property  - on an input that starts with one complete element [a] ([framed a]),
                        Unmarshal behaves as on [a] alone and returns what follows as rest;
     consumes         - a successful Unmarshal returns a strictly shorter rest;
     raw              - the structure remembers the bytes it was parsed from (RawContent). *)
From Coq Require Import List Bool Arith Lia Permutation.
From V Require Import X509.WrapperShape X509.WrapperModel X509.WrapperProofs.
Import ListNotations.
Local Open Scope list_scope.

Section Concat.
  Variables A St Ob E : Type.
  Let B := list A.
  Definition is_nil (b : list A) : bool := match b with [] => true | _ => false end.
  Variable unm : bool -> B -> ures B St E.
  Variable parse : St -> option Ob * err E.
  Variable e_trailing : E.

  Notation stl := (strict_then_lax B St E unm).
  Notation parse_single := (parse_single B is_nil St Ob E unm parse e_trailing).
  Notation parse_many := (parse_many B is_nil (@List.length A) St Ob E unm parse).
  Notation unmarshal_all := (unmarshal_all_gen B is_nil St E unm (fun x => x)).
  Notation parse_all := (parse_all St Ob E parse).

  Variable framed : list A -> Prop.
  Hypothesis prefix_property : forall lax a b, framed a ->
    unm lax (a ++ b) = match unm lax a with UOk s r => UOk s (r ++ b) | UErr e => UErr e end.
  Hypothesis framed_rest : forall lax a s r, framed a -> unm lax a = UOk s r -> r = [].
  Hypothesis framed_nonempty : forall a, framed a -> a <> [].

  (* the err.(NonFatalErrors) / err == nil test of the wrappers *)
  Definition passes {T} (r : option T * err E) : bool :=
    match snd r with ErrNil | ErrNfe _ => true | _ => false end.
  Definition errs_of (e : err E) : list E := match e with ErrNfe es => es | _ => [] end.

  Lemma stl_app a b : framed a ->
    stl (a ++ b) = match stl a with inl (s, r, es) => inl (s, r ++ b, es) | inr le => inr le end.
  Proof.
    intro Hf. unfold strict_then_lax, strict_then_lax_gen.
    rewrite (prefix_property false a b Hf). destruct (unm false a); [reflexivity|].
    rewrite (prefix_property true a b Hf). destruct (unm true a); reflexivity.
  Qed.

  Lemma stl_framed_rest a s r es : framed a -> stl a = inl (s, r, es) -> r = [].
  Proof.
    intro Hf. unfold strict_then_lax, strict_then_lax_gen.
    destruct (unm false a) eqn:E1.
    - intro H. inversion H; subst. eapply framed_rest; eauto.
    - destruct (unm true a) eqn:E2; intro H; inversion H; subst. eapply framed_rest; eauto.
  Qed.

  (* what the first loop computes, piece by piece *)
  Fixpoint spec_unm (cs : list (list A)) : (list St * list E) + E :=
    match cs with
    | [] => inl ([], [])
    | c :: cs' =>
      match stl c with
      | inr le => inr le
      | inl (s, _, es) =>
        match spec_unm cs' with
        | inr le => inr le
        | inl (ss, es') => inl (s :: ss, es ++ es')
        end
      end
    end.

  Lemma unmarshal_all_concat cs : Forall framed cs ->
    forall f, List.length (concat cs) < f -> unmarshal_all f (concat cs) = Some (spec_unm cs).
  Proof.
    induction 1 as [|c cs Hc Hcs IH]; intros f Hlt.
    - simpl. destruct f; reflexivity.
    - simpl concat. pose proof (framed_nonempty c Hc) as Hne.
      destruct f as [|f]; [lia|].
      assert (Hnil : is_nil (c ++ concat cs) = false) by (destruct c; [congruence | reflexivity]).
      simpl. rewrite Hnil.
      fold (strict_then_lax B St E unm (c ++ concat cs)).
      rewrite (stl_app c (concat cs) Hc).
      destruct (stl c) as [[[s r] es] | le] eqn:Es; [|reflexivity].
      apply stl_framed_rest in Es; [|exact Hc]. subst r. simpl app.
      rewrite IH.
      + destruct (spec_unm cs) as [[ss es'] | le]; reflexivity.
      + simpl in Hlt. rewrite app_length in Hlt. destruct c; [congruence | simpl in Hlt; lia].
  Qed.

  Lemma single_framed c : framed c ->
    parse_single c = match stl c with
                     | inr le => (None, ErrOther le)
                     | inl (s, _, es) => after_parse Ob E es (parse s)
                     end.
  Proof.
    intro Hf. unfold WrapperModel.parse_single.
    destruct (stl c) as [[[s r] es] | le] eqn:Es; [|reflexivity].
    apply stl_framed_rest in Es; [|exact Hf]. subst r. reflexivity.
  Qed.

  Lemma errs_of_finish {T} (o : option T) l : errs_of (snd (finish E o l)) = l.
  Proof. unfold finish. destruct l; reflexivity. Qed.
  Lemma fst_finish {T} (o : option T) l : fst (finish E o l) = o.
  Proof. unfold finish. destruct l; reflexivity. Qed.
  Lemma passes_finish {T} (o : option T) l : passes (finish E o l) = true.
  Proof. unfold finish, passes. destruct l; reflexivity. Qed.

  Lemma perm_step (es1 es' p1 pes R : list E) :
    Permutation (es' ++ pes) R -> Permutation ((es1 ++ es') ++ (p1 ++ pes)) ((es1 ++ p1) ++ R).
  Proof.
    intro H. rewrite <- !app_assoc. apply Permutation_app_head.
    eapply Permutation_trans; [apply Permutation_app_swap_app|].
    apply Permutation_app_head. exact H.
  Qed.

  Definition singles (cs : list (list A)) := map (fun c => parse_single c) cs.

  Lemma many_spec cs : Forall framed cs ->
    match spec_unm cs with
    | inr le => exists c, In c cs /\ parse_single c = (None, ErrOther le)
    | inl (ss, es) =>
      match parse_all ss with
      | inr e => exists c, In c cs /\ parse_single c = (None, e) /\ passes (parse_single c) = false
      | inl (os, pes) =>
        Forall (fun r => passes r = true) (singles cs) /\ os = map fst (singles cs) /\
        Permutation (es ++ pes) (concat (map (fun r => errs_of (snd r)) (singles cs)))
      end
    end.
  Proof.
    induction 1 as [|c cs Hc Hcs IH]; [simpl; auto|].
    simpl spec_unm. pose proof (single_framed c Hc) as Hs.
    destruct (stl c) as [[[s r] es1] | le] eqn:Es.
    2:{ exists c. split; [left; reflexivity | exact Hs]. }
    destruct (spec_unm cs) as [[ss es'] | le].
    2:{ destruct IH as [c' [Hin Hc']]. exists c'. split; [right; exact Hin | exact Hc']. }
    simpl parse_all. unfold after_parse in Hs.
    destruct (parse s) as [o e] eqn:Ep. simpl in Hs. simpl.
    destruct e as [|p1|ids|e0].
    - destruct (parse_all ss) as [[os pes] | e'].
      + destruct IH as [IH1 [IH2 IH3]]. simpl singles. rewrite Hs. repeat split.
        * constructor; [apply passes_finish | exact IH1].
        * simpl. rewrite fst_finish, IH2. reflexivity.
        * simpl. rewrite errs_of_finish. rewrite <- app_assoc. apply Permutation_app_head. exact IH3.
      + destruct IH as [c' [Hin [Hc' Hp]]]. exists c'. repeat split; [right; exact Hin | exact Hc' | exact Hp].
    - destruct (parse_all ss) as [[os pes] | e'].
      + destruct IH as [IH1 [IH2 IH3]]. simpl singles. rewrite Hs. repeat split.
        * constructor; [apply passes_finish | exact IH1].
        * simpl. rewrite fst_finish, IH2. reflexivity.
        * simpl. rewrite errs_of_finish. apply perm_step. exact IH3.
      + destruct IH as [c' [Hin [Hc' Hp]]]. exists c'. repeat split; [right; exact Hin | exact Hc' | exact Hp].
    - exists c. repeat split; [left; reflexivity | exact Hs | rewrite Hs; reflexivity].
    - exists c. repeat split; [left; reflexivity | exact Hs | rewrite Hs; reflexivity].
  Qed.

  Lemma parse_many_concat cs : Forall framed cs ->
    parse_many (concat cs) =
    match spec_unm cs with
    | inr le => WRet None (ErrOther le)
    | inl (ss, es) =>
      match parse_all ss with
      | inr e => WRet None e
      | inl (os, pes) => let r := finish E (Some os) (es ++ pes) in WRet (fst r) (snd r)
      end
    end.
  Proof.
    intro Hf. unfold WrapperModel.parse_many, parse_many_gen.
    rewrite (unmarshal_all_concat cs Hf); [|lia].
    destruct (spec_unm cs) as [[ss es] | le]; reflexivity.
  Qed.

  (* Parsing a concatenation of complete certificates gives the same per-certificate outcome
     as parsing each alone: if every certificate alone yields (object, nil | NonFatalErrors),
     the concatenation yields exactly those objects, in order, with the union of the
     non-fatal errors; otherwise it yields (nil, e) where e is the error some certificate
     yields alone. *)
  Theorem concatenation_same_as_each_lemma cs : Forall framed cs ->
    (Forall (fun r => passes r = true) (singles cs) ->
       exists e, parse_many (concat cs) = WRet (Some (map fst (singles cs))) e /\ passes (Some tt, e) = true /\
                 Permutation (errs_of e) (concat (map (fun r => errs_of (snd r)) (singles cs))))
    /\ (~ Forall (fun r => passes r = true) (singles cs) ->
       exists c e, In c cs /\ parse_single c = (None, e) /\ passes (parse_single c) = false /\
                   parse_many (concat cs) = WRet None e).
  Proof.
    intro Hf. rewrite (parse_many_concat cs Hf). pose proof (many_spec cs Hf) as Hm.
    assert (Hno : forall c, In c cs -> passes (parse_single c) = false ->
                  Forall (fun r => passes r = true) (singles cs) -> False).
    { intros c Hin Hp Hall. rewrite Forall_forall in Hall.
      specialize (Hall (parse_single c)). rewrite Hp in Hall.
      assert (false = true); [|discriminate]. apply Hall. unfold singles. apply in_map_iff. exists c. auto. }
    destruct (spec_unm cs) as [[ss es] | le].
    - destruct (parse_all ss) as [[os pes] | e].
      + destruct Hm as [H1 [H2 H3]]. split.
        * intros _. exists (snd (finish E (Some os) (es ++ pes))). cbv zeta. repeat split.
          -- rewrite fst_finish, H2. reflexivity.
          -- unfold finish, passes. destruct (es ++ pes); reflexivity.
          -- rewrite errs_of_finish. exact H3.
        * intro Hn. contradiction.
      + destruct Hm as [c [Hin [Hc Hp]]]. split.
        * intro Hall. exfalso. eapply Hno; eauto.
        * intros _. exists c, e. auto.
    - destruct Hm as [c [Hin Hc]]. split.
      + intro Hall. exfalso. eapply (Hno c Hin); [rewrite Hc; reflexivity | exact Hall].
      + intros _. exists c, (ErrOther le). repeat split; auto. rewrite Hc. reflexivity.
  Qed.

  (* ---- the top-level Raw field ---- *)
  Variable raw : St -> list A.             (* certificate.Raw (asn1.RawContent) *)
  Variable obj_raw : Ob -> list A.         (* Certificate.Raw *)
  Hypothesis unm_raw : forall lax b s rest, unm lax b = UOk s rest -> b = raw s ++ rest.
  Hypothesis parse_keeps_raw : forall s o, fst (parse s) = Some o -> obj_raw o = raw s.   (* out.Raw = in.Raw *)

  Lemma stl_raw b s rest es : stl b = inl (s, rest, es) -> b = raw s ++ rest.
  Proof.
    unfold strict_then_lax, strict_then_lax_gen. destruct (unm false b) eqn:E1.
    - intro H. inversion H; subst. eapply unm_raw; eauto.
    - destruct (unm true b) eqn:E2; intro H; inversion H; subst. eapply unm_raw; eauto.
  Qed.

  Lemma fst_after_parse nfe r o : fst (after_parse Ob E nfe r) = Some o -> fst r = Some o.
  Proof.
    destruct r as [o' e]. unfold after_parse. simpl.
    destruct e; simpl; try discriminate; rewrite fst_finish; auto.
  Qed.

  (* ParseCertificate: the object's Raw is the whole input *)
  Theorem raw_single b o e : parse_single b = (Some o, e) -> obj_raw o = b.
  Proof.
    unfold WrapperModel.parse_single.
    destruct (stl b) as [[[s rest] nfe] | le] eqn:Es; [|discriminate].
    destruct rest as [|x rest]; simpl; [|discriminate].
    intro H. apply stl_raw in Es. rewrite app_nil_r in Es. subst b.
    apply parse_keeps_raw. apply (fst_after_parse nfe). rewrite H. reflexivity.
  Qed.

  Lemma unmarshal_all_raw f : forall b ss es, unmarshal_all f b = Some (inl (ss, es)) -> concat (map raw ss) = b.
  Proof.
    induction f as [|f IH]; intros b ss es; simpl.
    - destruct b; simpl; [|discriminate]. intro H. inversion H. reflexivity.
    - destruct b as [|x b']; simpl; [intro H; inversion H; reflexivity|].
      fold (strict_then_lax B St E unm (x :: b')).
      destruct (stl (x :: b')) as [[[s rest] es1] | le] eqn:Es; [|discriminate].
      destruct (unmarshal_all f rest) as [[[ss' es'] | le] |] eqn:Eu; try discriminate.
      intro H. inversion H; subst. simpl. rewrite (IH _ _ _ Eu). symmetry. eapply stl_raw; eauto.
  Qed.

  Lemma parse_all_objs ss : forall os pes, parse_all ss = inl (os, pes) -> os = map (fun s => fst (parse s)) ss.
  Proof.
    induction ss as [|s ss IH]; simpl; intros os pes H; [inversion H; reflexivity|].
    destruct (snd (parse s)); try discriminate;
      destruct (parse_all ss) as [[os' pes'] | e']; try discriminate;
      inversion H; subst; f_equal; eapply IH; reflexivity.
  Qed.

  (* ParseCertificates: the objects' Raw fields are consecutive pieces that tile the input *)
  Theorem raw_many b os e : parse_many b = WRet (Some os) e ->
    exists ss, concat (map raw ss) = b /\ os = map (fun s => fst (parse s)) ss /\
               (forall s o, In s ss -> fst (parse s) = Some o -> obj_raw o = raw s).
  Proof.
    unfold WrapperModel.parse_many, parse_many_gen.
    destruct (unmarshal_all (S (List.length b)) b) as [[[ss es] | le] |] eqn:Eu; try discriminate.
    destruct (parse_all ss) as [[os' pes] | e'] eqn:Ep; try discriminate.
    intro H. inversion H. rewrite fst_finish in H1. inversion H1; subst os'.
    exists ss. repeat split.
    - eapply unmarshal_all_raw; eauto.
    - eapply parse_all_objs; eauto.
    - intros s o _ Ho. apply parse_keeps_raw. exact Ho.
  Qed.
End Concat.
