(* C10 - the ASN.1 fork is as strict as upstream; lax mode only adds acceptances.
   Property theorems only.  Model: ASN1/DerHeader.v (L1), DerPrim.v (L2+L3), DerModel.v (L4),
   tied to /repo/asn1 and to encoding/asn1 (go1.23.5) by the three-way differential harness c10.
   Documented differences D (fork versus encoding/asn1 go1.23.5; closed list):
     D1 field names in error messages (not observable here: errors are compared by class);
     D2 upstream rejects a base-128 integer (tag number, OID sub-identifier) whose first octet is 0x80;
     D3 upstream accepts fractional seconds in GeneralizedTime;
     D4 (void: recorded at design time as "BOOLEAN into any"; encoding/asn1 go1.23.5 does not do that);
     D5 upstream returns an error for a nil / non-pointer target, the fork panics (outside the model);
     D6 upstream sorts the element encodings of a SET OF on marshal. *)
From Coq Require Import String ZArith List Bool.
From Coq.Strings Require Import Byte.
From V Require Import Base.Bytes ASN1.DerBase ASN1.DerHeader ASN1.DerHeaderProofs ASN1.DerPrim ASN1.DerPrimProofs
  ASN1.DerModel ASN1.DerStructProofs ASN1.DerSimProofs ASN1.DerHeadline ASN1.DerTotalProofs
  ASN1.DerRoundTrip ASN1.DerRoundTripField ASN1.Differences ASN1.DerPrefixProofs ASN1.DerGenTie ASN1.DerGenLoops Base.GoInt gen.Asn1.
Import ListNotations.
Local Open Scope Z_scope.

(* ---------------- L1: TLV headers ---------------- *)

(* what DER writes for a header is read back, by both decoders, whatever follows *)
Theorem header_emit_parse : forall v t rest, tl_canonical t -> parse_tl v (append_tl t ++ rest) = Ok (t, rest).
Proof. exact header_roundtrip. Qed.
Print Assumptions header_emit_parse.

(* an accepted header is the DER one: long-form lengths minimal, no indefinite length, tag numbers
   minimal (for the fork: unless the tag number starts with 0x80, which is D2) *)
Theorem header_parse_emit : forall v d t rest,
  parse_tl v d = Ok (t, rest) -> (v = Upstream \/ ~ long_tag_leading80 d) -> d = append_tl t ++ rest.
Proof. exact header_canonical. Qed.
Print Assumptions header_parse_emit.

(* parseTagAndLength looks at the header octets only, consumes at least two, never panics *)
Theorem header_prefix_property : forall v d t rest,
  parse_tl v d = Ok (t, rest) ->
  exists h, d = h ++ rest /\ (2 <= length h)%nat /\ (forall rest', parse_tl v (h ++ rest') = Ok (t, rest')).
Proof. exact parse_tl_prefix. Qed.
Print Assumptions header_prefix_property.

Theorem header_no_panic : forall v d, parse_tl v d <> Panic /\ parse_tl v d <> Hang.
Proof. exact parse_tl_total. Qed.
Print Assumptions header_no_panic.

(* class, tag number and length are bounded (length < 2^31: "length too large" otherwise) *)
Theorem header_bounded : forall v d t rest, parse_tl v d = Ok (t, rest) -> tl_canonical t.
Proof. exact parse_tl_bound. Qed.
Print Assumptions header_bounded.

(* D2 is the only difference between the two header parsers *)
Theorem header_fork_eq_upstream_modulo_D2 : forall d, parse_tl Upstream d = parse_tl Fork d \/ long_tag_leading80 d.
Proof. exact parse_tl_variant. Qed.
Print Assumptions header_fork_eq_upstream_modulo_D2.

(* ---------------- L2 + L3: primitives ---------------- *)

(* the three relaxations: each is monotone, and differs from the strict parser only on the
   documented malformation *)
Theorem lax_integer : forall c,
  (forall u, check_integer false c = Ok u -> check_integer true c = Ok u) /\
  (check_integer true c = check_integer false c \/ nonminimal_int c).
Proof. intros c. split; [exact (check_integer_mono c)|exact (check_integer_lax c)]. Qed.
Print Assumptions lax_integer.

Theorem lax_oid : forall b c,
  (forall l, parse_oid b false c = Ok l -> parse_oid b true c = Ok l) /\
  (parse_oid b true c = parse_oid b false c \/ c = []).
Proof. intros b c. split; [exact (parse_oid_mono b c)|exact (parse_oid_lax b c)]. Qed.
Print Assumptions lax_oid.

Theorem lax_printable : forall c,
  (forall s, parse_printable false c = Ok s -> parse_printable true c = Ok s) /\
  (parse_printable true c = parse_printable false c \/ printable_8bit c).
Proof. intros c. split; [exact (parse_printable_mono c)|exact (parse_printable_lax c)]. Qed.
Print Assumptions lax_printable.

(* D2 inside OIDs, D3 in GeneralizedTime: the only primitive-level differences, each one-directional *)
Theorem oid_fork_eq_upstream_modulo_D2 : forall lax c,
  (parse_oid (parse_base128 Upstream) lax c = parse_oid (parse_base128 Fork) lax c \/ oid_leading80 c) /\
  (forall l, parse_oid (parse_base128 Upstream) lax c = Ok l -> parse_oid (parse_base128 Fork) lax c = Ok l).
Proof. intros lax c. split; [exact (parse_oid_variant lax c)|exact (parse_oid_up_fork lax c)]. Qed.
Print Assumptions oid_fork_eq_upstream_modulo_D2.

Theorem gentime_fork_eq_upstream_modulo_D3 : forall c,
  (parse_gentime true c = parse_gentime false c \/ gentime_fraction c) /\
  (forall t, parse_gentime false c = Ok t -> parse_gentime true c = Ok t).
Proof. intros c. split; [exact (parse_gentime_variant c)|exact (parse_gentime_fork_up c)]. Qed.
Print Assumptions gentime_fork_eq_upstream_modulo_D3.

(* every variant/lax dependent primitive is total (no panic, the OID loop terminates) *)
Theorem primitives_no_panic : forall v lax, leaves_total (leaves_of v lax).
Proof. exact leaves_of_total. Qed.
Print Assumptions primitives_no_panic.

(* ---------------- L4: UnmarshalWithParams, every supported kind, any nesting ---------------- *)

(* the flag is handed down unchanged at the two places where parseField / parseSequenceOf build
   parameters for nested values (a field's own "lax" token is overridden by the parent's flag) *)
Theorem lax_handed_down : forall v toks b, p_lax (field_params v toks b) = b /\ p_lax (elem_params b) = b.
Proof. intros v toks b. split; [apply p_lax_field_params|apply p_lax_elem_params]. Qed.
Print Assumptions lax_handed_down.

(* and therefore a run started with parameters p consults the variant/lax dependent components
   only at (p_lax p), in every nested field and sequence element, for every type *)
Theorem lax_propagates_to_all_nested_fields : forall v L t p d,
  parse_field v L t p d = parse_field Fork (fun _ => L (p_lax p)) t (set_lax false p) d.
Proof. exact parse_field_threaded. Qed.
Print Assumptions lax_propagates_to_all_nested_fields.

(* lax mode accepts everything strict mode accepts, with the identical value and remainder *)
Theorem lax_extends_strict : forall t toks d r, ~ In KLax toks ->
  unmarshal Fork t toks d = Ok r -> unmarshal Fork t (toks ++ [KLax]) d = Ok r.
Proof. exact lax_extends_strict_thm. Qed.
Print Assumptions lax_extends_strict.

(* and the two modes give the same outcome (value, remainder, or error class) unless an element whose
   content is one of the three documented malformations is located in the input *)
Theorem lax_only_documented : forall t toks d, ~ In KLax toks ->
  unmarshal Fork t toks d = unmarshal Fork t (toks ++ [KLax]) d \/ located_lax d.
Proof. exact lax_only_documented_thm. Qed.
Print Assumptions lax_only_documented.

(* strict fork and encoding/asn1 give the same outcome unless D2 or D3 is located in the input *)
Theorem fork_strict_eq_upstream_modulo_D : forall t toks d, ~ In KLax toks ->
  unmarshal Fork t toks d = unmarshal Upstream t toks d \/ located_D d.
Proof. exact fork_strict_eq_upstream_thm. Qed.
Print Assumptions fork_strict_eq_upstream_modulo_D.

Theorem upstream_ignores_lax : forall t toks d, unmarshal Upstream t (toks ++ [KLax]) d = unmarshal Upstream t toks d.
Proof. exact upstream_has_no_lax. Qed.
Print Assumptions upstream_ignores_lax.

(* RawContent is exactly the consumed slice of the input (also when the optional struct is absent:
   then both are empty); RawValue.FullBytes likewise, and Bytes is its tail *)
Theorem raw_content_is_consumed_slice : forall v fs toks d rc vs rest,
  unmarshal v (TStruct true fs) toks d = Ok (VStruct (Some rc) vs, rest) -> d = rc ++ rest.
Proof. intros v fs toks d rc vs rest. apply raw_content_slice with (fs := fs). reflexivity. Qed.
Print Assumptions raw_content_is_consumed_slice.

Theorem raw_value_is_consumed_slice : forall v toks d c tg k content full rest,
  unmarshal v TRawValue toks d = Ok (VRaw c tg k (Some content) (Some full), rest) ->
  d = full ++ rest /\ exists hd, full = hd ++ content.
Proof. exact raw_value_slice. Qed.
Print Assumptions raw_value_is_consumed_slice.

(* allocation: a SEQUENCE OF / SET OF yields at most one element per two input octets, and every
   declared length is checked against the remaining input before the content is sliced *)
Theorem alloc_bounded : forall v sn e toks d vs rest,
  unmarshal v (TSeqOf sn e) toks d = Ok (VList vs, rest) -> (2 * length vs <= length d)%nat.
Proof. exact unmarshal_seq_alloc_bound. Qed.
Print Assumptions alloc_bounded.

Theorem declared_length_within_input : forall v t p d h utag inner rest,
  header_phase (parse_base128 v) t p d = Ok (HBody h utag inner rest) ->
  t_len h = zlen inner /\ infix inner d /\ zlen inner + zlen rest + 2 <= zlen d.
Proof. exact content_within_input. Qed.
Print Assumptions declared_length_within_input.

(* the guard itself, as it stands in asn1/asn1.go today (translated on every run): invalidLength is
   "declared length > octets left", also when offset + length wraps around *)
Theorem length_guard_as_in_source : forall off len slen,
  0 <= off <= slen -> slen <= max_i64 -> 0 <= len <= max_i64 ->
  invalid_length_gen off len slen = (slen - off <? len).
Proof. exact invalid_length_meaning. Qed.
Print Assumptions length_guard_as_in_source.

(* the two length loops of the encoder, as they stand in asn1/marshal.go today (translated on every run as
   fuelled while-loops): for every machine integer they return the number of octets the model's emitters
   write, and the translation's fuel never runs out (the out-of-fuel value -1 is excluded by the bounds) *)
Theorem length_octets_as_in_source : forall i,
  0 <= i <= max_i64 -> length_length_gen i = zlen (len_bytes 8 i) /\ 1 <= length_length_gen i <= 8.
Proof. exact length_length_meaning. Qed.
Print Assumptions length_octets_as_in_source.

Theorem base128_octets_as_in_source : forall n,
  min_i64 <= n <= max_i64 ->
  base128_int_length_gen n = zlen (append_base128 n) /\ 0 <= base128_int_length_gen n <= 10.
Proof. exact base128_int_length_meaning. Qed.
Print Assumptions base128_octets_as_in_source.

(* ... and the two loops that WRITE those octets (appendLength, appendBase128Int; octets as Z in the
   translation, bz maps the model's bytes to them): what the source appends to dst is exactly what the model's
   emitters produce, for every machine integer (a negative base-128 operand writes nothing) *)
Theorem length_octets_written_as_in_source : forall dst i,
  0 <= i <= max_i64 -> append_length_gen dst i = dst ++ map bz (len_bytes 8 i).
Proof. exact append_length_meaning. Qed.
Print Assumptions length_octets_written_as_in_source.

Theorem base128_octets_written_as_in_source : forall dst n,
  min_i64 <= n <= max_i64 -> append_base128_gen dst n = dst ++ map bz (append_base128 n).
Proof. exact append_base128_meaning. Qed.
Print Assumptions base128_octets_written_as_in_source.

(* no input makes either decoder panic or loop, for any type, any parameters (the target is a
   non-nil pointer: D5 is a property of the target, outside the quantifier) *)
Theorem no_panic : forall v t toks d, unmarshal v t toks d <> Panic /\ unmarshal v t toks d <> Hang.
Proof. exact unmarshal_total. Qed.
Print Assumptions no_panic.

(* prefix property: for a required (non-optional) top-level element the result depends only on the
   consumed octets - whatever follows them is returned untouched.  (An OPTIONAL element looks at the
   next header by design.  Side condition: parseField reports "explicit tag has no child" when nothing at
   all follows an explicit header, so a zero-length explicit element needs a non-empty continuation if
   it had one.) *)
Theorem prefix_property : forall v t toks d x rest,
  p_optional (parse_params v toks) = false -> unmarshal v t toks d = Ok (x, rest) ->
  exists u, d = u ++ rest /\ forall rest', (rest' = [] -> rest = []) -> unmarshal v t toks (u ++ rest') = Ok (x, rest').
Proof. intros v t toks d x rest. unfold unmarshal. apply (parse_field_prefix v v). intros b; reflexivity. Qed.
Print Assumptions prefix_property.

(* ---------------- Marshal side ---------------- *)

(* DER uniqueness of the primitive contents: what the strict parser accepts is what the encoder writes *)
Theorem primitive_contents_der_unique :
  (forall c z, parse_int64_with (check_integer false) c = Ok z -> int64_enc z = c) /\
  (forall c z, parse_bigint_with (check_integer false) c = Ok z -> bigint_enc z = c) /\
  (forall c b, parse_bool c = Ok b -> c = [if b then xff else x00]) /\
  (forall c body n, parse_bitstring c = Ok (body, n) -> bitstring_enc body n = c) /\
  (forall c l, ~ oid_leading80 c -> parse_oid (parse_base128 Fork) false c = Ok l -> oid_enc l = Ok c) /\
  (forall c t, parse_gentime false c = Ok t -> gentime_enc t = Ok c) /\
  (forall c t, parse_time_layout false false false c = None -> parse_utctime c = Ok t -> utctime_enc t = Ok c).
Proof.
  repeat split.
  - exact int64_parse_emit. - exact bigint_parse_emit. - exact bool_parse_emit. - exact bitstring_parse_emit.
  - exact oid_parse_emit_fork. - exact gentime_parse_emit. - exact utctime_parse_emit.
Qed.
Print Assumptions primitive_contents_der_unique.

(* integers land in the range of their Go type *)
Theorem integer_ranges :
  (forall chk c z, parse_int32_with chk c = Ok z -> -2147483648 <= z <= 2147483647) /\
  (forall chk c z, parse_int64_with chk c = Ok z -> chk c = Ok tt -> c <> [] -> -9223372036854775808 <= z < 9223372036854775808).
Proof. split; [exact int32_range|intros chk c z; exact (int64_range c chk z)]. Qed.
Print Assumptions integer_ranges.

(* Marshal(Unmarshal(DER)) = DER, PARTIAL: proved for untagged values of the primitive kinds
   (BOOLEAN, INTEGER into int / int32 / int64 / *big.Int, ENUMERATED, BIT STRING, OID, OCTET STRING,
   PrintableString / UTF8String as Marshal chooses them, UTCTime with seconds, GeneralizedTime outside
   1950..2049).  The full statement - every type, tagged / optional / explicit fields, structs, SEQUENCE OF,
   RawValue, RawContent - is checked differentially by the harness (oracle "Marshal(Unmarshal(DER))"),
   not proved: see props/C10.json "partial". *)
Definition marshal_unmarshal_der_full_statement : Prop :=
  forall t toks d x, (* der_canonical t toks d -> *) unmarshal Fork t toks d = Ok (x, []) -> marshal Fork t toks x = Ok d.
Theorem marshal_unmarshal_der_partial : forall t d x rest,
  plain_leaf t = true -> ~ long_tag_leading80 d ->
  parse_field Fork (fun _ => leaves_of Fork false) t params0 d = Ok (x, rest) ->
  (forall h utag inner rest', header_phase (parse_base128 Fork) t params0 d = Ok (HBody h utag inner rest') -> leaf_canonical t utag inner) ->
  make_field Fork t params0 x = Ok (consumed d rest).
Proof. exact leaf_field_roundtrip. Qed.
Print Assumptions marshal_unmarshal_der_partial.

(* non-vacuity *)
Example header_examples :
  parse_tl Fork (hex "3082012c"%string ++ hex "ff"%string) = Ok (mkTl 0 16 300 true, hex "ff"%string) /\
  append_tl (mkTl 2 16383 128 true) = hex "bfff7f8180"%string /\
  parse_tl Fork (hex "1f8081000500"%string) = Ok (mkTl 0 128 5 false, hex "00"%string) /\
  parse_tl Upstream (hex "1f8081000500"%string) = ErrSyntax /\
  long_tag_leading80 (hex "1f8081000500"%string).
Proof. repeat split; try (vm_compute; reflexivity). exists x1f, (hex "81000500"%string). split; reflexivity. Qed.

(* a non-minimal INTEGER three levels down: refused in strict mode, accepted under "lax" given at the
   top only; the malformed element is the located one *)
Definition nested_ty : aty :=
  TStruct false (FCons [] (TSeqOf false (TStruct false (FCons [KExplicit; KTag 0] (TInt true) (FCons [KOptional] TOid FNil)))) FNil).
Example lax_examples :
  unmarshal Fork nested_ty [] (hex "300a30083006a00402020005"%string) = ErrStruct /\
  unmarshal Fork nested_ty [KLax] (hex "300a30083006a00402020005"%string) = Ok (VStruct None [VList [VStruct None [VInt 5; VNil]]], []) /\
  nonminimal_int (hex "0005"%string) /\
  unmarshal Fork TOid [KLax] (hex "0600"%string) = Ok (VOid [], []) /\ unmarshal Fork TOid [] (hex "0600"%string) = ErrSyntax /\
  unmarshal Fork TString [KLax] (hex "1302e961"%string) = Ok (VStr (hex "c3a961"%string), []) /\ unmarshal Fork TString [] (hex "1302e961"%string) = ErrSyntax.
Proof. repeat split; try (vm_compute; reflexivity). exists x00, x05, []. split; [reflexivity|left; split; vm_compute; [reflexivity|reflexivity]]. Qed.

Example D_examples :
  unmarshal Fork TOid [] (hex "0603800105"%string) = Ok (VOid [0; 1; 5], []) /\ unmarshal Upstream TOid [] (hex "0603800105"%string) = ErrSyntax /\
  unmarshal Upstream TTime [] (hex "181132303230303130313030303030302e355a"%string) = Ok (VTime (mkTime 2020 1 1 0 0 0 500000000 0), []) /\
  unmarshal Fork TTime [] (hex "181132303230303130313030303030302e355a"%string) = ErrOther.
Proof. repeat split; vm_compute; reflexivity. Qed.

Example roundtrip_examples :
  unmarshal Fork TBigInt [] (hex "0209008000000000000000"%string) = Ok (VInt 9223372036854775808, []) /\
  marshal Fork TBigInt [] (VInt 9223372036854775808) = Ok (hex "0209008000000000000000"%string) /\
  marshal Fork (TStruct true (FCons [] (TInt true) FNil)) [] (VStruct (Some (hex "3003020105"%string)) [VInt 7]) = Ok (hex "3003020105"%string) /\
  marshal Upstream (TSeqOf true (TInt true)) [] (VList [VInt 2; VInt 1]) = Ok (hex "3106020101020102"%string) /\
  marshal Fork (TSeqOf true (TInt true)) [] (VList [VInt 2; VInt 1]) = Ok (hex "3106020102020101"%string).
Proof. repeat split; vm_compute; reflexivity. Qed.
